import SdbModel.Lemmas.ReconcilerRound

/-!
  Lemmas.ReconcilerTimer — the retry timer is armed exactly for the head of the
  time queue, every retry time satisfies a bound `P` that the backoff respects
  (`QInv`); the invariant `WInv` of all reachable between-round states, the
  invariant `SInv` once failures have stopped, and what an idle state looks like.
-/
namespace Sdb.Rec


/-- the timer will wake the loop no later than `t` -/
def TimerBy (tm : Timer) (t : Nat) : Prop := tm = .fired ∨ ∃ u, tm = .armed u ∧ u ≤ t

/-- the retry timer is armed exactly for the head of the time queue (or has
    fired for a head that is due), every retry time satisfies `P` -/
structure QInv (P : Nat → Prop) (r : R) : Prop where
  tmSome : ∀ h, r.head = some h → r.timer = .armed h.retryAt ∨ (r.timer = .fired ∧ h.retryAt ≤ r.now)
  tmNone : r.head = none → r.timer = .none ∨ r.timer = .stopped
  times : ∀ it ∈ r.items, P it.retryAt
  pw : r.items.Pairwise (fun a b => a.id ≠ b.id)
  objid : ∀ it ∈ r.items, it.obj.id = it.id

/-- `P` holds of every retry time a failure can produce now -/
def PAdd (P : Nat → Prop) (r : R) : Prop := ∀ n, P (r.now + backoff r.cfg.minB r.cfg.maxB n)

theorem QInv.timer {P : Nat → Prop} {r : R} (h : QInv P r) : ∀ it ∈ r.items, it.inQueue = true → TimerBy r.timer it.retryAt := by
  intro it hit hq
  cases hh : r.head with
  | none => have := (head_none_iff r).1 hh it hit; rw [hq] at this; cases this
  | some h0 =>
    have hle := (head_spec hh).2.2 it hit hq
    rcases h.tmSome h0 hh with a | a
    · exact Or.inr ⟨_, a, hle⟩
    · exact Or.inl a.1

theorem QInv.congr {P : Nat → Prop} {r r' : R} (h : QInv P r) (h1 : r'.items = r.items) (h2 : r'.timer = r.timer)
    (h3 : r'.now = r.now) : QInv P r' := by
  have hh : r'.head = r.head := by unfold R.head R.queue; rw [h1]
  obtain ⟨a, b, c, d, e⟩ := h
  constructor <;> simp only [hh, h1, h2, h3] <;> assumption

theorem items_unique {r : R} (hpw : r.items.Pairwise (fun a b => a.id ≠ b.id)) {a b : Item} (ha : a ∈ r.items) (hb : b ∈ r.items)
    (hid : a.id = b.id) : a = b := by
  rcases pairwise_mem_eq hpw ha hb with e | e | e
  · exact e
  · exact absurd hid e
  · exact absurd hid.symm e

/-- the head's retry time is the same in two states when the head of the first
    is present and queued in the second and the second has no other queued items -/
theorem head_retryAt_eq {r r' : R} {h h' : Item} (hh : r.head = some h) (hh' : r'.head = some h')
    (hsub : ∀ it ∈ r'.items, it.inQueue = true → it ∈ r.items) (hin : h ∈ r'.items) : h'.retryAt = h.retryAt := by
  obtain ⟨_, hq, hmin⟩ := head_spec hh
  obtain ⟨hm', hq', hmin'⟩ := head_spec hh'
  have := hmin h' (hsub h' hm' hq') hq'
  have := hmin' h hin hq
  omega

theorem newTimer_none (tm : Timer) : newTimer tm none = .none ∨ newTimer tm none = .stopped := by
  cases tm <;> simp [newTimer]

theorem newTimer_some (tm : Timer) (h : Item) : newTimer tm (some h) = .armed h.retryAt := by
  cases tm <;> rfl

theorem QInv.retryClear {P : Nat → Prop} {r : R} (h : QInv P r) (id : Nat) : QInv P (r.retryClear id) := by
  unfold R.retryClear
  split
  · exact h
  · rename_i it0 hfind
    have hit0 : it0 ∈ r.items := List.mem_of_find?_eq_some hfind
    have hid0 : it0.id = id := by simpa using List.find?_some hfind
    simp only
    have hmemf : ∀ it, it ∈ r.items.filter (·.id ≠ id) ↔ it ∈ r.items ∧ it.id ≠ id := by
      intro it; rw [List.mem_filter]; simp
    split
    · -- the head was removed: the timer is reset for the new head
      refine ⟨fun h' hh' => ?_, fun hh' => ?_, fun it hit => h.times it ((hmemf it).1 hit).1, h.pw.filter _,
        fun it hit => h.objid it ((hmemf it).1 hit).1⟩
      · have hh2 : R.head ({ r with items := r.items.filter (·.id ≠ id) } : R) = some h' := hh'
        show newTimer r.timer (R.head ({ r with items := r.items.filter (·.id ≠ id) } : R)) = _ ∨ _
        rw [hh2]; exact Or.inl (newTimer_some _ _)
      · have hh2 : R.head ({ r with items := r.items.filter (·.id ≠ id) } : R) = none := hh'
        show newTimer r.timer (R.head ({ r with items := r.items.filter (·.id ≠ id) } : R)) = _ ∨ _
        rw [hh2]; exact newTimer_none _
    · rename_i hnh
      -- the head (if any) stays
      have hkeep : ∀ h0, r.head = some h0 → h0 ∈ r.items.filter (·.id ≠ id) := by
        intro h0 hh0
        obtain ⟨hm0, hq0, _⟩ := head_spec hh0
        rw [hmemf]
        refine ⟨hm0, fun e => hnh ⟨?_, by rw [hh0]; simp [e]⟩⟩
        rw [items_unique h.pw hit0 hm0 (by omega)]; exact hq0
      refine ⟨fun h' hh' => ?_, fun hh' => ?_, fun it hit => h.times it ((hmemf it).1 hit).1, h.pw.filter _,
        fun it hit => h.objid it ((hmemf it).1 hit).1⟩
      · simp only at hh' ⊢
        obtain ⟨hm', hq', _⟩ := head_spec hh'
        simp only at hm'
        cases hh0 : r.head with
        | none => have := (head_none_iff r).1 hh0 h' ((hmemf h').1 hm').1; rw [hq'] at this; cases this
        | some h0 =>
          have e := head_retryAt_eq hh0 hh' (fun it hit _ => ((hmemf it).1 hit).1) (hkeep h0 hh0)
          rw [e]; exact h.tmSome h0 hh0
      · simp only at hh' ⊢
        cases hh0 : r.head with
        | none => exact h.tmNone hh0
        | some h0 =>
          have := (head_none_iff _).1 hh' h0 (hkeep h0 hh0)
          rw [(head_spec hh0).2.1] at this; cases this

theorem QInv.retryPop {P : Nat → Prop} {r : R} (h : QInv P r) : QInv P r.retryPop := by
  unfold R.retryPop
  split
  · exact h
  · rename_i h0 hh0
    simp only
    refine ⟨fun h' hh' => ?_, fun hh' => ?_, fun it hit => ?_, ?_, fun it hit => ?_⟩
    · have hh2 : R.head ({ r with items := r.items.map fun (i : Item) => if i.id = h0.id then { i with inQueue := false } else i } : R) = some h' := hh'
      show newTimer r.timer (R.head ({ r with items := r.items.map fun (i : Item) => if i.id = h0.id then { i with inQueue := false } else i } : R)) = _ ∨ _
      rw [hh2]; exact Or.inl (newTimer_some _ _)
    · have hh2 : R.head ({ r with items := r.items.map fun (i : Item) => if i.id = h0.id then { i with inQueue := false } else i } : R) = none := hh'
      show newTimer r.timer (R.head ({ r with items := r.items.map fun (i : Item) => if i.id = h0.id then { i with inQueue := false } else i } : R)) = _ ∨ _
      rw [hh2]; exact newTimer_none _
    · simp only [List.mem_map] at hit
      obtain ⟨i, hi, rfl⟩ := hit
      have := h.times i hi
      split <;> exact this
    · simp only
      rw [List.pairwise_map]
      refine h.pw.imp ?_
      intro a b hab
      split <;> split <;> simpa using hab
    · simp only [List.mem_map] at hit
      obtain ⟨i, hi, rfl⟩ := hit
      have := h.objid i hi
      split <;> exact this

theorem qinv_add_core {P : Nat → Prop} {r : R} (h : QInv P r) (itn : Item) (ts : Bool) (X : Nat) (hitnid : itn.id = X)
    (hitnq : itn.inQueue = true) (hitno : itn.obj.id = X) (hitnP : P itn.retryAt)
    (hnq : ∀ it ∈ r.items, it.id = X → it.inQueue = false) :
    QInv P { ({ r with items := r.items.filter (·.id ≠ X) ++ [itn], tieSeen := ts } : R) with
      timer := if (({ r with items := r.items.filter (·.id ≠ X) ++ [itn], tieSeen := ts } : R).head.map (·.id)) = some X
        then newTimer r.timer ({ r with items := r.items.filter (·.id ≠ X) ++ [itn], tieSeen := ts } : R).head else r.timer } := by
  have hmem : ∀ it, it ∈ r.items.filter (·.id ≠ X) ++ [itn] ↔ (it ∈ r.items ∧ it.id ≠ X) ∨ it = itn := by
    intro it
    simp only [List.mem_append, List.mem_filter, List.mem_singleton]
    simp
  have hitnm : itn ∈ r.items.filter (·.id ≠ X) ++ [itn] := (hmem itn).2 (Or.inr rfl)
  refine ⟨fun h' hh' => ?_, fun hh' => ?_, fun it hit => ?_, ?_, fun it hit => ?_⟩
  · have hh2 : R.head ({ r with items := r.items.filter (·.id ≠ X) ++ [itn], tieSeen := ts } : R) = some h' := hh'
    simp only
    rw [hh2]
    simp only [Option.map_some, Option.some.injEq]
    split
    · exact Or.inl (newTimer_some _ _)
    · rename_i hne
      obtain ⟨hm', hq', hmin'⟩ := head_spec hh2
      rcases (hmem h').1 hm' with ⟨hm0, hid0⟩ | e
      · -- the old head
        cases hh0 : r.head with
        | none => have := (head_none_iff r).1 hh0 h' hm0; rw [hq'] at this; cases this
        | some h0 =>
          obtain ⟨hm00, hq00, _⟩ := head_spec hh0
          have hin : h0 ∈ r.items.filter (·.id ≠ X) ++ [itn] := by
            rw [hmem]; left
            refine ⟨hm00, fun e => ?_⟩
            have := hnq h0 hm00 e; rw [hq00] at this; cases this
          -- h'.retryAt = h0.retryAt
          have e1 := (head_spec hh0).2.2 h' hm0 hq'
          have e2 := hmin' h0 hin hq00
          have e : h'.retryAt = h0.retryAt := by omega
          rw [e]; exact h.tmSome h0 hh0
      · rw [e] at hne; exact absurd hitnid hne
  · have hh2 : R.head ({ r with items := r.items.filter (·.id ≠ X) ++ [itn], tieSeen := ts } : R) = none := hh'
    have := (head_none_iff _).1 hh2 itn hitnm
    rw [hitnq] at this; cases this
  · rcases (hmem it).1 hit with ⟨hm0, _⟩ | e
    · exact h.times it hm0
    · rw [e]; exact hitnP
  · simp only
    rw [List.pairwise_append]
    refine ⟨h.pw.filter _, by simp, fun a ha b hb => ?_⟩
    have := (List.mem_filter.1 ha).2
    simp only [List.mem_singleton] at hb
    rw [hb, hitnid]; simpa using this
  · rcases (hmem it).1 hit with ⟨hm0, _⟩ | e
    · exact h.objid it hm0
    · rw [e, hitno, hitnid]

theorem QInv.retryAdd {P : Nat → Prop} {r : R} (h : QInv P r) (hp : PAdd P r) (o : RObj) (a b : Nat) (d : Bool)
    (hnq : ∀ it ∈ r.items, it.id = o.id → it.inQueue = false) :
    QInv P (r.retryAdd o a b d) :=
  qinv_add_core h _ _ o.id rfl rfl rfl (hp _) hnq

theorem PAdd.congr {P : Nat → Prop} {r r' : R} (h : PAdd P r) (h1 : r'.now = r.now) (h2 : r'.cfg = r.cfg) : PAdd P r' := by
  unfold PAdd; rw [h1, h2]; exact h

theorem failing_ne_nil {r : R} {id : Nat} (h : r.isFailing id = true) : r.failing ≠ [] := by
  unfold R.isFailing at h
  intro e; rw [e] at h; simp at h

theorem QInv.processSingle {P : Nat → Prop} {r : R} (h : QInv P r) (hinj : r.injects = []) (hp : r.failing ≠ [] → PAdd P r)
    (obj : RObj) (rev : Nat) (del : Bool) (hnq : del = true → ∀ it ∈ r.items, it.id = obj.id → it.inQueue = false) :
    QInv P (r.processSingle obj rev del) ∧
    ∀ res ∈ (r.processSingle obj rev del).results, res ∈ r.results ∨ (res.2.2.2.2 = true → r.failing ≠ []) := by
  cases del with
  | false =>
    rw [processSingle_update hinj]
    split
    · rename_i hf
      refine ⟨h.congr rfl rfl rfl, fun res hres => ?_⟩
      rcases List.mem_append.1 hres with a | a
      · exact Or.inl a
      · exact Or.inr (fun _ => failing_ne_nil hf)
    · refine ⟨by apply QInv.retryClear; exact h.congr rfl rfl rfl, fun res hres => ?_⟩
      rw [retryClear_results] at hres
      rcases List.mem_append.1 hres with a | a
      · exact Or.inl a
      · simp only [List.mem_singleton] at a
        rw [a]; exact Or.inr (fun e => by cases e)
  | true =>
    rw [processSingle_delete]
    split
    · rename_i hf
      refine ⟨?_, fun res hres => Or.inl hres⟩
      apply QInv.retryAdd
      · exact h.congr rfl rfl rfl
      · exact (hp (failing_ne_nil hf)).congr rfl rfl
      · exact hnq rfl
    · refine ⟨by apply QInv.retryClear; exact h.congr rfl rfl rfl, fun res hres => ?_⟩
      rw [retryClear_results] at hres
      exact Or.inl hres

theorem QInv.commitOne {P : Nat → Prop} {r : R} (h : QInv P r) (res : Res) {rs : List Res} (hI : InvL r (res :: rs))
    (hp : res.2.2.2.2 = true → PAdd P r) : QInv P (r.commitOne res) := by
  obtain ⟨obj, orig, rev, sid, failed⟩ := res
  obtain ⟨horig, _, hlive⟩ := hI.resOK _ (List.mem_cons_self ..)
  simp only at horig hlive
  unfold R.commitOne
  simp only
  split
  · exact h
  · rename_i cur hg
    rw [get_eq_some_iff hI.tinv] at hg
    split
    · rename_i hrev
      split
      · rename_i hf
        apply QInv.retryAdd
        · exact h.congr rfl rfl rfl
        · exact (hp hf).congr rfl rfl
        · intro it hit hid
          rcases hlive cur hg.1 hg.2 with a | a
          · exact (a.2.2 it hit (by omega)).1
          · exact absurd hrev a.1
      · exact h.congr rfl rfl rfl
    · rename_i hrev
      split
      · rename_i hk
        rcases hlive cur hg.1 hg.2 with a | a
        · exact absurd a.1 hrev
        · rcases a.2 with e | e <;> rw [hk.1] at e <;> cases e
      · exact h

theorem QInv.foldl_commitOne {P : Nat → Prop} (rs : List Res) {r : R} (h : QInv P r) (hI : InvL r rs)
    (hp : ∀ res ∈ rs, res.2.2.2.2 = true → PAdd P r) : QInv P (rs.foldl R.commitOne r) := by
  induction rs generalizing r with
  | nil => exact h
  | cons x xs ih =>
    refine ih (h.commitOne x hI (hp x (List.mem_cons_self ..))) hI.commitOne (fun res hres hf => ?_)
    have hrel := commitRel_commitOne r x
    exact (hp res (List.mem_cons_of_mem _ hres) hf).congr hrel.now hrel.cfg

theorem QInv.commitStatus {P : Nat → Prop} {r : R} (h : QInv P r) (hI : InvL r r.results)
    (hp : ∀ res ∈ r.results, res.2.2.2.2 = true → PAdd P r) : QInv P r.commitStatus :=
  (h.foldl_commitOne r.results hI hp).congr rfl rfl rfl

/-- `QInv` inside a round -/
structure QR (P : Nat → Prop) (r : R) : Prop where
  q : QInv P r
  noinj : r.injects = []
  hp : r.failing ≠ [] → PAdd P r
  hres : ∀ res ∈ r.results, res.2.2.2.2 = true → r.failing ≠ []

theorem QR.congr {P : Nat → Prop} {r r' : R} (h : QR P r) (h1 : r'.items = r.items) (h2 : r'.timer = r.timer)
    (h3 : r'.injects = r.injects) (h4 : r'.failing = r.failing) (h5 : r'.now = r.now) (h6 : r'.cfg = r.cfg)
    (h7 : r'.results = r.results) : QR P r' := by
  refine ⟨h.q.congr h1 h2 h5, h3.trans h.noinj, ?_, ?_⟩
  · rw [h4]; exact fun e => (h.hp e).congr h5 h6
  · rw [h4, h7]; exact h.hres

/-- time, configuration and failure switches are untouched -/
def NCF (r r' : R) : Prop := r'.now = r.now ∧ r'.cfg = r.cfg ∧ r'.failing = r.failing

theorem NCF.refl (r : R) : NCF r r := ⟨rfl, rfl, rfl⟩
theorem NCF.trans {a b c : R} (h1 : NCF a b) (h2 : NCF b c) : NCF a c :=
  ⟨h2.1.trans h1.1, h2.2.1.trans h1.2.1, h2.2.2.trans h1.2.2⟩
theorem FrameT.ncf {r r' : R} (h : FrameT r r') : NCF r r' := ⟨h.now, h.cfg, h.failing⟩

theorem QR.processSingle {P : Nat → Prop} {r : R} (h : QR P r) (obj : RObj) (rev : Nat) (del : Bool)
    (hnq : del = true → ∀ it ∈ r.items, it.id = obj.id → it.inQueue = false) :
    QR P (r.processSingle obj rev del) := by
  obtain ⟨hq, hres⟩ := h.q.processSingle h.noinj h.hp obj rev del hnq
  obtain ⟨hf, _⟩ := frameT_processSingle h.noinj obj rev del
  refine ⟨hq, hf.injects.trans h.noinj, ?_, ?_⟩
  · rw [hf.failing]; exact fun e => (h.hp e).congr hf.now hf.cfg
  · rw [hf.failing]
    intro res hr hfl
    rcases hres res hr with a | a
    · exact h.hres res a hfl
    · exact a hfl

theorem QR.retryClear {P : Nat → Prop} {r : R} (h : QR P r) (id : Nat) : QR P (r.retryClear id) := by
  refine ⟨h.q.retryClear id, by rw [retryClear_injects]; exact h.noinj, ?_, ?_⟩
  · rw [retryClear_failing]; exact fun e => (h.hp e).congr (by simp) (by simp)
  · rw [retryClear_failing, retryClear_results]; exact h.hres

theorem QR.retryPop {P : Nat → Prop} {r : R} (h : QR P r) : QR P r.retryPop := by
  refine ⟨h.q.retryPop, by rw [retryPop_injects]; exact h.noinj, ?_, ?_⟩
  · rw [retryPop_failing]; exact fun e => (h.hp e).congr (by simp) (by simp)
  · rw [retryPop_failing, retryPop_results]; exact h.hres

theorem QR.consume {P : Nat → Prop} (cs : List Change) {r : R} (last : Nat) (h : QR P r) :
    QR P (r.consume cs last).1 ∧ NCF r (r.consume cs last).1 := by
  induction cs generalizing r last with
  | nil => rw [consume_nil]; exact ⟨h, NCF.refl r⟩
  | cons c cs ih =>
    unfold R.consume
    simp only
    have h1 : QR P (if c.deleted = true then { r with itDelRev := c.rev } else { r with itRev := c.rev }) := by
      cases c.deleted
      · exact h.congr rfl rfl rfl rfl rfl rfl rfl
      · exact h.congr rfl rfl rfl rfl rfl rfl rfl
    have n1 : NCF r (if c.deleted = true then { r with itDelRev := c.rev } else { r with itRev := c.rev }) := by
      cases c.deleted <;> exact ⟨rfl, rfl, rfl⟩
    generalize (if c.deleted = true then ({ r with itDelRev := c.rev } : R) else { r with itRev := c.rev }) = r1 at h1 n1 ⊢
    split
    · exact ⟨(ih _ h1).1, n1.trans (ih _ h1).2⟩
    · have h2 := (h1.retryClear c.obj.id).processSingle c.obj c.rev c.deleted (by
        intro _ it hit hid
        rw [retryClear_items] at hit
        have := (List.mem_filter.1 hit).2
        simp at this; exact absurd hid this)
      have n2 : NCF r1 ((r1.retryClear c.obj.id).processSingle c.obj c.rev c.deleted) :=
        (frameT_retryClear r1 c.obj.id).ncf.trans (frameT_processSingle (h1.retryClear c.obj.id).noinj _ _ _).1.ncf
      generalize (r1.retryClear c.obj.id).processSingle c.obj c.rev c.deleted = r2 at h2 n2 ⊢
      have n3 : NCF r2 { r2 with numReconciled := r2.numReconciled + 1 } := ⟨rfl, rfl, rfl⟩
      split
      · exact ⟨h2.congr rfl rfl rfl rfl rfl rfl rfl, (n1.trans n2).trans n3⟩
      · have := ih c.rev (h2.congr (r' := { r2 with numReconciled := r2.numReconciled + 1 }) rfl rfl rfl rfl rfl rfl rfl)
        exact ⟨this.1, ((n1.trans n2).trans n3).trans this.2⟩

theorem QR.processRetries {P : Nat → Prop} (fuel : Nat) {r : R} (h : QR P r) :
    QR P (r.processRetries fuel) ∧ NCF r (r.processRetries fuel) := by
  induction fuel generalizing r with
  | zero => exact ⟨h, NCF.refl r⟩
  | succ n ih =>
    unfold R.processRetries
    split
    · exact ⟨h, NCF.refl r⟩
    · split
      · exact ⟨h, NCF.refl r⟩
      · rename_i it0 hh0
        split
        · exact ⟨h, NCF.refl r⟩
        · have h2 := h.retryPop.processSingle it0.obj it0.rev it0.delete (by
            intro _ it hit hid
            rw [retryPop_items r it0 hh0] at hit
            simp only [List.mem_map] at hit
            obtain ⟨i, hi, rfl⟩ := hit
            have ho := h.q.objid it0 (head_spec hh0).1
            split
            · rfl
            · rename_i hne
              rw [if_neg hne] at hid
              exact absurd (hid.trans ho) hne)
          have n2 : NCF r (r.retryPop.processSingle it0.obj it0.rev it0.delete) :=
            (frameT_retryPop r).ncf.trans (frameT_processSingle h.retryPop.noinj _ _ _).1.ncf
          dsimp only
          generalize r.retryPop.processSingle it0.obj it0.rev it0.delete = r2 at h2 n2 ⊢
          have n3 : NCF r2 { r2 with numReconciled := r2.numReconciled + 1 } := ⟨rfl, rfl, rfl⟩
          have := ih (h2.congr (r' := { r2 with numReconciled := r2.numReconciled + 1 }) rfl rfl rfl rfl rfl rfl rfl)
          exact ⟨this.1, (n2.trans n3).trans this.2⟩

theorem commitOne_injects (r : R) (res : Res) : (r.commitOne res).injects = r.injects := by
  obtain ⟨obj, orig, rev, sid, failed⟩ := res
  unfold R.commitOne
  simp only
  split
  · rfl
  · split
    · split <;> rfl
    · split
      · split <;> rfl
      · rfl

theorem foldl_commitOne_injects (rs : List Res) (r : R) : (rs.foldl R.commitOne r).injects = r.injects := by
  induction rs generalizing r with
  | nil => rfl
  | cons x xs ih => rw [List.foldl_cons, ih, commitOne_injects]

theorem commitStatus_injects (r : R) : r.commitStatus.injects = r.injects := foldl_commitOne_injects _ _

theorem QR.commitStatus {P : Nat → Prop} {r : R} (h : QR P r) (hI : InvL r r.results) : QR P r.commitStatus ∧ NCF r r.commitStatus := by
  obtain ⟨r', hrel, he⟩ := commitStatus_rel r
  have hf : r.commitStatus.failing = r.failing := by rw [he]; exact hrel.failing
  have hn : r.commitStatus.now = r.now := by rw [he]; exact hrel.now
  have hc : r.commitStatus.cfg = r.cfg := by rw [he]; exact hrel.cfg
  refine ⟨⟨h.q.commitStatus hI (fun res hr hf => h.hp (h.hres res hr hf)), ?_, ?_, ?_⟩, hn, hc, hf⟩
  · rw [commitStatus_injects]; exact h.noinj
  · rw [hf]; exact fun e => (h.hp e).congr hn hc
  · intro res hr; rw [commitStatus_results] at hr; cases hr


theorem roundTail_q {P : Nat → Prop} {r3 : R} (last : Nat) (hI3 : InvL r3 r3.results)
    (hcu3 : r3.numReconciled < r3.cfg.roundSize → CaughtUp r3) (h3 : QR P r3) :
    QInv P (roundTail r3 last) ∧ NCF r3 (roundTail r3 last) := by
  unfold roundTail
  dsimp only
  have hI4 := hI3.commitStatus
  obtain ⟨h4, n4⟩ := h3.commitStatus hI3
  obtain ⟨r4', hR4, hr4⟩ := commitStatus_rel r3
  have hres4 := commitStatus_results r3
  generalize r3.commitStatus = r4 at hI4 hr4 hres4 h4 n4 ⊢
  have hcu4 : r4.numReconciled < r4.cfg.roundSize → CaughtUp r4 := by
    intro hlt
    rw [hr4] at hlt ⊢
    simp only at hlt
    rw [hR4.numReconciled, hR4.cfg] at hlt
    exact (hR4.caughtUp (hcu3 hlt)).congr rfl rfl rfl rfl
  rw [← hres4] at hI4
  obtain ⟨hI5, hF5⟩ := hI4.processRetries (r4.items.length + 1) hcu4
  obtain ⟨h5, n5⟩ := h4.processRetries (r4.items.length + 1)
  generalize r4.processRetries (r4.items.length + 1) = r5 at hI5 hF5 h5 n5 ⊢
  obtain ⟨h6, n6⟩ := h5.commitStatus hI5
  generalize r5.commitStatus = r6 at h6 n6 ⊢
  have n := (n4.trans n5).trans n6
  exact ⟨h6.q.congr rfl rfl rfl, n⟩

/-- one round preserves `QInv` -/
theorem QInv.round {P : Nat → Prop} {r : R} (h : QInv P r) (hr : RInv r)
    (hp : r.failing ≠ [] → PAdd P r) : QInv P r.round ∧ r.round.now = r.now ∧ r.round.cfg = r.cfg ∧ r.round.failing = r.failing := by
  have h0 : QR P r := ⟨h, hr.inv.noinj, hp, by rw [hr.res]; simp⟩
  have h1 : QR P r.nextChanges.1 := by
    rcases nextChanges_fst r with e | e <;> rw [e]
    · exact h0
    · exact h0.congr rfl rfl rfl rfl rfl rfl rfl
  have n1 : NCF r r.nextChanges.1 := by
    rcases nextChanges_fst r with e | e <;> rw [e] <;> exact ⟨rfl, rfl, rfl⟩
  have hnc : InvL r.nextChanges.1 r.nextChanges.1.results ∧ r.nextChanges.1.results = [] := by
    rcases nextChanges_fst r with e | e <;> rw [e]
    · exact ⟨InvL.cast_results hr.res hr.inv, hr.res⟩
    · exact ⟨InvL.cast_results hr.res (hr.inv.set_refreshedAt _ (Nat.le_refl _)), hr.res⟩
  have hch := chOK_nextChanges hr.inv.tinv hr.sync
  rw [round_eq']
  generalize r.nextChanges = nc at h1 n1 hnc hch ⊢
  obtain ⟨hI1, hres1⟩ := hnc
  rw [← hres1] at hch
  obtain ⟨hI2, hC2, hF2, hfull⟩ := hI1.consume nc.2 0 hch
  obtain ⟨h2, n2⟩ := h1.consume nc.2 0
  generalize nc.1.consume nc.2 0 = co at h2 n2 hI2 hC2 hF2 hfull ⊢
  generalize (if nc.2.isEmpty ∧ co.1.pending.isNone then none else
      if (co.2.1.isEmpty ∧ co.1.numReconciled < co.1.cfg.roundSize) then none else some co.2.1 : Option (List Change)) = pend
  have h3 : QR P { co.1 with pending := pend } := h2.congr rfl rfl rfl rfl rfl rfl rfl
  have n3 : NCF co.1 { co.1 with pending := pend } := ⟨rfl, rfl, rfl⟩
  have hI3 : InvL { co.1 with pending := pend } ({ co.1 with pending := pend } : R).results :=
    hI2.congr rfl rfl rfl rfl rfl rfl rfl rfl rfl
  have hcu3 : ({ co.1 with pending := pend } : R).numReconciled < ({ co.1 with pending := pend } : R).cfg.roundSize →
      CaughtUp { co.1 with pending := pend } := by
    intro hlt
    have hrr := hfull hlt
    refine ⟨fun o ho _ => ?_, fun d hd => ?_⟩
    · rcases hC2.covO o ho with a | ⟨c, hc, _⟩
      · exact a
      · rw [hrr] at hc; cases hc
    · rcases hC2.covD d hd with a | ⟨c, hc, _⟩
      · exact a
      · rw [hrr] at hc; cases hc
  obtain ⟨hq, n4⟩ := roundTail_q co.2.2 hI3 hcu3 h3
  have n := ((n1.trans n2).trans n3).trans n4
  exact ⟨hq, n.1, n.2.1, n.2.2⟩

theorem QInv.mono {P Q : Nat → Prop} {r : R} (h : QInv P r) (hPQ : ∀ t, P t → Q t) : QInv Q r :=
  ⟨h.tmSome, h.tmNone, fun it hit => hPQ _ (h.times it hit), h.pw, h.objid⟩

theorem QInv.setNow {P : Nat → Prop} {r : R} (h : QInv P r) (t : Nat) (ht : r.now ≤ t) : QInv P { r with now := t } := by
  refine ⟨fun h0 hh0 => ?_, h.tmNone, h.times, h.pw, h.objid⟩
  rcases h.tmSome h0 hh0 with a | a
  · exact Or.inl a
  · exact Or.inr ⟨a.1, by show h0.retryAt ≤ t; omega⟩

theorem QInv.fireTimer {P : Nat → Prop} {r : R} (h : QInv P r) : QInv P r.fireTimer := by
  unfold R.fireTimer
  split
  · rename_i t ht
    split
    · rename_i hle
      refine ⟨fun h0 hh0 => ?_, fun hh0 => ?_, h.times, h.pw, h.objid⟩
      · rcases h.tmSome h0 hh0 with a | a
        · rw [ht] at a; cases a
          exact Or.inr ⟨rfl, hle⟩
        · rw [ht] at a; cases a.1
      · rcases h.tmNone hh0 with a | a <;> rw [ht] at a <;> cases a
    · exact h
  · exact h

theorem fireTimer_frame (r : R) : r.fireTimer.injects = r.injects ∧ r.fireTimer.results = r.results ∧ r.fireTimer.failing = r.failing ∧
    r.fireTimer.now = r.now ∧ r.fireTimer.cfg = r.cfg := by
  unfold R.fireTimer
  split
  · split
    · exact ⟨rfl, rfl, rfl, rfl, rfl⟩
    · exact ⟨rfl, rfl, rfl, rfl, rfl⟩
  · exact ⟨rfl, rfl, rfl, rfl, rfl⟩

theorem pAdd_bound (r : R) : PAdd (fun t => t ≤ r.now + r.cfg.maxB) r := by
  intro n
  have : backoff r.cfg.minB r.cfg.maxB n ≤ r.cfg.maxB := by unfold backoff; simp only; split <;> omega
  show r.now + backoff r.cfg.minB r.cfg.maxB n ≤ r.now + r.cfg.maxB
  omega

/-- the invariant of all reachable between-round states: bookkeeping, timer, and every retry is due within the maximal backoff -/
structure WInv (r : R) : Prop where
  rinv : RInv r
  q : QInv (fun t => t ≤ r.now + r.cfg.maxB) r

theorem WInv.init (c : Cfg) : WInv { cfg := c } :=
  ⟨RInv.init c, ⟨fun h hh => (by simp [R.head, R.queue] at hh), fun _ => Or.inl rfl, fun it hit => (by cases hit), List.Pairwise.nil, fun it hit => (by cases hit)⟩⟩

theorem WInv.fireTimer {r : R} (h : WInv r) : WInv r.fireTimer := by
  obtain ⟨_, _, _, e1, e2⟩ := fireTimer_frame r
  refine ⟨h.rinv.fireTimer, ?_⟩
  rw [e1, e2]; exact h.q.fireTimer

theorem WInv.round {r : R} (h : WInv r) : WInv r.round := by
  obtain ⟨hq, e1, e2, _⟩ := h.q.round h.rinv (fun _ => pAdd_bound r)
  refine ⟨h.rinv.round, ?_⟩
  rw [e1, e2]; exact hq

theorem WInv.quiesce {r : R} (h : WInv r) (fuel : Nat) : WInv (r.quiesce fuel) := by
  induction fuel generalizing r with
  | zero => exact h
  | succ n ih =>
    unfold R.quiesce
    simp only
    split
    · exact ih h.fireTimer.round
    · exact h.fireTimer

theorem WInv.setNow {r : R} (h : WInv r) (t : Nat) (ht : r.now ≤ t) : WInv { r with now := t } :=
  ⟨h.rinv.setNow t, (h.q.mono (fun u hu => by simp only at hu ⊢; omega)).setNow t ht⟩

theorem WInv.setFailing {r : R} (h : WInv r) (l : List Nat) : WInv { r with failing := l } :=
  ⟨h.rinv.setFailing l, h.q.congr rfl rfl rfl⟩

theorem WInv.advance {r : R} (h : WInv r) (ms fuel : Nat) : WInv (r.advance ms fuel) := by
  induction fuel generalizing r ms with
  | zero => exact h.setNow _ (by omega)
  | succ n ih =>
    unfold R.advance
    simp only
    split
    · split
      · exact ih ((h.setNow _ (by omega)).quiesce 64) _
      · exact h.setNow _ (by omega)
    · exact h.setNow _ (by omega)

theorem WInv.userPut {r : R} (h : WInv r) (id data : Nat) : WInv (r.userPut id data) :=
  ⟨h.rinv.userPut id data, h.q.congr rfl rfl rfl⟩

theorem delObj_frame (r : R) (id : Nat) : (r.delObj id).items = r.items ∧ (r.delObj id).timer = r.timer ∧
    (r.delObj id).now = r.now ∧ (r.delObj id).cfg = r.cfg ∧ (r.delObj id).failing = r.failing := by
  unfold R.delObj; split <;> exact ⟨rfl, rfl, rfl, rfl, rfl⟩

theorem touch_frame (r : R) (id : Nat) : (r.touch id).items = r.items ∧ (r.touch id).timer = r.timer ∧
    (r.touch id).now = r.now ∧ (r.touch id).cfg = r.cfg ∧ (r.touch id).failing = r.failing := by
  unfold R.touch; split <;> exact ⟨rfl, rfl, rfl, rfl, rfl⟩

theorem WInv.delObj {r : R} (h : WInv r) (id : Nat) : WInv (r.delObj id) := by
  obtain ⟨e1, e2, e3, e4, _⟩ := delObj_frame r id
  refine ⟨h.rinv.delObj id, ?_⟩
  rw [e3, e4]; exact h.q.congr e1 e2 e3

theorem WInv.touch {r : R} (h : WInv r) (id : Nat) (hne : ∀ o, r.get id = some o → o.kind ≠ .error) : WInv (r.touch id) := by
  obtain ⟨e1, e2, e3, e4, _⟩ := touch_frame r id
  refine ⟨h.rinv.touch id hne, ?_⟩
  rw [e3, e4]; exact h.q.congr e1 e2 e3


theorem not_triggered {r : R} (h : r.triggered = false) :
    r.pending = none ∧ r.refreshedAt = r.tableRev ∧ r.timer ≠ .fired ∧ ∀ t, r.timer = .armed t → r.now < t := by
  unfold R.triggered at h
  simp only [Bool.or_eq_false_iff, bne_eq_false_iff_eq] at h
  obtain ⟨⟨h1, h2⟩, h3⟩ := h
  refine ⟨by cases hp : r.pending <;> simp_all, h2, ?_, ?_⟩
  · intro e; rw [e] at h3; simp at h3
  · intro t e; rw [e] at h3; simp at h3; omega

/-- in an idle state the iterator has passed every object and every retained deletion -/
theorem RInv.idle_caughtUp {r : R} (h : RInv r) (hidle : r.triggered = false) :
    (∀ o ∈ r.objs, o.rev ≤ r.itRev) ∧ (∀ d ∈ r.dels, d.2 ≤ r.itDelRev) := by
  obtain ⟨hp, href, _, _⟩ := not_triggered hidle
  obtain ⟨s1, s2⟩ := h.sync hp
  refine ⟨fun o ho => ?_, fun d hd => ?_⟩
  · rcases s1 o ho with a | a
    · exact a
    · have := h.inv.tinv.objs_le o ho; omega
  · rcases s2 d hd with a | a
    · exact a
    · have := h.inv.tinv.dels_le d hd; omega

/-- between rounds every retry item is in the time queue -/
theorem RInv.items_queued {r : R} (h : RInv r) : ∀ it ∈ r.items, it.inQueue = true := by
  intro it hit
  cases hq : it.inQueue with
  | true => rfl
  | false =>
    obtain ⟨_, _, res, hres, _⟩ := (h.inv.itemOK it hit).2.2 hq
    cases hres

/-- **nothing is forgotten**: in an idle state every live object is Done with
    the target or Error and queued for a retry; every retained deletion was
    applied or is queued for a retry -/
theorem RInv.idle_accounted {r : R} (h : RInv r) (hidle : r.triggered = false) :
    (∀ o ∈ r.objs,
      (o.kind = .done ∧ lastCall r.log o.id = some ⟨"U", o.id, o.data, true⟩) ∨
      (o.kind = .error ∧ ∃ it ∈ r.items, it.id = o.id ∧ it.delete = false ∧ it.rev = o.rev ∧ it.inQueue = true)) ∧
    (∀ d ∈ r.dels,
      (∃ c, lastCall r.log d.1.id = some c ∧ c.op = "D" ∧ c.ok = true) ∨
      (∃ it ∈ r.items, it.id = d.1.id ∧ it.delete = true ∧ it.inQueue = true)) := by
  obtain ⟨c1, c2⟩ := h.idle_caughtUp hidle
  refine ⟨fun o ho => ?_, fun d hd => ?_⟩
  · obtain ⟨a, b, c⟩ := h.inv.objOK o ho
    cases hk : o.kind with
    | done => exact Or.inl ⟨rfl, (a hk).1⟩
    | error =>
      rcases b hk with b | ⟨res, hres, _⟩
      · exact Or.inr ⟨rfl, b⟩
      · cases hres
    | pending =>
      rcases c (Or.inl hk) with c | ⟨res, hres, _⟩
      · have := c1 o ho; omega
      · cases hres
    | refreshing =>
      rcases c (Or.inr hk) with c | ⟨res, hres, _⟩
      · have := c1 o ho; omega
      · cases hres
  · rcases h.inv.delOK d hd with a | a | a
    · have := c2 d hd; omega
    · exact Or.inr a
    · exact Or.inl a.1

/-- an idle state whose retries were all due in the past has no retries left -/
theorem idle_no_items {r : R} {B : Nat} (h : RInv r) (hq : QInv (fun t => t ≤ B) r) (hB : B < r.now)
    (hidle : r.triggered = false) : r.items = [] := by
  obtain ⟨_, _, hnf, harm⟩ := not_triggered hidle
  cases hi : r.items with
  | nil => rfl
  | cons it rest =>
    have hit : it ∈ r.items := by rw [hi]; exact List.mem_cons_self ..
    have hle : it.retryAt ≤ B := hq.times it hit
    rcases hq.timer it hit (h.items_queued it hit) with a | ⟨u, a, b⟩
    · exact absurd a hnf
    · have := harm u a
      omega

/-- **converged**: target equals table -/
theorem idle_converged {r : R} {B : Nat} (h : RInv r) (hq : QInv (fun t => t ≤ B) r) (hB : B < r.now)
    (hidle : r.triggered = false) :
    (∀ o ∈ r.objs, o.kind = .done ∧ lastCall r.log o.id = some ⟨"U", o.id, o.data, true⟩) ∧
    (∀ d ∈ r.dels, ∃ c, lastCall r.log d.1.id = some c ∧ c.op = "D" ∧ c.ok = true) ∧
    r.items = [] ∧ r.lowWatermark = 0 := by
  have hitems := idle_no_items h hq hB hidle
  obtain ⟨a, b⟩ := h.idle_accounted hidle
  refine ⟨fun o ho => ?_, fun d hd => ?_, hitems, ?_⟩
  · rcases a o ho with a | ⟨_, it, hit, _⟩
    · exact a
    · rw [hitems] at hit; cases hit
  · rcases b d hd with b | ⟨it, hit, _⟩
    · exact b
    · rw [hitems] at hit; cases hit
  · unfold R.lowWatermark; rw [hitems]; rfl


/-- the invariant once failures have stopped: no retry is due later than `B` -/
structure SInv (B : Nat) (r : R) : Prop where
  rinv : RInv r
  q : QInv (fun t => t ≤ B) r
  nofail : r.failing = []

theorem WInv.toSInv {r : R} (h : WInv r) (hf : r.failing = []) : SInv (r.now + r.cfg.maxB) r := ⟨h.rinv, h.q, hf⟩

theorem SInv.fireTimer {B : Nat} {r : R} (h : SInv B r) : SInv B r.fireTimer ∧ r.fireTimer.now = r.now := by
  obtain ⟨_, _, e0, e1, _⟩ := fireTimer_frame r
  exact ⟨⟨h.rinv.fireTimer, h.q.fireTimer, e0.trans h.nofail⟩, e1⟩

theorem SInv.round {B : Nat} {r : R} (h : SInv B r) : SInv B r.round ∧ r.round.now = r.now := by
  obtain ⟨hq, e1, _, e3⟩ := h.q.round h.rinv (fun e => absurd h.nofail e)
  exact ⟨⟨h.rinv.round, hq, e3.trans h.nofail⟩, e1⟩

theorem SInv.quiesce {B : Nat} {r : R} (h : SInv B r) (fuel : Nat) : SInv B (r.quiesce fuel) ∧ (r.quiesce fuel).now = r.now := by
  induction fuel generalizing r with
  | zero => exact ⟨h, rfl⟩
  | succ n ih =>
    unfold R.quiesce
    simp only
    obtain ⟨h1, e1⟩ := h.fireTimer
    split
    · obtain ⟨h2, e2⟩ := h1.round
      obtain ⟨h3, e3⟩ := ih h2
      exact ⟨h3, by rw [e3, e2, e1]⟩
    · exact ⟨h1, e1⟩

theorem SInv.setNow {B : Nat} {r : R} (h : SInv B r) (t : Nat) (ht : r.now ≤ t) : SInv B { r with now := t } :=
  ⟨h.rinv.setNow t, h.q.setNow t ht, h.nofail⟩

theorem SInv.advance {B : Nat} {r : R} (h : SInv B r) (ms fuel : Nat) :
    SInv B (r.advance ms fuel) ∧ (r.advance ms fuel).now = r.now + ms := by
  induction fuel generalizing r ms with
  | zero => exact ⟨h.setNow _ (by omega), rfl⟩
  | succ n ih =>
    unfold R.advance
    simp only
    split
    · rename_i t _
      split
      · rename_i hle
        obtain ⟨h1, e1⟩ := (h.setNow (max t r.now) (by omega)).quiesce 64
        obtain ⟨h2, e2⟩ := ih h1 (r.now + ms - (R.quiesce { r with now := max t r.now } 64).now)
        refine ⟨h2, ?_⟩
        rw [e2, e1]
        simp only
        omega
      · exact ⟨h.setNow _ (by omega), rfl⟩
    · exact ⟨h.setNow _ (by omega), rfl⟩

end Sdb.Rec
