import SdbModel.Lemmas.LpmKey

/-! Trie invariant for C13 (LPM trie) and the refinement lemmas: insert, delete, lookups.  Core Lean only. -/
namespace Sdb.Lpm
variable {α : Type}

/-- key `(d', p')` lies in the `b`-subtree below the node with key `(d, p)` -/
def Below (d : List Nat) (p b : Nat) (d' : List Nat) (p' : Nat) : Prop :=
  p < p' ∧ Agree d d' p ∧ getBitAt d' p = b

/-- every node of the trie (imaginary ones included) satisfies `P` -/
def AllKeys (P : List Nat → Nat → Prop) : Trie α → Prop
  | .nil => True
  | .node d p _ c0 c1 => P d p ∧ AllKeys P c0 ∧ AllKeys P c1

/-- well-formed tries: canonical keys, imaginary nodes have two children, every node of the
    `b`-subtree extends the node's prefix by bit `b` -/
def WF : Trie α → Prop
  | .nil => True
  | .node d p v c0 c1 => Canon d p ∧ (v = none → c0 ≠ .nil ∧ c1 ≠ .nil) ∧
      AllKeys (Below d p 0) c0 ∧ AllKeys (Below d p 1) c1 ∧ WF c0 ∧ WF c1

/-- what the walks know about `matchLen` when they arrive at a node -/
def Pre (s : Nat) (data : List Nat) (plen : Nat) : Trie α → Prop
  | .nil => True
  | .node nd npl _ _ _ => s ≤ npl ∧ s ≤ plen ∧ Agree nd data s

theorem AllKeys.imp {P Q : List Nat → Nat → Prop} (h : ∀ d p, P d p → Q d p) :
    ∀ (t : Trie α), AllKeys P t → AllKeys Q t
  | .nil, _ => trivial
  | .node _ _ _ c0 c1, ⟨h1, h2, h3⟩ => ⟨h _ _ h1, AllKeys.imp h c0 h2, AllKeys.imp h c1 h3⟩

theorem AllKeys.mem {P : List Nat → Nat → Prop} :
    ∀ (t : Trie α), AllKeys P t → ∀ d p v, (d, p, v) ∈ preorder t → P d p
  | .nil, _, d, p, v, hm => by simp [preorder] at hm
  | .node nd np nv c0 c1, ⟨h1, h2, h3⟩, d, p, v, hm => by
    simp only [preorder, List.mem_append] at hm
    rcases hm with (hm | hm) | hm
    · cases nv with
      | none => simp at hm
      | some x => simp at hm; obtain ⟨rfl, rfl, _⟩ := hm; exact h1
    · exact AllKeys.mem c0 h2 d p v hm
    · exact AllKeys.mem c1 h3 d p v hm

theorem pre_child {nd : List Nat} {npl b : Nat} {data : List Nat} {plen : Nat} {c : Trie α}
    (hB : AllKeys (Below nd npl b) c) (hle : npl ≤ plen) (hag : Agree nd data npl) : Pre npl data plen c := by
  cases c with
  | nil => trivial
  | node cd cp cv cc0 cc1 =>
    obtain ⟨⟨h1, h2, _⟩, _, _⟩ := hB
    exact ⟨by omega, hle, h2.symm.trans hag⟩

theorem pre_zero (data : List Nat) (plen : Nat) (t : Trie α) : Pre 0 data plen t := by
  cases t with
  | nil => trivial
  | node => exact ⟨Nat.zero_le _, Nat.zero_le _, Agree.zero _ _⟩

/-- the facts about `ml := longestMatch s nd npl data plen` used by every walk -/
theorem ml_facts {nd : List Nat} {npl : Nat} {data : List Nat} {plen s : Nat}
    (hn : Canon nd npl) (hq : Canon data plen) (h1 : s ≤ npl) (h2 : s ≤ plen) (h3 : Agree nd data s) :
    longestMatch s nd npl data plen ≤ npl ∧ longestMatch s nd npl data plen ≤ plen ∧
    Agree nd data (longestMatch s nd npl data plen) ∧
    (longestMatch s nd npl data plen < npl → longestMatch s nd npl data plen < plen →
      getBitAt nd (longestMatch s nd npl data plen) ≠ getBitAt data (longestMatch s nd npl data plen)) :=
  longestMatch_spec nd npl data plen s hn.bytes hq.bytes hn.le_len hq.le_len h1 h2 h3

theorem getBitAt_nodeKey (nd : List Nat) (npl ml : Nat) (hcn : Canon nd npl) (h : ml < npl) :
    getBitAt (nd ++ be 2 npl) ml = getBitAt nd ml :=
  getBitAt_append_left _ _ _ (by have := hcn.le_len; omega)

/-- the key of the imaginary fork node -/
theorem fork_key (nd : List Nat) (npl ml : Nat) (hcn : Canon nd npl) (h : ml ≤ npl) :
    Canon (maskData (nd ++ be 2 npl) ml) ml ∧ Agree (maskData (nd ++ be 2 npl) ml) nd ml := by
  have hlen : (ml + 7) / 8 ≤ (nd ++ be 2 npl).length := by
    have := hcn.len; simp; omega
  refine ⟨canon_maskData _ _ ?_ hlen, ?_⟩
  · intro x hx
    rcases List.mem_append.mp hx with h' | h'
    · exact hcn.bytes x h'
    · exact be_lt_256 _ _ x h'
  · intro j hj
    rw [agree_maskData _ _ hlen j hj, getBitAt_append_left _ _ _ (by have := hcn.le_len; omega)]

/-- two keys below the same branch fork strictly below it -/
theorem below_fork {d : List Nat} {p b : Nat} {nd : List Nat} {npl : Nat} {data : List Nat} {plen ml : Nat}
    {idata : List Nat}
    (h1 : Below d p b nd npl) (h2 : Below d p b data plen)
    (hne : getBitAt nd ml ≠ getBitAt data ml) (hi : Agree idata nd ml) : Below d p b idata ml := by
  obtain ⟨a1, a2, a3⟩ := h1
  obtain ⟨b1, b2, b3⟩ := h2
  have hp : p < ml := by
    rcases Nat.lt_trichotomy ml p with h | h | h
    · exact absurd ((a2 ml h).symm.trans (b2 ml h)) hne
    · subst h; exact absurd (a3.trans b3.symm) hne
    · exact h
  exact ⟨hp, fun j hj => (a2 j hj).trans (hi j (by omega)).symm, (hi p hp).trans a3⟩

theorem insert_allKeys_below (d : List Nat) (p b : Nat) (data : List Nat) (plen : Nat) (v : α)
    (hq : Canon data plen) (hb : Below d p b data plen) :
    ∀ (t : Trie α) (s : Nat), WF t → Pre s data plen t → AllKeys (Below d p b) t →
      AllKeys (Below d p b) (insert data plen v t s).1 := by
  intro t
  induction t with
  | nil => intro s _ _ _; exact ⟨hb, trivial, trivial⟩
  | node nd npl nv c0 c1 ih0 ih1 =>
    intro s hwf hpre hall
    obtain ⟨hcn, himg, hB0, hB1, hw0, hw1⟩ := hwf
    obtain ⟨hs1, hs2, hs3⟩ := hpre
    obtain ⟨m1, m2, m3, m4⟩ := ml_facts hcn hq hs1 hs2 hs3
    simp only [insert]
    generalize longestMatch s nd npl data plen = ml at *
    split
    · split
      · split
        · exact ⟨hb, hall.2.1, hall.2.2⟩
        · split
          · exact ⟨hb, hall, trivial⟩
          · exact ⟨hb, trivial, hall⟩
      · have hf := fork_key nd npl ml hcn m1
        have hbl := below_fork hall.1 hb (m4 (by omega) (by omega)) hf.2
        split
        · exact ⟨hbl, ⟨hb, trivial, trivial⟩, hall⟩
        · exact ⟨hbl, hall, ⟨hb, trivial, trivial⟩⟩
    · rename_i hc
      have hml : ml = npl := by omega
      subst hml
      split
      · exact ⟨hall.1, ih0 ml hw0 (pre_child hB0 m2 m3) hall.2.1, hall.2.2⟩
      · exact ⟨hall.1, hall.2.1, ih1 ml hw1 (pre_child hB1 m2 m3) hall.2.2⟩

theorem below_trans {d : List Nat} {p b : Nat} {nd : List Nat} {npl b2 : Nat} {x : List Nat} {px : Nat}
    (h1 : Below d p b nd npl) (h2 : Below nd npl b2 x px) : Below d p b x px := by
  obtain ⟨a1, a2, a3⟩ := h1
  obtain ⟨b1, b2, _⟩ := h2
  exact ⟨by omega, fun j hj => (a2 j hj).trans (b2 j (by omega)), (b2 p a1).symm.trans a3⟩

/-- a whole well-formed subtree lies below a branch as soon as its root does -/
theorem allKeys_below_of_root {d : List Nat} {p b : Nat} {nd : List Nat} {npl : Nat} {nv : Option α}
    {c0 c1 : Trie α} (hwf : WF (.node nd npl nv c0 c1)) (h : Below d p b nd npl) :
    AllKeys (Below d p b) (.node nd npl nv c0 c1) :=
  ⟨h, AllKeys.imp (fun _ _ hx => below_trans h hx) c0 hwf.2.2.1,
      AllKeys.imp (fun _ _ hx => below_trans h hx) c1 hwf.2.2.2.1⟩

theorem insert_ne_nil (data : List Nat) (plen : Nat) (v : α) (t : Trie α) (s : Nat) :
    (insert data plen v t s).1 ≠ .nil := by
  cases t with
  | nil => simp [insert]
  | node nd npl nv c0 c1 =>
    simp only [insert]
    repeat' split
    all_goals simp

theorem wf_leaf (data : List Nat) (plen : Nat) (v : α) (hq : Canon data plen) :
    WF (.node data plen (some v) .nil .nil) :=
  ⟨hq, fun h => by simp at h, trivial, trivial, trivial, trivial⟩

theorem insert_wf (data : List Nat) (plen : Nat) (v : α) (hq : Canon data plen) :
    ∀ (t : Trie α) (s : Nat), WF t → Pre s data plen t → WF (insert data plen v t s).1 := by
  intro t
  induction t with
  | nil => intro s _ _; exact wf_leaf data plen v hq
  | node nd npl nv c0 c1 ih0 ih1 =>
    intro s hwf hpre
    have hwf' := hwf
    obtain ⟨hcn, himg, hB0, hB1, hw0, hw1⟩ := hwf
    obtain ⟨hs1, hs2, hs3⟩ := hpre
    obtain ⟨m1, m2, m3, m4⟩ := ml_facts hcn hq hs1 hs2 hs3
    simp only [insert]
    generalize longestMatch s nd npl data plen = ml at *
    split
    · split
      · rename_i h1
        subst h1
        split
        · rename_i h2
          subst h2
          have : nd = data := canon_ext _ _ _ hcn hq m3
          subst this
          exact ⟨hq, fun h => by simp at h, hB0, hB1, hw0, hw1⟩
        · rw [getBitAt_nodeKey nd npl ml hcn (by omega)]
          split
          · rename_i hbit
            exact ⟨hq, fun h => by simp at h,
              allKeys_below_of_root hwf' ⟨by omega, m3.symm, hbit⟩, trivial, hwf', trivial⟩
          · rename_i hbit
            have := getBitAt_lt_two nd ml
            exact ⟨hq, fun h => by simp at h, trivial,
              allKeys_below_of_root hwf' ⟨by omega, m3.symm, by omega⟩, trivial, hwf'⟩
      · have hf := fork_key nd npl ml hcn m1
        have hne := m4 (by omega) (by omega)
        have := getBitAt_lt_two nd ml
        have := getBitAt_lt_two data ml
        have hleaf := wf_leaf data plen v hq
        split
        · rename_i hbit
          exact ⟨hf.1, fun _ => ⟨by simp, by simp⟩,
            ⟨⟨by omega, hf.2.trans m3, hbit⟩, trivial, trivial⟩,
            allKeys_below_of_root hwf' ⟨by omega, hf.2, by omega⟩, hleaf, hwf'⟩
        · rename_i hbit
          exact ⟨hf.1, fun _ => ⟨by simp, by simp⟩,
            allKeys_below_of_root hwf' ⟨by omega, hf.2, by omega⟩,
            ⟨⟨by omega, hf.2.trans m3, by omega⟩, trivial, trivial⟩, hwf', hleaf⟩
    · have hml : ml = npl := by omega
      subst hml
      have := getBitAt_lt_two data ml
      split
      · rename_i hbit
        exact ⟨hcn, fun h => ⟨insert_ne_nil _ _ _ _ _, (himg h).2⟩,
          insert_allKeys_below nd ml 0 data plen v hq ⟨by omega, m3, hbit⟩ c0 ml hw0 (pre_child hB0 m2 m3) hB0,
          hB1, ih0 ml hw0 (pre_child hB0 m2 m3), hw1⟩
      · rename_i hbit
        exact ⟨hcn, fun h => ⟨(himg h).1, insert_ne_nil _ _ _ _ _⟩, hB0,
          insert_allKeys_below nd ml 1 data plen v hq ⟨by omega, m3, by omega⟩ c1 ml hw1 (pre_child hB1 m2 m3) hB1,
          hw0, ih1 ml hw1 (pre_child hB1 m2 m3)⟩

theorem mem_preorder_node (d' : List Nat) (p' : Nat) (v' : α) (d : List Nat) (p : Nat) (nv : Option α)
    (c0 c1 : Trie α) :
    (d', p', v') ∈ preorder (.node d p nv c0 c1) ↔
      (d' = d ∧ p' = p ∧ nv = some v') ∨ (d', p', v') ∈ preorder c0 ∨ (d', p', v') ∈ preorder c1 := by
  simp only [preorder, List.mem_append, or_assoc]
  cases nv with
  | none => simp
  | some x => simp [eq_comm]

/-- membership of a key in a subtree puts it below the branch -/
theorem below_of_mem {d : List Nat} {p b : Nat} {c : Trie α} (h : AllKeys (Below d p b) c)
    {d' : List Nat} {p' : Nat} {v' : α} (hm : (d', p', v') ∈ preorder c) : Below d p b d' p' :=
  AllKeys.mem c h d' p' v' hm

theorem lookupExact_iff (data : List Nat) (plen : Nat) (hq : Canon data plen) :
    ∀ (t : Trie α) (s : Nat), WF t → Pre s data plen t → ∀ v,
      (lookupExact data plen t s = some v ↔ (data, plen, v) ∈ preorder t) := by
  intro t
  induction t with
  | nil => intro s _ _ v; simp [lookupExact, preorder]
  | node nd npl nv c0 c1 ih0 ih1 =>
    intro s hwf hpre v
    obtain ⟨hcn, himg, hB0, hB1, hw0, hw1⟩ := hwf
    obtain ⟨hs1, hs2, hs3⟩ := hpre
    obtain ⟨m1, m2, m3, m4⟩ := ml_facts hcn hq hs1 hs2 hs3
    simp only [lookupExact]
    generalize longestMatch s nd npl data plen = ml at *
    rw [mem_preorder_node]
    have hbd := getBitAt_lt_two data npl
    split
    · rename_i h
      obtain ⟨h1, h2⟩ := h
      subst h1; subst h2
      have : nd = data := canon_ext _ _ _ hcn hq m3
      subst this
      constructor
      · intro h; exact Or.inl ⟨rfl, rfl, h⟩
      · rintro (⟨_, _, h⟩ | h | h)
        · exact h
        · have := (below_of_mem hB0 h).1; omega
        · have := (below_of_mem hB1 h).1; omega
    · split
      · rename_i hlt
        constructor
        · intro h; simp at h
        · rintro (⟨h1, h2, _⟩ | h | h)
          · subst h1; subst h2
            exact absurd rfl (m4 hlt hlt)
          · obtain ⟨b1, b2, _⟩ := below_of_mem hB0 h
            exact absurd (b2 ml hlt) (m4 hlt (by omega))
          · obtain ⟨b1, b2, _⟩ := below_of_mem hB1 h
            exact absurd (b2 ml hlt) (m4 hlt (by omega))
      · have hml : ml = npl := by omega
        subst hml
        split
        · rename_i hbit
          rw [ih0 ml hw0 (pre_child hB0 m2 m3) v]
          constructor
          · intro h; exact Or.inr (Or.inl h)
          · rintro (⟨_, h2, _⟩ | h | h)
            · omega
            · exact h
            · have := (below_of_mem hB1 h).2.2; omega
        · rename_i hbit
          rw [ih1 ml hw1 (pre_child hB1 m2 m3) v]
          constructor
          · intro h; exact Or.inr (Or.inr h)
          · rintro (⟨_, h2, _⟩ | h | h)
            · omega
            · have := (below_of_mem hB0 h).2.2; omega
            · exact h

theorem preorder_nil : preorder (.nil : Trie α) = [] := rfl

/-- every entry of a well-formed subtree is covered by the subtree's root prefix -/
theorem mem_covered {nd : List Nat} {npl : Nat} {nv : Option α} {c0 c1 : Trie α}
    (hwf : WF (.node nd npl nv c0 c1)) {d' : List Nat} {p' : Nat} {v' : α}
    (hm : (d', p', v') ∈ preorder (.node nd npl nv c0 c1)) : npl ≤ p' ∧ Agree nd d' npl := by
  rw [mem_preorder_node] at hm
  rcases hm with ⟨h1, h2, _⟩ | h | h
  · subst h1; subst h2; exact ⟨Nat.le_refl _, Agree.refl _ _⟩
  · have := below_of_mem hwf.2.2.1 h; exact ⟨by have := this.1; omega, this.2.1⟩
  · have := below_of_mem hwf.2.2.2.1 h; exact ⟨by have := this.1; omega, this.2.1⟩

theorem insert_mem (data : List Nat) (plen : Nat) (v : α) (hq : Canon data plen) :
    ∀ (t : Trie α) (s : Nat), WF t → Pre s data plen t → ∀ d' p' v',
      ((d', p', v') ∈ preorder (insert data plen v t s).1 ↔
        (d' = data ∧ p' = plen ∧ v' = v) ∨ (¬ (d' = data ∧ p' = plen) ∧ (d', p', v') ∈ preorder t)) := by
  intro t
  induction t with
  | nil => intro s _ _ d' p' v'; simp [insert, preorder]
  | node nd npl nv c0 c1 ih0 ih1 =>
    intro s hwf hpre d' p' v'
    have hwf' := hwf
    obtain ⟨hcn, himg, hB0, hB1, hw0, hw1⟩ := hwf
    obtain ⟨hs1, hs2, hs3⟩ := hpre
    obtain ⟨m1, m2, m3, m4⟩ := ml_facts hcn hq hs1 hs2 hs3
    have hcov := fun (h : (d', p', v') ∈ preorder (.node nd npl nv c0 c1)) => mem_covered hwf' h
    simp only [insert]
    generalize longestMatch s nd npl data plen = ml at *
    split
    · split
      · rename_i h1
        subst h1
        split
        · rename_i h2
          subst h2
          have : nd = data := canon_ext _ _ _ hcn hq m3
          subst this
          simp only [mem_preorder_node]
          have e0 := fun (h : (d', p', v') ∈ preorder c0) => (below_of_mem hB0 h).1
          have e1 := fun (h : (d', p', v') ∈ preorder c1) => (below_of_mem hB1 h).1
          grind
        · have hlt : ml < npl := by omega
          split
          · rw [mem_preorder_node d' p' v' data ml (some v)]
            simp only [preorder_nil, List.not_mem_nil, or_false]
            grind
          · rw [mem_preorder_node d' p' v' data ml (some v)]
            simp only [preorder_nil, List.not_mem_nil, false_or]
            grind
      · have hne := m4 (by omega) (by omega)
        have hno : (d', p', v') ∈ preorder (.node nd npl nv c0 c1) → ¬ (d' = data ∧ p' = plen) := by
          intro h ⟨h1, h2⟩
          subst h1; subst h2
          exact hne ((hcov h).2 ml (by omega))
        split
        · rw [mem_preorder_node d' p' v' (maskData (nd ++ be 2 npl) ml) ml none,
            mem_preorder_node d' p' v' data plen (some v) .nil .nil]
          simp only [preorder_nil, List.not_mem_nil, or_false]
          grind
        · rw [mem_preorder_node d' p' v' (maskData (nd ++ be 2 npl) ml) ml none,
            mem_preorder_node d' p' v' data plen (some v) .nil .nil]
          simp only [preorder_nil, List.not_mem_nil, or_false]
          grind
    · have hml : ml = npl := by omega
      subst hml
      have e0 := fun (h : (d', p', v') ∈ preorder c0) => (below_of_mem hB0 h).2.2
      have e1 := fun (h : (d', p', v') ∈ preorder c1) => (below_of_mem hB1 h).2.2
      split
      · simp only [mem_preorder_node, ih0 ml hw0 (pre_child hB0 m2 m3) d' p' v']
        grind
      · have := getBitAt_lt_two data ml
        simp only [mem_preorder_node, ih1 ml hw1 (pre_child hB1 m2 m3) d' p' v']
        grind

/-- the size delta reported by `insert` is 1 exactly when the key was not stored -/
theorem insert_delta (data : List Nat) (plen : Nat) (v : α) (hq : Canon data plen) :
    ∀ (t : Trie α) (s : Nat), WF t → Pre s data plen t →
      (insert data plen v t s).2 = if (lookupExact data plen t s).isNone then 1 else 0 := by
  intro t
  induction t with
  | nil => intro s _ _; simp [insert, lookupExact]
  | node nd npl nv c0 c1 ih0 ih1 =>
    intro s hwf hpre
    obtain ⟨hcn, himg, hB0, hB1, hw0, hw1⟩ := hwf
    obtain ⟨hs1, hs2, hs3⟩ := hpre
    obtain ⟨m1, m2, m3, m4⟩ := ml_facts hcn hq hs1 hs2 hs3
    generalize hml : longestMatch s nd npl data plen = ml at *
    simp only [insert, lookupExact, hml]
    rcases Nat.lt_or_ge ml npl with hlt | hge
    · have k1 : ml = plen ∨ ml ≠ npl := Or.inr (by omega)
      have k3 : ml ≠ npl := by omega
      simp only [k1, k3, hlt, if_true, if_false, and_false, Option.isNone_none]
      repeat' split
      all_goals rfl
    · have hml' : ml = npl := by omega
      subst hml'
      by_cases hp : ml = plen
      · subst hp
        simp
      · simp only [hp, ne_eq, not_true_eq_false, or_self, Nat.lt_irrefl, if_false, false_and]
        by_cases hbit : getBitAt data ml = 0
        · simp only [hbit, if_true]
          exact ih0 ml hw0 (pre_child hB0 m2 m3)
        · simp only [hbit, if_false]
          exact ih1 ml hw1 (pre_child hB1 m2 m3)

theorem insert_length (data : List Nat) (plen : Nat) (v : α) :
    ∀ (t : Trie α) (s : Nat),
      (preorder (insert data plen v t s).1).length = (preorder t).length + (insert data plen v t s).2 := by
  intro t
  induction t with
  | nil => intro s; simp [insert, preorder]
  | node nd npl nv c0 c1 ih0 ih1 =>
    intro s
    simp only [insert]
    generalize longestMatch s nd npl data plen = ml at *
    split
    · split
      · split
        · cases nv <;> simp [preorder] <;> omega
        · split <;> simp [preorder]
      · split <;> simp [preorder] <;> omega
    · split
      · have := ih0 ml
        simp only [preorder, List.length_append] at this ⊢
        omega
      · have := ih1 ml
        simp only [preorder, List.length_append] at this ⊢
        omega

end Sdb.Lpm
