import SdbModel.Lemmas.ArtWatch

/-! Counting occurrences of a watch channel in a tree of Model.Art, and the
    bookkeeping inequality `Tr` relating occurrences, recorded and freshly
    allocated channels across the write operations (used for "no channel of the
    new tree is closed"). -/
set_option linter.unusedSimpArgs false
namespace Sdb.ArtW
open Sdb.Art

/-! ## counting watch channels -/

/-- occurrences of `c` as the watch of the leaf hanging off an inner node -/
def cntL (c : Nat) : Option LeafD → Nat
  | some d => if d.watch = c then 1 else 0
  | none => 0

@[simp] theorem cntL_some (c : Nat) (d : LeafD) : cntL c (some d) = if d.watch = c then 1 else 0 := rfl
@[simp] theorem cntL_none (c : Nat) : cntL c none = 0 := rfl

mutual
/-- number of watch fields in the subtree holding channel `c` -/
def cnt (c : Nat) : Node → Nat
  | .leaf _ d => if d.watch = c then 1 else 0
  | .inner _ _ lf kids w _ =>
    (if w = c then 1 else 0) + cntL c lf + cntK c kids
def cntK (c : Nat) : Kids → Nat
  | .nil => 0
  | .cons _ n r => cnt c n + cntK c r
end

/-- 1 iff `c` was recorded between `st` and `st'` -/
def recd (st st' : St) (c : Nat) : Nat := if c ∈ st'.pending ∧ c ∉ st.pending then 1 else 0
/-- 1 iff `c` was allocated between `st` and `st'` -/
def frsh (st st' : St) (c : Nat) : Nat := if st.nextW ≤ c ∧ c < st'.nextW then 1 else 0

/-- the bookkeeping inequality of one step on a part of the tree that held `c`
    `o` times before and `n` times after: an occurrence only appears by
    allocation, a recorded channel loses an occurrence, and only channels that
    occur are recorded -/
def Tr (st st' : St) (c : Nat) (o n : Nat) : Prop :=
  n + recd st st' c ≤ o + frsh st st' c ∧ recd st st' c ≤ o

theorem Tr.refl (st : St) (c k : Nat) : Tr st st c k k := by
  unfold Tr recd frsh
  have h1 : ¬ (c ∈ st.pending ∧ c ∉ st.pending) := fun h => h.2 h.1
  simp only [h1, if_false]
  constructor <;> omega

theorem Tr.comp {st st1 st2 : St} {c o1 n1 o2 n2 : Nat} (l1 : StLe st st1) (l2 : StLe st1 st2)
    (h1 : Tr st st1 c o1 n1) (h2 : Tr st1 st2 c o2 n2) : Tr st st2 c (o1 + o2) (n1 + n2) := by
  unfold Tr recd frsh at *
  have hn1 := l1.nw
  have hn2 := l2.nw
  have hs1 := l1.sub c
  by_cases a0 : c ∈ st.pending <;> by_cases a1 : c ∈ st1.pending <;> by_cases a2 : c ∈ st2.pending <;>
    by_cases b0 : st.nextW ≤ c <;> by_cases b1 : c < st1.nextW <;> by_cases b2 : c < st2.nextW <;>
    by_cases b3 : st1.nextW ≤ c <;>
    simp only [a0, a1, a2, b0, b1, b2, b3, and_self, and_true, true_and, and_false, false_and, not_true_eq_false,
      not_false_eq_true, if_true, if_false] at h1 h2 ⊢ <;>
    first
    | omega
    | (exfalso; exact a1 (hs1 a0))
    | (exfalso; exact a2 (l2.sub c a1))

theorem Tr.frame {st st' : St} {c o n : Nat} (k : Nat) (h : Tr st st' c o n) : Tr st st' c (o + k) (n + k) := by
  unfold Tr at *; omega

theorem Tr.weaken {st st' : St} {c o n o' n' : Nat} (h : Tr st st' c o n) (hn : n' ≤ n) (ho : o ≤ o') :
    Tr st st' c o' n' := by
  unfold Tr at *; omega

theorem Tr.record (st : St) (w c : Nat) : Tr st (st.record w) c (if w = c then 1 else 0) 0 := by
  unfold Tr recd frsh St.record
  by_cases hw : w = 0 ∨ w ∈ st.pending
  · simp only [hw, if_true]
    have h1 : ¬ (c ∈ st.pending ∧ c ∉ st.pending) := fun h => h.2 h.1
    simp only [h1, if_false]
    constructor <;> omega
  · simp only [hw, if_false, List.mem_cons]
    by_cases hc : w = c
    · simp only [hc, if_true]
      split <;> constructor <;> omega
    · have : ¬ ((c = w ∨ c ∈ st.pending) ∧ c ∉ st.pending) := by
        rintro ⟨h1 | h1, h2⟩
        · exact hc h1.symm
        · exact h2 h1
      simp only [this, if_false, hc]
      constructor <;> omega

theorem Tr.fresh (st : St) (c : Nat) (hc : c ≠ 0) : Tr st st.fresh.1 c 0 (if st.fresh.2 = c then 1 else 0) := by
  obtain ⟨id, nw, pd, ro⟩ := st
  have h1 : ¬ (c ∈ pd ∧ c ∉ pd) := fun h => h.2 h.1
  have h0 : ¬ (0 = c) := fun h => hc h.symm
  unfold Tr recd frsh St.fresh
  cases ro
  · simp only [Bool.false_eq_true, if_false, h1]
    by_cases h2 : nw = c
    · subst h2; simp
    · simp only [h2, if_false]
      constructor <;> omega
  · simp only [if_true, h1, h0, if_false]
    constructor <;> omega

theorem Tr.freshIf (st : St) (w c : Nat) (hc : c ≠ 0) :
    Tr st (st.freshIf w).1 c 0 (if (st.freshIf w).2 = c then 1 else 0) := by
  unfold Tr recd frsh St.freshIf
  by_cases hr : w = 0
  · simp only [hr, if_true]
    have h1 : ¬ (c ∈ st.pending ∧ c ∉ st.pending) := fun h => h.2 h.1
    have h2 : ¬ (0 = c) := fun h => hc h.symm
    simp only [h1, h2, if_false]
    constructor <;> omega
  · simp only [hr, if_false]
    have h1 : ¬ (c ∈ st.pending ∧ c ∉ st.pending) := fun h => h.2 h.1
    simp only [h1, if_false]
    by_cases h2 : st.nextW = c
    · subst h2
      simp
    · simp only [h2, if_false]
      constructor <;> omega

theorem Tr.newLeafD (st : St) (full : List Nat) (v : Nat) (c : Nat) (hc : c ≠ 0) :
    Tr st (newLeafD st full v).1 c 0 (if (newLeafD st full v).2.watch = c then 1 else 0) := by
  unfold Art.newLeafD; exact Tr.fresh st c hc

theorem Tr.cloneLeafD (st : St) (d : LeafD) (c : Nat) (hc : c ≠ 0) :
    Tr st (cloneLeafD st d).1 c (if d.watch = c then 1 else 0) (if (cloneLeafD st d).2.watch = c then 1 else 0) := by
  unfold Art.cloneLeafD
  split
  · exact Tr.refl _ _ _
  · have := Tr.comp (record_le st d.watch) (fresh_le _) (Tr.record st d.watch c) (Tr.fresh (st.record d.watch) c hc)
    simp only [Nat.zero_add, Nat.add_zero] at this
    exact this

/-- cloning an inner node only touches its own watch field -/
theorem Tr.cloneNode_inner (st : St) (k : Nat) (p : List Nat) (lf : Option LeafD) (kids : Kids) (w t : Nat)
    (c : Nat) (hc : c ≠ 0) :
    ∃ w' t', (cloneNode st (.inner k p lf kids w t)).2 = .inner k p lf kids w' t' ∧
      Tr st (cloneNode st (.inner k p lf kids w t)).1 c (if w = c then 1 else 0) (if w' = c then 1 else 0) := by
  unfold Art.cloneNode
  split
  · exact ⟨w, t, rfl, Tr.refl _ _ _⟩
  · have := Tr.comp (record_le st w) (fresh_le _) (Tr.record st w c) (Tr.fresh (st.record w) c hc)
    simp only [Nat.zero_add, Nat.add_zero] at this
    exact ⟨_, _, rfl, this⟩

theorem Tr.cloneNode_leaf (st : St) (p : List Nat) (d : LeafD) (c : Nat) (hc : c ≠ 0) :
    ∃ w', (cloneNode st (.leaf p d)).2 = .leaf p { d with watch := w' } ∧
      Tr st (cloneNode st (.leaf p d)).1 c (if d.watch = c then 1 else 0) (if w' = c then 1 else 0) := by
  unfold Art.cloneNode
  split
  · exact ⟨d.watch, rfl, Tr.refl _ _ _⟩
  · have := Tr.comp (record_le st d.watch) (fresh_le _) (Tr.record st d.watch c) (Tr.fresh (st.record d.watch) c hc)
    simp only [Nat.zero_add, Nat.add_zero] at this
    exact ⟨_, rfl, this⟩

theorem Tr.cloneNode (st : St) (n : Node) (c : Nat) (hc : c ≠ 0) :
    Tr st (cloneNode st n).1 c (cnt c n) (cnt c (cloneNode st n).2) := by
  cases n with
  | leaf p d =>
    obtain ⟨w', he, h⟩ := Tr.cloneNode_leaf st p d c hc
    rw [he]; simpa only [cnt] using h
  | inner k p lf kids w t =>
    obtain ⟨w', t', he, h⟩ := Tr.cloneNode_inner st k p lf kids w t c hc
    rw [he]; simp only [cnt]
    exact (h.frame (cntL c lf + cntK c kids)).weaken (by omega) (by omega)

theorem cnt_setPfx (c : Nat) (q : List Nat) (n : Node) : cnt c (n.setPfx q) = cnt c n := by
  cases n <;> simp [Node.setPfx, cnt]

theorem cntL_getLeaf_le (c : Nat) (n : Node) : cntL c n.getLeaf ≤ cnt c n := by
  cases n with
  | leaf p d => simp [Node.getLeaf, cnt, cntL]
  | inner k p lf kids w t => simp only [Node.getLeaf, cnt]; omega

theorem cntK_insert (c b : Nat) (n : Node) : (k : Kids) → cntK c (k.insert b n) = cntK c k + cnt c n
  | .nil => by simp [Kids.insert, cntK]
  | .cons a m r => by
    unfold Kids.insert
    split
    · simp only [cntK]; omega
    · simp only [cntK, cntK_insert c b n r]; omega

theorem cntK_erase_le (c b : Nat) : (k : Kids) → cntK c (k.erase b) ≤ cntK c k
  | .nil => by simp [Kids.erase]
  | .cons a m r => by
    unfold Kids.erase
    split
    · simp only [cntK]; omega
    · have := cntK_erase_le c b r
      simp only [cntK]; omega

theorem cntK_first_le (c : Nat) : (k : Kids) → ∀ n, k.first = some n → cnt c n ≤ cntK c k
  | .nil, n, h => by simp [Kids.first] at h
  | .cons a m r, n, h => by
    simp only [Kids.first, Option.some.injEq] at h
    subst h; simp only [cntK]; omega


/-! ## insert: occurrences -/

theorem insAt_tr (P : ArtParams) (st : St) (n : Node) (key full : List Nat) (val : Nat)
    (mod : Option (Nat → Nat → Nat)) (c : Nat) (hc : c ≠ 0) :
    Tr st (insAt P st n key full val mod).st c (cnt c n) (cnt c (insAt P st n key full val mod).node) := by
  unfold insAt
  simp only
  split
  · cases n with
    | leaf q d =>
      obtain ⟨w', he, h⟩ := Tr.cloneNode_leaf st q d c hc
      rw [he]; simpa only [cnt] using h
    | inner k q lf kids w t =>
      obtain ⟨w', t', he, h⟩ := Tr.cloneNode_inner st k q lf kids w t c hc
      rw [he]
      cases lf with
      | some d =>
        have h2 := Tr.cloneLeafD (cloneNode st (.inner k q (some d) kids w t)).1 d c hc
        have h3 := (Tr.comp (cloneNode_le _ _) (cloneLeafD_le _ _) h h2).frame (cntK c kids)
        simp only [cnt, cntL_some, cntL_none]
        exact h3.weaken (by omega) (by omega)
      | none =>
        have h2 := Tr.newLeafD (cloneNode st (.inner k q none kids w t)).1 full val c hc
        have h3 := (Tr.comp (cloneNode_le _ _) (newLeafD_le _ full val) h h2).frame (cntK c kids)
        simp only [cnt, cntL_some, cntL_none]
        exact h3.weaken (by omega) (by omega)
  · cases n with
    | leaf q d =>
      dsimp only
      have h1 := Tr.newLeafD st full val c hc
      have h2 := Tr.fresh (newLeafD st full val).1 c hc
      have h3 := (Tr.comp (newLeafD_le st full val) (fresh_le _) h1 h2).frame (cnt c (.leaf q d))
      have hg := cntL_getLeaf_le c ((Node.leaf q d).setPfx (List.drop (commonPrefix key (Node.leaf q d).pfx).length (Node.leaf q d).pfx))
      rw [cnt_setPfx] at hg
      split
      · simp only [cnt, cntK] at hg ⊢
        exact h3.weaken (by first | omega | (simp only [cnt]; omega)) (by first | omega | (simp only [cnt]; omega))
      · simp only [cnt, cntK, cntL_some, cntL_none, cnt_setPfx]
        exact h3.weaken (by first | omega | (simp only [cnt]; omega)) (by first | omega | (simp only [cnt]; omega))
      · split
        · simp only [cnt, cntK, cntL_some, cntL_none, cnt_setPfx]
          exact h3.weaken (by first | omega | (simp only [cnt]; omega)) (by first | omega | (simp only [cnt]; omega))
        · simp only [cnt, cntK, cntL_some, cntL_none, cnt_setPfx]
          exact h3.weaken (by first | omega | (simp only [cnt]; omega)) (by first | omega | (simp only [cnt]; omega))
    | inner k q lf kids w t =>
      dsimp only
      have h0 := Tr.cloneNode st (.inner k q lf kids w t) c hc
      have h1 := Tr.newLeafD (cloneNode st (.inner k q lf kids w t)).1 full val c hc
      have h2 := Tr.fresh (newLeafD (cloneNode st (.inner k q lf kids w t)).1 full val).1 c hc
      have h3 := Tr.comp (cloneNode_le _ _) ((newLeafD_le _ full val).trans (fresh_le _)) h0
        (Tr.comp (newLeafD_le _ full val) (fresh_le _) h1 h2)
      have hg := cntL_getLeaf_le c ((cloneNode st (.inner k q lf kids w t)).2.setPfx
        (List.drop (commonPrefix key (Node.inner k q lf kids w t).pfx).length (cloneNode st (.inner k q lf kids w t)).2.pfx))
      rw [cnt_setPfx] at hg
      split
      · simp only [cnt, cntK] at hg ⊢
        exact h3.weaken (by first | omega | (simp only [cnt]; omega)) (by first | omega | (simp only [cnt]; omega))
      · simp only [cnt, cntK, cntL_some, cntL_none, cnt_setPfx]
        exact h3.weaken (by first | omega | (simp only [cnt]; omega)) (by first | omega | (simp only [cnt]; omega))
      · split
        · simp only [cnt, cntK, cntL_some, cntL_none, cnt_setPfx]
          exact h3.weaken (by first | omega | (simp only [cnt]; omega)) (by first | omega | (simp only [cnt]; omega))
        · simp only [cnt, cntK, cntL_some, cntL_none, cnt_setPfx]
          exact h3.weaken (by first | omega | (simp only [cnt]; omega)) (by first | omega | (simp only [cnt]; omega))

mutual
theorem insNode_tr (P : ArtParams) (st : St) (c : Nat) (hc : c ≠ 0) : (n : Node) → (key full : List Nat) → (val : Nat) →
    (mod : Option (Nat → Nat → Nat)) →
    Tr st (insNode P st n key full val mod).st c (cnt c n) (cnt c (insNode P st n key full val mod).node)
  | .leaf q d, key, full, val, mod => by
    unfold insNode; exact insAt_tr P st _ key full val mod c hc
  | .inner kind pfx lf kids w t, key, full, val, mod => by
    unfold insNode
    split
    · simp only
      split
      · rename_i r kids' hk
        have hle := insKids_le P st kids _ _ full val mod r kids' hk
        have h1 := insKids_tr P st c hc kids _ _ full val mod r kids' hk
        obtain ⟨w', t', he, h2⟩ := Tr.cloneNode_inner r.st kind pfx lf kids' w t c hc
        rw [he]
        have h3 := (Tr.comp hle (cloneNode_le _ _) h1 h2).frame (cntL c lf)
        simp only [cnt]
        exact h3.weaken (by omega) (by omega)
      · have h1 := Tr.newLeafD st full val c hc
        split
        · have h2 := Tr.record (newLeafD st full val).1 w c
          have h3 := Tr.freshIf ((newLeafD st full val).1.record w) w c hc
          have h4 := (Tr.comp (newLeafD_le st full val) ((record_le _ w).trans (freshIf_le _ w)) h1
            (Tr.comp (record_le _ w) (freshIf_le _ w) h2 h3)).frame (cntL c lf + cntK c kids)
          simp only [cnt, cntK_insert]
          exact h4.weaken (by omega) (by omega)
        · obtain ⟨w', t', he, h2⟩ := Tr.cloneNode_inner (newLeafD st full val).1 kind pfx lf
            (kids.insert ((List.drop pfx.length key).headD 0) (Node.leaf (List.drop pfx.length key) (newLeafD st full val).2))
            w t c hc
          rw [he]
          have h4 := (Tr.comp (newLeafD_le st full val) (cloneNode_le _ _) h1 h2).frame (cntL c lf + cntK c kids)
          simp only [cnt, cntK_insert]
          exact h4.weaken (by omega) (by omega)
    · exact insAt_tr P st _ key full val mod c hc
theorem insKids_tr (P : ArtParams) (st : St) (c : Nat) (hc : c ≠ 0) : (kids : Kids) → (b : Nat) → (key full : List Nat) →
    (val : Nat) → (mod : Option (Nat → Nat → Nat)) → (r : InsRes) → (kids' : Kids) →
    insKids P st kids b key full val mod = some (r, kids') → Tr st r.st c (cntK c kids) (cntK c kids')
  | .nil, b, key, full, val, mod, r, kids', h => by simp [insKids] at h
  | .cons a n rest, b, key, full, val, mod, r, kids', h => by
    unfold insKids at h
    split at h
    · simp only [Option.some.injEq, Prod.mk.injEq] at h
      rw [← h.1, ← h.2]
      simp only [cntK]
      exact (insNode_tr P st c hc n key full val mod).frame (cntK c rest)
    · split at h
      · split at h
        · rename_i r' rest' hk
          simp only [Option.some.injEq, Prod.mk.injEq] at h
          rw [← h.1, ← h.2]
          simp only [cntK]
          exact ((insKids_tr P st c hc rest b key full val mod r' rest' hk).frame (cnt c n)).weaken (by omega) (by omega)
        · simp at h
      · simp at h
end



/-! ## delete: occurrences -/

theorem record_idem (st : St) (w : Nat) : (st.record w).record w = st.record w := by
  rcases record_mem st w with h | h
  · unfold St.record; simp [h]
  · generalize st.record w = s at h ⊢
    unfold St.record; simp [h]

theorem Kids.first_none_size : (k : Kids) → k.first = none → k.size = 0
  | .nil, _ => rfl
  | .cons _ _ _, h => by simp [Kids.first] at h

theorem Kids.size_erase (b : Nat) : (k : Kids) → k.size ≤ (k.erase b).size + 1
  | .nil => by simp [Kids.erase, Kids.size]
  | .cons a m r => by
    unfold Kids.erase
    split
    · simp [Kids.size]
    · have := Kids.size_erase b r
      simp only [Kids.size]; omega

theorem removeChild_tr (P : ArtParams) (st : St) (kind : Nat) (pfx : List Nat) (lf : Option LeafD) (kids : Kids)
    (w t b : Nat) (c : Nat) (hc : c ≠ 0) :
    Tr st (removeChild P st kind pfx lf kids w t b).1 c
      ((if w = c then 1 else 0) + cntL c lf + cntK c (kids.erase b)) (cnt c (removeChild P st kind pfx lf kids w t b).2) := by
  unfold removeChild
  simp only
  split
  · rename_i hsz
    have h1 := (Tr.record st w c).frame (cntL c lf + cntK c (kids.erase b))
    split
    · rename_i child hch
      have := cntK_first_le c _ child hch
      simp only [mergeUp, cnt_setPfx]
      exact h1.weaken (by omega) (by omega)
    · rename_i hch
      have h2 := Kids.first_none_size _ hch
      have h3 := Kids.size_erase b kids
      omega
  · split
    · have h1 := Tr.freshIf st w c hc
      have h2 := Tr.record (st.freshIf w).1 w c
      have h3 := (Tr.comp (freshIf_le st w) (record_le _ w) h1 h2).frame (cntL c lf + cntK c (kids.erase b))
      simp only [cnt]
      exact h3.weaken (by omega) (by omega)
    · obtain ⟨w', t', he, h2⟩ := Tr.cloneNode_inner st kind pfx lf (kids.erase b) w t c hc
      rw [he]
      simp only [cnt]
      exact (h2.frame (cntL c lf + cntK c (kids.erase b))).weaken (by omega) (by omega)

/-- occurrences in the node a deletion leaves behind -/
def cntD (c : Nat) : DelRes → Nat
  | .replaced _ n _ => cnt c n
  | _ => 0

theorem delAt_tr (st : St) (n : Node) (c : Nat) (hc : c ≠ 0) (st' : St) (h : delSt (delAt st n) = some st') :
    Tr st st' c (cnt c n) (cntD c (delAt st n)) := by
  unfold delAt at h ⊢
  cases n with
  | leaf p d =>
    simp only [Node.getLeaf, Node.watch, delSt, Option.some.injEq] at h ⊢
    rw [record_idem] at h
    rw [← h]
    simp only [cntD, cnt]
    exact Tr.record st d.watch c
  | inner kind pfx lf kids w t =>
    cases lf with
    | none => simp [Node.getLeaf, delSt] at h
    | some d =>
      simp only [Node.getLeaf] at h ⊢
      have h1 := Tr.record st d.watch c
      by_cases hs1 : kids.size = 1
      · simp only [hs1, if_true] at h ⊢
        cases hf : kids.first with
        | none => rw [hf] at h; simp [delSt] at h
        | some child =>
          rw [hf] at h; simp only [delSt, Option.some.injEq] at h
          simp only [cntD, mergeUp, cnt_setPfx]
          rw [← h]
          have h2 := Tr.record (st.record d.watch) w c
          have h3 := (Tr.comp (record_le _ _) (record_le _ _) h1 h2).frame (cnt c child)
          have := cntK_first_le c kids child hf
          simp only [cnt, cntL_some]
          exact h3.weaken (by omega) (by omega)
      · simp only [hs1, if_false] at h ⊢
        by_cases hs0 : kids.size > 0
        · simp only [hs0, if_true, delSt, Option.some.injEq] at h ⊢
          rw [← h]
          obtain ⟨w', t', he, h2⟩ := Tr.cloneNode_inner (st.record d.watch) kind pfx none kids w t c hc
          simp only [cntD]
          rw [he]
          simp only [cnt, cntL_some, cntL_none]
          exact ((Tr.comp (record_le _ _) (cloneNode_le _ _) h1 h2).frame (cntK c kids)).weaken (by omega) (by omega)
        · simp only [hs0, if_false, delSt, Option.some.injEq] at h ⊢
          rw [← h]
          have h2 := Tr.record (st.record d.watch) w c
          simp only [cntD, cnt, cntL_some]
          exact (Tr.comp (record_le _ _) (record_le _ _) h1 h2).weaken (by omega) (by omega)

mutual
theorem delNode_tr (P : ArtParams) (st : St) (c : Nat) (hc : c ≠ 0) : (n : Node) → (key : List Nat) → (st' : St) →
    delSt (delNode P st n key) = some st' → Tr st st' c (cnt c n) (cntD c (delNode P st n key))
  | .leaf p d, key, st', h => by
    obtain ⟨hk, h'⟩ := delNode_leaf_inv P st p d key st' h
    subst hk
    rw [delNode_nil P st (.leaf key d) key (by simpa [Node.pfx] using hasPrefix_take key key) (by simp [Node.pfx])]
    exact delAt_tr st _ c hc st' h'
  | .inner kind pfx lf kids w t, key, st', h => by
    have hnf : delNode P st (.inner kind pfx lf kids w t) key ≠ .notFound := by
      intro e; rw [e] at h; simp [delSt] at h
    obtain ⟨_, hc'⟩ := delNode_inner_cases P st kind pfx lf kids w t key hnf
    rcases hc' with ⟨_, he⟩ | ⟨b, r, _, ⟨st1, n1, old1, kids', hdk, he⟩ | ⟨st1, old1, kids', hdk, he⟩⟩
    · rw [he] at h ⊢
      exact delAt_tr st _ c hc st' h
    · rw [he] at h ⊢
      simp only [delSt, Option.some.injEq] at h
      rw [← h]
      have hle := delKids_le P st kids b _ _ kids' st1 hdk rfl
      have h1 := (delKids_tr P st c hc kids b (b :: r) _ kids' st1 hdk rfl).1 st1 n1 old1 rfl
      obtain ⟨w', t', hcl, h2⟩ := Tr.cloneNode_inner st1 kind pfx lf kids' w t c hc
      simp only [cntD]
      rw [hcl]
      simp only [cnt]
      exact ((Tr.comp hle (cloneNode_le _ _) h1 h2).frame (cntL c lf)).weaken (by omega) (by omega)
    · rw [he] at h ⊢
      simp only [delSt, Option.some.injEq] at h
      rw [← h]
      have hle := delKids_le P st kids b _ _ kids' st1 hdk rfl
      obtain ⟨m, hm, h1⟩ := (delKids_tr P st c hc kids b (b :: r) _ kids' st1 hdk rfl).2 st1 old1 rfl
      have h2 := removeChild_tr P st1 kind pfx lf kids w t b c hc
      simp only [cntD, cnt]
      exact (Tr.comp hle (removeChild_le ..) h1 h2).weaken (by omega) (by omega)
theorem delKids_tr (P : ArtParams) (st : St) (c : Nat) (hc : c ≠ 0) : (kids : Kids) → (b : Nat) → (key : List Nat) →
    (r : DelRes) → (kids' : Kids) → (st' : St) → delKids P st kids b key = some (r, kids') → delSt r = some st' →
    (∀ s n' o, r = .replaced s n' o → Tr st st' c (cntK c kids) (cntK c kids')) ∧
    (∀ s o, r = .removed s o → ∃ m, cntK c kids = cntK c (kids.erase b) + m ∧ Tr st st' c m 0)
  | .nil, b, key, r, kids', st', h, hr => by simp [delKids] at h
  | .cons a n rest, b, key, r, kids', st', h, hr => by
    rcases delKids_inv' P st a n rest b key r kids' h with ⟨hab, hre, hk⟩ | ⟨hlt, hne, rest', hk, he⟩
    · have ih := delNode_tr P st c hc n key st' (by rw [← hre]; exact hr)
      rw [← hre] at ih
      constructor
      · intro s n' o hrr
        rcases hk with ⟨s2, n2, o2, hr2, he⟩ | ⟨hno, _⟩
        · rw [hrr] at hr2
          simp only [DelRes.replaced.injEq] at hr2
          rw [he, ← hr2.2.1]
          rw [hrr] at ih
          simp only [cntD] at ih
          simp only [cntK]
          exact ih.frame (cntK c rest)
        · exact absurd hrr (hno s n' o)
      · intro s o hrr
        rw [hrr] at ih
        simp only [cntD] at ih
        refine ⟨cnt c n, ?_, ih⟩
        simp only [Kids.erase, hab, if_true, cntK]; omega
    · have ih := delKids_tr P st c hc rest b key r rest' st' hk hr
      constructor
      · intro s n' o hrr
        rw [he]; simp only [cntK]
        exact ((ih.1 s n' o hrr).frame (cnt c n)).weaken (by omega) (by omega)
      · intro s o hrr
        obtain ⟨m, hm, htr⟩ := ih.2 s o hrr
        refine ⟨m, ?_, htr⟩
        simp only [Kids.erase, hne, if_false, cntK]; omega
end


end Sdb.ArtW
