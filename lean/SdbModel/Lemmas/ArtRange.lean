import SdbModel.Lemmas.ArtSorted

/-!
  Lemmas for C11, part 5: `prefixNode` and `lbNode` return the entries selected
  by a filter on the keys (same order).  Core Lean only.
-/
namespace Sdb.Art

/-! ### prefix search: the four ways `prefixNode` can go -/

theorem prefixNode_miss (n : Node) (w : Nat) (q : List Nat)
    (h : hasPrefix q (n.pfx.take (min q.length n.pfx.length)) = false) : (prefixNode n w q).1 = [] := by
  unfold prefixNode; simp [h]

theorem prefixNode_all (n : Node) (w : Nat) (q : List Nat)
    (h : hasPrefix q (n.pfx.take (min q.length n.pfx.length)) = true)
    (hd : q.drop (n.pfx.take (min q.length n.pfx.length)).length = []) : (prefixNode n w q).1 = entries n := by
  unfold prefixNode; simp only [h, hd]; simp

theorem prefixNode_leaf_more (p : List Nat) (d : LeafD) (w : Nat) (q : List Nat) (b : Nat) (r : List Nat)
    (h : hasPrefix q (p.take (min q.length p.length)) = true)
    (hd : q.drop (p.take (min q.length p.length)).length = b :: r) : (prefixNode (.leaf p d) w q).1 = [] := by
  unfold prefixNode; simp only [Node.pfx, h, hd]; simp

theorem prefixNode_inner_more (k : Nat) (p : List Nat) (lf : Option LeafD) (kids : Kids) (nw t : Nat)
    (w : Nat) (q : List Nat) (b : Nat) (r : List Nat)
    (h : hasPrefix q (p.take (min q.length p.length)) = true)
    (hd : q.drop (p.take (min q.length p.length)).length = b :: r) :
    ∃ w', (prefixNode (.inner k p lf kids nw t) w q).1 = (prefixK kids b w' (b :: r)).1 := by
  unfold prefixNode; simp only [Node.pfx, h, hd]; exact ⟨_, by simp; rfl⟩

theorem cp_cases (q p : List Nat) :
    (hasPrefix q (p.take (min q.length p.length)) = true ∧
      q.drop (p.take (min q.length p.length)).length = [] ∧ q <+: p) ∨
    (hasPrefix q (p.take (min q.length p.length)) = true ∧
      ∃ b r, q.drop (p.take (min q.length p.length)).length = b :: r ∧ q = p ++ b :: r) ∨
    (hasPrefix q (p.take (min q.length p.length)) = false ∧ ¬ q <+: p ∧ ¬ p <+: q) := by
  by_cases hle : q.length ≤ p.length
  · rw [Nat.min_eq_left hle]
    have hl : (p.take q.length).length = q.length := by simp [hle]
    cases h : hasPrefix q (p.take q.length) with
    | true =>
      have hpre := (hasPrefix_iff _ _).mp h
      have heq : p.take q.length = q := hpre.eq_of_length hl
      refine Or.inl ⟨rfl, by rw [hl]; simp, ?_⟩
      rw [← heq]; exact List.take_prefix _ _
    | false =>
      refine Or.inr (Or.inr ⟨rfl, ?_, ?_⟩)
      · intro hqp
        have : p.take q.length = q := (List.prefix_iff_eq_take.mp hqp).symm
        rw [this] at h
        have := hasPrefix_append_self q []
        simp only [List.append_nil] at this
        rw [this] at h; exact Bool.noConfusion h
      · intro hpq
        have hlen := hpq.length_le
        have : p = q := hpq.eq_of_length (by omega)
        subst this
        simp only [List.take_length] at h
        have := hasPrefix_append_self p []
        simp only [List.append_nil] at this
        rw [this] at h; exact Bool.noConfusion h
  · have hlt : p.length < q.length := by omega
    rw [Nat.min_eq_right (by omega), List.take_length]
    cases h : hasPrefix q p with
    | true =>
      have hk := hasPrefix_true_eq q p h
      cases hd : q.drop p.length with
      | nil =>
        rw [hd, List.append_nil] at hk
        rw [hk] at hlt; omega
      | cons b r =>
        rw [hd] at hk
        exact Or.inr (Or.inl ⟨rfl, b, r, rfl, hk⟩)
    | false =>
      refine Or.inr (Or.inr ⟨rfl, ?_, ?_⟩)
      · intro hqp; have := hqp.length_le; omega
      · intro hpq
        rw [(hasPrefix_iff _ _).mpr hpq] at h; exact Bool.noConfusion h

/-- the selection predicate of `Prefix` -/
def pfxP (q : List Nat) (e : List Nat × Nat) : Bool := hasPrefix e.1 q

theorem filter_pfx_none_kids (acc : List Nat) (kids : Kids) (h : WFKids acc kids) (b : Nat) (rest : List Nat)
    (hb : b ∉ kids.keys) : (entriesK kids).filter (pfxP (acc ++ b :: rest)) = [] := by
  rw [List.filter_eq_nil_iff]
  intro e he
  obtain ⟨c, hc, t, ht⟩ := entriesK_pfx acc kids h e he
  have hcb : c ≠ b := fun e' => hb (e' ▸ hc)
  simp [pfxP, ht, hasPrefix_append_left, hasPrefix_cons_cons, hcb]

theorem filter_pfx_none_node (acc : List Nat) (n : Node) (h : WFNode acc n) (c : Nat) (tl : List Nat)
    (hp : n.pfx = c :: tl) (b : Nat) (hcb : c ≠ b) (rest : List Nat) :
    (entries n).filter (pfxP (acc ++ b :: rest)) = [] := by
  rw [List.filter_eq_nil_iff]
  intro e he
  obtain ⟨t, ht⟩ := entries_pfx acc n h e he
  simp [pfxP, ht, hp, hasPrefix_append_left, hasPrefix_cons_cons, hcb]

theorem filter_pfx_all (acc : List Nat) (n : Node) (h : WFNode acc n) (q : List Nat) (hq : q <+: n.pfx) :
    (entries n).filter (pfxP (acc ++ q)) = entries n := by
  rw [List.filter_eq_self]
  intro e he
  obtain ⟨t, ht⟩ := entries_pfx acc n h e he
  obtain ⟨s, hs⟩ := hq
  simp only [pfxP, ht, ← hs, List.append_assoc, hasPrefix_append_left]
  exact hasPrefix_append_self q _

theorem filter_pfx_diverge (acc : List Nat) (n : Node) (h : WFNode acc n) (q : List Nat)
    (h1 : ¬ q <+: n.pfx) (h2 : ¬ n.pfx <+: q) : (entries n).filter (pfxP (acc ++ q)) = [] := by
  rw [List.filter_eq_nil_iff]
  intro e he hp
  obtain ⟨t, ht⟩ := entries_pfx acc n h e he
  simp only [pfxP, ht, List.append_assoc, hasPrefix_append_left] at hp
  have hq := (hasPrefix_iff _ _).mp hp
  have hn : n.pfx <+: n.pfx ++ t := List.prefix_append _ _
  rcases Nat.le_total q.length n.pfx.length with hl | hl
  · exact h1 (List.prefix_of_prefix_length_le hq hn hl)
  · exact h2 (List.prefix_of_prefix_length_le hn hq hl)

mutual
theorem prefixNode_eq (acc : List Nat) : (n : Node) → WFNode acc n → ∀ (w : Nat) (q : List Nat),
    (prefixNode n w q).1 = (entries n).filter (pfxP (acc ++ q))
  | .leaf p d, hwf => by
    intro w q
    rcases cp_cases q p with ⟨h, hd, hq⟩ | ⟨h, b, r, hd, hq⟩ | ⟨h, h1, h2⟩
    · rw [prefixNode_all (.leaf p d) w q h hd, filter_pfx_all acc _ hwf q hq]
    · rw [prefixNode_leaf_more p d w q b r h hd]
      simp only [WFNode] at hwf
      symm; rw [List.filter_eq_nil_iff]
      intro e he hp
      simp only [entries_leaf, List.mem_singleton] at he
      simp only [pfxP, he, hwf, hq, hasPrefix_append_left] at hp
      have := ((hasPrefix_iff _ _).mp hp).length_le
      simp at this; omega
    · rw [prefixNode_miss (.leaf p d) w q h, filter_pfx_diverge acc _ hwf q h1 h2]
  | .inner k p lf kids nw t, hwf => by
    intro w q
    rcases cp_cases q p with ⟨h, hd, hq⟩ | ⟨h, b, r, hd, hq⟩ | ⟨h, h1, h2⟩
    · rw [prefixNode_all (.inner k p lf kids nw t) w q h hd, filter_pfx_all acc _ hwf q hq]
    · obtain ⟨w', e⟩ := prefixNode_inner_more k p lf kids nw t w q b r h hd
      rw [e]
      simp only [WFNode] at hwf
      obtain ⟨hlf, hk⟩ := hwf
      rw [prefixK_eq (acc ++ p) kids hk b w' (b :: r) r rfl, entries_inner, List.filter_append, hq]
      have : (lfList lf).filter (pfxP (acc ++ (p ++ b :: r))) = [] := by
        rw [List.filter_eq_nil_iff]
        intro e he hp
        cases lf with
        | none => simp [lfList] at he
        | some d =>
          simp only [lfList, List.mem_singleton] at he
          simp only [pfxP, he, hlf d rfl, hasPrefix_append_left] at hp
          have := ((hasPrefix_iff _ _).mp hp).length_le
          simp at this; omega
      rw [this, List.nil_append, List.append_assoc]
    · rw [prefixNode_miss (.inner k p lf kids nw t) w q h, filter_pfx_diverge acc _ hwf q h1 h2]
theorem prefixK_eq (acc : List Nat) : (kids : Kids) → WFKids acc kids → ∀ (b w : Nat) (q rest : List Nat),
    q = b :: rest → (prefixK kids b w q).1 = (entriesK kids).filter (pfxP (acc ++ q))
  | .nil, _ => by intro b w q rest _; simp [prefixK, entriesK]
  | .cons c n rs, hwf => by
    intro b w q rest hq
    simp only [WFKids] at hwf
    obtain ⟨⟨tl, hpf⟩, hn, hlt, hrs⟩ := hwf
    simp only [prefixK, entriesK, List.filter_append]
    by_cases hcb : c = b
    · subst hcb
      simp only [if_true]
      rw [prefixNode_eq acc n hn w q, hq, filter_pfx_none_kids acc rs hrs c rest
        (fun hc => Nat.lt_irrefl _ (hlt _ hc)), List.append_nil]
    · simp only [hcb, if_false]
      rw [hq, filter_pfx_none_node acc n hn c tl hpf b hcb rest, List.nil_append]
      by_cases hlt' : c < b
      · simp only [hlt', if_true]
        rw [prefixK_eq acc rs hrs b w (b :: rest) rest rfl]
      · simp only [hlt', if_false]
        rw [filter_pfx_none_kids acc rs hrs b rest]
        intro hc; have := hlt _ hc; omega
end

/-! ### lower bound -/

theorem lb_trunc (x y : List Nat) :
    (cmpL x (y.take (min y.length x.length)) = .lt → ∀ t, cmpL (x ++ t) y = .lt) ∧
    (cmpL x (y.take (min y.length x.length)) = .gt → ∀ t, cmpL (x ++ t) y = .gt) ∧
    (cmpL x (y.take (min y.length x.length)) = .eq → ∃ s, y = x ++ s) := by
  induction x generalizing y with
  | nil => simp
  | cons a xs ih =>
    cases y with
    | nil => simp
    | cons b ys =>
      have hmin : min (b :: ys).length (a :: xs).length = min ys.length xs.length + 1 := by
        simp only [List.length_cons]; omega
      rw [hmin, List.take_succ_cons]
      simp only [cmpL_cons_cons, List.cons_append]
      obtain ⟨i1, i2, i3⟩ := ih ys
      by_cases h1 : a < b
      · simp [h1]
      · by_cases h2 : b < a
        · simp [h1, h2]
        · have : a = b := by omega
          subst this
          simp only [h1, if_false]
          refine ⟨i1, i2, ?_⟩
          intro h
          obtain ⟨s, hs⟩ := i3 h
          exact ⟨s, by rw [hs]⟩

theorem lbNode_lt (n : Node) (key : List Nat)
    (h : cmpL n.pfx (key.take (min key.length n.pfx.length)) = .lt) : lbNode n key = [] := by
  unfold lbNode; simp [h]

theorem lbNode_gt (n : Node) (key : List Nat)
    (h : cmpL n.pfx (key.take (min key.length n.pfx.length)) = .gt) : lbNode n key = entries n := by
  unfold lbNode; simp [h]

theorem lbNode_eq_len (n : Node) (key : List Nat)
    (h : cmpL n.pfx (key.take (min key.length n.pfx.length)) = .eq) (hl : n.pfx.length = key.length) :
    lbNode n key = entries n := by
  unfold lbNode; simp only [h]; simp [hl]

theorem lbNode_leaf_more (p : List Nat) (d : LeafD) (key : List Nat)
    (h : cmpL p (key.take (min key.length p.length)) = .eq) (hl : p.length ≠ key.length) :
    lbNode (.leaf p d) key = [] := by
  unfold lbNode; simp [Node.pfx, h, hl]

theorem lbNode_inner_more (k : Nat) (p : List Nat) (lf : Option LeafD) (kids : Kids) (nw t : Nat) (key : List Nat)
    (h : cmpL p (key.take (min key.length p.length)) = .eq) (hl : p.length ≠ key.length) :
    lbNode (.inner k p lf kids nw t) key = lbK kids ((key.drop p.length).headD 0) (key.drop p.length) := by
  unfold lbNode; simp [Node.pfx, h, hl]

/-- the selection predicate of `LowerBound`: key ≥ k -/
def geP (k : List Nat) (e : List Nat × Nat) : Bool := decide (cmpL e.1 k ≠ .lt)

theorem cmpL_append_ge (x t : List Nat) : cmpL (x ++ t) x ≠ .lt := by
  cases t with
  | nil => rw [List.append_nil, cmpL_refl]; decide
  | cons c r =>
    rw [cmpL_swap x (x ++ c :: r), cmpL_prefix_lt]; decide

theorem ge_filter_none_node (acc : List Nat) (n : Node) (h : WFNode acc n) (c : Nat) (tl : List Nat)
    (hp : n.pfx = c :: tl) (b : Nat) (hcb : c < b) (rest : List Nat) :
    (entries n).filter (geP (acc ++ b :: rest)) = [] := by
  rw [List.filter_eq_nil_iff]
  intro e he
  obtain ⟨t, ht⟩ := entries_pfx acc n h e he
  have : cmpL e.1 (acc ++ b :: rest) = .lt := by
    rw [ht, hp]; simp only [List.append_assoc, List.cons_append]
    exact cmpL_diff_lt acc c b _ _ hcb
  simp [geP, this]

theorem ge_filter_all_kids (acc : List Nat) (kids : Kids) (h : WFKids acc kids) (b : Nat) (rest : List Nat)
    (hb : ∀ c ∈ kids.keys, b < c) : (entriesK kids).filter (geP (acc ++ b :: rest)) = entriesK kids := by
  rw [List.filter_eq_self]
  intro e he
  obtain ⟨c, hc, t, ht⟩ := entriesK_pfx acc kids h e he
  have : cmpL e.1 (acc ++ b :: rest) = .gt := by
    rw [ht]; exact cmpL_diff_gt acc b c _ _ (hb c hc)
  simp [geP, this]

mutual
theorem lbNode_eq (acc : List Nat) : (n : Node) → WFNode acc n → ∀ (key : List Nat),
    lbNode n key = (entries n).filter (geP (acc ++ key))
  | .leaf p d, hwf => by
    intro key
    obtain ⟨l1, l2, l3⟩ := lb_trunc p key
    cases hc : cmpL p (key.take (min key.length p.length)) with
    | lt =>
      rw [lbNode_lt (.leaf p d) key hc]
      symm; rw [List.filter_eq_nil_iff]
      intro e he
      obtain ⟨t, ht⟩ := entries_pfx acc _ hwf e he
      simp [geP, ht, List.append_assoc, cmpL_append_left, Node.pfx, l1 hc t]
    | gt =>
      rw [lbNode_gt (.leaf p d) key hc]
      symm; rw [List.filter_eq_self]
      intro e he
      obtain ⟨t, ht⟩ := entries_pfx acc _ hwf e he
      simp [geP, ht, List.append_assoc, cmpL_append_left, Node.pfx, l2 hc t]
    | eq =>
      obtain ⟨s, hs⟩ := l3 hc
      by_cases hl : p.length = key.length
      · rw [lbNode_eq_len (.leaf p d) key hc hl]
        have : s = [] := List.eq_nil_of_length_eq_zero (by have := congrArg List.length hs; simp at this; omega)
        subst this
        rw [List.append_nil] at hs
        symm; rw [List.filter_eq_self]
        intro e he
        obtain ⟨t, ht⟩ := entries_pfx acc _ hwf e he
        simp only [geP, ht, List.append_assoc, cmpL_append_left, Node.pfx, hs, decide_eq_true_eq]
        exact cmpL_append_ge p t
      · rw [lbNode_leaf_more p d key hc hl]
        cases s with
        | nil => rw [List.append_nil] at hs; exact absurd (congrArg List.length hs).symm hl
        | cons b rest =>
          simp only [WFNode] at hwf
          symm; rw [List.filter_eq_nil_iff]
          intro e he
          simp only [entries_leaf, List.mem_singleton] at he
          simp [geP, he, hwf, hs, cmpL_append_left, cmpL_prefix_lt]
  | .inner k p lf kids nw t, hwf => by
    intro key
    obtain ⟨l1, l2, l3⟩ := lb_trunc p key
    cases hc : cmpL p (key.take (min key.length p.length)) with
    | lt =>
      rw [lbNode_lt (.inner k p lf kids nw t) key hc]
      symm; rw [List.filter_eq_nil_iff]
      intro e he
      obtain ⟨t, ht⟩ := entries_pfx acc _ hwf e he
      simp [geP, ht, List.append_assoc, cmpL_append_left, Node.pfx, l1 hc t]
    | gt =>
      rw [lbNode_gt (.inner k p lf kids nw t) key hc]
      symm; rw [List.filter_eq_self]
      intro e he
      obtain ⟨t, ht⟩ := entries_pfx acc _ hwf e he
      simp [geP, ht, List.append_assoc, cmpL_append_left, Node.pfx, l2 hc t]
    | eq =>
      obtain ⟨s, hs⟩ := l3 hc
      by_cases hl : p.length = key.length
      · rw [lbNode_eq_len (.inner k p lf kids nw t) key hc hl]
        have : s = [] := List.eq_nil_of_length_eq_zero (by have := congrArg List.length hs; simp at this; omega)
        subst this
        rw [List.append_nil] at hs
        symm; rw [List.filter_eq_self]
        intro e he
        obtain ⟨t, ht⟩ := entries_pfx acc _ hwf e he
        simp only [geP, ht, List.append_assoc, cmpL_append_left, Node.pfx, hs, decide_eq_true_eq]
        exact cmpL_append_ge p t
      · rw [lbNode_inner_more k p lf kids nw t key hc hl]
        cases s with
        | nil => rw [List.append_nil] at hs; exact absurd (congrArg List.length hs).symm hl
        | cons b rest =>
          simp only [WFNode] at hwf
          obtain ⟨hlf, hk⟩ := hwf
          have hd : key.drop p.length = b :: rest := by rw [hs]; simp
          rw [hd, List.headD_cons, lbK_eq (acc ++ p) kids hk b (b :: rest) rest rfl, entries_inner,
            List.filter_append, hs]
          have : (lfList lf).filter (geP (acc ++ (p ++ b :: rest))) = [] := by
            rw [List.filter_eq_nil_iff]
            intro e he
            cases lf with
            | none => simp [lfList] at he
            | some d =>
              simp only [lfList, List.mem_singleton] at he
              simp [geP, he, hlf d rfl, cmpL_append_left, cmpL_prefix_lt]
          rw [this, List.nil_append, List.append_assoc]
theorem lbK_eq (acc : List Nat) : (kids : Kids) → WFKids acc kids → ∀ (b : Nat) (key rest : List Nat),
    key = b :: rest → lbK kids b key = (entriesK kids).filter (geP (acc ++ key))
  | .nil, _ => by intro b key rest _; simp [lbK, entriesK]
  | .cons c n rs, hwf => by
    intro b key rest hkey
    simp only [WFKids] at hwf
    obtain ⟨⟨tl, hpf⟩, hn, hlt, hrs⟩ := hwf
    simp only [lbK, entriesK, List.filter_append]
    by_cases hcb : c < b
    · simp only [hcb, if_true]
      rw [hkey, ge_filter_none_node acc n hn c tl hpf b hcb rest, List.nil_append,
        lbK_eq acc rs hrs b (b :: rest) rest rfl]
    · simp only [hcb, if_false]
      rw [lbNode_eq acc n hn key, hkey, ge_filter_all_kids acc rs hrs b rest]
      intro x hx; have := hlt x hx; omega
end

end Sdb.Art
