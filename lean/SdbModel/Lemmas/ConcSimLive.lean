import SdbModel.Lemmas.ConcSimCor
import SdbModel.Lemmas.ConcSimFuel

/-!
  ConcSimLive — deadlock freedom of `Model.Conc`, for all schedules.

  `Tidy`: a finished thread has an empty program and an unfinished one a
  non-empty program (this is where the fuel of `Conc.step` matters).  With the
  abstraction relation `R` a disabled thread is waiting either for a table mutex —
  whose owner is an unfinished thread that is enabled, or waits for a LARGER
  table, or waits for the root mutex — or for the root mutex, whose owner is
  inside its critical section and always enabled.  Hence some thread is enabled
  whenever some thread is unfinished.  Core Lean only.
-/
namespace Sdb.Conc
open Sdb.Serial (Txn Phase)

/-- what `Conc.step` does to a thread before running it: leave the park it rests at -/
def dropPark (th : Thread) : Thread :=
  match th.prog with
  | .park _ :: rest => { th with prog := rest }
  | _ => th

theorem step_eq (st : State) (tid : Nat) (th : Thread) (hth : st.threads[tid]? = some th)
    (hd : th.done = false) (he : th.enabled st = true) :
    (step st tid).1 = install (runThread st tid (dropPark th) ((dropPark th).prog.length + 2)).1 tid
      (runThread st tid (dropPark th) ((dropPark th).prog.length + 2)).2.1 := by
  unfold step
  simp only [hth]
  rw [if_neg (by rw [hd]; simp), if_neg (by rw [he]; simp)]
  rfl

theorem step_noop (st : State) (tid : Nat)
    (h : ∀ th, st.threads[tid]? = some th → th.done = true ∨ th.enabled st = false) :
    (step st tid).1 = st := by
  unfold step
  split
  · rfl
  · rename_i th hth
    rcases h th hth with hd | he
    · simp [hd]
    · cases hd : th.done <;> simp [he]

/-- finished ⇒ empty program, unfinished ⇒ non-empty program -/
def TidyT (th : Thread) : Prop := (th.done = true → th.prog = []) ∧ (th.done = false → th.prog ≠ [])

def Tidy (st : State) : Prop := ∀ (tid : Nat) (th : Thread), st.threads[tid]? = some th → TidyT th

theorem runThread_tidy (tid : Nat) : ∀ (fuel : Nat) (st : State) (th : Thread),
    th.prog.length < fuel → th.done = false → TidyT (runThread st tid th fuel).2.1 := by
  intro fuel
  induction fuel with
  | zero => intro st th h; omega
  | succ n ih =>
    intro st th hn hd
    cases hp : th.prog with
    | nil =>
      rw [runThread_nil _ _ _ _ hp]
      exact ⟨fun _ => hp, fun h => by simp at h⟩
    | cons x rest =>
      rw [hp] at hn
      simp only [List.length_cons] at hn
      have stay : TidyT th := ⟨fun h => by rw [hd] at h; simp at h, fun _ => by rw [hp]; simp⟩
      cases x with
      | park l => rw [runThread_park _ _ _ _ _ _ hp]; exact stay
      | acquire t =>
        by_cases hb : (st.lockOwner.getD t none).isSome = true
        · rw [runThread_acquire_blocked _ _ _ _ _ _ hp hb]; exact stay
        · rw [runThread_acquire _ _ _ _ _ _ hp hb]
          exact ih _ _ (by simp; omega) (by simpa using hd)
      | release t =>
        rw [runThread_release _ _ _ _ _ _ hp]
        exact ih _ _ (by simp; omega) (by simpa using hd)
      | acquireRoot =>
        by_cases hb : st.rootMu.isSome = true
        · rw [runThread_acquireRoot_blocked _ _ _ _ _ hp hb]; exact stay
        · rw [runThread_acquireRoot _ _ _ _ _ hp hb]
          exact ih _ _ (by simp; omega) (by simpa using hd)
      | releaseRoot =>
        rw [runThread_releaseRoot _ _ _ _ _ hp]
        exact ih _ _ (by simp; omega) (by simpa using hd)
      | act a =>
        rw [runThread_act _ _ _ _ _ _ hp]
        exact ih _ _ (by rw [doAct_prog]; simp; omega) ((doAct_done _ _ _).trans hd)
      | userWrites =>
        rw [runThread_userWrites _ _ _ _ _ hp]
        have := (doUserWrites_spec st { th with prog := rest }).2.2.2.2.2.2.1
        exact ih _ _ (by rw [this]; simp; omega) ((doUserWrites_done _ _).trans hd)

theorem dropPark_done (th : Thread) : (dropPark th).done = th.done := by
  unfold dropPark; split <;> rfl

theorem step_tidy (st : State) (tid : Nat) (h : Tidy st) : Tidy (step st tid).1 := by
  by_cases hc : ∀ th, st.threads[tid]? = some th → th.done = true ∨ th.enabled st = false
  · rw [step_noop st tid hc]; exact h
  · have : ∃ th, st.threads[tid]? = some th ∧ th.done = false ∧ th.enabled st = true := by
      apply Classical.byContradiction
      intro hn
      apply hc
      intro th hth
      cases hd : th.done with
      | true => exact Or.inl rfl
      | false =>
        right
        cases he : th.enabled st with
        | false => rfl
        | true => exact absurd ⟨th, hth, hd, he⟩ hn
    obtain ⟨th, hth, hd, he⟩ := this
    rw [step_eq st tid th hth hd he]
    have hdd : (dropPark th).done = false := by rw [dropPark_done]; exact hd
    have hthr := mstar_threads (runThread_mstar tid ((dropPark th).prog.length + 2) st (dropPark th) hdd)
    intro j thj hj
    simp only [install] at hj hthr
    rw [hthr, getElem?_set_thread _ _ _ _ (lt_of_getElem?_some _ _ _ hth)] at hj
    by_cases hjt : j = tid
    · rw [if_pos hjt] at hj
      simp only [Option.some.injEq] at hj; subst hj
      exact runThread_tidy tid _ st (dropPark th) (by omega) hdd
    · rw [if_neg hjt] at hj
      exact h j thj hj

theorem reach_tidy (P : Protocol) (n : Nat) (st : State) (cs : List Bool) (h : Reach P n st cs) : Tidy st := by
  have spawn : ∀ (st : State) (thn : Thread), Tidy st → thn.done = false → thn.prog ≠ [] →
      Tidy { st with threads := st.threads ++ [thn] } := by
    intro st thn ht hd hp j thj hj
    simp only at hj
    by_cases hlt : j < st.threads.length
    · rw [List.getElem?_append_left hlt] at hj; exact ht j thj hj
    · have hlen := lt_of_getElem?_some _ _ _ hj
      simp only [List.length_append, List.length_singleton] at hlen
      have he : j = st.threads.length := by omega
      subst he
      simp only [List.getElem?_concat_length, Option.some.injEq] at hj
      subst hj
      exact ⟨fun h => by rw [hd] at h; simp at h, fun _ => hp⟩
  induction h with
  | init => intro j thj hj; simp [initState] at hj
  | writer st cs tabs commit mi ri _ _ ih => exact spawn st _ ih rfl (by simp [writerProg])
  | register st cs _ ih => exact spawn st _ ih rfl (by simp [registerProg])
  | registerDup st cs _ ih => exact spawn st _ ih rfl (by simp [registerDupProg])
  | step st cs tid _ ih => exact step_tidy st tid ih

/-! ### what a disabled thread waits for -/

theorem disabled_head (st : State) (th : Thread) (hne : th.prog ≠ []) (hd : th.done = false)
    (he : th.enabled st = false) :
    (∃ t rest, strip th.prog = .acquire t :: rest ∧ (st.lockOwner.getD t none).isSome = true) ∨
    (∃ rest, strip th.prog = .acquireRoot :: rest ∧ st.rootMu.isSome = true) := by
  unfold Thread.enabled at he
  rw [hd] at he
  simp only [Bool.false_eq_true, if_false] at he
  split at he
  · rename_i l t r hp
    left
    refine ⟨t, strip r, by rw [hp]; simp [strip_cons, relevant_park, relevant_acquire], ?_⟩
    cases ho : st.lockOwner.getD t none with
    | none => rw [ho] at he; simp at he
    | some v => rfl
  · rename_i l r hp
    right
    refine ⟨strip r, by rw [hp]; simp [strip_cons, relevant_park, relevant_acquireRoot], ?_⟩
    cases ho : st.rootMu with
    | none => rw [ho] at he; simp at he
    | some v => rfl
  · rename_i t r hp
    left
    refine ⟨t, strip r, by rw [hp]; simp [strip_cons, relevant_acquire], ?_⟩
    cases ho : st.lockOwner.getD t none with
    | none => rw [ho] at he; simp at he
    | some v => rfl
  · rename_i r hp
    right
    refine ⟨strip r, by rw [hp]; simp [strip_cons, relevant_acquireRoot], ?_⟩
    cases ho : st.rootMu with
    | none => rw [ho] at he; simp at he
    | some v => rfl
  · rename_i hp; exact absurd hp hne
  · simp at he

theorem code_head_acquire (L : List Nat) (c : Bool) (p : Pos) (t : Nat) (r : List Micro)
    (h : code L c p = .acquire t :: r) : ∃ k, p = .acq k ∧ L[k]? = some t := by
  rw [code_next] at h
  cases p with
  | acq k =>
    simp only [next] at h
    cases hk : L[k]? with
    | some tb =>
      rw [hk] at h
      simp only [List.cons.injEq, Micro.acquire.injEq] at h
      exact ⟨k, rfl, by rw [hk, h.1]⟩
    | none => rw [hk] at h; simp at h
  | rel k =>
    simp only [next] at h
    cases hk : L[k]? with
    | some tb => rw [hk] at h; simp at h
    | none => rw [hk] at h; simp at h
  | _ => simp [next] at h

/-- inside a root-mutex critical section the next effectful step never blocks -/
theorem code_head_inCS (L : List Nat) (c : Bool) (p : Pos) (hp : inCS p = true) :
    (∀ t r, code L c p ≠ .acquire t :: r) ∧ (∀ r, code L c p ≠ .acquireRoot :: r) ∧ code L c p ≠ [] := by
  cases p <;> first | (simp [inCS] at hp; done) | simp [code]

/-! ### some thread can always run -/

/-- a thread that can be scheduled: unfinished and not blocked -/
def Runnable (st : State) : Prop :=
  ∃ (tid : Nat) (th : Thread), st.threads[tid]? = some th ∧ th.done = false ∧ th.enabled st = true

/-- the owner of the root mutex can run: nothing blocks inside the critical section -/
theorem rootOwner_runnable (st : State) (s : Serial.State) (hR : R st s) (htidy : Tidy st) (j : Nat)
    (hmu : st.rootMu = some j) : Runnable st := by
  have hlt := hR.muLt j hmu
  have hth : st.threads[j]? = some st.threads[j] := List.getElem?_eq_getElem hlt
  generalize st.threads[j] = th at hth
  obtain ⟨t, _, _, _, p, hp, hcs, _⟩ := hR.thr j th hth
  obtain ⟨c1, c2, c3⟩ := code_head_inCS (lockList th) t.commit p (hcs.1 hmu)
  obtain ⟨td, tn⟩ := htidy j th hth
  cases hd : th.done with
  | true => rw [td hd] at hp; exact absurd hp.symm c3
  | false =>
    refine ⟨j, th, hth, hd, ?_⟩
    cases he : th.enabled st with
    | true => rfl
    | false =>
      rcases disabled_head st th (tn hd) hd he with ⟨t', r, h1, _⟩ | ⟨r, h1, _⟩
      · rw [hp] at h1; exact absurd h1 (c1 t' r)
      · rw [hp] at h1; exact absurd h1 (c2 r)

/-- the wait-for chain: the owner of a held table mutex can run, or waits for a
    LARGER table, or waits for the root mutex, whose owner can run -/
theorem tableOwner_progress (st : State) (s : Serial.State) (hs : Serial.Reachable s) (hR : R st s)
    (htidy : Tidy st) : ∀ (n tb : Nat), (st.lockOwner.getD tb none).isSome = true →
      st.lockOwner.length - tb ≤ n → Runnable st := by
  have inv := Serial.inv_reachable s hs
  intro n
  induction n with
  | zero =>
    intro tb hsome hn
    -- a held table is inside the mutex array
    exfalso
    have : st.lockOwner.length ≤ tb := by omega
    rw [List.getD_eq_getElem?_getD, List.getElem?_eq_none this] at hsome
    simp at hsome
  | succ n ih =>
    intro tb hsome hn
    cases ho : st.lockOwner.getD tb none with
    | none => rw [ho] at hsome; simp at hsome
    | some j =>
      rw [hR.owner tb] at ho
      obtain ⟨tj, htj, hheld⟩ := inv.ownerHeld tb j ho
      have hlt : j < st.threads.length := by rw [← hR.len]; exact lt_of_getElem?_some _ _ _ htj
      have hth : st.threads[j]? = some st.threads[j] := List.getElem?_eq_getElem hlt
      generalize st.threads[j] = th at hth
      obtain ⟨t, ht, htabs, hb, p, hp, hcs, hl⟩ := hR.thr j th hth
      rw [htj] at ht; simp only [Option.some.injEq] at ht; subst ht
      obtain ⟨td, tn⟩ := htidy j th hth
      cases hd : th.done with
      | true =>
        exfalso
        rw [td hd] at hp
        have hnx := nil_code _ _ _ (show [] = code _ _ _ from hp)
        cases p with
        | rel k =>
          obtain ⟨_, _, hph, _⟩ := hl
          rw [hd] at hph; simp only [if_true] at hph
          simp [Serial.held, hph] at hheld
        | gE => simp [Serial.held, hl.2] at hheld
        | acq k =>
          simp only [next] at hnx
          cases hk : (lockList th)[k]? <;> rw [hk] at hnx <;> simp at hnx
        | _ => simp [next] at hnx
      | false =>
        cases he : th.enabled st with
        | true => exact ⟨j, th, hth, hd, he⟩
        | false =>
          rcases disabled_head st th (tn hd) hd he with ⟨t', r, h1, hs'⟩ | ⟨r, _, hmu⟩
          · rw [hp] at h1
            obtain ⟨k, rfl, hk⟩ := code_head_acquire _ _ _ _ _ h1
            simp only [Serial.held, hl.1] at hheld
            rw [htabs] at hheld
            have hlt' := Serial.ascending_take_lt (lockList th) (lockOrder_ascending th.tables).1 k t' hk tb hheld
            have hB := (hb t' (List.mem_of_getElem? hk)).2
            exact ih t' hs' (by omega)
          · cases hm : st.rootMu with
            | none => rw [hm] at hmu; simp at hmu
            | some j' => exact rootOwner_runnable st s hR htidy j' hm

/-- **no deadlock**: in a tidy state related to a reachable state of `Model.Serial`,
    if some thread is unfinished then some thread can run -/
theorem runnable_of_unfinished (st : State) (cs : List Bool) (hsim : Sim st cs) (htidy : Tidy st)
    (hex : ∃ (tid : Nat) (th : Thread), st.threads[tid]? = some th ∧ th.done = false) : Runnable st := by
  obtain ⟨s, hs, hR, _⟩ := hsim
  obtain ⟨tid, th, hth, hd⟩ := hex
  cases he : th.enabled st with
  | true => exact ⟨tid, th, hth, hd, he⟩
  | false =>
    rcases disabled_head st th ((htidy tid th hth).2 hd) hd he with ⟨t', r, _, hs'⟩ | ⟨r, _, hmu⟩
    · exact tableOwner_progress st s hs hR htidy _ t' hs' (Nat.le_refl _)
    · cases hm : st.rootMu with
      | none => rw [hm] at hmu; simp at hmu
      | some j' => exact rootOwner_runnable st s hR htidy j' hm

/-! ### a scheduled step makes progress -/

/-- remaining work of a thread: its remaining program, plus one for setting `done` -/
def workT (th : Thread) : Nat := th.prog.length + (if th.done then 0 else 1)

/-- remaining work of all threads -/
def work (st : State) : Nat := (st.threads.map workT).sum

theorem runThread_prog_le (tid : Nat) : ∀ (fuel : Nat) (st : State) (th : Thread),
    (runThread st tid th fuel).2.1.prog.length ≤ th.prog.length := by
  intro fuel
  induction fuel with
  | zero => intro st th; exact Nat.le_refl _
  | succ n ih =>
    intro st th
    cases hp : th.prog with
    | nil => rw [runThread_nil _ _ _ _ hp]; simp [hp]
    | cons x rest =>
      have hle : ∀ (st' : State) (th' : Thread), th'.prog = rest →
          (runThread st' tid th' n).2.1.prog.length ≤ (x :: rest).length := by
        intro st' th' h'
        have := ih st' th'
        rw [h'] at this
        simp only [List.length_cons]; omega
      cases x with
      | park l => rw [runThread_park _ _ _ _ _ _ hp, hp]; exact Nat.le_refl _
      | acquire t =>
        by_cases hb : (st.lockOwner.getD t none).isSome = true
        · rw [runThread_acquire_blocked _ _ _ _ _ _ hp hb, hp]; exact Nat.le_refl _
        · rw [runThread_acquire _ _ _ _ _ _ hp hb]; exact hle _ _ rfl
      | release t => rw [runThread_release _ _ _ _ _ _ hp]; exact hle _ _ rfl
      | acquireRoot =>
        by_cases hb : st.rootMu.isSome = true
        · rw [runThread_acquireRoot_blocked _ _ _ _ _ hp hb, hp]; exact Nat.le_refl _
        · rw [runThread_acquireRoot _ _ _ _ _ hp hb]; exact hle _ _ rfl
      | releaseRoot => rw [runThread_releaseRoot _ _ _ _ _ hp]; exact hle _ _ rfl
      | act a => rw [runThread_act _ _ _ _ _ _ hp]; exact hle _ _ (doAct_prog _ _ _)
      | userWrites =>
        rw [runThread_userWrites _ _ _ _ _ hp]
        exact hle _ _ (doUserWrites_spec st { th with prog := rest }).2.2.2.2.2.2.1

/-- running an enabled, unfinished thread strictly reduces its remaining work -/
theorem run_work_lt (st : State) (tid : Nat) (th : Thread) (hd : th.done = false) (he : th.enabled st = true) :
    workT (runThread st tid (dropPark th) ((dropPark th).prog.length + 2)).2.1 < workT th := by
  have hdd : (dropPark th).done = false := by rw [dropPark_done]; exact hd
  have htidy := runThread_tidy tid ((dropPark th).prog.length + 2) st (dropPark th) (by omega) hdd
  have hle := runThread_prog_le tid ((dropPark th).prog.length + 2) st (dropPark th)
  -- it suffices that the program got shorter, or the thread finished
  have key : ∀ r : Thread, TidyT r → (r.prog.length < th.prog.length ∨ r.done = true) → workT r < workT th := by
    intro r ht hr
    unfold workT
    rw [hd]
    cases hrd : r.done with
    | true => rw [ht.1 hrd]; simp
    | false =>
      rcases hr with h | h
      · simp; omega
      · rw [hrd] at h; simp at h
  apply key _ htidy
  cases hp : th.prog with
  | nil => simp [Thread.enabled, hd, hp] at he
  | cons x rest =>
    have hle' : ∀ (st' : State) (th' : Thread) (n : Nat), th'.prog = rest →
        (runThread st' tid th' n).2.1.prog.length < (x :: rest).length := by
      intro st' th' n h'
      have := runThread_prog_le tid n st' th'
      rw [h'] at this
      simp only [List.length_cons]; omega
    have hdp : ∀ (hx : ∀ l, x ≠ .park l), dropPark th = th := by
      intro hx
      unfold dropPark
      rw [hp]
      cases x <;> first | rfl | exact absurd rfl (hx _)
    cases x with
    | park l =>
      left
      have : (dropPark th).prog.length = rest.length := by unfold dropPark; rw [hp]
      simp only [List.length_cons]; omega
    | acquire t =>
      rw [hdp (by simp), hp]
      have hfree : ¬ (st.lockOwner.getD t none).isSome = true := by
        unfold Thread.enabled at he
        rw [hd, hp] at he
        simp only [Bool.false_eq_true, if_false] at he
        cases ho : st.lockOwner.getD t none with
        | none => simp
        | some v => rw [ho] at he; simp at he
      left
      show (runThread st tid th ((Micro.acquire t :: rest).length + 1 + 1)).2.1.prog.length < _
      rw [runThread_acquire _ _ _ _ _ _ hp hfree]; exact hle' _ _ _ rfl
    | release t =>
      rw [hdp (by simp), hp]; left
      show (runThread st tid th ((Micro.release t :: rest).length + 1 + 1)).2.1.prog.length < _
      rw [runThread_release _ _ _ _ _ _ hp]; exact hle' _ _ _ rfl
    | acquireRoot =>
      rw [hdp (by simp), hp]
      have hfree : ¬ st.rootMu.isSome = true := by
        unfold Thread.enabled at he
        rw [hd, hp] at he
        simp only [Bool.false_eq_true, if_false] at he
        cases ho : st.rootMu with
        | none => simp
        | some v => rw [ho] at he; simp at he
      left
      show (runThread st tid th ((Micro.acquireRoot :: rest).length + 1 + 1)).2.1.prog.length < _
      rw [runThread_acquireRoot _ _ _ _ _ hp hfree]; exact hle' _ _ _ rfl
    | releaseRoot =>
      rw [hdp (by simp), hp]; left
      show (runThread st tid th ((Micro.releaseRoot :: rest).length + 1 + 1)).2.1.prog.length < _
      rw [runThread_releaseRoot _ _ _ _ _ hp]; exact hle' _ _ _ rfl
    | act a =>
      rw [hdp (by simp), hp]; left
      show (runThread st tid th ((Micro.act a :: rest).length + 1 + 1)).2.1.prog.length < _
      rw [runThread_act _ _ _ _ _ _ hp]; exact hle' _ _ _ (doAct_prog _ _ _)
    | userWrites =>
      rw [hdp (by simp), hp]; left
      show (runThread st tid th ((Micro.userWrites :: rest).length + 1 + 1)).2.1.prog.length < _
      rw [runThread_userWrites _ _ _ _ _ hp]
      exact hle' _ _ _ (doUserWrites_spec st { th with prog := rest }).2.2.2.2.2.2.1

theorem sum_map_set (f : Thread → Nat) : ∀ (l : List Thread) (i : Nat) (a b : Thread), l[i]? = some a →
    ((l.set i b).map f).sum + f a = (l.map f).sum + f b := by
  intro l
  induction l with
  | nil => intro i a b h; simp at h
  | cons c l ih =>
    intro i a b h
    cases i with
    | zero =>
      simp only [List.getElem?_cons_zero, Option.some.injEq] at h; subst h
      simp only [List.set_cons_zero, List.map_cons, List.sum_cons]; omega
    | succ i =>
      simp only [List.getElem?_cons_succ] at h
      have := ih i a b h
      simp only [List.set_cons_succ, List.map_cons, List.sum_cons]; omega

/-- **progress**: scheduling a runnable thread strictly reduces the remaining work
    of the system — so no schedule of runnable threads goes on for ever -/
theorem step_work_lt (st : State) (tid : Nat) (th : Thread) (hth : st.threads[tid]? = some th)
    (hd : th.done = false) (he : th.enabled st = true) : work (step st tid).1 < work st := by
  rw [step_eq st tid th hth hd he]
  have hdd : (dropPark th).done = false := by rw [dropPark_done]; exact hd
  have hthr := mstar_threads (runThread_mstar tid ((dropPark th).prog.length + 2) st (dropPark th) hdd)
  simp only at hthr
  unfold work
  simp only [install]
  rw [hthr]
  have h1 := sum_map_set workT st.threads tid th
    (runThread st tid (dropPark th) ((dropPark th).prog.length + 2)).2.1 hth
  have h2 := run_work_lt st tid th hd he
  omega

end Sdb.Conc
