import SdbModel.Lemmas.Reconciler

/-!
  Lemmas.ReconcilerInv — the bookkeeping invariant `InvL` of the reconciler model
  ("nothing is forgotten") and its preservation by the steps of a round.
-/
namespace Sdb.Rec

abbrev Res := RObj × RObj × Nat × Nat × Bool

/-- a result for this very version of `o` is waiting to be committed -/
def HasRes (rs : List Res) (o : RObj) : Prop := ∃ res ∈ rs, res.1.id = o.id ∧ res.2.2.1 = o.rev

/-- a live object is accounted for -/
def ObjOK (log : List Call) (items : List Item) (itRev : Nat) (rs : List Res) (o : RObj) : Prop :=
  (o.kind = .done → lastCall log o.id = some ⟨"U", o.id, o.data, true⟩ ∧ ∀ it ∈ items, it.id ≠ o.id) ∧
  (o.kind = .error → (∃ it ∈ items, it.id = o.id ∧ it.delete = false ∧ it.rev = o.rev ∧ it.inQueue = true) ∨ HasRes rs o) ∧
  (needs o.kind → o.rev > itRev ∨ HasRes rs o)

/-- a retained deletion is accounted for -/
def DelOK (log : List Call) (items : List Item) (itDelRev : Nat) (d : RObj × Nat) : Prop :=
  d.2 > itDelRev ∨ (∃ it ∈ items, it.id = d.1.id ∧ it.delete = true ∧ it.inQueue = true) ∨
  ((∃ c, lastCall log d.1.id = some c ∧ c.op = "D" ∧ c.ok = true) ∧ ∀ it ∈ items, it.id ≠ d.1.id)

/-- a change for `id` is still to be delivered to the loop (it will clear the retry item) -/
def Stale (objs : List RObj) (dels : List (RObj × Nat)) (itRev itDelRev : Nat) (id : Nat) : Prop :=
  (∃ o ∈ objs, o.id = id ∧ o.rev > itRev ∧ needs o.kind) ∨ (∃ d ∈ dels, d.1.id = id ∧ d.2 > itDelRev)

/-- a retry item is justified -/
def ItemOK (objs : List RObj) (dels : List (RObj × Nat)) (itRev itDelRev : Nat) (rs : List Res) (it : Item) : Prop :=
  it.obj.id = it.id ∧
  (Stale objs dels itRev itDelRev it.id ∨ (it.delete = true ∧ ∃ d ∈ dels, d.1.id = it.id) ∨
    (it.delete = false ∧ ∃ o ∈ objs, o.id = it.id ∧ o.kind = .error ∧ o.rev = it.rev)) ∧
  (it.inQueue = false → it.delete = false ∧ (∃ o ∈ objs, o.id = it.id ∧ o.kind = .error ∧ o.rev = it.rev) ∧
    ∃ res ∈ rs, res.1.id = it.id ∧ res.2.2.1 = it.rev ∧ res.2.2.2.2 = true)

/-- a result waiting to be committed is justified -/
def ResOK (objs : List RObj) (log : List Call) (items : List Item) (tableRev : Nat) (res : Res) : Prop :=
  res.2.1.id = res.1.id ∧ res.2.2.1 ≤ tableRev ∧ ∀ cur ∈ objs, cur.id = res.1.id →
    (cur.rev = res.2.2.1 ∧ lastCall log res.1.id = some ⟨"U", res.1.id, res.1.data, !res.2.2.2.2⟩ ∧
      ∀ it ∈ items, it.id = res.1.id → it.inQueue = false ∧ res.2.2.2.2 = true) ∨
    (cur.rev ≠ res.2.2.1 ∧ (cur.kind = .done ∨ cur.kind = .error))

/-- the bookkeeping invariant, relative to the list `rs` of results still to be committed -/
structure InvL (r : R) (rs : List Res) : Prop where
  tinv : TInv r
  noinj : r.injects = []
  items_pw : r.items.Pairwise (fun a b => a.id ≠ b.id)
  objOK : ∀ o ∈ r.objs, ObjOK r.log r.items r.itRev rs o
  delOK : ∀ d ∈ r.dels, DelOK r.log r.items r.itDelRev d
  itemOK : ∀ it ∈ r.items, ItemOK r.objs r.dels r.itRev r.itDelRev rs it
  resOK : ∀ res ∈ rs, ResOK r.objs r.log r.items r.tableRev res

/-- no change is waiting to be delivered -/
def CaughtUp (r : R) : Prop :=
  (∀ o ∈ r.objs, needs o.kind → o.rev ≤ r.itRev) ∧ (∀ d ∈ r.dels, d.2 ≤ r.itDelRev)

theorem CaughtUp.not_stale {r : R} (h : CaughtUp r) (id : Nat) : ¬ Stale r.objs r.dels r.itRev r.itDelRev id := by
  rintro (⟨o, ho, _, h1, h2⟩ | ⟨d, hd, _, h1⟩)
  · have := h.1 o ho h2; omega
  · have := h.2 d hd; omega


theorem TInv.congr {r r' : R} (h : TInv r) (h1 : r'.objs = r.objs) (h2 : r'.dels = r.dels) (h3 : r'.tableRev = r.tableRev)
    (h4 : r'.itRev = r.itRev) (h5 : r'.itDelRev = r.itDelRev) (h6 : r'.refreshedAt = r.refreshedAt) : TInv r' := by
  obtain ⟨a, b, c, d, e, f, g, i⟩ := h
  constructor <;> simp only [h1, h2, h3, h4, h5, h6] <;> assumption

theorem InvL.congr {r r' : R} {rs : List Res} (h : InvL r rs) (h1 : r'.objs = r.objs) (h2 : r'.dels = r.dels) (h3 : r'.tableRev = r.tableRev)
    (h4 : r'.itRev = r.itRev) (h5 : r'.itDelRev = r.itDelRev) (h6 : r'.refreshedAt = r.refreshedAt)
    (h7 : r'.items = r.items) (h8 : r'.log = r.log) (h9 : r'.injects = r.injects) : InvL r' rs := by
  obtain ⟨a, b, c, d, e, f, g⟩ := h
  refine ⟨a.congr h1 h2 h3 h4 h5 h6, ?_, ?_, ?_, ?_, ?_, ?_⟩ <;> simp only [h1, h2, h3, h4, h5, h7, h8, h9] <;> assumption

theorem userPut_eq (r : R) (id data : Nat) : ∃ other, r.userPut id data =
    { r.setObj { id, data, kind := .pending, sid := r.nextSid, other, rev := 0 } with nextSid := r.nextSid + 1 } := ⟨_, rfl⟩

theorem mem_setObj_other {r : R} {o x : RObj} (hx : x ∈ r.objs) (hid : x.id ≠ o.id) : x ∈ (r.setObj o).objs :=
  (mem_setObj_objs ..).2 (Or.inl ⟨hx, hid⟩)

theorem mem_setObj_dels_other {r : R} {o : RObj} {d : RObj × Nat} (hd : d ∈ r.dels) (hid : d.1.id ≠ o.id) : d ∈ (r.setObj o).dels := by
  simp only [setObj_dels, List.mem_filter]; exact ⟨hd, by simpa using hid⟩

theorem ItemOK.setObj_other {r : R} {o : RObj} {it : Item} {rs : List Res} {a b : Nat} (hid : it.id ≠ o.id)
    (h : ItemOK r.objs r.dels a b rs it) : ItemOK (r.setObj o).objs (r.setObj o).dels a b rs it := by
  obtain ⟨h1, h2, h3⟩ := h
  refine ⟨h1, ?_, ?_⟩
  · rcases h2 with (⟨x, hx, h5, h6⟩ | ⟨d, hd, h5, h6⟩) | ⟨h4, d, hd, h5⟩ | ⟨h4, x, hx, h5⟩
    · left; left; exact ⟨x, mem_setObj_other hx (by omega), h5, h6⟩
    · left; right; exact ⟨d, mem_setObj_dels_other hd (by omega), h5, h6⟩
    · right; left; exact ⟨h4, d, mem_setObj_dels_other hd (by omega), h5⟩
    · right; right; exact ⟨h4, x, mem_setObj_other hx (by omega), h5⟩
  · intro hq
    obtain ⟨h4, ⟨x, hx, h5⟩, h6⟩ := h3 hq
    exact ⟨h4, ⟨x, mem_setObj_other hx (by omega), h5⟩, h6⟩

/-- a user write (Insert with StatusPending) -/
theorem InvL.userPut {r : R} (h : InvL r []) (id data : Nat) : InvL (r.userPut id data) [] := by
  obtain ⟨other, he⟩ := userPut_eq r id data
  rw [he]
  refine InvL.congr (r := r.setObj { id, data, kind := .pending, sid := r.nextSid, other, rev := 0 }) ?main ?_ ?_ ?_ ?_ ?_ ?_ ?_ ?_ ?_ <;> try rfl
  have hit := h.tinv.it_le
  refine ⟨h.tinv.setObj _, h.noinj, h.items_pw, ?_, ?_, ?_, by simp⟩
  · intro o ho
    rw [mem_setObj_objs] at ho
    rcases ho with ⟨ho, _⟩ | rfl
    · exact h.objOK o ho
    · simp [ObjOK, needs]; omega
  · intro d hd
    simp only [setObj_dels, List.mem_filter] at hd
    exact h.delOK d hd.1
  · intro it hit'
    by_cases hid : it.id = id
    · obtain ⟨h1, h2, h3⟩ := h.itemOK it hit'
      refine ⟨h1, ?_, ?_⟩
      · left; left
        exact ⟨_, (mem_setObj_objs ..).2 (Or.inr rfl), hid.symm, by simp only [setObj_itRev]; omega, Or.inl rfl⟩
      · intro hq
        obtain ⟨_, _, res, hres, _⟩ := h3 hq
        simp at hres
    · exact (h.itemOK it hit').setObj_other hid

/-- Delete by a user -/
theorem InvL.delObj {r : R} (h : InvL r []) (id : Nat) : InvL (r.delObj id) [] := by
  cases hg : r.get id with
  | none => rw [delObj_of_none hg]; exact h
  | some o =>
    have ht := h.tinv.delObj id
    rw [delObj_of_get hg] at ht ⊢
    rw [get_eq_some_iff h.tinv] at hg
    have hitd := h.tinv.itd_le
    refine ⟨ht, h.noinj, h.items_pw, ?_, ?_, ?_, by simp⟩
    · intro x hx
      simp only [List.mem_filter] at hx
      exact h.objOK x hx.1
    · intro d hd
      simp only [List.mem_append, List.mem_singleton] at hd
      rcases hd with hd | rfl
      · exact h.delOK d hd
      · left; simp only; omega
    · intro it hit
      obtain ⟨h1, h2, h3⟩ := h.itemOK it hit
      refine ⟨h1, ?_, ?_⟩
      · by_cases hid : it.id = id
        · left; right
          exact ⟨_, List.mem_append_right _ (List.mem_singleton.2 rfl), by simp only; omega, by simp only; omega⟩
        · rcases h2 with (⟨x, hx, h5, h6⟩ | ⟨d, hd, h5, h6⟩) | ⟨h4, d, hd, h5⟩ | ⟨h4, x, hx, h5⟩
          · left; left; exact ⟨x, by simp only [List.mem_filter]; exact ⟨hx, by simp; omega⟩, h5, h6⟩
          · left; right; exact ⟨d, List.mem_append_left _ hd, h5, h6⟩
          · right; left; exact ⟨h4, d, List.mem_append_left _ hd, h5⟩
          · right; right; exact ⟨h4, x, by simp only [List.mem_filter]; exact ⟨hx, by simp; omega⟩, h5⟩
      · intro hq
        obtain ⟨_, _, res, hres, _⟩ := h3 hq
        simp at hres

/-- a foreign writer changing only its own status of an object whose status (of this reconciler) is not Error -/
theorem InvL.touch {r : R} (h : InvL r []) (id : Nat) (hne : ∀ o, r.get id = some o → o.kind ≠ .error) : InvL (r.touch id) [] := by
  unfold R.touch
  cases hg : r.get id with
  | none => exact h
  | some o =>
    simp only
    have hk := hne o hg
    rw [get_eq_some_iff h.tinv] at hg
    have hit := h.tinv.it_le
    have hO := h.objOK o hg.1
    refine ⟨h.tinv.setObj _, h.noinj, h.items_pw, ?_, ?_, ?_, by simp⟩
    · intro x hx
      rw [mem_setObj_objs] at hx
      rcases hx with ⟨hx, _⟩ | rfl
      · exact h.objOK x hx
      · refine ⟨fun hd => hO.1 hd, fun he => absurd he hk, fun _ => Or.inl ?_⟩
        simp only [setObj_itRev]; omega
    · intro d hd
      simp only [setObj_dels, List.mem_filter] at hd
      exact h.delOK d hd.1
    · intro it hit'
      by_cases hid : it.id = id
      · obtain ⟨h1, h2, h3⟩ := h.itemOK it hit'
        refine ⟨h1, ?_, ?_⟩
        · left; left
          refine ⟨_, (mem_setObj_objs ..).2 (Or.inr rfl), by simp only; omega, by simp only [setObj_itRev]; omega, ?_⟩
          simp only
          cases hkk : o.kind with
          | pending => exact Or.inl rfl
          | refreshing => exact Or.inr rfl
          | error => exact absurd hkk hk
          | done => exact absurd (hid.trans hg.2.symm) ((hO.1 hkk).2 it hit')
        · intro hq
          obtain ⟨_, _, res, hres, _⟩ := h3 hq
          simp at hres
      · exact (h.itemOK it hit').setObj_other (by simp only; omega)

end Sdb.Rec
