import SdbModel.Model.Art
import SdbModel.Lemmas.Enc

/-!
  Lemmas for C11, part 1: the well-formedness invariant of the adaptive radix
  tree model (`Model.Art`), the abstract lookup `look` on association lists and
  the basic facts relating `entries` / `searchNode` to it.  Core Lean only.
-/
namespace Sdb.Art

/-- the bytes under which the children are stored -/
def Kids.keys : Kids → List Nat
  | .nil => []
  | .cons b _ r => b :: keys r

mutual
/-- well-formedness of a subtree whose path from the root spells `acc`:
    every stored key is the path to its leaf, each child's compressed prefix
    starts with the byte it is stored under, children strictly ascend. -/
def WFNode (acc : List Nat) : Node → Prop
  | .leaf p d => d.key = acc ++ p
  | .inner _ p lf kids _ _ => (∀ d, lf = some d → d.key = acc ++ p) ∧ WFKids (acc ++ p) kids
def WFKids (acc : List Nat) : Kids → Prop
  | .nil => True
  | .cons b n r => (∃ t, n.pfx = b :: t) ∧ WFNode acc n ∧ (∀ c ∈ r.keys, b < c) ∧ WFKids acc r
end

/-- first value stored under key `k` (the abstract `Get`) -/
def look : List (List Nat × Nat) → List Nat → Option Nat
  | [], _ => none
  | (a, v) :: r, k => if a = k then some v else look r k

/-! ### look -/

@[simp] theorem look_nil (k : List Nat) : look [] k = none := rfl
theorem look_cons (a : List Nat) (v : Nat) (r : List (List Nat × Nat)) (k : List Nat) :
    look ((a, v) :: r) k = if a = k then some v else look r k := rfl

theorem look_eq_none_iff (l : List (List Nat × Nat)) (k : List Nat) :
    look l k = none ↔ ∀ e ∈ l, e.1 ≠ k := by
  induction l with
  | nil => simp
  | cons x r ih =>
    obtain ⟨a, v⟩ := x
    rw [look_cons]
    by_cases h : a = k
    · simp [h]
    · simp [h, ih]

theorem look_append (l₁ l₂ : List (List Nat × Nat)) (k : List Nat) :
    look (l₁ ++ l₂) k = match look l₁ k with | some v => some v | none => look l₂ k := by
  induction l₁ with
  | nil => simp
  | cons x r ih =>
    obtain ⟨a, v⟩ := x
    simp only [List.cons_append, look_cons]
    by_cases h : a = k
    · simp [h]
    · simp [h, ih]

theorem look_append_of_none (l₁ l₂ : List (List Nat × Nat)) (k : List Nat) (h : look l₁ k = none) :
    look (l₁ ++ l₂) k = look l₂ k := by
  rw [look_append, h]

theorem look_append_of_none_right (l₁ l₂ : List (List Nat × Nat)) (k : List Nat) (h : look l₂ k = none) :
    look (l₁ ++ l₂) k = look l₁ k := by
  rw [look_append, h]; cases look l₁ k <;> rfl

theorem look_some_mem (l : List (List Nat × Nat)) (k : List Nat) (v : Nat) (h : look l k = some v) :
    (k, v) ∈ l := by
  induction l with
  | nil => simp at h
  | cons x r ih =>
    obtain ⟨a, w⟩ := x
    rw [look_cons] at h
    by_cases hk : a = k
    · simp [hk] at h; simp [hk, h]
    · simp [hk] at h; exact List.mem_cons_of_mem _ (ih h)

/-! ### plain structural facts -/

/-- the entry contributed by the leaf hanging off an inner node -/
def lfList : Option LeafD → List (List Nat × Nat)
  | some d => [(d.key, d.val)]
  | none => []

theorem entries_inner (k : Nat) (p : List Nat) (lf : Option LeafD) (kids : Kids) (w t : Nat) :
    entries (.inner k p lf kids w t) = lfList lf ++ entriesK kids := by
  cases lf <;> rfl

theorem entries_leaf (p : List Nat) (d : LeafD) : entries (.leaf p d) = [(d.key, d.val)] := rfl

@[simp] theorem Node.pfx_setPfx (p : List Nat) (n : Node) : (n.setPfx p).pfx = p := by
  cases n <;> rfl

@[simp] theorem entries_setPfx (p : List Nat) (n : Node) : entries (n.setPfx p) = entries n := by
  cases n <;> simp [Node.setPfx, entries]

@[simp] theorem Node.getLeaf_setPfx (p : List Nat) (n : Node) : (n.setPfx p).getLeaf = n.getLeaf := by
  cases n <;> rfl

/-- well-formedness only depends on the full path `acc ++ pfx` of the node -/
theorem WFNode_setPfx (acc acc' p' : List Nat) (n : Node) (h : acc ++ n.pfx = acc' ++ p') :
    WFNode acc n → WFNode acc' (n.setPfx p') := by
  cases n with
  | leaf p d => simp only [Node.pfx] at h; simp [WFNode, Node.setPfx, h]
  | inner k p lf kids w t => simp only [Node.pfx] at h; simp [WFNode, Node.setPfx, h]

theorem cloneNode_leaf (st : St) (p : List Nat) (d : LeafD) :
    ∃ st' w, cloneNode st (.leaf p d) = (st', .leaf p { d with watch := w }) := by
  unfold cloneNode
  split
  · exact ⟨st, d.watch, rfl⟩
  · exact ⟨_, _, rfl⟩

theorem cloneNode_inner (st : St) (k : Nat) (p : List Nat) (lf : Option LeafD) (kids : Kids) (w t : Nat) :
    ∃ st' w' t', cloneNode st (.inner k p lf kids w t) = (st', .inner k p lf kids w' t') := by
  unfold cloneNode
  split
  · exact ⟨st, w, t, rfl⟩
  · exact ⟨_, _, _, rfl⟩

theorem cloneLeafD_eq (st : St) (d : LeafD) : ∃ st' w, cloneLeafD st d = (st', { d with watch := w }) := by
  unfold cloneLeafD
  split
  · exact ⟨st, d.watch, rfl⟩
  · exact ⟨_, _, rfl⟩

theorem newLeafD_eq (st : St) (full : List Nat) (val : Nat) :
    ∃ st' w, newLeafD st full val = (st', { key := full, val := val, watch := w }) := ⟨_, _, rfl⟩

@[simp] theorem cloneNode_pfx (st : St) (n : Node) : (cloneNode st n).2.pfx = n.pfx := by
  cases n with
  | leaf p d => obtain ⟨st', w, h⟩ := cloneNode_leaf st p d; rw [h]; rfl
  | inner k p lf kids w t => obtain ⟨st', w', t', h⟩ := cloneNode_inner st k p lf kids w t; rw [h]; rfl

@[simp] theorem cloneNode_entries (st : St) (n : Node) : entries (cloneNode st n).2 = entries n := by
  cases n with
  | leaf p d => obtain ⟨st', w, h⟩ := cloneNode_leaf st p d; rw [h]; simp [entries]
  | inner k p lf kids w t => obtain ⟨st', w', t', h⟩ := cloneNode_inner st k p lf kids w t; rw [h]; simp [entries]

theorem cloneNode_WF (st : St) (acc : List Nat) (n : Node) (h : WFNode acc n) : WFNode acc (cloneNode st n).2 := by
  cases n with
  | leaf p d => obtain ⟨st', w, e⟩ := cloneNode_leaf st p d; rw [e]; simpa [WFNode] using h
  | inner k p lf kids w t => obtain ⟨st', w', t', e⟩ := cloneNode_inner st k p lf kids w t; rw [e]; simpa [WFNode] using h

/-! ### E1: every key below a node extends the node's path -/

mutual
theorem entries_pfx (acc : List Nat) : (n : Node) → WFNode acc n → ∀ e ∈ entries n, ∃ t, e.1 = acc ++ n.pfx ++ t
  | .leaf p d, h => by
    intro e he
    simp only [entries, List.mem_singleton] at he
    simp only [WFNode] at h
    exact ⟨[], by simp [he, h, Node.pfx]⟩
  | .inner k p lf kids w t, h => by
    intro e he
    simp only [WFNode] at h
    simp only [entries, List.mem_append] at he
    rcases he with he | he
    · cases lf with
      | none => simp at he
      | some d =>
        simp only [List.mem_singleton] at he
        exact ⟨[], by simp [he, h.1 d rfl, Node.pfx]⟩
    · obtain ⟨c, _, t', ht'⟩ := entriesK_pfx (acc ++ p) kids h.2 e he
      exact ⟨c :: t', by simp [ht', Node.pfx]⟩
theorem entriesK_pfx (acc : List Nat) : (kids : Kids) → WFKids acc kids →
    ∀ e ∈ entriesK kids, ∃ c ∈ kids.keys, ∃ t, e.1 = acc ++ c :: t
  | .nil, _ => by intro e he; simp [entriesK] at he
  | .cons b n r, h => by
    intro e he
    simp only [WFKids] at h
    obtain ⟨⟨t, hp⟩, hn, _, hr⟩ := h
    simp only [entriesK, List.mem_append] at he
    rcases he with he | he
    · obtain ⟨t', ht'⟩ := entries_pfx acc n hn e he
      exact ⟨b, by simp [Kids.keys], t ++ t', by simp [ht', hp]⟩
    · obtain ⟨c, hc, t', ht'⟩ := entriesK_pfx acc r hr e he
      exact ⟨c, by simp [Kids.keys, hc], t', ht'⟩
end

/-! ### hasPrefix in append form -/

theorem hasPrefix_true_eq (k p : List Nat) (h : hasPrefix k p = true) : k = p ++ k.drop p.length := by
  have := (hasPrefix_iff k p).mp h
  exact (List.prefix_iff_eq_append.mp this).symm

theorem hasPrefix_append_self (p t : List Nat) : hasPrefix (p ++ t) p = true :=
  (hasPrefix_iff _ _).mpr (List.prefix_append p t)

theorem hasPrefix_false_ne (k p : List Nat) (h : hasPrefix k p = false) (t : List Nat) : k ≠ p ++ t := by
  intro e
  rw [e, hasPrefix_append_self] at h
  exact Bool.noConfusion h

/-! ### absent keys -/

theorem lookK_none (acc : List Nat) (kids : Kids) (h : WFKids acc kids) (b : Nat) (rest : List Nat)
    (hb : b ∉ kids.keys) : look (entriesK kids) (acc ++ b :: rest) = none := by
  rw [look_eq_none_iff]
  intro e he heq
  obtain ⟨c, hc, t, ht⟩ := entriesK_pfx acc kids h e he
  rw [ht] at heq
  have := List.append_cancel_left heq
  simp only [List.cons.injEq] at this
  exact hb (this.1 ▸ hc)

theorem lookK_none_short (acc : List Nat) (kids : Kids) (h : WFKids acc kids) :
    look (entriesK kids) acc = none := by
  rw [look_eq_none_iff]
  intro e he heq
  obtain ⟨c, hc, t, ht⟩ := entriesK_pfx acc kids h e he
  rw [ht] at heq
  have := congrArg List.length heq
  simp at this

theorem lookN_none (acc : List Nat) (n : Node) (h : WFNode acc n) (k : List Nat)
    (hk : ∀ t, k ≠ n.pfx ++ t) : look (entries n) (acc ++ k) = none := by
  rw [look_eq_none_iff]
  intro e he heq
  obtain ⟨t, ht⟩ := entries_pfx acc n h e he
  rw [ht, List.append_assoc] at heq
  exact hk t (List.append_cancel_left heq).symm

/-- the leaf hanging off an inner node has a key shorter than anything below a child -/
theorem lf_ne (acc p : List Nat) (lf : Option LeafD) (hlf : ∀ d, lf = some d → d.key = acc ++ p)
    (b : Nat) (rest : List Nat) :
    ∀ e ∈ lfList lf, e.1 ≠ acc ++ p ++ b :: rest := by
  intro e he heq
  cases lf with
  | none => simp [lfList] at he
  | some d =>
    simp only [lfList, List.mem_singleton] at he
    rw [he] at heq
    simp only [hlf d rfl] at heq
    have := congrArg List.length heq
    simp at this

/-! ### S: `search` is `look` on the entries -/

theorem searchNode_leaf (p : List Nat) (d : LeafD) (w : Nat) (key : List Nat) :
    searchNode (.leaf p d) w key =
      if hasPrefix key p = true then
        match key.drop p.length with
        | [] => (some d.val, if d.watch ≠ 0 then d.watch else w)
        | _ :: _ => (none, w)
      else (none, w) := by
  unfold searchNode; rfl

theorem searchNode_inner (k : Nat) (p : List Nat) (lf : Option LeafD) (kids : Kids) (nw t w : Nat) (key : List Nat) :
    searchNode (.inner k p lf kids nw t) w key =
      if hasPrefix key p = true then
        match key.drop p.length with
        | [] => (match lf with
                 | some d => (some d.val, if d.watch ≠ 0 then d.watch else w)
                 | none => (none, w))
        | b :: _ => searchK kids b (if nw ≠ 0 then nw else w) (key.drop p.length)
      else (none, w) := by
  unfold searchNode; rfl

mutual
theorem searchNode_look (acc : List Nat) : (n : Node) → WFNode acc n → ∀ (w : Nat) (key : List Nat),
    (searchNode n w key).1 = look (entries n) (acc ++ key)
  | .leaf p d, h => by
    intro w key
    simp only [WFNode] at h
    simp only [searchNode_leaf, entries, look_cons, look_nil, h]
    by_cases hp : hasPrefix key p = true
    case neg =>
      rw [if_neg hp]
      have := hasPrefix_false_ne key p (by simpa using hp) []
      simp only [List.append_nil] at this
      simp [Ne.symm this]
    case pos =>
      rw [if_pos hp]
      have hk := hasPrefix_true_eq key p hp
      cases hd : key.drop p.length with
      | nil =>
        rw [hd, List.append_nil] at hk
        simp [hk]
      | cons b t =>
        rw [hd] at hk
        have : p ≠ key := by
          intro e; have := congrArg List.length e; rw [hk] at this; simp at this
        simp [this]
  | .inner k p lf kids nw t, h => by
    intro w key
    simp only [WFNode] at h
    obtain ⟨hlf, hkids⟩ := h
    simp only [searchNode_inner]
    by_cases hp : hasPrefix key p = true
    case neg =>
      rw [if_neg hp]
      have := lookN_none acc (.inner k p lf kids nw t) (by simp only [WFNode]; exact ⟨hlf, hkids⟩) key
        (hasPrefix_false_ne key p (by simpa using hp))
      rw [this]
    case pos =>
      rw [if_pos hp]
      have hk := hasPrefix_true_eq key p hp
      cases hd : key.drop p.length with
      | nil =>
        rw [hd, List.append_nil] at hk
        subst hk
        simp only [entries]
        cases lf with
        | none => simp [lookK_none_short (acc ++ key) kids hkids]
        | some d => simp [look_cons, hlf d rfl]
      | cons b r =>
        rw [hd] at hk
        simp only [entries]
        have hih := searchK_look (acc ++ p) kids hkids b (if nw ≠ 0 then nw else w) (b :: r) r rfl
        rw [hih, hk, List.append_assoc]
        cases lf with
        | none => simp
        | some d =>
          have : d.key ≠ acc ++ (p ++ b :: r) := by
            rw [hlf d rfl]; intro e
            have := congrArg List.length e; simp at this
          simp [look_cons, this]
theorem searchK_look (acc : List Nat) : (kids : Kids) → WFKids acc kids →
    ∀ (b w : Nat) (key rest : List Nat), key = b :: rest →
    (searchK kids b w key).1 = look (entriesK kids) (acc ++ key)
  | .nil, _ => by intro b w key rest _; simp [searchK, entriesK]
  | .cons c n r, h => by
    intro b w key rest hkey
    simp only [WFKids] at h
    obtain ⟨⟨t, hpf⟩, hn, hlt, hr⟩ := h
    simp only [searchK, entriesK]
    by_cases hcb : c = b
    · subst hcb
      simp only [if_true]
      rw [searchNode_look acc n hn w key]
      have : look (entriesK r) (acc ++ key) = none := by
        rw [hkey]; apply lookK_none acc r hr
        intro hc; exact Nat.lt_irrefl _ (hlt _ hc)
      rw [look_append_of_none_right _ _ _ this]
    · simp only [hcb, if_false]
      have hn0 : look (entries n) (acc ++ key) = none := by
        apply lookN_none acc n hn
        intro t' e; rw [hkey, hpf] at e
        simp only [List.cons_append, List.cons.injEq] at e
        exact hcb e.1.symm
      by_cases hlt' : c < b
      · simp only [hlt', if_true]
        rw [searchK_look acc r hr b w key rest hkey, look_append_of_none _ _ _ hn0]
      · simp only [hlt', if_false]
        rw [look_append_of_none _ _ _ hn0, hkey, lookK_none acc r hr]
        intro hc; have := hlt _ hc; omega
end

end Sdb.Art
