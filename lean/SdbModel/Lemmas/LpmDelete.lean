import SdbModel.Lemmas.LpmLookup

/-! Deletion from the LPM trie: `delete`, `compress`, `deleteRoot`.  Core Lean only. -/
namespace Sdb.Lpm
variable {α : Type}

/-- well-formed except that the root may be an imaginary node with fewer than two children
    (the state between `delete` and the `compress` of the caller) -/
def WFweak : Trie α → Prop
  | .nil => True
  | .node d p _ c0 c1 => Canon d p ∧ AllKeys (Below d p 0) c0 ∧ AllKeys (Below d p 1) c1 ∧ WF c0 ∧ WF c1

theorem WF.weak {t : Trie α} (h : WF t) : WFweak t := by
  cases t with
  | nil => trivial
  | node d p v c0 c1 => exact ⟨h.1, h.2.2.1, h.2.2.2.1, h.2.2.2.2.1, h.2.2.2.2.2⟩

theorem preorder_compress (t : Trie α) : preorder (compress t) = preorder t := by
  cases t with
  | nil => rfl
  | node d p v c0 c1 =>
    cases v with
    | some x => rfl
    | none => cases c0 <;> cases c1 <;> simp [compress, preorder]

theorem compress_allKeys {P : List Nat → Nat → Prop} (t : Trie α) (h : AllKeys P t) : AllKeys P (compress t) := by
  cases t with
  | nil => trivial
  | node d p v c0 c1 =>
    cases v with
    | some x => exact h
    | none =>
      cases c0 <;> cases c1
      · trivial
      · exact h.2.2
      · exact h.2.1
      · exact h

theorem compress_wf (t : Trie α) (h : WFweak t) : WF (compress t) := by
  cases t with
  | nil => trivial
  | node d p v c0 c1 =>
    obtain ⟨h1, h2, h3, h4, h5⟩ := h
    cases v with
    | some x => exact ⟨h1, fun h => by simp at h, h2, h3, h4, h5⟩
    | none =>
      cases c0 <;> cases c1
      · trivial
      · exact h5
      · exact h4
      · exact ⟨h1, fun _ => ⟨by simp, by simp⟩, h2, h3, h4, h5⟩

/-- `delete` finds exactly what `lookupExact` finds -/
theorem delete_value (data : List Nat) (plen : Nat) (hq : Canon data plen) :
    ∀ (t : Trie α) (s : Nat), WF t → Pre s data plen t →
      (delete data plen t s).map Prod.snd = lookupExact data plen t s := by
  intro t
  induction t with
  | nil => intro s _ _; rfl
  | node nd npl nv c0 c1 ih0 ih1 =>
    intro s hwf hpre
    obtain ⟨hcn, himg, hB0, hB1, hw0, hw1⟩ := hwf
    obtain ⟨hs1, hs2, hs3⟩ := hpre
    obtain ⟨m1, m2, m3, m4⟩ := ml_facts hcn hq hs1 hs2 hs3
    generalize hml : longestMatch s nd npl data plen = ml at *
    simp only [delete, lookupExact, hml]
    split
    · cases nv <;> rfl
    · split
      · rfl
      · have hml' : ml = npl := by omega
        subst hml'
        split
        · rw [← ih0 ml hw0 (pre_child hB0 m2 m3)]
          cases delete data plen c0 ml <;> rfl
        · rw [← ih1 ml hw1 (pre_child hB1 m2 m3)]
          cases delete data plen c1 ml <;> rfl

/-- the filter that removes key `(data, plen)` -/
def neKey (data : List Nat) (plen : Nat) (e : List Nat × Nat × α) : Bool := !(decide (e.1 = data ∧ e.2.1 = plen))

theorem filter_neKey_self {data : List Nat} {plen : Nat} (l : List (List Nat × Nat × α))
    (h : ∀ e ∈ l, ¬ (e.1 = data ∧ e.2.1 = plen)) : l.filter (neKey data plen) = l := by
  rw [List.filter_eq_self]
  intro e he
  simp [neKey, h e he]

theorem delete_spec (data : List Nat) (plen : Nat) (hq : Canon data plen) :
    ∀ (t : Trie α) (s : Nat) (t' : Trie α) (v : α), WF t → Pre s data plen t →
      delete data plen t s = some (t', v) →
      WFweak t' ∧ (∀ P : List Nat → Nat → Prop, AllKeys P t → AllKeys P t') ∧
      preorder t' = (preorder t).filter (neKey data plen) := by
  intro t
  induction t with
  | nil => intro s t' v _ _ h; simp [delete] at h
  | node nd npl nv c0 c1 ih0 ih1 =>
    intro s t' v hwf hpre h
    obtain ⟨hcn, himg, hB0, hB1, hw0, hw1⟩ := hwf
    obtain ⟨hs1, hs2, hs3⟩ := hpre
    obtain ⟨m1, m2, m3, m4⟩ := ml_facts hcn hq hs1 hs2 hs3
    generalize hml : longestMatch s nd npl data plen = ml at *
    simp only [delete, hml] at h
    have hk0 : ∀ e ∈ preorder c0, npl < e.2.1 ∧ getBitAt e.1 npl = 0 :=
      fun ⟨_, _, _⟩ he => ⟨(below_of_mem hB0 he).1, (below_of_mem hB0 he).2.2⟩
    have hk1 : ∀ e ∈ preorder c1, npl < e.2.1 ∧ getBitAt e.1 npl = 1 :=
      fun ⟨_, _, _⟩ he => ⟨(below_of_mem hB1 he).1, (below_of_mem hB1 he).2.2⟩
    split at h
    · rename_i hc
      obtain ⟨h1, h2⟩ := hc
      subst h1; subst h2
      have : nd = data := canon_ext _ _ _ hcn hq m3
      subst this
      cases nv with
      | none => simp at h
      | some x =>
        simp only [Option.some.injEq, Prod.mk.injEq] at h
        obtain ⟨rfl, rfl⟩ := h
        refine ⟨⟨hcn, hB0, hB1, hw0, hw1⟩, fun P hP => hP, ?_⟩
        rw [preorder_node, preorder_node, List.filter_append, List.filter_append,
          filter_neKey_self (preorder c0) (fun e he => by have := (hk0 e he).1; omega),
          filter_neKey_self (preorder c1) (fun e he => by have := (hk1 e he).1; omega)]
        simp [selfEntry, neKey]
    · split at h
      · simp at h
      · have hml' : ml = npl := by omega
        subst hml'
        have hself : (selfEntry nd ml nv).filter (neKey data plen) = selfEntry nd ml nv := by
          apply filter_neKey_self
          intro e he
          cases nv with
          | none => simp [selfEntry] at he
          | some x =>
            simp only [selfEntry, List.mem_singleton] at he
            subst he
            simp only; omega
        split at h
        · rename_i hb0
          cases hd : delete data plen c0 ml with
          | none => simp [hd] at h
          | some r =>
            obtain ⟨c0', v0⟩ := r
            simp only [hd, Option.some.injEq, Prod.mk.injEq] at h
            obtain ⟨rfl, rfl⟩ := h
            obtain ⟨i1, i2, i3⟩ := ih0 ml c0' v0 hw0 (pre_child hB0 m2 m3) hd
            refine ⟨⟨hcn, compress_allKeys _ (i2 _ hB0), hB1, compress_wf _ i1, hw1⟩,
              fun P hP => ⟨hP.1, compress_allKeys _ (i2 P hP.2.1), hP.2.2⟩, ?_⟩
            rw [preorder_node, preorder_node, List.filter_append, List.filter_append, hself,
              preorder_compress, i3,
              filter_neKey_self (preorder c1) (fun e he => by
                rintro ⟨k1, _⟩
                have := (hk1 e he).2
                rw [k1] at this; omega)]
        · rename_i hb1
          cases hd : delete data plen c1 ml with
          | none => simp [hd] at h
          | some r =>
            obtain ⟨c1', v1⟩ := r
            simp only [hd, Option.some.injEq, Prod.mk.injEq] at h
            obtain ⟨rfl, rfl⟩ := h
            obtain ⟨i1, i2, i3⟩ := ih1 ml c1' v1 hw1 (pre_child hB1 m2 m3) hd
            refine ⟨⟨hcn, hB0, compress_allKeys _ (i2 _ hB1), hw0, compress_wf _ i1⟩,
              fun P hP => ⟨hP.1, hP.2.1, compress_allKeys _ (i2 P hP.2.2)⟩, ?_⟩
            rw [preorder_node, preorder_node, List.filter_append, List.filter_append, hself,
              preorder_compress, i3,
              filter_neKey_self (preorder c0) (fun e he => by
                rintro ⟨k1, _⟩
                have := (hk0 e he).2
                rw [k1] at this; omega)]

theorem deleteRoot_none (data : List Nat) (plen : Nat) (hq : Canon data plen) (t : Trie α) (hwf : WF t) :
    deleteRoot data plen t = none ↔ lookupExact data plen t 0 = none := by
  rw [← delete_value data plen hq t 0 hwf (pre_zero _ _ _)]
  unfold deleteRoot
  cases delete data plen t 0 <;> simp

theorem deleteRoot_some (data : List Nat) (plen : Nat) (hq : Canon data plen) (t : Trie α) (hwf : WF t)
    (t' : Trie α) (v : α) (h : deleteRoot data plen t = some (t', v)) :
    lookupExact data plen t 0 = some v ∧ WF t' ∧ preorder t' = (preorder t).filter (neKey data plen) := by
  have hv := delete_value data plen hq t 0 hwf (pre_zero _ _ _)
  unfold deleteRoot at h
  cases hd : delete data plen t 0 with
  | none => simp [hd] at h
  | some r =>
    obtain ⟨t0, v0⟩ := r
    simp only [hd, Option.some.injEq, Prod.mk.injEq] at h
    obtain ⟨rfl, rfl⟩ := h
    obtain ⟨i1, _, i3⟩ := delete_spec data plen hq t 0 t0 v0 hwf (pre_zero _ _ _) hd
    rw [hd] at hv
    exact ⟨hv.symm, compress_wf _ i1, by rw [preorder_compress, i3]⟩

end Sdb.Lpm
