import SdbModel.Lemmas.TableWatchReach
/-!
  Lemmas for the C06 glue, part 7: the fields of a Model.Table table that the index
  trees depend on (`Core`: lock flag, revision counter, the three part-index maps, the
  two LPM maps).  Everything else Model.Table keeps in a table (revision index,
  graveyard, trackers, initializers, `gen`, `revDirty`) neither influences the core
  fields of the result of a write operation nor the tree operations of
  Model.TableWatch — so the driver may interleave `changes`, `reginit`, collector
  runs … with the operations of a transaction.
  Core Lean only.
-/
namespace Sdb.TW
open Sdb.Art Sdb.Tbl Sdb.ArtW

/-- `t'` agrees with `t` on everything the index trees depend on -/
structure Core (t t' : TableS) : Prop where
  locked : t'.locked = t.locked
  full : t'.full = t.full
  rev : t'.rev = t.rev
  primary : t'.primary = t.primary
  uIdx : t'.uIdx = t.uIdx
  tagIdx : t'.tagIdx = t.tagIdx
  lpm : t'.lpm = t.lpm
  ulpm : t'.ulpm = t.ulpm

theorem Core.refl (t : TableS) : Core t t := ⟨rfl, rfl, rfl, rfl, rfl, rfl, rfl, rfl⟩
theorem Core.symm {t t' : TableS} (h : Core t t') : Core t' t :=
  ⟨h.locked.symm, h.full.symm, h.rev.symm, h.primary.symm, h.uIdx.symm, h.tagIdx.symm, h.lpm.symm, h.ulpm.symm⟩
theorem Core.trans {a b c : TableS} (h1 : Core a b) (h2 : Core b c) : Core a c :=
  ⟨h2.locked.trans h1.locked, h2.full.trans h1.full, h2.rev.trans h1.rev, h2.primary.trans h1.primary,
   h2.uIdx.trans h1.uIdx, h2.tagIdx.trans h1.tagIdx, h2.lpm.trans h1.lpm, h2.ulpm.trans h1.ulpm⟩

theorem Core.imap {t t' : TableS} (h : Core t t') (i : PIx) : imap t' i = imap t i := by
  cases i
  · exact h.primary
  · exact h.uIdx
  · exact h.tagIdx

theorem newObj_core {t t' : TableS} (h : Core t t') (o : Obj) (m : Bool) : Tbl.newObj t' o m = Tbl.newObj t o m := by
  unfold Tbl.newObj; rw [h.primary, h.rev]

theorem modify_core {t t' : TableS} (h : Core t t') (g : Nat) (o : Obj) (m : Bool) :
    Core (Tbl.modify t g o m).1 (Tbl.modify t' g o m).1 := by
  rcases modify_cases t g o m with ⟨hl, he⟩ | ⟨hl, hg, hn, he⟩ | ⟨hl, hg, oo, ho, hr, he⟩ | ⟨hl, hok, r, he, hm⟩
  · rw [he, modify_notLocked t' g o m (by rw [h.locked]; exact hl)]; exact h
  · rw [he, modify_notFound t' g o m (by rw [h.locked]; exact hl) hg (by rw [h.primary]; exact hn)]; exact h
  · rw [he, modify_revNotEqual t' g o m (by rw [h.locked]; exact hl) hg oo (by rw [h.primary]; exact ho) hr]; exact h
  · have hl' : t'.locked = true := by rw [h.locked]; exact hl
    have hok' : GuardOk g (t'.primary.get o.id) := by rw [h.primary]; exact hok
    obtain ⟨r', he', hm'⟩ := modify_ok t' g o m hl' hok'
    have hi := modify_ok_idx t g o m hl hok
    have hi' := modify_ok_idx t' g o m hl' hok'
    rw [he] at hi ⊢
    rw [he'] at hi' ⊢
    simp only at hi hi' ⊢
    refine ⟨?_, ?_, ?_, ?_, ?_, ?_, ?_, ?_⟩
    · rw [hm.locked, hm'.locked, h.locked]
    · rw [hm.full, hm'.full, h.full]
    · rw [hm.rev, hm'.rev, h.rev]
    · rw [hm.primary, hm'.primary, h.primary, newObj_core h]
    · rw [hi.uIdx, hi'.uIdx, h.full, h.uIdx, h.primary, newObj_core h]
    · rw [hi.tagIdx, hi'.tagIdx, h.tagIdx, h.primary, newObj_core h]
    · rw [hi.lpm, hi'.lpm, h.full, h.lpm, h.primary, newObj_core h]
    · rw [hi.ulpm, hi'.ulpm, h.full, h.ulpm, h.primary, newObj_core h]

theorem delete_core {t t' : TableS} (h : Core t t') (g : Nat) (id : Key) :
    Core (Tbl.delete t g id).1 (Tbl.delete t' g id).1 := by
  rcases delete_cases t g id with ⟨hl, he⟩ | ⟨hl, hn, he⟩ | ⟨hl, hg, old, ho, hr, he⟩ | ⟨hl, old, ho, hg, r, he, hd⟩
  · rw [he, delete_notLocked t' g id (by rw [h.locked]; exact hl)]; exact h
  · rw [he, delete_absent t' g id (by rw [h.locked]; exact hl) (by rw [h.primary]; exact hn)]; exact h
  · rw [he, delete_revNotEqual t' g id (by rw [h.locked]; exact hl) old (by rw [h.primary]; exact ho) hg hr]; exact h
  · have hl' : t'.locked = true := by rw [h.locked]; exact hl
    have ho' : t'.primary.get id = some old := by rw [h.primary]; exact ho
    obtain ⟨r', he', hd'⟩ := delete_ok t' g id hl' old ho' hg
    have hi := delete_ok_idx t g id hl old ho hg
    have hi' := delete_ok_idx t' g id hl' old ho' hg
    rw [he] at hi ⊢
    rw [he'] at hi' ⊢
    simp only at hi hi' ⊢
    refine ⟨?_, ?_, ?_, ?_, ?_, ?_, ?_, ?_⟩
    · rw [hd.locked, hd'.locked, h.locked]
    · rw [hd.full, hd'.full, h.full]
    · rw [hd.rev, hd'.rev, h.rev]
    · rw [hd.primary, hd'.primary, h.primary]
    · rw [hi.uIdx, hi'.uIdx, h.full, h.uIdx]
    · rw [hi.tagIdx, hi'.tagIdx, h.tagIdx]
    · rw [hi.lpm, hi'.lpm, h.full, h.lpm]
    · rw [hi.ulpm, hi'.ulpm, h.full, h.ulpm]

theorem delFold_core (l : List (Key × Obj)) {t t' : TableS} (h : Core t t') : Core (delFold l t) (delFold l t') := by
  induction l generalizing t t' with
  | nil => exact h
  | cons e l ih => rw [delFold_cons, delFold_cons]; exact ih (delete_core h 0 e.1)

theorem deleteAll_core {t t' : TableS} (h : Core t t') : Core (Tbl.deleteAll t).1 (Tbl.deleteAll t').1 := by
  rw [deleteAll_eq, deleteAll_eq, h.locked, h.primary]
  cases t.locked
  · exact h
  · exact delFold_core _ h

theorem onTable_core {t t' : TableS} (h : Core t t') (op : TOp) : Core (op.onTable t) (op.onTable t') := by
  cases op with
  | modify g o mg => exact modify_core h g o mg
  | delete g id => exact delete_core h g id
  | deleteAll => exact deleteAll_core h
  | read ix k => exact h

theorem modifyOps_core {t t' : TableS} (h : Core t t') (g : Nat) (o : Obj) (mg : Bool) :
    modifyOps t' g o mg = modifyOps t g o mg := by
  unfold modifyOps newObjOf; rw [h.locked, h.primary, h.rev, h.full]

theorem deleteOps_core {t t' : TableS} (h : Core t t') (g : Nat) (id : Key) : deleteOps t' g id = deleteOps t g id := by
  unfold deleteOps; rw [h.locked, h.primary, h.full]

theorem delFoldOps_core (l : List (Key × Obj)) {t t' : TableS} (h : Core t t') (a : TOps) :
    (l.foldl (fun (acc : TableS × TOps) (e : Key × Obj) =>
        ((Tbl.delete acc.1 0 e.1).1, acc.2.append (deleteOps acc.1 0 e.1))) (t', a)).2 =
    (l.foldl (fun (acc : TableS × TOps) (e : Key × Obj) =>
        ((Tbl.delete acc.1 0 e.1).1, acc.2.append (deleteOps acc.1 0 e.1))) (t, a)).2 := by
  induction l generalizing t t' a with
  | nil => rfl
  | cons e l ih =>
    rw [List.foldl_cons, List.foldl_cons, deleteOps_core h 0 e.1]
    exact ih (delete_core h 0 e.1) _

theorem deleteAllOps_core {t t' : TableS} (h : Core t t') : deleteAllOps t' = deleteAllOps t := by
  unfold deleteAllOps
  rw [h.locked, h.primary]
  cases t.locked
  · rfl
  · simp only [Bool.not_true, Bool.false_eq_true, if_false]
    exact delFoldOps_core _ h _

theorem ops_core {t t' : TableS} (h : Core t t') (op : TOp) : op.ops t' = op.ops t := by
  cases op with
  | modify g o mg => exact modifyOps_core h g o mg
  | delete g id => exact deleteOps_core h g id
  | deleteAll => exact deleteAllOps_core h
  | read ix k => rfl

/-- reachability is insensitive to the non-core fields -/
theorem Reach.core {t t' : TableS} {c : CTab} (h : Reach t c) (hc : Core t t') : Reach t' c :=
  Reach.frame t t' c h hc.imap hc.lpm hc.ulpm

end Sdb.TW
