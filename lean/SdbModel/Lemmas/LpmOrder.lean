import SdbModel.Lemmas.Lpm

/-! Iteration order of the LPM trie: `preorder` is strictly ascending in (prefix bits, prefix length).
    Core Lean only. -/
namespace Sdb.Lpm
variable {α : Type}

/-- the iteration order: compare the (zero-extended) prefix bits lexicographically, then the prefix length -/
def keyLt (d1 : List Nat) (p1 : Nat) (d2 : List Nat) (p2 : Nat) : Prop :=
  (∃ i, Agree d1 d2 i ∧ getBitAt d1 i < getBitAt d2 i) ∨ ((∀ j, getBitAt d1 j = getBitAt d2 j) ∧ p1 < p2)

theorem exists_first_diff (a b : List Nat) :
    ∀ j, getBitAt a j ≠ getBitAt b j → ∃ i, Agree a b i ∧ getBitAt a i ≠ getBitAt b i := by
  intro j
  induction j using Nat.strongRecOn with
  | _ j ih =>
    intro hj
    by_cases h : ∃ k, k < j ∧ getBitAt a k ≠ getBitAt b k
    · obtain ⟨k, hk, hne⟩ := h
      exact ih k hk hne
    · refine ⟨j, fun k hk => ?_, hj⟩
      apply Classical.byContradiction
      intro hne
      exact h ⟨k, hk, hne⟩

theorem keyLt_irrefl (d : List Nat) (p : Nat) : ¬ keyLt d p d p := by
  rintro (⟨i, _, h⟩ | ⟨_, h⟩) <;> omega

theorem keyLt_trans {d1 : List Nat} {p1 : Nat} {d2 : List Nat} {p2 : Nat} {d3 : List Nat} {p3 : Nat}
    (h12 : keyLt d1 p1 d2 p2) (h23 : keyLt d2 p2 d3 p3) : keyLt d1 p1 d3 p3 := by
  rcases h12 with ⟨i, a1, l1⟩ | ⟨e1, l1⟩ <;> rcases h23 with ⟨k, a2, l2⟩ | ⟨e2, l2⟩
  · rcases Nat.lt_trichotomy i k with h | h | h
    · exact Or.inl ⟨i, a1.trans (a2.mono (by omega)), by rw [← a2 i h]; exact l1⟩
    · subst h; exact Or.inl ⟨i, a1.trans a2, by omega⟩
    · exact Or.inl ⟨k, (a1.mono (by omega)).trans a2, by rw [a1 k h]; exact l2⟩
  · exact Or.inl ⟨i, fun j hj => (a1 j hj).trans (e2 j), by rw [← e2 i]; exact l1⟩
  · exact Or.inl ⟨k, fun j hj => (e1 j).trans (a2 j hj), by rw [e1 k]; exact l2⟩
  · exact Or.inr ⟨fun j => (e1 j).trans (e2 j), by omega⟩

theorem keyLt_asymm {d1 : List Nat} {p1 : Nat} {d2 : List Nat} {p2 : Nat}
    (h : keyLt d1 p1 d2 p2) : ¬ keyLt d2 p2 d1 p1 :=
  fun h' => keyLt_irrefl _ _ (keyLt_trans h h')

/-- on canonical keys the order is total -/
theorem keyLt_total {d1 : List Nat} {p1 : Nat} {d2 : List Nat} {p2 : Nat}
    (h1 : Canon d1 p1) (h2 : Canon d2 p2) :
    keyLt d1 p1 d2 p2 ∨ (d1 = d2 ∧ p1 = p2) ∨ keyLt d2 p2 d1 p1 := by
  by_cases h : ∃ j, getBitAt d1 j ≠ getBitAt d2 j
  · obtain ⟨j, hj⟩ := h
    obtain ⟨i, ha, hne⟩ := exists_first_diff d1 d2 j hj
    rcases Nat.lt_trichotomy (getBitAt d1 i) (getBitAt d2 i) with hl | hl | hl
    · exact Or.inl (Or.inl ⟨i, ha, hl⟩)
    · exact absurd hl hne
    · exact Or.inr (Or.inr (Or.inl ⟨i, ha.symm, hl⟩))
  · have he : ∀ j, getBitAt d1 j = getBitAt d2 j := by
      intro j
      apply Classical.byContradiction
      intro hne
      exact h ⟨j, hne⟩
    rcases Nat.lt_trichotomy p1 p2 with hl | hl | hl
    · exact Or.inl (Or.inr ⟨he, hl⟩)
    · subst hl
      exact Or.inr (Or.inl ⟨canon_ext _ _ _ h1 h2 (fun j _ => he j), rfl⟩)
    · exact Or.inr (Or.inr (Or.inr ⟨fun j => (he j).symm, hl⟩))

/-- a canonical key is smaller than every longer key it covers -/
theorem keyLt_of_covers {d : List Nat} {p : Nat} {d' : List Nat} {p' : Nat}
    (hc : Canon d p) (hlt : p < p') (ha : Agree d d' p) : keyLt d p d' p' := by
  by_cases h : ∃ j, getBitAt d j ≠ getBitAt d' j
  · obtain ⟨j, hj⟩ := h
    obtain ⟨i, hi, hne⟩ := exists_first_diff d d' j hj
    have hip : p ≤ i := by
      apply Classical.byContradiction
      intro hn
      exact hne (ha i (by omega))
    have hz := hc.zeros i hip
    exact Or.inl ⟨i, hi, by omega⟩
  · refine Or.inr ⟨fun j => ?_, hlt⟩
    apply Classical.byContradiction
    intro hne
    exact h ⟨j, hne⟩

/-- keys that fork at bit `m` are ordered by that bit -/
theorem keyLt_of_fork {d1 : List Nat} {p1 : Nat} {d2 : List Nat} {p2 m : Nat}
    (ha : Agree d1 d2 m) (hb : getBitAt d1 m < getBitAt d2 m) : keyLt d1 p1 d2 p2 :=
  Or.inl ⟨m, ha, hb⟩

/-- the order on entries -/
def entryLt (e1 e2 : List Nat × Nat × α) : Prop := keyLt e1.1 e1.2.1 e2.1 e2.2.1

theorem preorder_sorted : ∀ (t : Trie α), WF t → (preorder t).Pairwise entryLt := by
  intro t
  induction t with
  | nil => intro _; simp [preorder]
  | node d p v c0 c1 ih0 ih1 =>
    intro hwf
    obtain ⟨hcn, _, hB0, hB1, hw0, hw1⟩ := hwf
    have h01 : ∀ a ∈ preorder c0, ∀ b ∈ preorder c1, entryLt a b := by
      intro ⟨da, pa, va⟩ ha ⟨db, pb, vb⟩ hb
      obtain ⟨_, a2, a3⟩ := below_of_mem hB0 ha
      obtain ⟨_, b2, b3⟩ := below_of_mem hB1 hb
      exact keyLt_of_fork (m := p) (a2.symm.trans b2) (by simp only; omega)
    simp only [preorder]
    rw [List.append_assoc, List.pairwise_append]
    refine ⟨?_, List.pairwise_append.mpr ⟨ih0 hw0, ih1 hw1, h01⟩, ?_⟩
    · cases v <;> simp
    · intro a ha ⟨db, pb, vb⟩ hb
      cases v with
      | none => simp at ha
      | some x =>
        simp only [List.mem_singleton] at ha
        subst ha
        rcases List.mem_append.mp hb with hb | hb
        · obtain ⟨b1, b2, _⟩ := below_of_mem hB0 hb
          exact keyLt_of_covers hcn b1 b2
        · obtain ⟨b1, b2, _⟩ := below_of_mem hB1 hb
          exact keyLt_of_covers hcn b1 b2

theorem byte_lt_of_bits (x y i : Nat) (hx : x < 256) (hy : y < 256) (hi : i < 8)
    (ha : ∀ j < i, bbit x j = bbit y j) (hb : bbit x i < bbit y i) : x < y := by
  have h0 := ha 0; have h1 := ha 1; have h2 := ha 2; have h3 := ha 3
  have h4 := ha 4; have h5 := ha 5; have h6 := ha 6
  have hi' : i = 0 ∨ i = 1 ∨ i = 2 ∨ i = 3 ∨ i = 4 ∨ i = 5 ∨ i = 6 ∨ i = 7 := by omega
  rcases hi' with h | h | h | h | h | h | h | h <;> subst h <;>
    simp only [bbit, Nat.reducePow, Nat.reduceSub, Nat.reduceLT, Nat.lt_irrefl, forall_const,
      false_implies] at hb h0 h1 h2 h3 h4 h5 h6 <;> omega

theorem getBitAt_cons_lt (x : Nat) (l : List Nat) (j : Nat) (h : j < 8) : getBitAt (x :: l) j = bbit x j := by
  have := getBitAt_mul_add (x :: l) 0 j h
  simpa using this

theorem getBitAt_cons_add (x : Nat) (l : List Nat) (j : Nat) : getBitAt (x :: l) (j + 8) = getBitAt l j := by
  unfold getBitAt
  have h1 : (j + 8) / 8 = j / 8 + 1 := by omega
  have h2 : (j + 8) % 8 = j % 8 := by omega
  rw [h1, h2]
  simp

/-- `bytes.Compare` is decided by the first differing bit when that bit lies inside both slices -/
theorem cmpL_first_diff : ∀ (a b : List Nat) (i : Nat), (∀ x ∈ a, x < 256) → (∀ x ∈ b, x < 256) →
    Agree a b i → i < 8 * a.length → i < 8 * b.length → getBitAt a i < getBitAt b i → cmpL a b = .lt := by
  intro a
  induction a with
  | nil => intro b i _ _ _ h; simp at h
  | cons x as ih =>
    intro b i hx hy hag hia hib hlt
    cases b with
    | nil => simp at hib
    | cons y bs =>
      rw [cmpL_cons_cons]
      by_cases hi : i < 8
      · have : x < y := by
          apply byte_lt_of_bits x y i (hx x (by simp)) (hy y (by simp)) hi
          · intro j hj
            have := hag j hj
            rwa [getBitAt_cons_lt _ _ _ (by omega), getBitAt_cons_lt _ _ _ (by omega)] at this
          · rwa [getBitAt_cons_lt _ _ _ hi, getBitAt_cons_lt _ _ _ hi] at hlt
        rw [if_pos this]
      · have hxy : x = y := by
          apply byte_ext x y (hx x (by simp)) (hy y (by simp))
          intro j hj
          have := hag j (by omega)
          rwa [getBitAt_cons_lt _ _ _ hj, getBitAt_cons_lt _ _ _ hj] at this
        subst hxy
        rw [if_neg (by omega), if_neg (by omega)]
        obtain ⟨k, rfl⟩ : ∃ k, i = k + 8 := ⟨i - 8, by omega⟩
        apply ih bs k (fun z hz => hx z (List.mem_cons_of_mem _ hz)) (fun z hz => hy z (List.mem_cons_of_mem _ hz))
        · intro j hj
          have := hag (j + 8) (by omega)
          rwa [getBitAt_cons_add, getBitAt_cons_add] at this
        · simp at hia; omega
        · simp at hib; omega
        · rwa [getBitAt_cons_add, getBitAt_cons_add] at hlt

/-- what a node itself contributes to the iteration -/
def selfEntry (d : List Nat) (p : Nat) : Option α → List (List Nat × Nat × α)
  | some x => [(d, p, x)]
  | none => []

theorem preorder_node (d : List Nat) (p : Nat) (v : Option α) (c0 c1 : Trie α) :
    preorder (.node d p v c0 c1) = selfEntry d p v ++ preorder c0 ++ preorder c1 := by
  cases v <;> rfl

/-- an entry covered by the query prefix is not below it -/
theorem not_keyLt_of_covered {data : List Nat} {plen : Nat} {d' : List Nat} {p' : Nat}
    (hq : Canon data plen) (hle : plen ≤ p') (ha : Agree data d' plen) : ¬ keyLt d' p' data plen := by
  rintro (⟨i, hi, hl⟩ | ⟨_, hl⟩)
  · by_cases hip : i < plen
    · have := ha i hip; omega
    · have := hq.zeros i (by omega); omega
  · omega

theorem not_keyLt_of_fork_gt {data : List Nat} {plen : Nat} {d' : List Nat} {p' m : Nat}
    (ha : Agree d' data m) (hb : getBitAt data m < getBitAt d' m) : ¬ keyLt d' p' data plen :=
  keyLt_asymm (keyLt_of_fork ha.symm hb)

theorem lowerBound_spec (data : List Nat) (plen : Nat) (hq : Canon data plen) :
    ∀ (t : Trie α) (s : Nat) (pend : List (Trie α)), WF t → Pre s data plen t →
      ∃ pre suf, preorder t = pre ++ suf ∧
        lowerBound data plen t s pend = suf ++ pend.flatMap preorder ∧
        (∀ e ∈ pre, keyLt e.1 e.2.1 data plen) ∧ (∀ e ∈ suf, ¬ keyLt e.1 e.2.1 data plen) := by
  intro t
  induction t with
  | nil =>
    intro s pend _ _
    exact ⟨[], [], rfl, by simp [lowerBound], by simp, by simp⟩
  | node nd npl nv c0 c1 ih0 ih1 =>
    intro s pend hwf hpre
    have hwf' := hwf
    obtain ⟨hcn, himg, hB0, hB1, hw0, hw1⟩ := hwf
    obtain ⟨hs1, hs2, hs3⟩ := hpre
    obtain ⟨m1, m2, m3, m4⟩ := ml_facts hcn hq hs1 hs2 hs3
    have hcov : ∀ e ∈ preorder (.node nd npl nv c0 c1), npl ≤ e.2.1 ∧ Agree nd e.1 npl :=
      fun ⟨_, _, _⟩ h => mem_covered hwf' h
    generalize hml : longestMatch s nd npl data plen = ml at *
    simp only [lowerBound, hml]
    split
    · rename_i h1
      subst h1
      refine ⟨[], _, rfl, rfl, by simp, ?_⟩
      intro e he
      obtain ⟨c1, c2⟩ := hcov e he
      exact not_keyLt_of_covered hq (by omega) (m3.symm.trans (c2.mono m1))
    · split
      · rename_i hne hlt
        have hdiff := m4 hlt (by omega)
        have hnk : ∀ x ∈ nd ++ be 2 npl, x < 256 := by
          intro x hx
          rcases List.mem_append.mp hx with h' | h'
          · exact hcn.bytes x h'
          · exact be_lt_256 _ _ x h'
        have hag : Agree (nd ++ be 2 npl) data ml := by
          intro j hj
          rw [getBitAt_append_left _ _ _ (by have := hcn.le_len; omega)]
          exact m3 j hj
        have hbk : getBitAt (nd ++ be 2 npl) ml = getBitAt nd ml :=
          getBitAt_append_left _ _ _ (by have := hcn.le_len; omega)
        have hl1 : ml < 8 * (nd ++ be 2 npl).length := by have := hcn.le_len; simp; omega
        have hl2 : ml < 8 * data.length := by have := hq.le_len; omega
        rcases Nat.lt_or_ge (getBitAt nd ml) (getBitAt data ml) with hb | hb
        · have hc : cmpL (nd ++ be 2 npl) data = .lt :=
            cmpL_first_diff _ _ ml hnk hq.bytes hag hl1 hl2 (by rw [hbk]; exact hb)
          refine ⟨_, [], (List.append_nil _).symm, by rw [hc]; rfl, ?_, by simp⟩
          intro e he
          obtain ⟨c1, c2⟩ := hcov e he
          exact keyLt_of_fork (m := ml) ((c2.mono (by omega)).symm.trans m3) (by rw [← c2 ml hlt]; exact hb)
        · have hb' : getBitAt data ml < getBitAt nd ml := by omega
          have hc : cmpL data (nd ++ be 2 npl) = .lt :=
            cmpL_first_diff _ _ ml hq.bytes hnk hag.symm hl2 hl1 (by rw [hbk]; exact hb')
          have hc' : cmpL (nd ++ be 2 npl) data = .gt := by
            rw [cmpL_swap, hc]; rfl
          refine ⟨[], _, rfl, by rw [hc']; rfl, by simp, ?_⟩
          intro e he
          obtain ⟨c1, c2⟩ := hcov e he
          exact not_keyLt_of_fork_gt (m := ml) ((c2.mono (by omega)).symm.trans m3) (by rw [← c2 ml hlt]; exact hb')
      · rename_i hne hge
        have hml' : ml = npl := by omega
        subst hml'
        have hself : ∀ e ∈ selfEntry nd ml nv, keyLt e.1 e.2.1 data plen := by
          intro e he
          cases nv with
          | none => simp [selfEntry] at he
          | some x =>
            simp only [selfEntry, List.mem_singleton] at he
            subst he
            exact keyLt_of_covers hcn (show ml < plen by omega) m3
        have hbit := getBitAt_lt_two data ml
        split
        · rename_i hb0
          obtain ⟨pre, suf, e1, e2, e3, e4⟩ := ih0 ml (if c1.isNil then pend else c1 :: pend) hw0 (pre_child hB0 m2 m3)
          refine ⟨selfEntry nd ml nv ++ pre, suf ++ preorder c1, ?_, ?_, ?_, ?_⟩
          · rw [preorder_node, e1]; simp only [List.append_assoc]
          · rw [e2]
            cases c1 with
            | nil => simp [Trie.isNil, preorder]
            | node => simp [Trie.isNil]
          · intro e he
            rcases List.mem_append.mp he with he | he
            · exact hself e he
            · exact e3 e he
          · intro e he
            rcases List.mem_append.mp he with he | he
            · exact e4 e he
            · obtain ⟨d', p', v'⟩ := e
              obtain ⟨_, b2, b3⟩ := below_of_mem hB1 he
              exact not_keyLt_of_fork_gt (m := ml) (b2.symm.trans m3) (by simp only; omega)
        · rename_i hb1
          obtain ⟨pre, suf, e1, e2, e3, e4⟩ := ih1 ml pend hw1 (pre_child hB1 m2 m3)
          refine ⟨selfEntry nd ml nv ++ preorder c0 ++ pre, suf, ?_, e2, ?_, e4⟩
          · rw [preorder_node, e1]; simp only [List.append_assoc]
          · intro e he
            rcases List.mem_append.mp he with he | he
            · rcases List.mem_append.mp he with he | he
              · exact hself e he
              · obtain ⟨d', p', v'⟩ := e
                obtain ⟨_, b2, b3⟩ := below_of_mem hB0 he
                exact keyLt_of_fork (m := ml) (b2.symm.trans m3) (by simp only; omega)
            · exact e3 e he

/-- prefix `(d, p)` covers prefix `(d', p')`: it is not longer and its `p` bits are the first bits of `d'` -/
def Covers (d : List Nat) (p : Nat) (d' : List Nat) (p' : Nat) : Prop := p ≤ p' ∧ Agree d d' p

instance (a b : List Nat) (n : Nat) : Decidable (Agree a b n) :=
  Nat.decidableBallLT n (fun j _ => getBitAt a j = getBitAt b j)

instance (d : List Nat) (p : Nat) (d' : List Nat) (p' : Nat) : Decidable (Covers d p d' p') :=
  inferInstanceAs (Decidable (_ ∧ _))

theorem prefixNode_spec (data : List Nat) (plen : Nat) (hq : Canon data plen) :
    ∀ (t : Trie α) (s : Nat), WF t → Pre s data plen t →
      preorder (prefixNode data plen t s) =
        (preorder t).filter (fun e => decide (Covers data plen e.1 e.2.1)) := by
  intro t
  induction t with
  | nil => intro s _ _; simp [prefixNode, preorder]
  | node nd npl nv c0 c1 ih0 ih1 =>
    intro s hwf hpre
    have hwf' := hwf
    obtain ⟨hcn, himg, hB0, hB1, hw0, hw1⟩ := hwf
    obtain ⟨hs1, hs2, hs3⟩ := hpre
    obtain ⟨m1, m2, m3, m4⟩ := ml_facts hcn hq hs1 hs2 hs3
    have hcov : ∀ e ∈ preorder (.node nd npl nv c0 c1), npl ≤ e.2.1 ∧ Agree nd e.1 npl :=
      fun ⟨_, _, _⟩ h => mem_covered hwf' h
    generalize hml : longestMatch s nd npl data plen = ml at *
    simp only [prefixNode, hml]
    split
    · rename_i h1
      subst h1
      symm
      rw [List.filter_eq_self]
      intro e he
      obtain ⟨c1, c2⟩ := hcov e he
      exact decide_eq_true ⟨by omega, m3.symm.trans (c2.mono m1)⟩
    · split
      · rename_i hne hlt
        have hdiff := m4 hlt (by omega)
        symm
        rw [preorder_nil, List.filter_eq_nil_iff]
        intro e he
        obtain ⟨c1, c2⟩ := hcov e he
        simp only [decide_eq_true_eq]
        rintro ⟨k1, k2⟩
        exact hdiff ((c2 ml hlt).trans (k2 ml (by omega)).symm)
      · rename_i hne hge
        have hml' : ml = npl := by omega
        subst hml'
        have hbit := getBitAt_lt_two data ml
        have hself : (selfEntry nd ml nv).filter (fun e => decide (Covers data plen e.1 e.2.1)) = [] := by
          rw [List.filter_eq_nil_iff]
          intro e he
          cases nv with
          | none => simp [selfEntry] at he
          | some x =>
            simp only [selfEntry, List.mem_singleton] at he
            subst he
            simp only [decide_eq_true_eq]
            rintro ⟨k1, _⟩
            have : plen ≤ ml := k1
            omega
        have hother : ∀ (b : Nat) (c : Trie α), AllKeys (Below nd ml b) c → getBitAt data ml ≠ b →
            (preorder c).filter (fun e => decide (Covers data plen e.1 e.2.1)) = [] := by
          intro b c hB hb
          rw [List.filter_eq_nil_iff]
          intro ⟨d', p', v'⟩ he
          obtain ⟨_, b2, b3⟩ := below_of_mem hB he
          simp only [decide_eq_true_eq]
          rintro ⟨k1, k2⟩
          exact hb ((k2 ml (by omega)).trans b3)
        rw [preorder_node, List.filter_append, List.filter_append, hself]
        split
        · rename_i hb0
          rw [hother 1 c1 hB1 (by omega), ih0 ml hw0 (pre_child hB0 m2 m3)]
          simp
        · rename_i hb1
          rw [hother 0 c0 hB0 hb1, ih1 ml hw1 (pre_child hB1 m2 m3)]
          simp

end Sdb.Lpm
