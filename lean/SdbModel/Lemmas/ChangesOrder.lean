import SdbModel.Lemmas.ChangesWatch

/-! Global order of delivery: everything an iterator delivers over its whole life, across all `Next`
    calls and snapshots, is strictly ascending in revision. -/
namespace Sdb.Chg
open Sdb.Tbl Sdb.Tbl.OMap OMap

/-- the entry `e` of the open write transaction extends the committed entry `t`: whatever `e` holds at or
    below the committed revision was already in `t` -/
structure WExt (t e : TableS) : Prop where
  live : ∀ k o, (k, o) ∈ e.primary → o.rev ≤ t.rev → (k, o) ∈ t.primary
  grave : ∀ k g, (k, g) ∈ e.grave → g.rev ≤ t.rev → (k, g) ∈ t.grave

/-- what has been delivered so far (`log`) against table `t` and the cursors: ascending, within the
    table revision, and everything of `t` at or below a delivered revision has been passed by the cursors -/
structure Ordered (log : List Change) (it : ChangeIter) (t : TableS) : Prop where
  asc : AscRev log
  le : ∀ c ∈ log, c.rev ≤ t.rev
  live : ∀ c ∈ log, ∀ k o, (k, o) ∈ t.primary → o.rev ≤ c.rev → o.rev ≤ it.revision
  grave : ∀ c ∈ log, ∀ k g, (k, g) ∈ t.grave → g.rev ≤ c.rev → g.rev ≤ it.deleteRevision

structure Inv3 (s : St) : Prop where
  wext : ∀ es, s.db.wtxn = some es → ∀ i, WExt (tbl s.db.root i) (tbl es i)
  ord : ∀ (ci : Nat) (it : ChangeIter), s.db.iters[ci]? = some it → it.closed = false →
      Live s it → Ordered (s.log ci) it (tbl s.db.root it.table)

theorem Ordered.nil (it : ChangeIter) (t : TableS) : Ordered [] it t := by
  constructor
  · exact List.Pairwise.nil
  · intro c hc; cases hc
  · intro c hc; cases hc
  · intro c hc; cases hc

theorem Ordered.congr {log : List Change} {it it' : ChangeIter} {t t' : TableS} (h : Ordered log it t)
    (h1 : it'.revision = it.revision) (h2 : it'.deleteRevision = it.deleteRevision)
    (h3 : t.rev ≤ t'.rev) (h4 : ∀ k o, (k, o) ∈ t'.primary → o.rev ≤ t.rev → (k, o) ∈ t.primary)
    (h5 : ∀ k g, (k, g) ∈ t'.grave → g.rev ≤ t.rev → (k, g) ∈ t.grave) : Ordered log it' t' := by
  constructor
  · exact h.asc
  · intro c hc; exact Nat.le_trans (h.le c hc) h3
  · intro c hc k o ho hle
    rw [h1]
    exact h.live c hc k o (h4 k o ho (Nat.le_trans hle (h.le c hc))) hle
  · intro c hc k g hg hle
    rw [h2]
    exact h.grave c hc k g (h5 k g hg (Nat.le_trans hle (h.le c hc))) hle

theorem WStep.wext {t e e' : TableS} (w : WStep e e') (hT : TInv e) (hx : WExt t e) (hle : t.rev ≤ e.rev) : WExt t e' := by
  cases w with
  | modify g o m hb =>
    rcases modify_mem hT g o m with h | ⟨_, _, _, hp, hg, _⟩
    · rw [h]; exact hx
    · constructor
      · intro k x hx' hr
        rcases (hp k x).mp hx' with ⟨_, e2⟩ | ⟨_, hm⟩
        · rw [e2, modNew_rev] at hr; omega
        · exact hx.live k x hm hr
      · intro k x hx' hr
        exact hx.grave k x ((hg k x).mp hx').1 hr
  | delete g id hb =>
    rcases delete_mem hT g id with h | ⟨old, _, _, _, _, hp, hg, _⟩
    · rw [h]; exact hx
    · constructor
      · intro k x hx' hr
        exact hx.live k x ((hp k x).mp hx').2 hr
      · intro k x hx' hr
        rcases (hg k x).mp hx' with ⟨_, _, e2⟩ | ⟨_, hm⟩
        · rw [e2] at hr; simp only at hr; omega
        · exact hx.grave k x hm hr
  | aux _ h1 h2 h3 h4 h5 =>
    constructor
    · intro k x hx' hr; rw [h2] at hx'; exact hx.live k x hx' hr
    · intro k x hx' hr; rw [h4] at hx'; exact hx.grave k x hx' hr

theorem cursors_fst_ge (cs : List Change) : ∀ (r d : Nat), AscRev cs → (∀ c ∈ cs, c.deleted = false → r ≤ c.rev) →
    r ≤ (cursors r d cs).1 ∧ ∀ c ∈ cs, c.deleted = false → c.rev ≤ (cursors r d cs).1 := by
  induction cs with
  | nil => intro r d _ _; exact ⟨Nat.le_refl _, fun c hc => by cases hc⟩
  | cons c cs ih =>
    intro r d hasc hall
    rw [cursors_cons]
    have hasc' := List.pairwise_cons.mp hasc
    by_cases hc : c.deleted = true
    · have e : advR r c = r := by simp [advR, hc]
      rw [e]
      obtain ⟨a, b⟩ := ih r (advD d c) hasc'.2 (fun x hx => hall x (List.mem_cons_of_mem _ hx))
      refine ⟨a, ?_⟩
      intro x hx hxd
      simp only [List.mem_cons] at hx
      rcases hx with e' | hx
      · rw [e'] at hxd; rw [hxd] at hc; cases hc
      · exact b x hx hxd
    · have hc' : c.deleted = false := by simpa using hc
      have e : advR r c = c.rev := by simp [advR, hc']
      rw [e]
      obtain ⟨a, b⟩ := ih c.rev (advD d c) hasc'.2 (fun x hx _ => Nat.le_of_lt (hasc'.1 x hx))
      have := hall c (List.mem_cons_self ..) hc'
      refine ⟨by omega, ?_⟩
      intro x hx hxd
      simp only [List.mem_cons] at hx
      rcases hx with e' | hx
      · rw [e']; exact a
      · exact b x hx hxd

theorem cursors_snd_ge' (cs : List Change) : ∀ (r d : Nat), AscRev cs → (∀ c ∈ cs, c.deleted = true → d ≤ c.rev) →
    d ≤ (cursors r d cs).2 ∧ ∀ c ∈ cs, c.deleted = true → c.rev ≤ (cursors r d cs).2 := by
  induction cs with
  | nil => intro r d _ _; exact ⟨Nat.le_refl _, fun c hc => by cases hc⟩
  | cons c cs ih =>
    intro r d hasc hall
    rw [cursors_cons]
    have hasc' := List.pairwise_cons.mp hasc
    by_cases hc : c.deleted = true
    · have e : advD d c = c.rev := by simp [advD, hc]
      rw [e]
      obtain ⟨a, b⟩ := ih (advR r c) c.rev hasc'.2 (fun x hx _ => Nat.le_of_lt (hasc'.1 x hx))
      have := hall c (List.mem_cons_self ..) hc
      refine ⟨by omega, ?_⟩
      intro x hx hxd
      simp only [List.mem_cons] at hx
      rcases hx with e' | hx
      · rw [e']; exact a
      · exact b x hx hxd
    · have hc' : c.deleted = false := by simpa using hc
      have e : advD d c = d := by simp [advD, hc']
      rw [e]
      obtain ⟨a, b⟩ := ih (advR r c) d hasc'.2 (fun x hx => hall x (List.mem_cons_of_mem _ hx))
      refine ⟨a, ?_⟩
      intro x hx hxd
      simp only [List.mem_cons] at hx
      rcases hx with e' | hx
      · rw [e'] at hxd; rw [hxd] at hc'; cases hc'
      · exact b x hx hxd

/-- consuming a prefix of a refresh keeps the log ordered -/
theorem Ordered.consume {t : TableS} (hT : TInv t) {log : List Change} {it it' : ChangeIter}
    (h : Ordered log it t) (hr : it.revision + 1 < 2 ^ 64) (hd : it.deleteRevision + 1 < 2 ^ 64)
    (taken rest : List Change) (hp : pendingOf t it.revision it.deleteRevision = taken ++ rest)
    (h1 : it'.revision = (cursors it.revision it.deleteRevision taken).1)
    (h2 : it'.deleteRevision = (cursors it.revision it.deleteRevision taken).2) :
    Ordered (log ++ taken) it' t := by
  have hasc := pendingOf_asc hT it.revision it.deleteRevision
  rw [hp] at hasc
  obtain ⟨hascT, _, hcross⟩ := List.pairwise_append.mp hasc
  have hmem : ∀ c ∈ taken, c ∈ pendingOf t it.revision it.deleteRevision := by
    intro c hc; rw [hp]; exact List.mem_append_left _ hc
  have hspec := fun c hc => (mem_pendingOf hT _ _ hr hd c).mp (hmem c hc)
  obtain ⟨hrge, hrmem⟩ := cursors_fst_ge taken it.revision it.deleteRevision hascT (fun c hc hdel => by
    rcases (hspec c hc).2 with ⟨_, _, hlt⟩ | ⟨hdt, _, _⟩
    · omega
    · rw [hdt] at hdel; cases hdel)
  obtain ⟨hdge, hdmem⟩ := cursors_snd_ge' taken it.revision it.deleteRevision hascT (fun c hc hdel => by
    rcases (hspec c hc).2 with ⟨hdf, _, _⟩ | ⟨_, _, hlt⟩
    · rw [hdf] at hdel; cases hdel
    · omega)
  -- an element of the whole sequence at or below a taken one is taken
  have hin : ∀ x ∈ pendingOf t it.revision it.deleteRevision, ∀ c ∈ taken, x.rev ≤ c.rev → x ∈ taken := by
    intro x hx c hc hle
    rw [hp] at hx
    rcases List.mem_append.mp hx with hx | hx
    · exact hx
    · have := hcross c hc x hx; omega
  constructor
  · refine List.pairwise_append.mpr ⟨h.asc, hascT, ?_⟩
    intro a ha b hb
    obtain ⟨hbr, hcase⟩ := hspec b hb
    by_cases hlt : a.rev < b.rev
    · exact hlt
    · exfalso
      rcases hcase with ⟨_, hm, hgt⟩ | ⟨_, hm, hgt⟩
      · have := h.live a ha _ _ ((hT.pr b.obj).mpr hm) (by omega)
        omega
      · have := h.grave a ha _ _ ((hT.gg b.obj).mpr hm) (by omega)
        omega
  · intro c hc
    rcases List.mem_append.mp hc with hc | hc
    · exact h.le c hc
    · exact pendingOf_rev_le hT _ _ hr hd c (hmem c hc)
  · intro c hc k o ho hle
    rw [h1]
    rcases List.mem_append.mp hc with hc | hc
    · exact Nat.le_trans (h.live c hc k o ho hle) hrge
    · by_cases hor : o.rev ≤ it.revision
      · exact Nat.le_trans hor hrge
      · have hk := hT.pK _ _ ho
        have hom := (hT.pr o).mp (hk ▸ ho)
        have hx : ({ obj := o, rev := o.rev, deleted := false } : Change) ∈ pendingOf t it.revision it.deleteRevision :=
          (mem_pendingOf hT _ _ hr hd _).mpr ⟨rfl, Or.inl ⟨rfl, hom, by simp only; omega⟩⟩
        exact hrmem _ (hin _ hx c hc hle) rfl
  · intro c hc k g hg hle
    rw [h2]
    rcases List.mem_append.mp hc with hc | hc
    · exact Nat.le_trans (h.grave c hc k g hg hle) hdge
    · by_cases hor : g.rev ≤ it.deleteRevision
      · exact Nat.le_trans hor hdge
      · have hk := hT.gK _ _ hg
        have hgm := (hT.gg g).mp (hk ▸ hg)
        have hx : ({ obj := g, rev := g.rev, deleted := true } : Change) ∈ pendingOf t it.revision it.deleteRevision :=
          (mem_pendingOf hT _ _ hr hd _).mpr ⟨rfl, Or.inr ⟨rfl, hgm, by simp only; omega⟩⟩
        exact hdmem _ (hin _ hx c hc hle) rfl

theorem Inv3.init : Inv3 St.init := by
  constructor
  · intro es h; cases h
  · intro ci it h; simp [St.init, newDB] at h

theorem Inv3.beginW {s : St} (h3 : Inv3 s) (lm la : Bool) : Inv3 { s with db := s.db.beginW lm la } := by
  have hb := tbl_beginW s.db lm la
  constructor
  · intro es he i
    obtain ⟨es', he', _, _, _, a1, a2, a3, a4, a5, a6, a7, a8⟩ := hb i
    rw [he] at he'; cases he'
    exact ⟨fun k o ho _ => by rw [a2] at ho; exact ho, fun k g hg _ => by rw [a4] at hg; exact hg⟩
  · intro ci it hi hc hl
    refine h3.ord ci it hi hc ?_
    rcases hl with hl | ⟨es, he, hr, _⟩
    · exact Or.inl hl
    · obtain ⟨es', he', _, _, _, a1, a2, a3, a4, a5, a6, a7, a8⟩ := hb it.table
      rw [he] at he'; cases he'
      rw [a6] at hr
      exact Or.inl hr

theorem Inv3.abort {s : St} (h3 : Inv3 s) : Inv3 { s with db := s.db.abort } := by
  constructor
  · intro es he; cases he
  · intro ci it hi hc hl
    refine h3.ord ci it hi hc ?_
    rcases hl with hl | ⟨es, he, _⟩
    · exact Or.inl hl
    · cases he

theorem Inv3.commit {s : St} (h : Inv s) (h3 : Inv3 s) : Inv3 { s with db := s.db.commit } := by
  cases hw : s.db.wtxn with
  | none =>
    have : s.db.commit = s.db := by unfold DB.commit; rw [hw]
    rw [this]; exact h3
  | some es =>
    obtain ⟨hold, hlen⟩ := h.wOld es hw
    have hroot := tbl_commit s.db es hw hlen
    have hwt : s.db.commit.wtxn = none := by unfold DB.commit; rw [hw]
    have hiters : s.db.commit.iters = s.db.iters := by unfold DB.commit; rw [hw]
    constructor
    · intro es' he; simp only at he; rw [hwt] at he; cases he
    · intro ci it hi hc hl
      have hr : it.tracker ∈ (tbl s.db.commit.root it.table).trackers := by
        rcases hl with hl | ⟨es', he, _⟩
        · exact hl
        · simp only at he; rw [hwt] at he; cases he
      simp only at hi ⊢
      rw [hiters] at hi
      rw [hroot] at hr ⊢
      by_cases hlk : (tbl es it.table).locked
      · simp only [hlk, if_true] at hr ⊢
        obtain ⟨c1, c2, c3, c4, c5, c6⟩ := commitEntry_fields (tbl es it.table)
        have hr' : it.tracker ∈ (tbl es it.table).trackers := hr
        have hx := h3.wext es hw it.table
        have hrel := h.wRel es hw it.table
        by_cases hlive : Live s it
        · exact (h3.ord ci it hi hc hlive).congr rfl rfl (by rw [c1]; exact hrel.rev)
            (fun k o ho hle => hx.live k o (by rw [c2] at ho; exact ho) hle)
            (fun k g hg hle => hx.grave k g (by rw [c4] at hg; exact hg) hle)
        · -- created in this transaction after earlier writes: nothing delivered yet
          have hreg : it.tracker ∉ (tbl s.db.root it.table).trackers := fun hh => hlive (Or.inl hh)
          have hb : (tbl s.db.root it.table).rev < it.base := by
            by_cases hb : it.base ≤ (tbl s.db.root it.table).rev
            · exact absurd (Or.inr ⟨es, hw, hr', hb⟩) hlive
            · omega
          rw [(h.pend es hw ci it hi hc hr' hreg hb).log]
          exact Ordered.nil _ _
      · simp only [hlk, Bool.false_eq_true, if_false] at hr ⊢
        exact h3.ord ci it hi hc (Or.inl hr)

theorem Inv3.write {s : St} (h : Inv s) (h3 : Inv3 s) (es : List TableS) (i : Nat) (t' : TableS)
    (hw : s.db.wtxn = some es) (w : WStep (tbl es i) t') : Inv3 { s with db := setW s.db i t' } := by
  have hdb : setW s.db i t' = { s.db with wtxn := some (es.set i t') } := by unfold setW; rw [hw]
  rw [hdb]
  have hcase : ∀ j, tbl (es.set i t') j = tbl es j ∨ (i = j ∧ tbl (es.set i t') j = t') := by
    intro j
    rw [tbl_set]
    by_cases hc : i = j ∧ i < es.length
    · right; rw [if_pos hc]; exact ⟨hc.1, rfl⟩
    · left; rw [if_neg hc]
  constructor
  · intro es' he j
    simp only [Option.some.injEq] at he; subst he
    rcases hcase j with e | ⟨e1, e2⟩
    · rw [e]; exact h3.wext es hw j
    · rw [e2]; subst e1
      exact w.wext (h.wT es hw i) (h3.wext es hw i) (h.wRel es hw i).rev
  · intro ci it hi hc hl
    refine h3.ord ci it hi hc ?_
    rcases hl with hl | ⟨es', he, hr, hb⟩
    · exact Or.inl hl
    · simp only [Option.some.injEq] at he; subst he
      have : (tbl (es.set i t') it.table).trackers = (tbl es it.table).trackers := by
        rcases hcase it.table with e | ⟨e1, e2⟩
        · rw [e]
        · rw [e2, ← e1]; exact w.trackers
      rw [this] at hr
      exact Or.inr ⟨es, hw, hr, hb⟩

theorem Inv3.create {s : St} (h : Inv s) (h3 : Inv3 s) (ti : Nat) : Inv3 { s with db := iterCreate s.db ti } := by
  rcases iterCreate_spec s.db ti with e | ⟨es, hw, hl, it0, i1, i2, i3, i4, i5, i6, i7, i8, e⟩
  · rw [e]; exact h3
  · rw [e]
    have hlt : ti < es.length := tbl_locked_lt es ti hl
    let id := s.db.nextTracker
    let t' : TableS := { tbl es ti with trackers := id :: (tbl es ti).trackers }
    have hcase : ∀ j, (j ≠ ti ∧ tbl (es.set ti t') j = tbl es j) ∨ (j = ti ∧ tbl (es.set ti t') j = t') := by
      intro j
      rw [tbl_set]
      by_cases hc : ti = j
      · right; rw [if_pos ⟨hc, hlt⟩]; exact ⟨hc.symm, rfl⟩
      · left; rw [if_neg (fun hh => hc hh.1)]; exact ⟨fun e => hc e.symm, rfl⟩
    have hiters : ∀ (ci : Nat) (it : ChangeIter), (s.db.iters.push it0)[ci]? = some it →
        (s.db.iters[ci]? = some it ∧ it.tracker ≠ id) ∨ (ci = s.db.iters.size ∧ it = it0) := by
      intro ci it hi
      rw [Array.getElem?_push] at hi
      split at hi
      · right; exact ⟨‹_›, by simpa using hi.symm⟩
      · left; exact ⟨hi, Nat.ne_of_lt (h.freshI ci it hi)⟩
    constructor
    · intro es' he j
      simp only [DB.setTrackerRev, Option.some.injEq] at he; subst he
      simp only [DB.setTrackerRev]
      rcases hcase j with ⟨_, e⟩ | ⟨e1, e⟩
      · rw [e]; exact h3.wext es hw j
      · rw [e, e1]
        obtain ⟨g1, g2⟩ := h3.wext es hw ti
        exact ⟨g1, g2⟩
    · intro ci it hi hc hlv
      have hi' : (s.db.iters.push it0)[ci]? = some it := hi
      rcases hiters ci it hi' with ⟨hi'', n1⟩ | ⟨c1, e⟩
      · refine h3.ord ci it hi'' hc ?_
        rcases hlv with hlv | ⟨es', he, hr, hb⟩
        · exact Or.inl hlv
        · simp only [DB.setTrackerRev, Option.some.injEq] at he; subst he
          refine Or.inr ⟨es, hw, ?_, hb⟩
          rcases hcase it.table with ⟨_, e⟩ | ⟨e1, e⟩
          · rw [e] at hr; exact hr
          · rw [e] at hr
            simp only [t', List.mem_cons] at hr
            rcases hr with e' | hr
            · exact absurd e' n1
            · rw [e1]; exact hr
      · have : s.log ci = [] := h.logFresh ci (by omega)
        simp only
        rw [this]
        exact Ordered.nil _ _

theorem Inv3.next {s : St} (h : Inv s) (h3 : Inv3 s) (ci : Nat) (k : Int)
    (committed current : List TableS)
    (hc : committed = s.db.root ∨ (s.db.wtxn.isSome ∧ committed = s.db.oldRoot)) :
    Inv3 { db := (iterNext s.db ci committed current k).1,
           log := fun j => if j = ci then s.log ci ++ (iterNext s.db ci committed current k).2.1 else s.log j } := by
  have hcom : committed = s.db.root := by
    rcases hc with e | ⟨hw, e⟩
    · exact e
    · cases hw' : s.db.wtxn with
      | none => rw [hw'] at hw; simp at hw
      | some es => rw [e]; exact (h.wOld es hw').1
  subst hcom
  have hlogsame : (fun j => if j = ci then s.log ci ++ [] else s.log j) = s.log := by
    funext j; split
    · rename_i e; rw [e]; simp
    · rfl
  cases h1 : s.db.iters[ci]? with
  | none =>
    have : iterNext s.db ci s.db.root current k = (s.db, [], false) := by unfold iterNext; rw [h1]
    rw [this]; simp only [hlogsame]; exact h3
  | some it =>
  have hsz : ci < s.db.iters.size := by
    rcases Nat.lt_or_ge ci s.db.iters.size with hlt | hge
    · exact hlt
    · rw [Array.getElem?_eq_none hge] at h1; cases h1
  rcases iterNext_spec s.db ci s.db.root current k it h1 with ⟨e, _, _⟩ | ⟨hst, e⟩ | ⟨hst, _, hn⟩
  · rw [e]; simp only [hlogsame]; exact h3
  · rw [e]; simp only [hlogsame]
    obtain ⟨f1, f2, f3, f4, f5, f6, f7⟩ := refresh_fields it s.db.root current true
    have hget : ∀ (cj : Nat) (x : ChangeIter),
        (s.db.iters.set! ci (it.refresh s.db.root current true))[cj]? = some x →
        (cj = ci ∧ x = it.refresh s.db.root current true) ∨ (cj ≠ ci ∧ s.db.iters[cj]? = some x) := by
      intro cj x hx
      rw [Array.set!_eq_setIfInBounds, Array.getElem?_setIfInBounds] at hx
      by_cases e : ci = cj
      · rw [if_pos e, if_pos hsz] at hx
        left; exact ⟨e.symm, by simpa using hx.symm⟩
      · rw [if_neg e] at hx
        right; exact ⟨fun e' => e e'.symm, hx⟩
    constructor
    · exact h3.wext
    · intro cj x hx hxc hl
      rcases hget cj x hx with ⟨a, e⟩ | ⟨_, hx'⟩
      · subst e; subst a
        have hl' : Live s it := by
          rcases hl with hl | ⟨es, he, hr, hb⟩
          · left; rw [f1, f4] at hl; exact hl
          · right; rw [f1, f4] at hr; rw [f1, f7] at hb; exact ⟨es, he, hr, hb⟩
        rw [f1]
        exact (h3.ord cj it h1 (f5 ▸ hxc) hl').congr f2 f3 (Nat.le_refl _) (fun _ _ ho _ => ho) (fun _ _ hg _ => hg)
      · exact h3.ord cj x hx' hxc hl
  · generalize (iterNext s.db ci s.db.root current k).1 = db' at hn
    generalize (iterNext s.db ci s.db.root current k).2.1 = taken at hn
    obtain ⟨⟨rest, hpre⟩, ⟨it', hit, j1, j2, j3, j4, j5, j6, j7, j8, j9⟩, hoth, hroot, hwtxn, hold, hnt, hgd⟩ := hn
    have hT := h.rootT it.table
    have hb := hT.bound
    have hget : ∀ (cj : Nat) (x : ChangeIter), db'.iters[cj]? = some x →
        (cj = ci ∧ x = it') ∨ (cj ≠ ci ∧ s.db.iters[cj]? = some x) := by
      intro cj x hx
      rw [hit, Array.set!_eq_setIfInBounds, Array.getElem?_setIfInBounds] at hx
      by_cases e : ci = cj
      · rw [if_pos e, if_pos hsz] at hx
        left; exact ⟨e.symm, by simpa using hx.symm⟩
      · rw [if_neg e] at hx
        right; exact ⟨fun e' => e e'.symm, hx⟩
    have hliveAny : ∀ x, Live { db := db', log := fun j => if j = ci then s.log ci ++ taken else s.log j } x → Live s x := by
      intro x hl
      rcases hl with hl | ⟨es, he, hr, hbx⟩
      · left; simp only at hl; rw [hroot] at hl; exact hl
      · right; simp only at he hbx; rw [hwtxn] at he; rw [hroot] at hbx; exact ⟨es, he, hr, hbx⟩
    constructor
    · intro es he i; simp only at he ⊢; rw [hwtxn] at he; rw [hroot]; exact h3.wext es he i
    · intro cj x hx hxc hl
      have hl' := hliveAny x hl
      simp only at hx ⊢
      rw [hroot]
      rcases hget cj x hx with ⟨a, e⟩ | ⟨a, hx'⟩
      · subst e; subst a
        have hli : Live s it := by
          rcases hl' with hl' | ⟨es, he, hr, hbx⟩
          · left; rw [j1, j2] at hl'; exact hl'
          · right; rw [j1, j2] at hr; rw [j1, j9] at hbx; exact ⟨es, he, hr, hbx⟩
        obtain ⟨_, rr, rd, _, _, _⟩ := h.reg cj it h1 (j3 ▸ hxc) hli
        simp only [if_true]
        rw [j1]
        exact (h3.ord cj it h1 (j3 ▸ hxc) hli).consume hT (by omega) (by omega) taken rest hpre j4 j5
      · simp only [if_neg a]
        exact h3.ord cj x hx' hxc hl'

theorem Inv3.close {s : St} (h3 : Inv3 s) (ci : Nat) (hw : s.db.wtxn = none) :
    Inv3 { s with db := iterClose s.db ci } := by
  unfold iterClose
  cases h1 : s.db.iters[ci]? with
  | none => exact h3
  | some it =>
    simp only
    have hroot := tbl_close s.db.root it.table it.tracker
    have hsz : ci < s.db.iters.size := by
      rcases Nat.lt_or_ge ci s.db.iters.size with hlt | hge
      · exact hlt
      · rw [Array.getElem?_eq_none hge] at h1; cases h1
    have hget : ∀ (cj : Nat) (x : ChangeIter),
        (s.db.iters.set! ci { it with closed := true, pending := none })[cj]? = some x →
        (cj = ci ∧ x.closed = true) ∨ (cj ≠ ci ∧ s.db.iters[cj]? = some x) := by
      intro cj x hx
      rw [Array.set!_eq_setIfInBounds, Array.getElem?_setIfInBounds] at hx
      by_cases e : ci = cj
      · rw [if_pos e, if_pos hsz] at hx
        left
        have : x = { it with closed := true, pending := none } := by simpa using hx.symm
        exact ⟨e.symm, by rw [this]⟩
      · rw [if_neg e] at hx
        right; exact ⟨fun e' => e e'.symm, hx⟩
    have hcore : ∀ i, let t' := tbl (s.db.root.mapIdx fun i t =>
          if i = it.table then { t with trackers := t.trackers.filter (· ≠ it.tracker) } else t) i
        t'.rev = (tbl s.db.root i).rev ∧ t'.primary = (tbl s.db.root i).primary ∧
        t'.grave = (tbl s.db.root i).grave ∧ ∀ id ∈ t'.trackers, id ∈ (tbl s.db.root i).trackers := by
      intro i
      simp only
      rw [hroot]
      split
      · exact ⟨rfl, rfl, rfl, fun id hid => (List.mem_filter.mp hid).1⟩
      · exact ⟨rfl, rfl, rfl, fun id hid => hid⟩
    constructor
    · intro es he; simp only at he; rw [hw] at he; cases he
    · intro cj x hx hxc hl
      have hr : x.tracker ∈ (tbl (s.db.root.mapIdx fun i t =>
          if i = it.table then { t with trackers := t.trackers.filter (· ≠ it.tracker) } else t) x.table).trackers := by
        rcases hl with hl | ⟨es, he, _⟩
        · exact hl
        · simp only at he; rw [hw] at he; cases he
      simp only at hx ⊢
      obtain ⟨c1, c2, c3, c4⟩ := hcore x.table
      rcases hget cj x hx with ⟨_, e⟩ | ⟨_, hx'⟩
      · rw [e] at hxc; cases hxc
      · exact (h3.ord cj x hx' hxc (Or.inl (c4 _ hr))).congr rfl rfl (by rw [c1]; exact Nat.le_refl _)
          (fun k o ho _ => by rw [c2] at ho; exact ho) (fun k g hg _ => by rw [c3] at hg; exact hg)

theorem Inv3.gcWrite {s : St} (h : Inv s) (h3 : Inv3 s) (hw : s.db.wtxn = none) (dead dead' : List (Nat × List Key))
    (b1 b2 : Bool) :
    Inv3 { s with db := { (gcApply s.db dead) with gcDead := dead', gcPaused := b1, gcTrig := b2 } } := by
  have hroot : ∀ i, tbl (gcApply s.db dead).root i = gcTable (tbl s.db.root i) (deadKeys dead i) :=
    fun i => gcApply_getD s.db dead i
  have hf := fun i => gcTable_fields (tbl s.db.root i) (deadKeys dead i)
  have hm := fun i => gcTable_mem (h.rootT i) (deadKeys dead i)
  have hwt : (gcApply s.db dead).wtxn = none := hw
  constructor
  · intro es he; simp only at he; rw [hwt] at he; cases he
  · intro ci it hi hc hl
    have hr : it.tracker ∈ (tbl (gcApply s.db dead).root it.table).trackers := by
      rcases hl with hl | ⟨es, he, _⟩
      · exact hl
      · simp only at he; rw [hwt] at he; cases he
    simp only at hi ⊢
    rw [hroot] at hr ⊢
    rw [(hf it.table).2.2.2.1] at hr
    exact (h3.ord ci it hi hc (Or.inl hr)).congr rfl rfl (by rw [(hf it.table).1]; exact Nat.le_refl _)
      (fun k o ho _ => by rw [(hf it.table).2.1] at ho; exact ho)
      (fun k g hg _ => (((hm it.table).2 k g).mp hg).1)

theorem Inv3.gcScanStep {s : St} (h3 : Inv3 s) :
    Inv3 { s with db := { s.db with gcDead := gcScan s.db, gcPaused := true, gcTrig := false } } := by
  constructor
  · exact h3.wext
  · intro ci it hi hc hl
    exact h3.ord ci it hi hc hl

theorem Step.inv3 {s s' : St} (st : Step s s') (h : Inv s) (h3 : Inv3 s) : Inv3 s' := by
  cases st with
  | beginW lm la _ => exact h3.beginW lm la
  | commit => exact h3.commit h
  | abort => exact h3.abort
  | write es i t' hw w => exact h3.write h es i t' hw w
  | create ti => exact h3.create h ti
  | next ci k committed current hc => exact h3.next h ci k committed current hc
  | close ci hw => exact h3.close ci hw
  | gcScan => exact h3.gcScanStep
  | gcApplyPaused hw => exact h3.gcWrite h hw s.db.gcDead [] false (Tbl.gcApply s.db s.db.gcDead).gcTrig
  | gcRun hw => exact h3.gcWrite h hw (Tbl.gcScan s.db) s.db.gcDead (Tbl.gcApply s.db (Tbl.gcScan s.db)).gcPaused false

/-- in every reachable state the whole log of every iterator in good standing is strictly ascending -/
theorem Reach.inv3 {s : St} (r : Reach s) : Inv3 s := by
  induction r with
  | init => exact Inv3.init
  | step hr st ih => exact st.inv3 hr.inv ih
end Sdb.Chg
