import SdbModel.Lemmas.ReconcilerBatchMeasure

/-!
  Lemmas.ReconcilerBatchSim — a batch round and a single round from the same
  state (no writes from inside an Update) make the same calls up to their order
  and end in states that differ at most in the order of the call log and in the
  unobservable distinction of the retry timer / tie ghost.
-/
namespace Sdb.Rec

/-! ## states up to log, timer and tie ghost -/

/-- `c` with another call log, retry timer and tie ghost -/
def asm (c : R) (l : List Call) (t : Timer) (s : Bool) : R := { c with log := l, timer := t, tieSeen := s }

@[simp] theorem asm_cfg (c : R) (l t s) : (asm c l t s).cfg = c.cfg := rfl
@[simp] theorem asm_objs (c : R) (l t s) : (asm c l t s).objs = c.objs := rfl
@[simp] theorem asm_tableRev (c : R) (l t s) : (asm c l t s).tableRev = c.tableRev := rfl
@[simp] theorem asm_dels (c : R) (l t s) : (asm c l t s).dels = c.dels := rfl
@[simp] theorem asm_items (c : R) (l t s) : (asm c l t s).items = c.items := rfl
@[simp] theorem asm_now (c : R) (l t s) : (asm c l t s).now = c.now := rfl
@[simp] theorem asm_failing (c : R) (l t s) : (asm c l t s).failing = c.failing := rfl
@[simp] theorem asm_injects (c : R) (l t s) : (asm c l t s).injects = c.injects := rfl
@[simp] theorem asm_log (c : R) (l t s) : (asm c l t s).log = l := rfl
@[simp] theorem asm_results (c : R) (l t s) : (asm c l t s).results = c.results := rfl
@[simp] theorem asm_numReconciled (c : R) (l t s) : (asm c l t s).numReconciled = c.numReconciled := rfl
@[simp] theorem asm_nextSid (c : R) (l t s) : (asm c l t s).nextSid = c.nextSid := rfl
@[simp] theorem asm_progressRev (c : R) (l t s) : (asm c l t s).progressRev = c.progressRev := rfl
@[simp] theorem asm_head (c : R) (l t s) : (asm c l t s).head = c.head := rfl
@[simp] theorem asm_get (c : R) (l t s) (id : Nat) : (asm c l t s).get id = c.get id := rfl
@[simp] theorem asm_isFailing (c : R) (l t s) (id : Nat) : (asm c l t s).isFailing id = c.isFailing id := rfl
@[simp] theorem asm_lowWatermark (c : R) (l t s) : (asm c l t s).lowWatermark = c.lowWatermark := rfl
@[simp] theorem asm_asm (c : R) (l t s l' t' s') : asm (asm c l t s) l' t' s' = asm c l' t' s' := rfl

/-- `f` acts on a state (without writes from inside an Update) independently of its log, timer
    and tie ghost, and only appends to the log -/
def LogOnly (f : R → R) : Prop :=
  ∀ y l t s, y.injects = [] → ∃ Δ t' s', f (asm y l t s) = asm (f y) (l ++ Δ) t' s' ∧ (f y).log = y.log ++ Δ ∧ (f y).injects = []

theorem LogOnly.comp {f g : R → R} (hf : LogOnly f) (hg : LogOnly g) : LogOnly (fun r => g (f r)) := by
  intro y l t s hi
  obtain ⟨Δ, t', s', e1, e2, i1⟩ := hf y l t s hi
  obtain ⟨Δ', t'', s'', e3, e4, i2⟩ := hg (f y) (l ++ Δ) t' s' i1
  refine ⟨Δ ++ Δ', t'', s'', ?_, ?_, i2⟩
  · simp only [e1, e3, List.append_assoc]
  · rw [e4, e2, List.append_assoc]

theorem LogOnly.id : LogOnly (fun r => r) := fun y l t s hi => ⟨[], t, s, by simp, by simp, hi⟩

theorem LogOnly.ite {f g : R → R} (c : R → Prop) [∀ r, Decidable (c r)] (hc : ∀ y l t s, c (asm y l t s) ↔ c y)
    (hf : LogOnly f) (hg : LogOnly g) : LogOnly (fun r => if c r then f r else g r) := by
  intro y l t s hi
  simp only [hc]
  split
  · exact hf y l t s hi
  · exact hg y l t s hi

theorem logOnly_retryAdd (o : RObj) (a b : Nat) (d : Bool) : LogOnly (fun r => r.retryAdd o a b d) := by
  intro y l t s hi
  exact ⟨[], _, _, by rw [List.append_nil]; rfl, by simp, hi⟩

theorem logOnly_retryClear (id : Nat) : LogOnly (fun r => r.retryClear id) := by
  intro y l t s hi
  refine ⟨[], ?_⟩
  simp only [List.append_nil, retryClear_log, retryClear_injects, hi, and_true]
  unfold R.retryClear
  simp only [asm_items]
  cases y.items.find? (·.id = id) with
  | none => exact ⟨t, s, rfl⟩
  | some it => exact ⟨_, _, rfl⟩

theorem logOnly_retryPop : LogOnly (fun r => r.retryPop) := by
  intro y l t s hi
  refine ⟨[], ?_⟩
  simp only [List.append_nil, retryPop_log, retryPop_injects, hi, and_true]
  unfold R.retryPop
  simp only [asm_head]
  cases y.head with
  | none => exact ⟨t, s, rfl⟩
  | some it => exact ⟨_, _, rfl⟩

theorem logOnly_processSingle (obj : RObj) (rev : Nat) (del : Bool) : LogOnly (fun r => r.processSingle obj rev del) := by
  intro y l t s hi
  have hi' : (asm y l t s).injects = [] := hi
  cases del with
  | true =>
    simp only [processSingle_delete, asm_isFailing]
    by_cases hf : y.isFailing obj.id = true
    · simp only [hf, if_true]
      obtain ⟨Δ, t', s', e1, e2, i1⟩ := logOnly_retryAdd obj rev rev true
        { y with log := y.log ++ [⟨"D", obj.id, obj.data, false⟩] } (l ++ [⟨"D", obj.id, obj.data, false⟩]) t s hi
      exact ⟨[⟨"D", obj.id, obj.data, false⟩] ++ Δ, t', s', by rw [← List.append_assoc]; exact e1, by rw [e2]; simp, i1⟩
    · have hf' : y.isFailing obj.id = false := by simpa using hf
      simp only [hf', Bool.false_eq_true, if_false]
      obtain ⟨Δ, t', s', e1, e2, i1⟩ := logOnly_retryClear obj.id
        { y with log := y.log ++ [⟨"D", obj.id, obj.data, true⟩] } (l ++ [⟨"D", obj.id, obj.data, true⟩]) t s hi
      exact ⟨[⟨"D", obj.id, obj.data, true⟩] ++ Δ, t', s', by rw [← List.append_assoc]; exact e1, by rw [e2]; simp, i1⟩
  | false =>
    simp only
    rw [processSingle_update hi', processSingle_update hi]
    simp only [asm_isFailing]
    by_cases hf : y.isFailing obj.id = true
    · simp only [hf, if_true]
      exact ⟨[⟨"U", obj.id, obj.data, false⟩], t, s, rfl, rfl, hi⟩
    · have hf' : y.isFailing obj.id = false := by simpa using hf
      simp only [hf', Bool.false_eq_true, if_false]
      obtain ⟨Δ, t', s', e1, e2, i1⟩ := logOnly_retryClear obj.id
        { y with log := y.log ++ [⟨"U", obj.id, obj.data, true⟩], results := y.results ++ [(obj, obj, rev, obj.sid, false)] }
        (l ++ [⟨"U", obj.id, obj.data, true⟩]) t s hi
      exact ⟨[⟨"U", obj.id, obj.data, true⟩] ++ Δ, t', s', by rw [← List.append_assoc]; exact e1, by rw [e2]; simp, i1⟩

theorem logOnly_commitOne (res : Res) : LogOnly (fun r => r.commitOne res) := by
  intro y l t s hi
  obtain ⟨obj, orig, rev, sid, failed⟩ := res
  unfold R.commitOne
  simp only [asm_get]
  cases y.get obj.id with
  | none => exact ⟨[], t, s, by simp, by simp, hi⟩
  | some cur =>
    simp only
    by_cases h1 : cur.rev = rev
    · simp only [h1, if_true]
      cases failed with
      | false => exact ⟨[], t, s, by simp only [List.append_nil]; rfl, by simp, hi⟩
      | true =>
        exact logOnly_retryAdd orig _ rev false
          { (y.setObj { obj with kind := .error, sid := y.nextSid }) with nextSid := y.nextSid + 1 } l t s hi
    · simp only [h1, if_false]
      by_cases h2 : cur.kind = .pending ∧ cur.sid = sid
      · simp only [h2, and_self, if_true]
        cases failed with
        | false => exact ⟨[], t, s, by simp only [List.append_nil]; rfl, by simp, hi⟩
        | true =>
          exact logOnly_retryAdd cur _ rev false
            { (y.setObj { cur with kind := .error, sid := y.nextSid }) with nextSid := y.nextSid + 1 } l t s hi
      · simp only [h2, if_false]
        exact ⟨[], t, s, by simp, by simp, hi⟩

theorem logOnly_foldl_commitOne (rs : List Res) : LogOnly (fun r => rs.foldl R.commitOne r) := by
  induction rs with
  | nil => exact LogOnly.id
  | cons x xs ih => exact (logOnly_commitOne x).comp ih

theorem logOnly_commitStatus : LogOnly R.commitStatus := by
  intro y l t s hi
  unfold R.commitStatus
  obtain ⟨Δ, t', s', e1, e2, i1⟩ := logOnly_foldl_commitOne y.results y l t s hi
  simp only [asm_results]
  simp only at e1
  rw [e1]
  exact ⟨Δ, t', s', rfl, e2, i1⟩

theorem logOnly_setNum (f : R → Nat) (hf : ∀ y l t s, f (asm y l t s) = f y) : LogOnly (fun r => { r with numReconciled := f r }) := by
  intro y l t s hi
  exact ⟨[], t, s, by simp only [hf, List.append_nil]; rfl, by simp, hi⟩

theorem logOnly_processRetries (fuel : Nat) : LogOnly (fun r => r.processRetries fuel) := by
  induction fuel with
  | zero => exact LogOnly.id
  | succ n ih =>
    intro y l t s hi
    simp only
    unfold R.processRetries
    simp only [asm_numReconciled, asm_cfg, asm_head, asm_now]
    by_cases h1 : y.numReconciled ≥ y.cfg.roundSize
    · simp only [h1, if_true]
      exact ⟨[], t, s, by simp, by simp, hi⟩
    · simp only [h1, if_false]
      cases hh : y.head with
      | none => exact ⟨[], t, s, by simp, by simp, hi⟩
      | some h =>
        simp only
        by_cases h2 : h.retryAt > y.now
        · simp only [h2, if_true]
          exact ⟨[], t, s, by simp, by simp, hi⟩
        · simp only [h2, if_false]
          have hc := ((logOnly_retryPop.comp (logOnly_processSingle h.obj h.rev h.delete)).comp
            (logOnly_setNum (fun r => r.numReconciled + 1) (fun _ _ _ _ => rfl))).comp ih
          exact hc y l t s hi

/-- the state after the first status commit and the retries of a round's tail -/
def tail5 (r : R) : R := r.commitStatus.processRetries (r.commitStatus.items.length + 1)

/-- the end of a round's tail -/
def tailFin (last : Nat) (r5 : R) : R :=
  let r6 := r5.commitStatus
  { r6 with numReconciled := 0, progressRev := if last > r6.progressRev then last else r6.progressRev,
            progressLW := r5.lowWatermark }

theorem roundTail_eq (r : R) (last : Nat) : roundTail r last = tailFin last (tail5 r) := rfl

theorem asm_tail5 (y : R) (l : List Call) (t : Timer) (s : Bool) (hi : y.injects = []) :
    ∃ Δ t' s', tail5 (asm y l t s) = asm (tail5 y) (l ++ Δ) t' s' ∧ (tail5 y).log = y.log ++ Δ ∧ (tail5 y).injects = [] := by
  unfold tail5
  obtain ⟨Δ1, t1, s1, a1, b1, i1⟩ := logOnly_commitStatus y l t s hi
  rw [a1]
  simp only [asm_items]
  obtain ⟨Δ2, t2, s2, a2, b2, i2⟩ := logOnly_processRetries (y.commitStatus.items.length + 1) y.commitStatus (l ++ Δ1) t1 s1 i1
  simp only at a2 b2 i2
  rw [a2]
  exact ⟨Δ1 ++ Δ2, t2, s2, by rw [List.append_assoc], by rw [b2, b1, List.append_assoc], i2⟩

theorem asm_tailFin (last : Nat) (y : R) (l : List Call) (t : Timer) (s : Bool) (hi : y.injects = []) :
    ∃ Δ t' s', tailFin last (asm y l t s) = asm (tailFin last y) (l ++ Δ) t' s' ∧ (tailFin last y).log = y.log ++ Δ := by
  unfold tailFin
  obtain ⟨Δ3, t3, s3, a3, b3, _⟩ := logOnly_commitStatus y l t s hi
  simp only [a3, asm_lowWatermark, asm_progressRev]
  exact ⟨Δ3, t3, s3, rfl, b3⟩

theorem asm_roundTail (last : Nat) (y : R) (l : List Call) (t : Timer) (s : Bool) (hi : y.injects = []) :
    ∃ Δ t' s', roundTail (asm y l t s) last = asm (roundTail y last) (l ++ Δ) t' s' ∧ (roundTail y last).log = y.log ++ Δ := by
  rw [roundTail_eq, roundTail_eq]
  obtain ⟨Δ1, t1, s1, a1, b1, i1⟩ := asm_tail5 y l t s hi
  rw [a1]
  obtain ⟨Δ2, t2, s2, a2, b2⟩ := asm_tailFin last (tail5 y) (l ++ Δ1) t1 s1 i1
  rw [a2]
  exact ⟨Δ1 ++ Δ2, t2, s2, by rw [List.append_assoc], by rw [b2, b1, List.append_assoc]⟩

/-! ## the change phase of the two modes -/

/-- a state without its retry items, recorded results, log, timer and tie ghost -/
def base (r : R) : R := { r with items := [], results := [], log := [], timer := .none, tieSeen := false }

theorem eq_asm_of_base {x y : R} (hb : base x = base y) (hi : x.items = y.items) (hr : x.results = y.results) :
    x = asm y x.log x.timer x.tieSeen := by
  cases x; cases y
  simp only [base, R.mk.injEq] at hb
  simp_all [asm]

@[simp] theorem base_retryClear (r : R) (id : Nat) : base (r.retryClear id) = base r := by
  unfold R.retryClear
  cases r.items.find? (·.id = id) <;> rfl

@[simp] theorem base_retryAdd (r : R) (o : RObj) (a b : Nat) (d : Bool) : base (r.retryAdd o a b d) = base r := rfl

theorem base_now {x y : R} (h : base x = base y) : x.now = y.now := by
  have := congrArg R.now h
  exact this
theorem base_cfg {x y : R} (h : base x = base y) : x.cfg = y.cfg := by
  have := congrArg R.cfg h
  exact this
theorem base_failing {x y : R} (h : base x = base y) : x.failing = y.failing := by
  have := congrArg R.failing h
  exact this
theorem base_injects {x y : R} (h : base x = base y) : x.injects = y.injects := by
  have := congrArg R.injects h
  exact this
theorem base_numReconciled {x y : R} (h : base x = base y) : x.numReconciled = y.numReconciled := by
  have := congrArg R.numReconciled h
  exact this

/-- the retry item a failed Delete of the entry `e` leaves (first failure after the change was read) -/
def mkItemD (n : R) (e : BEntry) : Item :=
  { id := e.1.id, obj := e.1, rev := e.2, origRev := e.2, delete := true, retryAt := n.now + backoff n.cfg.minB n.cfg.maxB 1,
    numRetries := 1, inQueue := true, inRevQueue := true }

/-- the result an Update of the entry `e` records -/
def mkRes (fl : List Nat) (e : BEntry) : Res := (e.1, e.1, e.2, e.1.sid, fl.contains e.1.id)

theorem retryAdd_items_fresh (r : R) (o : RObj) (v : Nat) (h : ∀ it ∈ r.items, it.id ≠ o.id) :
    (r.retryAdd o v v true).items = r.items ++ [mkItemD r (o, v)] := by
  have hf : r.items.find? (·.id = o.id) = none := by
    rw [List.find?_eq_none]; intro x hx; simpa using h x hx
  unfold R.retryAdd
  simp only [hf, filter_ne_self _ _ h]
  rfl

/-- the single-mode loop processes a deletion -/
def procD (r : R) (c : Change) : R :=
  { ((R.retryClear { r with itDelRev := c.rev } c.obj.id).processSingle c.obj c.rev true) with
    numReconciled := ((R.retryClear { r with itDelRev := c.rev } c.obj.id).processSingle c.obj c.rev true).numReconciled + 1 }

/-- the single-mode loop processes a changed live object -/
def procU (r : R) (c : Change) : R :=
  { ((R.retryClear { r with itRev := c.rev } c.obj.id).processSingle c.obj c.rev false) with
    numReconciled := ((R.retryClear { r with itRev := c.rev } c.obj.id).processSingle c.obj c.rev false).numReconciled + 1 }

theorem consume_skip (r : R) (c : Change) (cs : List Change) (last : Nat)
    (hc : c.deleted = false) (hn : ¬ needs c.obj.kind) :
    r.consume (c :: cs) last = R.consume { r with itRev := c.rev } cs c.rev := by
  rw [R.consume]
  have : (!c.deleted ∧ !(c.obj.kind = .pending ∨ c.obj.kind = .refreshing)) := by
    simp only [hc, Bool.not_false, true_and]
    simpa [needs] using hn
  simp only
  split
  · simp only [hc, Bool.false_eq_true, if_false]
  · rename_i h; exact absurd this h

theorem consume_del (r : R) (c : Change) (cs : List Change) (last : Nat) (hc : c.deleted = true) :
    r.consume (c :: cs) last =
      if (procD r c).numReconciled ≥ (procD r c).cfg.roundSize then (procD r c, cs, c.rev) else (procD r c).consume cs c.rev := by
  rw [R.consume]
  simp only [hc, Bool.not_true, Bool.false_eq_true, false_and, if_false, if_true]
  rfl

theorem consume_upd (r : R) (c : Change) (cs : List Change) (last : Nat) (hc : c.deleted = false) (hn : needs c.obj.kind) :
    r.consume (c :: cs) last =
      if (procU r c).numReconciled ≥ (procU r c).cfg.roundSize then (procU r c, cs, c.rev) else (procU r c).consume cs c.rev := by
  rw [R.consume]
  have : ¬ (!c.deleted ∧ !(c.obj.kind = .pending ∨ c.obj.kind = .refreshing)) := by
    rintro ⟨_, h2⟩
    simp only [Bool.not_eq_eq_eq_not, Bool.not_true, decide_eq_false_iff_not] at h2
    exact h2 hn
  simp only
  split
  · rename_i h; exact absurd h this
  · simp only [hc, Bool.false_eq_true, if_false]
    rfl

/-- the iterator and the counter after a deletion / a live object was processed -/
def setD (r : R) (v : Nat) : R := { r with itDelRev := v, numReconciled := r.numReconciled + 1 }
def setU (r : R) (v : Nat) : R := { r with itRev := v, numReconciled := r.numReconciled + 1 }

theorem base_setD {x y : R} (h : base x = base y) (v : Nat) : base (setD x v) = base (setD y v) := by
  show setD (base x) v = setD (base y) v
  rw [h]

theorem base_setU {x y : R} (h : base x = base y) (v : Nat) : base (setU x v) = base (setU y v) := by
  show setU (base x) v = setU (base y) v
  rw [h]

theorem ps_del_spec (X : R) (o : RObj) (v : Nat) (hfresh : ∀ it ∈ X.items, it.id ≠ o.id) :
    base (X.processSingle o v true) = base X ∧ (X.processSingle o v true).results = X.results ∧
    (X.processSingle o v true).log = X.log ++ [callD X.failing (o, v)] ∧
    (X.processSingle o v true).items = X.items ++ (if X.failing.contains o.id then [mkItemD X (o, v)] else []) ∧
    (X.processSingle o v true).numReconciled = X.numReconciled := by
  rw [processSingle_delete]
  have hfail : X.isFailing o.id = X.failing.contains o.id := rfl
  rw [hfail]
  cases hf : X.failing.contains o.id with
  | true =>
    simp only [if_true]
    refine ⟨rfl, rfl, by simp only [retryAdd_log, callD, hf, Bool.not_true], ?_, rfl⟩
    exact retryAdd_items_fresh { X with log := X.log ++ [⟨"D", o.id, o.data, false⟩] } o v hfresh
  | false =>
    simp only [Bool.false_eq_true, if_false, List.append_nil]
    refine ⟨by simp [base], by simp, by simp only [retryClear_log, callD, hf, Bool.not_false], ?_, by simp⟩
    rw [retryClear_items]
    exact filter_ne_self _ _ hfresh

theorem ps_upd_spec (X : R) (o : RObj) (v : Nat) (hinj : X.injects = []) (hfresh : ∀ it ∈ X.items, it.id ≠ o.id) :
    base (X.processSingle o v false) = base X ∧ (X.processSingle o v false).results = X.results ++ [mkRes X.failing (o, v)] ∧
    (X.processSingle o v false).log = X.log ++ [callU X.failing (o, v)] ∧
    (X.processSingle o v false).items = X.items ∧
    (X.processSingle o v false).numReconciled = X.numReconciled := by
  rw [processSingle_update hinj]
  have hfail : X.isFailing o.id = X.failing.contains o.id := rfl
  rw [hfail]
  cases hf : X.failing.contains o.id with
  | true =>
    simp only [if_true]
    exact ⟨rfl, by simp only [mkRes, hf], by simp only [callU, hf, Bool.not_true], trivial, trivial⟩
  | false =>
    simp only [Bool.false_eq_true, if_false]
    refine ⟨by simp [base], by simp only [retryClear_results, mkRes, hf], by simp only [retryClear_log, callU, hf, Bool.not_false], ?_, by simp⟩
    rw [retryClear_items]
    exact filter_ne_self _ _ hfresh

theorem procD_spec (r : R) (c : Change) :
    base (procD r c) = base (setD r c.rev) ∧ (procD r c).results = r.results ∧
    (procD r c).log = r.log ++ [callD r.failing (c.obj, c.rev)] ∧
    (procD r c).items = r.items.filter (·.id ≠ c.obj.id) ++
      (if r.failing.contains c.obj.id then [mkItemD r (c.obj, c.rev)] else []) := by
  unfold procD
  have hX : base (R.retryClear { r with itDelRev := c.rev } c.obj.id) = base { r with itDelRev := c.rev } ∧
      (R.retryClear { r with itDelRev := c.rev } c.obj.id).results = r.results ∧
      (R.retryClear { r with itDelRev := c.rev } c.obj.id).log = r.log ∧
      (R.retryClear { r with itDelRev := c.rev } c.obj.id).items = r.items.filter (·.id ≠ c.obj.id) ∧
      (R.retryClear { r with itDelRev := c.rev } c.obj.id).numReconciled = r.numReconciled ∧
      (R.retryClear { r with itDelRev := c.rev } c.obj.id).failing = r.failing ∧
      (R.retryClear { r with itDelRev := c.rev } c.obj.id).now = r.now ∧
      (R.retryClear { r with itDelRev := c.rev } c.obj.id).cfg = r.cfg :=
    ⟨base_retryClear _ _, by simp, by simp, by simp [retryClear_items], by simp, by simp, by simp, by simp⟩
  generalize R.retryClear { r with itDelRev := c.rev } c.obj.id = X at hX
  obtain ⟨x1, x2, x3, x4, x5, x6, x7, x8⟩ := hX
  obtain ⟨y1, y2, y3, y4, y5⟩ := ps_del_spec X c.obj c.rev (by
    intro it hit; rw [x4] at hit; simpa using (List.mem_filter.1 hit).2)
  generalize X.processSingle c.obj c.rev true = Y at y1 y2 y3 y4 y5
  refine ⟨?_, y2.trans x2, by rw [y3, x3, x6], ?_⟩
  · show ({ base Y with numReconciled := Y.numReconciled + 1 } : R) = _
    rw [y1, x1, y5, x5]
    rfl
  · show Y.items = _
    rw [y4, x4, x6]
    simp only [mkItemD, x7, x8]

theorem procU_spec (r : R) (c : Change) (hinj : r.injects = []) :
    base (procU r c) = base (setU r c.rev) ∧ (procU r c).results = r.results ++ [mkRes r.failing (c.obj, c.rev)] ∧
    (procU r c).log = r.log ++ [callU r.failing (c.obj, c.rev)] ∧
    (procU r c).items = r.items.filter (·.id ≠ c.obj.id) := by
  unfold procU
  have hX : base (R.retryClear { r with itRev := c.rev } c.obj.id) = base { r with itRev := c.rev } ∧
      (R.retryClear { r with itRev := c.rev } c.obj.id).results = r.results ∧
      (R.retryClear { r with itRev := c.rev } c.obj.id).log = r.log ∧
      (R.retryClear { r with itRev := c.rev } c.obj.id).items = r.items.filter (·.id ≠ c.obj.id) ∧
      (R.retryClear { r with itRev := c.rev } c.obj.id).numReconciled = r.numReconciled ∧
      (R.retryClear { r with itRev := c.rev } c.obj.id).failing = r.failing ∧
      (R.retryClear { r with itRev := c.rev } c.obj.id).injects = r.injects :=
    ⟨base_retryClear _ _, by simp, by simp, by simp [retryClear_items], by simp, by simp, by simp⟩
  generalize R.retryClear { r with itRev := c.rev } c.obj.id = X at hX
  obtain ⟨x1, x2, x3, x4, x5, x6, x7⟩ := hX
  obtain ⟨y1, y2, y3, y4, y5⟩ := ps_upd_spec X c.obj c.rev (x7.trans hinj) (by
    intro it hit; rw [x4] at hit; simpa using (List.mem_filter.1 hit).2)
  generalize X.processSingle c.obj c.rev false = Y at y1 y2 y3 y4 y5
  refine ⟨?_, by rw [y2, x2, x6], by rw [y3, x3, x6], y4.trans x4⟩
  show ({ base Y with numReconciled := Y.numReconciled + 1 } : R) = _
  rw [y1, x1, y5, x5]
  rfl

/-- the single-mode loop (state `xs`) against the collecting loop of the batch
    mode (state `xb`, collected `ds` / `us`), both started in `n`: the single
    loop is ahead by the calls, retries and results of the collected entries -/
structure JRel (n xs xb : R) (ds us : List BEntry) : Prop where
  b : base xs = base xb
  items : xs.items = xb.items ++ (ds.filter (fun e => n.failing.contains e.1.id)).map (mkItemD n)
  results : xs.results = xb.results ++ us.map (mkRes n.failing)
  log : xs.log.Perm (xb.log ++ ds.map (callD n.failing) ++ us.map (callU n.failing))

theorem JRel.init (n : R) : JRel n n n [] [] := ⟨rfl, by simp, by simp, by simp⟩

theorem base_readD (x : R) (c : Change) : base (readD x c) = base (setD x c.rev) := by
  unfold readD
  show ({ base (R.retryClear { x with itDelRev := c.rev } c.obj.id) with numReconciled := x.numReconciled + 1 } : R) = _
  rw [base_retryClear]; rfl

theorem base_readU (x : R) (c : Change) : base (readU x c) = base (setU x c.rev) := by
  unfold readU
  show ({ base (R.retryClear { x with itRev := c.rev } c.obj.id) with numReconciled := x.numReconciled + 1 } : R) = _
  rw [base_retryClear]; rfl

theorem filter_map_mkItemD_ne (n : R) (l : List BEntry) (id : Nat) (h : ∀ e ∈ l, e.1.id ≠ id) :
    (l.map (mkItemD n)).filter (·.id ≠ id) = l.map (mkItemD n) := by
  rw [List.filter_eq_self]
  intro it hit
  obtain ⟨e, he, rfl⟩ := List.mem_map.1 hit
  exact decide_eq_true (h e he)

theorem JRel.skip {n xs xb : R} {ds us : List BEntry} (h : JRel n xs xb ds us) (v : Nat) :
    JRel n { xs with itRev := v } { xb with itRev := v } ds us := by
  refine ⟨?_, h.items, h.results, h.log⟩
  show ({ base xs with itRev := v } : R) = { base xb with itRev := v }
  rw [h.b]

/-- both loops read a deletion -/
theorem JRel.del {n xs xb : R} {c : Change} {cs : List Change} {ds us : List BEntry} (h : JRel n xs xb ds us)
    (hcb : CB n xb (c :: cs) ds us) (hc : c.deleted = true) :
    JRel n (procD xs c) (readD xb c) (ds ++ [(c.obj, c.rev)]) us := by
  obtain ⟨p1, p2, p3, p4⟩ := procD_spec xs c
  obtain ⟨hd, hgt⟩ := hcb.ch.del c (List.mem_cons_self ..) hc
  have hfl : xs.failing = n.failing := (base_failing h.b).trans hcb.frame.failing
  have hnow : xs.now = n.now := (base_now h.b).trans hcb.frame.now
  have hcfg : xs.cfg = n.cfg := (base_cfg h.b).trans hcb.frame.cfg
  have hne : ∀ e ∈ ds, e.1.id ≠ c.obj.id := by
    intro e he hid
    obtain ⟨m1, _, m3⟩ := hcb.dsMem e he
    have hd' : (c.obj, c.rev) ∈ n.dels := by rw [← hcb.frame.dels]; exact hd
    have := hcb.ginv.tinv.del_eq (a := e) (b := (c.obj, c.rev)) (by show e ∈ xb.dels; rw [hcb.frame.dels]; exact m1) hd hid
    rw [this] at m3
    simp only at m3; omega
  refine ⟨?_, ?_, by rw [p2, h.results, (readD_frame xb c).2.2.1], ?_⟩
  · rw [p1, base_readD]; exact base_setD h.b _
  · rw [p4, h.items, List.filter_append, (readD_frame xb c).2.2.2.2.2.1, List.filter_append, List.map_append, List.append_assoc]
    congr 1
    rw [filter_map_mkItemD_ne n _ _ (fun e he => hne e (List.mem_filter.1 he).1), hfl]
    congr 1
    cases hf : n.failing.contains c.obj.id
    · simp only [hf, List.filter_cons, List.filter_nil, Bool.false_eq_true, if_false, List.map_nil]
    · simp only [hf, List.filter_cons, List.filter_nil, if_true, List.map_cons, List.map_nil, mkItemD, hnow, hcfg]
  · rw [p3, hfl, List.map_append, (readD_frame xb c).2.1]
    have h1 := (h.log.append_right [callD n.failing (c.obj, c.rev)])
    refine h1.trans ?_
    simp only [List.map_cons, List.map_nil, List.append_assoc]
    refine List.Perm.append_left _ (List.Perm.append_left _ ?_)
    exact List.perm_append_comm

/-- both loops read a changed live object that is to be processed -/
theorem JRel.upd {n xs xb : R} {c : Change} {cs : List Change} {ds us : List BEntry} (h : JRel n xs xb ds us)
    (hcb : CB n xb (c :: cs) ds us) (hc : c.deleted = false) :
    JRel n (procU xs c) (readU xb c) ds (us ++ [(c.obj, c.rev)]) := by
  have hinj : xs.injects = [] := (base_injects h.b).trans hcb.ginv.noinj
  obtain ⟨p1, p2, p3, p4⟩ := procU_spec xs c hinj
  obtain ⟨ho, _, _⟩ := hcb.ch.upd c (List.mem_cons_self ..) hc
  have hfl : xs.failing = n.failing := (base_failing h.b).trans hcb.frame.failing
  have hne : ∀ e ∈ ds, e.1.id ≠ c.obj.id := by
    intro e he hid
    obtain ⟨m1, _, _⟩ := hcb.dsMem e he
    exact hcb.ginv.tinv.disj c.obj ho e (by show e ∈ xb.dels; rw [hcb.frame.dels]; exact m1) hid.symm
  refine ⟨?_, ?_, ?_, ?_⟩
  · rw [p1, base_readU]; exact base_setU h.b _
  · rw [p4, h.items, List.filter_append, (readU_frame xb c).2.2.2.2.2.1]
    congr 1
    exact filter_map_mkItemD_ne n _ _ (fun e he => hne e (List.mem_filter.1 he).1)
  · rw [p2, h.results, (readU_frame xb c).2.2.1, hfl, List.map_append, List.append_assoc]
    rfl
  · rw [p3, hfl, List.map_append, (readU_frame xb c).2.1]
    have h1 := (h.log.append_right [callU n.failing (c.obj, c.rev)])
    refine h1.trans ?_
    simp only [List.map_cons, List.map_nil, List.append_assoc]
    exact List.Perm.refl _

/-- the two loops over the same changes stop at the same change -/
theorem JRel.consume {n : R} (cs : List Change) {xs xb : R} {ds us : List BEntry} (last : Nat)
    (h : JRel n xs xb ds us) (hcb : CB n xb cs ds us) :
    JRel n (xs.consume cs last).1 (xb.consumeB cs last ds us).1 (xb.consumeB cs last ds us).2.2.2.1 (xb.consumeB cs last ds us).2.2.2.2 ∧
    (xs.consume cs last).2.1 = (xb.consumeB cs last ds us).2.1 ∧ (xs.consume cs last).2.2 = (xb.consumeB cs last ds us).2.2.1 := by
  induction cs generalizing xs xb ds us last with
  | nil => rw [consume_nil, consumeB_nil]; exact ⟨h, rfl, rfl⟩
  | cons c cs ih =>
    cases hc : c.deleted with
    | true =>
      have h1 := h.del hcb hc
      have en := base_numReconciled h1.b
      have ec := base_cfg h1.b
      rw [consume_del _ _ _ _ hc, consumeB_del _ _ _ _ _ _ hc, en, ec]
      split
      · exact ⟨h1, rfl, rfl⟩
      · exact ih c.rev h1 (hcb.readD hc)
    | false =>
      by_cases hn : needs c.obj.kind
      · have h1 := h.upd hcb hc
        have en := base_numReconciled h1.b
        have ec := base_cfg h1.b
        rw [consume_upd _ _ _ _ hc hn, consumeB_upd _ _ _ _ _ _ hc hn, en, ec]
        split
        · exact ⟨h1, rfl, rfl⟩
        · exact ih c.rev h1 (hcb.readU hc hn)
      · rw [consume_skip _ _ _ _ hc hn, consumeB_skip _ _ _ _ _ _ hc hn]
        exact ih c.rev (h.skip c.rev) (hcb.skip hc hn)

/-! ### the batch operations in closed form -/

theorem stepD_closed (fl : List Nat) (x : R) (e : BEntry) (hclr : ∀ it ∈ x.items, it.id ≠ e.1.id) :
    base (stepD fl x e) = base x ∧
    (stepD fl x e).items = x.items ++ (if fl.contains e.1.id then [mkItemD x e] else []) ∧
    (stepD fl x e).results = x.results ∧ (stepD fl x e).log = x.log ++ [callD fl e] := by
  unfold stepD
  cases hf : fl.contains e.1.id with
  | true =>
    simp only [if_true]
    refine ⟨rfl, ?_, rfl, by simp only [retryAdd_log, callD, hf, Bool.not_true]⟩
    exact retryAdd_items_fresh { x with log := x.log ++ [⟨"D", e.1.id, e.1.data, false⟩] } e.1 e.2 hclr
  | false =>
    simp only [Bool.false_eq_true, if_false, List.append_nil]
    exact ⟨rfl, trivial, trivial, by simp only [callD, hf, Bool.not_false]⟩

theorem foldl_stepD_closed (fl : List Nat) (dl : List BEntry) (x : R)
    (hclr : ∀ e ∈ dl, ∀ it ∈ x.items, it.id ≠ e.1.id) (hids : dl.Pairwise (fun e e' => e.1.id ≠ e'.1.id)) :
    base (dl.foldl (stepD fl) x) = base x ∧
    (dl.foldl (stepD fl) x).items = x.items ++ (dl.filter (fun e => fl.contains e.1.id)).map (mkItemD x) ∧
    (dl.foldl (stepD fl) x).results = x.results ∧ (dl.foldl (stepD fl) x).log = x.log ++ dl.map (callD fl) := by
  induction dl generalizing x with
  | nil => exact ⟨rfl, by simp, rfl, by simp⟩
  | cons e dl ih =>
    rw [List.pairwise_cons] at hids
    obtain ⟨s1, s2, s3, s4⟩ := stepD_closed fl x e (hclr e (List.mem_cons_self ..))
    have hmk : mkItemD (stepD fl x e) = mkItemD x := by
      funext e'
      simp only [mkItemD, base_now s1, base_cfg s1]
    obtain ⟨a1, a2, a3, a4⟩ := ih (stepD fl x e)
      (fun e' he' it hit => by
        rw [s2] at hit
        rcases List.mem_append.1 hit with hit | hit
        · exact hclr e' (List.mem_cons_of_mem _ he') it hit
        · split at hit
          · simp only [List.mem_singleton] at hit
            rw [hit]; exact hids.1 e' he'
          · cases hit)
      hids.2
    rw [List.foldl_cons]
    refine ⟨a1.trans s1, ?_, a3.trans s3, ?_⟩
    · rw [a2, s2, hmk, List.append_assoc]
      congr 1
      cases hf : fl.contains e.1.id
      · simp only [hf, Bool.false_eq_true, if_false, List.nil_append, List.filter_cons]
      · simp only [hf, if_true, List.filter_cons, List.map_cons, List.singleton_append]
    · rw [a4, s4, List.map_cons, List.append_assoc]
      rfl

theorem stepU_closed (fl : List Nat) (x : R) (e : BEntry) (hclr : ∀ it ∈ x.items, it.id ≠ e.1.id) :
    base (stepU fl x e) = base x ∧ (stepU fl x e).items = x.items ∧
    (stepU fl x e).results = x.results ++ [mkRes fl e] ∧ (stepU fl x e).log = x.log ++ [callU fl e] := by
  unfold stepU
  cases hf : fl.contains e.1.id with
  | true =>
    simp only [if_true]
    exact ⟨rfl, trivial, by simp only [mkRes, hf], by simp only [callU, hf, Bool.not_true]⟩
  | false =>
    simp only [Bool.false_eq_true, if_false]
    refine ⟨?_, ?_, by simp only [mkRes, hf], by simp only [retryClear_log, callU, hf, Bool.not_false]⟩
    · show base (R.retryClear { x with log := x.log ++ [⟨"U", e.1.id, e.1.data, true⟩] } e.1.id) = base x
      rw [base_retryClear]; rfl
    · show (R.retryClear { x with log := x.log ++ [⟨"U", e.1.id, e.1.data, true⟩] } e.1.id).items = x.items
      rw [retryClear_items]
      exact filter_ne_self _ _ hclr

theorem foldl_stepU_closed (fl : List Nat) (ul : List BEntry) (x : R)
    (hclr : ∀ e ∈ ul, ∀ it ∈ x.items, it.id ≠ e.1.id) :
    base (ul.foldl (stepU fl) x) = base x ∧ (ul.foldl (stepU fl) x).items = x.items ∧
    (ul.foldl (stepU fl) x).results = x.results ++ ul.map (mkRes fl) ∧ (ul.foldl (stepU fl) x).log = x.log ++ ul.map (callU fl) := by
  induction ul generalizing x with
  | nil => exact ⟨rfl, rfl, by simp, by simp⟩
  | cons e ul ih =>
    obtain ⟨s1, s2, s3, s4⟩ := stepU_closed fl x e (hclr e (List.mem_cons_self ..))
    obtain ⟨a1, a2, a3, a4⟩ := ih (stepU fl x e) (fun e' he' it hit => by
      rw [s2] at hit; exact hclr e' (List.mem_cons_of_mem _ he') it hit)
    rw [List.foldl_cons]
    refine ⟨a1.trans s1, a2.trans s2, ?_, ?_⟩
    · rw [a3, s3, List.map_cons, List.append_assoc]; rfl
    · rw [a4, s4, List.map_cons, List.append_assoc]; rfl

/-- the batch operations in closed form: after the collecting loop returned `b`, `ds`,
    `us`, the operations leave `b` with the new `pending` flag, the retries of the failed
    deletions appended, the results of the updates recorded, and the calls logged:
    the Deletes of `ds` in order, then the Updates of `us` in order -/
theorem batchOps_closed {n b : R} {rest : List Change} {lst : Nat} {ds us : List BEntry} (ht : TInv n) (hinj : n.injects = [])
    (hcb : CB n b rest ds us) (pend : Option (List Change)) :
    base (batchOps (b, rest, lst, ds, us) pend) = base ({ b with pending := pend } : R) ∧
    (batchOps (b, rest, lst, ds, us) pend).items = b.items ++ (ds.filter (fun e => n.failing.contains e.1.id)).map (mkItemD n) ∧
    (batchOps (b, rest, lst, ds, us) pend).results = b.results ++ us.map (mkRes n.failing) ∧
    (batchOps (b, rest, lst, ds, us) pend).log = b.log ++ ds.map (callD n.failing) ++ us.map (callU n.failing) := by
  have hids := hcb.ds_ids ht
  unfold batchOps
  simp only
  have hxb : ∃ xb : R, xb = { b with pending := pend } := ⟨_, rfl⟩
  obtain ⟨xb, hxbe⟩ := hxb
  rw [← hxbe]
  have e_fl : xb.failing = n.failing := by rw [hxbe]; exact hcb.frame.failing
  have e_now : xb.now = n.now := by rw [hxbe]; exact hcb.frame.now
  have e_cfg : xb.cfg = n.cfg := by rw [hxbe]; exact hcb.frame.cfg
  have e_items : xb.items = b.items := by rw [hxbe]
  have e_res : xb.results = b.results := by rw [hxbe]
  have e_log : xb.log = b.log := by rw [hxbe]
  have e_inj : xb.injects = [] := by rw [hxbe]; exact hcb.frame.injects.trans hinj
  have hmk : mkItemD xb = mkItemD n := by
    funext e'
    simp only [mkItemD, e_now, e_cfg]
  rw [deleteBatch_eq]
  obtain ⟨d1, d2, d3, d4⟩ := foldl_stepD_closed xb.failing ds xb
    (fun e he it hit => hcb.clrD e he it (by rw [← e_items]; exact hit)) hids
  have hclrU : ∀ e ∈ us, ∀ it ∈ (ds.foldl (stepD xb.failing) xb).items, it.id ≠ e.1.id := by
    intro e he it hit
    rw [d2] at hit
    rcases List.mem_append.1 hit with hit | hit
    · exact hcb.clrU e he it (by rw [← e_items]; exact hit)
    · obtain ⟨e', he', rfl⟩ := List.mem_map.1 hit
      have hd' := (hcb.dsMem e' (List.mem_filter.1 he').1).1
      have ho := (hcb.usMem e he).1
      exact fun heq => ht.disj e.1 ho e' hd' heq.symm
  generalize ds.foldl (stepD xb.failing) xb = xd at d1 d2 d3 d4 hclrU
  have hinjd : xd.injects = [] := (base_injects d1).trans e_inj
  rw [updateBatch_eq _ _ hinjd]
  obtain ⟨u1, u2, u3, u4⟩ := foldl_stepU_closed xd.failing us xd hclrU
  generalize us.foldl (stepU xd.failing) xd = xu at u1 u2 u3 u4
  have hfd : xd.failing = n.failing := (base_failing d1).trans e_fl
  refine ⟨u1.trans d1, ?_, ?_, ?_⟩
  · rw [u2, d2, e_items, e_fl, hmk]
  · rw [u3, d3, e_res, hfd]
  · rw [u4, d4, e_log, e_fl, hfd]

/-- **the change phase of the two modes**: from a state `n` satisfying the
    bookkeeping invariant with the changes `cs` of `Next`, the single-mode loop and
    the batch mode (collecting loop, delete batch, update batch) stop at the same
    change and end in states that differ only in the ORDER of the calls logged and
    in the retry timer / tie ghost -/
theorem phase_sim {n : R} {cs : List Change} (h : InvL n []) (hch : ChOK n [] cs) (last : Nat) :
    (n.consume cs last).2.1 = (n.consumeB cs last [] []).2.1 ∧ (n.consume cs last).2.2 = (n.consumeB cs last [] []).2.2.1 ∧
    (n.consume cs last).1.numReconciled = (n.consumeB cs last [] []).1.numReconciled ∧
    (n.consume cs last).1.cfg = (n.consumeB cs last [] []).1.cfg ∧
    (n.consume cs last).1.pending = (n.consumeB cs last [] []).1.pending ∧
    ∀ pend, ∃ l t s, ({ (n.consume cs last).1 with pending := pend } : R) = asm (batchOps (n.consumeB cs last [] []) pend) l t s ∧
      l.Perm (batchOps (n.consumeB cs last [] []) pend).log := by
  obtain ⟨hcb, _⟩ := (CB.init h hch).consumeB cs last
  obtain ⟨hj, hrest, hlast⟩ := (JRel.init n).consume cs last (CB.init h hch)
  generalize n.consume cs last = cS at hj hrest hlast ⊢
  generalize n.consumeB cs last [] [] = cB at hcb hj hrest hlast ⊢
  obtain ⟨xs, restS, lastS⟩ := cS
  obtain ⟨b, rest, lst, ds, us⟩ := cB
  simp only at hcb hj hrest hlast ⊢
  refine ⟨hrest, hlast, base_numReconciled hj.b, base_cfg hj.b, ?_, fun pend => ?_⟩
  · have := congrArg R.pending hj.b
    exact this
  obtain ⟨c1, c2, c3, c4⟩ := batchOps_closed (lst := lst) h.tinv h.noinj hcb pend
  generalize batchOps (b, rest, lst, ds, us) pend = xu at c1 c2 c3 c4
  have hb : base ({ xs with pending := pend } : R) = base xu := by
    rw [c1]
    show ({ base xs with pending := pend } : R) = { base b with pending := pend }
    rw [hj.b]
  have hi : ({ xs with pending := pend } : R).items = xu.items := by
    show xs.items = xu.items
    rw [c2, hj.items]
  have hr : ({ xs with pending := pend } : R).results = xu.results := by
    show xs.results = xu.results
    rw [c3, hj.results]
  refine ⟨xs.log, xs.timer, xs.tieSeen, eq_asm_of_base hb hi hr, ?_⟩
  rw [c4]
  exact hj.log

/-! ## one round in the two modes -/

/-- **a single round and a batch round from the same between-round state** end in
    states that are equal up to the order of the calls logged during the round
    (a permutation) and the retry timer / tie ghost -/
theorem round_sim {r : R} (hr : RInv r) : ∃ l t s, r.round = asm r.roundB l t s ∧ l.Perm r.roundB.log := by
  have hnc : InvL r.nextChanges.1 [] ∧ r.nextChanges.1.results = [] := by
    rcases nextChanges_fst r with e | e <;> rw [e]
    · exact ⟨hr.inv, hr.res⟩
    · exact ⟨hr.inv.set_refreshedAt _ (Nat.le_refl _), hr.res⟩
  have hch := chOK_nextChanges hr.inv.tinv hr.sync
  obtain ⟨hI1, hres1⟩ := hnc
  obtain ⟨p1, p2, p3, p4, p5, p6⟩ := phase_sim hI1 hch 0
  have hI3 := (hI1.batch_phase hres1 hch 0 (pendAfter r.nextChanges.2 (r.nextChanges.1.consumeB r.nextChanges.2 0 [] []))).1
  rw [round_eq', roundB_eq']
  have hpend : (if r.nextChanges.2.isEmpty ∧ (r.nextChanges.1.consume r.nextChanges.2 0).1.pending.isNone then none else
        if ((r.nextChanges.1.consume r.nextChanges.2 0).2.1.isEmpty ∧
            (r.nextChanges.1.consume r.nextChanges.2 0).1.numReconciled < (r.nextChanges.1.consume r.nextChanges.2 0).1.cfg.roundSize) then none
        else some (r.nextChanges.1.consume r.nextChanges.2 0).2.1 : Option (List Change)) =
      pendAfter r.nextChanges.2 (r.nextChanges.1.consumeB r.nextChanges.2 0 [] []) := by
    unfold pendAfter
    rw [p1, p3, p4, p5]
  rw [hpend, p2]
  obtain ⟨l, t, s, e1, hperm⟩ := p6 (pendAfter r.nextChanges.2 (r.nextChanges.1.consumeB r.nextChanges.2 0 [] []))
  rw [e1]
  generalize batchOps (r.nextChanges.1.consumeB r.nextChanges.2 0 [] [])
    (pendAfter r.nextChanges.2 (r.nextChanges.1.consumeB r.nextChanges.2 0 [] [])) = y at hI3 hperm
  obtain ⟨Δ, t', s', a1, a2⟩ := asm_roundTail (r.nextChanges.1.consumeB r.nextChanges.2 0 [] []).2.2.1 y l t s hI3.noinj
  exact ⟨l ++ Δ, t', s', a1, by rw [a2]; exact hperm.append_right Δ⟩

/-! ### the calls of a round -/

theorem consume_log_prefix (cs : List Change) (x : R) (last : Nat) (hinj : x.injects = []) :
    ∃ L, (x.consume cs last).1.log = x.log ++ L := by
  induction cs generalizing x last with
  | nil => rw [consume_nil]; exact ⟨[], by simp⟩
  | cons c cs ih =>
    cases hc : c.deleted with
    | true =>
      obtain ⟨p1, _, p3, _⟩ := procD_spec x c
      have hi : (procD x c).injects = [] := (base_injects p1).trans hinj
      rw [consume_del _ _ _ _ hc]
      split
      · exact ⟨_, p3⟩
      · obtain ⟨L, hL⟩ := ih (procD x c) c.rev hi
        exact ⟨_, by rw [hL, p3, List.append_assoc]⟩
    | false =>
      by_cases hn : needs c.obj.kind
      · obtain ⟨p1, _, p3, _⟩ := procU_spec x c hinj
        have hi : (procU x c).injects = [] := (base_injects p1).trans hinj
        rw [consume_upd _ _ _ _ hc hn]
        split
        · exact ⟨_, p3⟩
        · obtain ⟨L, hL⟩ := ih (procU x c) c.rev hi
          exact ⟨_, by rw [hL, p3, List.append_assoc]⟩
      · rw [consume_skip _ _ _ _ hc hn]
        exact ih { x with itRev := c.rev } c.rev hinj

theorem roundTail_log_prefix (y : R) (last : Nat) (hinj : y.injects = []) : ∃ Δ, (roundTail y last).log = y.log ++ Δ := by
  obtain ⟨Δ, _, _, _, a2⟩ := asm_roundTail last y y.log y.timer y.tieSeen hinj
  exact ⟨Δ, a2⟩

theorem nextChanges_log (r : R) : r.nextChanges.1.log = r.log := by
  rcases nextChanges_fst r with e | e <;> rw [e]

/-- a single round only appends calls to the log -/
theorem round_log_prefix {r : R} (hr : RInv r) : ∃ cs, r.round.log = r.log ++ cs := by
  have hinj : r.nextChanges.1.injects = [] := by
    rcases nextChanges_fst r with e | e <;> rw [e] <;> exact hr.inv.noinj
  obtain ⟨L, hL⟩ := consume_log_prefix r.nextChanges.2 r.nextChanges.1 0 hinj
  have hinj2 : (r.nextChanges.1.consume r.nextChanges.2 0).1.injects = [] := by
    have hnc : InvL r.nextChanges.1 r.nextChanges.1.results ∧ r.nextChanges.1.results = [] := by
      rcases nextChanges_fst r with e | e <;> rw [e]
      · exact ⟨InvL.cast_results hr.res hr.inv, hr.res⟩
      · exact ⟨InvL.cast_results hr.res (hr.inv.set_refreshedAt _ (Nat.le_refl _)), hr.res⟩
    have hch := chOK_nextChanges hr.inv.tinv hr.sync
    rw [← hnc.2] at hch
    exact (hnc.1.consume r.nextChanges.2 0 hch).1.noinj
  rw [round_eq']
  have key : ∀ pend : Option (List Change), ∃ Δ,
      (roundTail ({ (r.nextChanges.1.consume r.nextChanges.2 0).1 with pending := pend } : R)
        (r.nextChanges.1.consume r.nextChanges.2 0).2.2).log = (r.nextChanges.1.consume r.nextChanges.2 0).1.log ++ Δ :=
    fun pend => roundTail_log_prefix _ _ hinj2
  obtain ⟨Δ, hΔ⟩ := key _
  exact ⟨L ++ Δ, by rw [hΔ, hL, nextChanges_log, List.append_assoc]⟩

/-- a batch round only appends calls to the log: first the Deletes of the delete
    batch, then the Updates of the update batch, then the calls of the retries -/
theorem roundB_log_prefix {r : R} (hr : RInv r) : ∃ (ds us : List BEntry) (Δ : List Call), r.roundB.log =
    r.log ++ (ds.map (callD r.failing) ++ us.map (callU r.failing) ++ Δ) := by
  have hnc : InvL r.nextChanges.1 [] ∧ r.nextChanges.1.results = [] ∧ r.nextChanges.1.failing = r.failing := by
    rcases nextChanges_fst r with e | e <;> rw [e]
    · exact ⟨hr.inv, hr.res, rfl⟩
    · exact ⟨hr.inv.set_refreshedAt _ (Nat.le_refl _), hr.res, rfl⟩
  have hch := chOK_nextChanges hr.inv.tinv hr.sync
  obtain ⟨hI1, hres1, hf1⟩ := hnc
  obtain ⟨hcb, _⟩ := (CB.init hI1 hch).consumeB r.nextChanges.2 0
  have hI3 := (hI1.batch_phase hres1 hch 0 (pendAfter r.nextChanges.2 (r.nextChanges.1.consumeB r.nextChanges.2 0 [] []))).1
  rw [roundB_eq']
  generalize hco : r.nextChanges.1.consumeB r.nextChanges.2 0 [] [] = co at hcb hI3 ⊢
  obtain ⟨b, rest, lst, ds, us⟩ := co
  simp only at hcb
  obtain ⟨_, _, _, c4⟩ := batchOps_closed (lst := lst) hI1.tinv hI1.noinj hcb (pendAfter r.nextChanges.2 (b, rest, lst, ds, us))
  obtain ⟨Δ, hΔ⟩ := roundTail_log_prefix _ lst hI3.noinj
  refine ⟨ds, us, Δ, ?_⟩
  show (roundTail (batchOps (b, rest, lst, ds, us) (pendAfter r.nextChanges.2 (b, rest, lst, ds, us))) lst).log = _
  rw [hΔ, c4, hcb.log, nextChanges_log, hf1]
  simp only [List.append_assoc]

/-- **the calls of the round**: both rounds append to the log; the calls appended by
    the single round are a permutation of those appended by the batch round -/
theorem round_calls_perm {r : R} (hr : RInv r) :
    ∃ cs cb, r.round.log = r.log ++ cs ∧ r.roundB.log = r.log ++ cb ∧ cs.Perm cb := by
  obtain ⟨cs, hcs⟩ := round_log_prefix hr
  obtain ⟨ds, us, Δ, hcb⟩ := roundB_log_prefix hr
  obtain ⟨l, t, s, e, hp⟩ := round_sim hr
  refine ⟨cs, _, hcs, hcb, ?_⟩
  have : r.round.log = l := by rw [e]; rfl
  rw [← this, hcs, hcb] at hp
  exact (List.perm_append_left_iff _).1 hp

/-! ### the loop wakes up alike -/

/-- under the timer invariant the loop is woken exactly by undelivered changes or a due retry -/
theorem QInv.triggered_iff {P : Nat → Prop} {r : R} (h : QInv P r) :
    r.triggered = true ↔ (r.pending.isSome = true ∨ r.refreshedAt ≠ r.tableRev ∨ ∃ h0, r.head = some h0 ∧ h0.retryAt ≤ r.now) := by
  unfold R.triggered
  simp only [Bool.or_eq_true, bne_iff_ne, ne_eq, or_assoc]
  refine or_congr Iff.rfl (or_congr Iff.rfl ?_)
  cases hh : r.head with
  | none =>
    rcases h.tmNone hh with e | e <;> rw [e] <;> simp
  | some h0 =>
    rcases h.tmSome h0 hh with e | ⟨e, hdue⟩
    · rw [e]; simp
    · rw [e]; simp [hdue]

theorem triggered_asm {P Q : Nat → Prop} {y : R} {l : List Call} {t : Timer} {s : Bool}
    (hx : QInv P (asm y l t s)) (hy : QInv Q y) : (asm y l t s).triggered = y.triggered := by
  rw [Bool.eq_iff_iff, hx.triggered_iff, hy.triggered_iff]
  rfl

end Sdb.Rec
