import SdbModel.Model.Reconciler

/-!
  Lemmas.Reconciler — the invariant of the reconciler model (`Model.Reconciler`)
  used by C14: definitions (`lastCall`, `TInv`, `Inv`, …), lemmas about the
  minimal table (`setObj`, `delObj`) and about the retry primitives.
-/
namespace Sdb.Rec

/-! ## generic list facts -/

theorem pairwise_mem_eq {α} {R : α → α → Prop} {l : List α} (h : l.Pairwise R) {a b : α}
    (ha : a ∈ l) (hb : b ∈ l) : a = b ∨ R a b ∨ R b a := by
  induction l with
  | nil => simp at ha
  | cons x xs ih =>
    rw [List.pairwise_cons] at h
    simp only [List.mem_cons] at ha hb
    rcases ha with rfl | ha <;> rcases hb with rfl | hb
    · exact Or.inl rfl
    · exact Or.inr (Or.inl (h.1 _ hb))
    · exact Or.inr (Or.inr (h.1 _ ha))
    · exact ih h.2 ha hb

/-! ## definitions -/

/-- the last call logged for `id` -/
def lastCall (log : List Call) (id : Nat) : Option Call := (log.filter (·.id = id)).getLast?

theorem lastCall_append_other (log : List Call) (c : Call) (id : Nat) (h : c.id ≠ id) :
    lastCall (log ++ [c]) id = lastCall log id := by
  unfold lastCall; simp [List.filter_append, h]

theorem lastCall_append_self (log : List Call) (c : Call) : lastCall (log ++ [c]) c.id = some c := by
  unfold lastCall; simp [List.filter_append]

/-- the status kinds the incremental loop processes -/
def needs (k : SKind) : Prop := k = .pending ∨ k = .refreshing

instance (k : SKind) : Decidable (needs k) := by unfold needs; infer_instance

/-- well-formedness of the minimal table and the iterator positions -/
structure TInv (r : R) : Prop where
  objs_pw : r.objs.Pairwise (fun a b => a.id ≠ b.id ∧ a.rev ≠ b.rev)
  dels_pw : r.dels.Pairwise (fun a b => a.1.id ≠ b.1.id ∧ a.2 ≠ b.2)
  disj : ∀ o ∈ r.objs, ∀ d ∈ r.dels, o.id ≠ d.1.id
  objs_le : ∀ o ∈ r.objs, o.rev ≤ r.tableRev
  dels_le : ∀ d ∈ r.dels, d.2 ≤ r.tableRev
  it_le : r.itRev ≤ r.tableRev
  itd_le : r.itDelRev ≤ r.tableRev
  ref_le : r.refreshedAt ≤ r.tableRev

theorem TInv.obj_eq {r : R} (h : TInv r) {a b : RObj} (ha : a ∈ r.objs) (hb : b ∈ r.objs) (hid : a.id = b.id) : a = b := by
  rcases pairwise_mem_eq h.objs_pw ha hb with h | h | h
  · exact h
  · exact absurd hid h.1
  · exact absurd hid.symm h.1

theorem TInv.del_eq {r : R} (h : TInv r) {a b : RObj × Nat} (ha : a ∈ r.dels) (hb : b ∈ r.dels) (hid : a.1.id = b.1.id) : a = b := by
  rcases pairwise_mem_eq h.dels_pw ha hb with h | h | h
  · exact h
  · exact absurd hid h.1
  · exact absurd hid.symm h.1

theorem get_eq_some_iff {r : R} (h : TInv r) (id : Nat) (o : RObj) : r.get id = some o ↔ o ∈ r.objs ∧ o.id = id := by
  unfold R.get
  constructor
  · intro hf
    exact ⟨List.mem_of_find?_eq_some hf, by simpa using List.find?_some hf⟩
  · rintro ⟨hm, hid⟩
    cases hf : r.objs.find? (fun x => decide (x.id = id)) with
    | none =>
      rw [List.find?_eq_none] at hf
      exact absurd (by simpa using hid) (hf o hm)
    | some o' =>
      have hm' := List.mem_of_find?_eq_some hf
      have hid' : o'.id = id := by simpa using List.find?_some hf
      rw [h.obj_eq hm' hm (by omega)]

theorem get_eq_none_iff (r : R) (id : Nat) : r.get id = none ↔ ∀ o ∈ r.objs, o.id ≠ id := by
  unfold R.get
  rw [List.find?_eq_none]
  simp

/-! ## the minimal table -/

theorem mem_setObj_objs (r : R) (o x : RObj) :
    x ∈ (r.setObj o).objs ↔ (x ∈ r.objs ∧ x.id ≠ o.id) ∨ x = { o with rev := r.tableRev + 1 } := by
  unfold R.setObj
  simp only
  split
  · rename_i hany
    rw [List.any_eq_true] at hany
    obtain ⟨y, hy, hyid⟩ := hany
    simp only [decide_eq_true_eq] at hyid
    simp only [List.mem_map]
    constructor
    · rintro ⟨z, hz, rfl⟩
      by_cases hzid : z.id = o.id
      · simp [hzid]
      · simp [hzid, hz]
    · rintro (⟨hx, hxid⟩ | rfl)
      · exact ⟨x, hx, by simp [hxid]⟩
      · exact ⟨y, hy, by simp [hyid]⟩
  · rename_i hany
    simp only [Bool.not_eq_true, List.any_eq_false, decide_eq_true_eq] at hany
    simp only [List.mem_append, List.mem_singleton]
    constructor
    · rintro (hx | rfl)
      · exact Or.inl ⟨hx, hany x hx⟩
      · exact Or.inr rfl
    · rintro (⟨hx, _⟩ | rfl)
      · exact Or.inl hx
      · exact Or.inr rfl

@[simp] theorem setObj_dels (r : R) (o : RObj) : (r.setObj o).dels = r.dels.filter (·.1.id ≠ o.id) := rfl
@[simp] theorem setObj_tableRev (r : R) (o : RObj) : (r.setObj o).tableRev = r.tableRev + 1 := rfl
@[simp] theorem setObj_items (r : R) (o : RObj) : (r.setObj o).items = r.items := rfl
@[simp] theorem setObj_log (r : R) (o : RObj) : (r.setObj o).log = r.log := rfl
@[simp] theorem setObj_results (r : R) (o : RObj) : (r.setObj o).results = r.results := rfl
@[simp] theorem setObj_itRev (r : R) (o : RObj) : (r.setObj o).itRev = r.itRev := rfl
@[simp] theorem setObj_itDelRev (r : R) (o : RObj) : (r.setObj o).itDelRev = r.itDelRev := rfl
@[simp] theorem setObj_refreshedAt (r : R) (o : RObj) : (r.setObj o).refreshedAt = r.refreshedAt := rfl
@[simp] theorem setObj_injects (r : R) (o : RObj) : (r.setObj o).injects = r.injects := rfl
@[simp] theorem setObj_pending (r : R) (o : RObj) : (r.setObj o).pending = r.pending := rfl
@[simp] theorem setObj_now (r : R) (o : RObj) : (r.setObj o).now = r.now := rfl
@[simp] theorem setObj_cfg (r : R) (o : RObj) : (r.setObj o).cfg = r.cfg := rfl
@[simp] theorem setObj_failing (r : R) (o : RObj) : (r.setObj o).failing = r.failing := rfl
@[simp] theorem setObj_timer (r : R) (o : RObj) : (r.setObj o).timer = r.timer := rfl
@[simp] theorem setObj_numReconciled (r : R) (o : RObj) : (r.setObj o).numReconciled = r.numReconciled := rfl

theorem TInv.setObj {r : R} (h : TInv r) (o : RObj) : TInv (r.setObj o) := by
  have hfresh : ∀ x ∈ r.objs, x.rev ≠ r.tableRev + 1 := fun x hx => by have := h.objs_le x hx; omega
  refine ⟨?_, ?_, ?_, ?_, ?_, ?_, ?_, ?_⟩
  · unfold R.setObj
    simp only
    split
    · rw [List.pairwise_map]
      refine List.Pairwise.imp_of_mem ?_ h.objs_pw
      intro a b ha hb hab
      have := hfresh a ha; have := hfresh b hb
      by_cases h1 : a.id = o.id <;> by_cases h2 : b.id = o.id <;> simp [h1, h2] <;> grind
    · rename_i hany
      simp only [Bool.not_eq_true, List.any_eq_false, decide_eq_true_eq] at hany
      rw [List.pairwise_append]
      refine ⟨h.objs_pw, by simp, ?_⟩
      intro a ha b hb
      simp only [List.mem_singleton] at hb
      subst hb
      exact ⟨hany a ha, hfresh a ha⟩
  · simp only [setObj_dels]
    exact h.dels_pw.filter _
  · intro x hx d hd
    simp only [setObj_dels, List.mem_filter, decide_eq_true_eq] at hd
    rw [mem_setObj_objs] at hx
    rcases hx with ⟨hx, _⟩ | rfl
    · exact h.disj x hx d hd.1
    · exact fun e => hd.2 e.symm
  · intro x hx
    rw [mem_setObj_objs] at hx
    simp only [setObj_tableRev]
    rcases hx with ⟨hx, _⟩ | rfl
    · have := h.objs_le x hx; omega
    · simp
  · intro d hd
    simp only [setObj_dels, List.mem_filter] at hd
    have := h.dels_le d hd.1
    simp only [setObj_tableRev]; omega
  · have := h.it_le; simp only [setObj_itRev, setObj_tableRev]; omega
  · have := h.itd_le; simp only [setObj_itDelRev, setObj_tableRev]; omega
  · have := h.ref_le; simp only [setObj_refreshedAt, setObj_tableRev]; omega

/-- `delObj` on a present object -/
theorem delObj_of_get {r : R} {id : Nat} {o : RObj} (h : r.get id = some o) :
    r.delObj id = { r with objs := r.objs.filter (·.id ≠ id), tableRev := r.tableRev + 1,
                           dels := r.dels ++ [({ o with rev := r.tableRev + 1 }, r.tableRev + 1)] } := by
  unfold R.delObj; rw [h]

theorem delObj_of_none {r : R} {id : Nat} (h : r.get id = none) : r.delObj id = r := by
  unfold R.delObj; rw [h]

theorem TInv.delObj {r : R} (h : TInv r) (id : Nat) : TInv (r.delObj id) := by
  cases hg : r.get id with
  | none => rw [delObj_of_none hg]; exact h
  | some o =>
    rw [delObj_of_get hg]
    rw [get_eq_some_iff h] at hg
    refine ⟨?_, ?_, ?_, ?_, ?_, ?_, ?_, ?_⟩
    · exact h.objs_pw.filter _
    · simp only
      rw [List.pairwise_append]
      refine ⟨h.dels_pw, by simp, ?_⟩
      intro a ha b hb
      simp only [List.mem_singleton] at hb
      subst hb
      have := h.dels_le a ha
      refine ⟨?_, by simp only; omega⟩
      intro e
      exact h.disj o hg.1 a ha e.symm
    · intro x hx d hd
      simp only [List.mem_filter, decide_eq_true_eq] at hx
      simp only [List.mem_append, List.mem_singleton] at hd
      rcases hd with hd | rfl
      · exact h.disj x hx.1 d hd
      · simp only; rw [hg.2]; exact hx.2
    · intro x hx
      simp only [List.mem_filter] at hx
      have := h.objs_le x hx.1
      simp only; omega
    · intro d hd
      simp only [List.mem_append, List.mem_singleton] at hd
      rcases hd with hd | rfl
      · have := h.dels_le d hd; simp only; omega
      · simp
    · have := h.it_le; simp only; omega
    · have := h.itd_le; simp only; omega
    · have := h.ref_le; simp only; omega

/-! ## frame lemmas of the retry primitives -/

@[simp] theorem retryClear_cfg (r : R) (id : Nat) : (r.retryClear id).cfg = r.cfg := by unfold R.retryClear; split <;> rfl
@[simp] theorem retryAdd_cfg (r : R) (o : RObj) (a b : Nat) (d : Bool) : (r.retryAdd o a b d).cfg = r.cfg := rfl
@[simp] theorem retryPop_cfg (r : R) : r.retryPop.cfg = r.cfg := by unfold R.retryPop; split <;> rfl
@[simp] theorem retryClear_objs (r : R) (id : Nat) : (r.retryClear id).objs = r.objs := by unfold R.retryClear; split <;> rfl
@[simp] theorem retryAdd_objs (r : R) (o : RObj) (a b : Nat) (d : Bool) : (r.retryAdd o a b d).objs = r.objs := rfl
@[simp] theorem retryPop_objs (r : R) : r.retryPop.objs = r.objs := by unfold R.retryPop; split <;> rfl
@[simp] theorem retryClear_tableRev (r : R) (id : Nat) : (r.retryClear id).tableRev = r.tableRev := by unfold R.retryClear; split <;> rfl
@[simp] theorem retryAdd_tableRev (r : R) (o : RObj) (a b : Nat) (d : Bool) : (r.retryAdd o a b d).tableRev = r.tableRev := rfl
@[simp] theorem retryPop_tableRev (r : R) : r.retryPop.tableRev = r.tableRev := by unfold R.retryPop; split <;> rfl
@[simp] theorem retryClear_dels (r : R) (id : Nat) : (r.retryClear id).dels = r.dels := by unfold R.retryClear; split <;> rfl
@[simp] theorem retryAdd_dels (r : R) (o : RObj) (a b : Nat) (d : Bool) : (r.retryAdd o a b d).dels = r.dels := rfl
@[simp] theorem retryPop_dels (r : R) : r.retryPop.dels = r.dels := by unfold R.retryPop; split <;> rfl
@[simp] theorem retryClear_itRev (r : R) (id : Nat) : (r.retryClear id).itRev = r.itRev := by unfold R.retryClear; split <;> rfl
@[simp] theorem retryAdd_itRev (r : R) (o : RObj) (a b : Nat) (d : Bool) : (r.retryAdd o a b d).itRev = r.itRev := rfl
@[simp] theorem retryPop_itRev (r : R) : r.retryPop.itRev = r.itRev := by unfold R.retryPop; split <;> rfl
@[simp] theorem retryClear_itDelRev (r : R) (id : Nat) : (r.retryClear id).itDelRev = r.itDelRev := by unfold R.retryClear; split <;> rfl
@[simp] theorem retryAdd_itDelRev (r : R) (o : RObj) (a b : Nat) (d : Bool) : (r.retryAdd o a b d).itDelRev = r.itDelRev := rfl
@[simp] theorem retryPop_itDelRev (r : R) : r.retryPop.itDelRev = r.itDelRev := by unfold R.retryPop; split <;> rfl
@[simp] theorem retryClear_pending (r : R) (id : Nat) : (r.retryClear id).pending = r.pending := by unfold R.retryClear; split <;> rfl
@[simp] theorem retryAdd_pending (r : R) (o : RObj) (a b : Nat) (d : Bool) : (r.retryAdd o a b d).pending = r.pending := rfl
@[simp] theorem retryPop_pending (r : R) : r.retryPop.pending = r.pending := by unfold R.retryPop; split <;> rfl
@[simp] theorem retryClear_refreshedAt (r : R) (id : Nat) : (r.retryClear id).refreshedAt = r.refreshedAt := by unfold R.retryClear; split <;> rfl
@[simp] theorem retryAdd_refreshedAt (r : R) (o : RObj) (a b : Nat) (d : Bool) : (r.retryAdd o a b d).refreshedAt = r.refreshedAt := rfl
@[simp] theorem retryPop_refreshedAt (r : R) : r.retryPop.refreshedAt = r.refreshedAt := by unfold R.retryPop; split <;> rfl
@[simp] theorem retryClear_now (r : R) (id : Nat) : (r.retryClear id).now = r.now := by unfold R.retryClear; split <;> rfl
@[simp] theorem retryAdd_now (r : R) (o : RObj) (a b : Nat) (d : Bool) : (r.retryAdd o a b d).now = r.now := rfl
@[simp] theorem retryPop_now (r : R) : r.retryPop.now = r.now := by unfold R.retryPop; split <;> rfl
@[simp] theorem retryClear_failing (r : R) (id : Nat) : (r.retryClear id).failing = r.failing := by unfold R.retryClear; split <;> rfl
@[simp] theorem retryAdd_failing (r : R) (o : RObj) (a b : Nat) (d : Bool) : (r.retryAdd o a b d).failing = r.failing := rfl
@[simp] theorem retryPop_failing (r : R) : r.retryPop.failing = r.failing := by unfold R.retryPop; split <;> rfl
@[simp] theorem retryClear_injects (r : R) (id : Nat) : (r.retryClear id).injects = r.injects := by unfold R.retryClear; split <;> rfl
@[simp] theorem retryAdd_injects (r : R) (o : RObj) (a b : Nat) (d : Bool) : (r.retryAdd o a b d).injects = r.injects := rfl
@[simp] theorem retryPop_injects (r : R) : r.retryPop.injects = r.injects := by unfold R.retryPop; split <;> rfl
@[simp] theorem retryClear_log (r : R) (id : Nat) : (r.retryClear id).log = r.log := by unfold R.retryClear; split <;> rfl
@[simp] theorem retryAdd_log (r : R) (o : RObj) (a b : Nat) (d : Bool) : (r.retryAdd o a b d).log = r.log := rfl
@[simp] theorem retryPop_log (r : R) : r.retryPop.log = r.log := by unfold R.retryPop; split <;> rfl
@[simp] theorem retryClear_nextSid (r : R) (id : Nat) : (r.retryClear id).nextSid = r.nextSid := by unfold R.retryClear; split <;> rfl
@[simp] theorem retryAdd_nextSid (r : R) (o : RObj) (a b : Nat) (d : Bool) : (r.retryAdd o a b d).nextSid = r.nextSid := rfl
@[simp] theorem retryPop_nextSid (r : R) : r.retryPop.nextSid = r.nextSid := by unfold R.retryPop; split <;> rfl
@[simp] theorem retryClear_progressRev (r : R) (id : Nat) : (r.retryClear id).progressRev = r.progressRev := by unfold R.retryClear; split <;> rfl
@[simp] theorem retryAdd_progressRev (r : R) (o : RObj) (a b : Nat) (d : Bool) : (r.retryAdd o a b d).progressRev = r.progressRev := rfl
@[simp] theorem retryPop_progressRev (r : R) : r.retryPop.progressRev = r.progressRev := by unfold R.retryPop; split <;> rfl
@[simp] theorem retryClear_progressLW (r : R) (id : Nat) : (r.retryClear id).progressLW = r.progressLW := by unfold R.retryClear; split <;> rfl
@[simp] theorem retryAdd_progressLW (r : R) (o : RObj) (a b : Nat) (d : Bool) : (r.retryAdd o a b d).progressLW = r.progressLW := rfl
@[simp] theorem retryPop_progressLW (r : R) : r.retryPop.progressLW = r.progressLW := by unfold R.retryPop; split <;> rfl
@[simp] theorem retryClear_results (r : R) (id : Nat) : (r.retryClear id).results = r.results := by unfold R.retryClear; split <;> rfl
@[simp] theorem retryAdd_results (r : R) (o : RObj) (a b : Nat) (d : Bool) : (r.retryAdd o a b d).results = r.results := rfl
@[simp] theorem retryPop_results (r : R) : r.retryPop.results = r.results := by unfold R.retryPop; split <;> rfl
@[simp] theorem retryClear_numReconciled (r : R) (id : Nat) : (r.retryClear id).numReconciled = r.numReconciled := by unfold R.retryClear; split <;> rfl
@[simp] theorem retryAdd_numReconciled (r : R) (o : RObj) (a b : Nat) (d : Bool) : (r.retryAdd o a b d).numReconciled = r.numReconciled := rfl
@[simp] theorem retryPop_numReconciled (r : R) : r.retryPop.numReconciled = r.numReconciled := by unfold R.retryPop; split <;> rfl

theorem retryClear_items (r : R) (id : Nat) : (r.retryClear id).items = r.items.filter (·.id ≠ id) := by
  unfold R.retryClear
  split
  · rename_i h
    rw [List.find?_eq_none] at h
    symm
    rw [List.filter_eq_self]
    intro a ha
    have := h a ha
    simpa using this
  · rfl

theorem retryAdd_items (r : R) (o : RObj) (a b : Nat) (d : Bool) :
    ∃ n, (r.retryAdd o a b d).items = r.items.filter (·.id ≠ o.id) ++
      [{ id := o.id, obj := o, rev := a,
         origRev := (match r.items.find? (·.id = o.id) with | some i => i.origRev | none => b),
         delete := d, retryAt := r.now + backoff r.cfg.minB r.cfg.maxB n,
         numRetries := n, inQueue := true, inRevQueue := true }] := ⟨_, rfl⟩

theorem retryPop_items (r : R) (h : Item) (hh : r.head = some h) :
    r.retryPop.items = r.items.map fun (i : Item) => if i.id = h.id then { i with inQueue := false } else i := by
  unfold R.retryPop; rw [hh]

end Sdb.Rec
