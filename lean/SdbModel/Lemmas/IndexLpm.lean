import SdbModel.Lemmas.IndexBase
import SdbModel.Props.C13
/-!
  C04, LPM part: the two longest-prefix-match indexes of the table model (`lpm`, non-unique, and
  `ulpm`, unique) agree with the primary index.

  * `LKeyOk`: the documented precondition of `EncodeLPMKey` (enough data bytes for the prefix length).
  * `LInv unique keys primary ix`: the trie is well formed, every bucket is non-empty and strictly
    ascending in the primary key, and the pairs (index key, primary key, object) stored in the trie
    are exactly those given by the live objects and their (normalised) keys; for a unique index no
    key is shared by two live objects.
  * `LInv.reindex_modify`, `LInv.reindex_delete`: preservation by the two `reindexLpm` calls that
    `modify` / `delete` make.
  Core Lean only.
-/
namespace Sdb.Tbl
open OMap Lpm

/-! ### key validity -/

/-- the precondition of `EncodeLPMKey(data, plen)`: bytes, and enough of them for `plen` bits -/
def LKeyOk (k : Key × Nat) : Prop := (∀ b ∈ k.1, b < 256) ∧ (k.2 + 7) / 8 ≤ k.1.length

theorem LKeyOk.canon {k : Key × Nat} (h : LKeyOk k) : Canon (normKey k).1 (normKey k).2 :=
  canon_maskData k.1 k.2 h.1 h.2

/-- normalising a key twice is normalising once (valid keys) -/
theorem normKey_idem {k : Key × Nat} (h : LKeyOk k) : normKey (normKey k) = normKey k := by
  have := maskData_canon _ _ h.canon
  unfold normKey at this ⊢
  simp only at this ⊢
  rw [this]

/-- a normalised valid key is itself valid -/
theorem LKeyOk.norm {k : Key × Nat} (h : LKeyOk k) : LKeyOk (normKey k) := by
  have c := h.canon
  exact ⟨c.bytes, by rw [c.len]; exact Nat.le_refl _⟩

/-- the keys of the unique LPM index of the model are always valid -/
theorem upKey_ok (o : Obj) : ∀ k ∈ o.upKey, LKeyOk k := by
  intro k hk
  unfold Obj.upKey at hk
  split at hk
  · simp only [List.mem_singleton] at hk
    subst hk
    refine ⟨?_, by simp⟩
    intro b hb
    simp only [List.mem_cons, List.not_mem_nil, or_false] at hb
    rcases hb with rfl | rfl <;> exact Nat.mod_lt _ (by decide)
  · simp at hk

/-- the keys of the unique LPM index of the model are already normalised (two bytes, 16 bits) -/
theorem upKey_normKey (o : Obj) : o.upKey.map normKey = o.upKey := by
  unfold Obj.upKey
  split
  · simp only [List.map_cons, List.map_nil, List.cons.injEq, and_true]
    have hc : Canon [o.ord / 256 % 256, o.ord % 256] 16 := by
      refine ⟨by simp, ?_, ?_⟩
      · intro b hb
        simp only [List.mem_cons, List.not_mem_nil, or_false] at hb
        rcases hb with rfl | rfl <;> exact Nat.mod_lt _ (by decide)
      · intro i hi
        exact getBitAt_oob _ _ (by simp; omega)
    unfold normKey
    simp only [maskData_canon _ _ hc]
  · rfl

/-- two objects share a unique-LPM key iff both have one and their ordinals agree modulo 2^16 -/
theorem upKey_shared_iff (a b : Obj) :
    (∃ k, k ∈ a.upKey.map normKey ∧ k ∈ b.upKey.map normKey) ↔
      a.up = true ∧ b.up = true ∧ a.ord % 65536 = b.ord % 65536 := by
  rw [upKey_normKey, upKey_normKey]
  unfold Obj.upKey
  cases ha : a.up <;> cases hb : b.up <;> simp
  omega

/-! ### buckets (`lpmEntry`) -/

/-- `lpmEntry.upsert` is insertion into the association list ordered by the primary key -/
theorem entryUpsert_eq_insert (e : LpmEntry) (pk : Key) (o : Obj) : entryUpsert e pk o = OMap.insert e pk o := by
  induction e with
  | nil => rfl
  | cons a r ih =>
    obtain ⟨k, v⟩ := a
    unfold entryUpsert OMap.insert
    rw [cmpL_swap k pk]
    cases h : cmpL k pk <;> simp [Ordering.swap, ih]

theorem entryUpsert_sorted (e : LpmEntry) (hs : Sorted e) (pk : Key) (o : Obj) : Sorted (entryUpsert e pk o) := by
  rw [entryUpsert_eq_insert]; exact sorted_insert e hs pk o

theorem entryUpsert_ne_nil (e : LpmEntry) (pk : Key) (o : Obj) : entryUpsert e pk o ≠ [] := by
  cases e with
  | nil => simp [entryUpsert]
  | cons a r =>
    obtain ⟨k, v⟩ := a
    unfold entryUpsert
    split <;> simp

theorem mem_entryUpsert (e : LpmEntry) (hs : Sorted e) (pk : Key) (o : Obj) (pk' : Key) (x : Obj) :
    (pk', x) ∈ entryUpsert e pk o ↔ (pk' = pk ∧ x = o) ∨ (pk' ≠ pk ∧ (pk', x) ∈ e) := by
  rw [entryUpsert_eq_insert]; exact mem_insert_iff e hs pk o pk' x

theorem mem_entryDelete (e : LpmEntry) (pk pk' : Key) (x : Obj) :
    (pk', x) ∈ entryDelete e pk ↔ pk' ≠ pk ∧ (pk', x) ∈ e := by
  unfold entryDelete
  rw [List.mem_filter]
  simp only [bne_iff_ne, ne_eq]
  exact And.comm

theorem entryDelete_sorted (e : LpmEntry) (hs : Sorted e) (pk : Key) : Sorted (entryDelete e pk) :=
  sorted_filter e hs _

/-- the filter removed nothing: no entry has the primary key -/
theorem entryDelete_length_eq (e : LpmEntry) (pk : Key) (h : (entryDelete e pk).length = e.length) :
    ∀ x, (pk, x) ∉ e := by
  intro x hx
  unfold entryDelete at h
  have := List.length_filter_eq_length_iff.mp h (pk, x) hx
  simp at this

/-! ### the contents of an LPM index -/

/-- the index stores object `x` with primary key `pk` under the index key `(d, p)` -/
def LHolds (ix : LpmIdx) (d : Key) (p : Nat) (pk : Key) (x : Obj) : Prop :=
  ∃ e, (d, p, e) ∈ preorder ix.t ∧ (pk, x) ∈ e

/-- shape of the trie and of its buckets -/
structure LGood (ix : LpmIdx) : Prop where
  wf : WF ix.t
  sortedE : ∀ d p e, (d, p, e) ∈ preorder ix.t → Sorted e
  nonempty : ∀ d p e, (d, p, e) ∈ preorder ix.t → e ≠ []

theorem LGood.empty : LGood {} := ⟨trivial, by simp [preorder], by simp [preorder]⟩

theorem LHolds.canon {ix : LpmIdx} (g : LGood ix) {d : Key} {p : Nat} {pk : Key} {x : Obj}
    (h : LHolds ix d p pk x) : Canon d p := by
  obtain ⟨e, he, _⟩ := h
  exact mem_canon g.wf he

/-- `LHolds` through `lookupExact` -/
theorem LHolds_iff_lookup {ix : LpmIdx} (g : LGood ix) {d : Key} {p : Nat} (hc : Canon d p) (pk : Key) (x : Obj) :
    LHolds ix d p pk x ↔ (pk, x) ∈ (lookupExact d p ix.t 0).getD [] := by
  constructor
  · rintro ⟨e, he, hm⟩
    rw [(C13_lookupExact_iff_stored ix.t g.wf d p hc e).mpr he]
    exact hm
  · intro h
    cases hl : lookupExact d p ix.t 0 with
    | none => rw [hl] at h; simp at h
    | some e =>
      rw [hl] at h
      exact ⟨e, (C13_lookupExact_iff_stored ix.t g.wf d p hc e).mp hl, h⟩

theorem lookup_getD_sorted {ix : LpmIdx} (g : LGood ix) {d : Key} {p : Nat} (hc : Canon d p) :
    Sorted ((lookupExact d p ix.t 0).getD []) := by
  cases hl : lookupExact d p ix.t 0 with
  | none => exact sorted_nil
  | some e => exact g.sortedE d p e ((C13_lookupExact_iff_stored ix.t g.wf d p hc e).mp hl)

/-- storing a sorted non-empty bucket under a canonical key -/
theorem ins_branch {ix : LpmIdx} (g : LGood ix) {d : Key} {l : Nat} (hc : Canon d l) (e' : LpmEntry)
    (hs : Sorted e') (hne : e' ≠ []) :
    LGood { t := (Lpm.insert d l e' ix.t 0).1 } ∧
    ∀ d' p' pk' x, LHolds { t := (Lpm.insert d l e' ix.t 0).1 } d' p' pk' x ↔
      ((d' = d ∧ p' = l) ∧ (pk', x) ∈ e') ∨ (¬ (d' = d ∧ p' = l) ∧ LHolds ix d' p' pk' x) := by
  have hmem := C13_insert_entries ix.t g.wf d l hc e'
  refine ⟨⟨C13_insert_preserves_wf ix.t g.wf d l hc e', ?_, ?_⟩, ?_⟩
  · intro d' p' e he
    rcases (hmem d' p' e).mp he with ⟨_, _, rfl⟩ | ⟨_, h⟩
    · exact hs
    · exact g.sortedE d' p' e h
  · intro d' p' e he
    rcases (hmem d' p' e).mp he with ⟨_, _, rfl⟩ | ⟨_, h⟩
    · exact hne
    · exact g.nonempty d' p' e h
  · intro d' p' pk' x
    constructor
    · rintro ⟨e, he, hm⟩
      rcases (hmem d' p' e).mp he with ⟨h1, h2, rfl⟩ | ⟨h1, h⟩
      · exact Or.inl ⟨⟨h1, h2⟩, hm⟩
      · exact Or.inr ⟨h1, e, h, hm⟩
    · rintro (⟨⟨h1, h2⟩, hm⟩ | ⟨h1, e, he, hm⟩)
      · exact ⟨e', (hmem d' p' e').mpr (Or.inl ⟨h1, h2, rfl⟩), hm⟩
      · exact ⟨e, (hmem d' p' e).mpr (Or.inr ⟨h1, he⟩), hm⟩

/-- deleting a stored canonical key -/
theorem del_branch {ix : LpmIdx} (g : LGood ix) {d : Key} {l : Nat} (hc : Canon d l) (e : LpmEntry)
    (he : lookupExact d l ix.t 0 = some e) :
    LGood { t := ((deleteRoot d l ix.t).map (·.1)).getD ix.t } ∧
    ∀ d' p' pk' x, LHolds { t := ((deleteRoot d l ix.t).map (·.1)).getD ix.t } d' p' pk' x ↔
      ¬ (d' = d ∧ p' = l) ∧ LHolds ix d' p' pk' x := by
  cases hd : deleteRoot d l ix.t with
  | none =>
    rw [(C13_delete_absent ix.t g.wf d l hc).mp hd] at he
    simp at he
  | some r =>
    obtain ⟨t', v⟩ := r
    simp only [Option.map_some, Option.getD_some]
    have hpre := (C13_delete_present ix.t g.wf d l hc t' v hd).2.1
    have hmem : ∀ d' p' e', (d', p', e') ∈ preorder t' ↔ ¬ (d' = d ∧ p' = l) ∧ (d', p', e') ∈ preorder ix.t := by
      intro d' p' e'
      rw [hpre, List.mem_filter]
      simp only [Bool.not_eq_eq_eq_not, Bool.not_true, decide_eq_false_iff_not]
      exact And.comm
    refine ⟨⟨C13_delete_preserves_wf ix.t g.wf d l hc t' v hd, ?_, ?_⟩, ?_⟩
    · intro d' p' e' h; exact g.sortedE d' p' e' ((hmem d' p' e').mp h).2
    · intro d' p' e' h; exact g.nonempty d' p' e' ((hmem d' p' e').mp h).2
    · intro d' p' pk' x
      constructor
      · rintro ⟨e', h, hm⟩
        exact ⟨((hmem d' p' e').mp h).1, e', ((hmem d' p' e').mp h).2, hm⟩
      · rintro ⟨h1, e', h, hm⟩
        exact ⟨e', (hmem d' p' e').mpr ⟨h1, h⟩, hm⟩

/-! ### one `insertKey` / `removeKey` step on a canonical key -/

theorem lpmInsertKey_canon (unique : Bool) (ix : LpmIdx) (pk : Key) {d : Key} {l : Nat} (hc : Canon d l) (o : Obj) :
    lpmInsertKey unique ix pk (d, l) o =
      { t := (Lpm.insert d l (if unique then [(pk, o)] else entryUpsert ((lookupExact d l ix.t 0).getD []) pk o) ix.t 0).1 } := by
  unfold lpmInsertKey
  simp only [maskData_canon d l hc]

/-- **insertKey**: the pair `(pk, o)` is stored under the key; a unique index drops what was stored
    under the key, a non-unique one only the previous object of `pk`; everything else is kept -/
theorem lpmInsertKey_spec (unique : Bool) {ix : LpmIdx} (g : LGood ix) (pk : Key) {d : Key} {l : Nat}
    (hc : Canon d l) (o : Obj) :
    LGood (lpmInsertKey unique ix pk (d, l) o) ∧
    ∀ d' p' pk' x, LHolds (lpmInsertKey unique ix pk (d, l) o) d' p' pk' x ↔
      ((d' = d ∧ p' = l) ∧ pk' = pk ∧ x = o) ∨
      (¬ ((d' = d ∧ p' = l) ∧ (unique = true ∨ pk' = pk)) ∧ LHolds ix d' p' pk' x) := by
  rw [lpmInsertKey_canon unique ix pk hc o]
  cases unique with
  | true =>
    simp only [if_true]
    obtain ⟨h1, h2⟩ := ins_branch g hc [(pk, o)] (sorted_cons.mpr ⟨by simp, sorted_nil⟩) (by simp)
    refine ⟨h1, ?_⟩
    intro d' p' pk' x
    rw [h2]
    simp
  | false =>
    simp only [Bool.false_eq_true, if_false]
    have hsc := lookup_getD_sorted g hc
    obtain ⟨h1, h2⟩ := ins_branch g hc (entryUpsert ((lookupExact d l ix.t 0).getD []) pk o)
      (entryUpsert_sorted _ hsc pk o) (entryUpsert_ne_nil _ pk o)
    refine ⟨h1, ?_⟩
    intro d' p' pk' x
    rw [h2, mem_entryUpsert _ hsc, ← LHolds_iff_lookup g hc]
    simp only [false_or]
    constructor
    · rintro (⟨hk, hm | ⟨hne, hm⟩⟩ | ⟨hk, hm⟩)
      · exact Or.inl ⟨hk, hm⟩
      · exact Or.inr ⟨fun hh => hne hh.2, by rw [hk.1, hk.2]; exact hm⟩
      · exact Or.inr ⟨fun hh => hk hh.1, hm⟩
    · rintro (⟨hk, hm⟩ | ⟨hn, hm⟩)
      · exact Or.inl ⟨hk, Or.inl hm⟩
      · by_cases hk : d' = d ∧ p' = l
        · refine Or.inl ⟨hk, Or.inr ⟨fun hh => hn ⟨hk, hh⟩, ?_⟩⟩
          rw [← hk.1, ← hk.2]; exact hm
        · exact Or.inr ⟨hk, hm⟩

/-- **removeKey**: exactly the pair with primary key `pk` under the key is removed -/
theorem lpmRemoveKey_spec {ix : LpmIdx} (g : LGood ix) (pk : Key) {d : Key} {l : Nat} (hc : Canon d l) :
    LGood (lpmRemoveKey ix pk (d, l)) ∧
    ∀ d' p' pk' x, LHolds (lpmRemoveKey ix pk (d, l)) d' p' pk' x ↔
      ¬ ((d' = d ∧ p' = l) ∧ pk' = pk) ∧ LHolds ix d' p' pk' x := by
  unfold lpmRemoveKey
  simp only [maskData_canon d l hc]
  -- "unchanged" is right whenever nothing with primary key `pk` is stored under the key
  have unchanged : (∀ x, ¬ LHolds ix d l pk x) →
      LGood ix ∧ ∀ d' p' pk' x, LHolds ix d' p' pk' x ↔
        ¬ ((d' = d ∧ p' = l) ∧ pk' = pk) ∧ LHolds ix d' p' pk' x := by
    intro hno
    refine ⟨g, fun d' p' pk' x => ⟨fun h => ⟨?_, h⟩, fun h => h.2⟩⟩
    rintro ⟨⟨rfl, rfl⟩, rfl⟩
    exact hno x h
  cases hl : lookupExact d l ix.t 0 with
  | none =>
    simp only
    apply unchanged
    intro x hx
    rw [LHolds_iff_lookup g hc, hl] at hx
    simp at hx
  | some e =>
    simp only
    have hE : ∀ pk' x, LHolds ix d l pk' x ↔ (pk', x) ∈ e := by
      intro pk' x
      rw [LHolds_iff_lookup g hc, hl]; rfl
    have hse : Sorted e := by have := lookup_getD_sorted g hc; rw [hl] at this; exact this
    split
    · -- a bucket of length one
      rename_i hlen
      match e, hlen with
      | [(k, v)], _ =>
        simp only
        split
        · rename_i hk
          have hk : k = pk := by simpa using hk
          subst hk
          obtain ⟨h1, h2⟩ := del_branch g hc _ hl
          refine ⟨h1, ?_⟩
          intro d' p' pk' x
          rw [h2]
          constructor
          · rintro ⟨hn, hh⟩; exact ⟨fun hh' => hn hh'.1, hh⟩
          · rintro ⟨hn, hh⟩
            refine ⟨?_, hh⟩
            rintro ⟨rfl, rfl⟩
            have := (hE pk' x).mp hh
            simp only [List.mem_singleton, Prod.mk.injEq] at this
            exact hn ⟨⟨rfl, rfl⟩, this.1⟩
        · rename_i hk
          apply unchanged
          intro x hx
          have := (hE pk x).mp hx
          simp only [List.mem_singleton, Prod.mk.injEq] at this
          exact hk (by simp [this.1])
    · split
      · rename_i hlen
        apply unchanged
        intro x hx
        exact entryDelete_length_eq e pk hlen x ((hE pk x).mp hx)
      · split
        · rename_i hemp
          have hemp : entryDelete e pk = [] := by simpa using hemp
          obtain ⟨h1, h2⟩ := del_branch g hc _ hl
          refine ⟨h1, ?_⟩
          intro d' p' pk' x
          rw [h2]
          constructor
          · rintro ⟨hn, hh⟩; exact ⟨fun hh' => hn hh'.1, hh⟩
          · rintro ⟨hn, hh⟩
            refine ⟨?_, hh⟩
            rintro ⟨rfl, rfl⟩
            have hm := (hE pk' x).mp hh
            by_cases hpk : pk' = pk
            · exact hn ⟨⟨rfl, rfl⟩, hpk⟩
            · have : (pk', x) ∈ entryDelete e pk := (mem_entryDelete e pk pk' x).mpr ⟨hpk, hm⟩
              rw [hemp] at this; simp at this
        · rename_i hemp
          have hne : entryDelete e pk ≠ [] := by simpa using hemp
          obtain ⟨h1, h2⟩ := ins_branch g hc (entryDelete e pk) (entryDelete_sorted e hse pk) hne
          refine ⟨h1, ?_⟩
          intro d' p' pk' x
          rw [h2, mem_entryDelete, ← hE]
          constructor
          · rintro (⟨hk, hne', hm⟩ | ⟨hk, hm⟩)
            · exact ⟨fun hh => hne' hh.2, by rw [hk.1, hk.2]; exact hm⟩
            · exact ⟨fun hh => hk hh.1, hm⟩
          · rintro ⟨hn, hm⟩
            by_cases hk : d' = d ∧ p' = l
            · refine Or.inl ⟨hk, fun hh => hn ⟨hk, hh⟩, ?_⟩
              rw [← hk.1, ← hk.2]; exact hm
            · exact Or.inr ⟨hk, hm⟩

/-! ### the two loops of `lpmIndexTxn.reindex` -/

theorem insFold_spec (unique : Bool) (pk : Key) (o : Obj) (ks : List (Key × Nat))
    (hks : ∀ k ∈ ks, Canon k.1 k.2) {ix : LpmIdx} (g : LGood ix) :
    LGood (ks.foldl (fun ix k => lpmInsertKey unique ix pk k o) ix) ∧
    ∀ d p pk' x, LHolds (ks.foldl (fun ix k => lpmInsertKey unique ix pk k o) ix) d p pk' x ↔
      ((d, p) ∈ ks ∧ pk' = pk ∧ x = o) ∨
      (¬ ((d, p) ∈ ks ∧ (unique = true ∨ pk' = pk)) ∧ LHolds ix d p pk' x) := by
  induction ks generalizing ix with
  | nil => exact ⟨g, by simp⟩
  | cons k ks ih =>
    obtain ⟨kd, kl⟩ := k
    have hc : Canon kd kl := hks (kd, kl) (List.mem_cons_self ..)
    obtain ⟨g1, h1⟩ := lpmInsertKey_spec unique g pk hc o
    obtain ⟨g2, h2⟩ := ih (fun k hk => hks k (List.mem_cons_of_mem _ hk)) g1
    rw [List.foldl_cons]
    refine ⟨g2, ?_⟩
    intro d p pk' x
    rw [h2, h1]
    simp only [List.mem_cons, Prod.mk.injEq]
    by_cases hA : d = kd ∧ p = kl
    · obtain ⟨rfl, rfl⟩ := hA
      by_cases hB : (d, p) ∈ ks <;> by_cases hP : pk' = pk <;> by_cases hU : unique = true <;> simp [hB, hP, hU]
    · by_cases hB : (d, p) ∈ ks <;> by_cases hP : pk' = pk <;> by_cases hU : unique = true <;> simp [hA, hB, hP, hU]

theorem remFold_spec (pk : Key) (newKeys : List (Key × Nat)) (ks : List (Key × Nat))
    (hks : ∀ k ∈ ks, Canon k.1 k.2) {ix : LpmIdx} (g : LGood ix) :
    LGood (ks.foldl (fun ix k => if newKeys.contains k then ix else lpmRemoveKey ix pk k) ix) ∧
    ∀ d p pk' x,
      LHolds (ks.foldl (fun ix k => if newKeys.contains k then ix else lpmRemoveKey ix pk k) ix) d p pk' x ↔
      ¬ ((d, p) ∈ ks ∧ (d, p) ∉ newKeys ∧ pk' = pk) ∧ LHolds ix d p pk' x := by
  induction ks generalizing ix with
  | nil => exact ⟨g, by simp⟩
  | cons k ks ih =>
    obtain ⟨kd, kl⟩ := k
    have hc : Canon kd kl := hks (kd, kl) (List.mem_cons_self ..)
    have hks' : ∀ k ∈ ks, Canon k.1 k.2 := fun k hk => hks k (List.mem_cons_of_mem _ hk)
    rw [List.foldl_cons]
    by_cases hin : (kd, kl) ∈ newKeys
    · have : newKeys.contains (kd, kl) = true := by simpa using hin
      rw [if_pos this]
      obtain ⟨g2, h2⟩ := ih hks' g
      refine ⟨g2, ?_⟩
      intro d p pk' x
      rw [h2]
      simp only [List.mem_cons, Prod.mk.injEq]
      by_cases hA : d = kd ∧ p = kl
      · obtain ⟨rfl, rfl⟩ := hA
        simp [hin]
      · simp [hA]
    · have : ¬ (newKeys.contains (kd, kl) = true) := by simpa using hin
      rw [if_neg this]
      obtain ⟨g1, h1⟩ := lpmRemoveKey_spec g pk hc
      obtain ⟨g2, h2⟩ := ih hks' g1
      refine ⟨g2, ?_⟩
      intro d p pk' x
      rw [h2, h1]
      simp only [List.mem_cons, Prod.mk.injEq]
      by_cases hA : d = kd ∧ p = kl
      · obtain ⟨rfl, rfl⟩ := hA
        by_cases hB : (d, p) ∈ ks <;> by_cases hP : pk' = pk <;> simp [hin, hB, hP]
      · by_cases hB : (d, p) ∈ ks <;> by_cases hP : pk' = pk <;> simp [hA, hB, hP]

/-! ### the invariant -/

/-- **the LPM index agrees with the primary index**: the trie is well formed, the live objects have
    valid keys, every bucket is non-empty and strictly ascending in the primary key, and the stored
    triples (index key, primary key, object) are exactly those of the live objects with their
    normalised keys (none missing, none stale).  For a unique index no two live objects share a key. -/
structure LInv (unique : Bool) (keys : Obj → List (Key × Nat)) (primary : OMap Obj) (ix : LpmIdx) : Prop where
  wf : WF ix.t
  keysOk : ∀ pk x, primary.get pk = some x → ∀ k ∈ keys x, LKeyOk k
  sortedE : ∀ d p e, (d, p, e) ∈ preorder ix.t → Sorted e
  nonempty : ∀ d p e, (d, p, e) ∈ preorder ix.t → e ≠ []
  char : ∀ d p pk x, (∃ e, (d, p, e) ∈ preorder ix.t ∧ (pk, x) ∈ e) ↔
    primary.get pk = some x ∧ (d, p) ∈ (keys x).map normKey
  uniq : unique = true → ∀ pk1 x1 pk2 x2, primary.get pk1 = some x1 → primary.get pk2 = some x2 →
    (∃ k, k ∈ (keys x1).map normKey ∧ k ∈ (keys x2).map normKey) → pk1 = pk2

theorem LInv.good {unique : Bool} {keys : Obj → List (Key × Nat)} {primary : OMap Obj} {ix : LpmIdx}
    (inv : LInv unique keys primary ix) : LGood ix := ⟨inv.wf, inv.sortedE, inv.nonempty⟩

theorem LInv.holds {unique : Bool} {keys : Obj → List (Key × Nat)} {primary : OMap Obj} {ix : LpmIdx}
    (inv : LInv unique keys primary ix) (d : Key) (p : Nat) (pk : Key) (x : Obj) :
    LHolds ix d p pk x ↔ primary.get pk = some x ∧ (d, p) ∈ (keys x).map normKey := inv.char d p pk x

/-- the invariant holds of the empty table -/
theorem LInv.empty (unique : Bool) (keys : Obj → List (Key × Nat)) : LInv unique keys [] {} := by
  refine ⟨trivial, ?_, ?_, ?_, ?_, ?_⟩
  · intro pk x h; simp at h
  · intro d p e h; simp [preorder] at h
  · intro d p e h; simp [preorder] at h
  · intro d p pk x; simp [preorder]
  · intro _ pk1 x1 pk2 x2 h; simp at h

theorem canon_of_mem_normKeys {ks : List (Key × Nat)} (h : ∀ k ∈ ks, LKeyOk k) :
    ∀ k ∈ ks.map normKey, Canon k.1 k.2 := by
  intro k hk
  obtain ⟨k0, hk0, rfl⟩ := List.mem_map.mp hk
  exact (h k0 hk0).canon

theorem reindexLpm_new (unique : Bool) (ix : LpmIdx) (pk : Key) (old : Option Obj) (n : Obj)
    (keys : Obj → List (Key × Nat)) :
    reindexLpm unique ix pk old (some n) keys =
      (match old with | some o => (keys o).map normKey | none => []).foldl
        (fun ix k => if ((keys n).map normKey).contains k then ix else lpmRemoveKey ix pk k)
        (((keys n).map normKey).foldl (fun ix k => lpmInsertKey unique ix pk k n) ix) := by
  cases old <;> rfl

theorem reindexLpm_none (unique : Bool) (ix : LpmIdx) (pk : Key) (o : Obj) (keys : Obj → List (Key × Nat)) :
    reindexLpm unique ix pk (some o) none keys =
      ((keys o).map normKey).foldl (fun ix k => if ([] : List (Key × Nat)).contains k then ix else lpmRemoveKey ix pk k) ix := rfl

/-- **preserved by the reindex call of `modify`** (insert or update of `n`; the previous object, if
    any, is `primary.get n.id`).  `hu` is the uniqueness obligation of the caller for a unique index:
    no other live object has one of the new object's keys. -/
theorem LInv.reindex_modify {unique : Bool} {keys : Obj → List (Key × Nat)} {primary : OMap Obj} {ix : LpmIdx}
    (inv : LInv unique keys primary ix) (_hp : POk primary) (n : Obj)
    (hk : ∀ k ∈ keys n, LKeyOk k)
    (hu : unique = true → ∀ pk x, primary.get pk = some x → pk ≠ n.id →
      ∀ k ∈ (keys x).map normKey, k ∉ (keys n).map normKey) :
    LInv unique keys (primary.insert n.id n) (reindexLpm unique ix n.id (primary.get n.id) (some n) keys) := by
  rw [reindexLpm_new]
  have hcN := canon_of_mem_normKeys hk
  obtain ⟨g1, h1⟩ := insFold_spec unique n.id n ((keys n).map normKey) hcN inv.good
  have hcO : ∀ k ∈ (match primary.get n.id with | some o => (keys o).map normKey | none => []), Canon k.1 k.2 := by
    cases hold : primary.get n.id with
    | none => simp
    | some o => exact canon_of_mem_normKeys (inv.keysOk n.id o hold)
  obtain ⟨g2, h2⟩ := remFold_spec n.id ((keys n).map normKey) _ hcO g1
  refine ⟨g2.wf, ?_, g2.sortedE, g2.nonempty, ?_, ?_⟩
  · intro pk x hx k hkx
    rw [get_insert] at hx
    split at hx
    · simp only [Option.some.injEq] at hx; subst hx; exact hk k hkx
    · exact inv.keysOk pk x hx k hkx
  · intro d p pk' x
    change LHolds _ d p pk' x ↔ _
    rw [h2, h1, inv.holds, get_insert]
    by_cases hpk : pk' = n.id
    · subst hpk
      simp only [if_true, Option.some.injEq, true_and, or_true, and_true]
      by_cases hN : (d, p) ∈ (keys n).map normKey
      · constructor
        · rintro ⟨_, ⟨_, rfl⟩ | ⟨hh, _⟩⟩
          · exact ⟨rfl, hN⟩
          · exact absurd hN hh
        · rintro ⟨rfl, _⟩
          exact ⟨fun hh => hh.2 hN, Or.inl ⟨hN, rfl⟩⟩
      · constructor
        · rintro ⟨hno, ⟨hh, _⟩ | ⟨_, hlive, hkey⟩⟩
          · exact absurd hh hN
          · rw [hlive] at hno
            exact absurd ⟨hkey, hN⟩ hno
        · rintro ⟨rfl, hh⟩
          exact absurd hh hN
    · simp only [hpk, if_false, and_false, not_false_eq_true, true_and, false_and, false_or, or_false]
      constructor
      · rintro ⟨_, h⟩; exact h
      · rintro ⟨hlive, hkey⟩
        refine ⟨?_, hlive, hkey⟩
        rintro ⟨hN, hU⟩
        exact hu hU pk' x hlive hpk (d, p) hkey hN
  · intro hU pk1 x1 pk2 x2 hx1 hx2 ⟨k, hk1, hk2⟩
    rw [get_insert] at hx1 hx2
    by_cases e1 : pk1 = n.id <;> by_cases e2 : pk2 = n.id
    · rw [e1, e2]
    · rw [if_pos e1] at hx1; rw [if_neg e2] at hx2
      simp only [Option.some.injEq] at hx1; subst hx1
      exact absurd hk1 (hu hU pk2 x2 hx2 e2 k hk2)
    · rw [if_neg e1] at hx1; rw [if_pos e2] at hx2
      simp only [Option.some.injEq] at hx2; subst hx2
      exact absurd hk2 (hu hU pk1 x1 hx1 e1 k hk1)
    · rw [if_neg e1] at hx1; rw [if_neg e2] at hx2
      exact inv.uniq hU pk1 x1 pk2 x2 hx1 hx2 ⟨k, hk1, hk2⟩

/-- **preserved by the reindex call of `delete`** -/
theorem LInv.reindex_delete {unique : Bool} {keys : Obj → List (Key × Nat)} {primary : OMap Obj} {ix : LpmIdx}
    (inv : LInv unique keys primary ix) (hp : POk primary) (id : Key) (old : Obj)
    (ho : primary.get id = some old) :
    LInv unique keys (primary.erase id) (reindexLpm unique ix id (some old) none keys) := by
  rw [reindexLpm_none]
  obtain ⟨g2, h2⟩ := remFold_spec id [] ((keys old).map normKey)
    (canon_of_mem_normKeys (inv.keysOk id old ho)) inv.good
  have hget : ∀ pk x, (primary.erase id).get pk = some x ↔ pk ≠ id ∧ primary.get pk = some x := by
    intro pk x
    rw [get_erase _ hp.sorted]
    by_cases h : pk = id <;> simp [h]
  refine ⟨g2.wf, ?_, g2.sortedE, g2.nonempty, ?_, ?_⟩
  · intro pk x hx
    exact inv.keysOk pk x ((hget pk x).mp hx).2
  · intro d p pk' x
    change LHolds _ d p pk' x ↔ _
    rw [h2, inv.holds, hget]
    simp only [List.not_mem_nil, not_false_eq_true, true_and]
    constructor
    · rintro ⟨hno, hlive, hkey⟩
      refine ⟨⟨?_, hlive⟩, hkey⟩
      rintro rfl
      rw [ho] at hlive
      simp only [Option.some.injEq] at hlive; subst hlive
      exact hno ⟨hkey, rfl⟩
    · rintro ⟨⟨hne, hlive⟩, hkey⟩
      exact ⟨fun hh => hne hh.2, hlive, hkey⟩
  · intro hU pk1 x1 pk2 x2 hx1 hx2 hk
    exact inv.uniq hU pk1 x1 pk2 x2 ((hget _ _).mp hx1).2 ((hget _ _).mp hx2).2 hk

/-! ### the two LPM indexes of a full table across `modify` / `delete` -/

theorem newObj_pfxs (t : TableS) (o : Obj) (m : Bool) : (newObj t o m).pfxs = o.pfxs := by
  unfold newObj; split <;> rfl

theorem newObj_upKey (t : TableS) (o : Obj) (m : Bool) : (newObj t o m).upKey = o.upKey := by
  unfold newObj Obj.upKey; split <;> rfl

/-- the non-unique LPM index after a successful `modify` (the object's keys must be valid) -/
theorem LInv.modify_lpm {t t' : TableS} {o : Obj} {m : Bool} (hok : ModOk t o m t') (hidx : ModIdx t o m t')
    (hf : t.full = true) (inv : LInv false (·.pfxs) t.primary t.lpm) (hp : POk t.primary)
    (hk : ∀ k ∈ o.pfxs, LKeyOk k) : LInv false (·.pfxs) t'.primary t'.lpm := by
  rw [hok.primary, hidx.lpm, if_pos hf]
  have h := inv.reindex_modify hp (newObj t o m) (by simpa only [newObj_pfxs] using hk) (by simp)
  rw [newObj_id] at h
  exact h

/-- the unique LPM index after a successful `modify`; `hu`: no other live object with a unique-LPM
    key has the same ordinal (modulo 2^16) as the written object -/
theorem LInv.modify_ulpm {t t' : TableS} {o : Obj} {m : Bool} (hok : ModOk t o m t') (hidx : ModIdx t o m t')
    (hf : t.full = true) (inv : LInv true (·.upKey) t.primary t.ulpm) (hp : POk t.primary)
    (hu : ∀ pk x, t.primary.get pk = some x → pk ≠ o.id → x.up = true → o.up = true →
      x.ord % 65536 ≠ o.ord % 65536) : LInv true (·.upKey) t'.primary t'.ulpm := by
  rw [hok.primary, hidx.ulpm, if_pos hf]
  have h := inv.reindex_modify hp (newObj t o m) (upKey_ok _) (by
    intro _ pk x hx hne k hk1 hk2
    rw [newObj_id] at hne
    simp only [newObj_upKey] at hk2
    obtain ⟨h1, h2, h3⟩ := (upKey_shared_iff x o).mp ⟨k, hk1, hk2⟩
    exact hu pk x hx hne h1 h2 h3)
  rw [newObj_id] at h
  exact h

theorem LInv.delete_lpm {t t' : TableS} {id : Key} {old : Obj} (hok : DelOk t id old t') (hidx : DelIdx t id old t')
    (hf : t.full = true) (ho : t.primary.get id = some old)
    (inv : LInv false (·.pfxs) t.primary t.lpm) (hp : POk t.primary) : LInv false (·.pfxs) t'.primary t'.lpm := by
  rw [hok.primary, hidx.lpm, if_pos hf]
  exact inv.reindex_delete hp id old ho

theorem LInv.delete_ulpm {t t' : TableS} {id : Key} {old : Obj} (hok : DelOk t id old t') (hidx : DelIdx t id old t')
    (hf : t.full = true) (ho : t.primary.get id = some old)
    (inv : LInv true (·.upKey) t.primary t.ulpm) (hp : POk t.primary) : LInv true (·.upKey) t'.primary t'.ulpm := by
  rw [hok.primary, hidx.ulpm, if_pos hf]
  exact inv.reindex_delete hp id old ho

end Sdb.Tbl
