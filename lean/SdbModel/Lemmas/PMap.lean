import SdbModel.Model.PMap
import SdbModel.Lemmas.PMapRef

/-!
  Lemmas for C17, part 2: `part.Map` (`Model.PMap`) refines the reference
  sorted association list.  The invariant `MapWF` (a singleton excludes a tree;
  a tree is `TreeWF`), the stronger `MapCanon` (a tree holds at least two
  entries, so each abstract map has one representation state), and for every
  operation: preservation and the reference operation on `Map.all`.
  Core Lean only; builds on the C11 refinement (`Txn_insert_spec`, `Txn_delete_spec`).
-/
namespace Sdb.PMap
open Sdb.Art

/-! ### the tree-level wrappers of the model -/

theorem emptyTree_wf : TreeWF emptyTree := ⟨trivial, rfl⟩

theorem emptyTree_all : allRoot emptyTree.root = [] := rfl

theorem txnOf_wf (t : Tree) (h : TreeWF t) : TxnWF (txnOf t) := h

theorem txnOf_all (t : Tree) : allRoot (txnOf t).root = allRoot t.root := rfl

theorem insT_wf (P : ArtParams) (x : Txn) (k : List Nat) (v : Nat) (h : TxnWF x) : TxnWF (insT P x k v) :=
  (Txn_insert_spec P x k v none h).1

theorem insT_all (P : ArtParams) (x : Txn) (k : List Nat) (v : Nat) (h : TxnWF x) :
    allRoot (insT P x k v).root = sinsert (allRoot x.root) k v := by
  obtain ⟨_, _, h3, h4⟩ := Txn_insert_spec P x k v none h
  unfold insT
  rw [h4, h3]
  cases (x.insert P k v none).2.1 <;> rfl

theorem commitT_wf (x : Txn) (h : TxnWF x) : TreeWF (commitT x) := h

theorem commitT_all (x : Txn) : allRoot (commitT x).root = allRoot x.root := rfl

theorem commitT_size (x : Txn) : (commitT x).size = x.size := rfl

theorem delT_wf (P : ArtParams) (x : Txn) (k : List Nat) (h : TxnWF x) : TxnWF (x.delete P k).1 :=
  (Txn_delete_spec P x k h).1

theorem delT_all (P : ArtParams) (x : Txn) (k : List Nat) (h : TxnWF x) :
    allRoot (x.delete P k).1.root = sdelete (allRoot x.root) k :=
  (Txn_delete_spec P x k h).2.2.1

/-- the insertion loop of `FromMap` / `Unmarshal*` -/
theorem foldl_insT (P : ArtParams) (es : List KV) (x : Txn) (h : TxnWF x) :
    TxnWF (es.foldl (fun x (e : KV) => insT P x e.1 e.2) x) ∧
    allRoot (es.foldl (fun x (e : KV) => insT P x e.1 e.2) x).root = sinsertAll (allRoot x.root) es := by
  induction es generalizing x with
  | nil => exact ⟨h, rfl⟩
  | cons e es ih =>
    have := ih (insT P x e.1 e.2) (insT_wf P x e.1 e.2 h)
    rw [insT_all P x e.1 e.2 h] at this
    exact this

theorem foldl_insT' (P : ArtParams) (es : List KV) (x : Txn) :
    es.foldl (fun x (k, v) => insT P x k v) x = es.foldl (fun x (e : KV) => insT P x e.1 e.2) x := rfl

/-! ### the invariant -/

/-- a singleton excludes a tree, and a tree is well formed with an exact `Len` -/
def MapWF (m : Map) : Prop :=
  (m.single.isSome = true → m.tree = none) ∧ ∀ t, m.tree = some t → TreeWF t

/-- additionally the tree representation is only used for two or more entries
    (so the three representation states partition the abstract maps by size 0 / 1 / ≥ 2) -/
def MapCanon (m : Map) : Prop := MapWF m ∧ ∀ t, m.tree = some t → 2 ≤ t.size

theorem mapWF_empty : MapWF {} := ⟨fun h => rfl, fun t h => by simp at h⟩

theorem mapCanon_empty : MapCanon {} := ⟨mapWF_empty, fun t h => by simp at h⟩

theorem mapWF_single (e : KV) : MapWF { single := some e } := ⟨fun _ => rfl, fun t h => by simp at h⟩

theorem mapCanon_single (e : KV) : MapCanon { single := some e } := ⟨mapWF_single e, fun t h => by simp at h⟩

theorem mapWF_tree (t : Tree) (h : TreeWF t) : MapWF { single := none, tree := some t } :=
  ⟨fun h => by simp at h, fun t' h' => by simp at h'; rw [← h']; exact h⟩

theorem mapCanon_tree (t : Tree) (h : TreeWF t) (h2 : 2 ≤ t.size) : MapCanon { single := none, tree := some t } :=
  ⟨mapWF_tree t h, fun t' h' => by simp at h'; rw [← h']; exact h2⟩

/-- the three representation states -/
theorem MapWF.cases {m : Map} (h : MapWF m) :
    m = {} ∨ (∃ e, m = { single := some e }) ∨ (∃ t, m = { single := none, tree := some t } ∧ TreeWF t) := by
  obtain ⟨s, t⟩ := m
  obtain ⟨h1, h2⟩ := h
  cases s with
  | some e =>
    have := h1 rfl
    simp only at this
    subst this
    exact Or.inr (Or.inl ⟨e, rfl⟩)
  | none =>
    cases t with
    | none => exact Or.inl rfl
    | some t => exact Or.inr (Or.inr ⟨t, rfl, h2 t rfl⟩)

/-! ### reads -/

theorem all_sorted (m : Map) (h : MapWF m) : Sorted m.all := by
  rcases h.cases with rfl | ⟨e, rfl⟩ | ⟨t, rfl, ht⟩
  · exact sorted_nil
  · exact sorted_single e
  · exact allRoot_sorted _ ht.1

theorem get_look (m : Map) (h : MapWF m) (k : List Nat) : m.get k = look m.all k := by
  rcases h.cases with rfl | ⟨⟨a, w⟩, rfl⟩ | ⟨t, rfl, ht⟩
  · rfl
  · simp only [Map.get, Map.all, look_cons, look_nil, beq_iff_eq]
  · exact getRoot_look _ ht.1 _ k

theorem len_length (m : Map) (h : MapWF m) : m.len = m.all.length := by
  rcases h.cases with rfl | ⟨e, rfl⟩ | ⟨t, rfl, ht⟩
  · rfl
  · rfl
  · exact ht.2

theorem prefix_filter (m : Map) (h : MapWF m) (p : List Nat) :
    m.prefix p = m.all.filter (fun e => hasPrefix e.1 p) := by
  rcases h.cases with rfl | ⟨⟨a, w⟩, rfl⟩ | ⟨t, rfl, ht⟩
  · rfl
  · simp only [Map.prefix, Map.all, List.filter_cons, List.filter_nil]
  · simp only [Map.prefix, Map.all]
    cases hr : t.root with
    | none => rfl
    | some r =>
      have := ht.1
      rw [hr] at this
      exact prefixNode_eq [] r this _ p

theorem lowerBound_filter (m : Map) (h : MapWF m) (k : List Nat) :
    m.lowerBound k = m.all.filter (fun e => decide (cmpL e.1 k ≠ .lt)) := by
  rcases h.cases with rfl | ⟨⟨a, w⟩, rfl⟩ | ⟨t, rfl, ht⟩
  · rfl
  · simp only [Map.lowerBound, Map.all, List.filter_cons, List.filter_nil]
    cases cmpL a k <;> rfl
  · simp only [Map.lowerBound, Map.all]
    cases hr : t.root with
    | none => rfl
    | some r =>
      have := ht.1
      rw [hr] at this
      exact lbNode_eq [] r this k

/-! ### Set -/

theorem set_spec (P : ArtParams) (m : Map) (h : MapWF m) (k : List Nat) (v : Nat) :
    MapWF (m.set P k v) ∧ (m.set P k v).all = sinsert m.all k v := by
  rcases h.cases with rfl | ⟨⟨a, w⟩, rfl⟩ | ⟨t, rfl, ht⟩
  · exact ⟨mapWF_single _, rfl⟩
  · by_cases hk : a = k
    · subst hk
      simp only [Map.set, beq_self_eq_true, Bool.or_true, if_true, Map.all, sinsert, cmpL_refl]
      exact ⟨mapWF_single _, trivial⟩
    · have h0 : TxnWF (txnOf emptyTree) := txnOf_wf _ emptyTree_wf
      have h1 := insT_wf P _ k v h0
      have h2 := insT_wf P _ a w h1
      have e : (Map.set P { single := some (a, w) } k v) =
          { single := none, tree := some (commitT (insT P (insT P (txnOf emptyTree) k v) a w)) } := by
        simp [Map.set, hk, Map.ensure]
      rw [e]
      refine ⟨mapWF_tree _ (commitT_wf _ h2), ?_⟩
      simp only [Map.all, commitT_all]
      rw [insT_all P _ a w h1, insT_all P _ k v h0]
      exact sinsert_comm [] sorted_nil k a v w (Ne.symm hk)
  · have h0 : TxnWF (txnOf t) := txnOf_wf _ ht
    have e : (Map.set P { single := none, tree := some t } k v) =
        { single := none, tree := some (commitT (insT P (txnOf t) k v)) } := by
      simp [Map.set, Map.ensure]
    rw [e]
    refine ⟨mapWF_tree _ (commitT_wf _ (insT_wf P _ k v h0)), ?_⟩
    simp only [Map.all, commitT_all]
    exact insT_all P _ k v h0

theorem sinsert_length_pos (l : List KV) (k : List Nat) (v : Nat) : 1 ≤ (sinsert l k v).length := by
  have : (k, v) ∈ sinsert l k v := look_some_mem _ _ _ (by rw [look_sinsert]; simp)
  exact List.length_pos_of_mem this

theorem set_canon (P : ArtParams) (m : Map) (h : MapCanon m) (k : List Nat) (v : Nat) : MapCanon (m.set P k v) := by
  obtain ⟨hw, hc⟩ := h
  refine ⟨(set_spec P m hw k v).1, ?_⟩
  intro t' ht'
  have hwf := (set_spec P m hw k v).1
  have hlen := len_length _ hwf
  have hall := (set_spec P m hw k v).2
  have hs := length_sinsert m.all (all_sorted m hw) k v
  have hl := len_length m hw
  rcases hw.cases with rfl | ⟨⟨a, w⟩, rfl⟩ | ⟨t, rfl, ht⟩
  · simp [Map.set] at ht'
  · by_cases hk : a = k
    · subst hk; simp [Map.set] at ht'
    · have e : (Map.set P { single := some (a, w) } k v).single = none := by simp [Map.set, hk]
      rw [hall] at hlen
      simp only [Map.len, e, ht'] at hlen
      rw [hlen, hs]
      simp [Map.all, look_cons, hk]
  · have e : (Map.set P { single := none, tree := some t } k v).single = none := by simp [Map.set]
    have := hc t rfl
    rw [hall] at hlen
    simp only [Map.len, e, ht'] at hlen
    simp only [Map.len] at hl
    rw [hlen, hs]
    split <;> omega

/-! ### Delete -/

theorem delete_spec (P : ArtParams) (m : Map) (h : MapWF m) (k : List Nat) :
    MapWF (m.delete P k) ∧ (m.delete P k).all = sdelete m.all k := by
  rcases h.cases with rfl | ⟨⟨a, w⟩, rfl⟩ | ⟨t, rfl, ht⟩
  · exact ⟨mapWF_empty, rfl⟩
  · by_cases hk : a = k
    · subst hk
      simp only [Map.delete, beq_self_eq_true, if_true, Map.all, sdelete_single]
      exact ⟨mapWF_empty, trivial⟩
    · simp only [Map.delete, beq_iff_eq, hk, if_false, Map.all, sdelete_single]
      exact ⟨mapWF_single _, trivial⟩
  · have h0 : TxnWF (txnOf t) := txnOf_wf _ ht
    have h1 := delT_wf P _ k h0
    have h2 := delT_all P _ k h0
    rw [txnOf_all] at h2
    have h3 := h1.2
    simp only [Map.delete, Map.all]
    split
    · rename_i hz
      rw [hz] at h3
      have : allRoot ((txnOf t).delete P k).1.root = [] := List.eq_nil_of_length_eq_zero h3.symm
      rw [← h2, this]
      exact ⟨mapWF_empty, rfl⟩
    · rename_i hz
      rw [hz] at h3
      rw [← h2]
      match hl : allRoot ((txnOf t).delete P k).1.root, h3 with
      | [e], _ => exact ⟨mapWF_single e, rfl⟩
    · rw [← h2]
      exact ⟨mapWF_tree _ (commitT_wf _ h1), rfl⟩

theorem delete_canon (P : ArtParams) (m : Map) (h : MapCanon m) (k : List Nat) : MapCanon (m.delete P k) := by
  obtain ⟨hw, hc⟩ := h
  refine ⟨(delete_spec P m hw k).1, ?_⟩
  intro t' ht'
  rcases hw.cases with rfl | ⟨⟨a, w⟩, rfl⟩ | ⟨t, rfl, ht⟩
  · simp [Map.delete] at ht'
  · by_cases hk : a = k
    · subst hk; simp [Map.delete] at ht'
    · simp [Map.delete, hk] at ht'
  · simp only [Map.delete] at ht'
    split at ht'
    · simp at ht'
    · simp at ht'
    · rename_i h0 h1
      simp only [Option.some.injEq] at ht'
      rw [← ht', commitT_size]
      generalize ((txnOf t).delete P k).1.size = n at h0 h1
      match n, h0, h1 with
      | n + 2, _, _ => omega

/-! ### Txn / FromMap / Unmarshal -/

theorem ensure_wf (m : Map) (h : MapWF m) : TreeWF m.ensure := by
  rcases h.cases with rfl | ⟨e, rfl⟩ | ⟨t, rfl, ht⟩
  · exact emptyTree_wf
  · exact emptyTree_wf
  · exact ht

theorem txn_spec (P : ArtParams) (m : Map) (h : MapWF m) :
    TxnWF (m.txn P) ∧ allRoot (m.txn P).root = m.all := by
  rcases h.cases with rfl | ⟨⟨a, w⟩, rfl⟩ | ⟨t, rfl, ht⟩
  · exact ⟨txnOf_wf _ emptyTree_wf, rfl⟩
  · have h0 : TxnWF (txnOf emptyTree) := txnOf_wf _ emptyTree_wf
    exact ⟨insT_wf P _ a w h0, insT_all P _ a w h0⟩
  · exact ⟨txnOf_wf _ ht, rfl⟩

theorem fromMap_cons2 (P : ArtParams) (m : Map) (e1 e2 : KV) (r : List KV) :
    m.fromMap P (e1 :: e2 :: r) =
      { single := none,
        tree := some (commitT ((e1 :: e2 :: r).foldl (fun x (e : KV) => insT P x e.1 e.2) (m.txn P))) } := rfl

theorem fromMap_spec (P : ArtParams) (m : Map) (h : MapWF m) (hm : List KV) :
    MapWF (m.fromMap P hm) ∧ (m.fromMap P hm).all = sinsertAll m.all hm := by
  match hm with
  | [] => exact ⟨h, rfl⟩
  | [(k, v)] => exact set_spec P m h k v
  | e1 :: e2 :: r =>
    obtain ⟨h1, h2⟩ := txn_spec P m h
    obtain ⟨h3, h4⟩ := foldl_insT P (e1 :: e2 :: r) _ h1
    rw [fromMap_cons2]
    refine ⟨mapWF_tree _ (commitT_wf _ h3), ?_⟩
    show allRoot (commitT _).root = _
    rw [commitT_all, h4, h2]

theorem keysNodup_cons2 (e1 e2 : KV) (r : List KV) (h : KeysNodup (e1 :: e2 :: r)) : e1.1 ≠ e2.1 := by
  unfold KeysNodup at h
  simp only [List.map_cons, List.nodup_cons, List.mem_cons, not_or] at h
  exact h.1.1

/-- a `FromMap` with a duplicate-free argument keeps the canonical representation -/
theorem fromMap_canon (P : ArtParams) (m : Map) (h : MapCanon m) (hm : List KV) (hd : KeysNodup hm) :
    MapCanon (m.fromMap P hm) := by
  match hm, hd with
  | [], _ => exact h
  | [(k, v)], _ => exact set_canon P m h k v
  | e1 :: e2 :: r, hd =>
    obtain ⟨hw, hall⟩ := fromMap_spec P m h.1 (e1 :: e2 :: r)
    refine ⟨hw, ?_⟩
    intro t' ht'
    have hlen := len_length _ hw
    rw [fromMap_cons2] at ht' hlen hall
    simp only [Map.len] at hlen
    simp only [Option.some.injEq] at ht'
    rw [← ht', hlen, hall]
    apply two_le_length_of_keys _ e1.1 e2.1 (keysNodup_cons2 e1 e2 r hd)
    · rw [keys_sinsertAll]; simp
    · rw [keys_sinsertAll]; simp

theorem ofEntries_cons2 (P : ArtParams) (e1 e2 : KV) (r : List KV) :
    Map.ofEntries P (e1 :: e2 :: r) =
      { single := none,
        tree := some (commitT ((e1 :: e2 :: r).foldl (fun x (e : KV) => insT P x e.1 e.2) (txnOf emptyTree))) } := rfl

theorem ofEntries_spec (P : ArtParams) (es : List KV) :
    MapWF (Map.ofEntries P es) ∧ (Map.ofEntries P es).all = sinsertAll [] es := by
  match es with
  | [] => exact ⟨mapWF_empty, rfl⟩
  | [(k, v)] => exact ⟨mapWF_single _, rfl⟩
  | e1 :: e2 :: r =>
    have h1 : TxnWF (txnOf emptyTree) := txnOf_wf _ emptyTree_wf
    obtain ⟨h3, h4⟩ := foldl_insT P (e1 :: e2 :: r) _ h1
    rw [ofEntries_cons2]
    refine ⟨mapWF_tree _ (commitT_wf _ h3), ?_⟩
    simp only [Map.all, commitT_all]
    rw [h4]; rfl

theorem ofEntries_canon (P : ArtParams) (es : List KV) (hd : KeysNodup es) : MapCanon (Map.ofEntries P es) := by
  match es, hd with
  | [], _ => exact mapCanon_empty
  | [(k, v)], _ => exact mapCanon_single _
  | e1 :: e2 :: r, hd =>
    obtain ⟨hw, hall⟩ := ofEntries_spec P (e1 :: e2 :: r)
    refine ⟨hw, ?_⟩
    intro t' ht'
    have hlen := len_length _ hw
    rw [ofEntries_cons2] at ht' hlen hall
    simp only [Map.len] at hlen
    simp only [Option.some.injEq] at ht'
    rw [← ht', hlen, hall]
    apply two_le_length_of_keys _ e1.1 e2.1 (keysNodup_cons2 e1 e2 r hd)
    · rw [keys_sinsertAll]; simp
    · rw [keys_sinsertAll]; simp

/-- marshal then unmarshal -/
theorem roundtrip (P : ArtParams) (m : Map) (h : MapWF m) :
    MapCanon (Map.ofEntries P m.all) ∧ (Map.ofEntries P m.all).all = m.all := by
  have hs := all_sorted m h
  refine ⟨ofEntries_canon P _ (keysNodup_of_sorted _ hs), ?_⟩
  rw [(ofEntries_spec P m.all).2, sinsertAll_self _ hs]

/-! ### MapTxn.Commit -/

theorem bump_wf (x : Txn) (h : TxnWF x) : TxnWF x.bump := h

theorem commitMapTxn_spec (x : Txn) (h : TxnWF x) :
    MapCanon (commitMapTxn x).1 ∧ (commitMapTxn x).1.all = allRoot x.root ∧
    TxnWF (commitMapTxn x).2 ∧ allRoot (commitMapTxn x).2.root = allRoot x.root ∧
    (commitMapTxn x).2.size = x.size := by
  have hs := h.2
  unfold commitMapTxn
  split
  · rename_i hz
    rw [hz] at hs
    have : allRoot x.root = [] := List.eq_nil_of_length_eq_zero hs.symm
    rw [this]
    exact ⟨mapCanon_empty, rfl, h, rfl, rfl⟩
  · rename_i hz
    rw [hz] at hs
    match hl : allRoot x.root, hs with
    | [e], _ =>
      have : allRoot x.bump.root = [e] := hl
      simp only [this, List.head?_cons]
      exact ⟨mapCanon_single e, rfl, h, trivial, rfl⟩
  · rename_i h0 h1
    refine ⟨mapCanon_tree _ h ?_, rfl, h, rfl, rfl⟩
    show 2 ≤ x.size
    generalize x.size = n at h0 h1
    match n, h0, h1 with
    | n + 2, _, _ => omega

/-! ### canonical representation: the abstract map determines the representation state -/

theorem canon_all_nil (m : Map) (h : MapCanon m) : m.all = [] ↔ m = {} := by
  constructor
  · intro ha
    rcases h.1.cases with rfl | ⟨e, rfl⟩ | ⟨t, rfl, ht⟩
    · rfl
    · simp [Map.all] at ha
    · have h2 := h.2 t rfl
      have : allRoot t.root = [] := ha
      rw [ht.2, this] at h2
      simp at h2
  · rintro rfl; rfl

theorem canon_all_single (m : Map) (h : MapCanon m) (e : KV) : m.all = [e] ↔ m = { single := some e } := by
  constructor
  · intro ha
    rcases h.1.cases with rfl | ⟨e', rfl⟩ | ⟨t, rfl, ht⟩
    · simp [Map.all] at ha
    · simp only [Map.all, List.cons.injEq, and_true] at ha
      rw [ha]
    · have h2 := h.2 t rfl
      have : allRoot t.root = [e] := ha
      rw [ht.2, this] at h2
      simp at h2
  · rintro rfl; rfl

theorem canon_tree_iff (m : Map) (h : MapCanon m) : m.tree.isSome = true ↔ 2 ≤ m.all.length := by
  rcases h.1.cases with rfl | ⟨e', rfl⟩ | ⟨t, rfl, ht⟩
  · simp [Map.all]
  · simp [Map.all]
  · have h2 := h.2 t rfl
    rw [ht.2] at h2
    simp only [Option.isSome_some, true_iff]
    exact h2

end Sdb.PMap
