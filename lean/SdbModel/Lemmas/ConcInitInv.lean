import SdbModel.Lemmas.ConcInitProg
import SdbModel.Lemmas.ConcInitWrites
import SdbModel.Lemmas.ConcSimCor

/-!
  ConcInitInv — the invariant of `Model.Conc` behind the watch-channel (C06) and
  initializer (C19) properties, for all schedules.

  Channels are natural numbers handed out by the allocator `nextChan`.  At every
  moment a channel that is in use plays exactly one role: it is a channel of the
  committed root (`rootChan`: the table watch channel or the init channel of some
  table), or it is PRIVATE to one thread (`priv`: allocated by the writer's
  `userWrites` and not yet stored; replaced / collected by its `storeRoot` and not
  yet closed), or it is closed.  `CI st cs run` states that these roles exclude
  each other, that all channels in use are below `nextChan`, the consistency of
  the committed initializer records, `rev = cnt`, where the closed channels come
  from (`CO`), and for every thread a position `p : Pos2` of its program with the
  facts `Loc` about its private copies at that position.  `run` is the thread
  whose scheduler step is in progress (`none` between steps): every other thread
  rests at a park or a blocked lock, in particular not between `appendTable` and
  `storeRoot`.  Core Lean only.
-/
namespace Sdb.Conc

/-! ### which tracked micro steps are still ahead at a position -/

def uwIn : Pos2 → Bool
  | .acq _ | .clR | .clE | .uw => true
  | _ => false

def srIn (c : Bool) : Pos2 → Bool
  | .acq _ | .clR | .clE | .uw => c
  | .aR | .lc | .mg | .ci | .sr | .gA | .gL | .gP | .gS => true
  | _ => false

def ntIn (c : Bool) : Pos2 → Bool
  | .acq _ | .clR | .clE | .uw => c
  | .aR | .lc | .mg | .ci | .sr | .rR | .nt => true
  | _ => false

def clIn (c : Bool) : Pos2 → Bool
  | .acq _ | .clR | .clE | .uw | .aR | .lc | .mg | .ci | .sr | .rR | .nt | .rel _ => c
  | _ => false

theorem mem_code2_uw (L : List Nat) (c : Bool) (p : Pos2) : Micro.userWrites ∈ code2 L c p ↔ uwIn p = true := by
  cases p <;> cases c <;> simp [-List.map_drop, code2, cEnd2, csTail, relTail, uwIn]

theorem mem_code2_sr (L : List Nat) (c : Bool) (p : Pos2) : Micro.act .storeRoot ∈ code2 L c p ↔ srIn c p = true := by
  cases p <;> cases c <;> simp [-List.map_drop, code2, cEnd2, csTail, relTail, srIn]

theorem mem_code2_nt (L : List Nat) (c : Bool) (p : Pos2) : Micro.act .notify ∈ code2 L c p ↔ ntIn c p = true := by
  cases p <;> cases c <;> simp [-List.map_drop, code2, cEnd2, csTail, relTail, ntIn]

theorem mem_code2_cl (L : List Nat) (c : Bool) (p : Pos2) : Micro.act .closeInit ∈ code2 L c p ↔ clIn c p = true := by
  cases p <;> cases c <;> simp [-List.map_drop, code2, cEnd2, csTail, relTail, clIn]

/-- membership of the tracked micro steps in the program, read off the position -/
theorem tracked_of_pos (th : Thread) (L : List Nat) (c : Bool) (p : Pos2) (h : strip2 th.prog = code2 L c p) :
    (Micro.userWrites ∈ th.prog ↔ uwIn p = true) ∧ (Micro.act .storeRoot ∈ th.prog ↔ srIn c p = true) ∧
    (Micro.act .notify ∈ th.prog ↔ ntIn c p = true) ∧ (Micro.act .closeInit ∈ th.prog ↔ clIn c p = true) := by
  refine ⟨?_, ?_, ?_, ?_⟩
  · rw [← mem_strip2 _ _ (by rfl), h]; exact mem_code2_uw L c p
  · rw [← mem_strip2 _ _ (by rfl), h]; exact mem_code2_sr L c p
  · rw [← mem_strip2 _ _ (by rfl), h]; exact mem_code2_nt L c p
  · rw [← mem_strip2 _ _ (by rfl), h]; exact mem_code2_cl L c p

/-- the tables whose committed version the thread relies on at a position -/
def stable (L : List Nat) : Pos2 → List Nat
  | .clR | .clE | .uw | .aR | .lc | .mg | .ci | .sr | .rR | .nt => L
  | .rel k => L.drop k
  | _ => []

theorem stable_between (L : List Nat) (c : Bool) (p : Pos2) (x : Nat) (hx : x ∈ stable L p) :
    Micro.release x ∈ code2 L c p ∧ Micro.acquire x ∉ code2 L c p := by
  cases p <;> cases c <;> simp_all [-List.map_drop, stable, code2, cEnd2, csTail, relTail]

/-- positions at which the thread relies on the committed root as a whole -/
def needsMu : Pos2 → Bool
  | .mg | .ci | .sr | .gP | .gS => true
  | _ => false

theorem needsMu_between (L : List Nat) (c : Bool) (p : Pos2) (hp : needsMu p = true) :
    Micro.releaseRoot ∈ code2 L c p ∧ Micro.acquireRoot ∉ code2 L c p := by
  cases p <;> cases c <;> simp_all [-List.map_drop, needsMu, code2, csTail, relTail]

/-- a thread between its acquisition and its release of the root mutex owns it -/
theorem rootMu_of_between (st : State) (cs : List Bool) (h : Sim st cs) (tid : Nat) (th : Thread)
    (hth : st.threads[tid]? = some th) (hrel : Micro.releaseRoot ∈ th.prog) (hacq : Micro.acquireRoot ∉ th.prog) :
    st.rootMu = some tid := by
  obtain ⟨s, hs, hR, _⟩ := h
  obtain ⟨t, ht, htabs, hb, p, hp, hcs, hl⟩ := hR.thr tid th hth
  have hrel' : Micro.releaseRoot ∈ code (lockList th) t.commit p := by
    rw [← hp, mem_strip _ _ (by rfl)]; exact hrel
  have hacq' : Micro.acquireRoot ∉ code (lockList th) t.commit p := by
    rw [← hp, mem_strip _ _ (by rfl)]; exact hacq
  apply hcs.2
  cases p <;> cases hc : t.commit <;>
    simp_all [-List.map_drop, code, cEnd, inCS]

/-! ### the facts about one thread -/

/-- what `collectInit` does to one entry: the init record of a table that became
    initialized is dropped -/
def clr (e : TableV) : TableV :=
  if e.initWatch ≠ 0 ∧ !e.initPending then { e with initWatch := 0 } else e

/-- the init channels `collectInit` picks from the private entries of the tables `D` -/
def toClose (es : List TableV) (D : List Nat) : List Nat :=
  D.filterMap fun i => if (getT es i).initWatch ≠ 0 ∧ !(getT es i).initPending then some (getT es i).initWatch else none

/-- the root the writer loaded is still the committed one on its tables -/
def Seen (root : List TableV) (th : Thread) : Prop :=
  ∀ x ∈ lockList th, x < th.oldRoot.length ∧ getT th.oldRoot x = getT root x

/-- after the user's writes -/
def Wr (th : Thread) : Prop :=
  th.locked = dedup th.tables ∧ th.entries.length = th.oldRoot.length ∧
  (∀ x ∈ lockList th, x < th.oldRoot.length ∧
    ∃ n, getT th.entries x = uwEntry (th.regInit.contains x) (th.markInit.contains x) n (getT th.oldRoot x)) ∧
  th.toNotify = (dedup th.tables).map (fun x => (getT th.oldRoot x).watch)

/-- after `mergeUnlocked` -/
def Mg (th : Thread) : Prop :=
  th.newRoot.length = th.curRoot.length ∧ ∀ x, x < th.curRoot.length →
    (x ∈ lockList th → getT th.newRoot x = getT th.entries x) ∧
    (x ∉ lockList th → getT th.newRoot x = getT th.curRoot x)

/-- after `collectInit` -/
def Ci (th : Thread) : Prop :=
  th.newRoot.length = th.curRoot.length ∧ ∀ x, x < th.curRoot.length →
    (x ∈ lockList th → getT th.newRoot x = clr (getT th.entries x)) ∧
    (x ∉ lockList th → getT th.newRoot x = getT th.curRoot x)

def CiI (th : Thread) : Prop :=
  th.initToClose = toClose th.entries (dedup th.tables) ∧ ∀ w ∈ th.toNotify, w ∉ th.initToClose

/-- the committed versions of the tables `S` are the ones this writer stored -/
def Stored (root : List TableV) (th : Thread) (S : List Nat) : Prop :=
  ∀ x ∈ S, getT root x = clr (getT th.entries x)

/-- facts about thread record `th` (commit flag `c`) at position `p`, relative to
    the committed root and the channel allocator -/
def Loc (root : List TableV) (nc : Nat) (th : Thread) (c : Bool) : Pos2 → Prop
  | .acq _ => True
  | .clR => Seen root th
  | .clE => Seen root th ∧ th.entries = th.oldRoot
  | .uw => Seen root th ∧ th.entries = th.oldRoot ∧ th.locked = dedup th.tables
  | .aR => c = true ∧ Seen root th ∧ Wr th
  | .lc => c = true ∧ Seen root th ∧ Wr th
  | .mg => c = true ∧ Seen root th ∧ Wr th ∧ th.curRoot = root
  | .ci => c = true ∧ Seen root th ∧ Wr th ∧ th.curRoot = root ∧ Mg th
  | .sr => c = true ∧ Seen root th ∧ Wr th ∧ th.curRoot = root ∧ Ci th ∧
      th.initToClose = toClose th.entries (dedup th.tables)
  | .rR => c = true ∧ Wr th ∧ CiI th ∧ Stored root th (lockList th)
  | .nt => c = true ∧ Wr th ∧ CiI th ∧ Stored root th (lockList th)
  | .rel k => Wr th ∧ (c = true → CiI th ∧ Stored root th ((lockList th).drop k))
  | .fin => c = true ∧ Wr th ∧ CiI th
  | .gA => c = false ∧ th.tables = []
  | .gL => c = false ∧ th.tables = []
  | .gP => c = false ∧ th.tables = [] ∧ th.curRoot = root
  | .gS => c = false ∧ th.tables = [] ∧ th.newRoot = root ++ [{ watch := nc }] ∧
      th.prog.head? = some (.act .storeRoot)
  | .gR => c = false ∧ th.tables = []
  | .gE => c = false ∧ th.tables = []
  | .dA => c = false ∧ th.tables = []
  | .dL => c = false ∧ th.tables = []
  | .dR => c = false ∧ th.tables = []

/-- `Loc` survives a change of the shared state that keeps the tables the thread
    relies on (and, inside its root critical section, the whole root) -/
theorem Loc_frame (root root' : List TableV) (nc nc' : Nat) (th : Thread) (c : Bool) (p : Pos2)
    (h : Loc root nc th c p)
    (hst : ∀ x ∈ stable (lockList th) p, getT root' x = getT root x)
    (hmu : needsMu p = true → root' = root ∧ nc' = nc) : Loc root' nc' th c p := by
  cases p with
  | acq k => trivial
  | clR => exact fun x hx => ⟨(h x hx).1, by rw [hst x hx]; exact (h x hx).2⟩
  | clE => exact ⟨fun x hx => ⟨(h.1 x hx).1, by rw [hst x hx]; exact (h.1 x hx).2⟩, h.2⟩
  | uw => exact ⟨fun x hx => ⟨(h.1 x hx).1, by rw [hst x hx]; exact (h.1 x hx).2⟩, h.2⟩
  | aR => exact ⟨h.1, fun x hx => ⟨(h.2.1 x hx).1, by rw [hst x hx]; exact (h.2.1 x hx).2⟩, h.2.2⟩
  | lc => exact ⟨h.1, fun x hx => ⟨(h.2.1 x hx).1, by rw [hst x hx]; exact (h.2.1 x hx).2⟩, h.2.2⟩
  | mg => rw [(hmu rfl).1, (hmu rfl).2]; exact h
  | ci => rw [(hmu rfl).1, (hmu rfl).2]; exact h
  | sr => rw [(hmu rfl).1, (hmu rfl).2]; exact h
  | rR => exact ⟨h.1, h.2.1, h.2.2.1, fun x hx => by rw [hst x hx]; exact h.2.2.2 x hx⟩
  | nt => exact ⟨h.1, h.2.1, h.2.2.1, fun x hx => by rw [hst x hx]; exact h.2.2.2 x hx⟩
  | rel k => exact ⟨h.1, fun hc => ⟨(h.2 hc).1, fun x hx => by rw [hst x hx]; exact (h.2 hc).2 x hx⟩⟩
  | fin => exact h
  | gA => exact h
  | gL => exact h
  | gP => rw [(hmu rfl).1]; exact h
  | gS => rw [(hmu rfl).1, (hmu rfl).2]; exact h
  | gR => exact h
  | gE => exact h
  | dA => exact h
  | dL => exact h
  | dR => exact h

/-! ### channel roles -/

/-- channels of one table version: its watch channel and its init channel (if any) -/
def chansOf (e : TableV) (w : Nat) : Prop := w = e.watch ∨ (w = e.initWatch ∧ w ≠ 0)

/-- `w` is a channel of the committed root -/
def rootChan (root : List TableV) (w : Nat) : Prop := ∃ x, x < root.length ∧ chansOf (getT root x) w

/-- channels the writer allocated for table `x` in its `userWrites` -/
def freshOf (th : Thread) (x : Nat) (w : Nat) : Prop :=
  w = (getT th.entries x).watch ∨ (w = (getT th.entries x).initWatch ∧ (getT th.oldRoot x).initWatch = 0 ∧ w ≠ 0)

def fresh (th : Thread) (w : Nat) : Prop := ∃ x ∈ lockList th, freshOf th x w

/-- the writer has written and (if it commits) not yet stored -/
def freshPhase (th : Thread) (c : Bool) : Prop :=
  Micro.userWrites ∉ th.prog ∧ (c = false ∨ Micro.act .storeRoot ∈ th.prog)

/-- `w` is private to the thread: allocated and not yet stored (or never stored,
    when aborting); or replaced / collected by its store and not yet closed -/
def priv (th : Thread) (c : Bool) (w : Nat) : Prop :=
  (freshPhase th c ∧ fresh th w) ∨
  (c = true ∧ Micro.act .storeRoot ∉ th.prog ∧ Micro.act .notify ∈ th.prog ∧ w ∈ th.toNotify) ∨
  (c = true ∧ Micro.act .storeRoot ∉ th.prog ∧ Micro.act .closeInit ∈ th.prog ∧ w ∈ th.initToClose)

/-- the channels allocated for different tables are different -/
def FI (th : Thread) (c : Bool) : Prop :=
  freshPhase th c → ∀ x ∈ lockList th, ∀ y ∈ lockList th, x ≠ y → ∀ w, freshOf th x w → freshOf th y w → False

/-- per-thread part of the invariant -/
def ThreadOK (root : List TableV) (nc : Nat) (th : Thread) (c : Bool) : Prop :=
  (∀ x ∈ lockList th, x < root.length) ∧ adjOK th.prog = true ∧
  ∃ p, strip2 th.prog = code2 (lockList th) c p ∧ Loc root nc th c p

structure CI (st : State) (cs : List Bool) (run : Option Nat) : Prop where
  len : cs.length = st.threads.length
  nc : 1 ≤ st.nextChan
  bR : ∀ w, rootChan st.root w → w < st.nextChan
  bC : ∀ w, w ∈ st.closed → w < st.nextChan
  bP : ∀ (tid : Nat) th c w, st.threads[tid]? = some th → cs[tid]? = some c → priv th c w → w < st.nextChan
  RC : ∀ w, rootChan st.root w → w ∉ st.closed
  PC : ∀ (tid : Nat) th c w, st.threads[tid]? = some th → cs[tid]? = some c → priv th c w → w ∉ st.closed
  PR : ∀ (tid : Nat) th c w, st.threads[tid]? = some th → cs[tid]? = some c → priv th c w → ¬ rootChan st.root w
  PP : ∀ (tid tid' : Nat) th th' c c' w, tid ≠ tid' → st.threads[tid]? = some th → st.threads[tid']? = some th' →
    cs[tid]? = some c → cs[tid']? = some c' → priv th c w → priv th' c' w → False
  RI : ∀ x y, x < st.root.length → y < st.root.length → x ≠ y →
    ∀ w, chansOf (getT st.root x) w → chansOf (getT st.root y) w → False
  RW : ∀ x, x < st.root.length → (getT st.root x).initWatch ≠ 0 →
    (getT st.root x).watch ≠ (getT st.root x).initWatch
  FIc : ∀ (tid : Nat) th c, st.threads[tid]? = some th → cs[tid]? = some c → FI th c
  IP : ∀ x, x < st.root.length → ((getT st.root x).initPending = true ↔ (getT st.root x).initWatch ≠ 0)
  RV : ∀ x, x < st.root.length → (getT st.root x).rev = (getT st.root x).cnt
  CO : ∀ w, w ∈ st.closed → ∃ (tid : Nat) (th : Thread), st.threads[tid]? = some th ∧ cs[tid]? = some true ∧
    Micro.act .storeRoot ∉ th.prog ∧
    ((Micro.act .notify ∉ th.prog ∧ w ∈ th.toNotify) ∨ (Micro.act .closeInit ∉ th.prog ∧ w ∈ th.initToClose))
  TH : ∀ (tid : Nat) th, st.threads[tid]? = some th → ∃ c, cs[tid]? = some c ∧ ThreadOK st.root st.nextChan th c
  RS : ∀ (tid : Nat) th, st.threads[tid]? = some th → some tid ≠ run → th.prog.head? ≠ some (.act .storeRoot)

end Sdb.Conc
