import SdbModel.Lemmas.ConcSimMicro

/-!
  ConcSimWrites — what the local actions of `Model.Conc` do to the fields the
  simulation talks about: `doUserWrites` adds one to the counter of every held
  table in the private entries and touches nothing shared except `nextChan`;
  frame facts of `doAct`; `getT`/`setT` algebra.  Core Lean only.
-/
namespace Sdb.Conc

theorem getT_setT (l : List TableV) (i x : Nat) (v : TableV) :
    getT (setT l i v) x = if x = i ∧ i < l.length then v else getT l x := by
  unfold getT setT
  by_cases h : x = i
  · subst h
    by_cases hl : x < l.length
    · simp [hl]
    · simp [hl]
  · have : ¬ i = x := fun e => h e.symm
    simp [h, this]

theorem length_setT (l : List TableV) (i : Nat) (v : TableV) : (setT l i v).length = l.length := by
  simp [setT]

/-- the body of the loop of `doUserWrites` -/
def uwF (th : Thread) (acc : State × List TableV × List Nat) (i : Nat) : State × List TableV × List Nat :=
  let (st, es, nt) := acc
  let e := getT es i
  let e' := { e with cnt := e.cnt + 1, rev := e.rev + 1, watch := st.nextChan }
  let st := { st with nextChan := st.nextChan + 1 }
  let (st, e') :=
    if th.regInit.contains i then
      if e'.initWatch = 0 then ({ st with nextChan := st.nextChan + 1 }, { e' with initPending := true, initWatch := st.nextChan })
      else (st, { e' with initPending := true })
    else (st, e')
  let e' := if th.markInit.contains i then { e' with initPending := false } else e'
  (st, setT es i e', e.watch :: nt)

theorem doUserWrites_eq (st : State) (th : Thread) :
    doUserWrites st th =
      ((th.locked.foldl (uwF th) (st, th.entries, [])).1,
       { th with entries := (th.locked.foldl (uwF th) (st, th.entries, [])).2.1,
                 toNotify := (th.locked.foldl (uwF th) (st, th.entries, [])).2.2.reverse }) := rfl

/-- one iteration: shared state untouched except `nextChan`; entry `i` gets
    its counter incremented -/
theorem uwF_spec (th : Thread) (acc : State × List TableV × List Nat) (i : Nat) :
    (uwF th acc i).1.root = acc.1.root ∧ (uwF th acc i).1.lockOwner = acc.1.lockOwner ∧
    (uwF th acc i).1.rootMu = acc.1.rootMu ∧ (uwF th acc i).1.threads = acc.1.threads ∧
    ∃ v : TableV, v.cnt = (getT acc.2.1 i).cnt + 1 ∧ (uwF th acc i).2.1 = setT acc.2.1 i v := by
  obtain ⟨st, es, nt⟩ := acc
  by_cases h1 : th.regInit.contains i = true <;> by_cases h2 : (getT es i).initWatch = 0 <;>
    by_cases h3 : th.markInit.contains i = true <;>
    simp only [uwF, h1, h2, h3, if_true, if_false] <;>
    (refine ⟨?_, ?_, ?_, ?_, _, ?_, rfl⟩ <;> first | rfl | trivial)

theorem uw_fold_spec (th : Thread) : ∀ (ls : List Nat) (acc : State × List TableV × List Nat),
    (ls.foldl (uwF th) acc).1.root = acc.1.root ∧ (ls.foldl (uwF th) acc).1.lockOwner = acc.1.lockOwner ∧
    (ls.foldl (uwF th) acc).1.rootMu = acc.1.rootMu ∧ (ls.foldl (uwF th) acc).1.threads = acc.1.threads ∧
    (ls.foldl (uwF th) acc).2.1.length = acc.2.1.length ∧
    ∀ x, x < acc.2.1.length → (getT (ls.foldl (uwF th) acc).2.1 x).cnt = (getT acc.2.1 x).cnt + ls.count x := by
  intro ls
  induction ls with
  | nil => intro acc; simp
  | cons i ls ih =>
    intro acc
    simp only [List.foldl_cons]
    obtain ⟨h1, h2, h3, h4, h5, h6⟩ := ih (uwF th acc i)
    obtain ⟨g1, g2, g3, g4, v, gv, ge⟩ := uwF_spec th acc i
    refine ⟨h1.trans g1, h2.trans g2, h3.trans g3, h4.trans g4, ?_, ?_⟩
    · rw [h5, ge, length_setT]
    · intro x hx
      rw [h6 x (by rw [ge, length_setT]; exact hx), ge, getT_setT, List.count_cons]
      by_cases hxi : x = i
      · subst hxi; simp [hx, gv]; omega
      · have : ¬ i = x := fun e => hxi e.symm
        simp [hxi, this]

/-- `doUserWrites`: the shared state keeps root, mutexes and thread records;
    the private entries keep their length and every counter grows by the number
    of times its table occurs in `locked` -/
theorem doUserWrites_spec (st : State) (th : Thread) :
    (doUserWrites st th).1.root = st.root ∧ (doUserWrites st th).1.lockOwner = st.lockOwner ∧
    (doUserWrites st th).1.rootMu = st.rootMu ∧ (doUserWrites st th).1.threads = st.threads ∧
    (doUserWrites st th).2.entries.length = th.entries.length ∧
    (∀ x, x < th.entries.length →
      (getT (doUserWrites st th).2.entries x).cnt = (getT th.entries x).cnt + th.locked.count x) ∧
    (doUserWrites st th).2.prog = th.prog ∧ (doUserWrites st th).2.tables = th.tables ∧
    (doUserWrites st th).2.locked = th.locked ∧ (doUserWrites st th).2.curRoot = th.curRoot ∧
    (doUserWrites st th).2.newRoot = th.newRoot ∧ (doUserWrites st th).2.oldRoot = th.oldRoot ∧
    (doUserWrites st th).2.done = th.done := by
  rw [doUserWrites_eq]
  obtain ⟨h1, h2, h3, h4, h5, h6⟩ := uw_fold_spec th th.locked (st, th.entries, [])
  exact ⟨h1, h2, h3, h4, h5, h6, rfl, rfl, rfl, rfl, rfl, rfl, rfl⟩

theorem doAct_threads (st : State) (th : Thread) (a : Act) : (doAct st th a).1.threads = st.threads := by
  cases a <;> rfl

theorem doAct_lockOwner (st : State) (th : Thread) (a : Act) : (doAct st th a).1.lockOwner = st.lockOwner := by
  cases a <;> rfl

theorem doAct_rootMu (st : State) (th : Thread) (a : Act) : (doAct st th a).1.rootMu = st.rootMu := by
  cases a <;> rfl

theorem doAct_tables (st : State) (th : Thread) (a : Act) : (doAct st th a).2.tables = th.tables := by
  cases a <;> rfl

theorem doAct_prog (st : State) (th : Thread) (a : Act) : (doAct st th a).2.prog = th.prog := by
  cases a <;> rfl

/-- no micro step touches the (stale) thread list -/
theorem mstep_threads (st : State) (tid : Nat) (th : Thread) (st' : State) (th' : Thread)
    (h : mstep st tid th = some (st', th')) : st'.threads = st.threads := by
  unfold mstep at h
  split at h
  · split at h
    · simp at h
    · simp only [Option.some.injEq, Prod.mk.injEq] at h; rw [← h.1]
  · rename_i m rest hp
    cases m with
    | park l => simp only [Option.some.injEq, Prod.mk.injEq] at h; rw [← h.1]
    | acquire t =>
      simp only at h
      split at h
      · simp at h
      · simp only [Option.some.injEq, Prod.mk.injEq] at h; rw [← h.1]
    | release t => simp only [Option.some.injEq, Prod.mk.injEq] at h; rw [← h.1]
    | acquireRoot =>
      simp only at h
      split at h
      · simp at h
      · simp only [Option.some.injEq, Prod.mk.injEq] at h; rw [← h.1]
    | releaseRoot => simp only [Option.some.injEq, Prod.mk.injEq] at h; rw [← h.1]
    | act a =>
      simp only [Option.some.injEq] at h
      have := doAct_threads st { th with prog := rest } a
      rw [h] at this; exact this
    | userWrites =>
      simp only [Option.some.injEq] at h
      have := (doUserWrites_spec st { th with prog := rest }).2.2.2.1
      rw [h] at this; exact this

theorem mstar_threads {tid : Nat} {a b : State × Thread} (h : MStar tid a b) : b.1.threads = a.1.threads := by
  induction h with
  | refl => rfl
  | tail b c _ hs ih => rw [← ih]; exact mstep_threads b.1 tid b.2 c.1 c.2 hs

end Sdb.Conc
