import SdbModel.Lemmas.IndexUnique
import SdbModel.Lemmas.IndexTagsQ
import SdbModel.Lemmas.IndexLpmQ
/-!
  C04: the table-level index invariant `IdxInv` (primary index well formed, `TagInv` for the
  non-unique index, `UInv` for the unique index and `LInv` for the two LPM indexes of a table that
  has them), its preservation by
  `modify` / `delete` / `deleteAll`, and the lifting to every table of a database state (committed
  root and open write transaction) reachable by operation sequences.  Core Lean only.
-/
namespace Sdb.Tbl
open OMap

@[simp] theorem newObj_tags (t : TableS) (o : Obj) (m : Bool) : (newObj t o m).tags = o.tags := by
  unfold newObj; split <;> rfl
@[simp] theorem newObj_uvar (t : TableS) (o : Obj) (m : Bool) : (newObj t o m).uvar = o.uvar := by
  unfold newObj; split <;> rfl
attribute [simp] newObj_pfxs newObj_upKey
@[simp] theorem newObj_up (t : TableS) (o : Obj) (m : Bool) : (newObj t o m).up = o.up := by
  unfold newObj; split <;> rfl
@[simp] theorem newObj_ord (t : TableS) (o : Obj) (m : Bool) : (newObj t o m).ord = o.ord := by
  unfold newObj; split <;> rfl
@[simp] theorem newObj_ukey (t : TableS) (o : Obj) (m : Bool) : (newObj t o m).ukey = o.ukey := by
  simp [Obj.ukey]

/-- what the caller guarantees about an object it writes: the primary key is a byte string whose
    escaped form is shorter than `B` (`B = 65536`: the uint16 length field of the composite keys;
    `B = 256`: the bound under which composite keys order by primary key, K2) -/
structure ObjOk (B : Nat) (o : Obj) : Prop where
  bytes : ∀ b ∈ o.id, b < 256
  idLen : (P.enc o.id).length < B
  /-- the LPM keys are byte strings long enough for their prefix length (`EncodeLPMKey` panics otherwise) -/
  pfxOk : ∀ k ∈ o.pfxs, LKeyOk k

/-- the documented precondition of a UNIQUE index, for the unique LPM index (whose key is derived from
    `ord`): no OTHER live object has the key of the written object -/
def UniqOk (t : TableS) (o : Obj) : Prop :=
  ∀ pk x, t.primary.get pk = some x → pk ≠ o.id → x.up = true → o.up = true → x.ord % 65536 ≠ o.ord % 65536

theorem ObjOk_iff (B : Nat) (o : Obj) :
    ObjOk B o ↔ (∀ b ∈ o.id, b < 256) ∧ (P.enc o.id).length < B ∧ ∀ k ∈ o.pfxs, LKeyOk k :=
  ⟨fun h => ⟨h.bytes, h.idLen, h.pfxOk⟩, fun h => ⟨h.1, h.2.1, h.2.2⟩⟩

instance (k : Key × Nat) : Decidable (LKeyOk k) := by unfold LKeyOk; infer_instance
instance (B : Nat) (o : Obj) : Decidable (ObjOk B o) := decidable_of_iff _ (ObjOk_iff B o).symm

/-- `UniqOk` checked over the entries of the primary index -/
theorem UniqOk_of_all (t : TableS) (o : Obj)
    (h : ∀ e ∈ t.primary, e.1 ≠ o.id → e.2.up = true → o.up = true → e.2.ord % 65536 ≠ o.ord % 65536) :
    UniqOk t o :=
  fun pk x hx => h (pk, x) (get_some_mem _ _ _ hx)

/-- an object without a unique-LPM key never violates the uniqueness precondition -/
theorem UniqOk_of_not_up (t : TableS) (o : Obj) (h : o.up = false) : UniqOk t o :=
  fun _ _ _ _ _ hu => by rw [h] at hu; exact absurd hu (by decide)

/-- **the index invariant of a table** -/
structure IdxInv (B : Nat) (t : TableS) : Prop where
  pOk : POk t.primary
  idLen : IdLen B t.primary
  tag : TagInv t.primary t.tagIdx
  u : t.full = true → UInv t.primary t.uIdx
  lpm : t.full = true → LInv false (·.pfxs) t.primary t.lpm
  ulpm : t.full = true → LInv true (·.upKey) t.primary t.ulpm

/-- same index contents (the fields the invariant and the queries read) -/
structure SameIdx (t t' : TableS) : Prop where
  primary : t'.primary = t.primary
  tagIdx : t'.tagIdx = t.tagIdx
  uIdx : t'.uIdx = t.uIdx
  lpm : t'.lpm = t.lpm
  ulpm : t'.ulpm = t.ulpm
  full : t'.full = t.full

theorem SameIdx.refl (t : TableS) : SameIdx t t := ⟨rfl, rfl, rfl, rfl, rfl, rfl⟩

theorem IdxInv.congr {B : Nat} {t t' : TableS} (inv : IdxInv B t) (h : SameIdx t t') : IdxInv B t' := by
  obtain ⟨a, b, c, d, e, f⟩ := inv
  constructor
  · rw [h.primary]; exact a
  · rw [h.primary]; exact b
  · rw [h.primary, h.tagIdx]; exact c
  · rw [h.primary, h.uIdx, h.full]; exact d
  · rw [h.primary, h.lpm, h.full]; exact e
  · rw [h.primary, h.ulpm, h.full]; exact f

theorem IdxInv.empty (B : Nat) (t : TableS) (hp : t.primary = []) (ht : t.tagIdx = []) (hu : t.uIdx = [])
    (hl : t.lpm = {}) (hul : t.ulpm = {}) : IdxInv B t := by
  constructor
  · rw [hp]; exact POk.nil
  · rw [hp]; exact IdLen.nil B
  · rw [hp, ht]; exact TagInv.nil
  · intro _; rw [hp, hu]; exact UInv.nil
  · intro _; rw [hp, hl]; exact LInv.empty _ _
  · intro _; rw [hp, hul]; exact LInv.empty _ _

theorem IdxInv.modOk {B : Nat} {t t' : TableS} {o : Obj} {m : Bool} (inv : IdxInv B t) (ho : ObjOk B o)
    (hu : t.full = true → UniqOk t o) (hm : ModOk t o m t') (hi : ModIdx t o m t') : IdxInv B t' := by
  have hid : (newObj t o m).id = o.id := newObj_id t o m
  constructor
  · rw [hm.primary, ← hid]; exact inv.pOk.insert _
  · rw [hm.primary, ← hid]; exact inv.idLen.insert _ (by rw [hid]; exact ho.idLen)
  · rw [hm.primary, hi.tagIdx, ← hid]; exact inv.tag.reindex_modify _
  · intro hf
    rw [hm.full] at hf
    rw [hm.primary, hi.uIdx, if_pos hf, ← hid]
    exact (inv.u hf).reindex_modify inv.pOk _ (by rw [hid]; exact ho.bytes)
  · intro hf
    rw [hm.full] at hf
    exact LInv.modify_lpm hm hi hf (inv.lpm hf) inv.pOk ho.pfxOk
  · intro hf
    rw [hm.full] at hf
    exact LInv.modify_ulpm hm hi hf (inv.ulpm hf) inv.pOk (hu hf)

theorem IdxInv.delOk {B : Nat} {t t' : TableS} {id : Key} {old : Obj} (inv : IdxInv B t)
    (hs : t.primary.get id = some old) (hd : DelOk t id old t') (hi : DelIdx t id old t') : IdxInv B t' := by
  constructor
  · rw [hd.primary]; exact inv.pOk.erase _
  · rw [hd.primary]; exact inv.idLen.erase inv.pOk.sorted _
  · rw [hd.primary, hi.tagIdx]; exact inv.tag.reindex_delete inv.pOk id old hs
  · intro hf
    rw [hd.full] at hf
    rw [hd.primary, hi.uIdx, if_pos hf]
    exact (inv.u hf).reindex_delete inv.pOk id old hs
  · intro hf
    rw [hd.full] at hf
    exact LInv.delete_lpm hd hi hf hs (inv.lpm hf) inv.pOk
  · intro hf
    rw [hd.full] at hf
    exact LInv.delete_ulpm hd hi hf hs (inv.ulpm hf) inv.pOk

/-- **`modify` (Insert / Modify / CompareAndSwap) preserves the index invariant**, for every argument -/
theorem IdxInv.modify_preserves {B : Nat} {t : TableS} (inv : IdxInv B t) (g : Nat) (o : Obj) (m : Bool)
    (ho : ObjOk B o) (hu : t.full = true → UniqOk t o) : IdxInv B (modify t g o m).1 := by
  rcases modify_cases t g o m with ⟨_, h⟩ | ⟨_, _, _, h⟩ | ⟨_, _, oo, _, _, h⟩ | ⟨hl, hg, t', h, hm⟩
  · rw [h]; exact inv
  · rw [h]; exact inv
  · rw [h]; exact inv
  · have hi := modify_ok_idx t g o m hl hg
    rw [h] at hi ⊢
    exact inv.modOk ho hu hm hi

/-- **`delete` (Delete / CompareAndDelete) preserves the index invariant**, for every argument -/
theorem IdxInv.delete_preserves {B : Nat} {t : TableS} (inv : IdxInv B t) (g : Nat) (id : Key) :
    IdxInv B (delete t g id).1 := by
  rcases delete_cases t g id with ⟨_, h⟩ | ⟨_, _, h⟩ | ⟨_, _, oo, _, _, h⟩ | ⟨hl, old, hs, hg, t', h, hd⟩
  · rw [h]; exact inv
  · rw [h]; exact inv
  · rw [h]; exact inv
  · have hi := delete_ok_idx t g id hl old hs hg
    rw [h] at hi ⊢
    exact inv.delOk hs hd hi

theorem IdxInv.delFold_preserves {B : Nat} {t : TableS} (inv : IdxInv B t) (l : List (Key × Obj)) :
    IdxInv B (delFold l t) := by
  induction l generalizing t with
  | nil => exact inv
  | cons x l ih => rw [delFold_cons]; exact ih (inv.delete_preserves 0 x.1)

/-- **`DeleteAll` preserves the index invariant** -/
theorem IdxInv.deleteAll_preserves {B : Nat} {t : TableS} (inv : IdxInv B t) : IdxInv B (deleteAll t).1 := by
  rw [deleteAll_eq]
  cases t.locked
  · exact inv
  · exact inv.delFold_preserves _

/-- admissible table-level operations (`Tbl.Op`, Lemmas/Table.lean): a written object satisfies `ObjOk`
    and, on a table with a unique LPM index, the uniqueness precondition in the current state -/
def Op.Ok (B : Nat) (t : TableS) : Op → Prop
  | .modify _ o _ => ObjOk B o ∧ (t.full = true → UniqOk t o)
  | .delete _ _ => True

/-- every operation of the sequence is admissible in the state it is applied to -/
def RunOk (B : Nat) (t : TableS) : List Op → Prop
  | [] => True
  | op :: ops => op.Ok B t ∧ RunOk B (op.apply t).1 ops

theorem IdxInv.run {B : Nat} {t : TableS} (inv : IdxInv B t) (ops : List Op) (hops : RunOk B t ops) :
    IdxInv B (Tbl.run t ops) := by
  induction ops generalizing t with
  | nil => exact inv
  | cons op ops ih =>
    simp only [Tbl.run]
    obtain ⟨h1, h2⟩ := hops
    apply ih _ h2
    cases op with
    | modify g o m => exact inv.modify_preserves g o m h1.1 h1.2
    | delete g id => exact inv.delete_preserves g id

/-! ### every table of a database state -/

/-- the committed tables and the tables of the open write transaction -/
def DB.tables (db : DB) : List TableS := db.root ++ db.wtxn.getD []

/-- admissible database operations: a written object satisfies `ObjOk` and, on a table with a unique
    LPM index, the uniqueness precondition in the current state of that table of the write transaction -/
def DbOp.Ok (B : Nat) (db : DB) : DbOp → Prop
  | .modify ti _ o _ => ObjOk B o ∧
      match db.wtxn with
      | some es => (DB.wTable es ti).full = true → UniqOk (DB.wTable es ti) o
      | none => True
  | _ => True

theorem gcFold_idx (ks : List Key) (t : TableS) :
    SameIdx t (ks.foldl (fun t k =>
        match t.graveRev.get k with
        | some o => { t with graveRev := t.graveRev.erase k, grave := t.grave.erase o.id }
        | none => t) t) := by
  induction ks generalizing t with
  | nil => exact SameIdx.refl t
  | cons k ks ih =>
    simp only [List.foldl_cons]
    split
    · have := ih { t with graveRev := t.graveRev.erase k, grave := t.grave.erase ‹Obj›.id }
      exact ⟨this.primary, this.tagIdx, this.uIdx, this.lpm, this.ulpm, this.full⟩
    · exact ih t

theorem mem_set_cases {es : List TableS} {ti : Nat} {x t' : TableS} (h : t' ∈ es.set ti x) :
    t' ∈ es ∨ (t' = x ∧ DB.wTable es ti ∈ es) := by
  rcases Nat.lt_or_ge ti es.length with hlt | hge
  · rcases List.mem_or_eq_of_mem_set h with h | h
    · exact Or.inl h
    · refine Or.inr ⟨h, ?_⟩
      rw [DB.wTable_of_getElem? (List.getElem?_eq_getElem hlt)]
      exact List.getElem_mem hlt
  · rw [List.set_eq_of_length_le hge] at h; exact Or.inl h

/-- the index invariant of all tables (root and write transaction) -/
def DIdx (B : Nat) (db : DB) : Prop := ∀ t ∈ db.tables, IdxInv B t

theorem DIdx.newDB (B : Nat) : DIdx B newDB := by
  intro t ht
  simp only [DB.tables, Tbl.newDB, Option.getD_none, List.append_nil, List.mem_cons, List.not_mem_nil,
    or_false] at ht
  rcases ht with rfl | rfl <;> exact IdxInv.empty B _ rfl rfl rfl rfl rfl

theorem DIdx.root {B : Nat} {db : DB} (h : DIdx B db) : ∀ t ∈ db.root, IdxInv B t :=
  fun t ht => h t (List.mem_append_left _ ht)

theorem DIdx.txn {B : Nat} {db : DB} (h : DIdx B db) (es : List TableS) (hes : db.wtxn = some es) :
    ∀ t ∈ es, IdxInv B t :=
  fun t ht => h t (List.mem_append_right _ (by rw [hes]; exact ht))

theorem DIdx.mk' {B : Nat} {db : DB} (hr : ∀ t ∈ db.root, IdxInv B t)
    (hw : ∀ es, db.wtxn = some es → ∀ t ∈ es, IdxInv B t) : DIdx B db := by
  intro t ht
  rcases List.mem_append.mp ht with h | h
  · exact hr t h
  · cases hes : db.wtxn with
    | none => rw [hes] at h; simp at h
    | some es => rw [hes] at h; exact hw es hes t h

/-- **every database operation preserves the index invariant of every table** -/
theorem DIdx.step {B : Nat} {db : DB} (inv : DIdx B db) (op : DbOp) (hop : op.Ok B db) : DIdx B (db.step op) := by
  cases op with
  | beginW lm la =>
    simp only [DB.step]
    split
    · exact inv
    · apply DIdx.mk'
      · exact inv.root
      · intro es hes t ht
        simp only [DB.beginW, Option.some.injEq] at hes
        subst hes
        obtain ⟨i, hi, rfl⟩ := List.mem_mapIdx.mp ht
        exact (inv.root _ (List.getElem_mem hi)).congr ⟨rfl, rfl, rfl, rfl, rfl, rfl⟩
  | modify ti g o m =>
    simp only [DB.step, DB.wModify]
    cases hes : db.wtxn with
    | none => exact inv
    | some es =>
      apply DIdx.mk'
      · exact inv.root
      · intro es' hes' t ht
        simp only [Option.some.injEq] at hes'
        subst hes'
        rcases mem_set_cases ht with h | ⟨rfl, h⟩
        · exact inv.txn es hes t h
        · have hu := hop.2
          rw [hes] at hu
          exact (inv.txn es hes _ h).modify_preserves g o m hop.1 hu
  | delete ti g id =>
    simp only [DB.step, DB.wDelete]
    cases hes : db.wtxn with
    | none => exact inv
    | some es =>
      apply DIdx.mk'
      · exact inv.root
      · intro es' hes' t ht
        simp only [Option.some.injEq] at hes'
        subst hes'
        rcases mem_set_cases ht with h | ⟨rfl, h⟩
        · exact inv.txn es hes t h
        · exact (inv.txn es hes _ h).delete_preserves g id
  | deleteAll ti =>
    simp only [DB.step, DB.wDeleteAll]
    cases hes : db.wtxn with
    | none => exact inv
    | some es =>
      apply DIdx.mk'
      · exact inv.root
      · intro es' hes' t ht
        simp only [Option.some.injEq] at hes'
        subst hes'
        rcases mem_set_cases ht with h | ⟨rfl, h⟩
        · exact inv.txn es hes t h
        · exact (inv.txn es hes _ h).deleteAll_preserves
  | track ti id =>
    simp only [DB.step, DB.wTrack]
    cases hes : db.wtxn with
    | none => exact inv
    | some es =>
      simp only
      split
      · apply DIdx.mk'
        · exact inv.root
        · intro es' hes' t ht
          simp only [Option.some.injEq] at hes'
          subst hes'
          rcases mem_set_cases ht with h | ⟨rfl, h⟩
          · exact inv.txn es hes t h
          · exact (inv.txn es hes _ h).congr ⟨rfl, rfl, rfl, rfl, rfl, rfl⟩
      · exact inv
  | commit =>
    simp only [DB.step, DB.commit]
    cases hes : db.wtxn with
    | none => exact inv
    | some es =>
      apply DIdx.mk'
      · intro t ht
        simp only [List.mem_map] at ht
        obtain ⟨⟨e, cur⟩, hz, rfl⟩ := ht
        have ⟨he, hc⟩ := List.of_mem_zip hz
        simp only
        split
        · exact (inv.txn es hes e he).congr ⟨rfl, rfl, rfl, rfl, rfl, rfl⟩
        · exact inv.root cur hc
      · intro es' h; simp at h
  | abort =>
    simp only [DB.step, DB.abort]
    exact DIdx.mk' inv.root (fun es h => by simp at h)
  | gc =>
    simp only [DB.step]
    split
    · exact inv
    · rename_i hw
      apply DIdx.mk'
      · intro t ht
        simp only [gcApply] at ht
        obtain ⟨i, hi, rfl⟩ := List.mem_mapIdx.mp ht
        have hr := inv.root _ (List.getElem_mem hi)
        split
        · exact hr
        · exact hr.congr (gcFold_idx _ _)
      · intro es hes
        have : (gcApply db (gcScan db)).wtxn = db.wtxn := rfl
        rw [this] at hes
        rw [hes] at hw; simp at hw

/-- states reachable from the fresh database by admissible operations (any interleaving of write
    transactions, writes, delete trackers, commits, aborts, graveyard collections), the revision
    counters staying inside `uint64` -/
inductive IReach (B : Nat) : DB → Prop where
  | init : IReach B newDB
  | step {db : DB} (op : DbOp) : IReach B db → (db.step op).Bounded → op.Ok B db → IReach B (db.step op)

theorem IReach.reach {B : Nat} {db : DB} (h : IReach B db) : Reach db := by
  induction h with
  | init => exact Reach.init
  | step op _ hb _ ih => exact Reach.step op ih hb

/-- **the index invariant holds for every table of every reachable state** -/
theorem IReach.inv {B : Nat} {db : DB} (h : IReach B db) : DIdx B db := by
  induction h with
  | init => exact DIdx.newDB B
  | step op _ _ hop ih => exact ih.step op hop

end Sdb.Tbl
