import SdbModel.Lemmas.ChgOMap

/-! The table invariant used by C07 / C08 (primary / revision index / graveyard /
    graveyard-revision index) and its preservation by every table operation of
    `Model.Table`. -/
namespace Sdb.Chg
open Sdb.Tbl Sdb.Tbl.OMap OMap

theorem reindexAll_fields (t : TableS) (old new : Option Obj) (id : Key) :
    let t' := reindexAll t old new id
    t'.rev = t.rev ∧ t'.primary = t.primary ∧ t'.revIdx = t.revIdx ∧ t'.grave = t.grave ∧
    t'.graveRev = t.graveRev ∧ t'.trackers = t.trackers ∧ t'.locked = t.locked ∧ t'.gen = t.gen ∧
    t'.revDirty = t.revDirty ∧ t'.init = t.init ∧ t'.full = t.full := by
  unfold reindexAll
  simp only
  split <;> simp

/-- the object `modify` stores -/
def modNew (t : TableS) (o : Obj) (merge : Bool) : Obj :=
  match t.primary.get o.id, merge with
  | some oo, true => { o with rev := t.rev + 1, val := oo.val + o.val }
  | _, _ => { o with rev := t.rev + 1 }

theorem modNew_id (t o m) : (modNew t o m).id = o.id := by
  unfold modNew; split <;> rfl
theorem modNew_rev (t o m) : (modNew t o m).rev = t.rev + 1 := by
  unfold modNew; split <;> rfl

theorem modify_spec (t : TableS) (g : Nat) (o : Obj) (m : Bool) :
    (modify t g o m).1 = t ∨
    (t.locked = true ∧ (modify t g o m).2.2 = .ok ∧
      let t' := (modify t g o m).1
      let n := modNew t o m
      t'.rev = t.rev + 1 ∧
      t'.primary = t.primary.insert o.id n ∧
      t'.revIdx = (match t.primary.get o.id with
                   | some oo => t.revIdx.erase (revKey oo.rev) | none => t.revIdx).insert (revKey (t.rev + 1)) n ∧
      t'.trackers = t.trackers ∧
      t'.grave = (match t.primary.get o.id, t.grave.get o.id with
                  | none, some _ => t.grave.erase o.id | _, _ => t.grave) ∧
      t'.graveRev = (match t.primary.get o.id, t.grave.get o.id with
                  | none, some g => t.graveRev.erase (revKey g.rev) | _, _ => t.graveRev) ∧
      t'.locked = true ∧ t'.revDirty = true ∧ t'.gen = t.gen ∧ t'.init = t.init ∧ t'.full = t.full) := by
  unfold Tbl.modify
  split
  · left; rfl
  · rename_i hl
    simp only
    split
    · left; rfl
    · split
      · left; rfl
      · right
        simp at hl
        refine ⟨hl, rfl, ?_⟩
        simp only [reindexAll_fields]
        unfold modNew
        cases hp : t.primary.get o.id <;> cases hg : t.grave.get o.id <;> cases m <;> simp [hl]

theorem delete_spec (t : TableS) (g : Nat) (id : Key) :
    (delete t g id).1 = t ∨
    (t.locked = true ∧ (delete t g id).2.2 = .ok ∧ ∃ old, t.primary.get id = some old ∧
      let t' := (delete t g id).1
      let dead : Obj := { old with rev := t.rev + 1 }
      t'.rev = t.rev + 1 ∧
      t'.primary = t.primary.erase id ∧
      t'.revIdx = t.revIdx.erase (revKey old.rev) ∧
      t'.trackers = t.trackers ∧
      t'.grave = (if t.trackers.isEmpty then t.grave else t.grave.insert id dead) ∧
      t'.graveRev = (if t.trackers.isEmpty then t.graveRev else t.graveRev.insert (revKey (t.rev + 1)) dead) ∧
      t'.locked = true ∧ t'.revDirty = true ∧ t'.gen = t.gen ∧ t'.init = t.init ∧ t'.full = t.full) := by
  unfold Tbl.delete
  split
  · left; rfl
  · rename_i hl
    simp at hl
    split
    · left; rfl
    · rename_i old hold
      split
      · left; rfl
      · right
        refine ⟨hl, rfl, old, hold, ?_⟩
        simp only [reindexAll_fields]
        split <;> simp [*, reindexAll_fields]

/-- a `modify` that reports success has advanced the table revision (it was not a no-op) -/
theorem modify_ok_rev (t : TableS) (g : Nat) (o : Obj) (m : Bool) (hok : (modify t g o m).2.2 = .ok) :
    (modify t g o m).1.rev = t.rev + 1 := by
  unfold Tbl.modify at hok ⊢
  split
  · rename_i h; rw [if_pos h] at hok; cases hok
  · rename_i h
    rw [if_neg h] at hok
    simp only at hok ⊢
    split
    · rename_i h1; rw [if_pos h1] at hok; cases hok
    · rename_i h1
      rw [if_neg h1] at hok
      split
      · rename_i h2; rw [if_pos h2] at hok; cases hok
      · simp only [reindexAll_fields]
        cases t.primary.get o.id <;> cases t.grave.get o.id <;> rfl

/-- a `delete` of a present object that reports success has advanced the table revision -/
theorem delete_ok_rev (t : TableS) (g : Nat) (id : Key) (old : Obj) (hold : t.primary.get id = some old)
    (hok : (delete t g id).2.2 = .ok) (hl : t.locked = true) : (delete t g id).1.rev = t.rev + 1 := by
  rcases delete_spec t g id with e | ⟨_, _, _, _, hrev, _⟩
  · exfalso
    unfold Tbl.delete at hok
    simp only [hl, Bool.not_true, Bool.false_eq_true, if_false, hold] at hok
    split at hok
    · cases hok
    · rename_i h1
      unfold Tbl.delete at e
      simp only [hl, Bool.not_true, Bool.false_eq_true, if_false, hold, if_neg h1] at e
      have := congrArg TableS.rev e
      split at this <;> simp [reindexAll_fields] at this
  · exact hrev

/-! ### the invariant -/

structure TInv (t : TableS) : Prop where
  bound : t.rev + 1 < 2 ^ 64
  pS : Sorted t.primary
  pK : ∀ k o, (k, o) ∈ t.primary → k = o.id
  rS : Sorted t.revIdx
  rK : ∀ k o, (k, o) ∈ t.revIdx → k = revKey o.rev ∧ o.rev ≤ t.rev
  rpos : ∀ k o, (k, o) ∈ t.revIdx → 0 < o.rev
  pr : ∀ o, (o.id, o) ∈ t.primary ↔ (revKey o.rev, o) ∈ t.revIdx
  gS : Sorted t.grave
  gK : ∀ k o, (k, o) ∈ t.grave → k = o.id
  grS : Sorted t.graveRev
  grK : ∀ k o, (k, o) ∈ t.graveRev → k = revKey o.rev ∧ o.rev ≤ t.rev
  gg : ∀ o, (o.id, o) ∈ t.grave ↔ (revKey o.rev, o) ∈ t.graveRev
  disj : ∀ k o o', (k, o) ∈ t.grave → (k, o') ∉ t.primary
  rdisj : ∀ k o o', (k, o) ∈ t.graveRev → (k, o') ∉ t.revIdx

theorem tinv_modify_core (t t' : TableS) (o n : Obj) (h : TInv t) (hn1 : n.id = o.id) (hn2 : n.rev = t.rev + 1)
    (hb : t.rev + 1 + 1 < 2 ^ 64)
    (hrev : t'.rev = t.rev + 1)
    (hp : t'.primary = t.primary.insert o.id n)
    (hr : t'.revIdx = (match t.primary.get o.id with
                 | some oo => t.revIdx.erase (revKey oo.rev) | none => t.revIdx).insert (revKey (t.rev + 1)) n)
    (hg : t'.grave = (match t.primary.get o.id, t.grave.get o.id with
                | none, some _ => t.grave.erase o.id | _, _ => t.grave))
    (hgr : t'.graveRev = (match t.primary.get o.id, t.grave.get o.id with
                | none, some g => t.graveRev.erase (revKey g.rev) | _, _ => t.graveRev)) : TInv t' := by
  -- the revision index after removing the old version
  have hR0 : ∃ R0 : OMap Obj, t'.revIdx = R0.insert (revKey (t.rev + 1)) n ∧ Sorted R0 ∧
      (∀ k x, (k, x) ∈ R0 ↔ (k, x) ∈ t.revIdx ∧ ∀ oo, t.primary.get o.id = some oo → k ≠ revKey oo.rev) := by
    cases hold : t.primary.get o.id with
    | none => exact ⟨t.revIdx, by rw [hr, hold], h.rS, fun k x => by simp⟩
    | some oo =>
      refine ⟨t.revIdx.erase (revKey oo.rev), by rw [hr, hold], sorted_erase h.rS _, fun k x => ?_⟩
      rw [mem_erase h.rS]; simp [and_comm]
  obtain ⟨R0, hr', hR0S, hR0⟩ := hR0
  have hG : Sorted t'.grave ∧ Sorted t'.graveRev ∧
      (∀ k x, (k, x) ∈ t'.grave ↔ (k, x) ∈ t.grave ∧ (t.primary.get o.id = none → k ≠ o.id)) ∧
      (∀ k x, (k, x) ∈ t'.graveRev ↔ (k, x) ∈ t.graveRev ∧
          (t.primary.get o.id = none → ∀ g, t.grave.get o.id = some g → k ≠ revKey g.rev)) := by
    rw [hg, hgr]
    cases hold : t.primary.get o.id with
    | some oo => exact ⟨h.gS, h.grS, fun k x => by simp, fun k x => by simp⟩
    | none =>
      cases hgo : t.grave.get o.id with
      | none =>
        refine ⟨h.gS, h.grS, fun k x => ?_, fun k x => by simp⟩
        simp only [true_implies, iff_self_and]
        intro hm e; subst e
        exact (get_eq_none_iff h.gS _).mp hgo x hm
      | some g =>
        refine ⟨sorted_erase h.gS _, sorted_erase h.grS _, fun k x => ?_, fun k x => ?_⟩
        · rw [mem_erase h.gS]; simp [and_comm]
        · rw [mem_erase h.grS]; simp [and_comm]
  obtain ⟨hgS, hgrS, hG, hGR⟩ := hG
  have inj : ∀ a b, a ≤ t.rev + 1 → b ≤ t.rev + 1 → revKey a = revKey b → a = b :=
    fun a b ha hb' => revKey_inj a b (by omega) (by omega)
  constructor
  · omega
  · rw [hp]; exact sorted_insert h.pS _ _
  · intro k x hx
    rw [hp, mem_insert h.pS] at hx
    rcases hx with ⟨e1, e2⟩ | ⟨_, hx⟩
    · rw [e1, e2, hn1]
    · exact h.pK k x hx
  · rw [hr']; exact sorted_insert hR0S _ _
  · intro k x hx
    rw [hr', mem_insert hR0S] at hx
    rcases hx with ⟨e1, e2⟩ | ⟨_, hx⟩
    · rw [e1, e2, hn2, hrev]; exact ⟨rfl, Nat.le_refl _⟩
    · have := h.rK k x ((hR0 k x).mp hx).1
      exact ⟨this.1, by omega⟩
  · intro k x hx
    rw [hr', mem_insert hR0S] at hx
    rcases hx with ⟨_, e2⟩ | ⟨_, hx⟩
    · rw [e2, hn2]; omega
    · exact h.rpos k x ((hR0 k x).mp hx).1
  · intro x
    rw [hp, hr', mem_insert h.pS, mem_insert hR0S, hR0]
    constructor
    · rintro (⟨_, e⟩ | ⟨hne, hx⟩)
      · left; rw [e, hn2]; exact ⟨rfl, rfl⟩
      · right
        have hxr := (h.pr x).mp hx
        have hle := (h.rK _ _ hxr).2
        refine ⟨fun e => ?_, hxr, fun oo hoo e => ?_⟩
        · have := inj _ _ (by omega) (by omega) e; omega
        · have hoo' := (get_eq_some_iff h.pS _ _).mp hoo
          have hid := h.pK _ _ hoo'
          rw [hid] at hoo'
          have hoor := (h.pr oo).mp hoo'
          rw [← e] at hoor
          have := h.rS.unique hxr hoor
          rw [this] at hne
          exact hne hid.symm
    · rintro (⟨_, e⟩ | ⟨_, hxr, hno⟩)
      · left; rw [e, hn1]; exact ⟨rfl, rfl⟩
      · right
        have hx := (h.pr x).mpr hxr
        refine ⟨fun e => ?_, hx⟩
        rw [e] at hx
        exact hno x ((get_eq_some_iff h.pS _ _).mpr hx) rfl
  · exact hgS
  · intro k x hx; exact h.gK k x ((hG k x).mp hx).1
  · exact hgrS
  · intro k x hx
    have := h.grK k x ((hGR k x).mp hx).1
    exact ⟨this.1, by omega⟩
  · intro x
    rw [hG, hGR, h.gg x]
    constructor
    · rintro ⟨hx, hne⟩
      refine ⟨hx, fun hnone g hg e => hne hnone ?_⟩
      have hg' := (get_eq_some_iff h.gS _ _).mp hg
      have hid := h.gK _ _ hg'
      rw [hid] at hg'
      have := (h.gg g).mp hg'
      rw [← e] at this
      rw [h.grS.unique hx this]; exact hid.symm
    · rintro ⟨hx, hne⟩
      refine ⟨hx, fun hnone e => ?_⟩
      have hx' := (h.gg x).mpr hx
      rw [e] at hx'
      exact hne hnone x ((get_eq_some_iff h.gS _ _).mpr hx') rfl
  · intro k x x' hx hx'
    rw [hG] at hx
    rw [hp, mem_insert h.pS] at hx'
    rcases hx' with ⟨e, _⟩ | ⟨_, hx'⟩
    · cases hold : t.primary.get o.id with
      | none => exact hx.2 hold e
      | some oo =>
        rw [e] at hx
        exact h.disj _ _ _ hx.1 ((get_eq_some_iff h.pS _ _).mp hold)
    · exact h.disj _ _ _ hx.1 hx'
  · intro k x x' hx hx'
    rw [hGR] at hx
    rw [hr', mem_insert hR0S, hR0] at hx'
    rcases hx' with ⟨e, _⟩ | ⟨_, hx', _⟩
    · have := h.grK _ _ hx.1
      rw [e] at this
      have := inj _ _ (by omega) (by omega) this.1
      omega
    · exact h.rdisj _ _ _ hx.1 hx'

theorem tinv_modify {t : TableS} (h : TInv t) (g : Nat) (o : Obj) (m : Bool)
    (hb : (modify t g o m).1.rev + 1 < 2 ^ 64) : TInv (modify t g o m).1 := by
  rcases modify_spec t g o m with e | ⟨_, _, hrev, hp, hr, _, hg, hgr, _⟩
  · rw [e]; exact h
  · rw [hrev] at hb
    exact tinv_modify_core t _ o _ h (modNew_id t o m) (modNew_rev t o m) hb hrev hp hr hg hgr

theorem tinv_delete_core (t t' : TableS) (id : Key) (old dead : Obj) (h : TInv t)
    (hold : t.primary.get id = some old) (hd1 : dead.id = old.id) (hd2 : dead.rev = t.rev + 1)
    (hb : t.rev + 1 + 1 < 2 ^ 64)
    (hrev : t'.rev = t.rev + 1)
    (hp : t'.primary = t.primary.erase id)
    (hr : t'.revIdx = t.revIdx.erase (revKey old.rev))
    (hg : t'.grave = (if t.trackers.isEmpty then t.grave else t.grave.insert id dead))
    (hgr : t'.graveRev = (if t.trackers.isEmpty then t.graveRev else t.graveRev.insert (revKey (t.rev + 1)) dead)) :
    TInv t' := by
  have holdm := (get_eq_some_iff h.pS _ _).mp hold
  have hoid : id = old.id := h.pK _ _ holdm
  have holdr : (revKey old.rev, old) ∈ t.revIdx := (h.pr old).mp (hoid ▸ holdm)
  have inj : ∀ a b, a ≤ t.rev + 1 → b ≤ t.rev + 1 → revKey a = revKey b → a = b :=
    fun a b ha hb' => revKey_inj a b (by omega) (by omega)
  have hG : Sorted t'.grave ∧ Sorted t'.graveRev ∧
      (∀ k x, (k, x) ∈ t'.grave ↔ (t.trackers.isEmpty = false ∧ k = id ∧ x = dead) ∨
          ((t.trackers.isEmpty = false → k ≠ id) ∧ (k, x) ∈ t.grave)) ∧
      (∀ k x, (k, x) ∈ t'.graveRev ↔ (t.trackers.isEmpty = false ∧ k = revKey (t.rev + 1) ∧ x = dead) ∨
          ((t.trackers.isEmpty = false → k ≠ revKey (t.rev + 1)) ∧ (k, x) ∈ t.graveRev)) := by
    rw [hg, hgr]
    cases t.trackers.isEmpty with
    | true => exact ⟨h.gS, h.grS, fun k x => by simp, fun k x => by simp⟩
    | false =>
      refine ⟨sorted_insert h.gS _ _, sorted_insert h.grS _ _, fun k x => ?_, fun k x => ?_⟩
      · simp only [Bool.false_eq_true, if_false, mem_insert h.gS, true_and, true_implies]
      · simp only [Bool.false_eq_true, if_false, mem_insert h.grS, true_and, true_implies]
  obtain ⟨hgS, hgrS, hG, hGR⟩ := hG
  constructor
  · omega
  · rw [hp]; exact sorted_erase h.pS _
  · intro k x hx
    rw [hp, mem_erase h.pS] at hx
    exact h.pK k x hx.2
  · rw [hr]; exact sorted_erase h.rS _
  · intro k x hx
    rw [hr, mem_erase h.rS] at hx
    have := h.rK k x hx.2
    exact ⟨this.1, by omega⟩
  · intro k x hx
    rw [hr, mem_erase h.rS] at hx
    exact h.rpos k x hx.2
  · intro x
    rw [hp, hr, mem_erase h.pS, mem_erase h.rS, h.pr x]
    constructor
    · rintro ⟨hne, hx⟩
      refine ⟨fun e => hne ?_, hx⟩
      rw [e] at hx
      rw [h.rS.unique hx holdr]; exact hoid.symm
    · rintro ⟨hne, hx⟩
      refine ⟨fun e => hne ?_, hx⟩
      have hx' := (h.pr x).mpr hx
      rw [e] at hx'
      rw [h.pS.unique hx' holdm]
  · exact hgS
  · intro k x hx
    rcases (hG k x).mp hx with ⟨_, e1, e2⟩ | ⟨_, hx⟩
    · rw [e1, e2, hd1]; exact hoid
    · exact h.gK k x hx
  · exact hgrS
  · intro k x hx
    rcases (hGR k x).mp hx with ⟨_, e1, e2⟩ | ⟨_, hx⟩
    · rw [e1, e2, hd2, hrev]; exact ⟨rfl, Nat.le_refl _⟩
    · have := h.grK k x hx
      exact ⟨this.1, by omega⟩
  · intro x
    rw [hG, hGR]
    constructor
    · rintro (⟨ht, _, e⟩ | ⟨hne, hx⟩)
      · left; rw [e, hd2]; exact ⟨ht, rfl, rfl⟩
      · right
        have hx' := (h.gg x).mp hx
        refine ⟨fun _ e => ?_, hx'⟩
        have := inj _ _ (by have := (h.grK _ _ hx').2; omega) (by omega) e
        have := (h.grK _ _ hx').2
        omega
    · rintro (⟨ht, _, e⟩ | ⟨hne, hx⟩)
      · left; rw [e, hd1]; exact ⟨ht, hoid.symm, rfl⟩
      · right
        have hx' := (h.gg x).mpr hx
        refine ⟨fun _ e => ?_, hx'⟩
        rw [e] at hx'
        exact h.disj _ _ _ hx' holdm
  · intro k x x' hx hx'
    rw [hp, mem_erase h.pS] at hx'
    rcases (hG k x).mp hx with ⟨_, e1, _⟩ | ⟨_, hx⟩
    · exact hx'.1 e1
    · exact h.disj _ _ _ hx hx'.2
  · intro k x x' hx hx'
    rw [hr, mem_erase h.rS] at hx'
    rcases (hGR k x).mp hx with ⟨_, e1, _⟩ | ⟨_, hx⟩
    · have := h.rK _ _ hx'.2
      rw [e1] at this
      have := inj _ _ (by omega) (by omega) this.1
      omega
    · exact h.rdisj _ _ _ hx hx'.2

theorem tinv_delete {t : TableS} (h : TInv t) (g : Nat) (id : Key)
    (hb : (delete t g id).1.rev + 1 < 2 ^ 64) : TInv (delete t g id).1 := by
  rcases delete_spec t g id with e | ⟨_, _, old, hold, hrev, hp, hr, _, hg, hgr, _⟩
  · rw [e]; exact h
  · rw [hrev] at hb
    exact tinv_delete_core t _ id old { old with rev := t.rev + 1 } h hold rfl rfl hb hrev hp hr hg hgr

/-- what a successful `modify` does to the live objects and to the graveyard, as membership facts -/
theorem modify_mem {t : TableS} (h : TInv t) (g : Nat) (o : Obj) (m : Bool) :
    (modify t g o m).1 = t ∨
    (let t' := (modify t g o m).1
     let n := modNew t o m
     t.locked = true ∧ t'.rev = t.rev + 1 ∧ t'.trackers = t.trackers ∧
     (∀ k x, (k, x) ∈ t'.primary ↔ (k = o.id ∧ x = n) ∨ (k ≠ o.id ∧ (k, x) ∈ t.primary)) ∧
     (∀ k x, (k, x) ∈ t'.grave ↔ (k, x) ∈ t.grave ∧ (t.primary.get o.id = none → k ≠ o.id)) ∧
     (∀ k x, (k, x) ∈ t'.graveRev ↔ (k, x) ∈ t.graveRev ∧
        (t.primary.get o.id = none → ∀ g, t.grave.get o.id = some g → k ≠ revKey g.rev))) := by
  rcases modify_spec t g o m with e | ⟨hl, _, hrev, hp, hr, htr, hg, hgr, _⟩
  · exact Or.inl e
  · right
    refine ⟨hl, hrev, htr, fun k x => by rw [hp, mem_insert h.pS], ?_, ?_⟩
    · intro k x
      rw [hg]
      cases hold : t.primary.get o.id with
      | some oo => simp
      | none =>
        cases hgo : t.grave.get o.id with
        | none =>
          simp only [true_implies, iff_self_and]
          intro hm e; subst e
          exact (get_eq_none_iff h.gS _).mp hgo x hm
        | some g => simp only [mem_erase h.gS, true_implies, and_comm]
    · intro k x
      rw [hgr]
      cases hold : t.primary.get o.id with
      | some oo => simp
      | none =>
        cases hgo : t.grave.get o.id with
        | none => simp
        | some g => simp [mem_erase h.grS, and_comm]

/-- what a successful `delete` does, as membership facts -/
theorem delete_mem {t : TableS} (h : TInv t) (g : Nat) (id : Key) :
    (delete t g id).1 = t ∨
    (∃ old, t.primary.get id = some old ∧
     let t' := (delete t g id).1
     let dead : Obj := { old with rev := t.rev + 1 }
     t.locked = true ∧ t'.rev = t.rev + 1 ∧ t'.trackers = t.trackers ∧
     (∀ k x, (k, x) ∈ t'.primary ↔ k ≠ id ∧ (k, x) ∈ t.primary) ∧
     (∀ k x, (k, x) ∈ t'.grave ↔ (t.trackers.isEmpty = false ∧ k = id ∧ x = dead) ∨
          ((t.trackers.isEmpty = false → k ≠ id) ∧ (k, x) ∈ t.grave)) ∧
     (∀ k x, (k, x) ∈ t'.graveRev ↔ (t.trackers.isEmpty = false ∧ k = revKey (t.rev + 1) ∧ x = dead) ∨
          ((t.trackers.isEmpty = false → k ≠ revKey (t.rev + 1)) ∧ (k, x) ∈ t.graveRev))) := by
  rcases delete_spec t g id with e | ⟨hl, _, old, hold, hrev, hp, hr, htr, hg, hgr, _⟩
  · exact Or.inl e
  · right
    refine ⟨old, hold, hl, hrev, htr, fun k x => by rw [hp, mem_erase h.pS], ?_, ?_⟩
    · intro k x
      rw [hg]
      cases t.trackers.isEmpty with
      | true => simp
      | false => simp only [Bool.false_eq_true, if_false, mem_insert h.gS, true_and, true_implies]
    · intro k x
      rw [hgr]
      cases t.trackers.isEmpty with
      | true => simp
      | false => simp only [Bool.false_eq_true, if_false, mem_insert h.grS, true_and, true_implies]

/-- the invariant only reads these fields -/
theorem TInv.congr {t t' : TableS} (h : TInv t) (h1 : t'.rev = t.rev) (h2 : t'.primary = t.primary)
    (h3 : t'.revIdx = t.revIdx) (h4 : t'.grave = t.grave) (h5 : t'.graveRev = t.graveRev) : TInv t' := by
  obtain ⟨a1, a2, a3, a4, a5, a6, a7, a8, a9, a10, a11, a12, a13, a14⟩ := h
  constructor <;> simp only [h1, h2, h3, h4, h5] <;> assumption

/-! ### the collector's per-key step (the body of the fold in `gcApply`) -/

def gcStep (t : TableS) (k : Key) : TableS :=
  match t.graveRev.get k with
  | some o => { t with graveRev := t.graveRev.erase k, grave := t.grave.erase o.id }
  | none => t

def gcTable (t : TableS) (ks : List Key) : TableS := ks.foldl gcStep t

/-- the keys the collector applies to table `i` -/
def deadKeys (dead : List (Nat × List Key)) (i : Nat) : List Key :=
  match dead.find? (·.1 = i) with
  | none => []
  | some (_, ks) => ks

theorem gcApply_root (db : DB) (dead : List (Nat × List Key)) :
    (gcApply db dead).root = db.root.mapIdx fun i t => gcTable t (deadKeys dead i) := by
  unfold gcApply
  simp only
  congr 1
  funext i t
  unfold deadKeys gcTable
  cases hf : dead.find? (·.1 = i) with
  | none => rfl
  | some p =>
    obtain ⟨j, ks⟩ := p
    simp only
    congr 1

theorem gcStep_fields (t : TableS) (k : Key) :
    let t' := gcStep t k
    t'.rev = t.rev ∧ t'.primary = t.primary ∧ t'.revIdx = t.revIdx ∧ t'.trackers = t.trackers ∧
    t'.locked = t.locked ∧ t'.gen = t.gen ∧ t'.revDirty = t.revDirty ∧ t'.init = t.init ∧ t'.full = t.full := by
  unfold gcStep
  simp only
  split <;> simp

theorem gcStep_mem {t : TableS} (h : TInv t) (k : Key) :
    let t' := gcStep t k
    Sorted t'.grave ∧ Sorted t'.graveRev ∧
    (∀ k' x, (k', x) ∈ t'.graveRev ↔ (k', x) ∈ t.graveRev ∧ k' ≠ k) ∧
    (∀ k' x, (k', x) ∈ t'.grave ↔ (k', x) ∈ t.grave ∧ revKey x.rev ≠ k) := by
  unfold gcStep
  simp only
  split
  · rename_i o ho
    have hom := (get_eq_some_iff h.grS _ _).mp ho
    have hk := (h.grK _ _ hom).1
    have hog : (o.id, o) ∈ t.grave := (h.gg o).mpr (hk ▸ hom)
    refine ⟨sorted_erase h.gS _, sorted_erase h.grS _, fun k' x => ?_, fun k' x => ?_⟩
    · simp only [mem_erase h.grS, and_comm]
    · simp only [mem_erase h.gS]
      constructor
      · rintro ⟨hne, hx⟩
        refine ⟨hx, fun e => hne ?_⟩
        have hid := h.gK _ _ hx
        rw [hid] at hx
        have hx' := (h.gg x).mp hx
        rw [e] at hx'
        rw [hid, h.grS.unique hx' hom]
      · rintro ⟨hx, hne⟩
        refine ⟨fun e => hne ?_, hx⟩
        rw [e] at hx
        rw [h.gS.unique hx hog]; exact hk.symm
  · rename_i ho
    refine ⟨h.gS, h.grS, fun k' x => ?_, fun k' x => ?_⟩
    · simp only [iff_self_and]
      intro hx e; subst e
      exact (get_eq_none_iff h.grS _).mp ho x hx
    · simp only [iff_self_and]
      intro hx e
      have hid := h.gK _ _ hx
      rw [hid] at hx
      have hx' := (h.gg x).mp hx
      rw [e] at hx'
      exact (get_eq_none_iff h.grS _).mp ho x hx'

theorem tinv_gcStep {t : TableS} (h : TInv t) (k : Key) : TInv (gcStep t k) := by
  obtain ⟨f1, f2, f3, _⟩ := gcStep_fields t k
  obtain ⟨m1, m2, m3, m4⟩ := gcStep_mem h k
  generalize gcStep t k = t' at *
  constructor
  · rw [f1]; exact h.bound
  · rw [f2]; exact h.pS
  · rw [f2]; exact h.pK
  · rw [f3]; exact h.rS
  · rw [f3, f1]; exact h.rK
  · rw [f3]; exact h.rpos
  · rw [f2, f3]; exact h.pr
  · exact m1
  · intro k' x hx; exact h.gK _ _ ((m4 k' x).mp hx).1
  · exact m2
  · intro k' x hx; rw [f1]; exact h.grK _ _ ((m3 k' x).mp hx).1
  · intro x; rw [m3, m4, h.gg x]
  · intro k' x x' hx; rw [f2]; exact h.disj _ _ _ ((m4 k' x).mp hx).1
  · intro k' x x' hx; rw [f3]; exact h.rdisj _ _ _ ((m3 k' x).mp hx).1

theorem tinv_gcTable {t : TableS} (h : TInv t) (ks : List Key) : TInv (gcTable t ks) := by
  induction ks generalizing t with
  | nil => exact h
  | cons k r ih => exact ih (tinv_gcStep h k)

theorem gcTable_fields (t : TableS) (ks : List Key) :
    let t' := gcTable t ks
    t'.rev = t.rev ∧ t'.primary = t.primary ∧ t'.revIdx = t.revIdx ∧ t'.trackers = t.trackers ∧
    t'.locked = t.locked ∧ t'.gen = t.gen ∧ t'.revDirty = t.revDirty ∧ t'.init = t.init ∧ t'.full = t.full := by
  induction ks generalizing t with
  | nil => simp [gcTable]
  | cons k r ih =>
    have h1 := gcStep_fields t k
    have h2 := ih (t := gcStep t k)
    simp only [gcTable, List.foldl_cons] at h2 ⊢
    simp only at h1
    obtain ⟨a1, a2, a3, a4, a5, a6, a7, a8, a9⟩ := h1
    obtain ⟨b1, b2, b3, b4, b5, b6, b7, b8, b9⟩ := h2
    exact ⟨b1.trans a1, b2.trans a2, b3.trans a3, b4.trans a4, b5.trans a5, b6.trans a6, b7.trans a7,
      b8.trans a8, b9.trans a9⟩

/-- what a collector write removes: exactly the entries whose revision key is listed -/
theorem gcTable_mem {t : TableS} (h : TInv t) (ks : List Key) :
    let t' := gcTable t ks
    (∀ k' x, (k', x) ∈ t'.graveRev ↔ (k', x) ∈ t.graveRev ∧ k' ∉ ks) ∧
    (∀ k' x, (k', x) ∈ t'.grave ↔ (k', x) ∈ t.grave ∧ revKey x.rev ∉ ks) := by
  induction ks generalizing t with
  | nil => simp [gcTable]
  | cons k r ih =>
    obtain ⟨_, _, m3, m4⟩ := gcStep_mem h k
    obtain ⟨i1, i2⟩ := ih (tinv_gcStep h k)
    simp only [gcTable, List.foldl_cons] at i1 i2 ⊢
    refine ⟨fun k' x => ?_, fun k' x => ?_⟩
    · rw [i1, m3]; simp only [List.mem_cons, not_or, and_assoc]
    · rw [i2, m4]; simp only [List.mem_cons, not_or, and_assoc]

/-! ### reachable tables -/

/-- one operation on a table.  `aux` covers every operation that leaves the revision, the primary /
    revision indexes and the graveyard alone: registering or removing a delete tracker (`Changes()`,
    `Close`), locking / unlocking (`WriteTxn`, `Commit`), initializer bookkeeping.  Writes carry the
    guard that the 64-bit revision counter does not overflow. -/
inductive TStep : TableS → TableS → Prop
  | modify (t : TableS) (g : Nat) (o : Obj) (m : Bool) (hb : (modify t g o m).1.rev + 1 < 2 ^ 64) :
      TStep t (modify t g o m).1
  | delete (t : TableS) (g : Nat) (id : Key) (hb : (delete t g id).1.rev + 1 < 2 ^ 64) :
      TStep t (delete t g id).1
  | gc (t : TableS) (k : Key) : TStep t (gcStep t k)
  | aux (t t' : TableS) (h1 : t'.rev = t.rev) (h2 : t'.primary = t.primary)
      (h3 : t'.revIdx = t.revIdx) (h4 : t'.grave = t.grave) (h5 : t'.graveRev = t.graveRev) : TStep t t'

/-- tables reachable from an empty table -/
inductive TReach : TableS → Prop
  | init (t : TableS) (h1 : t.rev = 0) (h2 : t.primary = []) (h3 : t.revIdx = []) (h4 : t.grave = [])
      (h5 : t.graveRev = []) : TReach t
  | step {t t' : TableS} (h : TReach t) (s : TStep t t') : TReach t'

theorem tinv_empty (t : TableS) (h1 : t.rev = 0) (h2 : t.primary = []) (h3 : t.revIdx = []) (h4 : t.grave = [])
    (h5 : t.graveRev = []) : TInv t := by
  constructor <;> simp [h1, h2, h3, h4, h5, Sorted]

theorem TStep.tinv {t t' : TableS} (s : TStep t t') (h : TInv t) : TInv t' := by
  cases s with
  | modify g o m hb => exact tinv_modify h g o m hb
  | delete g id hb => exact tinv_delete h g id hb
  | gc k => exact tinv_gcStep h k
  | aux _ h1 h2 h3 h4 h5 => exact h.congr h1 h2 h3 h4 h5

/-- every reachable table satisfies the invariant -/
theorem TReach.tinv {t : TableS} (h : TReach t) : TInv t := by
  induction h with
  | init t h1 h2 h3 h4 h5 => exact tinv_empty _ h1 h2 h3 h4 h5
  | step _ s ih => exact s.tinv ih
end Sdb.Chg
