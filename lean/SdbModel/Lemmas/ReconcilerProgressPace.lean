import SdbModel.Lemmas.ReconcilerProgressReach

/-!
  Lemmas.ReconcilerProgressPace — what one round does to the retry items and
  which calls it makes, relative to the state `v0` the round began in:
  every call is the first attempt of a change waiting in the change stream or
  the retry of an item that was queued and due; every retry item the round
  leaves is untouched, stems from the first failure of a change (`FreshIt`:
  count 1), or from the repeated failure of a due retry (`AgainIt`: count + 1).
-/
namespace Sdb.Rec

/-- the call is the attempt of a change that was waiting in the change stream -/
def FirstAttempt (v0 : V) (c : Call) : Prop :=
  (c.op = "U" ∧ ∃ o ∈ v0.objs, needs o.kind ∧ v0.itRev < o.rev ∧ c.id = o.id ∧ c.data = o.data) ∨
  (c.op = "D" ∧ ∃ d ∈ v0.dels, v0.itDelRev < d.2 ∧ c.id = d.1.id ∧ c.data = d.1.data)

/-- the item was queued by the FIRST failure for a change consumed in this round: its count is 1,
    its `origRev` is the revision of that change -/
def FreshIt (v0 : V) (it : Item) : Prop :=
  it.numRetries = 1 ∧ it.retryAt = v0.now + backoff v0.cfg.minB v0.cfg.maxB 1 ∧ it.inQueue = true ∧ it.id = it.obj.id ∧
  ((it.delete = true ∧ (it.obj, it.origRev) ∈ v0.dels ∧ v0.itDelRev < it.origRev ∧ it.rev = it.origRev) ∨
   (it.delete = false ∧ it.obj ∈ v0.objs ∧ needs it.obj.kind ∧ v0.itRev < it.obj.rev ∧ it.origRev = it.obj.rev))

/-- a change for `id` was waiting in the change stream when the round began -/
def StaleV (v0 : V) (id : Nat) : Prop := Stale v0.objs v0.dels v0.itRev v0.itDelRev id

/-- a change for `id` that was waiting when the round began has been consumed by the iterator at `(a, b)` -/
def Cons (v0 : V) (a b id : Nat) : Prop :=
  (∃ o ∈ v0.objs, o.id = id ∧ needs o.kind ∧ v0.itRev < o.rev ∧ o.rev ≤ a) ∨
  (∃ d ∈ v0.dels, d.1.id = id ∧ v0.itDelRev < d.2 ∧ d.2 ≤ b)

/-- the item was queued by the failure of the retry of an item `it` that was due and for whose
    object no change was waiting: the count grew by one, `origRev` is kept (the revision of the
    change that failed FIRST) -/
def AgainIt (v0 : V) (it' : Item) : Prop :=
  ∃ it ∈ v0.items, ¬ StaleV v0 it.id ∧ it.id = it'.id ∧ it.retryAt ≤ v0.now ∧ it'.numRetries = it.numRetries + 1 ∧
    it'.retryAt = v0.now + backoff v0.cfg.minB v0.cfg.maxB (it.numRetries + 1) ∧ it'.origRev = it.origRev ∧
    it'.delete = it.delete ∧ it'.obj = it.obj ∧ it'.inQueue = true

/-- (inside a round only) the item was due, its Update was retried and failed; the status commit
    that re-queues it is still to come -/
def PoppedIt (v0 : V) (it' : Item) : Prop := ∃ it ∈ v0.items, ¬ StaleV v0 it.id ∧ it.retryAt ≤ v0.now ∧ it' = popItem it.id it

def IT4 (v0 : V) (a b : Nat) (it : Item) : Prop :=
  (it ∈ v0.items ∧ it.inQueue = true ∧ ¬ Cons v0 a b it.id) ∨ PoppedIt v0 it ∨ FreshIt v0 it ∨ AgainIt v0 it

/-- the result stems from a change consumed in this round -/
def FromChange (v0 : V) (res : Res) : Prop :=
  res.1 ∈ v0.objs ∧ needs res.1.kind ∧ v0.itRev < res.1.rev ∧ res.2.2.1 = res.1.rev ∧ res.2.1 = res.1

/-- while the change stream is consumed -/
structure K1 (v0 v : V) (rs : List Res) : Prop where
  objs : v.objs = v0.objs
  dels : v.dels = v0.dels
  now : v.now = v0.now
  cfg : v.cfg = v0.cfg
  itRev : v0.itRev ≤ v.itRev
  itDelRev : v0.itDelRev ≤ v.itDelRev
  log : ∃ L, v.log = v0.log ++ L ∧ ∀ c ∈ L, FirstAttempt v0 c
  items : ∀ it ∈ v.items, it.inQueue = true ∧ ((it ∈ v0.items ∧ ¬ Cons v0 v.itRev v.itDelRev it.id) ∨ FreshIt v0 it)
  res : ∀ res ∈ rs, FromChange v0 res
  resle : ∀ res ∈ rs, res.2.2.1 ≤ v.itRev

theorem mem_clear_single_sub {v : V} {X : Nat} {o : RObj} {rev : Nat} {f : Bool} {x : Item}
    (hx : x ∈ ((v.clear X).single o rev false f).items) : x ∈ v.items ∧ x.id ≠ X := by
  cases f
  · rw [single_uf] at hx
    simp only [clear_items, call_items, List.mem_filter] at hx
    exact ⟨hx.1.1, by simpa using hx.1.2⟩
  · rw [single_ut] at hx
    simp only [clear_items, call_items, List.mem_filter] at hx
    exact ⟨hx.1, by simpa using hx.2⟩

theorem mem_clear_single_del {v : V} {o : RObj} {rev : Nat} {f : Bool} {x : Item}
    (hx : x ∈ ((v.clear o.id).single o rev true f).items) :
    (x ∈ v.items ∧ x.id ≠ o.id) ∨ (f = true ∧ x = mkItem v.now v.cfg o rev rev true 1) := by
  cases f
  · rw [single_df] at hx
    simp only [clear_items, call_items, List.mem_filter] at hx
    exact Or.inl ⟨hx.1.1, by simpa using hx.1.2⟩
  · rw [single_dt] at hx
    rcases (mem_add_items ..).1 hx with ⟨hm, _⟩ | e
    · simp only [clear_items, call_items, List.mem_filter] at hm
      exact Or.inl ⟨hm.1, by simpa using hm.2⟩
    · right
      refine ⟨rfl, ?_⟩
      rw [e]
      have : prevN ((v.clear o.id).call ⟨"D", o.id, o.data, false⟩).items o.id = 0 := by
        apply prevN_of_not_mem
        intro it hit
        simp only [clear_items, call_items, List.mem_filter] at hit
        simpa using hit.2
      have hpo : prevO ((v.clear o.id).call ⟨"D", o.id, o.data, false⟩).items o.id rev = rev := by
        apply prevO_of_not_mem
        intro it hit
        simp only [clear_items, call_items, List.mem_filter] at hit
        simpa using hit.2
      rw [this, hpo]
      rfl

theorem k1_skip (v0 : V) (r : R) (c : Change) (cs : List Change) (_ : Nat) (_ : InvL r r.results) (hch : ChOK r r.results (c :: cs))
    (hc : c.deleted = false) (_ : ¬ needs c.obj.kind) (hk : K1 v0 r.v r.results) :
    K1 v0 { r.v with itRev := c.rev } r.results := by
  obtain ⟨_, _, hgt⟩ := hch.upd c (List.mem_cons_self ..) hc
  have := hk.itRev
  refine ⟨hk.objs, hk.dels, hk.now, hk.cfg, by simp only [v_itRev] at this ⊢; omega, hk.itDelRev, hk.log, fun it hit => ?_, hk.res,
    fun res hr => by have := hk.resle res hr; simp only [v_itRev] at this ⊢; omega⟩
  obtain ⟨a, b | b⟩ := hk.items it hit
  · refine ⟨a, Or.inl ⟨b.1, ?_⟩⟩
    rintro (⟨o, ho, hid, hn, h1, h2⟩ | hd)
    · have ho' : o ∈ r.objs := by have := hk.objs; simp only [v_objs] at this; rw [this]; exact ho
      by_cases hle : o.rev ≤ r.itRev
      · exact b.2 (Or.inl ⟨o, ho, hid, hn, h1, hle⟩)
      · rcases hch.lt_upd hc o ho' (by omega) with e | e
        · rw [e] at hn; exact absurd hn (by assumption)
        · simp only at h2; omega
    · exact b.2 (Or.inr hd)
  · exact ⟨a, Or.inr b⟩

theorem k1_upd (v0 : V) (r r' : R) (c : Change) (cs : List Change) (_ : Nat) (_ : InvL r r.results) (hch : ChOK r r.results (c :: cs))
    (hc : c.deleted = false) (hn : needs c.obj.kind)
    (hv : r'.v = (({ r.v with itRev := c.rev } : V).clear c.obj.id).single c.obj c.rev false (r.isFailing c.obj.id))
    (hres : r'.results = r.results ++ resOf c.obj c.rev false (r.isFailing c.obj.id)) (_ : InvL r' r'.results) (_ : ChOK r' r'.results cs)
    (hk : K1 v0 r.v r.results) : K1 v0 r'.v r'.results := by
  obtain ⟨ho, hrev, hgt⟩ := hch.upd c (List.mem_cons_self ..) hc
  have hi := hk.itRev
  simp only [v_itRev] at hi
  have ho0 : c.obj ∈ v0.objs := by rw [← hk.objs]; exact ho
  rw [hv, hres]
  refine ⟨by simpa using hk.objs, by simpa using hk.dels, by simpa using hk.now, by simpa using hk.cfg, by simp; omega, by simpa using hk.itDelRev, ?_, ?_, ?_, ?_⟩
  · obtain ⟨L, e, f⟩ := hk.log
    refine ⟨L ++ [⟨"U", c.obj.id, c.obj.data, !(r.isFailing c.obj.id)⟩], ?_, fun x hx => ?_⟩
    · rw [single_log]; simp only [clear_log, Bool.false_eq_true, if_false]
      show r.v.log ++ _ = _
      rw [e, List.append_assoc]
    · rcases List.mem_append.1 hx with hx | hx
      · exact f x hx
      · simp only [List.mem_singleton] at hx
        rw [hx]
        exact Or.inl ⟨rfl, c.obj, ho0, hn, by omega, rfl, rfl⟩
  · intro it hit
    obtain ⟨hm, hne⟩ := mem_clear_single_sub (v := { r.v with itRev := c.rev }) hit
    obtain ⟨a, b | b⟩ := hk.items it hm
    · refine ⟨a, Or.inl ⟨b.1, ?_⟩⟩
      simp only [single_itRev, single_itDelRev, clear_itRev, clear_itDelRev]
      rintro (⟨o, ho', hid, hn', h1, h2⟩ | hd)
      · have ho'' : o ∈ r.objs := by have := hk.objs; simp only [v_objs] at this; rw [this]; exact ho'
        by_cases hle : o.rev ≤ r.itRev
        · exact b.2 (Or.inl ⟨o, ho', hid, hn', h1, hle⟩)
        · rcases hch.lt_upd hc o ho'' (by omega) with e | e
          · rw [e] at hid; exact hne hid.symm
          · omega
      · exact b.2 (Or.inr hd)
    · exact ⟨a, Or.inr b⟩
  · intro res hr
    rcases List.mem_append.1 hr with hr | hr
    · exact hk.res res hr
    · simp only [resOf, Bool.false_eq_true, if_false, List.mem_singleton] at hr
      rw [hr]
      exact ⟨ho0, hn, by show v0.itRev < c.obj.rev; omega, hrev, rfl⟩
  · intro res hr
    simp only [single_itRev, clear_itRev]
    rcases List.mem_append.1 hr with hr | hr
    · have := hk.resle res hr; simp only [v_itRev] at this; show res.2.2.1 ≤ c.rev; omega
    · simp only [resOf, Bool.false_eq_true, if_false, List.mem_singleton] at hr
      rw [hr]; exact Nat.le_refl _

theorem k1_del (v0 : V) (r r' : R) (c : Change) (cs : List Change) (_ : Nat) (_ : InvL r r.results) (hch : ChOK r r.results (c :: cs))
    (hc : c.deleted = true)
    (hv : r'.v = (({ r.v with itDelRev := c.rev } : V).clear c.obj.id).single c.obj c.rev true (r.isFailing c.obj.id))
    (hres : r'.results = r.results) (_ : InvL r' r'.results) (_ : ChOK r' r'.results cs)
    (hk : K1 v0 r.v r.results) : K1 v0 r'.v r'.results := by
  obtain ⟨hd, hgt⟩ := hch.del c (List.mem_cons_self ..) hc
  have hi := hk.itDelRev
  simp only [v_itDelRev] at hi
  have hd0 : (c.obj, c.rev) ∈ v0.dels := by rw [← hk.dels]; exact hd
  rw [hv, hres]
  refine ⟨by simpa using hk.objs, by simpa using hk.dels, by simpa using hk.now, by simpa using hk.cfg, by simpa using hk.itRev, by simp; omega, ?_, ?_, hk.res,
    fun res hr => by simpa using hk.resle res hr⟩
  · obtain ⟨L, e, f⟩ := hk.log
    refine ⟨L ++ [⟨"D", c.obj.id, c.obj.data, !(r.isFailing c.obj.id)⟩], ?_, fun x hx => ?_⟩
    · rw [single_log]; simp only [clear_log, if_true]
      show r.v.log ++ _ = _
      rw [e, List.append_assoc]
    · rcases List.mem_append.1 hx with hx | hx
      · exact f x hx
      · simp only [List.mem_singleton] at hx
        rw [hx]
        exact Or.inr ⟨rfl, (c.obj, c.rev), hd0, by simp only; omega, rfl, rfl⟩
  · intro it hit
    rcases mem_clear_single_del (v := { r.v with itDelRev := c.rev }) hit with ⟨hm, hne⟩ | ⟨_, e⟩
    · obtain ⟨a, b | b⟩ := hk.items it hm
      · refine ⟨a, Or.inl ⟨b.1, ?_⟩⟩
        simp only [single_itRev, single_itDelRev, clear_itRev, clear_itDelRev]
        rintro (ho' | ⟨d, hd', hid, h1, h2⟩)
        · exact b.2 (Or.inl ho')
        · have hd'' : d ∈ r.dels := by have := hk.dels; simp only [v_dels] at this; rw [this]; exact hd'
          by_cases hle : d.2 ≤ r.itDelRev
          · exact b.2 (Or.inr ⟨d, hd', hid, h1, hle⟩)
          · rcases hch.lt_del hc d hd'' (by omega) with e | e
            · rw [e] at hid; exact hne hid.symm
            · omega
      · exact ⟨a, Or.inr b⟩
    · rw [e]
      refine ⟨rfl, Or.inr ⟨rfl, ?_, rfl, rfl, Or.inl ⟨rfl, hd0, ?_, rfl⟩⟩⟩
      · show r.v.now + backoff r.v.cfg.minB r.v.cfg.maxB 1 = _
        rw [hk.now, hk.cfg]
      · show v0.itDelRev < c.rev
        omega

/-- during the first status commit -/
structure Q1 (v0 v : V) (rs : List Res) : Prop where
  now : v.now = v0.now
  cfg : v.cfg = v0.cfg
  log : ∃ L, v.log = v0.log ++ L ∧ ∀ c ∈ L, FirstAttempt v0 c
  items : ∀ it ∈ v.items, it.inQueue = true ∧ ((it ∈ v0.items ∧ ¬ Cons v0 v.itRev v.itDelRev it.id) ∨ FreshIt v0 it)
  res : ∀ res ∈ rs, FromChange v0 res
  resle : ∀ res ∈ rs, res.2.2.1 ≤ v.itRev
  /-- every change that was waiting has been consumed or its object / deletion is unchanged -/
  objsT : ∀ o ∈ v0.objs, needs o.kind → o ∈ v.objs ∨ o.rev ≤ v.itRev
  delsT : ∀ d ∈ v0.dels, d ∈ v.dels

theorem K1.toQ1 {v0 v : V} {rs : List Res} (h : K1 v0 v rs) : Q1 v0 v rs :=
  ⟨h.now, h.cfg, h.log, h.items, h.res, h.resle, fun o ho _ => Or.inl (by rw [h.objs]; exact ho), fun d hd => by rw [h.dels]; exact hd⟩

theorem q1_drop (v0 : V) (r : R) (res : Res) (rs : List Res) (_ : InvL r (res :: rs))
    (_ : ∀ cur ∈ r.objs, cur.id = res.1.id → cur.rev ≠ res.2.2.1) (hq : Q1 v0 r.v (res :: rs)) : Q1 v0 r.v rs :=
  ⟨hq.now, hq.cfg, hq.log, hq.items, fun x hx => hq.res x (List.mem_cons_of_mem _ hx),
    fun x hx => hq.resle x (List.mem_cons_of_mem _ hx), hq.objsT, hq.delsT⟩

theorem q1_write (v0 : V) (r r' : R) (res : Res) (rs : List Res) (cur : RObj) (hI : InvL r (res :: rs))
    (hcur : cur ∈ r.objs) (hcid : cur.id = res.1.id) (hrev : cur.rev = res.2.2.1) (hv : r'.v = r.v.commit res r.nextSid) (_ : InvL r' rs)
    (hq : Q1 v0 r.v (res :: rs)) : Q1 v0 r'.v rs := by
  obtain ⟨_, _, hlive⟩ := hI.resOK res (List.mem_cons_self ..)
  obtain ⟨f1, f2, f3, f4, f5⟩ := hq.res res (List.mem_cons_self ..)
  rw [hv]
  have hrle := hq.resle res (List.mem_cons_self ..)
  refine ⟨by simpa using hq.now, by simpa using hq.cfg, by simpa using hq.log, ?_, fun x hx => hq.res x (List.mem_cons_of_mem _ hx),
    fun x hx => by simpa using hq.resle x (List.mem_cons_of_mem _ hx), ?_, ?_⟩
  rotate_left
  · intro o ho hn
    simp only [commit_itRev]
    rcases hq.objsT o ho hn with a | a
    · by_cases hid : o.id = res.1.id
      · right
        have : o = cur := hI.tinv.obj_eq a hcur (by omega)
        rw [this, hrev]; exact hrle
      · left
        rw [commit_objs]
        exact (mem_setObj_v ..).2 (Or.inl ⟨a, hid⟩)
    · exact Or.inr a
  · intro d hd
    rw [commit_dels, List.mem_filter]
    have hd' := hq.delsT d hd
    refine ⟨hd', ?_⟩
    have := hI.tinv.disj cur hcur d hd'
    simp only [ne_eq, decide_not, Bool.not_eq_eq_eq_not, Bool.not_true, decide_eq_false_iff_not]
    omega
  cases hf : res.2.2.2.2 with
  | false => rw [commit_s _ _ _ hf]; exact hq.items
  | true =>
    rw [commit_f _ _ _ hf]
    intro it hit
    rcases (mem_add_items ..).1 hit with ⟨hm, _⟩ | e
    · exact hq.items it hm
    · have hnone : ∀ i ∈ r.v.items, i.id ≠ res.2.1.id := by
        intro i hi hid
        rcases hlive cur hcur hcid with a | a
        · have := (a.2.2 i hi (by rw [hid, f5])).1
          rw [(hq.items i hi).1] at this; cases this
        · exact absurd hrev a.1
      have hp : prevN (r.v.setObj { res.1 with kind := .error, sid := r.nextSid }).items res.2.1.id = 0 := prevN_of_not_mem hnone
      have hpo : prevO (r.v.setObj { res.1 with kind := .error, sid := r.nextSid }).items res.2.1.id res.2.2.1 = res.2.2.1 :=
        prevO_of_not_mem hnone _
      rw [e, hp, hpo]
      refine ⟨rfl, Or.inr ⟨rfl, ?_, rfl, rfl, Or.inr ⟨rfl, ?_, ?_, ?_, ?_⟩⟩⟩
      · show r.v.now + backoff r.v.cfg.minB r.v.cfg.maxB 1 = _
        rw [hq.now, hq.cfg]
      · show res.2.1 ∈ v0.objs
        rw [f5]; exact f1
      · show needs res.2.1.kind
        rw [f5]; exact f2
      · show v0.itRev < res.2.1.rev
        rw [f5]; exact f3
      · show res.2.2.1 = res.2.1.rev
        rw [f5]; exact f4

/-- a valid backoff configuration (`reconciler.config.validate` demands `min > 0`; `min ≤ max` is
    the documented intent) -/
def PosB (c : Cfg) : Prop := 0 < c.minB ∧ c.minB ≤ c.maxB

theorem backoff_pos {c : Cfg} (h : PosB c) (n : Nat) : 0 < backoff c.minB c.maxB n := by
  unfold backoff; simp only
  have : c.minB ≤ c.minB * 2 ^ n := Nat.le_mul_of_pos_right _ (Nat.pow_pos (by omega))
  obtain ⟨h1, h2⟩ := h
  split <;> omega

/-- while the due retries are processed (`v4`: the state this phase began in) -/
structure Q2 (v0 v4 v : V) (rs : List Res) : Prop where
  now : v.now = v0.now
  cfg : v.cfg = v0.cfg
  log : ∃ L, v.log = v4.log ++ L ∧ ∀ c ∈ L, ∃ it ∈ v0.items, it.retryAt ≤ v0.now ∧ c.op = (if it.delete then "D" else "U") ∧
    c.id = it.id ∧ c.data = it.obj.data
  items : ∀ it ∈ v.items, IT4 v0 v.itRev v.itDelRev it
  rp : ∀ res ∈ rs, res.2.2.2.2 = true → ∃ it ∈ v.items, it.id = res.1.id ∧ it.inQueue = false ∧ it.rev = res.2.2.1 ∧ it.obj = res.2.1
  rpd : rs.Pairwise (fun a b => a.2.2.2.2 = true → b.2.2.2.2 = true → a.1.id ≠ b.1.id)

/-- (retry phase) every change that was waiting when the round began has been consumed or its
    object / deletion is still in the table -/
structure QT (v0 v : V) : Prop where
  objsT : ∀ o ∈ v0.objs, needs o.kind → o ∈ v.objs ∨ o.rev ≤ v.itRev
  delsT : ∀ d ∈ v0.dels, d ∈ v.dels

theorem mem_pop_single {v : V} {X : Nat} {o : RObj} (ho : o.id = X) {rev : Nat} {d f : Bool} {x : Item}
    (hx : x ∈ ((v.pop X).single o rev d f).items) :
    (x ∈ v.items ∧ x.id ≠ X) ∨ (d = false ∧ f = true ∧ ∃ i ∈ v.items, i.id = X ∧ x = popItem X i) ∨
    (d = true ∧ f = true ∧ x = mkItem v.now v.cfg o rev (prevO v.items X rev) true (prevN v.items X + 1)) := by
  have hfilt : ∀ y, y ∈ (v.pop X).items → y.id ≠ X → y ∈ v.items ∧ y.id ≠ X := by
    intro y hy hne
    simp only [pop_items, List.mem_map] at hy
    obtain ⟨i, hi, rfl⟩ := hy
    simp only [popItem_id] at hne
    rw [popItem_of_ne hne]; exact ⟨hi, hne⟩
  cases d <;> cases f
  · rw [single_uf] at hx
    simp only [clear_items, call_items, List.mem_filter] at hx
    exact Or.inl (hfilt x hx.1 (by have := hx.2; simp at this; omega))
  · rw [single_ut] at hx
    simp only [call_items, pop_items, List.mem_map] at hx
    obtain ⟨i, hi, rfl⟩ := hx
    by_cases hid : i.id = X
    · exact Or.inr (Or.inl ⟨rfl, rfl, i, hi, hid, rfl⟩)
    · rw [popItem_of_ne hid]; exact Or.inl ⟨hi, hid⟩
  · rw [single_df] at hx
    simp only [clear_items, call_items, List.mem_filter] at hx
    exact Or.inl (hfilt x hx.1 (by have := hx.2; simp at this; omega))
  · rw [single_dt] at hx
    rcases (mem_add_items ..).1 hx with ⟨hm, hne⟩ | e
    · exact Or.inl (hfilt x hm (by omega))
    · right; right
      refine ⟨rfl, rfl, ?_⟩
      rw [e]
      simp only [call_items, pop_items, call_now, pop_now, call_cfg, pop_cfg]
      rw [prevN_pop, prevO_pop, ho]

theorem q2_retry (v0 v4 : V) (hpos : PosB v0.cfg) (r r' : R) (h : Item) (hI : InvL r r.results) (hcu : CaughtUp r) (hh : r.head = some h)
    (hdue : h.retryAt ≤ r.now) (_ : r.numReconciled < r.cfg.roundSize)
    (hv : r'.v = (r.v.pop h.id).single h.obj h.rev h.delete (r.isFailing h.obj.id))
    (hres : r'.results = r.results ++ resOf h.obj h.rev h.delete (r.isFailing h.obj.id)) (_ : InvL r' r'.results)
    (hqq : Q2 v0 v4 r.v r.results ∧ QT v0 r.v) : Q2 v0 v4 r'.v r'.results ∧ QT v0 r'.v := by
  obtain ⟨hq, hqt⟩ := hqq
  obtain ⟨hit0, hq0, _⟩ := head_spec hh
  have hobj := (hI.itemOK h hit0).1
  have hnow : r.now = v0.now := hq.now
  have hcfg : r.cfg = v0.cfg := hq.cfg
  -- the head is an item the round began with, and no change was waiting for its object
  have h0 : h ∈ v0.items ∧ ¬ StaleV v0 h.id := by
    rcases hq.items h hit0 with a | ⟨it, _, _, _, e⟩ | a | ⟨it, _, _, _, _, _, e, _⟩
    · refine ⟨a.1, ?_⟩
      rintro (⟨o, ho, hid, hgt, hn⟩ | ⟨d, hd, hid, hgt⟩)
      · apply a.2.2
        left
        refine ⟨o, ho, hid, hn, hgt, ?_⟩
        rcases hqt.objsT o ho hn with b | b
        · exact hcu.1 o b hn
        · exact b
      · apply a.2.2
        right
        exact ⟨d, hd, hid, hgt, hcu.2 d (hqt.delsT d hd)⟩
    · rw [e, popItem_of_eq rfl] at hq0; cases hq0
    · have := backoff_pos hpos 1; have := a.2.1; omega
    · have := backoff_pos hpos (it.numRetries + 1); omega
  obtain ⟨h0, hns⟩ := h0
  rw [hv, hres]
  refine ⟨⟨by simpa using hq.now, by simpa using hq.cfg, ?_, ?_, ?_, ?_⟩,
    ⟨by simpa using hqt.objsT, by simpa using hqt.delsT⟩⟩
  · obtain ⟨L, e, f⟩ := hq.log
    refine ⟨L ++ [⟨if h.delete then "D" else "U", h.obj.id, h.obj.data, !(r.isFailing h.obj.id)⟩], ?_, fun x hx => ?_⟩
    · rw [single_log]; simp only [pop_log]
      show r.v.log ++ _ = _
      rw [e, List.append_assoc]
    · rcases List.mem_append.1 hx with hx | hx
      · exact f x hx
      · simp only [List.mem_singleton] at hx
        rw [hx]
        exact ⟨h, h0, by omega, rfl, hobj, rfl⟩
  · intro x hx
    simp only [single_itRev, single_itDelRev, pop_itRev, pop_itDelRev]
    rcases mem_pop_single hobj hx with ⟨hm, _⟩ | ⟨_, _, i, hi, hid, e⟩ | ⟨hd, _, e⟩
    · exact hq.items x hm
    · have : i = h := items_eq_of_id hI hi hit0 hid
      rw [e, this]
      exact Or.inr (Or.inl ⟨h, h0, hns, by omega, rfl⟩)
    · right; right; right
      have hp : prevN r.v.items h.id = h.numRetries := prevN_of_mem hI.items_pw hit0
      have hpo : prevO r.v.items h.id h.rev = h.origRev := prevO_of_mem hI.items_pw hit0 _
      rw [e, hp, hpo]
      refine ⟨h, h0, hns, hobj.symm, by omega, rfl, ?_, rfl, hd.symm, rfl, rfl⟩
      show r.v.now + backoff r.v.cfg.minB r.v.cfg.maxB (h.numRetries + 1) = _
      rw [hq.now, hq.cfg]
  · intro res hr hf
    rcases List.mem_append.1 hr with hr | hr
    · obtain ⟨it, hit, e1, e2, e3, e4⟩ := hq.rp res hr hf
      have hne : it.id ≠ h.id := by
        intro e
        have := items_eq_of_id hI hit hit0 e
        rw [this, hq0] at e2; cases e2
      exact ⟨it, mem_single_other hit hne h.obj hobj h.rev _ _, e1, e2, e3, e4⟩
    · unfold resOf at hr
      cases hdel : h.delete with
      | true => rw [hdel] at hr; simp at hr
      | false =>
        rw [hdel] at hr
        simp only [Bool.false_eq_true, if_false, List.mem_singleton] at hr
        rw [hr] at hf
        simp only at hf
        rw [hf, single_ut]
        refine ⟨popItem h.id h, ?_, ?_, ?_, ?_, ?_⟩
        · simp only [call_items, pop_items, List.mem_map]; exact ⟨h, hit0, rfl⟩
        · rw [hr]; simp only [popItem_id]; exact hobj.symm
        · rw [popItem_of_eq rfl]
        · rw [hr]; simp
        · rw [hr]; simp
  · rw [List.pairwise_append]
    refine ⟨hq.rpd, ?_, fun a ha b hb hfa _ => ?_⟩
    · unfold resOf; split <;> simp
    · obtain ⟨it, hit, e1, e2, _, _⟩ := hq.rp a ha hfa
      have hbid : b.1.id = h.obj.id := by
        unfold resOf at hb
        split at hb
        · cases hb
        · simp only [List.mem_singleton] at hb; rw [hb]
      rw [hbid, hobj, ← e1]
      intro e
      have := items_eq_of_id hI hit hit0 e
      rw [this, hq0] at e2; cases e2

theorem q2_drop (v0 v4 : V) (r : R) (res : Res) (rs : List Res) (_ : InvL r (res :: rs))
    (_ : ∀ cur ∈ r.objs, cur.id = res.1.id → cur.rev ≠ res.2.2.1) (hq : Q2 v0 v4 r.v (res :: rs)) : Q2 v0 v4 r.v rs :=
  ⟨hq.now, hq.cfg, hq.log, hq.items, fun x hx => hq.rp x (List.mem_cons_of_mem _ hx), (List.pairwise_cons.1 hq.rpd).2⟩

theorem q2_write (v0 v4 : V) (r r' : R) (res : Res) (rs : List Res) (cur : RObj) (hI : InvL r (res :: rs))
    (_ : cur ∈ r.objs) (_ : cur.id = res.1.id) (_ : cur.rev = res.2.2.1) (hv : r'.v = r.v.commit res r.nextSid) (_ : InvL r' rs)
    (hq : Q2 v0 v4 r.v (res :: rs)) : Q2 v0 v4 r'.v rs := by
  obtain ⟨horig, _, _⟩ := hI.resOK res (List.mem_cons_self ..)
  have hpw := List.pairwise_cons.1 hq.rpd
  rw [hv]
  refine ⟨by simpa using hq.now, by simpa using hq.cfg, by simpa using hq.log, ?_, ?_, hpw.2⟩
  · simp only [commit_itRev, commit_itDelRev]
    cases hf : res.2.2.2.2 with
    | false => rw [commit_s _ _ _ hf]; exact hq.items
    | true =>
      rw [commit_f _ _ _ hf]
      intro x hx
      rcases (mem_add_items ..).1 hx with ⟨hm, _⟩ | e
      · exact hq.items x hm
      · obtain ⟨i, hi, e1, e2, e3, e4⟩ := hq.rp res (List.mem_cons_self ..) hf
        -- the popped item of this result
        obtain ⟨it, hit0, hns, hdue, ei⟩ : PoppedIt v0 i := by
          rcases hq.items i hi with a | a | a | ⟨_, _, _, _, _, _, _, _, _, _, a⟩
          · rw [a.2.1] at e2; cases e2
          · exact a
          · rw [a.2.2.1] at e2; cases e2
          · rw [a] at e2; cases e2
        have hdel : i.delete = false := ((hI.itemOK i hi).2.2 e2).1
        have hp : prevN (r.v.setObj { res.1 with kind := .error, sid := r.nextSid }).items res.2.1.id = i.numRetries := by
          have : res.2.1.id = i.id := by omega
          rw [this]; exact prevN_of_mem hI.items_pw hi
        have hpo : prevO (r.v.setObj { res.1 with kind := .error, sid := r.nextSid }).items res.2.1.id res.2.2.1 = i.origRev := by
          have : res.2.1.id = i.id := by omega
          rw [this]; exact prevO_of_mem hI.items_pw hi _
        right; right; right
        rw [e, hp, hpo]
        refine ⟨it, hit0, hns, ?_, hdue, ?_, ?_, ?_, ?_, ?_, rfl⟩
        · show it.id = res.2.1.id
          rw [ei] at e1; simp only [popItem_id] at e1; omega
        · show i.numRetries + 1 = it.numRetries + 1
          rw [ei]; simp
        · show (r.v.setObj _).now + backoff (r.v.setObj _).cfg.minB (r.v.setObj _).cfg.maxB (i.numRetries + 1) = _
          simp only [setObjV_now, setObjV_cfg]
          rw [hq.now, hq.cfg, ei]; simp
        · show i.origRev = it.origRev
          rw [ei]; simp
        · show false = it.delete
          rw [ei] at hdel; simp only [popItem_delete] at hdel; exact hdel.symm
        · show res.2.1 = it.obj
          rw [← e4, ei]; simp
  · intro x hx hfx
    obtain ⟨i, hi, e1, e2, e3, e4⟩ := hq.rp x (List.mem_cons_of_mem _ hx) hfx
    cases hf : res.2.2.2.2 with
    | false => rw [commit_s _ _ _ hf]; exact ⟨i, hi, e1, e2, e3, e4⟩
    | true =>
      rw [commit_f _ _ _ hf]
      have hne := hpw.1 x hx hf hfx
      exact ⟨i, (mem_add_items ..).2 (Or.inl ⟨hi, by omega⟩), e1, e2, e3, e4⟩

/-- **what one round does**, relative to the state it began in (valid backoff configuration):
    the calls it logs are first the attempts of changes that were waiting in the change stream,
    then retries of items that were queued and DUE (`retryAt ≤ now`); every retry item it leaves is
    untouched, or was queued by the first failure for a change (count 1), or by the repeated failure
    of a due retry (count + 1) -/
theorem k1_init {r : R} (hr : RInv r) : K1 r.v r.v [] := by
  refine ⟨rfl, rfl, rfl, rfl, Nat.le_refl _, Nat.le_refl _, ⟨[], by simp, fun c hc => (by cases hc)⟩,
      fun it hit => ⟨hr.items_queued it hit, Or.inl ⟨hit, ?_⟩⟩, fun res hres => (by cases hres), fun res hres => (by cases hres)⟩
  rintro (⟨o, _, _, _, h1, h2⟩ | ⟨d, _, _, h1, h2⟩) <;> omega

theorem round_items_calls {r : R} (hr : RInv r) (hpos : PosB r.cfg) :
    (∃ L1 L2, r.round.log = r.log ++ L1 ++ L2 ∧ (∀ c ∈ L1, FirstAttempt r.v c) ∧
      (∀ c ∈ L2, ∃ it ∈ r.items, it.retryAt ≤ r.now ∧ c.op = (if it.delete then "D" else "U") ∧ c.id = it.id ∧ c.data = it.obj.data)) ∧
    (∀ it ∈ r.round.items, it ∈ r.items ∨ FreshIt r.v it ∨ AgainIt r.v it) := by
  have h0 : (fun v rs (_ : List Change) (_ : Nat) => K1 r.v v rs) r.v [] r.nextChanges.2 0 := k1_init hr
  obtain ⟨hI3, hcu3, hK⟩ := round_ind (K := fun v rs _ _ => K1 r.v v rs) (k1_skip r.v) (k1_upd r.v) (k1_del r.v) hr h0
  obtain ⟨hI4, hres4, _, hI5, _, _, _, hcu4⟩ := tail_ind (Q := fun _ _ => True) (fun _ _ _ _ _ _ => trivial)
    (fun _ _ _ _ _ _ _ _ _ _ _ _ => trivial) (fun _ _ _ _ _ _ _ _ _ _ _ _ => trivial) hI3 hcu3 trivial
  have hq1 : Q1 r.v (tail4 (round3 r)).v [] := by
    unfold tail4; rw [commitStatus_v]
    exact commit_ind (q1_drop r.v) (q1_write r.v) _ hI3 hK.toQ1
  have hI4' : InvL (tail4 (round3 r)) (tail4 (round3 r)).results := by rw [hres4]; exact hI4
  have hq2 : Q2 r.v (tail4 (round3 r)).v (tail4 (round3 r)).v (tail4 (round3 r)).results := by
    rw [hres4]
    refine ⟨hq1.now, hq1.cfg, ⟨[], by simp, fun c hc => (by cases hc)⟩, fun it hit => ?_, fun res hres => (by cases hres), List.Pairwise.nil⟩
    obtain ⟨a, b | b⟩ := hq1.items it hit
    · exact Or.inl ⟨b.1, a, b.2⟩
    · exact Or.inr (Or.inr (Or.inl b))
  have hq5 : Q2 r.v (tail4 (round3 r)).v (tail5 (round3 r)).v (tail5 (round3 r)).results :=
    (retries_ind (Q := fun v rs => Q2 r.v (tail4 (round3 r)).v v rs ∧ QT r.v v)
      (q2_retry r.v (tail4 (round3 r)).v hpos) _ hI4' hcu4 ⟨hq2, hq1.objsT, hq1.delsT⟩).1
  have hq6 : Q2 r.v (tail4 (round3 r)).v (tail6 (round3 r)).v [] := by
    unfold tail6; rw [commitStatus_v]
    exact commit_ind (q2_drop r.v _) (q2_write r.v _) _ hI5 hq5
  constructor
  · obtain ⟨L1, e1, f1⟩ := hq1.log
    obtain ⟨L2, e2, f2⟩ := hq6.log
    refine ⟨L1, L2, ?_, f1, f2⟩
    have : r.round.log = (tail6 (round3 r)).v.log := rfl
    rw [this, e2, e1]; rfl
  · intro it hit
    have hit' : it ∈ (tail6 (round3 r)).v.items := hit
    rcases hq6.items it hit' with a | ⟨i, _, _, _, e⟩ | a | a
    · exact Or.inl a.1
    · have := hr.round.items_queued it hit
      rw [e, popItem_of_eq rfl] at this; cases this
    · exact Or.inr (Or.inl a)
    · exact Or.inr (Or.inr a)

/-! ## any configuration: a retry runs only when due -/

/-- the calls of the retry phase: each is for an item whose retry time had come, and that time was
    at least one backoff after the failure that queued it -/
def RTg (v0 v4 v : V) : Prop :=
  v.now = v0.now ∧ v.cfg = v0.cfg ∧ ∃ L, v.log = v4.log ++ L ∧ ∀ c ∈ L, ∃ it : Item, it.retryAt ≤ v0.now ∧ 1 ≤ it.numRetries ∧
    backoff v0.cfg.minB v0.cfg.maxB it.numRetries ≤ it.retryAt ∧ c.op = (if it.delete then "D" else "U") ∧ c.id = it.id ∧ c.data = it.obj.data

theorem rtg_retry (L0 : Nat) (v0 v4 : V) (r r' : R) (h : Item) (hI : InvL r r.results) (hcu : CaughtUp r) (hh : r.head = some h)
    (hdue : h.retryAt ≤ r.now) (hlt : r.numReconciled < r.cfg.roundSize)
    (hv : r'.v = (r.v.pop h.id).single h.obj h.rev h.delete (r.isFailing h.obj.id))
    (hres : r'.results = r.results ++ resOf h.obj h.rev h.delete (r.isFailing h.obj.id)) (hI' : InvL r' r'.results)
    (hq : QX L0 r.v r.results ∧ RTg v0 v4 r.v) : QX L0 r'.v r'.results ∧ RTg v0 v4 r'.v := by
  refine ⟨qx_retry L0 r r' h hI hcu hh hdue hlt hv hres hI' hq.1, ?_⟩
  obtain ⟨hit0, _, _⟩ := head_spec hh
  have hobj := (hI.itemOK h hit0).1
  have hik := hq.1.1.items h hit0
  obtain ⟨e1, e2, L, e3, f⟩ := hq.2
  have hnow : r.now = v0.now := e1
  rw [hv]
  refine ⟨by simpa using e1, by simpa using e2, L ++ [⟨if h.delete then "D" else "U", h.obj.id, h.obj.data, !(r.isFailing h.obj.id)⟩], ?_, fun x hx => ?_⟩
  · rw [single_log]; simp only [pop_log]
    show r.v.log ++ _ = _
    rw [e3, List.append_assoc]
  · rcases List.mem_append.1 hx with hx | hx
    · exact f x hx
    · simp only [List.mem_singleton] at hx
      rw [hx]
      refine ⟨h, by omega, hik.npos, ?_, rfl, hobj, rfl⟩
      have := hik.pace1
      rw [e2] at this; exact this

/-- the calls of a round, any configuration: first the attempts of changes that were waiting in the
    change stream, then retries — each of an item whose retry time had come -/
theorem round_calls_due {r : R} (hr : RInv r) (hx : XL r.v []) (hit : ItLe r) :
    ∃ L1 L2, r.round.log = r.log ++ L1 ++ L2 ∧ (∀ c ∈ L1, FirstAttempt r.v c) ∧
      (∀ c ∈ L2, ∃ it : Item, it.retryAt ≤ r.now ∧ 1 ≤ it.numRetries ∧ backoff r.cfg.minB r.cfg.maxB it.numRetries ≤ it.retryAt ∧
        c.op = (if it.delete then "D" else "U") ∧ c.id = it.id ∧ c.data = it.obj.data) := by
  have h0 : (fun v rs (_ : List Change) (_ : Nat) => K1 r.v v rs) r.v [] r.nextChanges.2 0 := k1_init hr
  obtain ⟨hI3, hcu3, hK⟩ := round_ind (K := fun v rs _ _ => K1 r.v v rs) (k1_skip r.v) (k1_upd r.v) (k1_del r.v) hr h0
  have h0' := kx_init hr hx hit
  obtain ⟨_, _, hKX⟩ := round_ind kx_skip kx_upd kx_del hr h0'
  have hq3 : QX (roundLast r) (round3 r).v (round3 r).results := ⟨hKX.1, hKX.2.toTL⟩
  obtain ⟨hI4, hres4, hQ4, hI5, _, _, _, hcu4⟩ := tail_ind (qx_drop (roundLast r)) (qx_write (roundLast r)) (qx_retry (roundLast r)) hI3 hcu3 hq3
  have hq1 : Q1 r.v (tail4 (round3 r)).v [] := by
    unfold tail4; rw [commitStatus_v]
    exact commit_ind (q1_drop r.v) (q1_write r.v) _ hI3 hK.toQ1
  have hI4' : InvL (tail4 (round3 r)) (tail4 (round3 r)).results := by rw [hres4]; exact hI4
  have hq5 := retries_ind (Q := fun v rs => QX (roundLast r) v rs ∧ RTg r.v (tail4 (round3 r)).v v)
    (rtg_retry (roundLast r) r.v (tail4 (round3 r)).v) ((tail4 (round3 r)).items.length + 1) hI4' hcu4
    ⟨by rw [hres4]; exact hQ4, hq1.now, hq1.cfg, [], by simp, fun c hc => (by cases hc)⟩
  obtain ⟨_, _, _, L2, e2, f2⟩ := hq5
  obtain ⟨L1, e1, f1⟩ := hq1.log
  refine ⟨L1, L2, ?_, f1, f2⟩
  obtain ⟨r', hrel, he⟩ := commitStatus_rel (tail5 (round3 r))
  have : r.round.log = (tail5 (round3 r)).log := by
    show (tail6 (round3 r)).log = _
    unfold tail6; rw [he]; exact hrel.log
  rw [this]
  have e2' : (tail5 (round3 r)).log = (tail4 (round3 r)).log ++ L2 := e2
  have e1' : (tail4 (round3 r)).log = r.log ++ L1 := e1
  rw [e2', e1']

/-! ## the progress tracker's revision only grows -/

theorem round_progressRev {r : R} (hr : RInv r) :
    r.round.progressRev = if roundLast r > r.progressRev then roundLast r else r.progressRev := by
  have h0 : (fun v (_ : List Res) (_ : List Change) (_ : Nat) => v.progressRev = r.progressRev) r.v [] r.nextChanges.2 0 := rfl
  obtain ⟨hI3, hcu3, hK⟩ := round_ind (K := fun v _ _ _ => v.progressRev = r.progressRev)
    (fun _ _ _ _ _ _ _ _ h => h)
    (fun _ _ _ _ _ _ _ _ _ hv _ _ _ h => by rw [hv]; simpa using h)
    (fun _ _ _ _ _ _ _ _ hv _ _ _ h => by rw [hv]; simpa using h) hr h0
  obtain ⟨_, _, _, _, _, _, hQ6, _⟩ := tail_ind (Q := fun v _ => v.progressRev = r.progressRev)
    (fun _ _ _ _ _ h => h) (fun _ _ _ _ _ _ _ _ _ hv _ h => by rw [hv]; simpa using h)
    (fun _ _ _ _ _ _ _ _ hv _ _ h => by rw [hv]; simpa using h) hI3 hcu3 hK
  have h6 : (tail6 (round3 r)).progressRev = r.progressRev := hQ6
  show (if roundLast r > (tail6 (round3 r)).progressRev then roundLast r else (tail6 (round3 r)).progressRev) = _
  rw [h6]

theorem round_progressRev_ge {r : R} (hr : RInv r) : r.progressRev ≤ r.round.progressRev := by
  rw [round_progressRev hr]; split <;> omega

theorem quiesce_progressRev_ge {r : R} (hr : RInv r) (fuel : Nat) : r.progressRev ≤ (r.quiesce fuel).progressRev := by
  induction fuel generalizing r with
  | zero => exact Nat.le_refl _
  | succ n ih =>
    unfold R.quiesce
    simp only
    obtain ⟨_, _, _, _, e, _, _, _⟩ := fireTimer_frame2 r
    split
    · have := ih hr.fireTimer.round
      have := round_progressRev_ge hr.fireTimer
      omega
    · omega

theorem advance_progressRev_ge {r : R} (hr : RInv r) (ms fuel : Nat) : r.progressRev ≤ (r.advance ms fuel).progressRev := by
  induction fuel generalizing r ms with
  | zero => exact Nat.le_refl _
  | succ n ih =>
    unfold R.advance
    simp only
    split
    · rename_i t _
      split
      · have h1 := quiesce_progressRev_ge (hr.setNow (max t r.now)) 64
        have h2 := ih ((hr.setNow (max t r.now)).quiesce 64) (r.now + ms - (R.quiesce { r with now := max t r.now } 64).now)
        exact Nat.le_trans h1 h2
      · exact Nat.le_refl _
    · exact Nat.le_refl _

end Sdb.Rec
