import SdbModel.Lemmas.ArtFrame

/-! The Prefix(q) watch of Model.Art under transactions with several calls:
    path closure on partly owned trees and the frame lemma, for `prefixNode`. -/
set_option linter.unusedSimpArgs false
namespace Sdb.ArtW
open Sdb.Art

/-! ## the watch Prefix(q) hands out, independent of the inherited watch -/

mutual
/-- the closest non-nil inner-node watch on the path of the prefix search for `q` -/
def ppw : Node → List Nat → Option Nat
  | .leaf _ _, _ => none
  | .inner _ p _ kids nw _, q =>
    if hasPrefix p q then nz nw
    else if hasPrefix q p then
      match q.drop p.length with
      | [] => nz nw
      | b :: r => (ppwK kids b (b :: r)).or (nz nw)
    else none
def ppwK : Kids → Nat → List Nat → Option Nat
  | .nil, _, _ => none
  | .cons c n r, b, q => if c = b then ppw n q else if c < b then ppwK r b q else none
end

/-- `q` against the part of the node prefix it is compared with -/
theorem prefix_regime (p q : List Nat) :
    (hasPrefix q (p.take (min q.length p.length)) = true ↔ (hasPrefix p q = true ∨ hasPrefix q p = true)) ∧
    (hasPrefix p q = true → q.drop (p.take (min q.length p.length)).length = []) ∧
    (hasPrefix p q = false → hasPrefix q p = true →
      (p.take (min q.length p.length)) = p) := by
  induction p generalizing q with
  | nil => cases q <;> simp [hasPrefix]
  | cons a as ih =>
    cases q with
    | nil => simp [hasPrefix]
    | cons b bs =>
      obtain ⟨h1, h2, h3⟩ := ih bs
      have hm : min (b :: bs).length (a :: as).length = min bs.length as.length + 1 := by
        simp only [List.length_cons]; omega
      rw [hm]
      simp only [List.take_succ_cons, hasPrefix, Bool.and_eq_true, beq_iff_eq, List.length_cons,
        List.drop_succ_cons, Bool.and_eq_false_iff]
      refine ⟨?_, ?_, ?_⟩
      · constructor
        · rintro ⟨hab, h⟩
          rcases h1.mp h with h | h
          · exact Or.inl ⟨hab.symm, h⟩
          · exact Or.inr ⟨hab, h⟩
        · rintro (⟨hab, h⟩ | ⟨hab, h⟩)
          · exact ⟨hab.symm, h1.mpr (Or.inl h)⟩
          · exact ⟨hab, h1.mpr (Or.inr h)⟩
      · rintro ⟨_, h⟩; exact h2 h
      · intro hn ⟨hab, h⟩
        have : hasPrefix as bs = false := by
          rcases hn with hn | hn
          · simp [hab] at hn
          · exact hn
        rw [h3 this h]

theorem nz_getD (nw w : Nat) : (nz nw).getD w = if nw ≠ 0 then nw else w := by
  unfold nz; split <;> rfl

mutual
theorem prefix_eq_ppw : (n : Node) → (w : Nat) → (q : List Nat) → (prefixNode n w q).2 = (ppw n q).getD w
  | .leaf p d, w, q => by rw [prefixNode_leaf]; rfl
  | .inner kind p lf kids nw t, w, q => by
    obtain ⟨h1, h2, h3⟩ := prefix_regime p q
    unfold prefixNode ppw
    simp only [Node.pfx, Node.isLeaf, Node.watch, Bool.not_false, true_and]
    by_cases hpq : hasPrefix p q = true
    · have hcp := h1.mpr (Or.inl hpq)
      simp only [hcp, Bool.not_true, Bool.false_eq_true, if_false, hpq, if_true, h2 hpq, nz_getD]
    · have hpq' : hasPrefix p q = false := by simpa using hpq
      by_cases hqp : hasPrefix q p = true
      · have hcp := h1.mpr (Or.inr hqp)
        have hcpe := h3 hpq' hqp
        simp only [hcp, Bool.not_true, Bool.false_eq_true, if_false, hpq, hqp, if_true, hcpe]
        cases hk : List.drop p.length q with
        | nil => simp only [nz_getD]
        | cons b r =>
          simp only
          rw [prefixK_eq_ppw kids b _ (b :: r)]
          cases ppwK kids b (b :: r) with
          | some c => simp
          | none => simp only [Option.getD_none, Option.none_or, nz_getD]
      · have hcp : ¬ hasPrefix q (List.take (min q.length p.length) p) = true := by
          intro h
          rcases h1.mp h with h | h
          · exact hpq h
          · exact hqp h
        simp [hcp, hpq, hqp]
theorem prefixK_eq_ppw : (kids : Kids) → (b w : Nat) → (q : List Nat) →
    (prefixK kids b w q).2 = (ppwK kids b q).getD w
  | .nil, b, w, q => by simp [prefixK, ppwK]
  | .cons c n r, b, w, q => by
    unfold prefixK ppwK
    by_cases hcb : c = b
    · simp only [hcb, if_true]; exact prefix_eq_ppw n w q
    · simp only [hcb, if_false]
      by_cases hlt : c < b
      · simp only [hlt, if_true]; exact prefixK_eq_ppw r b w q
      · simp [hlt]
end


/-! ## Prefix: path closure on partly owned trees -/

theorem ppw_inner_deeper (kind : Nat) (p : List Nat) (lf : Option LeafD) (kids : Kids) (nw t : Nat) (q : List Nat)
    (b : Nat) (r : List Nat) (h1 : hasPrefix p q = false) (h2 : hasPrefix q p = true) (hk : q.drop p.length = b :: r) :
    ppw (.inner kind p lf kids nw t) q = (ppwK kids b (b :: r)).or (nz nw) := by
  unfold ppw
  simp only [h1, Bool.false_eq_true, if_false, h2, if_true, hk]

theorem ppw_inner_cases (kind : Nat) (p : List Nat) (lf : Option LeafD) (kids : Kids) (nw t : Nat) (q : List Nat) (c : Nat)
    (h : ppw (.inner kind p lf kids nw t) q = some c) :
    nz nw = some c ∨ (hasPrefix p q = false ∧ hasPrefix q p = true ∧
      ∃ b r, q.drop p.length = b :: r ∧ ppwK kids b (b :: r) = some c) := by
  unfold ppw at h
  by_cases hpq : hasPrefix p q = true
  · simp only [hpq, if_true] at h; exact Or.inl h
  · have hpq' : hasPrefix p q = false := by simpa using hpq
    simp only [hpq, if_false] at h
    by_cases hqp : hasPrefix q p = true
    · simp only [hqp, if_true] at h
      cases hk : List.drop p.length q with
      | nil => rw [hk] at h; exact Or.inl h
      | cons b r =>
        rw [hk] at h
        simp only at h
        rcases or_some_cases h with h' | ⟨_, h'⟩
        · exact Or.inr ⟨hpq', hqp, b, r, rfl, h'⟩
        · exact Or.inl h'
    · simp [hqp] at h

theorem ppw_inner_frame (B : Nat) (pend : List Nat) (kind kind' : Nat) (p : List Nat) (lf lf' : Option LeafD)
    (kids kids' : Kids) (nw nw' t t' : Nat) (q : List Nat) (c : Nat)
    (hkids : ∀ b q2, ppwK kids b q2 = some c → B ≤ c ∨ c ∈ pend ∨ ppwK kids' b q2 = some c)
    (hnw : nz nw = some c → B ≤ c ∨ c ∈ pend)
    (hc : ppw (.inner kind p lf kids nw t) q = some c) :
    B ≤ c ∨ c ∈ pend ∨ ppw (.inner kind' p lf' kids' nw' t') q = some c := by
  rcases ppw_inner_cases kind p lf kids nw t q c hc with h | ⟨h1, h2, b, r, hk, h⟩
  · rcases hnw h with hx | hx
    · exact Or.inl hx
    · exact Or.inr (Or.inl hx)
  · rcases hkids b (b :: r) h with hx | hx | hx
    · exact Or.inl hx
    · exact Or.inr (Or.inl hx)
    · right; right
      rw [ppw_inner_deeper _ _ _ _ _ _ _ b r h1 h2 hk, hx]; rfl

mutual
theorem insNode_closes_prefix_mixed (P : ArtParams) (st : St) (B : Nat) : (n : Node) →
    (key full : List Nat) → (val : Nat) → (mod : Option (Nat → Nat → Nat)) → (q : List Nat) →
    Inner (OFq st.txnID B) n → hasPrefix key q = true →
    ∀ c, ppw n q = some c → B ≤ c ∨ c ∈ (insNode P st n key full val mod).st.pending
  | .leaf p d, key, full, val, mod, q, hs, hkq, c, hc => by simp [ppw] at hc
  | .inner kind pfx lf kids nw t, key, full, val, mod, q, hs, hkq, c, hc => by
    have hs' := hs
    simp only [Inner] at hs'
    have hA := insNode_inner_rec' P st B kind pfx lf kids nw t key full val mod hs'.1
    rcases ppw_inner_cases kind pfx lf kids nw t q c hc with h | ⟨_, hq, b, r, hd, hpk⟩
    · exact hA c h
    · obtain ⟨hp, r', hk, hkr⟩ := key_follows_prefix key q pfx b r hkq hq hd
      have hne : key ≠ [] := by intro e; subst e; simp at hk
      have hl : key.length ≠ pfx.length := by
        intro e
        have : (List.drop pfx.length key).length = 0 := by simp [e]
        rw [hk] at this; simp at this
      have ih := insKids_closes_prefix_mixed P st B kids b (b :: r') full val mod (b :: r) hs'.2 hkr c hpk
      cases hins : insKids P st kids b (b :: r') full val mod with
      | none => rw [hins] at ih; exact Or.inl ih
      | some x =>
        obtain ⟨res, kids'⟩ := x
        rw [hins] at ih
        rcases ih with ih | ih
        · exact Or.inl ih
        · right
          unfold insNode
          simp only [hne, hp, hl, ne_eq, not_false_eq_true, and_self, if_true, hk, List.headD_cons, hins]
          exact (cloneNode_le _ _).sub _ ih
theorem insKids_closes_prefix_mixed (P : ArtParams) (st : St) (B : Nat) : (kids : Kids) → (b : Nat) →
    (key full : List Nat) → (val : Nat) → (mod : Option (Nat → Nat → Nat)) → (q : List Nat) →
    InnerK (OFq st.txnID B) kids → hasPrefix key q = true →
    ∀ c, ppwK kids b q = some c →
    match insKids P st kids b key full val mod with
    | some (r, _) => B ≤ c ∨ c ∈ r.st.pending
    | none => B ≤ c
  | .nil, b, key, full, val, mod, q, hs, hkq, c, hc => by simp [ppwK] at hc
  | .cons a n rest, b, key, full, val, mod, q, hs, hkq, c, hc => by
    simp only [InnerK] at hs
    unfold ppwK at hc
    unfold insKids
    by_cases hab : a = b
    · simp only [hab, if_true] at hc ⊢
      exact insNode_closes_prefix_mixed P st B n key full val mod q hs.1 hkq c hc
    · simp only [hab, if_false] at hc ⊢
      by_cases hlt : a < b
      · simp only [hlt, if_true] at hc ⊢
        have := insKids_closes_prefix_mixed P st B rest b key full val mod q hs.2 hkq c hc
        cases hk : insKids P st rest b key full val mod with
        | none => rw [hk] at this; exact this
        | some x => rw [hk] at this; exact this
      · simp [hlt] at hc
end

mutual
theorem delNode_closes_prefix_mixed (P : ArtParams) (st : St) (B : Nat) : (n : Node) → (key : List Nat) → (q : List Nat) →
    (st' : St) → Inner (OFq st.txnID B) n → hasPrefix key q = true → delSt (delNode P st n key) = some st' →
    ∀ c, ppw n q = some c → B ≤ c ∨ c ∈ st'.pending
  | .leaf p d, key, q, st', hs, hkq, h, c, hc => by simp [ppw] at hc
  | .inner kind pfx lf kids nw t, key, q, st', hs, hkq, h, c, hc => by
    have hs' := hs
    simp only [Inner] at hs'
    have hA := delNode_inner_rec' P st B kind pfx lf kids nw t key st' hs'.1 h
    rcases ppw_inner_cases kind pfx lf kids nw t q c hc with hn | ⟨_, hq, b, r, hd, hpk⟩
    · exact hA c hn
    · obtain ⟨hp, r', hk, hkr⟩ := key_follows_prefix key q pfx b r hkq hq hd
      obtain ⟨_, h⟩ := delNode_inner_inv P st kind pfx lf kids nw t key st' h
      rcases h with ⟨hk0, _⟩ | ⟨b', r'', hk', h⟩
      · rw [hk] at hk0; simp at hk0
      · rw [hk] at hk'
        simp only [List.cons.injEq] at hk'
        obtain ⟨hb, hr⟩ := hk'
        subst hb; subst hr
        rcases h with ⟨st1, n1, old, kids', hdk, he⟩ | ⟨st1, old, kids', hdk, he⟩
        · rcases delKids_closes_prefix_mixed P st B kids b (b :: r') (b :: r) _ kids' st1 hs'.2 hkr hdk rfl c hpk with ih | ih
          · exact Or.inl ih
          · right; rw [he]; exact (cloneNode_le _ _).sub _ ih
        · rcases delKids_closes_prefix_mixed P st B kids b (b :: r') (b :: r) _ kids' st1 hs'.2 hkr hdk rfl c hpk with ih | ih
          · exact Or.inl ih
          · right; rw [he]; exact (removeChild_le ..).sub _ ih
theorem delKids_closes_prefix_mixed (P : ArtParams) (st : St) (B : Nat) : (kids : Kids) → (b : Nat) → (key : List Nat) →
    (q : List Nat) → (r : DelRes) → (kids' : Kids) → (st' : St) → InnerK (OFq st.txnID B) kids →
    hasPrefix key q = true → delKids P st kids b key = some (r, kids') → delSt r = some st' →
    ∀ c, ppwK kids b q = some c → B ≤ c ∨ c ∈ st'.pending
  | .nil, b, key, q, r, kids', st', hs, hkq, h, hr, c, hc => by simp [delKids] at h
  | .cons a n rest, b, key, q, r, kids', st', hs, hkq, h, hr, c, hc => by
    simp only [InnerK] at hs
    unfold ppwK at hc
    rcases delKids_inv P st a n rest b key r kids' h with ⟨hab, he⟩ | ⟨hlt, rest', hk⟩
    · simp only [hab, if_true] at hc
      rw [he] at hr
      exact delNode_closes_prefix_mixed P st B n key q st' hs.1 hkq hr c hc
    · have : ¬ a = b := by omega
      simp only [this, if_false, hlt, if_true] at hc
      exact delKids_closes_prefix_mixed P st B rest b key q r rest' st' hs.2 hkq hk hr c hc
end



/-! ## Prefix frame: insert -/

theorem ppwK_insert_free (P : ArtParams) (st : St) (b' : Nat) (key' full : List Nat) (val : Nat)
    (mod : Option (Nat → Nat → Nat)) (n : Node) (b : Nat) (k2 : List Nat) (c : Nat) :
    (kids : Kids) → insKids P st kids b' key' full val mod = none → ppwK kids b k2 = some c →
    ppwK (kids.insert b' n) b k2 = some c
  | .nil, _, h => by simp [ppwK] at h
  | .cons a m r, hins, h => by
    unfold insKids at hins
    by_cases hab : a = b'
    · simp [hab] at hins
    · simp only [hab, if_false] at hins
      unfold ppwK at h
      by_cases hlt : a < b'
      · simp only [hlt, if_true] at hins
        have hr : insKids P st r b' key' full val mod = none := by
          cases hh : insKids P st r b' key' full val mod with
          | none => rfl
          | some x => rw [hh] at hins; simp at hins
        have : ¬ b' < a := by omega
        simp only [Kids.insert, this, if_false]
        unfold ppwK
        by_cases h1 : a = b
        · simp only [h1, if_true] at h ⊢; exact h
        · simp only [h1, if_false] at h ⊢
          by_cases h2 : a < b
          · simp only [h2, if_true] at h ⊢
            exact ppwK_insert_free P st b' key' full val mod n b k2 c r hr h
          · simp [h2] at h
      · have hgt : b' < a := by omega
        simp only [Kids.insert, hgt, if_true]
        by_cases h1 : a = b
        · have e1 : ¬ b' = b := by omega
          have e2 : b' < b := by omega
          simp only [h1, if_true] at h
          simp only [ppwK, e1, if_false, e2, if_true, h1]
          exact h
        · simp only [h1, if_false] at h
          by_cases h2 : a < b
          · have e1 : ¬ b' = b := by omega
            have e2 : b' < b := by omega
            simp only [h2, if_true] at h
            simp only [ppwK, e1, if_false, e2, if_true, h1, h2]
            exact h
          · simp [h2] at h

theorem hasPrefix_false_of_length {a b : List Nat} (h : a.length < b.length) : hasPrefix a b = false := by
  cases hh : hasPrefix a b with
  | false => rfl
  | true => have := hasPrefix_length _ _ hh; omega

theorem ppw_mergeUp (pfx : List Nat) (child : Node) (q : List Nat) (c : Nat) (hp : hasPrefix q pfx = true)
    (hc : ppw child (q.drop pfx.length) = some c) : ppw (mergeUp pfx child) q = some c := by
  have hsplit := hasPrefix_split q pfx hp
  cases child with
  | leaf p d => simp [ppw] at hc
  | inner kind cp lf kids nw t =>
    simp only [mergeUp, Node.setPfx, Node.pfx]
    have e1 : hasPrefix (pfx ++ cp) q = hasPrefix cp (q.drop pfx.length) := by
      conv => lhs; rw [hsplit]
      exact hasPrefix_append_same _ _ _
    have e2 : hasPrefix q (pfx ++ cp) = hasPrefix (q.drop pfx.length) cp := by
      conv => lhs; rw [hsplit]
      exact hasPrefix_append_same _ _ _
    have e3 : List.drop (pfx ++ cp).length q = List.drop cp.length (List.drop pfx.length q) := by
      rw [List.drop_drop, List.length_append]
    unfold ppw at hc ⊢
    rw [e1, e2, e3]
    exact hc

theorem ppw_forkNode_this (k4 : Nat) (common : List Nat) (this : Node) (key : List Nat) (d : LeafD) (w id : Nat)
    (q : List Nat) (tb : Nat) (ts r : List Nat) (hth : this.pfx = tb :: ts)
    (hdiv : ∀ kb ks, key = kb :: ks → kb ≠ tb) (h1 : hasPrefix common q = false) (hp : hasPrefix q common = true)
    (hk : q.drop common.length = tb :: r) :
    ppw (forkNode k4 common this key d w id) q = (ppw this (tb :: r)).or (nz w) := by
  unfold forkNode
  rw [hth]
  cases key with
  | nil =>
    simp only
    rw [ppw_inner_deeper _ _ _ _ _ _ _ tb r h1 hp hk]
    simp only [ppwK, if_true]
  | cons kb ks =>
    have hne := hdiv kb ks rfl
    simp only
    by_cases hlt : tb < kb
    · simp only [hlt, if_true]
      rw [ppw_inner_deeper _ _ _ _ _ _ _ tb r h1 hp hk]
      simp only [ppwK, if_true]
    · simp only [hlt, if_false]
      rw [ppw_inner_deeper _ _ _ _ _ _ _ tb r h1 hp hk]
      have h2 : kb < tb := by omega
      simp only [ppwK, hne, if_false, h2, if_true]

theorem insAt_pframe_inner (P : ArtParams) (st : St) (B : Nat) (kind : Nat) (p : List Nat)
    (lf : Option LeafD) (kids : Kids) (nw t : Nat) (key full : List Nat) (val : Nat) (mod : Option (Nat → Nat → Nat))
    (q : List Nat) (hs : Inner (OFq st.txnID B) (.inner kind p lf kids nw t))
    (hno : ¬ (key ≠ [] ∧ hasPrefix key p = true ∧ key.length ≠ p.length)) (c : Nat)
    (hc : ppw (.inner kind p lf kids nw t) q = some c) :
    B ≤ c ∨ c ∈ (insAt P st (.inner kind p lf kids nw t) key full val mod).st.pending ∨
      ppw (insAt P st (.inner kind p lf kids nw t) key full val mod).node q = some c := by
  have hs' := hs
  simp only [Inner] at hs'
  have hX := cloneNode_inner_X st B kind p lf kids nw t hs'.1 c
  by_cases hex : key.length = (commonPrefix key p).length ∧ key.length = p.length
  · have hkp := commonPrefix_exact key p hex.1 hex.2
    subst hkp
    obtain ⟨lf', w', t', hnode, hle⟩ := insAt_exact_inner P st kind key lf kids nw t full val mod
    rw [hnode]
    refine ppw_inner_frame B _ kind kind key lf lf' kids kids nw w' t t' q c ?_ ?_ hc
    · intro b q2 hb; exact Or.inr (Or.inr hb)
    · intro hn
      rcases hX hn with hx | hx
      · exact Or.inl hx
      · exact Or.inr (hle.sub _ hx)
  · obtain ⟨w', t', he, hnode, hst⟩ := insAt_fork_inner P st kind p lf kids nw t key full val mod hex
    have hle : StLe (cloneNode st (.inner kind p lf kids nw t)).1 (insAt P st (.inner kind p lf kids nw t) key full val mod).st := by
      rw [hst]; exact (newLeafD_le _ full val).trans (fresh_le _)
    have hcp := commonPrefix_hasPrefix key p
    have hcp2 := commonPrefix_hasPrefix_right key p
    have hl1 := hasPrefix_length _ _ hcp
    have hl2 := hasPrefix_length _ _ hcp2
    rcases ppw_inner_cases kind p lf kids nw t q c hc with hn | ⟨hpq, hqp, b, r, hk, hpk⟩
    · rcases hX hn with hx | hx
      · exact Or.inl hx
      · exact Or.inr (Or.inl (hle.sub _ hx))
    · cases hth : List.drop (commonPrefix key p).length p with
      | nil =>
        exfalso
        have e1 : (List.drop (commonPrefix key p).length p).length = 0 := by rw [hth]; rfl
        simp only [List.length_drop] at e1
        have hcl : (commonPrefix key p).length = p.length := by omega
        have hkp : hasPrefix key p = true := by
          have := hasPrefix_drop_nil p (commonPrefix key p) hcp2 (by
            rw [List.drop_eq_nil_iff]; omega)
          rw [this]; exact hcp
        apply hno
        refine ⟨?_, hkp, ?_⟩
        · intro e; subst e
          apply hex
          simp only [List.length_nil] at hl1 ⊢
          omega
        · intro e; apply hex; omega
      | cons tb ts =>
        have hqlen : p.length < q.length := by
          have : (List.drop p.length q).length ≠ 0 := by rw [hk]; simp
          simp only [List.length_drop] at this; omega
        have hkd := hasPrefix_dropN (commonPrefix key p).length q p hqp
        rw [hth] at hkd
        obtain ⟨r', hkr, hr'⟩ := hasPrefix_cons_inv _ tb ts hkd
        right; right
        rw [hnode, hth]
        rw [ppw_forkNode_this _ _ _ _ _ _ _ q tb ts r' (by simp [Node.pfx]) ?_
          (hasPrefix_false_of_length (by omega)) (hasPrefix_trans _ _ _ hqp hcp2) hkr]
        · have hlen2 : (tb :: ts).length < (tb :: r').length := by
            have e1 : (tb :: ts).length = p.length - (commonPrefix key p).length := by
              rw [← hth, List.length_drop]
            have e2 : (tb :: r').length = q.length - (commonPrefix key p).length := by
              rw [← hkr, List.length_drop]
            omega
          rw [ppw_inner_deeper _ _ _ _ _ _ _ b r (hasPrefix_false_of_length hlen2) (by rw [← hkr]; exact hkd)
            (by rw [← hkr, ← hth, drop_drop_len q p _ hl2]; exact hk)]
          rw [hpk]; rfl
        · intro kb ks hkk
          exact commonPrefix_diverge key p kb tb ks ts hkk hth

mutual
theorem insNode_pframe (P : ArtParams) (st : St) (B : Nat) : (n : Node) → (key full : List Nat) →
    (val : Nat) → (mod : Option (Nat → Nat → Nat)) → (q : List Nat) → Inner (OFq st.txnID B) n →
    ∀ c, ppw n q = some c →
      B ≤ c ∨ c ∈ (insNode P st n key full val mod).st.pending ∨ ppw (insNode P st n key full val mod).node q = some c
  | .leaf p d, key, full, val, mod, q, hs, c, hc => by simp [ppw] at hc
  | .inner kind pfx lf kids nw t, key, full, val, mod, q, hs, c, hc => by
    have hs' := hs
    simp only [Inner] at hs'
    have hA := insNode_inner_rec' P st B kind pfx lf kids nw t key full val mod hs'.1 c
    by_cases hcond : key ≠ [] ∧ hasPrefix key pfx = true ∧ key.length ≠ pfx.length
    · have hA' : nz nw = some c → B ≤ c ∨ c ∈ (insNode P st (.inner kind pfx lf kids nw t) key full val mod).st.pending := hA
      unfold insNode at hA' ⊢
      rw [if_pos hcond] at hA' ⊢
      simp only at hA' ⊢
      cases hins : insKids P st kids ((List.drop pfx.length key).headD 0) (List.drop pfx.length key) full val mod with
      | some x =>
        obtain ⟨res, kids'⟩ := x
        simp only [hins] at hA' ⊢
        obtain ⟨w', t', he, _⟩ := cloneNode_inner res.st kind pfx lf kids' nw t
        rw [he]
        refine ppw_inner_frame B _ kind kind pfx lf lf kids kids' nw w' t t' q c ?_ hA' hc
        intro b q2 hb
        rcases insKids_pframe P st B kids _ _ full val mod res kids' hs'.2 hins b q2 c hb with hx | hx | hx
        · exact Or.inl hx
        · exact Or.inr (Or.inl ((cloneNode_le _ _).sub _ hx))
        · exact Or.inr (Or.inr hx)
      | none =>
        simp only [hins] at hA' ⊢
        by_cases hsz : kids.size + 1 > kind
        · simp only [hsz, if_true] at hA' ⊢
          refine ppw_inner_frame B _ kind _ pfx lf lf kids _ nw _ t _ q c ?_ hA' hc
          intro b q2 hb
          exact Or.inr (Or.inr (ppwK_insert_free P st _ _ full val mod _ b q2 c kids hins hb))
        · simp only [hsz, if_false] at hA' ⊢
          obtain ⟨w', t', he, _⟩ := cloneNode_inner (newLeafD st full val).1 kind pfx lf
            (kids.insert ((List.drop pfx.length key).headD 0) (Node.leaf (List.drop pfx.length key) (newLeafD st full val).2)) nw t
          rw [he]
          refine ppw_inner_frame B _ kind kind pfx lf lf kids _ nw w' t t' q c ?_ hA' hc
          intro b q2 hb
          exact Or.inr (Or.inr (ppwK_insert_free P st _ _ full val mod _ b q2 c kids hins hb))
    · unfold insNode
      rw [if_neg hcond]
      exact insAt_pframe_inner P st B kind pfx lf kids nw t key full val mod q hs hcond c hc
theorem insKids_pframe (P : ArtParams) (st : St) (B : Nat) : (kids : Kids) → (b' : Nat) →
    (key full : List Nat) → (val : Nat) → (mod : Option (Nat → Nat → Nat)) → (r : InsRes) → (kids' : Kids) →
    InnerK (OFq st.txnID B) kids → insKids P st kids b' key full val mod = some (r, kids') →
    ∀ b q2 c, ppwK kids b q2 = some c → B ≤ c ∨ c ∈ r.st.pending ∨ ppwK kids' b q2 = some c
  | .nil, b', key, full, val, mod, r, kids', hs, h => by simp [insKids] at h
  | .cons a n rest, b', key, full, val, mod, r, kids', hs, h => by
    intro b q2 c hb
    simp only [InnerK] at hs
    unfold insKids at h
    unfold ppwK at hb
    by_cases hab : a = b'
    · simp only [hab, if_true, Option.some.injEq, Prod.mk.injEq] at h
      rw [← h.2, ← h.1]
      unfold ppwK
      by_cases h1 : b' = b
      · rw [hab] at hb
        simp only [h1, if_true] at hb ⊢
        exact insNode_pframe P st B n key full val mod q2 hs.1 c hb
      · rw [hab] at hb
        simp only [h1, if_false] at hb ⊢
        exact Or.inr (Or.inr hb)
    · simp only [hab, if_false] at h
      by_cases hlt : a < b'
      · simp only [hlt, if_true] at h
        cases hh : insKids P st rest b' key full val mod with
        | none => rw [hh] at h; simp at h
        | some x =>
          obtain ⟨r', rest'⟩ := x
          rw [hh] at h
          simp only [Option.some.injEq, Prod.mk.injEq] at h
          rw [← h.2, ← h.1]
          unfold ppwK
          by_cases h1 : a = b
          · simp only [h1, if_true] at hb ⊢; exact Or.inr (Or.inr hb)
          · simp only [h1, if_false] at hb ⊢
            by_cases h2 : a < b
            · simp only [h2, if_true] at hb ⊢
              exact insKids_pframe P st B rest b' key full val mod r' rest' hs.2 hh b q2 c hb
            · simp [h2] at hb
      · simp [hlt] at h
end



/-! ## Prefix frame: delete -/

def ppwD (q : List Nat) : DelRes → Option Nat
  | .replaced _ n _ => ppw n q
  | _ => none

theorem delAt_pframe (st : St) (B : Nat) (n : Node) (hs : Inner (OFq st.txnID B) n) (st' : St)
    (h : delSt (delAt st n) = some st') (q : List Nat) (c : Nat) (hc : ppw n q = some c) :
    B ≤ c ∨ c ∈ st'.pending ∨ ppwD q (delAt st n) = some c := by
  cases n with
  | leaf p d => simp [ppw] at hc
  | inner kind pfx lf kids nw t =>
    simp only [Inner] at hs
    have hnw : nz nw = some c → B ≤ c ∨ c ∈ st'.pending := by
      intro hn
      obtain ⟨hwc, hc0⟩ := nz_some hn
      subst hwc
      by_cases ht : t = st.txnID
      · rcases hs.1 ht with h | h
        · exact absurd h hc0
        · exact Or.inl h
      · rcases delAt_rec_inner st kind pfx lf kids nw t st' h ht with h | h
        · exact absurd h hc0
        · exact Or.inr h
    cases lf with
    | none => simp [delAt, Node.getLeaf, delSt] at h
    | some d =>
      rcases ppw_inner_cases kind pfx (some d) kids nw t q c hc with hn | ⟨hpq, hqp, b, r, hk, hpk⟩
      · rcases hnw hn with hx | hx
        · exact Or.inl hx
        · exact Or.inr (Or.inl hx)
      · by_cases hs1 : kids.size = 1
        · obtain ⟨a, child, hkd⟩ := Kids.size_one kids hs1
          subst hkd
          have hd : delAt st (.inner kind pfx (some d) (.cons a child .nil) nw t) =
              .replaced ((st.record d.watch).record nw) (mergeUp pfx child) d.val := by
            simp [delAt, Node.getLeaf, Kids.size, Kids.first]
          rw [hd]
          simp only [ppwD]
          right; right
          apply ppw_mergeUp pfx child q c hqp
          rw [hk]
          simp only [ppwK] at hpk
          by_cases hab : a = b
          · simpa [hab] using hpk
          · simp only [hab, if_false] at hpk
            split at hpk <;> simp at hpk
        · by_cases hs0 : kids.size > 0
          · have hd : delAt st (.inner kind pfx (some d) kids nw t) =
                .replaced (cloneNode (st.record d.watch) (.inner kind pfx none kids nw t)).1
                  (cloneNode (st.record d.watch) (.inner kind pfx none kids nw t)).2 d.val := by
              simp [delAt, Node.getLeaf, hs1, hs0]
            rw [hd]
            simp only [ppwD]
            obtain ⟨w', t', he, _⟩ := cloneNode_inner (st.record d.watch) kind pfx none kids nw t
            rw [he]
            refine ppw_inner_frame B _ kind kind pfx (some d) none kids kids nw w' t t' q c ?_ hnw hc
            intro b q2 hb; exact Or.inr (Or.inr hb)
          · have hz : kids.size = 0 := by omega
            cases kids with
            | nil => simp [ppwK] at hpk
            | cons _ _ _ => simp [Kids.size] at hz

theorem removeChild_pframe (P : ArtParams) (st1 : St) (B : Nat) (kind : Nat) (pfx : List Nat) (lf : Option LeafD)
    (kids : Kids) (nw t b' : Nat) (q : List Nat) (c : Nat) (hq : OFq st1.txnID B t nw)
    (hsz : (kids.erase b').size + 1 = kids.size)
    (hkids : ∀ b q2, ppwK kids b q2 = some c → B ≤ c ∨ c ∈ st1.pending ∨ ppwK (kids.erase b') b q2 = some c)
    (hc : ppw (.inner kind pfx lf kids nw t) q = some c) :
    B ≤ c ∨ c ∈ (removeChild P st1 kind pfx lf kids nw t b').1.pending ∨
      ppw (removeChild P st1 kind pfx lf kids nw t b').2 q = some c := by
  have hle := removeChild_le P st1 kind pfx lf kids nw t b'
  have hnw : nz nw = some c → B ≤ c ∨ c ∈ (removeChild P st1 kind pfx lf kids nw t b').1.pending := by
    intro hn
    obtain ⟨hwc, hc0⟩ := nz_some hn
    subst hwc
    by_cases ht : t = st1.txnID
    · rcases hq ht with h | h
      · exact absurd h hc0
      · exact Or.inl h
    · rcases removeChild_rec P st1 kind pfx lf kids nw t b' ht with h | h
      · exact absurd h hc0
      · exact Or.inr h
  have hkids' : ∀ b q2, ppwK kids b q2 = some c →
      B ≤ c ∨ c ∈ (removeChild P st1 kind pfx lf kids nw t b').1.pending ∨ ppwK (kids.erase b') b q2 = some c := by
    intro b q2 hb
    rcases hkids b q2 hb with hx | hx | hx
    · exact Or.inl hx
    · exact Or.inr (Or.inl (hle.sub _ hx))
    · exact Or.inr (Or.inr hx)
  unfold removeChild at hnw hkids' ⊢
  simp only at hnw hkids' ⊢
  by_cases hm : kids.size = 2 ∧ lf.isNone = true
  · rw [if_pos hm] at hnw hkids' ⊢
    have hs1 : (kids.erase b').size = 1 := by omega
    obtain ⟨a, child, hk⟩ := Kids.size_one _ hs1
    rw [hk] at hnw hkids' ⊢
    simp only [Kids.first] at hnw hkids' ⊢
    rcases ppw_inner_cases kind pfx lf kids nw t q c hc with hn | ⟨hpq, hqp, b, r, hkd, hpk⟩
    · rcases hnw hn with hx | hx
      · exact Or.inl hx
      · exact Or.inr (Or.inl hx)
    · rcases hkids' b (b :: r) hpk with hx | hx | hx
      · exact Or.inl hx
      · exact Or.inr (Or.inl hx)
      · right; right
        apply ppw_mergeUp pfx child q c hqp
        rw [hkd]
        simp only [ppwK] at hx
        by_cases hab : a = b
        · simpa [hab] using hx
        · simp only [hab, if_false] at hx
          split at hx <;> simp at hx
  · rw [if_neg hm] at hnw hkids' ⊢
    split
    · rename_i hdem
      rw [if_pos hdem] at hnw hkids'
      exact ppw_inner_frame B _ kind _ pfx lf lf kids _ nw _ t _ q c hkids' hnw hc
    · rename_i hdem
      rw [if_neg hdem] at hnw hkids'
      obtain ⟨w', t', he, _⟩ := cloneNode_inner st1 kind pfx lf (kids.erase b') nw t
      rw [he]
      exact ppw_inner_frame B _ kind _ pfx lf lf kids _ nw _ t _ q c hkids' hnw hc

mutual
theorem delNode_pframe (P : ArtParams) (st : St) (B : Nat) : (n : Node) → (key : List Nat) → (st' : St) →
    Inner (OFq st.txnID B) n → delSt (delNode P st n key) = some st' → (q : List Nat) →
    ∀ c, ppw n q = some c → B ≤ c ∨ c ∈ st'.pending ∨ ppwD q (delNode P st n key) = some c
  | .leaf p d, key, st', hs, h, q, c, hc => by simp [ppw] at hc
  | .inner kind pfx lf kids nw t, key, st', hs, h, q, c, hc => by
    have hs' := hs
    simp only [Inner] at hs'
    have hnf : delNode P st (.inner kind pfx lf kids nw t) key ≠ .notFound := by
      intro e; rw [e] at h; simp [delSt] at h
    obtain ⟨_, hcs⟩ := delNode_inner_cases P st kind pfx lf kids nw t key hnf
    rcases hcs with ⟨_, he⟩ | ⟨b', r, _, ⟨st1, n1, old1, kids', hdk, he⟩ | ⟨st1, old1, kids', hdk, he⟩⟩
    · rw [he] at h ⊢
      exact delAt_pframe st B _ hs st' h q c hc
    · rw [he] at h ⊢
      simp only [delSt, Option.some.injEq] at h
      rw [← h]
      simp only [ppwD]
      have hle := delKids_le P st kids b' _ _ kids' st1 hdk rfl
      obtain ⟨w', t', hcl, _⟩ := cloneNode_inner st1 kind pfx lf kids' nw t
      rw [hcl]
      refine ppw_inner_frame B _ kind kind pfx lf lf kids kids' nw w' t t' q c ?_ ?_ hc
      · intro b q2 hb
        rcases delKids_pframe P st B kids b' (b' :: r) _ kids' st1 hs'.2 hdk rfl b q2 c hb with hx | hx | hx
        · exact Or.inl hx
        · exact Or.inr (Or.inl ((cloneNode_le _ _).sub _ hx))
        · exact Or.inr (Or.inr hx)
      · intro hn
        exact cloneNode_inner_X st1 B kind pfx lf kids' nw t (by rw [hle.id]; exact hs'.1) c hn
    · rw [he] at h ⊢
      simp only [delSt, Option.some.injEq] at h
      rw [← h]
      simp only [ppwD]
      have hle := delKids_le P st kids b' _ _ kids' st1 hdk rfl
      refine removeChild_pframe P st1 B kind pfx lf kids nw t b' q c (by rw [hle.id]; exact hs'.1)
        (delKids_found_size P st kids b' _ _ kids' hdk) ?_ hc
      intro b q2 hb
      exact delKids_pframe P st B kids b' (b' :: r) _ kids' st1 hs'.2 hdk rfl b q2 c hb
theorem delKids_pframe (P : ArtParams) (st : St) (B : Nat) : (kids : Kids) → (b' : Nat) → (key : List Nat) →
    (r : DelRes) → (kids' : Kids) → (st' : St) → InnerK (OFq st.txnID B) kids →
    delKids P st kids b' key = some (r, kids') → delSt r = some st' →
    ∀ b q2 c, ppwK kids b q2 = some c → B ≤ c ∨ c ∈ st'.pending ∨ ppwK (delKidsOut r kids kids' b') b q2 = some c
  | .nil, b', key, r, kids', st', hs, h, hr => by simp [delKids] at h
  | .cons a n rest, b', key, r, kids', st', hs, h, hr => by
    intro b q2 c hb
    simp only [InnerK] at hs
    unfold ppwK at hb
    rcases delKids_inv' P st a n rest b' key r kids' h with ⟨hab, hre, hk⟩ | ⟨hlt, hne, rest', hk, he⟩
    · have ih := delNode_pframe P st B n key st' hs.1 (by rw [← hre]; exact hr) q2 c
      rw [← hre] at ih
      rcases hk with ⟨s2, n2, o2, hr2, he⟩ | ⟨hno, he⟩
      · rw [hr2] at ih ⊢
        simp only [delKidsOut, ppwD] at ih ⊢
        rw [he]
        unfold ppwK
        by_cases h1 : a = b
        · simp only [h1, if_true] at hb ⊢; exact ih hb
        · simp only [h1, if_false] at hb ⊢; exact Or.inr (Or.inr hb)
      · have hout : delKidsOut r (.cons a n rest) kids' b' = rest := by
          cases r with
          | replaced s n' o => exact absurd rfl (hno s n' o)
          | notFound => simp [delKidsOut, Kids.erase, hab]
          | removed s o => simp [delKidsOut, Kids.erase, hab]
        rw [hout]
        have hpd : ppwD q2 r = none := by
          cases r with
          | replaced s n' o => exact absurd rfl (hno s n' o)
          | notFound => rfl
          | removed s o => rfl
        rw [hpd] at ih
        by_cases h1 : a = b
        · simp only [h1, if_true] at hb
          rcases ih hb with hx | hx | hx
          · exact Or.inl hx
          · exact Or.inr (Or.inl hx)
          · simp at hx
        · simp only [h1, if_false] at hb
          by_cases h2 : a < b
          · simp only [h2, if_true] at hb; exact Or.inr (Or.inr hb)
          · simp [h2] at hb
    · have ih := delKids_pframe P st B rest b' key r rest' st' hs.2 hk hr b q2 c
      have hout : delKidsOut r (.cons a n rest) kids' b' = .cons a n (delKidsOut r rest rest' b') := by
        cases r with
        | replaced s n' o => simp [delKidsOut, he]
        | notFound => simp [delKidsOut, Kids.erase, hne]
        | removed s o => simp [delKidsOut, Kids.erase, hne]
      rw [hout]
      unfold ppwK
      by_cases h1 : a = b
      · simp only [h1, if_true] at hb ⊢; exact Or.inr (Or.inr hb)
      · simp only [h1, if_false] at hb ⊢
        by_cases h2 : a < b
        · simp only [h2, if_true] at hb ⊢; exact ih hb
        · simp [h2] at hb
end


end Sdb.ArtW
