import SdbModel.Lemmas.ArtWF

/-!
  Lemmas for C11, part 4: `delAt` / `delNode` / `delKids` / `removeChild`
  preserve the invariant and act on `entries` as the removal of one key.
  Core Lean only.
-/
namespace Sdb.Art

/-- what a deletion below `n` (path `acc`, `full` = the whole key) must deliver -/
def DelOK (acc : List Nat) (n : Node) (full : List Nat) : DelRes → Prop
  | .notFound => look (entries n) full = none
  | .replaced _ n' old =>
    look (entries n) full = some old ∧ WFNode acc n' ∧ (∃ t, n'.pfx = n.pfx ++ t) ∧
    ∀ e, e ∈ entries n' ↔ e.1 ≠ full ∧ e ∈ entries n
  | .removed _ old => entries n = [(full, old)]

def DelKOK (acc : List Nat) (kids : Kids) (b : Nat) (full : List Nat) : Option (DelRes × Kids) → Prop
  | none => look (entriesK kids) full = none
  | some (.notFound, _) => look (entriesK kids) full = none
  | some (.replaced _ _ old, kids') =>
    look (entriesK kids) full = some old ∧ WFKids acc kids' ∧ kids'.keys = kids.keys ∧
    ∀ e, e ∈ entriesK kids' ↔ e.1 ≠ full ∧ e ∈ entriesK kids
  | some (.removed _ old, _) =>
    look (entriesK kids) full = some old ∧ (kids.erase b).size + 1 = kids.size ∧ WFKids acc (kids.erase b) ∧
    ∀ e, e ∈ entriesK (kids.erase b) ↔ e.1 ≠ full ∧ e ∈ entriesK kids

theorem delNode_leaf (P : ArtParams) (st : St) (p : List Nat) (d : LeafD) (key : List Nat) :
    delNode P st (.leaf p d) key =
      if hasPrefix key p = true then
        match key.drop p.length with
        | [] => delAt st (.leaf p d)
        | _ :: _ => .notFound
      else .notFound := by
  unfold delNode; rfl

theorem delNode_inner (P : ArtParams) (st : St) (kind : Nat) (pfx : List Nat) (lf : Option LeafD) (kids : Kids)
    (w t : Nat) (key : List Nat) :
    delNode P st (.inner kind pfx lf kids w t) key =
      if hasPrefix key pfx = true then
        match key.drop pfx.length with
        | [] => delAt st (.inner kind pfx lf kids w t)
        | b :: _ =>
          match delKids P st kids b (key.drop pfx.length) with
          | none => .notFound
          | some (.notFound, _) => .notFound
          | some (.replaced st' _ old, kids') =>
            .replaced (cloneNode st' (.inner kind pfx lf kids' w t)).1 (cloneNode st' (.inner kind pfx lf kids' w t)).2 old
          | some (.removed st' old, _) =>
            .replaced (removeChild P st' kind pfx lf kids w t b).1 (removeChild P st' kind pfx lf kids w t b).2 old
      else .notFound := by
  unfold delNode; rfl

/-! ### Kids.erase and small Kids -/

theorem keys_erase_subset (b x : Nat) : (kids : Kids) → x ∈ (kids.erase b).keys → x ∈ kids.keys
  | .nil => by simp [Kids.erase]
  | .cons c m r => by
    simp only [Kids.erase]
    split
    · intro h; simp [Kids.keys, h]
    · intro h
      simp only [Kids.keys, List.mem_cons] at h ⊢
      rcases h with h | h
      · exact Or.inl h
      · exact Or.inr (keys_erase_subset b x r h)

theorem kids_size_zero (kids : Kids) (h : kids.size = 0) : kids = .nil := by
  cases kids with
  | nil => rfl
  | cons => simp [Kids.size] at h

theorem kids_size_one (kids : Kids) (h : kids.size = 1) : ∃ c n, kids = .cons c n .nil := by
  cases kids with
  | nil => simp [Kids.size] at h
  | cons c n r =>
    simp only [Kids.size] at h
    exact ⟨c, n, by rw [kids_size_zero r (by omega)]⟩

theorem lf_ne_self (acc p : List Nat) (kids : Kids) (hk : WFKids (acc ++ p) kids) :
    ∀ e ∈ entriesK kids, e.1 ≠ acc ++ p :=
  (look_eq_none_iff _ _).mp (lookK_none_short (acc ++ p) kids hk)

theorem mergeUp_ok (acc pfx : List Nat) (child : Node) (h : WFNode (acc ++ pfx) child) :
    WFNode acc (mergeUp pfx child) ∧ (mergeUp pfx child).pfx = pfx ++ child.pfx ∧
    entries (mergeUp pfx child) = entries child := by
  unfold mergeUp
  exact ⟨WFNode_setPfx (acc ++ pfx) acc _ child (by simp) h, by simp, by simp⟩

/-! ### delAt -/

theorem delAt_ok (st : St) (acc : List Nat) (n : Node) (full : List Nat) (hwf : WFNode acc n)
    (hfull : full = acc ++ n.pfx) : DelOK acc n full (delAt st n) := by
  cases n with
  | leaf p d =>
    simp only [WFNode] at hwf
    simp only [Node.pfx] at hfull
    simp only [delAt, Node.getLeaf, DelOK, entries, hwf, hfull]
  | inner kind pfx lf kids w t =>
    simp only [WFNode] at hwf
    obtain ⟨hlf, hk⟩ := hwf
    simp only [Node.pfx] at hfull
    have hne := lf_ne_self acc pfx kids hk
    rw [← hfull] at hne
    cases lf with
    | none =>
      simp only [delAt, Node.getLeaf, DelOK, entries_inner, lfList, List.nil_append]
      rw [hfull]; exact lookK_none_short _ _ hk
    | some d =>
      have hd : d.key = full := by rw [hlf d rfl, hfull]
      simp only [delAt, Node.getLeaf]
      split
      · rename_i hs
        obtain ⟨c, child, rfl⟩ := kids_size_one kids hs
        simp only [Kids.first, DelOK]
        simp only [WFKids] at hk
        obtain ⟨h1, h2, h3⟩ := mergeUp_ok acc pfx child hk.2.1
        refine ⟨by simp [entries_inner, lfList, look_cons, hd], h1, ⟨child.pfx, h2⟩, ?_⟩
        intro e
        rw [h3]
        simp only [entries_inner, lfList, entriesK, List.append_nil, List.cons_append, List.nil_append,
          List.mem_cons, hd]
        constructor
        · intro h; exact ⟨hne e (by simpa [entriesK] using h), Or.inr h⟩
        · rintro ⟨h0, h | h⟩
          · rw [h] at h0; exact absurd rfl h0
          · exact h
      · split
        · obtain ⟨st', w', t', e⟩ := cloneNode_inner ((st.record d.watch)) kind pfx none kids w t
          simp only [e, DelOK]
          refine ⟨by simp [entries_inner, lfList, look_cons, hd], ?_, ⟨[], by simp [Node.pfx]⟩, ?_⟩
          · simp only [WFNode]; exact ⟨by intro d' h; simp at h, hk⟩
          · intro e
            simp only [entries_inner, lfList, List.cons_append, List.nil_append, List.mem_cons, hd]
            constructor
            · intro h; exact ⟨hne e h, Or.inr h⟩
            · rintro ⟨h0, h | h⟩
              · rw [h] at h0; exact absurd rfl h0
              · exact h
        · rename_i h1 h2
          have : kids = .nil := kids_size_zero kids (by omega)
          subst this
          simp [DelOK, entries_inner, lfList, entriesK, hd]

/-! ### removeChild -/

theorem removeChild_ok (P : ArtParams) (st : St) (acc : List Nat) (kind : Nat) (pfx : List Nat)
    (lf : Option LeafD) (kids : Kids) (w t b : Nat)
    (hlf : ∀ d, lf = some d → d.key = acc ++ pfx) (hsz : (kids.erase b).size + 1 = kids.size)
    (hke : WFKids (acc ++ pfx) (kids.erase b)) :
    WFNode acc (removeChild P st kind pfx lf kids w t b).2 ∧
    (∃ tl, (removeChild P st kind pfx lf kids w t b).2.pfx = pfx ++ tl) ∧
    ∀ e, e ∈ entries (removeChild P st kind pfx lf kids w t b).2 ↔ e ∈ lfList lf ∨ e ∈ entriesK (kids.erase b) := by
  have hgen : ∀ (k' w' t' : Nat), WFNode acc (.inner k' pfx lf (kids.erase b) w' t') ∧
      (∃ tl, (Node.inner k' pfx lf (kids.erase b) w' t').pfx = pfx ++ tl) ∧
      ∀ e, e ∈ entries (.inner k' pfx lf (kids.erase b) w' t') ↔ e ∈ lfList lf ∨ e ∈ entriesK (kids.erase b) := by
    intro k' w' t'
    refine ⟨by simp only [WFNode]; exact ⟨hlf, hke⟩, ⟨[], by simp [Node.pfx]⟩, ?_⟩
    intro e; rw [entries_inner, List.mem_append]
  unfold removeChild
  simp only
  split
  · rename_i hc
    obtain ⟨hs2, hn⟩ := hc
    cases hke' : kids.erase b with
    | nil => rw [hke'] at hsz; simp [Kids.size] at hsz; omega
    | cons c child rest =>
      rw [hke'] at hsz hke
      have hr : rest = .nil := kids_size_zero rest (by simp [Kids.size] at hsz; omega)
      subst hr
      simp only [Kids.first]
      simp only [WFKids] at hke
      obtain ⟨h1, h2, h3⟩ := mergeUp_ok acc pfx child hke.2.1
      refine ⟨h1, ⟨child.pfx, h2⟩, ?_⟩
      intro e
      have : lf = none := by cases lf <;> simp_all
      rw [h3, this]
      simp [lfList, entriesK]
  · split
    · exact hgen _ _ _
    · obtain ⟨st', w', t', e⟩ := cloneNode_inner st kind pfx lf (kids.erase b) w t
      rw [e]
      exact hgen _ _ _

/-! ### delNode / delKids -/

mutual
theorem delNode_ok (P : ArtParams) (acc : List Nat) : (n : Node) → ∀ (st : St) (key full : List Nat),
    WFNode acc n → full = acc ++ key → DelOK acc n full (delNode P st n key)
  | .leaf p d => by
    intro st key full hwf hfull
    rw [delNode_leaf]
    by_cases hp : hasPrefix key p = true
    case neg =>
      rw [if_neg hp]
      simp only [DelOK]; rw [hfull]
      exact lookN_none acc _ hwf key (hasPrefix_false_ne key p (by simpa using hp))
    case pos =>
      rw [if_pos hp]
      have hk := hasPrefix_true_eq key p hp
      cases hd : key.drop p.length with
      | nil =>
        rw [hd, List.append_nil] at hk
        exact delAt_ok st acc _ full hwf (by rw [hfull, hk]; rfl)
      | cons b r =>
        rw [hd] at hk
        simp only [WFNode] at hwf
        have : d.key ≠ full := by
          rw [hwf, hfull, hk]; intro e
          have := congrArg List.length e; simp at this
        simp [DelOK, entries_leaf, look_cons, this]
  | .inner kind pfx lf kids w t => by
    intro st key full hwf hfull
    rw [delNode_inner]
    by_cases hp : hasPrefix key pfx = true
    case neg =>
      rw [if_neg hp]
      simp only [DelOK]; rw [hfull]
      exact lookN_none acc _ hwf key (hasPrefix_false_ne key pfx (by simpa using hp))
    case pos =>
      rw [if_pos hp]
      have hk := hasPrefix_true_eq key pfx hp
      cases hd : key.drop pfx.length with
      | nil =>
        rw [hd, List.append_nil] at hk
        exact delAt_ok st acc _ full hwf (by rw [hfull, hk]; rfl)
      | cons b r =>
        rw [hd] at hk
        simp only [WFNode] at hwf
        obtain ⟨hlf, hkids⟩ := hwf
        have hfull' : full = acc ++ pfx ++ b :: r := by rw [hfull, hk, List.append_assoc]
        have hl := lf_ne acc pfx lf hlf b r
        rw [← hfull'] at hl
        have hl0 : look (lfList lf) full = none := (look_eq_none_iff _ _).mpr hl
        have ih := delKids_ok P (acc ++ pfx) kids st b (b :: r) r full hkids rfl hfull'
        simp only
        cases hdk : delKids P st kids b (b :: r) with
        | none =>
          rw [hdk] at ih
          simp only [DelKOK] at ih
          simp only [DelOK, entries_inner]
          rw [look_append_of_none _ _ _ hl0]; exact ih
        | some x =>
          obtain ⟨res, kids'⟩ := x
          rw [hdk] at ih
          cases res with
          | notFound =>
            simp only [DelKOK] at ih
            simp only [DelOK, entries_inner]
            rw [look_append_of_none _ _ _ hl0]; exact ih
          | replaced st' n' old =>
            simp only [DelKOK] at ih
            obtain ⟨h1, h2, _, h4⟩ := ih
            obtain ⟨st'', w', t', e⟩ := cloneNode_inner st' kind pfx lf kids' w t
            simp only [e, DelOK]
            refine ⟨?_, by simp only [WFNode]; exact ⟨hlf, h2⟩, ⟨[], by simp [Node.pfx]⟩, ?_⟩
            · rw [entries_inner, look_append_of_none _ _ _ hl0]; exact h1
            · intro e
              simp only [entries_inner, List.mem_append, h4]
              constructor
              · rintro (h | ⟨h, h'⟩)
                · exact ⟨hl e h, Or.inl h⟩
                · exact ⟨h, Or.inr h'⟩
              · rintro ⟨h, h' | h'⟩
                · exact Or.inl h'
                · exact Or.inr ⟨h, h'⟩
          | removed st' old =>
            simp only [DelKOK] at ih
            obtain ⟨h1, h2, h3, h4⟩ := ih
            obtain ⟨r1, r2, r3⟩ := removeChild_ok P st' acc kind pfx lf kids w t b hlf h2 h3
            simp only [DelOK]
            refine ⟨?_, r1, r2, ?_⟩
            · rw [entries_inner, look_append_of_none _ _ _ hl0]; exact h1
            · intro e
              rw [r3]
              simp only [entries_inner, List.mem_append, h4]
              constructor
              · rintro (h | ⟨h, h'⟩)
                · exact ⟨hl e h, Or.inl h⟩
                · exact ⟨h, Or.inr h'⟩
              · rintro ⟨h, h' | h'⟩
                · exact Or.inl h'
                · exact Or.inr ⟨h, h'⟩
theorem delKids_ok (P : ArtParams) (acc : List Nat) : (kids : Kids) → ∀ (st : St) (b : Nat) (key rest full : List Nat),
    WFKids acc kids → key = b :: rest → full = acc ++ key →
    DelKOK acc kids b full (delKids P st kids b key)
  | .nil => by
    intro st b key rest full _ _ _
    simp [delKids, DelKOK, entriesK]
  | .cons c n rs => by
    intro st b key rest full hwf hkey hfull
    simp only [WFKids] at hwf
    obtain ⟨⟨tl, hpf⟩, hn, hlt, hrs⟩ := hwf
    unfold delKids
    by_cases hcb : c = b
    · subst hcb
      simp only [if_true]
      have hrs0 : look (entriesK rs) full = none := by
        rw [hfull, hkey]; apply lookK_none acc rs hrs
        intro hc; exact Nat.lt_irrefl _ (hlt _ hc)
      have hrsne := (look_eq_none_iff _ _).mp hrs0
      have ih := delNode_ok P acc n st key full hn hfull
      cases hdn : delNode P st n key with
      | notFound =>
        rw [hdn] at ih
        simp only [DelOK] at ih
        simp only [DelKOK, entriesK]
        rw [look_append_of_none _ _ _ ih]; exact hrs0
      | replaced st' n' old =>
        rw [hdn] at ih
        simp only [DelOK] at ih
        obtain ⟨h1, h2, ⟨t', h3⟩, h4⟩ := ih
        simp only [DelKOK, entriesK]
        refine ⟨?_, ?_, rfl, ?_⟩
        · rw [look_append_of_none_right _ _ _ hrs0]; exact h1
        · simp only [WFKids]
          exact ⟨⟨tl ++ t', by rw [h3, hpf]; rfl⟩, h2, hlt, hrs⟩
        · intro e
          simp only [List.mem_append, h4]
          constructor
          · rintro (⟨h, h'⟩ | h)
            · exact ⟨h, Or.inl h'⟩
            · exact ⟨hrsne e h, Or.inr h⟩
          · rintro ⟨h, h' | h'⟩
            · exact Or.inl ⟨h, h'⟩
            · exact Or.inr h'
      | removed st' old =>
        rw [hdn] at ih
        simp only [DelOK] at ih
        simp only [DelKOK, entriesK, Kids.erase, if_true, Kids.size, ih]
        refine ⟨by simp [look_cons], trivial, hrs, ?_⟩
        intro e
        simp only [List.cons_append, List.nil_append, List.mem_cons]
        constructor
        · intro h; exact ⟨hrsne e h, Or.inr h⟩
        · rintro ⟨h, h' | h'⟩
          · rw [h'] at h; exact absurd rfl h
          · exact h'
    · simp only [hcb, if_false]
      have hn0 : look (entries n) full = none := by
        rw [hfull]
        apply lookN_none acc n hn
        intro t' e; rw [hkey, hpf] at e
        simp only [List.cons_append, List.cons.injEq] at e
        exact hcb e.1.symm
      have hnne := (look_eq_none_iff _ _).mp hn0
      by_cases hlt' : c < b
      · simp only [hlt', if_true]
        have ih := delKids_ok P acc rs st b key rest full hrs hkey hfull
        cases hdk : delKids P st rs b key with
        | none =>
          rw [hdk] at ih
          simp only [DelKOK] at ih
          simp only [DelKOK, entriesK]
          rw [look_append_of_none _ _ _ hn0]; exact ih
        | some x =>
          obtain ⟨res, rest'⟩ := x
          rw [hdk] at ih
          cases res with
          | notFound =>
            simp only [DelKOK] at ih
            simp only [DelKOK, entriesK]
            rw [look_append_of_none _ _ _ hn0]; exact ih
          | replaced st' n' old =>
            simp only [DelKOK] at ih
            obtain ⟨h1, h2, h3, h4⟩ := ih
            simp only [DelKOK, entriesK]
            refine ⟨?_, ?_, by simp [Kids.keys, h3], ?_⟩
            · rw [look_append_of_none _ _ _ hn0]; exact h1
            · simp only [WFKids]
              exact ⟨⟨tl, hpf⟩, hn, by rw [h3]; exact hlt, h2⟩
            · intro e
              simp only [List.mem_append, h4]
              constructor
              · rintro (h | ⟨h, h'⟩)
                · exact ⟨hnne e h, Or.inl h⟩
                · exact ⟨h, Or.inr h'⟩
              · rintro ⟨h, h' | h'⟩
                · exact Or.inl h'
                · exact Or.inr ⟨h, h'⟩
          | removed st' old =>
            simp only [DelKOK] at ih
            obtain ⟨h1, h2, h3, h4⟩ := ih
            simp only [DelKOK, entriesK, Kids.erase, hcb, if_false, Kids.size]
            refine ⟨?_, by omega, ?_, ?_⟩
            · rw [look_append_of_none _ _ _ hn0]; exact h1
            · simp only [WFKids]
              exact ⟨⟨tl, hpf⟩, hn, fun x hx => hlt x (keys_erase_subset b x rs hx), h3⟩
            · intro e
              simp only [List.mem_append, h4]
              constructor
              · rintro (h | ⟨h, h'⟩)
                · exact ⟨hnne e h, Or.inl h⟩
                · exact ⟨h, Or.inr h'⟩
              · rintro ⟨h, h' | h'⟩
                · exact Or.inl h'
                · exact Or.inr ⟨h, h'⟩
      · simp only [hlt', if_false, DelKOK, entriesK]
        rw [look_append_of_none _ _ _ hn0, hfull, hkey]
        apply lookK_none acc rs hrs
        intro hc; have := hlt _ hc; omega
end

end Sdb.Art
