import SdbModel.Lemmas.ArtWatch

/-! The channel returned by InsertWatch / ModifyWatch is the one a later Get of
    that key hands out (Model.Art). -/
set_option linter.unusedSimpArgs false
namespace Sdb.ArtW
open Sdb.Art

theorem hasPrefix_self (k : List Nat) : hasPrefix k k = true := by
  simpa using hasPrefix_take k k

theorem commonPrefix_hasPrefix : (a b : List Nat) → hasPrefix a (commonPrefix a b) = true
  | [], _ => by simp [commonPrefix, hasPrefix]
  | _ :: _, [] => by simp [commonPrefix, hasPrefix]
  | x :: xs, y :: ys => by
    unfold commonPrefix
    split
    · simp [hasPrefix, commonPrefix_hasPrefix xs ys]
    · simp [hasPrefix]

theorem commonPrefix_hasPrefix_right : (a b : List Nat) → hasPrefix b (commonPrefix a b) = true
  | [], _ => by simp [commonPrefix, hasPrefix]
  | _ :: _, [] => by simp [commonPrefix, hasPrefix]
  | x :: xs, y :: ys => by
    unfold commonPrefix
    split
    · rename_i h; simp [hasPrefix, h, commonPrefix_hasPrefix_right xs ys]
    · simp [hasPrefix]

theorem commonPrefix_exact : (a b : List Nat) → a.length = (commonPrefix a b).length → a.length = b.length → a = b
  | [], [], _, _ => rfl
  | [], _ :: _, _, h => by simp at h
  | _ :: _, [], _, h => by simp at h
  | x :: xs, y :: ys, h1, h2 => by
    unfold commonPrefix at h1
    split at h1
    · rename_i hxy
      simp only [List.length_cons, Nat.add_right_cancel_iff] at h1 h2
      rw [hxy, commonPrefix_exact xs ys h1 h2]
    · simp at h1

/-- after dropping the common prefix the two remainders do not start with the same byte -/
theorem commonPrefix_diverge : (a b : List Nat) → (x y : Nat) → (xs ys : List Nat) →
    a.drop (commonPrefix a b).length = x :: xs → b.drop (commonPrefix a b).length = y :: ys → x ≠ y
  | [], _, x, y, xs, ys, h, _ => by simp [commonPrefix] at h
  | _ :: _, [], x, y, xs, ys, _, h => by simp [commonPrefix] at h
  | p :: ps, q :: qs, x, y, xs, ys, h1, h2 => by
    unfold commonPrefix at h1 h2
    split at h1
    · rename_i hpq
      simp only [hpq, if_true, List.length_cons, List.drop_succ_cons] at h1 h2
      exact commonPrefix_diverge ps qs x y xs ys h1 h2
    · rename_i hpq
      simp only [hpq, if_false, List.length_nil, List.drop_zero, List.cons.injEq] at h1 h2
      rw [← h1.1, ← h2.1]; exact hpq

theorem searchNode_leaf_self (k : List Nat) (d : LeafD) (w : Nat) :
    (searchNode (.leaf k d) w k).2 = if d.watch ≠ 0 then d.watch else w := by
  unfold searchNode
  simp [Node.pfx, hasPrefix_self, Node.getLeaf]

theorem pfx_setPfx (q : List Nat) (n : Node) : (n.setPfx q).pfx = q := by cases n <;> rfl

theorem cloneNode_pfx (st : St) (n : Node) : (cloneNode st n).2.pfx = n.pfx := by
  cases n with
  | leaf p d => obtain ⟨w', he⟩ := cloneNode_leaf st p d; rw [he]; rfl
  | inner k p lf kids w t => obtain ⟨w', t', he, _⟩ := cloneNode_inner st k p lf kids w t; rw [he]; rfl

/-- search on a freshly built node4 with prefix `common` -/
theorem searchNode_inner_eq (kind : Nat) (pfx : List Nat) (lf : Option LeafD) (kids : Kids) (nw t w : Nat) (key : List Nat)
    (hp : hasPrefix key pfx = true) :
    (searchNode (.inner kind pfx lf kids nw t) w key).2 =
      match key.drop pfx.length with
      | [] => (match lf with | some d => if d.watch ≠ 0 then d.watch else w | none => w)
      | b :: r => (searchK kids b (if nw ≠ 0 then nw else w) (b :: r)).2 := by
  unfold searchNode
  simp only [Node.pfx, hp, if_true, Node.getLeaf]
  cases key.drop pfx.length with
  | nil => cases lf <;> rfl
  | cons b r => rfl

theorem insAt_search (P : ArtParams) (st : St) (n : Node) (key full : List Nat) (val : Nat)
    (mod : Option (Nat → Nat → Nat)) (w : Nat) (h0 : (insAt P st n key full val mod).watch ≠ 0) :
    (searchNode (insAt P st n key full val mod).node w key).2 = (insAt P st n key full val mod).watch := by
  unfold insAt at h0 ⊢
  simp only at h0 ⊢
  by_cases hex : key.length = (commonPrefix key n.pfx).length ∧ key.length = n.pfx.length
  · rw [if_pos hex] at h0 ⊢
    have hkp := commonPrefix_exact key n.pfx hex.1 hex.2
    cases n with
    | leaf q d =>
      simp only [Node.pfx] at hkp
      subst hkp
      obtain ⟨w', he⟩ := cloneNode_leaf st key d
      rw [he] at h0 ⊢
      simp only at h0 ⊢
      rw [searchNode_leaf_self]
      simp only at h0 ⊢
      simp [h0]
    | inner k q lf kids nw t =>
      simp only [Node.pfx] at hkp
      subst hkp
      obtain ⟨w', t', he, _⟩ := cloneNode_inner st k key lf kids nw t
      rw [he] at h0 ⊢
      cases lf with
      | some d =>
        simp only at h0 ⊢
        rw [searchNode_inner_eq _ _ _ _ _ _ _ _ (hasPrefix_self key)]
        simp only [List.drop_length]
        simp [h0]
      | none =>
        simp only at h0 ⊢
        rw [searchNode_inner_eq _ _ _ _ _ _ _ _ (hasPrefix_self key)]
        simp only [List.drop_length]
        simp [h0]
  · rw [if_neg hex] at h0 ⊢
    have hcp := commonPrefix_hasPrefix key n.pfx
    have hcp2 := commonPrefix_hasPrefix_right key n.pfx
    have hl1 := hasPrefix_length _ _ hcp
    have hl2 := hasPrefix_length _ _ hcp2
    cases n with
    | leaf q d =>
      simp only [Node.pfx] at hex hcp hcp2 hl1 hl2
      dsimp only at h0 ⊢
      simp only [pfx_setPfx]
      simp only [Node.pfx]
      cases hth : List.drop (commonPrefix key q).length q with
      | nil =>
        cases hk : List.drop (commonPrefix key q).length key with
        | nil =>
          exfalso
          have e1 : (List.drop (commonPrefix key q).length q).length = 0 := by rw [hth]; rfl
          have e2 : (List.drop (commonPrefix key q).length key).length = 0 := by rw [hk]; rfl
          simp only [List.length_drop] at e1 e2
          exact hex ⟨by omega, by omega⟩
        | cons kb ks =>
          rw [searchNode_inner_eq _ _ _ _ _ _ _ _ hcp, hk]
          simp only [List.headD_cons, searchK, if_true]
          rw [searchNode_leaf_self]
          simp [h0]
      | cons tb ts =>
        cases hk : List.drop (commonPrefix key q).length key with
        | nil =>
          rw [searchNode_inner_eq _ _ _ _ _ _ _ _ hcp, hk]
          simp [h0]
        | cons kb ks =>
          have hne := commonPrefix_diverge key q kb tb ks ts hk hth
          by_cases hlt : tb < kb
          · simp only [hlt, if_true]
            rw [searchNode_inner_eq _ _ _ _ _ _ _ _ hcp, hk]
            have : ¬ tb = kb := fun e => hne e.symm
            simp only [searchK, this, if_false, hlt, if_true]
            rw [searchNode_leaf_self]
            simp [h0]
          · simp only [hlt, if_false]
            rw [searchNode_inner_eq _ _ _ _ _ _ _ _ hcp, hk]
            simp only [searchK, if_true]
            rw [searchNode_leaf_self]
            simp [h0]
    | inner k q lf kids nw t =>
      simp only [Node.pfx] at hex hcp hcp2 hl1 hl2
      dsimp only at h0 ⊢
      simp only [pfx_setPfx, cloneNode_pfx]
      simp only [Node.pfx]
      cases hth : List.drop (commonPrefix key q).length q with
      | nil =>
        cases hk : List.drop (commonPrefix key q).length key with
        | nil =>
          exfalso
          have e1 : (List.drop (commonPrefix key q).length q).length = 0 := by rw [hth]; rfl
          have e2 : (List.drop (commonPrefix key q).length key).length = 0 := by rw [hk]; rfl
          simp only [List.length_drop] at e1 e2
          exact hex ⟨by omega, by omega⟩
        | cons kb ks =>
          rw [searchNode_inner_eq _ _ _ _ _ _ _ _ hcp, hk]
          simp only [List.headD_cons, searchK, if_true]
          rw [searchNode_leaf_self]
          simp [h0]
      | cons tb ts =>
        cases hk : List.drop (commonPrefix key q).length key with
        | nil =>
          rw [searchNode_inner_eq _ _ _ _ _ _ _ _ hcp, hk]
          simp [h0]
        | cons kb ks =>
          have hne := commonPrefix_diverge key q kb tb ks ts hk hth
          by_cases hlt : tb < kb
          · simp only [hlt, if_true]
            rw [searchNode_inner_eq _ _ _ _ _ _ _ _ hcp, hk]
            have : ¬ tb = kb := fun e => hne e.symm
            simp only [searchK, this, if_false, hlt, if_true]
            rw [searchNode_leaf_self]
            simp [h0]
          · simp only [hlt, if_false]
            rw [searchNode_inner_eq _ _ _ _ _ _ _ _ hcp, hk]
            simp only [searchK, if_true]
            rw [searchNode_leaf_self]
            simp [h0]


theorem searchK_insert_free (P : ArtParams) (st : St) (b : Nat) (key full : List Nat) (val : Nat)
    (mod : Option (Nat → Nat → Nat)) (n : Node) (w : Nat) (k : List Nat) :
    (kids : Kids) → insKids P st kids b key full val mod = none → searchK (kids.insert b n) b w k = searchNode n w k
  | .nil, _ => by simp [Kids.insert, searchK]
  | .cons c m r, h => by
    unfold insKids at h
    by_cases hcb : c = b
    · simp [hcb] at h
    · simp only [hcb, if_false] at h
      by_cases hlt : c < b
      · simp only [hlt, if_true] at h
        have hr : insKids P st r b key full val mod = none := by
          cases hh : insKids P st r b key full val mod with
          | none => rfl
          | some x => rw [hh] at h; simp at h
        have : ¬ b < c := by omega
        simp only [Kids.insert, this, if_false, searchK, hcb, hlt, if_true]
        exact searchK_insert_free P st b key full val mod n w k r hr
      · have : b < c := by omega
        simp only [Kids.insert, this, if_true, searchK]

mutual
theorem insNode_search (P : ArtParams) (st : St) : (n : Node) → (key full : List Nat) → (val : Nat) →
    (mod : Option (Nat → Nat → Nat)) → (w : Nat) → (insNode P st n key full val mod).watch ≠ 0 →
    (searchNode (insNode P st n key full val mod).node w key).2 = (insNode P st n key full val mod).watch
  | .leaf q d, key, full, val, mod, w, h0 => by
    unfold insNode at h0 ⊢; exact insAt_search P st _ key full val mod w h0
  | .inner kind pfx lf kids nw t, key, full, val, mod, w, h0 => by
    unfold insNode at h0 ⊢
    by_cases hcond : key ≠ [] ∧ hasPrefix key pfx = true ∧ key.length ≠ pfx.length
    · rw [if_pos hcond] at h0 ⊢
      obtain ⟨_, hp, hl⟩ := hcond
      have hlen := hasPrefix_length _ _ hp
      cases hk : List.drop pfx.length key with
      | nil =>
        have : (List.drop pfx.length key).length = 0 := by rw [hk]; rfl
        simp only [List.length_drop] at this; omega
      | cons b r =>
        simp only [hk, List.headD_cons] at h0 ⊢
        cases hins : insKids P st kids b (b :: r) full val mod with
        | some x =>
          obtain ⟨res, kids'⟩ := x
          simp only [hins] at h0 ⊢
          obtain ⟨w', t', he, _⟩ := cloneNode_inner res.st kind pfx lf kids' nw t
          rw [he]
          rw [searchNode_inner_eq _ _ _ _ _ _ _ _ hp, hk]
          exact insKids_search P st kids b (b :: r) full val mod res kids' hins h0 _
        | none =>
          simp only [hins] at h0 ⊢
          by_cases hsz : kids.size + 1 > kind
          · simp only [hsz, if_true] at h0 ⊢
            rw [searchNode_inner_eq _ _ _ _ _ _ _ _ hp, hk]
            simp only
            rw [searchK_insert_free P st b (b :: r) full val mod _ _ _ kids hins, searchNode_leaf_self]
            simp [h0]
          · simp only [hsz, if_false] at h0 ⊢
            obtain ⟨w', t', he, _⟩ := cloneNode_inner (newLeafD st full val).1 kind pfx lf
              (kids.insert b (Node.leaf (b :: r) (newLeafD st full val).2)) nw t
            rw [he]
            rw [searchNode_inner_eq _ _ _ _ _ _ _ _ hp, hk]
            simp only
            rw [searchK_insert_free P st b (b :: r) full val mod _ _ _ kids hins, searchNode_leaf_self]
            simp [h0]
    · rw [if_neg hcond] at h0 ⊢
      exact insAt_search P st _ key full val mod w h0
theorem insKids_search (P : ArtParams) (st : St) : (kids : Kids) → (b : Nat) → (key full : List Nat) → (val : Nat) →
    (mod : Option (Nat → Nat → Nat)) → (r : InsRes) → (kids' : Kids) →
    insKids P st kids b key full val mod = some (r, kids') → r.watch ≠ 0 → ∀ w, (searchK kids' b w key).2 = r.watch
  | .nil, b, key, full, val, mod, r, kids', h, _ => by simp [insKids] at h
  | .cons c n rest, b, key, full, val, mod, r, kids', h, h0 => by
    intro w
    unfold insKids at h
    by_cases hcb : c = b
    · simp only [hcb, if_true, Option.some.injEq, Prod.mk.injEq] at h
      rw [← h.2]
      simp only [searchK, if_true]
      rw [← h.1] at h0 ⊢
      exact insNode_search P st n key full val mod w h0
    · simp only [hcb, if_false] at h
      by_cases hlt : c < b
      · simp only [hlt, if_true] at h
        cases hh : insKids P st rest b key full val mod with
        | none => rw [hh] at h; simp at h
        | some x =>
          obtain ⟨r', rest'⟩ := x
          rw [hh] at h
          simp only [Option.some.injEq, Prod.mk.injEq] at h
          rw [← h.2]
          simp only [searchK, hcb, if_false, hlt, if_true]
          rw [← h.1] at h0 ⊢
          exact insKids_search P st rest b key full val mod r' rest' hh h0 w
      · simp [hlt] at h
end


/-! ## the returned channel is not nil -/

theorem fresh_pos (st : St) (hro : st.rootOnly = false) (hnw : 0 < st.nextW) : st.fresh.2 ≠ 0 := by
  unfold St.fresh; simp [hro]; omega

theorem newLeafD_watch_pos (st : St) (full : List Nat) (v : Nat) (hro : st.rootOnly = false) (hnw : 0 < st.nextW) :
    (newLeafD st full v).2.watch ≠ 0 := by
  unfold newLeafD; exact fresh_pos st hro hnw

theorem cloneNode_leaf_eq (st : St) (q : List Nat) (d : LeafD) (hid : st.txnID ≠ 0) :
    cloneNode st (.leaf q d) = ((st.record d.watch).fresh.1, .leaf q { d with watch := (st.record d.watch).fresh.2 }) := by
  unfold cloneNode
  have : ¬ (Node.leaf q d).txn = st.txnID := fun e => hid e.symm
  rw [if_neg this]
  rfl

theorem cloneLeafD_eq (st : St) (d : LeafD) (hid : st.txnID ≠ 0) :
    cloneLeafD st d = ((st.record d.watch).fresh.1, { d with watch := (st.record d.watch).fresh.2 }) := by
  unfold cloneLeafD
  rw [if_neg (fun e => hid e.symm)]

theorem insAt_watch_pos (P : ArtParams) (st : St) (n : Node) (key full : List Nat) (val : Nat)
    (mod : Option (Nat → Nat → Nat)) (hro : st.rootOnly = false) (hnw : 0 < st.nextW) (hid : st.txnID ≠ 0) :
    (insAt P st n key full val mod).watch ≠ 0 := by
  unfold insAt
  simp only
  split
  · cases n with
    | leaf q d =>
      rw [cloneNode_leaf_eq st q d hid]
      exact fresh_pos _ ((record_le st d.watch).ro.trans hro) (Nat.lt_of_lt_of_le hnw (record_le st d.watch).nw)
    | inner k q lf kids w t =>
      obtain ⟨w', t', he, _⟩ := cloneNode_inner st k q lf kids w t
      rw [he]
      have hle := cloneNode_le st (.inner k q lf kids w t)
      cases lf with
      | some d =>
        simp only
        rw [cloneLeafD_eq _ d (by rw [hle.id]; exact hid)]
        have hle2 := hle.trans (record_le _ d.watch)
        exact fresh_pos _ (hle2.ro.trans hro) (Nat.lt_of_lt_of_le hnw hle2.nw)
      | none =>
        exact newLeafD_watch_pos _ full val (hle.ro.trans hro) (Nat.lt_of_lt_of_le hnw hle.nw)
  · cases n with
    | leaf q d => exact newLeafD_watch_pos _ full val hro hnw
    | inner k q lf kids w t =>
      have hle := cloneNode_le st (.inner k q lf kids w t)
      exact newLeafD_watch_pos _ full val (hle.ro.trans hro) (Nat.lt_of_lt_of_le hnw hle.nw)

mutual
theorem insNode_watch_pos (P : ArtParams) (st : St) (hro : st.rootOnly = false) (hnw : 0 < st.nextW) (hid : st.txnID ≠ 0) :
    (n : Node) → (key full : List Nat) → (val : Nat) → (mod : Option (Nat → Nat → Nat)) →
    (insNode P st n key full val mod).watch ≠ 0
  | .leaf q d, key, full, val, mod => by
    unfold insNode; exact insAt_watch_pos P st _ key full val mod hro hnw hid
  | .inner kind pfx lf kids w t, key, full, val, mod => by
    unfold insNode
    split
    · simp only
      split
      · rename_i r kids' hk
        exact insKids_watch_pos P st hro hnw hid kids _ _ full val mod r kids' hk
      · split <;> exact newLeafD_watch_pos st full val hro hnw
    · exact insAt_watch_pos P st _ key full val mod hro hnw hid
theorem insKids_watch_pos (P : ArtParams) (st : St) (hro : st.rootOnly = false) (hnw : 0 < st.nextW) (hid : st.txnID ≠ 0) :
    (kids : Kids) → (b : Nat) → (key full : List Nat) → (val : Nat) → (mod : Option (Nat → Nat → Nat)) →
    (r : InsRes) → (kids' : Kids) → insKids P st kids b key full val mod = some (r, kids') → r.watch ≠ 0
  | .nil, b, key, full, val, mod, r, kids', h => by simp [insKids] at h
  | .cons c n rest, b, key, full, val, mod, r, kids', h => by
    unfold insKids at h
    split at h
    · simp only [Option.some.injEq, Prod.mk.injEq] at h
      rw [← h.1]; exact insNode_watch_pos P st hro hnw hid n key full val mod
    · split at h
      · split at h
        · rename_i r' rest' hk
          simp only [Option.some.injEq, Prod.mk.injEq] at h
          rw [← h.1]; exact insKids_watch_pos P st hro hnw hid rest b key full val mod r' rest' hk
        · simp at h
      · simp at h
end


end Sdb.ArtW
