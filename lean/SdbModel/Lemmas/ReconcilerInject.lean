import SdbModel.Lemmas.ReconcilerMeasure

/-!
  Lemmas.ReconcilerInject — the bookkeeping invariant `JInv` of the reconciler
  model for rounds in which user writes land WHILE an Update runs
  (`R.injects ≠ []`).  It is the invariant `InvL` of `Lemmas.ReconcilerInv`
  without `injects = []`, with what a result / a retry item may assume about the
  CURRENT object weakened to "if the result still applies" and with the
  freshness of status ids made explicit.  This file: definitions and the
  preservation by the user's writes (with results waiting to be committed).
-/
namespace Sdb.Rec

/-- the result `res` still applies to the current object `cur`: this is exactly
    the condition under which `commitOne` writes a status -/
def ResLive (res : Res) (cur : RObj) : Prop :=
  cur.rev = res.2.2.1 ∨ (cur.kind = .pending ∧ cur.sid = res.2.2.2.1)

/-- a result waiting to be committed is justified: IF it still applies to the
    current object, that object has the data Update was called with, this call is
    the last one logged for the object, and a retry item for it is the one just
    popped (and the call failed) -/
def JResOK (objs : List RObj) (log : List Call) (items : List Item) (tableRev nextSid : Nat) (res : Res) : Prop :=
  res.2.1 = res.1 ∧ res.2.2.2.1 = res.1.sid ∧ res.2.2.1 ≤ tableRev ∧ res.1.sid < nextSid ∧
  ∀ cur ∈ objs, cur.id = res.1.id → ResLive res cur →
    cur.data = res.1.data ∧ (cur.rev = res.2.2.1 → cur.other = res.1.other) ∧
    lastCall log res.1.id = some ⟨"U", res.1.id, res.1.data, !res.2.2.2.2⟩ ∧
    ∀ it ∈ items, it.id = res.1.id → it.inQueue = false ∧ res.2.2.2.2 = true

/-- the object `it` retries is Error at exactly the item's revision -/
def ErrAt (objs : List RObj) (it : Item) : Prop :=
  ∃ o ∈ objs, o.id = it.id ∧ o.kind = .error ∧ o.rev = it.rev

/-- a retry item is justified.  An item outside the time queue either has its
    failed result waiting to be committed or belongs to an object that changed
    meanwhile (the change stream will clear it). -/
def JItemOK (objs : List RObj) (dels : List (RObj × Nat)) (itRev itDelRev : Nat) (rs : List Res) (tableRev nextSid : Nat)
    (it : Item) : Prop :=
  it.obj.id = it.id ∧
  (Stale objs dels itRev itDelRev it.id ∨ (it.delete = true ∧ ∃ d ∈ dels, d.1.id = it.id) ∨
    (it.delete = false ∧ ErrAt objs it)) ∧
  (it.inQueue = false → Stale objs dels itRev itDelRev it.id ∨
    (it.delete = false ∧ ErrAt objs it ∧ ∃ res ∈ rs, res.1.id = it.id ∧ res.2.2.1 = it.rev ∧ res.2.2.2.2 = true)) ∧
  (it.delete = false → it.rev ≤ tableRev ∧ it.obj.sid < nextSid ∧ ∀ o ∈ objs, o.id = it.id →
    (o.kind = .error ∧ o.rev = it.rev ∧ o.data = it.obj.data ∧ o.other = it.obj.other) ∨
    (it.rev < o.rev ∧ (o.kind = .pending → o.sid ≠ it.obj.sid)))

/-- the bookkeeping invariant with writes during Updates, relative to the list
    `rs` of results still to be committed -/
structure JInv (r : R) (rs : List Res) : Prop where
  tinv : TInv r
  items_pw : r.items.Pairwise (fun a b => a.id ≠ b.id)
  objOK : ∀ o ∈ r.objs, ObjOK r.log r.items r.itRev rs o
  delOK : ∀ d ∈ r.dels, DelOK r.log r.items r.itDelRev d
  itemOK : ∀ it ∈ r.items, JItemOK r.objs r.dels r.itRev r.itDelRev rs r.tableRev r.nextSid it
  resOK : ∀ res ∈ rs, JResOK r.objs r.log r.items r.tableRev r.nextSid res
  sidO : ∀ o ∈ r.objs, o.sid < r.nextSid

theorem JInv.congr {r r' : R} {rs : List Res} (h : JInv r rs) (h1 : r'.objs = r.objs) (h2 : r'.dels = r.dels)
    (h3 : r'.tableRev = r.tableRev) (h4 : r'.itRev = r.itRev) (h5 : r'.itDelRev = r.itDelRev)
    (h6 : r'.refreshedAt = r.refreshedAt) (h7 : r'.items = r.items) (h8 : r'.log = r.log)
    (h9 : r'.nextSid = r.nextSid) : JInv r' rs := by
  obtain ⟨a, b, c, d, e, f, g⟩ := h
  refine ⟨a.congr h1 h2 h3 h4 h5 h6, ?_, ?_, ?_, ?_, ?_, ?_⟩ <;> simp only [h1, h2, h3, h4, h5, h7, h8, h9] <;> assumption

/-- status ids are handed out increasingly: the bounds survive a larger `nextSid` -/
theorem JItemOK.mono_sid {objs dels a b rs t n n'} {it : Item} (h : JItemOK objs dels a b rs t n it) (hn : n ≤ n') :
    JItemOK objs dels a b rs t n' it := by
  obtain ⟨h1, h2, h3, h4⟩ := h
  refine ⟨h1, h2, h3, fun hd => ?_⟩
  obtain ⟨a1, a2, a3⟩ := h4 hd
  exact ⟨a1, by omega, a3⟩

theorem JResOK.mono_sid {objs log items t n n'} {res : Res} (h : JResOK objs log items t n res) (hn : n ≤ n') :
    JResOK objs log items t n' res := by
  obtain ⟨h1, h2, h3, h4, h5⟩ := h
  exact ⟨h1, h2, h3, by omega, h5⟩

/-- raising `nextSid` -/
theorem JInv.bump {r r' : R} {rs : List Res} (h : JInv r rs) (h1 : r'.objs = r.objs) (h2 : r'.dels = r.dels)
    (h3 : r'.tableRev = r.tableRev) (h4 : r'.itRev = r.itRev) (h5 : r'.itDelRev = r.itDelRev)
    (h6 : r'.refreshedAt = r.refreshedAt) (h7 : r'.items = r.items) (h8 : r'.log = r.log)
    (h9 : r.nextSid ≤ r'.nextSid) : JInv r' rs := by
  obtain ⟨a, b, c, d, e, f, g⟩ := h
  refine ⟨a.congr h1 h2 h3 h4 h5 h6, ?_, ?_, ?_, ?_, ?_, ?_⟩
  · rw [h7]; exact b
  · rw [h1, h7, h8, h4]; exact c
  · rw [h2, h7, h8, h5]; exact d
  · rw [h1, h2, h7, h4, h5, h3]; exact fun it hit => (e it hit).mono_sid h9
  · rw [h1, h7, h8, h3]; exact fun res hr => (f res hr).mono_sid h9
  · rw [h1]; exact fun o ho => Nat.lt_of_lt_of_le (g o ho) h9

/-! ## the user's writes, with results waiting to be committed -/

theorem Stale.setObj_other {r : R} {o : RObj} {a b id : Nat} (hid : id ≠ o.id) (h : Stale r.objs r.dels a b id) :
    Stale (r.setObj o).objs (r.setObj o).dels a b id := by
  rcases h with ⟨x, hx, h5, h6⟩ | ⟨d, hd, h5, h6⟩
  · exact Or.inl ⟨x, mem_setObj_other hx (by omega), h5, h6⟩
  · exact Or.inr ⟨d, mem_setObj_dels_other hd (by omega), h5, h6⟩

theorem ErrAt.setObj_other {r : R} {o : RObj} {it : Item} (hid : it.id ≠ o.id) (h : ErrAt r.objs it) : ErrAt (r.setObj o).objs it := by
  obtain ⟨x, hx, h5⟩ := h
  exact ⟨x, mem_setObj_other hx (by omega), h5⟩

theorem JItemOK.setObj_other {r : R} {o : RObj} {it : Item} {rs : List Res} {a b n n' : Nat} (hid : it.id ≠ o.id) (hn : n ≤ n')
    (h : JItemOK r.objs r.dels a b rs r.tableRev n it) :
    JItemOK (r.setObj o).objs (r.setObj o).dels a b rs (r.tableRev + 1) n' it := by
  obtain ⟨h1, h2, h3, h4⟩ := h
  refine ⟨h1, ?_, ?_, ?_⟩
  · rcases h2 with h2 | ⟨h4, d, hd, h5⟩ | ⟨h4, h5⟩
    · exact Or.inl (h2.setObj_other hid)
    · exact Or.inr (Or.inl ⟨h4, d, mem_setObj_dels_other hd (by omega), h5⟩)
    · exact Or.inr (Or.inr ⟨h4, h5.setObj_other hid⟩)
  · intro hq
    rcases h3 hq with h3 | ⟨a1, a2, a3⟩
    · exact Or.inl (h3.setObj_other hid)
    · exact Or.inr ⟨a1, a2.setObj_other hid, a3⟩
  · intro hd
    obtain ⟨a1, a2, a3⟩ := h4 hd
    refine ⟨by omega, by omega, fun x hx hxid => ?_⟩
    rcases (mem_setObj_objs ..).1 hx with ⟨hx', _⟩ | rfl
    · exact a3 x hx' hxid
    · exact absurd hxid.symm hid

/-- a user write (Insert with a fresh pending status) -/
theorem JInv.userPut {r : R} {rs : List Res} (h : JInv r rs) (id data : Nat) : JInv (r.userPut id data) rs := by
  obtain ⟨other, he⟩ := userPut_eq r id data
  rw [he]
  have hit := h.tinv.it_le
  generalize hon : ({ id, data, kind := .pending, sid := r.nextSid, other, rev := 0 } : RObj) = onew
  have honid : onew.id = id := by rw [← hon]
  refine ⟨(h.tinv.setObj onew).congr rfl rfl rfl rfl rfl rfl, h.items_pw, ?_, ?_, ?_, ?_, ?_⟩
  · intro o ho
    rcases (mem_setObj_objs ..).1 ho with ⟨ho, _⟩ | rfl
    · exact h.objOK o ho
    · subst hon; simp [ObjOK, needs]; omega
  · intro d hd
    simp only [setObj_dels, List.mem_filter] at hd
    exact h.delOK d hd.1
  · intro it hit'
    by_cases hid : it.id = id
    · obtain ⟨h1, h2, h3, h4⟩ := h.itemOK it hit'
      have hst : Stale (r.setObj onew).objs (r.setObj onew).dels r.itRev r.itDelRev it.id :=
        Or.inl ⟨_, (mem_setObj_objs ..).2 (Or.inr rfl), by simp only; omega, by simp only; omega, by subst hon; exact Or.inl rfl⟩
      refine ⟨h1, Or.inl hst, fun _ => Or.inl hst, fun hd => ?_⟩
      obtain ⟨a1, a2, a3⟩ := h4 hd
      refine ⟨by simp only [setObj_tableRev]; omega, by simp only; omega, fun x hx hxid => ?_⟩
      rcases (mem_setObj_objs ..).1 hx with ⟨hx', hne⟩ | rfl
      · exact absurd (by omega) hne
      · right; subst hon; simp only; exact ⟨by omega, fun _ => by omega⟩
    · exact (h.itemOK it hit').setObj_other (by omega) (Nat.le_succ _)
  · intro res hr
    obtain ⟨a1, a2, a3, a4, a5⟩ := h.resOK res hr
    refine ⟨a1, a2, by simp only [setObj_tableRev]; omega, by simp only; omega, fun cur hcur hcid hlive => ?_⟩
    rcases (mem_setObj_objs ..).1 hcur with ⟨hcur', _⟩ | rfl
    · exact a5 cur hcur' hcid hlive
    · exfalso
      subst hon
      rcases hlive with e | ⟨_, e⟩
      · simp only at e; omega
      · simp only at e; omega
  · intro o ho
    rcases (mem_setObj_objs ..).1 ho with ⟨ho, _⟩ | rfl
    · have := h.sidO o ho; simp only; omega
    · subst hon; simp

/-- Delete by a user -/
theorem JInv.delObj {r : R} {rs : List Res} (h : JInv r rs) (id : Nat) : JInv (r.delObj id) rs := by
  cases hg : r.get id with
  | none => rw [delObj_of_none hg]; exact h
  | some o =>
    have ht := h.tinv.delObj id
    rw [delObj_of_get hg] at ht ⊢
    rw [get_eq_some_iff h.tinv] at hg
    have hitd := h.tinv.itd_le
    have hst : ∀ X, Stale r.objs r.dels r.itRev r.itDelRev X ∨ X = id →
        Stale (r.objs.filter (·.id ≠ id)) (r.dels ++ [({ o with rev := r.tableRev + 1 }, r.tableRev + 1)]) r.itRev r.itDelRev X := by
      intro X hX
      by_cases hXid : X = id
      · right
        exact ⟨_, List.mem_append_right _ (List.mem_singleton.2 rfl), by simp only; omega, by simp only; omega⟩
      · rcases hX with (⟨x, hx, h5, h6⟩ | ⟨d, hd, h5, h6⟩) | hX
        · exact Or.inl ⟨x, by simp only [List.mem_filter]; exact ⟨hx, by simp; omega⟩, h5, h6⟩
        · exact Or.inr ⟨d, List.mem_append_left _ hd, h5, h6⟩
        · exact absurd hX hXid
    have her : ∀ it : Item, it.id ≠ id → ErrAt r.objs it → ErrAt (r.objs.filter (·.id ≠ id)) it := by
      rintro it hid ⟨x, hx, h5⟩
      exact ⟨x, by simp only [List.mem_filter]; exact ⟨hx, by simp; omega⟩, h5⟩
    refine ⟨ht, h.items_pw, ?_, ?_, ?_, ?_, ?_⟩
    · intro x hx
      simp only [List.mem_filter] at hx
      exact h.objOK x hx.1
    · intro d hd
      simp only [List.mem_append, List.mem_singleton] at hd
      rcases hd with hd | rfl
      · exact h.delOK d hd
      · left; simp only; omega
    · intro it hit
      obtain ⟨h1, h2, h3, h4⟩ := h.itemOK it hit
      by_cases hid : it.id = id
      · refine ⟨h1, Or.inl (hst _ (Or.inr hid)), fun _ => Or.inl (hst _ (Or.inr hid)), fun hd => ?_⟩
        obtain ⟨a1, a2, _⟩ := h4 hd
        refine ⟨by simp only; omega, a2, fun x hx hxid => ?_⟩
        simp only [List.mem_filter] at hx
        have := hx.2
        simp at this; omega
      · refine ⟨h1, ?_, ?_, ?_⟩
        · rcases h2 with h2 | ⟨h4, d, hd, h5⟩ | ⟨h4, h5⟩
          · exact Or.inl (hst _ (Or.inl h2))
          · exact Or.inr (Or.inl ⟨h4, d, List.mem_append_left _ hd, h5⟩)
          · exact Or.inr (Or.inr ⟨h4, her it hid h5⟩)
        · intro hq
          rcases h3 hq with h3 | ⟨a1, a2, a3⟩
          · exact Or.inl (hst _ (Or.inl h3))
          · exact Or.inr ⟨a1, her it hid a2, a3⟩
        · intro hd
          obtain ⟨a1, a2, a3⟩ := h4 hd
          refine ⟨by simp only; omega, a2, fun x hx hxid => ?_⟩
          simp only [List.mem_filter] at hx
          exact a3 x hx.1 hxid
    · intro res hr
      obtain ⟨a1, a2, a3, a4, a5⟩ := h.resOK res hr
      refine ⟨a1, a2, by simp only; omega, a4, fun cur hcur hcid hlive => ?_⟩
      simp only [List.mem_filter] at hcur
      exact a5 cur hcur.1 hcid hlive
    · intro x hx
      simp only [List.mem_filter] at hx
      exact h.sidO x hx.1

/-- a foreign writer changing only its own status of an object whose status (of
    this reconciler) is not Error -/
theorem JInv.touch {r : R} {rs : List Res} (h : JInv r rs) (id : Nat) (hne : ∀ o, r.get id = some o → o.kind ≠ .error) :
    JInv (r.touch id) rs := by
  unfold R.touch
  cases hg : r.get id with
  | none => exact h
  | some o =>
    simp only
    have hk := hne o hg
    rw [get_eq_some_iff h.tinv] at hg
    have hit := h.tinv.it_le
    have hO := h.objOK o hg.1
    have hole := h.tinv.objs_le o hg.1
    generalize hon : ({ o with other := o.other + 1 } : RObj) = onew
    have honid : onew.id = id := by rw [← hon]; exact hg.2
    refine ⟨h.tinv.setObj _, h.items_pw, ?_, ?_, ?_, ?_, ?_⟩
    · intro x hx
      rcases (mem_setObj_objs ..).1 hx with ⟨hx, _⟩ | rfl
      · exact h.objOK x hx
      · subst hon
        refine ⟨fun hd => hO.1 hd, fun he => absurd he hk, fun _ => Or.inl ?_⟩
        simp only [setObj_itRev]; omega
    · intro d hd
      simp only [setObj_dels, List.mem_filter] at hd
      exact h.delOK d hd.1
    · intro it hit'
      by_cases hid : it.id = id
      · obtain ⟨h1, h2, h3, h4⟩ := h.itemOK it hit'
        have hst : Stale (r.setObj onew).objs (r.setObj onew).dels r.itRev r.itDelRev it.id := by
          left
          refine ⟨_, (mem_setObj_objs ..).2 (Or.inr rfl), by simp only; omega, by simp only; omega, ?_⟩
          subst hon
          simp only
          cases hkk : o.kind with
          | pending => exact Or.inl rfl
          | refreshing => exact Or.inr rfl
          | error => exact absurd hkk hk
          | done => exact absurd (hid.trans hg.2.symm) ((hO.1 hkk).2 it hit')
        refine ⟨h1, Or.inl hst, fun _ => Or.inl hst, fun hd => ?_⟩
        obtain ⟨a1, a2, a3⟩ := h4 hd
        refine ⟨by simp only [setObj_tableRev]; omega, a2, fun x hx hxid => ?_⟩
        rcases (mem_setObj_objs ..).1 hx with ⟨hx', hne'⟩ | rfl
        · exact absurd (by omega) hne'
        · rcases a3 o hg.1 (by omega) with ⟨e, _⟩ | ⟨b1, b2⟩
          · exact absurd e hk
          · right; subst hon; exact ⟨by simp only; omega, b2⟩
      · exact (h.itemOK it hit').setObj_other (by omega) (Nat.le_refl _)
    · intro res hr
      obtain ⟨a1, a2, a3, a4, a5⟩ := h.resOK res hr
      refine ⟨a1, a2, by simp only [setObj_tableRev]; omega, a4, fun cur hcur hcid hlive => ?_⟩
      rcases (mem_setObj_objs ..).1 hcur with ⟨hcur', _⟩ | rfl
      · exact a5 cur hcur' hcid hlive
      · subst hon
        have hlive' : ResLive res o := by
          rcases hlive with e | e
          · simp only at e; omega
          · exact Or.inr e
        obtain ⟨b1, _, b3, b4⟩ := a5 o hg.1 hcid hlive'
        exact ⟨b1, fun e => by simp only at e; omega, b3, b4⟩
    · intro x hx
      rcases (mem_setObj_objs ..).1 hx with ⟨hx, _⟩ | rfl
      · exact h.sidO x hx
      · subst hon; exact h.sidO o hg.1

end Sdb.Rec
