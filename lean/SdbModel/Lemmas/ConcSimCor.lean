import SdbModel.Lemmas.ConcSimCount

/-!
  ConcSimCor — consequences of the simulation stated on `Model.Conc` itself:
  a thread between its acquire and its release of a table owns the table mutex;
  while a thread owns it no other thread's step changes the committed version of
  that table; one scheduler step commits all tables of one writer, or registers
  one table, or leaves the committed root alone.  Core Lean only.
-/
namespace Sdb.Conc
open Sdb.Serial (Txn Phase)

theorem release_mem_cEnd (L : List Nat) (c : Bool) (i : Nat) (h : Micro.release i ∈ cEnd L c) : i ∈ L := by
  cases c <;> simpa [cEnd] using h

/-- **holding**: a thread that still has `release i` ahead and no `acquire i`
    any more (it is between its acquire and its release of table `i`) owns the
    mutex of table `i` -/
theorem holds_of_between (st : State) (cs : List Bool) (h : Sim st cs) (tid : Nat) (th : Thread)
    (hth : st.threads[tid]? = some th) (i : Nat) (hrel : Micro.release i ∈ th.prog)
    (hacq : Micro.acquire i ∉ th.prog) : st.lockOwner.getD i none = some tid := by
  obtain ⟨s, hs, hR, _⟩ := h
  obtain ⟨t, ht, htabs, hb, p, hp, hcs, hl⟩ := hR.thr tid th hth
  have inv := Serial.inv_reachable s hs
  rw [hR.owner i]
  apply inv.heldOwner tid t i ht
  have hrel' : Micro.release i ∈ code (lockList th) t.commit p := by
    rw [← hp, mem_strip _ _ (by rfl)]; exact hrel
  have hacq' : Micro.acquire i ∉ code (lockList th) t.commit p := by
    rw [← hp, mem_strip _ _ (by rfl)]; exact hacq
  have loaded : t.phase = .loaded → i ∈ lockList th → i ∈ Serial.held t := by
    intro hph hi; simp only [Serial.held, hph]; rw [htabs]; exact hi
  cases p with
  | acq k =>
    simp only [code, List.mem_append, List.mem_map, List.mem_cons, reduceCtorEq, false_or] at hrel' hacq'
    have hiL : i ∈ lockList th := by
      rcases hrel' with ⟨_, _, h⟩ | h
      · simp at h
      · exact release_mem_cEnd _ _ _ h
    have hnd : i ∉ (lockList th).drop k := fun hm => hacq' (Or.inl ⟨i, hm, rfl⟩)
    have : i ∈ (lockList th).take k := by
      rw [← List.take_append_drop k (lockList th), List.mem_append] at hiL
      exact hiL.resolve_right hnd
    simp only [Serial.held, hl.1]; rw [htabs]; exact this
  | clR =>
    exact loaded hl.1 (release_mem_cEnd _ t.commit _ (by simpa [code] using hrel'))
  | clE =>
    exact loaded hl.1 (release_mem_cEnd _ t.commit _ (by simpa [code] using hrel'))
  | uw =>
    exact loaded hl.1 (release_mem_cEnd _ t.commit _ (by simpa [code] using hrel'))
  | aR => exact loaded hl.1 (by simpa [code] using hrel')
  | lc => exact loaded hl.1 (by simpa [code] using hrel')
  | mg => exact loaded hl.1 (by simpa [code] using hrel')
  | ci => exact loaded hl.1 (by simpa [code] using hrel')
  | sr => exact loaded hl.1 (by simpa [code] using hrel')
  | rR =>
    have hi : i ∈ lockList th := by simpa [code] using hrel'
    simp only [Serial.held, hl.1, hl.2.1, List.drop_zero]; rw [htabs]; exact hi
  | rel k =>
    obtain ⟨_, hr, hph, hdp⟩ := hl
    cases hd : th.done with
    | true => rw [hdp hd] at hrel; simp at hrel
    | false =>
      rw [hd] at hph
      simp only [Bool.false_eq_true, if_false] at hph
      have hi : i ∈ (lockList th).drop k := by
        simp only [code, List.mem_map] at hrel'
        obtain ⟨a, ha, he⟩ := hrel'
        simp only [Micro.release.injEq] at he; subst he; exact ha
      simp only [Serial.held, hph, hr]; rw [htabs]; exact hi
  | gA => simp [code] at hrel'
  | gL => simp [code] at hrel'
  | gP => simp [code] at hrel'
  | gS => simp [code] at hrel'
  | gR => simp [code] at hrel'
  | gE => simp [code] at hrel'
  | dA => simp [code] at hrel'
  | dL => simp [code] at hrel'
  | dR => simp [code] at hrel'

theorem ascending_nodup : ∀ (l : List Nat), Serial.Ascending l → l.Nodup
  | [], _ => List.nodup_nil
  | a :: l, h => by
    rw [List.nodup_cons]
    refine ⟨fun hm => ?_, ascending_nodup l (Serial.Ascending.tail h)⟩
    have := ascending_head_lt a l h a hm
    omega

theorem take_drop_disjoint (l : List Nat) (h : l.Nodup) (k i : Nat) (h1 : i ∈ l.take k) (h2 : i ∈ l.drop k) :
    False := by
  rw [← List.take_append_drop k l, List.nodup_append] at h
  exact h.2.2 i h1 i h2 rfl

/-- **converse of holding**: the owner of the mutex of table `i` is a thread
    between its acquire and its release of `i` -/
theorem between_of_holds (st : State) (cs : List Bool) (h : Sim st cs) (tid i : Nat)
    (ho : st.lockOwner.getD i none = some tid) :
    ∃ th, st.threads[tid]? = some th ∧ Micro.release i ∈ th.prog ∧ Micro.acquire i ∉ th.prog := by
  obtain ⟨s, hs, hR, _⟩ := h
  have inv := Serial.inv_reachable s hs
  rw [hR.owner i] at ho
  obtain ⟨t, ht, hheld⟩ := inv.ownerHeld i tid ho
  have hlt : tid < st.threads.length := by rw [← hR.len]; exact lt_of_getElem?_some _ _ _ ht
  refine ⟨st.threads[tid], List.getElem?_eq_getElem hlt, ?_⟩
  obtain ⟨t', ht', htabs, hb, p, hp, hcs, hl⟩ := hR.thr tid st.threads[tid] (List.getElem?_eq_getElem hlt)
  rw [ht] at ht'; simp only [Option.some.injEq] at ht'; subst ht'
  generalize st.threads[tid] = th at *
  have hnd : (lockList th).Nodup := ascending_nodup _ (lockOrder_ascending th.tables).1
  rw [← mem_strip _ th.prog (show relevant (Micro.release i) = true from rfl),
    ← mem_strip _ th.prog (show relevant (Micro.acquire i) = true from rfl), hp]
  have rel_cEnd : i ∈ lockList th → Micro.release i ∈ cEnd (lockList th) t.commit := by
    intro hi; cases t.commit <;> simp [cEnd, hi]
  cases p with
  | acq k =>
    simp only [Serial.held, hl.1] at hheld; rw [htabs] at hheld
    have hiL : i ∈ lockList th := List.mem_of_mem_take hheld
    constructor
    · simp only [code, List.mem_append, List.mem_cons]
      right; right; right; right; right; exact rel_cEnd hiL
    · simp only [code, List.mem_append, List.mem_map, List.mem_cons, reduceCtorEq, false_or, not_or]
      refine ⟨fun ⟨a, ha, he⟩ => ?_, fun hm => ?_⟩
      · simp only [Micro.acquire.injEq] at he; subst he
        exact take_drop_disjoint _ hnd k a hheld ha
      · cases hc : t.commit <;> simp [cEnd, hc] at hm
  | clR =>
    simp only [Serial.held, hl.1] at hheld; rw [htabs] at hheld
    refine ⟨by simp [code, rel_cEnd hheld], ?_⟩
    cases hc : t.commit <;> simp [code, cEnd]
  | clE =>
    simp only [Serial.held, hl.1] at hheld; rw [htabs] at hheld
    refine ⟨by simp [code, rel_cEnd hheld], ?_⟩
    cases hc : t.commit <;> simp [code, cEnd]
  | uw =>
    simp only [Serial.held, hl.1] at hheld; rw [htabs] at hheld
    refine ⟨by simp [code, rel_cEnd hheld], ?_⟩
    cases hc : t.commit <;> simp [code, cEnd]
  | aR => simp only [Serial.held, hl.1] at hheld; rw [htabs] at hheld; simp [code, hheld]
  | lc => simp only [Serial.held, hl.1] at hheld; rw [htabs] at hheld; simp [code, hheld]
  | mg => simp only [Serial.held, hl.1] at hheld; rw [htabs] at hheld; simp [code, hheld]
  | ci => simp only [Serial.held, hl.1] at hheld; rw [htabs] at hheld; simp [code, hheld]
  | sr => simp only [Serial.held, hl.1] at hheld; rw [htabs] at hheld; simp [code, hheld]
  | rR =>
    simp only [Serial.held, hl.1, hl.2.1, List.drop_zero] at hheld; rw [htabs] at hheld; simp [code, hheld]
  | rel k =>
    obtain ⟨_, hr, hph, _⟩ := hl
    cases hd : th.done with
    | true => rw [hd] at hph; simp only [if_true] at hph; simp [Serial.held, hph] at hheld
    | false =>
      rw [hd] at hph; simp only [Bool.false_eq_true, if_false] at hph
      simp only [Serial.held, hph, hr] at hheld; rw [htabs] at hheld
      simp only [code, List.mem_map]
      exact ⟨⟨i, hheld, rfl⟩, fun ⟨a, _, he⟩ => by simp at he⟩
  | gA => simp [Serial.held, hl.2, htabs, lockList_nil th hl.1] at hheld
  | gL => simp [Serial.held, hl.2, htabs, lockList_nil th hl.1] at hheld
  | gP => simp [Serial.held, hl.2.1, htabs, lockList_nil th hl.1] at hheld
  | gS => simp [Serial.held, hl.2.1, htabs, lockList_nil th hl.1] at hheld
  | gR => simp [Serial.held, hl.2, htabs, lockList_nil th hl.1] at hheld
  | gE => simp [Serial.held, hl.2, htabs, lockList_nil th hl.1] at hheld
  | dA => simp [Serial.held, hl.2, htabs, lockList_nil th hl.1] at hheld
  | dL => simp [Serial.held, hl.2, htabs, lockList_nil th hl.1] at hheld
  | dR => simp [Serial.held, hl.2, htabs, lockList_nil th hl.1] at hheld

/-- **the writer works on the latest committed version**: from `loadRoot` until
    its `storeRoot` (resp. its writes, when aborting) the root a writer loaded
    agrees with the committed root on every table it requested — nothing was
    committed to those tables in between -/
theorem sees_latest (st : State) (cs : List Bool) (h : Sim st cs) (tid : Nat) (th : Thread)
    (hth : st.threads[tid]? = some th) (hld : Micro.act Act.loadRoot ∉ th.prog)
    (hw : Micro.act Act.storeRoot ∈ th.prog ∨ Micro.userWrites ∈ th.prog) (x : Nat) (hx : x ∈ th.tables) :
    x < th.oldRoot.length ∧ x < st.root.length ∧ (getT th.oldRoot x).cnt = (getT st.root x).cnt := by
  obtain ⟨s, hs, hR, _⟩ := h
  obtain ⟨t, ht, htabs, hb, p, hp, hcs, hl⟩ := hR.thr tid th hth
  have inv := Serial.inv_reachable s hs
  have hxl : x ∈ lockList th := (mem_lockList th x).2 hx
  have hld' : Micro.act Act.loadRoot ∉ code (lockList th) t.commit p := by
    rw [← hp, mem_strip _ _ (by rfl)]; exact hld
  have hw' : Micro.act Act.storeRoot ∈ code (lockList th) t.commit p ∨ Micro.userWrites ∈ code (lockList th) t.commit p := by
    rw [← hp, mem_strip _ _ (by rfl), mem_strip _ _ (by rfl)]; exact hw
  have key : t.phase = .loaded → Holds (lockList th) th.oldRoot t.old 0 →
      x < th.oldRoot.length ∧ x < st.root.length ∧ (getT th.oldRoot x).cnt = (getT st.root x).cnt := by
    intro hph hold
    obtain ⟨h1, h2⟩ := hold x hxl
    have hsee := inv.sees tid t ht hph x (by rw [htabs]; exact hxl)
    have hxr := (hb x hxl).1
    refine ⟨h1, hxr, ?_⟩
    rw [h2, hsee, hR.root x hxr]; rfl
  cases p with
  | acq k => exact absurd (by simp [code]) hld'
  | clR => exact key hl.1 hl.2
  | clE => exact key hl.1 hl.2.1
  | uw => exact key hl.1 hl.2.1
  | aR => exact key hl.1 hl.2.1
  | lc => exact key hl.1 hl.2.1
  | mg => exact key hl.1 hl.2.1
  | ci => exact key hl.1 hl.2.1
  | sr => exact key hl.1 hl.2.1
  | rR => simp [code] at hw'
  | rel k =>
    simp only [code, List.mem_map] at hw'
    rcases hw' with ⟨_, _, he⟩ | ⟨_, _, he⟩ <;> simp at he
  | gA => rw [hl.1] at hx; simp at hx
  | gL => rw [hl.1] at hx; simp at hx
  | gP => rw [hl.1] at hx; simp at hx
  | gS => rw [hl.1] at hx; simp at hx
  | gR => rw [hl.1] at hx; simp at hx
  | gE => rw [hl.1] at hx; simp at hx
  | dA => rw [hl.1] at hx; simp at hx
  | dL => rw [hl.1] at hx; simp at hx
  | dR => rw [hl.1] at hx; simp at hx

/-! ### runs of one thread -/

/-- a micro step keeps the requested tables and only shortens the program -/
theorem mstep_tables_prog (st : State) (tid : Nat) (th : Thread) (st' : State) (th' : Thread)
    (h : mstep st tid th = some (st', th')) : th'.tables = th.tables ∧ ∀ m, m ∈ th'.prog → m ∈ th.prog := by
  unfold mstep at h
  split at h
  · rename_i hp
    split at h
    · simp at h
    · simp only [Option.some.injEq, Prod.mk.injEq] at h; obtain ⟨_, rfl⟩ := h
      exact ⟨rfl, fun m hm => hm⟩
  · rename_i m rest hp
    have sub : ∀ x, x ∈ rest → x ∈ th.prog := fun x hx => by rw [hp]; exact List.mem_cons_of_mem _ hx
    cases m with
    | park l => simp only [Option.some.injEq, Prod.mk.injEq] at h; obtain ⟨_, rfl⟩ := h; exact ⟨rfl, sub⟩
    | acquire t =>
      simp only at h
      split at h
      · simp at h
      · simp only [Option.some.injEq, Prod.mk.injEq] at h; obtain ⟨_, rfl⟩ := h; exact ⟨rfl, sub⟩
    | release t => simp only [Option.some.injEq, Prod.mk.injEq] at h; obtain ⟨_, rfl⟩ := h; exact ⟨rfl, sub⟩
    | acquireRoot =>
      simp only at h
      split at h
      · simp at h
      · simp only [Option.some.injEq, Prod.mk.injEq] at h; obtain ⟨_, rfl⟩ := h; exact ⟨rfl, sub⟩
    | releaseRoot => simp only [Option.some.injEq, Prod.mk.injEq] at h; obtain ⟨_, rfl⟩ := h; exact ⟨rfl, sub⟩
    | act a =>
      simp only [Option.some.injEq] at h
      have h1 := doAct_tables st { th with prog := rest } a
      have h2 := doAct_prog st { th with prog := rest } a
      rw [h] at h1 h2
      exact ⟨h1, fun m hm => sub m (by rw [h2] at hm; exact hm)⟩
    | userWrites =>
      simp only [Option.some.injEq] at h
      have h1 := (doUserWrites_spec st { th with prog := rest }).2.2.2.2.2.2.2.1
      have h2 := (doUserWrites_spec st { th with prog := rest }).2.2.2.2.2.2.1
      rw [h] at h1 h2
      exact ⟨h1, fun m hm => sub m (by rw [h2] at hm; exact hm)⟩

/-- an additional invariant `J` along the micro steps of a run, given that each
    micro step (with its `Effect`) preserves it -/
theorem RunInv_mstar_with (tid : Nat) (cs : List Bool) (J : State × Thread → Prop)
    (hJ : ∀ a b, RunInv tid cs a → J a → mstep a.1 tid a.2 = some b → Effect a.1 b.1 tid a.2 b.2 → J b)
    {a b : State × Thread} (h : MStar tid a b) (ha : RunInv tid cs a) (hJa : J a) : J b := by
  have := MStar.invariant (fun x => RunInv tid cs x ∧ J x)
    (fun a b hab hs => ⟨(RunInv_mstep tid cs a b hab.1 hs).1, hJ a b hab.1 hab.2 hs (RunInv_mstep tid cs a b hab.1 hs).2⟩)
    h ⟨ha, hJa⟩
  exact this.2

/-- a property of the root and the table mutexes that every `Effect` of a thread
    preserves holds after a scheduler step of that thread -/
theorem step_with (st : State) (cs : List Bool) (tid : Nat) (hsim : Sim st cs) (J : State × Thread → Prop)
    (hJ : ∀ a b, RunInv tid cs a → J a → mstep a.1 tid a.2 = some b → Effect a.1 b.1 tid a.2 b.2 → J b)
    (h0 : ∀ th, st.threads[tid]? = some th → J (st, th)) :
    (step st tid).1 = st ∨ ∃ th st' th', st.threads[tid]? = some th ∧ J (st', th') ∧
      (step st tid).1.root = st'.root ∧ (step st tid).1.lockOwner = st'.lockOwner := by
  rcases step_cases st tid with he | ⟨th, st', th', hth, hd, hstar, he⟩
  · exact Or.inl he
  · right
    have ha : RunInv tid cs (st, th) :=
      ⟨by rw [install_self st tid th hth]; exact hsim, lt_of_getElem?_some _ _ _ hth, fun hd' => by simp [hd] at hd'⟩
    exact ⟨th, st', th', hth, RunInv_mstar_with tid cs J hJ hstar ha (h0 th hth), by rw [he]; rfl, by rw [he]; rfl⟩

/-- **exclusion**: while thread `tid0` owns the mutex of table `i`, a scheduler
    step of any other thread neither takes the mutex away nor changes the committed
    version of table `i` (counter, revision, watch channels, initializer state) -/
theorem holder_excludes_others (st : State) (cs : List Bool) (hsim : Sim st cs) (i tid0 tid : Nat)
    (hne : tid ≠ tid0) (ho : st.lockOwner.getD i none = some tid0) (hi : i < st.root.length) :
    (step st tid).1.lockOwner.getD i none = some tid0 ∧ getT (step st tid).1.root i = getT st.root i := by
  let J : State × Thread → Prop := fun a =>
    a.1.lockOwner.getD i none = some tid0 ∧ i < a.1.root.length ∧ getT a.1.root i = getT st.root i
  have hJ : ∀ a b, RunInv tid cs a → J a → mstep a.1 tid a.2 = some b → Effect a.1 b.1 tid a.2 b.2 → J b := by
    intro a b _ hja _ heff
    obtain ⟨j1, j2, j3⟩ := hja
    cases heff with
    | quiet h1 h2 => exact ⟨by rw [h2]; exact j1, by rw [h1]; exact j2, by rw [h1]; exact j3⟩
    | acquire tb h1 h2 h3 =>
      refine ⟨?_, by rw [h1]; exact j2, by rw [h1]; exact j3⟩
      rw [h3, getD_set_opt]
      have : i ≠ tb := fun e => by rw [e, h2] at j1; simp at j1
      simp only [this, false_and, if_false]; exact j1
    | release tb h1 h2 h3 =>
      refine ⟨?_, by rw [h1]; exact j2, by rw [h1]; exact j3⟩
      rw [h3, getD_set_opt]
      have : i ≠ tb := fun e => by
        rw [e, h2] at j1; simp only [Option.some.injEq] at j1; exact hne j1
      simp only [this, false_and, if_false]; exact j1
    | commit h1 h2 _ _ h5 =>
      refine ⟨by rw [h1]; exact j1, by rw [h2]; exact j2, ?_⟩
      obtain ⟨g1, g2⟩ := h5 i j2
      have : i ∉ a.2.tables := fun hm => by
        have := (g1 hm).1
        rw [j1] at this; simp only [Option.some.injEq] at this; exact hne this.symm
      rw [g2 this]; exact j3
    | register h1 _ _ _ h5 =>
      obtain ⟨v, hv, _⟩ := h5
      refine ⟨by rw [h1]; exact j1, by rw [hv]; simp; omega, ?_⟩
      rw [hv, getT_append_left _ _ _ j2]; exact j3
  rcases step_with st cs tid hsim J hJ (fun th _ => ⟨ho, hi, rfl⟩) with he | ⟨th, st', th', _, hj, hr, hl⟩
  · rw [he]; exact ⟨ho, rfl⟩
  · rw [hr, hl]; exact ⟨hj.1, hj.2.2⟩

/-- the committed root after one commit of a writer on tables `T`: every table
    of `T` advanced by one write, every other table untouched -/
def CommittedAll (root root' : List TableV) (T : List Nat) : Prop :=
  root'.length = root.length ∧ ∀ x, x < root.length →
    (x ∈ T → (getT root' x).cnt = (getT root x).cnt + 1) ∧ (x ∉ T → getT root' x = getT root x)

/-- **single instant**: a scheduler step leaves the committed root unchanged, or
    commits ALL tables of the stepping writer at once (and nothing else), or
    registers one new, empty table -/
theorem step_atomic (st : State) (cs : List Bool) (hsim : Sim st cs) (tid : Nat) :
    (step st tid).1.root = st.root ∨
    (∃ th, st.threads[tid]? = some th ∧ CommittedAll st.root (step st tid).1.root th.tables) ∨
    (∃ v : TableV, (step st tid).1.root = st.root ++ [v] ∧ v.cnt = 0) := by
  let T : List Nat := ((st.threads[tid]?).map (·.tables)).getD []
  let J : State × Thread → Prop := fun a =>
    a.2.tables = T ∧ (a.1.root = st.root ∨
      (Micro.act Act.storeRoot ∉ a.2.prog ∧
        (CommittedAll st.root a.1.root T ∨ ∃ v : TableV, a.1.root = st.root ++ [v] ∧ v.cnt = 0)))
  have hJ : ∀ a b, RunInv tid cs a → J a → mstep a.1 tid a.2 = some b → Effect a.1 b.1 tid a.2 b.2 → J b := by
    intro a b _ hja hms heff
    obtain ⟨jt, jr⟩ := hja
    obtain ⟨ht, hsub⟩ := mstep_tables_prog a.1 tid a.2 b.1 b.2 hms
    have keep : ∀ (h1 : b.1.root = a.1.root), J b := by
      intro h1
      refine ⟨by rw [ht]; exact jt, ?_⟩
      rcases jr with h | ⟨hn, h⟩
      · exact Or.inl (by rw [h1]; exact h)
      · exact Or.inr ⟨fun hm => hn (hsub _ hm), by rw [h1]; exact h⟩
    cases heff with
    | quiet h1 _ => exact keep h1
    | acquire tb h1 _ _ => exact keep h1
    | release tb h1 _ _ => exact keep h1
    | commit h1 h2 h3 h4 h5 =>
      refine ⟨by rw [ht]; exact jt, Or.inr ⟨h4, Or.inl ?_⟩⟩
      rcases jr with h | ⟨hn, _⟩
      · rw [h] at h2 h5
        rw [← jt]
        exact ⟨h2, fun x hx => ⟨fun hm => ((h5 x hx).1 hm).2, (h5 x hx).2⟩⟩
      · exact absurd h3 hn
    | register h1 h2 h3 h4 h5 =>
      refine ⟨by rw [ht]; exact jt, Or.inr ⟨h4, Or.inr ?_⟩⟩
      rcases jr with h | ⟨hn, _⟩
      · rw [h] at h5; exact h5
      · exact absurd h3 hn
  rcases step_with st cs tid hsim J hJ (fun th hth => ⟨by simp [T, hth], Or.inl rfl⟩) with
    he | ⟨th, st', th', hth, hj, hr, _⟩
  · rw [he]; exact Or.inl rfl
  · rw [hr]
    obtain ⟨_, h | ⟨_, h | h⟩⟩ := hj
    · exact Or.inl h
    · exact Or.inr (Or.inl ⟨th, hth, by simpa [T, hth] using h⟩)
    · exact Or.inr (Or.inr h)

end Sdb.Conc
