import SdbModel.Lemmas.ReconcilerStep

/-!
  Lemmas.ReconcilerRound — the steps of `Model.Reconciler` (commitOne,
  commitStatus, consume, processRetries, round, quiesce, advance) preserve the
  bookkeeping invariant.
-/
namespace Sdb.Rec


/-- one iteration of `commitStatus` -/
theorem InvL.commitOne {r : R} {res : Res} {rs : List Res} (h : InvL r (res :: rs)) : InvL (r.commitOne res) rs := by
  obtain ⟨obj, orig, rev, sid, failed⟩ := res
  unfold R.commitOne
  simp only
  cases hg : r.get obj.id with
  | none =>
    simp only
    rw [get_eq_none_iff] at hg
    exact h.drop_res (fun cur hcur hcid => absurd hcid (hg cur hcur))
  | some cur =>
    simp only
    rw [get_eq_some_iff h.tinv] at hg
    obtain ⟨hcur, hcid⟩ := hg
    by_cases hrev : cur.rev = rev
    · simp only [hrev, if_true]
      cases failed with
      | false =>
        simp only [Bool.false_eq_true, if_false]
        exact h.step_commit cur r.nextSid hcur hcid hrev
          { id := orig.id, obj := orig, rev := r.tableRev + 1, origRev := 0, delete := false, retryAt := 0, numRetries := 0, inQueue := true, inRevQueue := true }
          ⟨rfl, rfl, rfl, rfl, rfl⟩ rfl rfl rfl rfl rfl rfl rfl rfl rfl
      | true =>
        simp only [if_true]
        obtain ⟨n, hn⟩ := retryAdd_items ({ (r.setObj { obj with kind := .error, sid := r.nextSid }) with nextSid := r.nextSid + 1 }) orig (r.tableRev + 1) rev false
        exact h.step_commit cur r.nextSid hcur hcid hrev _ ⟨rfl, rfl, rfl, rfl, rfl⟩ rfl rfl rfl rfl rfl rfl hn rfl rfl
    · simp only [hrev, if_false]
      obtain ⟨_, _, hlive⟩ := h.resOK _ (List.mem_cons_self ..)
      have hk : ¬ (cur.kind = .pending ∧ cur.sid = sid) := by
        rintro ⟨hp, _⟩
        rcases hlive cur hcur hcid with a | ⟨_, a | a⟩
        · exact hrev a.1
        · rw [hp] at a; cases a
        · rw [hp] at a; cases a
      simp only [hk, if_false]
      refine h.drop_res (fun x hx hxid => ?_)
      have : x = cur := h.tinv.obj_eq hx hcur (by simp only at hxid; omega)
      rw [this]; exact hrev

/-- what the status commits may change -/
structure CommitRel (r r' : R) : Prop where
  itRev : r'.itRev = r.itRev
  itDelRev : r'.itDelRev = r.itDelRev
  refreshedAt : r'.refreshedAt = r.refreshedAt
  pending : r'.pending = r.pending
  numReconciled : r'.numReconciled = r.numReconciled
  cfg : r'.cfg = r.cfg
  now : r'.now = r.now
  failing : r'.failing = r.failing
  log : r'.log = r.log
  results : r'.results = r.results
  tableRev : r.tableRev ≤ r'.tableRev
  objs : ∀ o ∈ r'.objs, o ∈ r.objs ∨ (o.rev > r.tableRev ∧ ¬ needs o.kind)
  dels : ∀ d ∈ r'.dels, d ∈ r.dels

theorem CommitRel.refl (r : R) : CommitRel r r :=
  ⟨rfl, rfl, rfl, rfl, rfl, rfl, rfl, rfl, rfl, rfl, Nat.le_refl _, fun _ h => Or.inl h, fun _ h => h⟩

theorem CommitRel.trans {a b c : R} (h1 : CommitRel a b) (h2 : CommitRel b c) : CommitRel a c := by
  refine ⟨h2.itRev.trans h1.itRev, h2.itDelRev.trans h1.itDelRev, h2.refreshedAt.trans h1.refreshedAt,
    h2.pending.trans h1.pending, h2.numReconciled.trans h1.numReconciled, h2.cfg.trans h1.cfg, h2.now.trans h1.now,
    h2.failing.trans h1.failing, h2.log.trans h1.log, h2.results.trans h1.results, Nat.le_trans h1.tableRev h2.tableRev, ?_, fun d hd => h1.dels d (h2.dels d hd)⟩
  intro o ho
  rcases h2.objs o ho with ho | ⟨h3, h4⟩
  · exact h1.objs o ho
  · exact Or.inr ⟨by have := h1.tableRev; omega, h4⟩

theorem commitRel_setObj (r : R) (o : RObj) (hk : ¬ needs o.kind) (n : Nat) :
    CommitRel r { (r.setObj o) with nextSid := n } := by
  refine ⟨rfl, rfl, rfl, rfl, rfl, rfl, rfl, rfl, rfl, rfl, by simp, ?_, ?_⟩
  · intro x hx
    rcases (mem_setObj_objs r o x).1 hx with ⟨hx, _⟩ | rfl
    · exact Or.inl hx
    · exact Or.inr ⟨by simp, hk⟩
  · intro d hd
    exact (List.mem_filter.1 hd).1

theorem commitRel_retryAdd (r : R) (o : RObj) (a b : Nat) (d : Bool) : CommitRel r (r.retryAdd o a b d) :=
  ⟨rfl, rfl, rfl, rfl, rfl, rfl, rfl, rfl, rfl, rfl, Nat.le_refl _, fun _ h => Or.inl h, fun _ h => h⟩

theorem commitRel_commitOne (r : R) (res : Res) : CommitRel r (r.commitOne res) := by
  obtain ⟨obj, orig, rev, sid, failed⟩ := res
  unfold R.commitOne
  simp only
  have hke : ¬ needs SKind.error := by simp [needs]
  have hkd : ¬ needs SKind.done := by simp [needs]
  split
  · exact CommitRel.refl r
  · split
    · split
      · exact (commitRel_setObj r _ hke _).trans (commitRel_retryAdd ..)
      · exact commitRel_setObj r _ hkd _
    · split
      · split
        · exact (commitRel_setObj r _ hke _).trans (commitRel_retryAdd ..)
        · exact commitRel_setObj r _ hkd _
      · exact CommitRel.refl r

theorem commitRel_foldl (rs : List Res) (r : R) : CommitRel r (rs.foldl R.commitOne r) := by
  induction rs generalizing r with
  | nil => exact CommitRel.refl r
  | cons x xs ih => exact (commitRel_commitOne r x).trans (ih _)

theorem InvL.foldl_commitOne (rs : List Res) {r : R} (h : InvL r rs) : InvL (rs.foldl R.commitOne r) [] := by
  induction rs generalizing r with
  | nil => exact h
  | cons x xs ih => exact ih h.commitOne

/-- `commitStatus` -/
theorem InvL.commitStatus {r : R} (h : InvL r r.results) : InvL r.commitStatus [] :=
  (h.foldl_commitOne r.results).congr rfl rfl rfl rfl rfl rfl rfl rfl rfl

/-- `commitStatus`, frame (the `results` are emptied) -/
theorem commitStatus_rel (r : R) : ∃ r', CommitRel r r' ∧ r.commitStatus = { r' with results := [] } :=
  ⟨_, commitRel_foldl r.results r, rfl⟩


/-! ## the time queue -/

abbrev qle (a b : Item) : Bool := a.retryAt ≤ b.retryAt

theorem mem_insertBy (lt : Item → Item → Bool) (x a : Item) (l : List Item) : x ∈ insertBy lt a l ↔ x = a ∨ x ∈ l := by
  induction l with
  | nil => simp [insertBy]
  | cons y ys ih =>
    unfold insertBy
    split
    · simp
    · simp only [List.mem_cons, ih]; grind

theorem mem_foldr_insertBy (lt : Item → Item → Bool) (x : Item) (l : List Item) : x ∈ l.foldr (insertBy lt) [] ↔ x ∈ l := by
  induction l with
  | nil => simp
  | cons c cs ih => simp [List.foldr_cons, mem_insertBy, ih]

theorem sorted_insertBy (a : Item) (l : List Item) (h : l.Pairwise (fun x y => x.retryAt ≤ y.retryAt)) :
    (insertBy qle a l).Pairwise (fun x y => x.retryAt ≤ y.retryAt) := by
  induction l with
  | nil => simp [insertBy]
  | cons y ys ih =>
    rw [List.pairwise_cons] at h
    unfold insertBy
    split
    · rename_i hle
      simp only [qle, decide_eq_true_eq] at hle
      rw [List.pairwise_cons]
      refine ⟨fun z hz => ?_, List.pairwise_cons.2 h⟩
      rcases List.mem_cons.1 hz with rfl | hz
      · exact hle
      · have := h.1 z hz; omega
    · rename_i hle
      simp only [qle, decide_eq_true_eq] at hle
      rw [List.pairwise_cons]
      refine ⟨fun z hz => ?_, ih h.2⟩
      rcases (mem_insertBy ..).1 hz with rfl | hz
      · omega
      · exact h.1 z hz

theorem sorted_queue (l : List Item) : (l.foldr (insertBy qle) []).Pairwise (fun x y => x.retryAt ≤ y.retryAt) := by
  induction l with
  | nil => simp
  | cons c cs ih => exact sorted_insertBy c _ ih

theorem mem_queue (r : R) (x : Item) : x ∈ r.queue ↔ x ∈ r.items ∧ x.inQueue = true := by
  unfold R.queue
  rw [mem_foldr_insertBy, List.mem_filter]

theorem head_spec {r : R} {h : Item} (hh : r.head = some h) :
    h ∈ r.items ∧ h.inQueue = true ∧ ∀ i ∈ r.items, i.inQueue = true → h.retryAt ≤ i.retryAt := by
  unfold R.head at hh
  have hs : r.queue.Pairwise (fun x y => x.retryAt ≤ y.retryAt) := sorted_queue _
  cases hq : r.queue with
  | nil => rw [hq] at hh; cases hh
  | cons a as =>
    rw [hq] at hh hs
    simp only [List.head?_cons, Option.some.injEq] at hh
    subst hh
    have hm : a ∈ r.queue := by rw [hq]; exact List.mem_cons_self ..
    rw [mem_queue] at hm
    refine ⟨hm.1, hm.2, fun i hi hiq => ?_⟩
    have : i ∈ r.queue := (mem_queue r i).2 ⟨hi, hiq⟩
    rw [hq] at this
    rcases List.mem_cons.1 this with rfl | hi'
    · exact Nat.le_refl _
    · exact (List.pairwise_cons.1 hs).1 i hi'

theorem head_none_iff (r : R) : r.head = none ↔ ∀ i ∈ r.items, i.inQueue = false := by
  unfold R.head
  rw [List.head?_eq_none_iff]
  constructor
  · intro hq i hi
    cases hiq : i.inQueue with
    | false => rfl
    | true =>
      have : i ∈ r.queue := (mem_queue r i).2 ⟨hi, hiq⟩
      rw [hq] at this; cases this
  · intro hall
    cases hq : r.queue with
    | nil => rfl
    | cons a as =>
      have hm : a ∈ r.queue := by rw [hq]; exact List.mem_cons_self ..
      rw [mem_queue] at hm
      have := hall a hm.1
      rw [hm.2] at this; cases this


theorem processSingle_update {r : R} (hinj : r.injects = []) (obj : RObj) (rev : Nat) :
    r.processSingle obj rev false =
      if r.isFailing obj.id then
        { r with log := r.log ++ [⟨"U", obj.id, obj.data, false⟩], results := r.results ++ [(obj, obj, rev, obj.sid, true)] }
      else
        R.retryClear { r with log := r.log ++ [⟨"U", obj.id, obj.data, true⟩], results := r.results ++ [(obj, obj, rev, obj.sid, false)] } obj.id := by
  unfold R.processSingle
  simp only [Bool.false_eq_true, if_false, hinj, List.filter_nil, List.foldl_nil]
  cases hf : r.isFailing obj.id
  · simp only [Bool.false_eq_true, if_false, Bool.not_false]
  · simp only [if_true, Bool.not_true]

theorem processSingle_delete (r : R) (obj : RObj) (rev : Nat) :
    r.processSingle obj rev true =
      if r.isFailing obj.id then
        R.retryAdd { r with log := r.log ++ [⟨"D", obj.id, obj.data, false⟩] } obj rev rev true
      else
        R.retryClear { r with log := r.log ++ [⟨"D", obj.id, obj.data, true⟩] } obj.id := by
  unfold R.processSingle
  simp only [if_true]
  cases hf : r.isFailing obj.id <;> simp

theorem filter_map_pop (l : List Item) (X : Nat) :
    (l.map fun (i : Item) => if i.id = X then { i with inQueue := false } else i).filter (·.id ≠ X) = l.filter (·.id ≠ X) := by
  induction l with
  | nil => rfl
  | cons a as ih =>
    simp only [List.map_cons, List.filter_cons]
    simp only [ne_eq, decide_not] at ih
    by_cases ha : a.id = X
    · simp [ha, ih]
    · simp [ha, ih]

theorem retryAdd_items' (r : R) (o : RObj) (a b : Nat) (d : Bool) :
    ∃ itn : Item, (r.retryAdd o a b d).items = r.items.filter (·.id ≠ o.id) ++ [itn] ∧
      itn.id = o.id ∧ itn.obj = o ∧ itn.rev = a ∧
      itn.origRev = (match r.items.find? (·.id = o.id) with | some i => i.origRev | none => b) ∧
      itn.delete = d ∧ itn.inQueue = true ∧
      itn.retryAt ≤ r.now + r.cfg.maxB := by
  refine ⟨_, rfl, rfl, rfl, rfl, rfl, rfl, rfl, ?_⟩
  simp only
  have : ∀ n, backoff r.cfg.minB r.cfg.maxB n ≤ r.cfg.maxB := by
    intro n; unfold backoff; simp only; split <;> omega
  exact Nat.add_le_add_left (this _) _

@[simp] theorem isFailing_retryPop (r : R) (id : Nat) : r.retryPop.isFailing id = r.isFailing id := by
  unfold R.isFailing; rw [retryPop_failing]

theorem CaughtUp.congr {r r' : R} (h : CaughtUp r) (h1 : r'.objs = r.objs) (h2 : r'.dels = r.dels)
    (h4 : r'.itRev = r.itRev) (h5 : r'.itDelRev = r.itDelRev) : CaughtUp r' := by
  unfold CaughtUp; rw [h1, h2, h4, h5]; exact h

/-- a due retry of a Delete -/
theorem InvL.retry_delete {r : R} {rs : List Res} (h : InvL r rs) (hc : CaughtUp r) (it0 : Item) (hh : r.head = some it0)
    (hdel : it0.delete = true) : InvL (r.retryPop.processSingle it0.obj it0.rev true) rs := by
  obtain ⟨hit0, hq0, _⟩ := head_spec hh
  obtain ⟨hobj, hcase, _⟩ := h.itemOK it0 hit0
  obtain ⟨d, hd, hdid⟩ : ∃ d ∈ r.dels, d.1.id = it0.id := by
    rcases hcase with a | a | a
    · exact absurd a (hc.not_stale _)
    · exact a.2
    · rw [hdel] at a; cases a.1
  have hle := hc.2 d hd
  have hitems : ∀ X, X = it0.id → r.retryPop.items.filter (·.id ≠ X) = r.items.filter (·.id ≠ X) := by
    intro X hX
    rw [retryPop_items r it0 hh, hX]; exact filter_map_pop _ _
  rw [processSingle_delete]
  simp only [isFailing_retryPop]
  split
  · rename_i hf
    obtain ⟨itn, hn, n1, n2, n3, n4, n5, n6, _⟩ := retryAdd_items' { r.retryPop with log := r.retryPop.log ++ [⟨"D", it0.obj.id, it0.obj.data, false⟩] } it0.obj it0.rev it0.rev true
    refine h.step_delete d true r.itDelRev ⟨"D", it0.obj.id, it0.obj.data, false⟩ [itn] hd hle h.tinv.itd_le (fun x _ hx => Or.inr hx)
      ⟨by simp only; omega, rfl, rfl⟩ ?_ (by simp) (by simp) (by simp) (by simp) (by simp) (by simp) (by simp) (by simp) (by simp) ?_ (by simp) (by simp)
    · intro it hit
      simp only [List.mem_singleton] at hit
      subst hit
      exact ⟨by omega, by rw [n2]; omega, n5, n6⟩
    rw [hn]
    simp only
    rw [hitems _ hobj, hdid, hobj]
  · refine h.step_delete d false r.itDelRev ⟨"D", it0.obj.id, it0.obj.data, true⟩ [] hd hle h.tinv.itd_le (fun x _ hx => Or.inr hx)
      ⟨by simp only; omega, rfl, rfl⟩ (by simp) (by simp) (by simp) (by simp) (by simp) (by simp) (by simp) (by simp) (by simp) (by simp) ?_ (by simp) (by simp)
    rw [retryClear_items, List.append_nil]
    simp only
    rw [hitems _ hobj, hdid, hobj]

theorem InvL.cast_results {x : R} {A : List Res} (e : x.results = A) (hx : InvL x A) : InvL x x.results := by
  rw [e]; exact hx

theorem items_eq_of_id {r : R} {rs : List Res} (h : InvL r rs) {a b : Item} (ha : a ∈ r.items) (hb : b ∈ r.items) (hid : a.id = b.id) : a = b := by
  rcases pairwise_mem_eq h.items_pw ha hb with e | e | e
  · exact e
  · exact absurd hid e
  · exact absurd hid.symm e

/-- a due retry of an Update -/
theorem InvL.retry_update {r : R} (h : InvL r r.results) (hc : CaughtUp r) (it0 : Item) (hh : r.head = some it0)
    (hdel : it0.delete = false) :
    InvL (r.retryPop.processSingle it0.obj it0.rev false) (r.retryPop.processSingle it0.obj it0.rev false).results := by
  obtain ⟨hit0, hq0, _⟩ := head_spec hh
  obtain ⟨hobj, hcase, _⟩ := h.itemOK it0 hit0
  obtain ⟨o, ho, hoid, hok, hor⟩ : ∃ o ∈ r.objs, o.id = it0.id ∧ o.kind = .error ∧ o.rev = it0.rev := by
    rcases hcase with a | a | a
    · exact absurd a (hc.not_stale _)
    · rw [hdel] at a; cases a.1
    · exact a.2
  have hpop := retryPop_items r it0 hh
  have hinj : r.retryPop.injects = [] := by rw [retryPop_injects]; exact h.noinj
  rw [processSingle_update hinj]
  simp only [isFailing_retryPop]
  split
  · refine InvL.cast_results (A := r.results ++ [(it0.obj, it0.obj, it0.rev, it0.obj.sid, true)]) (by simp) ?_
    refine h.step_retry_update it0 o true hit0 hq0 hdel ho hoid hok hor ?_ ?_ ?_ (by simp) (by simp) (by simp) (by simp) (by simp) (by simp) (by simp) (by simp)
    · intro it hit
      simp only [hpop, List.mem_map] at hit
      obtain ⟨i, hi, rfl⟩ := hit
      by_cases hid : i.id = it0.id
      · right
        rw [items_eq_of_id h hi hit0 hid]; simp
      · left; simp [hid, hi]
    · intro it hit hid
      simp only [hpop, List.mem_map]
      exact ⟨it, hit, by simp [hid]⟩
    · simp only [hpop]
      rw [List.pairwise_map]
      refine h.items_pw.imp ?_
      intro a b hab
      split <;> split <;> simpa using hab
  · refine InvL.cast_results (A := r.results ++ [(it0.obj, it0.obj, it0.rev, it0.obj.sid, false)]) (by simp) ?_
    generalize hx : R.retryClear _ it0.obj.id = x
    have hitems : x.items = r.items.filter (·.id ≠ it0.id) := by
      rw [← hx, retryClear_items]; simp only; rw [hpop, hobj]; exact filter_map_pop _ _
    have hfr : x.objs = r.objs ∧ x.dels = r.dels ∧ x.tableRev = r.tableRev ∧ x.itRev = r.itRev ∧ x.itDelRev = r.itDelRev ∧
        x.refreshedAt = r.refreshedAt ∧ x.log = r.log ++ [⟨"U", it0.obj.id, it0.obj.data, !false⟩] ∧ x.injects = r.injects := by
      rw [← hx]; simp
    obtain ⟨f1, f2, f3, f4, f5, f6, f7, f8⟩ := hfr
    refine h.step_retry_update it0 o false hit0 hq0 hdel ho hoid hok hor ?_ ?_ ?_ f1 f2 f3 f4 f5 f6 f7 f8
    · intro it hit
      rw [hitems] at hit
      left
      simpa using hit
    · intro it hit hid
      rw [hitems]
      simp [hit, hid]
    · rw [hitems]; exact h.items_pw.filter _


/-- the steps that do not write to the table nor move the iterator -/
structure FrameT (r r' : R) : Prop where
  objs : r'.objs = r.objs
  dels : r'.dels = r.dels
  tableRev : r'.tableRev = r.tableRev
  itRev : r'.itRev = r.itRev
  itDelRev : r'.itDelRev = r.itDelRev
  refreshedAt : r'.refreshedAt = r.refreshedAt
  pending : r'.pending = r.pending
  cfg : r'.cfg = r.cfg
  now : r'.now = r.now
  failing : r'.failing = r.failing
  injects : r'.injects = r.injects

theorem FrameT.refl (r : R) : FrameT r r := ⟨rfl, rfl, rfl, rfl, rfl, rfl, rfl, rfl, rfl, rfl, rfl⟩

theorem FrameT.trans {a b c : R} (h1 : FrameT a b) (h2 : FrameT b c) : FrameT a c :=
  ⟨h2.objs.trans h1.objs, h2.dels.trans h1.dels, h2.tableRev.trans h1.tableRev, h2.itRev.trans h1.itRev,
   h2.itDelRev.trans h1.itDelRev, h2.refreshedAt.trans h1.refreshedAt, h2.pending.trans h1.pending, h2.cfg.trans h1.cfg,
   h2.now.trans h1.now, h2.failing.trans h1.failing, h2.injects.trans h1.injects⟩

theorem frameT_retryPop (r : R) : FrameT r r.retryPop := by constructor <;> simp
theorem frameT_retryClear (r : R) (id : Nat) : FrameT r (r.retryClear id) := by constructor <;> simp
theorem frameT_retryAdd (r : R) (o : RObj) (a b : Nat) (d : Bool) : FrameT r (r.retryAdd o a b d) := by constructor <;> rfl

theorem frameT_processSingle {r : R} (hinj : r.injects = []) (obj : RObj) (rev : Nat) (del : Bool) :
    FrameT r (r.processSingle obj rev del) ∧ (r.processSingle obj rev del).numReconciled = r.numReconciled := by
  cases del with
  | false =>
    rw [processSingle_update hinj]
    split
    · exact ⟨⟨rfl, rfl, rfl, rfl, rfl, rfl, rfl, rfl, rfl, rfl, rfl⟩, rfl⟩
    · exact ⟨by constructor <;> simp, by simp⟩
  | true =>
    rw [processSingle_delete]
    split
    · exact ⟨⟨rfl, rfl, rfl, rfl, rfl, rfl, rfl, rfl, rfl, rfl, rfl⟩, rfl⟩
    · exact ⟨by constructor <;> simp, by simp⟩

theorem FrameT.caughtUp {r r' : R} (h : FrameT r r') (hc : CaughtUp r) : CaughtUp r' :=
  hc.congr h.objs h.dels h.itRev h.itDelRev

/-- `processRetries` preserves the invariant; it acts only when the round's
    change stream was consumed completely -/
theorem InvL.processRetries (fuel : Nat) {r : R} (h : InvL r r.results)
    (hc : r.numReconciled < r.cfg.roundSize → CaughtUp r) :
    InvL (r.processRetries fuel) (r.processRetries fuel).results ∧ FrameT r (r.processRetries fuel) := by
  induction fuel generalizing r with
  | zero => exact ⟨h, FrameT.refl r⟩
  | succ n ih =>
    unfold R.processRetries
    split
    · exact ⟨h, FrameT.refl r⟩
    · rename_i hlt
      have hcu := hc (by omega)
      split
      · exact ⟨h, FrameT.refl r⟩
      · rename_i it0 hh
        split
        · exact ⟨h, FrameT.refl r⟩
        · have hinj : r.retryPop.injects = [] := by rw [retryPop_injects]; exact h.noinj
          obtain ⟨hfr, hnum⟩ := frameT_processSingle hinj it0.obj it0.rev it0.delete
          have hfr' := (frameT_retryPop r).trans hfr
          have hI : InvL (r.retryPop.processSingle it0.obj it0.rev it0.delete) (r.retryPop.processSingle it0.obj it0.rev it0.delete).results := by
            cases hdel : it0.delete with
            | false => exact h.retry_update hcu it0 hh hdel
            | true =>
              refine InvL.cast_results (A := r.results) ?_ (h.retry_delete hcu it0 hh hdel)
              rw [processSingle_delete]; split <;> simp
          have := ih (r := { (r.retryPop.processSingle it0.obj it0.rev it0.delete) with
              numReconciled := (r.retryPop.processSingle it0.obj it0.rev it0.delete).numReconciled + 1 })
            (hI.congr rfl rfl rfl rfl rfl rfl rfl rfl rfl) (fun _ => (hfr'.caughtUp hcu).congr rfl rfl rfl rfl)
          have hmid : FrameT r { (r.retryPop.processSingle it0.obj it0.rev it0.delete) with
              numReconciled := (r.retryPop.processSingle it0.obj it0.rev it0.delete).numReconciled + 1 } :=
            ⟨hfr'.1, hfr'.2, hfr'.3, hfr'.4, hfr'.5, hfr'.6, hfr'.7, hfr'.8, hfr'.9, hfr'.10, hfr'.11⟩
          exact ⟨this.1, hmid.trans this.2⟩


/-- the remaining changes `cs` of the round's change stream, relative to the table and the iterator -/
structure ChOK (r : R) (rs : List Res) (cs : List Change) : Prop where
  upd : ∀ c ∈ cs, c.deleted = false → c.obj ∈ r.objs ∧ c.rev = c.obj.rev ∧ c.rev > r.itRev
  del : ∀ c ∈ cs, c.deleted = true → (c.obj, c.rev) ∈ r.dels ∧ c.rev > r.itDelRev
  sorted : cs.Pairwise (fun a b => a.deleted = b.deleted → a.rev < b.rev)
  covO : ∀ o ∈ r.objs, o.rev ≤ r.itRev ∨ ∃ c ∈ cs, c.deleted = false ∧ c.obj = o
  covD : ∀ d ∈ r.dels, d.2 ≤ r.itDelRev ∨ ∃ c ∈ cs, c.deleted = true ∧ (c.obj, c.rev) = d
  below : ∀ res ∈ rs, res.2.2.1 ≤ r.itRev

theorem ChOK.lt_upd {r : R} {rs : List Res} {c : Change} {cs : List Change} (h : ChOK r rs (c :: cs)) (hc : c.deleted = false) :
    ∀ x ∈ r.objs, x.rev > r.itRev → x = c.obj ∨ x.rev > c.rev := by
  intro x hx hgt
  rcases h.covO x hx with a | ⟨c', hc', hd', rfl⟩
  · omega
  · rcases List.mem_cons.1 hc' with rfl | hc'
    · exact Or.inl rfl
    · right
      have := (List.pairwise_cons.1 h.sorted).1 c' hc' (by rw [hc, hd'])
      rw [← (h.upd c' (List.mem_cons_of_mem _ hc') hd').2.1]; exact this

theorem ChOK.lt_del {r : R} {rs : List Res} {c : Change} {cs : List Change} (h : ChOK r rs (c :: cs)) (hc : c.deleted = true) :
    ∀ x ∈ r.dels, x.2 > r.itDelRev → x = (c.obj, c.rev) ∨ x.2 > c.rev := by
  intro x hx hgt
  rcases h.covD x hx with a | ⟨c', hc', hd', rfl⟩
  · omega
  · rcases List.mem_cons.1 hc' with rfl | hc'
    · exact Or.inl rfl
    · right
      exact (List.pairwise_cons.1 h.sorted).1 c' hc' (by rw [hc, hd'])

/-- after a live-object change has been passed -/
theorem ChOK.tail_upd {r r' : R} {rs rs' : List Res} {c : Change} {cs : List Change} (h : ChOK r rs (c :: cs)) (hc : c.deleted = false)
    (h1 : r'.objs = r.objs) (h2 : r'.dels = r.dels) (h4 : r'.itRev = c.rev) (h5 : r'.itDelRev = r.itDelRev)
    (hrs : ∀ res ∈ rs', res ∈ rs ∨ res.2.2.1 = c.rev) : ChOK r' rs' cs := by
  have hcgt := (h.upd c (List.mem_cons_self ..) hc).2.2
  have hs := List.pairwise_cons.1 h.sorted
  refine ⟨?_, ?_, hs.2, ?_, ?_, ?_⟩
  · intro c' hc' hd'
    obtain ⟨a, b, _⟩ := h.upd c' (List.mem_cons_of_mem _ hc') hd'
    rw [h1, h4]
    exact ⟨a, b, hs.1 c' hc' (by rw [hc, hd'])⟩
  · intro c' hc' hd'
    rw [h2, h5]
    exact h.del c' (List.mem_cons_of_mem _ hc') hd'
  · rw [h1, h4]
    intro o ho
    rcases h.covO o ho with a | ⟨c', hc', hd', rfl⟩
    · left; omega
    · rcases List.mem_cons.1 hc' with rfl | hc'
      · left; rw [(h.upd c' (List.mem_cons_self ..) hc).2.1]; exact Nat.le_refl _
      · exact Or.inr ⟨c', hc', hd', rfl⟩
  · rw [h2, h5]
    intro d hd
    rcases h.covD d hd with a | ⟨c', hc', hd', rfl⟩
    · exact Or.inl a
    · rcases List.mem_cons.1 hc' with rfl | hc'
      · rw [hc] at hd'; cases hd'
      · exact Or.inr ⟨c', hc', hd', rfl⟩
  · rw [h4]
    intro res hres
    rcases hrs res hres with a | a
    · have := h.below res a; omega
    · omega

/-- after a deletion has been passed -/
theorem ChOK.tail_del {r r' : R} {rs : List Res} {c : Change} {cs : List Change} (h : ChOK r rs (c :: cs)) (hc : c.deleted = true)
    (h1 : r'.objs = r.objs) (h2 : r'.dels = r.dels) (h4 : r'.itRev = r.itRev) (h5 : r'.itDelRev = c.rev) : ChOK r' rs cs := by
  have hcgt := (h.del c (List.mem_cons_self ..) hc).2
  have hs := List.pairwise_cons.1 h.sorted
  refine ⟨?_, ?_, hs.2, ?_, ?_, ?_⟩
  · intro c' hc' hd'
    rw [h1, h4]
    exact h.upd c' (List.mem_cons_of_mem _ hc') hd'
  · intro c' hc' hd'
    obtain ⟨a, _⟩ := h.del c' (List.mem_cons_of_mem _ hc') hd'
    rw [h2, h5]
    exact ⟨a, hs.1 c' hc' (by rw [hc, hd'])⟩
  · rw [h1, h4]
    intro o ho
    rcases h.covO o ho with a | ⟨c', hc', hd', rfl⟩
    · exact Or.inl a
    · rcases List.mem_cons.1 hc' with rfl | hc'
      · rw [hc] at hd'; cases hd'
      · exact Or.inr ⟨c', hc', hd', rfl⟩
  · rw [h2, h5]
    intro d hd
    rcases h.covD d hd with a | ⟨c', hc', hd', rfl⟩
    · left; omega
    · rcases List.mem_cons.1 hc' with rfl | hc'
      · left; exact Nat.le_refl _
      · exact Or.inr ⟨c', hc', hd', rfl⟩
  · rw [h4]; exact h.below

/-- what `consume` leaves alone -/
structure FrameC (r r' : R) : Prop where
  objs : r'.objs = r.objs
  dels : r'.dels = r.dels
  tableRev : r'.tableRev = r.tableRev
  refreshedAt : r'.refreshedAt = r.refreshedAt
  pending : r'.pending = r.pending
  cfg : r'.cfg = r.cfg
  now : r'.now = r.now
  failing : r'.failing = r.failing
  injects : r'.injects = r.injects

theorem FrameC.refl (r : R) : FrameC r r := ⟨rfl, rfl, rfl, rfl, rfl, rfl, rfl, rfl, rfl⟩

theorem FrameC.trans {a b c : R} (h1 : FrameC a b) (h2 : FrameC b c) : FrameC a c :=
  ⟨h2.objs.trans h1.objs, h2.dels.trans h1.dels, h2.tableRev.trans h1.tableRev,
   h2.refreshedAt.trans h1.refreshedAt, h2.pending.trans h1.pending, h2.cfg.trans h1.cfg,
   h2.now.trans h1.now, h2.failing.trans h1.failing, h2.injects.trans h1.injects⟩

theorem filter_filter_id (l : List Item) (X : Nat) : (l.filter (·.id ≠ X)).filter (·.id ≠ X) = l.filter (·.id ≠ X) := by
  rw [List.filter_filter]; simp

/-- `consume` processes a changed live object -/
theorem InvL.consume_upd {r : R} {c : Change} {cs : List Change} (h : InvL r r.results) (hch : ChOK r r.results (c :: cs))
    (hc : c.deleted = false) (hn : needs c.obj.kind) :
    let r' := (R.retryClear { r with itRev := c.rev } c.obj.id).processSingle c.obj c.rev false
    InvL r' r'.results ∧ ChOK r' r'.results cs ∧ FrameC r r' ∧ r'.numReconciled = r.numReconciled := by
  intro r'
  obtain ⟨ho, hrev, hgt⟩ := hch.upd c (List.mem_cons_self ..) hc
  have hinj : (R.retryClear { r with itRev := c.rev } c.obj.id).injects = [] := by rw [retryClear_injects]; exact h.noinj
  have hr' : r' = (R.retryClear { r with itRev := c.rev } c.obj.id).processSingle c.obj c.rev false := rfl
  rw [processSingle_update hinj] at hr'
  have hfail : (R.retryClear { r with itRev := c.rev } c.obj.id).isFailing c.obj.id = r.isFailing c.obj.id := by
    unfold R.isFailing; rw [retryClear_failing]
  rw [hfail] at hr'
  have hfacts : r'.objs = r.objs ∧ r'.dels = r.dels ∧ r'.tableRev = r.tableRev ∧ r'.itRev = c.obj.rev ∧ r'.itDelRev = r.itDelRev ∧
      r'.refreshedAt = r.refreshedAt ∧ r'.items = r.items.filter (·.id ≠ c.obj.id) ∧
      r'.log = r.log ++ [⟨"U", c.obj.id, c.obj.data, !(r.isFailing c.obj.id)⟩] ∧ r'.injects = r.injects ∧
      r'.results = r.results ++ [(c.obj, c.obj, c.obj.rev, c.obj.sid, r.isFailing c.obj.id)] ∧
      r'.pending = r.pending ∧ r'.cfg = r.cfg ∧ r'.now = r.now ∧ r'.failing = r.failing ∧ r'.numReconciled = r.numReconciled := by
    rw [hr']
    cases r.isFailing c.obj.id
    · simp [retryClear_items, hrev]
    · simp [retryClear_items, hrev]
  obtain ⟨f1, f2, f3, f4, f5, f6, f7, f8, f9, f10, f11, f12, f13, f14, f15⟩ := hfacts
  refine ⟨?_, ?_, ⟨f1, f2, f3, f6, f11, f12, f13, f14, f9⟩, f15⟩
  · rw [f10]
    refine h.step_update c.obj (r.isFailing c.obj.id) ho hn (by omega) hch.below ?_ f1 f2 f3 f4 f5 f6 f7 f8 f9
    intro x hx _ hxgt
    rcases hch.lt_upd hc x hx hxgt with a | a
    · exact Or.inl a
    · exact Or.inr (by omega)
  · refine hch.tail_upd hc f1 f2 (by omega) f5 ?_
    rw [f10]
    intro res hres
    rcases List.mem_append.1 hres with a | a
    · exact Or.inl a
    · simp only [List.mem_singleton] at a
      rw [a]; exact Or.inr hrev.symm

/-- `consume` processes a deletion -/
theorem InvL.consume_del {r : R} {c : Change} {cs : List Change} (h : InvL r r.results) (hch : ChOK r r.results (c :: cs))
    (hc : c.deleted = true) :
    let r' := (R.retryClear { r with itDelRev := c.rev } c.obj.id).processSingle c.obj c.rev true
    InvL r' r'.results ∧ ChOK r' r'.results cs ∧ FrameC r r' ∧ r'.numReconciled = r.numReconciled := by
  intro r'
  obtain ⟨hd, hgt⟩ := hch.del c (List.mem_cons_self ..) hc
  have hr' : r' = (R.retryClear { r with itDelRev := c.rev } c.obj.id).processSingle c.obj c.rev true := rfl
  rw [processSingle_delete] at hr'
  have hfail : (R.retryClear { r with itDelRev := c.rev } c.obj.id).isFailing c.obj.id = r.isFailing c.obj.id := by
    unfold R.isFailing; rw [retryClear_failing]
  rw [hfail] at hr'
  have hfacts : r'.objs = r.objs ∧ r'.dels = r.dels ∧ r'.tableRev = r.tableRev ∧ r'.itRev = r.itRev ∧ r'.itDelRev = c.rev ∧
      r'.refreshedAt = r.refreshedAt ∧
      r'.log = r.log ++ [⟨"D", c.obj.id, c.obj.data, !(r.isFailing c.obj.id)⟩] ∧ r'.injects = r.injects ∧
      r'.results = r.results ∧
      r'.pending = r.pending ∧ r'.cfg = r.cfg ∧ r'.now = r.now ∧ r'.failing = r.failing ∧ r'.numReconciled = r.numReconciled := by
    rw [hr']
    cases r.isFailing c.obj.id <;> simp
  obtain ⟨f1, f2, f3, f4, f5, f6, f8, f9, f10, f11, f12, f13, f14, f15⟩ := hfacts
  have hitems : ∃ tail : List Item, r'.items = r.items.filter (·.id ≠ c.obj.id) ++ tail ∧
      (∀ it ∈ tail, it.id = c.obj.id ∧ it.obj.id = c.obj.id ∧ it.delete = true ∧ it.inQueue = true) ∧
      tail.Pairwise (fun a b => a.id ≠ b.id) ∧ (r.isFailing c.obj.id = true → tail ≠ []) ∧ (r.isFailing c.obj.id = false → tail = []) := by
    rw [hr']
    cases hf : r.isFailing c.obj.id
    · refine ⟨[], ?_, by simp, by simp, by simp, by simp⟩
      simp [retryClear_items]
    · obtain ⟨itn, hn, n1, n2, n3, n4, n5, n6, _⟩ := retryAdd_items'
        { (R.retryClear { r with itDelRev := c.rev } c.obj.id) with
          log := (R.retryClear { r with itDelRev := c.rev } c.obj.id).log ++ [⟨"D", c.obj.id, c.obj.data, false⟩] } c.obj c.rev c.rev true
      refine ⟨[itn], ?_, ?_, by simp, by simp, by simp⟩
      · simp only [if_true]
        rw [hn]
        simp [retryClear_items]
      · intro it hit
        simp only [List.mem_singleton] at hit
        rw [hit]
        exact ⟨n1, by rw [n2], n5, n6⟩
  obtain ⟨tail, f7, t1, t2, t3, t4⟩ := hitems
  refine ⟨?_, ?_, ⟨f1, f2, f3, f6, f11, f12, f13, f14, f9⟩, f15⟩
  · rw [f10]
    refine h.step_delete (c.obj, c.rev) (r.isFailing c.obj.id) c.rev _ tail hd (Nat.le_refl _) (h.tinv.dels_le _ hd) ?_
      ⟨rfl, rfl, rfl⟩ t1 t2 t3 t4 f1 f2 f3 f4 f5 f6 f7 f8 f9
    intro x hx hxgt
    exact hch.lt_del hc x hx hxgt
  · rw [f10]
    exact hch.tail_del hc f1 f2 f4 f5

/-- the loop over the change stream -/
theorem InvL.consume (cs : List Change) {r : R} (last : Nat) (h : InvL r r.results) (hch : ChOK r r.results cs) :
    InvL (r.consume cs last).1 (r.consume cs last).1.results ∧
    ChOK (r.consume cs last).1 (r.consume cs last).1.results (r.consume cs last).2.1 ∧
    FrameC r (r.consume cs last).1 ∧
    ((r.consume cs last).1.numReconciled < (r.consume cs last).1.cfg.roundSize → (r.consume cs last).2.1 = []) := by
  induction cs generalizing r last with
  | nil => exact ⟨h, hch, FrameC.refl r, fun _ => rfl⟩
  | cons c cs ih =>
    unfold R.consume
    simp only
    split
    · -- skipped
      rename_i hskip
      have hc : c.deleted = false := by simpa using hskip.1
      have hnn : ¬ needs c.obj.kind := by simpa [needs] using hskip.2
      simp only [hc, Bool.false_eq_true, if_false]
      obtain ⟨ho, hrev, hgt⟩ := hch.upd c (List.mem_cons_self ..) hc
      have h' : InvL { r with itRev := c.rev } r.results := by
        refine h.step_skip c.obj ho ?_ rfl rfl rfl hrev rfl rfl rfl rfl rfl
        intro x hx hxn hxgt
        rcases hch.lt_upd hc x hx hxgt with a | a
        · rw [a] at hxn; exact absurd hxn hnn
        · omega
      have hch' : ChOK { r with itRev := c.rev } r.results cs :=
        hch.tail_upd hc rfl rfl rfl rfl (fun res hres => Or.inl hres)
      obtain ⟨a, b, c', d⟩ := ih c.rev (r := { r with itRev := c.rev }) h' hch'
      have e1 : FrameC r { r with itRev := c.rev } := ⟨rfl, rfl, rfl, rfl, rfl, rfl, rfl, rfl, rfl⟩
      exact ⟨a, b, e1.trans c', d⟩
    · rename_i hproc
      -- the state after processing `c`
      have hstep : ∃ r1, r1 = ((if c.deleted = true then { r with itDelRev := c.rev } else { r with itRev := c.rev } : R).retryClear c.obj.id).processSingle c.obj c.rev c.deleted ∧
          InvL r1 r1.results ∧ ChOK r1 r1.results cs ∧ FrameC r r1 := by
        refine ⟨_, rfl, ?_⟩
        cases hc : c.deleted with
        | true =>
          simp only [if_true]
          obtain ⟨a, b, c', _⟩ := h.consume_del hch hc
          exact ⟨a, b, c'⟩
        | false =>
          have hn : needs c.obj.kind := by
            rw [hc] at hproc
            simp only [Bool.not_false, true_and, Bool.not_eq_eq_eq_not, Bool.not_true, decide_eq_false_iff_not] at hproc
            exact Classical.not_not.1 hproc
          simp only [Bool.false_eq_true, if_false]
          obtain ⟨a, b, c', _⟩ := h.consume_upd hch hc hn
          exact ⟨a, b, c'⟩
      obtain ⟨r1, hr1, hI, hC, hF⟩ := hstep
      rw [← hr1]
      split
      · rename_i hfull
        refine ⟨hI.congr rfl rfl rfl rfl rfl rfl rfl rfl rfl, ⟨hC.upd, hC.del, hC.sorted, hC.covO, hC.covD, hC.below⟩, ?_, ?_⟩
        · have e1 : FrameC r1 { r1 with numReconciled := r1.numReconciled + 1 } := ⟨rfl, rfl, rfl, rfl, rfl, rfl, rfl, rfl, rfl⟩
          exact hF.trans e1
        · intro hlt
          simp only at hlt hfull
          omega
      · obtain ⟨a, b, c', d⟩ := ih c.rev (r := { r1 with numReconciled := r1.numReconciled + 1 })
          (hI.congr rfl rfl rfl rfl rfl rfl rfl rfl rfl) ⟨hC.upd, hC.del, hC.sorted, hC.covO, hC.covD, hC.below⟩
        have e1 : FrameC r1 { r1 with numReconciled := r1.numReconciled + 1 } := ⟨rfl, rfl, rfl, rfl, rfl, rfl, rfl, rfl, rfl⟩
        exact ⟨a, b, (hF.trans e1).trans c', d⟩


/-! ## the change stream -/

theorem mem_insertCh' (c x : Change) (l : List Change) : x ∈ insertCh c l ↔ x = c ∨ x ∈ l := by
  induction l with
  | nil => simp [insertCh]
  | cons d ds ih =>
    unfold insertCh
    split
    · simp
    · simp only [List.mem_cons, ih]; grind

theorem mem_foldr_insertCh' (l : List Change) (x : Change) : x ∈ l.foldr insertCh [] ↔ x ∈ l := by
  induction l with
  | nil => simp
  | cons c cs ih => simp [List.foldr_cons, mem_insertCh', ih]

theorem mem_mergeCh' (a b : List Change) (x : Change) : x ∈ mergeCh a b ↔ x ∈ a ∨ x ∈ b := by
  fun_induction mergeCh a b with
  | case1 r => simp
  | case2 l h => simp
  | case3 l ls r rs hle ih => simp only [List.mem_cons, ih]; grind
  | case4 l ls r rs hle ih => simp only [List.mem_cons, ih]; grind

theorem sorted_insertCh (c : Change) (l : List Change) (h : l.Pairwise (fun a b => a.rev < b.rev))
    (hne : ∀ x ∈ l, x.rev ≠ c.rev) : (insertCh c l).Pairwise (fun a b => a.rev < b.rev) := by
  induction l with
  | nil => simp [insertCh]
  | cons y ys ih =>
    rw [List.pairwise_cons] at h
    have hy := hne y (List.mem_cons_self ..)
    unfold insertCh
    split
    · rename_i hle
      rw [List.pairwise_cons]
      refine ⟨fun z hz => ?_, List.pairwise_cons.2 h⟩
      rcases List.mem_cons.1 hz with rfl | hz
      · omega
      · have := h.1 z hz; omega
    · rename_i hle
      rw [List.pairwise_cons]
      refine ⟨fun z hz => ?_, ih h.2 (fun x hx => hne x (List.mem_cons_of_mem _ hx))⟩
      rcases (mem_insertCh' ..).1 hz with rfl | hz
      · omega
      · exact h.1 z hz

theorem sorted_foldr_insertCh (l : List Change) (h : l.Pairwise (fun a b => a.rev ≠ b.rev)) :
    (l.foldr insertCh []).Pairwise (fun a b => a.rev < b.rev) := by
  induction l with
  | nil => simp
  | cons c cs ih =>
    rw [List.pairwise_cons] at h
    refine sorted_insertCh c _ (ih h.2) (fun x hx => ?_)
    exact fun e => h.1 x ((mem_foldr_insertCh' ..).1 hx) e.symm

theorem pairwise_mergeCh (R : Change → Change → Prop) (a b : List Change) (ha : a.Pairwise R) (hb : b.Pairwise R)
    (hab : ∀ x ∈ a, ∀ y ∈ b, R x y ∧ R y x) : (mergeCh a b).Pairwise R := by
  fun_induction mergeCh a b with
  | case1 r => exact hb
  | case2 l h => exact ha
  | case3 l ls r rs hle ih =>
    rw [List.pairwise_cons] at ha
    rw [List.pairwise_cons]
    refine ⟨fun z hz => ?_, ih ha.2 hb (fun x hx y hy => hab x (List.mem_cons_of_mem _ hx) y hy)⟩
    rcases (mem_mergeCh' ..).1 hz with hz | hz
    · exact ha.1 z hz
    · exact (hab l (List.mem_cons_self ..) z hz).1
  | case4 l ls r rs hle ih =>
    rw [List.pairwise_cons] at hb
    rw [List.pairwise_cons]
    refine ⟨fun z hz => ?_, ih ha hb.2 (fun x hx y hy => hab x hx y (List.mem_cons_of_mem _ hy))⟩
    rcases (mem_mergeCh' ..).1 hz with hz | hz
    · exact (hab z hz r (List.mem_cons_self ..)).2
    · exact hb.1 z hz

/-- when the iterator has nothing pending it has passed everything written up to the last refresh -/
def Sync (r : R) : Prop :=
  r.pending = none → (∀ o ∈ r.objs, o.rev ≤ r.itRev ∨ r.refreshedAt < o.rev) ∧ (∀ d ∈ r.dels, d.2 ≤ r.itDelRev ∨ r.refreshedAt < d.2)

theorem nextChanges_fst (r : R) : r.nextChanges.1 = r ∨ r.nextChanges.1 = { r with refreshedAt := r.tableRev } := by
  unfold R.nextChanges; split
  · exact Or.inl rfl
  · exact Or.inr rfl

/-- `Next` hands the round exactly what lies beyond the iterator's position, in revision order -/
theorem chOK_nextChanges {r : R} (ht : TInv r) (hs : Sync r) : ChOK r.nextChanges.1 [] r.nextChanges.2 := by
  unfold R.nextChanges
  split
  · rename_i hno
    have hp : r.pending = none := by cases hp : r.pending <;> simp_all
    obtain ⟨s1, s2⟩ := hs hp
    refine ⟨by simp, by simp, by simp, ?_, ?_, by simp⟩
    · intro o ho
      left
      rcases s1 o ho with a | a
      · exact a
      · have := ht.objs_le o ho; omega
    · intro d hd
      left
      rcases s2 d hd with a | a
      · exact a
      · have := ht.dels_le d hd; omega
  · simp only
    have hU : ∀ x : Change, x ∈ ((r.objs.filter (·.rev > r.itRev)).map fun o => ({ obj := o, rev := o.rev, deleted := false } : Change)).foldr insertCh [] ↔
        ∃ o ∈ r.objs, o.rev > r.itRev ∧ x = { obj := o, rev := o.rev, deleted := false } := by
      intro x
      rw [mem_foldr_insertCh', List.mem_map]
      constructor
      · rintro ⟨o, ho, rfl⟩
        rw [List.mem_filter] at ho
        exact ⟨o, ho.1, by simpa using ho.2, rfl⟩
      · rintro ⟨o, ho, hgt, rfl⟩
        exact ⟨o, List.mem_filter.2 ⟨ho, by simpa using hgt⟩, rfl⟩
    have hD : ∀ x : Change, x ∈ ((r.dels.filter (·.2 > r.itDelRev)).map fun (o, dr) => ({ obj := o, rev := dr, deleted := true } : Change)).foldr insertCh [] ↔
        ∃ d ∈ r.dels, d.2 > r.itDelRev ∧ x = { obj := d.1, rev := d.2, deleted := true } := by
      intro x
      rw [mem_foldr_insertCh', List.mem_map]
      constructor
      · rintro ⟨d, hd, rfl⟩
        rw [List.mem_filter] at hd
        exact ⟨d, hd.1, by simpa using hd.2, rfl⟩
      · rintro ⟨d, hd, hgt, rfl⟩
        exact ⟨d, List.mem_filter.2 ⟨hd, by simpa using hgt⟩, rfl⟩
    refine ⟨?_, ?_, ?_, ?_, ?_, by simp⟩
    · intro c hc hdel
      rcases (mem_mergeCh' ..).1 hc with hc | hc
      · obtain ⟨d, _, _, rfl⟩ := (hD c).1 hc
        cases hdel
      · obtain ⟨o, ho, hgt, rfl⟩ := (hU c).1 hc
        exact ⟨ho, rfl, hgt⟩
    · intro c hc hdel
      rcases (mem_mergeCh' ..).1 hc with hc | hc
      · obtain ⟨d, hd, hgt, rfl⟩ := (hD c).1 hc
        exact ⟨hd, hgt⟩
      · obtain ⟨o, _, _, rfl⟩ := (hU c).1 hc
        cases hdel
    · refine pairwise_mergeCh (fun a b => a.deleted = b.deleted → a.rev < b.rev) _ _ ?_ ?_ ?_
      · refine List.Pairwise.imp (by intro a b h _; exact h) (sorted_foldr_insertCh _ ?_)
        rw [List.pairwise_map]
        exact (ht.dels_pw.filter _).imp (fun h => h.2)
      · refine List.Pairwise.imp (by intro a b h _; exact h) (sorted_foldr_insertCh _ ?_)
        rw [List.pairwise_map]
        exact (ht.objs_pw.filter _).imp (fun h => h.2)
      · intro x hx y hy
        obtain ⟨d, _, _, rfl⟩ := (hD x).1 hx
        obtain ⟨o, _, _, rfl⟩ := (hU y).1 hy
        exact ⟨fun e => by simp at e, fun e => by simp at e⟩
    · intro o ho
      by_cases hgt : o.rev > r.itRev
      · exact Or.inr ⟨_, (mem_mergeCh' ..).2 (Or.inr ((hU _).2 ⟨o, ho, hgt, rfl⟩)), rfl, rfl⟩
      · exact Or.inl (by simp only; omega)
    · intro d hd
      by_cases hgt : d.2 > r.itDelRev
      · exact Or.inr ⟨_, (mem_mergeCh' ..).2 (Or.inl ((hD _).2 ⟨d, hd, hgt, rfl⟩)), rfl, rfl⟩
      · exact Or.inl (by simp only; omega)


theorem round_eq (r : R) : r.round =
    let nc := r.nextChanges
    let co := nc.1.consume nc.2 0
    let r3 : R := { co.1 with pending := if nc.2.isEmpty ∧ co.1.pending.isNone then none else
                                if (co.2.1.isEmpty ∧ co.1.numReconciled < co.1.cfg.roundSize) then none else some co.2.1 }
    let r4 := r3.commitStatus
    let r5 := r4.processRetries (r4.items.length + 1)
    let r6 := r5.commitStatus
    { r6 with numReconciled := 0, progressRev := if co.2.2 > r6.progressRev then co.2.2 else r6.progressRev,
              progressLW := r5.lowWatermark } := rfl

/-- the invariant of the states between rounds -/
structure RInv (r : R) : Prop where
  inv : InvL r []
  res : r.results = []
  num : r.numReconciled = 0
  sync : Sync r

theorem InvL.set_refreshedAt {r : R} {rs : List Res} (h : InvL r rs) (v : Nat) (hv : v ≤ r.tableRev) :
    InvL { r with refreshedAt := v } rs :=
  ⟨⟨h.tinv.objs_pw, h.tinv.dels_pw, h.tinv.disj, h.tinv.objs_le, h.tinv.dels_le, h.tinv.it_le, h.tinv.itd_le, hv⟩,
    h.noinj, h.items_pw, h.objOK, h.delOK, h.itemOK, h.resOK⟩

theorem consume_nil (r : R) (l : Nat) : r.consume [] l = (r, [], l) := by unfold R.consume; rfl

theorem commitStatus_results (r : R) : r.commitStatus.results = [] := rfl

theorem CommitRel.caughtUp {r r' : R} (h : CommitRel r r') (hc : CaughtUp r) : CaughtUp r' := by
  refine ⟨fun o ho hn => ?_, fun d hd => ?_⟩
  · rcases h.objs o ho with a | a
    · rw [h.itRev]; exact hc.1 o a hn
    · exact absurd hn a.2
  · rw [h.itDelRev]; exact hc.2 d (h.dels d hd)

/-- the part of a round after the change stream was consumed -/
def roundTail (r3 : R) (last : Nat) : R :=
  let r4 := r3.commitStatus
  let r5 := r4.processRetries (r4.items.length + 1)
  let r6 := r5.commitStatus
  { r6 with numReconciled := 0, progressRev := if last > r6.progressRev then last else r6.progressRev,
            progressLW := r5.lowWatermark }

theorem round_eq' (r : R) : r.round =
    roundTail { (r.nextChanges.1.consume r.nextChanges.2 0).1 with
      pending := if r.nextChanges.2.isEmpty ∧ (r.nextChanges.1.consume r.nextChanges.2 0).1.pending.isNone then none else
        if ((r.nextChanges.1.consume r.nextChanges.2 0).2.1.isEmpty ∧
            (r.nextChanges.1.consume r.nextChanges.2 0).1.numReconciled < (r.nextChanges.1.consume r.nextChanges.2 0).1.cfg.roundSize) then none
        else some (r.nextChanges.1.consume r.nextChanges.2 0).2.1 }
      (r.nextChanges.1.consume r.nextChanges.2 0).2.2 := rfl

/-- what the tail of a round leaves alone -/
structure TailRel (r r' : R) : Prop where
  itRev : r'.itRev = r.itRev
  itDelRev : r'.itDelRev = r.itDelRev
  refreshedAt : r'.refreshedAt = r.refreshedAt
  pending : r'.pending = r.pending
  cfg : r'.cfg = r.cfg
  now : r'.now = r.now
  failing : r'.failing = r.failing
  tableRev : r.tableRev ≤ r'.tableRev
  objs : ∀ o ∈ r'.objs, o ∈ r.objs ∨ (o.rev > r.tableRev ∧ ¬ needs o.kind)
  dels : ∀ d ∈ r'.dels, d ∈ r.dels

theorem roundTail_inv {r3 : R} (last : Nat) (hI3 : InvL r3 r3.results)
    (hcu3 : r3.numReconciled < r3.cfg.roundSize → CaughtUp r3) :
    InvL (roundTail r3 last) [] ∧ (roundTail r3 last).results = [] ∧ (roundTail r3 last).numReconciled = 0 ∧
    TailRel r3 (roundTail r3 last) := by
  unfold roundTail
  dsimp only
  have hI4 := hI3.commitStatus
  obtain ⟨r4', hR4, hr4⟩ := commitStatus_rel r3
  have hres4 := commitStatus_results r3
  generalize r3.commitStatus = r4 at hI4 hr4 hres4 ⊢
  have hcu4 : r4.numReconciled < r4.cfg.roundSize → CaughtUp r4 := by
    intro hlt
    rw [hr4] at hlt ⊢
    simp only at hlt
    rw [hR4.numReconciled, hR4.cfg] at hlt
    exact (hR4.caughtUp (hcu3 hlt)).congr rfl rfl rfl rfl
  have hT4 : TailRel r3 r4 := by
    rw [hr4]
    exact ⟨hR4.itRev, hR4.itDelRev, hR4.refreshedAt, hR4.pending, hR4.cfg, hR4.now, hR4.failing, hR4.tableRev, hR4.objs, hR4.dels⟩
  rw [← hres4] at hI4
  obtain ⟨hI5, hF5⟩ := hI4.processRetries (r4.items.length + 1) hcu4
  generalize r4.processRetries (r4.items.length + 1) = r5 at hI5 hF5 ⊢
  have hI6 := hI5.commitStatus
  obtain ⟨r6', hR6, hr6⟩ := commitStatus_rel r5
  have hres6 := commitStatus_results r5
  generalize r5.commitStatus = r6 at hI6 hr6 hres6 ⊢
  have hT6 : TailRel r5 r6 := by
    rw [hr6]
    exact ⟨hR6.itRev, hR6.itDelRev, hR6.refreshedAt, hR6.pending, hR6.cfg, hR6.now, hR6.failing, hR6.tableRev, hR6.objs, hR6.dels⟩
  refine ⟨hI6.congr rfl rfl rfl rfl rfl rfl rfl rfl rfl, hres6, rfl, ?_⟩
  refine ⟨?_, ?_, ?_, ?_, ?_, ?_, ?_, ?_, ?_, ?_⟩
  · exact hT6.itRev.trans (hF5.itRev.trans hT4.itRev)
  · exact hT6.itDelRev.trans (hF5.itDelRev.trans hT4.itDelRev)
  · exact hT6.refreshedAt.trans (hF5.refreshedAt.trans hT4.refreshedAt)
  · exact hT6.pending.trans (hF5.pending.trans hT4.pending)
  · exact hT6.cfg.trans (hF5.cfg.trans hT4.cfg)
  · exact hT6.now.trans (hF5.now.trans hT4.now)
  · exact hT6.failing.trans (hF5.failing.trans hT4.failing)
  · have := hT6.tableRev; have := hT4.tableRev; have := hF5.tableRev
    show r3.tableRev ≤ r6.tableRev
    omega
  · intro o ho
    rcases hT6.objs o ho with a | a
    · rw [hF5.objs] at a; exact hT4.objs o a
    · rw [hF5.tableRev] at a
      have := hT4.tableRev
      exact Or.inr ⟨by omega, a.2⟩
  · intro d hd
    have := hT6.dels d hd
    rw [hF5.dels] at this
    exact hT4.dels d this

/-- one reconciliation round preserves the invariant -/
theorem RInv.round {r : R} (h : RInv r) : RInv r.round := by
  rw [round_eq']
  -- Next
  have hnc : InvL r.nextChanges.1 r.nextChanges.1.results ∧ r.nextChanges.1.results = [] ∧
      r.nextChanges.1.refreshedAt ≤ r.nextChanges.1.tableRev := by
    rcases nextChanges_fst r with e | e <;> rw [e]
    · exact ⟨InvL.cast_results h.res h.inv, h.res, h.inv.tinv.ref_le⟩
    · exact ⟨InvL.cast_results h.res (h.inv.set_refreshedAt _ (Nat.le_refl _)), h.res, Nat.le_refl _⟩
  have hch := chOK_nextChanges h.inv.tinv h.sync
  generalize r.nextChanges = nc at hnc hch ⊢
  obtain ⟨hI1, hres1, href1⟩ := hnc
  rw [← hres1] at hch
  -- consume
  obtain ⟨hI2, hC2, hF2, hfull⟩ := hI1.consume nc.2 0 hch
  have hrest : (nc.2 = [] → (nc.1.consume nc.2 0).2.1 = []) := by
    intro e; rw [e, consume_nil]
  generalize nc.1.consume nc.2 0 = co at hI2 hC2 hF2 hfull hrest ⊢
  -- the pending flag
  generalize hp : (if nc.2.isEmpty ∧ co.1.pending.isNone then none else
      if (co.2.1.isEmpty ∧ co.1.numReconciled < co.1.cfg.roundSize) then none else some co.2.1 : Option (List Change)) = pend
  have hpend : pend = none → co.2.1 = [] := by
    intro e
    rw [← hp] at e
    split at e
    · rename_i h1; exact hrest (by simpa using h1.1)
    · split at e
      · rename_i h1; simpa using h1.1
      · cases e
  have hI3 : InvL { co.1 with pending := pend } ({ co.1 with pending := pend } : R).results :=
    hI2.congr rfl rfl rfl rfl rfl rfl rfl rfl rfl
  have hcu3 : ({ co.1 with pending := pend } : R).numReconciled < ({ co.1 with pending := pend } : R).cfg.roundSize →
      CaughtUp { co.1 with pending := pend } := by
    intro hlt
    have hr := hfull hlt
    refine ⟨fun o ho _ => ?_, fun d hd => ?_⟩
    · rcases hC2.covO o ho with a | ⟨c, hc, _⟩
      · exact a
      · rw [hr] at hc; cases hc
    · rcases hC2.covD d hd with a | ⟨c, hc, _⟩
      · exact a
      · rw [hr] at hc; cases hc
  obtain ⟨hI, hres, hnum, hT⟩ := roundTail_inv co.2.2 hI3 hcu3
  refine ⟨hI, hres, hnum, ?_⟩
  intro hpn
  rw [hT.pending] at hpn
  have hr := hpend hpn
  rw [hT.itRev, hT.itDelRev, hT.refreshedAt]
  refine ⟨fun o ho => ?_, fun d hd => ?_⟩
  · rcases hT.objs o ho with a | a
    · rcases hC2.covO o a with b | ⟨c, hc, _⟩
      · exact Or.inl b
      · rw [hr] at hc; cases hc
    · right
      have e1 : ({ co.1 with pending := pend } : R).refreshedAt = nc.1.refreshedAt := hF2.refreshedAt
      have e2 : ({ co.1 with pending := pend } : R).tableRev = nc.1.tableRev := hF2.tableRev
      rw [e1]; rw [e2] at a; omega
  · rcases hC2.covD d (hT.dels d hd) with b | ⟨c, hc, _⟩
    · exact Or.inl b
    · rw [hr] at hc; cases hc


theorem RInv.congr {r r' : R} (h : RInv r) (h1 : r'.objs = r.objs) (h2 : r'.dels = r.dels) (h3 : r'.tableRev = r.tableRev)
    (h4 : r'.itRev = r.itRev) (h5 : r'.itDelRev = r.itDelRev) (h6 : r'.refreshedAt = r.refreshedAt)
    (h7 : r'.items = r.items) (h8 : r'.log = r.log) (h9 : r'.injects = r.injects)
    (h10 : r'.results = r.results) (h11 : r'.numReconciled = r.numReconciled) (h12 : r'.pending = r.pending) : RInv r' := by
  refine ⟨h.inv.congr h1 h2 h3 h4 h5 h6 h7 h8 h9, h10.trans h.res, h11.trans h.num, ?_⟩
  unfold Sync
  rw [h1, h2, h4, h5, h6, h12]
  exact h.sync

theorem RInv.fireTimer {r : R} (h : RInv r) : RInv r.fireTimer := by
  unfold R.fireTimer
  split
  · split
    · exact h.congr rfl rfl rfl rfl rfl rfl rfl rfl rfl rfl rfl rfl
    · exact h
  · exact h

/-- running rounds until nothing triggers preserves the invariant, whatever the fuel -/
theorem RInv.quiesce {r : R} (h : RInv r) (fuel : Nat) : RInv (r.quiesce fuel) := by
  induction fuel generalizing r with
  | zero => exact h
  | succ n ih =>
    unfold R.quiesce
    simp only
    split
    · exact ih h.fireTimer.round
    · exact h.fireTimer

theorem RInv.setNow {r : R} (h : RInv r) (t : Nat) : RInv { r with now := t } :=
  h.congr rfl rfl rfl rfl rfl rfl rfl rfl rfl rfl rfl rfl

theorem RInv.setFailing {r : R} (h : RInv r) (l : List Nat) : RInv { r with failing := l } :=
  h.congr rfl rfl rfl rfl rfl rfl rfl rfl rfl rfl rfl rfl

/-- letting virtual time pass preserves the invariant, whatever the fuel -/
theorem RInv.advance {r : R} (h : RInv r) (ms fuel : Nat) : RInv (r.advance ms fuel) := by
  induction fuel generalizing r ms with
  | zero => exact h.setNow _
  | succ n ih =>
    unfold R.advance
    simp only
    split
    · split
      · exact ih ((h.setNow _).quiesce 64) _
      · exact h.setNow _
    · exact h.setNow _

theorem RInv.init (c : Cfg) : RInv { cfg := c } := by
  refine ⟨⟨⟨by simp, by simp, by simp, by simp, by simp, Nat.le_refl _, Nat.le_refl _, Nat.le_refl _⟩, rfl, by simp, by simp, by simp, by simp, by simp⟩, rfl, rfl, ?_⟩
  intro _
  exact ⟨by simp, by simp⟩

theorem RInv.userPut {r : R} (h : RInv r) (id data : Nat) : RInv (r.userPut id data) := by
  have hI := h.inv.userPut id data
  obtain ⟨other, he⟩ := userPut_eq r id data
  rw [he] at hI ⊢
  refine ⟨hI, h.res, h.num, ?_⟩
  intro hp
  obtain ⟨s1, s2⟩ := h.sync hp
  have := h.inv.tinv.ref_le
  refine ⟨fun o ho => ?_, fun d hd => ?_⟩
  · rcases (mem_setObj_objs ..).1 ho with ⟨ho, _⟩ | rfl
    · exact s1 o ho
    · right; show r.refreshedAt < r.tableRev + 1; omega
  · exact s2 d (List.mem_filter.1 hd).1

theorem RInv.delObj {r : R} (h : RInv r) (id : Nat) : RInv (r.delObj id) := by
  have hI := h.inv.delObj id
  cases hg : r.get id with
  | none => rw [delObj_of_none hg]; exact h
  | some o =>
    rw [delObj_of_get hg] at hI ⊢
    refine ⟨hI, h.res, h.num, ?_⟩
    intro hp
    obtain ⟨s1, s2⟩ := h.sync hp
    have := h.inv.tinv.ref_le
    refine ⟨fun o ho => s1 o (List.mem_filter.1 ho).1, fun d hd => ?_⟩
    rcases List.mem_append.1 hd with hd | hd
    · exact s2 d hd
    · simp only [List.mem_singleton] at hd
      right; rw [hd]; show r.refreshedAt < r.tableRev + 1; omega

theorem RInv.touch {r : R} (h : RInv r) (id : Nat) (hne : ∀ o, r.get id = some o → o.kind ≠ .error) : RInv (r.touch id) := by
  have hI := h.inv.touch id hne
  unfold R.touch at hI ⊢
  cases hg : r.get id with
  | none => exact h
  | some o =>
    rw [hg] at hI
    simp only at hI ⊢
    refine ⟨hI, h.res, h.num, ?_⟩
    intro hp
    obtain ⟨s1, s2⟩ := h.sync hp
    have := h.inv.tinv.ref_le
    refine ⟨fun x hx => ?_, fun d hd => ?_⟩
    · rcases (mem_setObj_objs ..).1 hx with ⟨hx, _⟩ | rfl
      · exact s1 x hx
      · right; show r.refreshedAt < r.tableRev + 1; omega
    · exact s2 d (List.mem_filter.1 hd).1

end Sdb.Rec
