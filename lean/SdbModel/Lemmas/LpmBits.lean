import SdbModel.Model.Lpm
import SdbModel.Lemmas.Enc

/-! Bit-level helper lemmas for C13 (LPM trie): bits of bytes, `lz8`, `longestMatch`.  Core Lean only. -/
namespace Sdb.Lpm

/-- bit `j` (0 = most significant) of a byte -/
def bbit (x j : Nat) : Nat := x / 2 ^ (7 - j) % 2

theorem getBitAt_eq (d : List Nat) (i : Nat) : getBitAt d i = bbit (d.getD (i / 8) 0) (i % 8) := rfl

theorem bbit_lt_two (x j : Nat) : bbit x j < 2 := Nat.mod_lt _ (by omega)

theorem getBitAt_lt_two (d : List Nat) (i : Nat) : getBitAt d i < 2 := Nat.mod_lt _ (by omega)

theorem lz8_spec (x : Nat) (hx : x < 256) (j : Nat) (hj : j < 8) :
    (j < lz8 x → bbit x j = 0) ∧ (j = lz8 x → bbit x j = 1) := by
  have hj' : j = 0 ∨ j = 1 ∨ j = 2 ∨ j = 3 ∨ j = 4 ∨ j = 5 ∨ j = 6 ∨ j = 7 := by omega
  rcases hj' with h | h | h | h | h | h | h | h <;> subst h <;>
    simp only [bbit, lz8, Nat.reducePow, Nat.reduceSub] <;> (repeat' split) <;> omega

theorem lz8_le (x : Nat) : lz8 x ≤ 8 := by
  unfold lz8; repeat' split
  all_goals omega

theorem bbit_xor (a b j : Nat) : bbit (Nat.xor a b) j = (bbit a j + bbit b j) % 2 := by
  change bbit (a ^^^ b) j = _
  unfold bbit
  have h := Nat.toNat_testBit (a ^^^ b) (7 - j)
  have ha := Nat.toNat_testBit a (7 - j)
  have hb := Nat.toNat_testBit b (7 - j)
  rw [← h, ← ha, ← hb, Nat.testBit_xor]
  cases a.testBit (7 - j) <;> cases b.testBit (7 - j) <;> rfl

theorem bbit_xor_eq_zero (a b j : Nat) : bbit (Nat.xor a b) j = 0 ↔ bbit a j = bbit b j := by
  rw [bbit_xor]
  have := bbit_lt_two a j; have := bbit_lt_two b j
  omega

theorem xor_lt_256 (a b : Nat) (ha : a < 256) (hb : b < 256) : Nat.xor a b < 256 :=
  Nat.xor_lt_two_pow (n := 8) ha hb

/-- a byte is determined by its eight bits -/
theorem byte_ext (a b : Nat) (ha : a < 256) (hb : b < 256) (h : ∀ j < 8, bbit a j = bbit b j) : a = b := by
  have h0 := h 0 (by omega); have h1 := h 1 (by omega); have h2 := h 2 (by omega); have h3 := h 3 (by omega)
  have h4 := h 4 (by omega); have h5 := h 5 (by omega); have h6 := h 6 (by omega); have h7 := h 7 (by omega)
  simp only [bbit] at h0 h1 h2 h3 h4 h5 h6 h7
  simp only [Nat.reducePow, Nat.reduceSub] at h0 h1 h2 h3 h4 h5 h6 h7
  omega


/-! ### agreement of bit strings -/

/-- the first `n` bits of `a` and `b` coincide (bits beyond the data read 0) -/
def Agree (a b : List Nat) (n : Nat) : Prop := ∀ j, j < n → getBitAt a j = getBitAt b j

theorem Agree.refl (a : List Nat) (n : Nat) : Agree a a n := fun _ _ => rfl
theorem Agree.symm {a b : List Nat} {n : Nat} (h : Agree a b n) : Agree b a n := fun j hj => (h j hj).symm
theorem Agree.trans {a b c : List Nat} {n : Nat} (h : Agree a b n) (h' : Agree b c n) : Agree a c n :=
  fun j hj => (h j hj).trans (h' j hj)
theorem Agree.mono {a b : List Nat} {n m : Nat} (h : Agree a b n) (hm : m ≤ n) : Agree a b m :=
  fun j hj => h j (by omega)
theorem Agree.zero (a b : List Nat) : Agree a b 0 := fun _ h => by omega

theorem getBitAt_append_left (a b : List Nat) (j : Nat) (h : j < 8 * a.length) :
    getBitAt (a ++ b) j = getBitAt a j := by
  unfold getBitAt
  have : j / 8 < a.length := by omega
  simp [List.getD_eq_getElem?_getD, List.getElem?_append_left this]

theorem getBitAt_mul_add (l : List Nat) (i j : Nat) (hj : j < 8) :
    getBitAt l (8 * i + j) = bbit (l.getD i 0) j := by
  rw [getBitAt_eq]
  have h1 : (8 * i + j) / 8 = i := by omega
  have h2 : (8 * i + j) % 8 = j := by omega
  rw [h1, h2]

theorem getD_lt_256 (l : List Nat) (h : ∀ b ∈ l, b < 256) (i : Nat) : l.getD i 0 < 256 := by
  rw [List.getD_eq_getElem?_getD]
  cases hi : l[i]? with
  | none => simp
  | some x => simpa using h x (List.mem_of_getElem? hi)

theorem be_lt_256 (w n : Nat) : ∀ b ∈ be w n, b < 256 := by
  induction w generalizing n with
  | zero => simp [be]
  | succ w ih =>
    intro b hb
    simp only [be, List.mem_append, List.mem_singleton] at hb
    rcases hb with hb | hb
    · exact ih _ b hb
    · omega

/-! ### `longestMatch` -/

theorem lmLoop_spec (nk kd : List Nat) (hnk : ∀ b ∈ nk, b < 256) (hkd : ∀ b ∈ kd, b < 256) (minPl : Nat)
    (hmin : minPl ≤ 8 * min nk.length kd.length) :
    ∀ (fuel i : Nat), 8 * i ≤ minPl → nk.length + 1 ≤ i + fuel → Agree nk kd (8 * i) →
      lmLoop nk kd minPl fuel i (8 * i) ≤ minPl ∧ Agree nk kd (lmLoop nk kd minPl fuel i (8 * i)) ∧
      (lmLoop nk kd minPl fuel i (8 * i) < minPl →
        getBitAt nk (lmLoop nk kd minPl fuel i (8 * i)) ≠ getBitAt kd (lmLoop nk kd minPl fuel i (8 * i))) := by
  intro fuel
  induction fuel with
  | zero => intro i h1 h2 _; omega
  | succ fuel ih =>
    intro i h1 h2 hag
    unfold lmLoop
    split
    · rename_i hi
      have ha := getD_lt_256 nk hnk i
      have hb := getD_lt_256 kd hkd i
      have hx := xor_lt_256 _ _ ha hb
      have hle := lz8_le (Nat.xor (nk.getD i 0) (kd.getD i 0))
      have hagree : Agree nk kd (8 * i + lz8 (Nat.xor (nk.getD i 0) (kd.getD i 0))) := by
        intro q hq
        by_cases hq' : q < 8 * i
        · exact hag q hq'
        · obtain ⟨j, rfl⟩ : ∃ j, q = 8 * i + j := ⟨q - 8 * i, by omega⟩
          have hj : j < 8 := by omega
          rw [getBitAt_mul_add _ _ _ hj, getBitAt_mul_add _ _ _ hj]
          exact (bbit_xor_eq_zero _ _ _).mp ((lz8_spec _ hx j hj).1 (by omega))
      simp only
      split
      · exact ⟨Nat.le_refl _, hagree.mono (by omega), fun h => by omega⟩
      · split
        · rename_i hlt
          refine ⟨by omega, hagree, fun _ => ?_⟩
          rw [getBitAt_mul_add _ _ _ hlt, getBitAt_mul_add _ _ _ hlt]
          intro heq
          have := (lz8_spec _ hx _ hlt).2 rfl
          rw [(bbit_xor_eq_zero _ _ _).mpr heq] at this
          omega
        · have h8 : lz8 (Nat.xor (nk.getD i 0) (kd.getD i 0)) = 8 := by omega
          rw [h8] at hagree ⊢
          have := ih (i + 1) (by omega) (by omega) (by rw [Nat.mul_add]; exact hagree)
          rw [Nat.mul_add] at this
          exact this
    · exact ⟨h1, hag, fun h => by omega⟩


/-- what `longestMatch` computes, under the conditions the trie walks guarantee:
    `s` bits are already known to be shared and do not exceed either prefix length.
    The result is the length of the common prefix capped at both prefix lengths. -/
theorem longestMatch_spec (nd : List Nat) (npl : Nat) (kd : List Nat) (plen s : Nat)
    (hnd : ∀ b ∈ nd, b < 256) (hkd : ∀ b ∈ kd, b < 256)
    (hnl : npl ≤ 8 * nd.length) (hkl : plen ≤ 8 * kd.length)
    (hs : s ≤ npl) (hs' : s ≤ plen) (hag : Agree nd kd s) :
    longestMatch s nd npl kd plen ≤ npl ∧ longestMatch s nd npl kd plen ≤ plen ∧
    Agree nd kd (longestMatch s nd npl kd plen) ∧
    (longestMatch s nd npl kd plen < npl → longestMatch s nd npl kd plen < plen →
      getBitAt nd (longestMatch s nd npl kd plen) ≠ getBitAt kd (longestMatch s nd npl kd plen)) := by
  have hnk : ∀ b ∈ nd ++ be 2 npl, b < 256 := by
    intro b hb
    rcases List.mem_append.mp hb with h | h
    · exact hnd b h
    · exact be_lt_256 _ _ b h
  have hlen : (nd ++ be 2 npl).length = nd.length + 2 := by simp
  have hmin : min npl plen ≤ 8 * min (nd ++ be 2 npl).length kd.length := by rw [hlen]; omega
  have hag' : Agree (nd ++ be 2 npl) kd (8 * (s / 8)) := by
    intro j hj
    rw [getBitAt_append_left _ _ _ (by omega)]
    exact hag j (by omega)
  have := lmLoop_spec (nd ++ be 2 npl) kd hnk hkd (min npl plen) hmin ((nd ++ be 2 npl).length + 1) (s / 8)
    (by omega) (by omega) hag'
  unfold longestMatch
  simp only
  obtain ⟨h1, h2, h3⟩ := this
  refine ⟨by omega, by omega, ?_, ?_⟩
  · intro j hj
    rw [← getBitAt_append_left nd (be 2 npl) j (by omega)]
    exact h2 j hj
  · intro ha hb
    rw [← getBitAt_append_left nd (be 2 npl) _ (by omega)]
    exact h3 (by omega)

/-- the result of `longestMatch` is determined by its specification -/
theorem matchLen_unique (a b : List Nat) (p q r r' : Nat)
    (h1 : r ≤ p) (h2 : r ≤ q) (h3 : Agree a b r) (h4 : r < p → r < q → getBitAt a r ≠ getBitAt b r)
    (h1' : r' ≤ p) (h2' : r' ≤ q) (h3' : Agree a b r') (h4' : r' < p → r' < q → getBitAt a r' ≠ getBitAt b r') :
    r = r' := by
  rcases Nat.lt_trichotomy r r' with h | h | h
  · exact absurd (h3' r h) (h4 (by omega) (by omega))
  · exact h
  · exact absurd (h3 r' h) (h4' (by omega) (by omega))

end Sdb.Lpm
