import SdbModel.Lemmas.ArtFrame
import SdbModel.Lemmas.ArtPFrame
import SdbModel.Lemmas.ArtTxn

/-! Transactions of Model.Art with any number of calls: the Get channel handed
    out on the committed tree is recorded once one of the calls changed the key. -/
set_option linter.unusedSimpArgs false
namespace Sdb.ArtW
open Sdb.Art

/-! ## transactions with several calls -/

def pwR : Option Node → List Nat → Option Nat
  | none, _ => none
  | some r, k => pw r k

theorem getRoot_eq_pwR (root : Option Node) (w : Nat) (k : List Nat) : (getRoot root w k).2 = (pwR root k).getD w := by
  cases root with
  | none => rfl
  | some r => exact search_eq_pw r w k

def InnerR (q : Nat → Nat → Prop) : Option Node → Prop
  | none => True
  | some r => Inner q r

mutual
theorem Stamps.toInner {p : Nat → Prop} {q : Nat → Nat → Prop} (h : ∀ t w, p t → q t w) :
    (n : Node) → Stamps p n → Inner q n
  | .leaf _ _, _ => by simp [Inner]
  | .inner _ _ _ kids w t, hs => by
    simp only [Stamps] at hs
    simp only [Inner]
    exact ⟨h t w hs.1, StampsK.toInnerK h kids hs.2.2⟩
theorem StampsK.toInnerK {p : Nat → Prop} {q : Nat → Nat → Prop} (h : ∀ t w, p t → q t w) :
    (k : Kids) → StampsK p k → InnerK q k
  | .nil, _ => by simp [InnerK]
  | .cons _ n r, hs => by
    simp only [StampsK] at hs
    simp only [InnerK]
    exact ⟨Stamps.toInner h n hs.1, StampsK.toInnerK h r hs.2⟩
end

/-- the invariant of an open transaction used for several calls: `B` bounds the
    channels of the tree the transaction was opened on -/
structure MInv (B : Nat) (x : Txn) : Prop where
  wf : TxnWF x
  id0 : x.st.txnID ≠ 0
  own : InnerR (OFq x.st.txnID B) x.root
  bnd : B ≤ x.st.nextW

theorem qok_of_bnd {B : Nat} {st : St} (h : B ≤ st.nextW) : QOk (OFq st.txnID B) st := by
  intro w' hw' _
  rcases hw' with h0 | h1
  · exact Or.inl h0
  · right; omega

theorem MInv.insert {B : Nat} {x : Txn} (P : ArtParams) (h : MInv B x) (k : List Nat) (v : Nat)
    (m : Option (Nat → Nat → Nat)) : MInv B (x.insert P k v m).1 := by
  have hl := later_insert P x k v m
  refine ⟨h.wf.insert P k v m, ?_, ?_, Nat.le_trans h.bnd hl.nw⟩
  · unfold Txn.insert
    split
    · simp only; rw [(newLeafD_le x.st k v).id]; exact h.id0
    · simp only; rw [(insNode_le ..).id]; exact h.id0
  · unfold Txn.insert
    cases hr : x.root with
    | none => simp [InnerR, Inner]
    | some r =>
      simp only [InnerR]
      rw [(insNode_le P x.st r k k v m).id]
      have := h.own
      rw [hr] at this
      exact insNode_Inner P x.st (qok_of_bnd h.bnd) r k k v m this

theorem MInv.delete {B : Nat} {x : Txn} (P : ArtParams) (h : MInv B x) (k : List Nat) : MInv B (x.delete P k).1 := by
  have hl := later_delete P x k
  refine ⟨h.wf.delete P k, ?_, ?_, Nat.le_trans h.bnd hl.nw⟩
  · unfold Txn.delete
    cases hr : x.root with
    | none => exact h.id0
    | some r =>
      simp only
      cases hd : delNode P x.st r k with
      | notFound => exact h.id0
      | replaced st n old =>
        simp only; rw [(delNode_le P x.st r k st (by rw [hd]; rfl)).id]; exact h.id0
      | removed st old =>
        simp only; rw [(delNode_le P x.st r k st (by rw [hd]; rfl)).id]; exact h.id0
  · unfold Txn.delete
    cases hr : x.root with
    | none => simpa [hr] using h.own
    | some r =>
      simp only
      have hown := h.own
      rw [hr] at hown
      cases hd : delNode P x.st r k with
      | notFound => simpa [hr, InnerR] using hown
      | replaced st n old =>
        simp only [InnerR]
        rw [(delNode_le P x.st r k st (by rw [hd]; rfl)).id]
        exact delNode_Inner P x.st (qok_of_bnd h.bnd) r k hown st n old hd
      | removed st old => simp [InnerR]

theorem MInv.bump {B : Nat} {x : Txn} (h : MInv B x) : MInv B x.bump := by
  refine ⟨h.wf.bump.1, by simp [Txn.bump], ?_, h.bnd⟩
  cases hr : x.root with
  | none => simp [Txn.bump, hr, InnerR]
  | some r =>
    simp only [Txn.bump, hr, InnerR]
    refine Stamps.toInner ?_ r (h.wf r hr)
    intro t w (ht : t ≤ x.st.txnID) he
    omega

theorem MInv.step {B : Nat} {x : Txn} (P : ArtParams) (h : MInv B x) (o : Op) : MInv B (step P x o) := by
  cases o with
  | insert k v m => exact h.insert P k v m
  | delete k => exact h.delete P k
  | bump => exact h.bump

/-- a transaction opened on a committed, non-empty tree satisfies the invariant -/
theorem MInv.txn {t : Tree} (h : TreeWF t) (wd : World) (r : Node) (hr : t.root = some r) : MInv wd.nextW (t.txn wd) := by
  have hs := h r hr
  refine ⟨(h.txn wd).1, ?_, ?_, Nat.le_refl _⟩
  · show t.nextTxnID ≠ 0
    cases r with
    | leaf p d => simp only [Stamps] at hs; omega
    | inner kind p lf kids w tt => simp only [Stamps] at hs; omega
  · show InnerR _ t.root
    rw [hr]
    refine Stamps.toInner ?_ r hs
    intro tt w (ht : tt < t.nextTxnID) (he : tt = t.nextTxnID)
    omega

/-- does the call insert / modify `k`, or delete a present `k` -/
def touchedBy (P : ArtParams) (x : Txn) (k : List Nat) : Op → Bool
  | .insert k' _ _ => k' == k
  | .delete k' => k' == k && (x.delete P k').2.isSome
  | .bump => false

def touched (P : ArtParams) (x : Txn) (k : List Nat) : List Op → Bool
  | [] => false
  | o :: ops => touchedBy P x k o || touched P (step P x o) k ops

theorem txn_step_frame {B : Nat} {x : Txn} (P : ArtParams) (h : MInv B x) (k : List Nat) (o : Op) (c : Nat)
    (hc : pwR x.root k = some c) :
    B ≤ c ∨ c ∈ (step P x o).st.pending ∨ pwR (step P x o).root k = some c := by
  cases hr : x.root with
  | none => rw [hr] at hc; simp [pwR] at hc
  | some r =>
    rw [hr] at hc
    simp only [pwR] at hc
    have hown := h.own
    rw [hr] at hown
    simp only [InnerR] at hown
    cases o with
    | insert k' v m =>
      simp only [step, Txn.insert, hr, pwR]
      exact insNode_frame P x.st B h.id0 r k' k' v m k hown c hc
    | delete k' =>
      simp only [step, Txn.delete, hr]
      cases hd : delNode P x.st r k' with
      | notFound => simp only [hr, pwR]; exact Or.inr (Or.inr hc)
      | replaced st n old =>
        have := delNode_frame P x.st B r k' st hown (by rw [hd]; rfl) k c hc
        rw [hd] at this
        simpa only [pwD, pwR] using this
      | removed st old =>
        have := delNode_frame P x.st B r k' st hown (by rw [hd]; rfl) k c hc
        rw [hd] at this
        simpa only [pwD, pwR] using this
    | bump => simp only [step, Txn.bump, hr, pwR]; exact Or.inr (Or.inr hc)

theorem txn_step_closes {B : Nat} {x : Txn} (P : ArtParams) (h : MInv B x) (k : List Nat) (o : Op)
    (ht : touchedBy P x k o = true) (c : Nat) (hc : pwR x.root k = some c) :
    B ≤ c ∨ c ∈ (step P x o).st.pending := by
  cases hr : x.root with
  | none => rw [hr] at hc; simp [pwR] at hc
  | some r =>
    rw [hr] at hc
    simp only [pwR] at hc
    have hown := h.own
    rw [hr] at hown
    simp only [InnerR] at hown
    cases o with
    | insert k' v m =>
      simp only [touchedBy, beq_iff_eq] at ht
      subst ht
      simp only [step, Txn.insert, hr]
      exact insNode_closes_mixed P x.st B h.id0 r k' k' v m hown c hc
    | delete k' =>
      simp only [touchedBy, Bool.and_eq_true, beq_iff_eq] at ht
      obtain ⟨hk, hpres⟩ := ht
      subst hk
      obtain ⟨r', st', hr', hd, hst, _⟩ := delete_present P x k' (by
        intro e; rw [e] at hpres; simp at hpres)
      rw [hr] at hr'
      simp only [Option.some.injEq] at hr'
      subst hr'
      simp only [step]
      rw [hst]
      exact delNode_closes_mixed P x.st B r k' st' hown hd c hc
    | bump => simp [touchedBy] at ht

/-- **several calls**: every channel below `B` that the search for `k` found in
    the tree the transaction was opened on (`root0`) is, after the calls, recorded
    or still the one found in the current tree … -/
theorem run_keeps {B : Nat} (P : ArtParams) (root0 : Option Node) (k : List Nat) (ops : List Op) :
    ∀ x : Txn, MInv B x →
      (∀ c, pwR root0 k = some c → c < B → c ∈ x.st.pending ∨ pwR x.root k = some c) →
      (∀ c, pwR root0 k = some c → c < B → c ∈ (run P x ops).st.pending ∨ pwR (run P x ops).root k = some c) := by
  induction ops with
  | nil => intro x _ hk; exact hk
  | cons o ops ih =>
    intro x h hk
    rw [run_cons]
    apply ih (step P x o) (h.step P o)
    intro c hc0 hcB
    rcases hk c hc0 hcB with hx | hx
    · exact Or.inl ((later_step P x o).sub _ hx)
    · rcases txn_step_frame P h k o c hx with hy | hy | hy
      · omega
      · exact Or.inl hy
      · exact Or.inr hy

/-- … and recorded once one of the calls inserted, modified or deleted `k` -/
theorem run_closes {B : Nat} (P : ArtParams) (root0 : Option Node) (k : List Nat) (ops : List Op) :
    ∀ x : Txn, MInv B x → touched P x k ops = true →
      (∀ c, pwR root0 k = some c → c < B → c ∈ x.st.pending ∨ pwR x.root k = some c) →
      (∀ c, pwR root0 k = some c → c < B → c ∈ (run P x ops).st.pending) := by
  induction ops with
  | nil => intro x _ ht; simp [touched] at ht
  | cons o ops ih =>
    intro x h ht hk c hc0 hcB
    rw [run_cons]
    simp only [touched, Bool.or_eq_true] at ht
    by_cases htb : touchedBy P x k o = true
    · have hdone : c ∈ (step P x o).st.pending := by
        rcases hk c hc0 hcB with hx | hx
        · exact (later_step P x o).sub _ hx
        · rcases txn_step_closes P h k o htb c hx with hy | hy
          · omega
          · exact hy
      exact (later_run P (step P x o) ops).sub _ hdone
    · have ht' : touched P (step P x o) k ops = true := by
        rcases ht with ht | ht
        · exact absurd ht htb
        · exact ht
      apply ih (step P x o) (h.step P o) ht' ?_ c hc0 hcB
      intro c' hc0' hcB'
      rcases hk c' hc0' hcB' with hx | hx
      · exact Or.inl ((later_step P x o).sub _ hx)
      · rcases txn_step_frame P h k o c' hx with hy | hy | hy
        · omega
        · exact Or.inl hy
        · exact Or.inr hy

theorem touched_anyChange (P : ArtParams) (k : List Nat) (ops : List Op) :
    ∀ x : Txn, touched P x k ops = true → anyChange P x ops = true := by
  induction ops with
  | nil => intro x h; simp [touched] at h
  | cons o ops ih =>
    intro x h
    simp only [touched, Bool.or_eq_true] at h
    simp only [anyChange, Bool.or_eq_true]
    rcases h with h | h
    · left
      cases o with
      | insert k' v m => rfl
      | delete k' => simp only [touchedBy, Bool.and_eq_true] at h; exact h.2
      | bump => simp [touchedBy] at h
    · right; exact ih _ h


/-! ## Prefix(q), several calls -/

def ppwR : Option Node → List Nat → Option Nat
  | none, _ => none
  | some r, q => ppw r q

theorem prefixRoot_eq_ppwR (root : Option Node) (w : Nat) (q : List Nat) :
    (prefixRoot root w q).2 = (ppwR root q).getD w := by
  cases root with
  | none => rfl
  | some r => exact prefix_eq_ppw r w q

/-- does the call insert / modify a key starting with `q`, or delete a present one -/
def touchedByP (P : ArtParams) (x : Txn) (q : List Nat) : Op → Bool
  | .insert k' _ _ => hasPrefix k' q
  | .delete k' => hasPrefix k' q && (x.delete P k').2.isSome
  | .bump => false

def touchedP (P : ArtParams) (x : Txn) (q : List Nat) : List Op → Bool
  | [] => false
  | o :: ops => touchedByP P x q o || touchedP P (step P x o) q ops

theorem txn_step_pframe {B : Nat} {x : Txn} (P : ArtParams) (h : MInv B x) (q : List Nat) (o : Op) (c : Nat)
    (hc : ppwR x.root q = some c) :
    B ≤ c ∨ c ∈ (step P x o).st.pending ∨ ppwR (step P x o).root q = some c := by
  cases hr : x.root with
  | none => rw [hr] at hc; simp [ppwR] at hc
  | some r =>
    rw [hr] at hc
    simp only [ppwR] at hc
    have hown := h.own
    rw [hr] at hown
    simp only [InnerR] at hown
    cases o with
    | insert k' v m =>
      simp only [step, Txn.insert, hr, ppwR]
      exact insNode_pframe P x.st B r k' k' v m q hown c hc
    | delete k' =>
      simp only [step, Txn.delete, hr]
      cases hd : delNode P x.st r k' with
      | notFound => simp only [hr, ppwR]; exact Or.inr (Or.inr hc)
      | replaced st n old =>
        have := delNode_pframe P x.st B r k' st hown (by rw [hd]; rfl) q c hc
        rw [hd] at this
        simpa only [ppwD, ppwR] using this
      | removed st old =>
        have := delNode_pframe P x.st B r k' st hown (by rw [hd]; rfl) q c hc
        rw [hd] at this
        simpa only [ppwD, ppwR] using this
    | bump => simp only [step, Txn.bump, hr, ppwR]; exact Or.inr (Or.inr hc)

theorem txn_step_pcloses {B : Nat} {x : Txn} (P : ArtParams) (h : MInv B x) (q : List Nat) (o : Op)
    (ht : touchedByP P x q o = true) (c : Nat) (hc : ppwR x.root q = some c) :
    B ≤ c ∨ c ∈ (step P x o).st.pending := by
  cases hr : x.root with
  | none => rw [hr] at hc; simp [ppwR] at hc
  | some r =>
    rw [hr] at hc
    simp only [ppwR] at hc
    have hown := h.own
    rw [hr] at hown
    simp only [InnerR] at hown
    cases o with
    | insert k' v m =>
      simp only [touchedByP] at ht
      simp only [step, Txn.insert, hr]
      exact insNode_closes_prefix_mixed P x.st B r k' k' v m q hown ht c hc
    | delete k' =>
      simp only [touchedByP, Bool.and_eq_true] at ht
      obtain ⟨hk, hpres⟩ := ht
      obtain ⟨r', st', hr', hd, hst, _⟩ := delete_present P x k' (by
        intro e; rw [e] at hpres; simp at hpres)
      rw [hr] at hr'
      simp only [Option.some.injEq] at hr'
      subst hr'
      simp only [step]
      rw [hst]
      exact delNode_closes_prefix_mixed P x.st B r k' q st' hown hk hd c hc
    | bump => simp [touchedByP] at ht

theorem run_pcloses {B : Nat} (P : ArtParams) (root0 : Option Node) (q : List Nat) (ops : List Op) :
    ∀ x : Txn, MInv B x → touchedP P x q ops = true →
      (∀ c, ppwR root0 q = some c → c < B → c ∈ x.st.pending ∨ ppwR x.root q = some c) →
      (∀ c, ppwR root0 q = some c → c < B → c ∈ (run P x ops).st.pending) := by
  induction ops with
  | nil => intro x _ ht; simp [touchedP] at ht
  | cons o ops ih =>
    intro x h ht hk c hc0 hcB
    rw [run_cons]
    simp only [touchedP, Bool.or_eq_true] at ht
    by_cases htb : touchedByP P x q o = true
    · have hdone : c ∈ (step P x o).st.pending := by
        rcases hk c hc0 hcB with hx | hx
        · exact (later_step P x o).sub _ hx
        · rcases txn_step_pcloses P h q o htb c hx with hy | hy
          · omega
          · exact hy
      exact (later_run P (step P x o) ops).sub _ hdone
    · have ht' : touchedP P (step P x o) q ops = true := by
        rcases ht with ht | ht
        · exact absurd ht htb
        · exact ht
      apply ih (step P x o) (h.step P o) ht' ?_ c hc0 hcB
      intro c' hc0' hcB'
      rcases hk c' hc0' hcB' with hx | hx
      · exact Or.inl ((later_step P x o).sub _ hx)
      · rcases txn_step_pframe P h q o c' hx with hy | hy | hy
        · omega
        · exact Or.inl hy
        · exact Or.inr hy

theorem touchedP_anyChange (P : ArtParams) (q : List Nat) (ops : List Op) :
    ∀ x : Txn, touchedP P x q ops = true → anyChange P x ops = true := by
  induction ops with
  | nil => intro x h; simp [touchedP] at h
  | cons o ops ih =>
    intro x h
    simp only [touchedP, Bool.or_eq_true] at h
    simp only [anyChange, Bool.or_eq_true]
    rcases h with h | h
    · left
      cases o with
      | insert k' v m => rfl
      | delete k' => simp only [touchedByP, Bool.and_eq_true] at h; exact h.2
      | bump => simp [touchedByP] at h
    · right; exact ih _ h

/-- the Prefix channel of a committed tree is recorded, or is the root watch,
    once any call of the transaction changed a key starting with the prefix -/
theorem prefix_channel_recorded_multi (P : ArtParams) (t : Tree) (hwf : TreeWF t) (wd : World) (q : List Nat)
    (ops : List Op) (hlt : (prefixRoot t.root t.rootWatch q).2 < wd.nextW) (ht : touchedP P (t.txn wd) q ops = true) :
    (prefixRoot t.root t.rootWatch q).2 = t.rootWatch ∨
    (prefixRoot t.root t.rootWatch q).2 ∈ (run P (t.txn wd) ops).st.pending := by
  rw [prefixRoot_eq_ppwR] at hlt ⊢
  cases hr : t.root with
  | none => left; simp [ppwR]
  | some r =>
    have hm := MInv.txn hwf wd r hr
    cases hp : ppwR (some r) q with
    | none => left; rfl
    | some c =>
      right
      rw [hr, hp] at hlt
      simp only [Option.getD_some] at hlt ⊢
      exact run_pcloses (B := wd.nextW) P t.root q ops (t.txn wd) hm ht (fun c hc _ => Or.inr hc) c (by rw [hr]; exact hp) hlt


end Sdb.ArtW
