import SdbModel.Lemmas.IndexLpm
/-!
  C04, LPM part, queries: what `qGet` / `qList` / `qPrefix` / `qLowerBound` on the two LPM indexes
  return, in terms of the live objects (the primary index) and their normalised index keys, given
  the index invariant `LInv` and the primary-index invariant `POk`.  Core Lean only.
-/
namespace Sdb.Tbl
open OMap Lpm

section buckets
variable {unique : Bool} {keys : Obj → List (Key × Nat)} {primary : OMap Obj} {ix : LpmIdx}

/-- every pair of a bucket is a live object under its own id that has the bucket's key -/
theorem LInv.bucket_live (inv : LInv unique keys primary ix) (hp : POk primary) {d : Key} {p : Nat} {e : LpmEntry}
    (he : (d, p, e) ∈ preorder ix.t) {pk : Key} {x : Obj} (hm : (pk, x) ∈ e) :
    pk = x.id ∧ primary.get x.id = some x ∧ (d, p) ∈ (keys x).map normKey := by
  have h := (inv.char d p pk x).mp ⟨e, he, hm⟩
  have hid := hp.idOk pk x h.1
  subst hid
  exact ⟨rfl, h.1, h.2⟩

/-- **the objects of a bucket are exactly the live objects having the key** -/
theorem LInv.bucket_mem (inv : LInv unique keys primary ix) (hp : POk primary) {d : Key} {p : Nat} {e : LpmEntry}
    (he : (d, p, e) ∈ preorder ix.t) (x : Obj) :
    x ∈ e.map (·.2) ↔ primary.get x.id = some x ∧ (d, p) ∈ (keys x).map normKey := by
  constructor
  · intro hx
    obtain ⟨kv, hkv, rfl⟩ := List.mem_map.mp hx
    exact (inv.bucket_live hp he (pk := kv.1) (x := kv.2) hkv).2
  · rintro ⟨hl, hk⟩
    obtain ⟨e', he', hm⟩ := (inv.char d p x.id x).mpr ⟨hl, hk⟩
    have : e' = e := (C13_stored_keys_canonical_unique ix.t inv.wf d p e he).2 e' he'
    subst this
    exact List.mem_map.mpr ⟨(x.id, x), hm, rfl⟩

/-- **a bucket lists its objects in strictly ascending primary-key order** (so each object once) -/
theorem LInv.bucket_ascending (inv : LInv unique keys primary ix) (hp : POk primary) {d : Key} {p : Nat}
    {e : LpmEntry} (he : (d, p, e) ∈ preorder ix.t) :
    (e.map (·.2)).Pairwise (fun a b => cmpL a.id b.id = .lt) := by
  rw [List.pairwise_map]
  refine List.Pairwise.imp_of_mem ?_ (inv.sortedE d p e he)
  intro a b ha hb hab
  rw [← (inv.bucket_live hp he (pk := a.1) (x := a.2) ha).1, ← (inv.bucket_live hp he (pk := b.1) (x := b.2) hb).1]
  exact hab

/-- **the buckets of a unique index hold exactly one object** -/
theorem LInv.bucket_single (inv : LInv unique keys primary ix) (hp : POk primary) (hu : unique = true)
    {d : Key} {p : Nat} {e : LpmEntry} (he : (d, p, e) ∈ preorder ix.t) : ∃ x, e = [(x.id, x)] := by
  have hne := inv.nonempty d p e he
  have hs := inv.sortedE d p e he
  match e, hne with
  | [(pk, x)], _ =>
    have := (inv.bucket_live hp he (pk := pk) (x := x) (by simp)).1
    subst this
    exact ⟨x, rfl⟩
  | (pk1, x1) :: (pk2, x2) :: r, _ =>
    exfalso
    have h1 := inv.bucket_live hp he (pk := pk1) (x := x1) (by simp)
    have h2 := inv.bucket_live hp he (pk := pk2) (x := x2) (by simp)
    have heq : x1.id = x2.id := inv.uniq hu x1.id x1 x2.id x2 h1.2.1 h2.2.1 ⟨(d, p), h1.2.2, h2.2.2⟩
    have hlt := (sorted_cons.mp hs).1 (pk2, x2) (by simp)
    simp only at hlt
    rw [h1.1, h2.1, heq] at hlt
    exact cmpL_lt_irrefl _ hlt

end buckets

/-! ### `get` / `list`: longest-prefix match -/

/-- the objects `lpmIndex.list` yields: the bucket found by `Lookup` -/
def lpmLookupObjs (ix : LpmIdx) (key : Key) (plen : Nat) : List Obj :=
  ((lookup (maskData key plen) plen ix.t 0 none).getD []).map (·.2)

theorem qList_lpm (t : TableS) (key : Key) (plen : Nat) : qList t .lpm key plen = lpmLookupObjs t.lpm key plen := rfl
theorem qList_ulpm (t : TableS) (key : Key) (plen : Nat) : qList t .ulpm key plen = lpmLookupObjs t.ulpm key plen := rfl

theorem lookup_bind_head (r : Option LpmEntry) :
    (r >>= fun e => e.head?.map (·.2)) = ((r.getD []).map (·.2)).head? := by
  cases r with
  | none => rfl
  | some e => simp [List.head?_map]

/-- **`get` is the first object of `list`** -/
theorem qGet_lpm (t : TableS) (key : Key) (plen : Nat) : qGet t .lpm key plen = (qList t .lpm key plen).head? :=
  lookup_bind_head _
theorem qGet_ulpm (t : TableS) (key : Key) (plen : Nat) : qGet t .ulpm key plen = (qList t .ulpm key plen).head? :=
  lookup_bind_head _

section lookup
variable {unique : Bool} {keys : Obj → List (Key × Nat)} {primary : OMap Obj} {ix : LpmIdx}

/-- the full-length hypothesis of C13 over the trie follows from the one over the live objects -/
theorem LInv.full (inv : LInv unique keys primary ix) (plen : Nat)
    (hfull : ∀ pk x, primary.get pk = some x → ∀ k ∈ keys x, k.2 ≤ plen) :
    ∀ e ∈ preorder ix.t, e.2.1 ≤ plen := by
  rintro ⟨d, p, e⟩ he
  have hne := inv.nonempty d p e he
  obtain ⟨⟨pk, x⟩, hm⟩ := List.exists_mem_of_ne_nil e hne
  obtain ⟨hl, hk⟩ := (inv.char d p pk x).mp ⟨e, he, hm⟩
  obtain ⟨k0, hk0, hk0e⟩ := List.mem_map.mp hk
  have := hfull pk x hl k0 hk0
  have h2 : k0.2 = p := by
    have := congrArg Prod.snd hk0e
    simpa [normKey] using this
  simp only
  omega

/-- **longest-prefix match over the live objects** (`list`, and `get` as its head): for a valid
    query key at least as long as every key of a live object, either no live object has a key
    covering the query and nothing is returned, or there is a key `(d', p')` of a live object that
    covers the query and is the longest such, and the result consists of exactly the live objects
    having that key, in strictly ascending primary-key order (hence each once); it is non-empty, and
    a single object for a unique index. -/
theorem LInv.lookup_spec (inv : LInv unique keys primary ix) (hp : POk primary) (key : Key) (plen : Nat)
    (hq : LKeyOk (key, plen))
    (hfull : ∀ pk x, primary.get pk = some x → ∀ k ∈ keys x, k.2 ≤ plen) :
    ((∀ pk x, primary.get pk = some x → ∀ k ∈ (keys x).map normKey, ¬ Covers k.1 k.2 (maskData key plen) plen) ∧
      lpmLookupObjs ix key plen = []) ∨
    (∃ d' p', Covers d' p' (maskData key plen) plen ∧
      (∀ pk x, primary.get pk = some x → ∀ k ∈ (keys x).map normKey,
        Covers k.1 k.2 (maskData key plen) plen → k.2 ≤ p') ∧
      (∀ x, x ∈ lpmLookupObjs ix key plen ↔ primary.get x.id = some x ∧ (d', p') ∈ (keys x).map normKey) ∧
      (lpmLookupObjs ix key plen).Pairwise (fun a b => cmpL a.id b.id = .lt) ∧
      lpmLookupObjs ix key plen ≠ [] ∧
      (unique = true → ∃ x, lpmLookupObjs ix key plen = [x])) := by
  have hc : Canon (maskData key plen) plen := hq.canon
  have hspec := C13_lookup_longest_prefix ix.t inv.wf (maskData key plen) plen hc (inv.full plen hfull)
  unfold lpmLookupObjs
  cases hl : lookup (maskData key plen) plen ix.t 0 none with
  | none =>
    rw [hl] at hspec
    simp only at hspec
    left
    refine ⟨?_, rfl⟩
    intro pk x hx k hk
    obtain ⟨e, he, _⟩ := (inv.char k.1 k.2 pk x).mpr ⟨hx, hk⟩
    exact hspec (k.1, k.2, e) he
  | some e =>
    rw [hl] at hspec
    simp only at hspec
    obtain ⟨d', p', he, hcov, hlong⟩ := hspec
    right
    simp only [Option.getD_some]
    refine ⟨d', p', hcov, ?_, inv.bucket_mem hp he, inv.bucket_ascending hp he, ?_, ?_⟩
    · intro pk x hx k hk hkc
      obtain ⟨e', he', _⟩ := (inv.char k.1 k.2 pk x).mpr ⟨hx, hk⟩
      exact hlong (k.1, k.2, e') he' hkc
    · have := inv.nonempty d' p' e he
      simpa using this
    · intro hu
      obtain ⟨x, rfl⟩ := inv.bucket_single hp hu he
      exact ⟨x, rfl⟩

end lookup

/-! ### iteration: `prefix`, `lowerBound` -/

/-- what the LPM iterators yield, with the index key: one (key, object) pair per stored object -/
def lpmPairs (es : List (Key × Nat × LpmEntry)) : List (Key × Nat × Obj) :=
  es.flatMap fun e => e.2.2.map fun kv => (e.1, e.2.1, kv.2)

theorem lpmObjs_eq_pairs (es : List (Key × Nat × LpmEntry)) : lpmObjs es = (lpmPairs es).map (·.2.2) := by
  unfold lpmObjs lpmPairs
  rw [List.map_flatMap]
  congr 1
  funext e
  obtain ⟨d, p, e⟩ := e
  simp [List.map_map, Function.comp_def]

/-- the iteration order: by index key (`keyLt`: prefix bits, then prefix length), then by primary key -/
def pairLt (a b : Key × Nat × Obj) : Prop :=
  keyLt a.1 a.2.1 b.1 b.2.1 ∨ (a.1 = b.1 ∧ a.2.1 = b.2.1 ∧ cmpL a.2.2.id b.2.2.id = .lt)

theorem mem_lpmPairs (es : List (Key × Nat × LpmEntry)) (d : Key) (p : Nat) (x : Obj) :
    (d, p, x) ∈ lpmPairs es ↔ ∃ e, (d, p, e) ∈ es ∧ x ∈ e.map (·.2) := by
  unfold lpmPairs
  simp only [List.mem_flatMap, List.mem_map, Prod.mk.injEq]
  constructor
  · rintro ⟨⟨d', p', e⟩, he, kv, hkv, rfl, rfl, rfl⟩
    exact ⟨e, he, kv, hkv, rfl⟩
  · rintro ⟨e, he, kv, hkv, rfl⟩
    exact ⟨(d, p, e), he, kv, hkv, rfl, rfl, rfl⟩

theorem lpmPairs_filter (q : Key → Nat → Bool) (es : List (Key × Nat × LpmEntry)) :
    lpmPairs (es.filter fun e => q e.1 e.2.1) = (lpmPairs es).filter fun a => q a.1 a.2.1 := by
  induction es with
  | nil => rfl
  | cons e es ih =>
    unfold lpmPairs at ih ⊢
    rw [List.filter_cons]
    cases hq : q e.1 e.2.1
    · simp only [Bool.false_eq_true, if_false, List.flatMap_cons, List.filter_append]
      rw [ih]
      have : List.filter (fun a : Key × Nat × Obj => q a.1 a.2.1) (e.2.2.map fun kv => (e.1, e.2.1, kv.2)) = [] := by
        rw [List.filter_eq_nil_iff]
        intro a ha
        obtain ⟨kv, _, rfl⟩ := List.mem_map.mp ha
        simp [hq]
      rw [this, List.nil_append]
    · simp only [if_true, List.flatMap_cons, List.filter_append]
      rw [ih]
      have : List.filter (fun a : Key × Nat × Obj => q a.1 a.2.1) (e.2.2.map fun kv => (e.1, e.2.1, kv.2)) =
          e.2.2.map fun kv => (e.1, e.2.1, kv.2) := by
        rw [List.filter_eq_self]
        intro a ha
        obtain ⟨kv, _, rfl⟩ := List.mem_map.mp ha
        simp [hq]
      rw [this]

theorem lpmPairs_append (a b : List (Key × Nat × LpmEntry)) : lpmPairs (a ++ b) = lpmPairs a ++ lpmPairs b :=
  List.flatMap_append

section iteration
variable {unique : Bool} {keys : Obj → List (Key × Nat)} {primary : OMap Obj} {ix : LpmIdx}

/-- **full iteration**: exactly the (normalised key, live object) pairs, none missing, none stale -/
theorem LInv.mem_pairs (inv : LInv unique keys primary ix) (hp : POk primary) (d : Key) (p : Nat) (x : Obj) :
    (d, p, x) ∈ lpmPairs (preorder ix.t) ↔ primary.get x.id = some x ∧ (d, p) ∈ (keys x).map normKey := by
  rw [mem_lpmPairs]
  constructor
  · rintro ⟨e, he, hx⟩
    exact (inv.bucket_mem hp he x).mp hx
  · rintro ⟨hl, hk⟩
    obtain ⟨e, he, hm⟩ := (inv.char d p x.id x).mpr ⟨hl, hk⟩
    exact ⟨e, he, List.mem_map.mpr ⟨(x.id, x), hm, rfl⟩⟩

/-- **full iteration is strictly ascending** by (index key, primary key): every pair once -/
theorem LInv.pairs_ascending (inv : LInv unique keys primary ix) (hp : POk primary) :
    (lpmPairs (preorder ix.t)).Pairwise pairLt := by
  unfold lpmPairs
  rw [List.pairwise_flatMap]
  constructor
  · rintro ⟨d, p, e⟩ he
    have h := inv.bucket_ascending hp he
    rw [List.pairwise_map] at h ⊢
    exact h.imp fun hab => Or.inr ⟨rfl, rfl, hab⟩
  · refine (C13_iteration_ascending ix.t inv.wf).imp ?_
    intro e1 e2 hlt a ha b hb
    obtain ⟨kv1, _, rfl⟩ := List.mem_map.mp ha
    obtain ⟨kv2, _, rfl⟩ := List.mem_map.mp hb
    exact Or.inl hlt

/-- the pairs `prefix` iterates over -/
def lpmPrefixPairs (ix : LpmIdx) (key : Key) (plen : Nat) : List (Key × Nat × Obj) :=
  lpmPairs (preorder (prefixNode (maskData key plen) plen ix.t 0))

/-- **`prefix`**: the (key, live object) pairs whose key is covered by the query, in ascending order -/
theorem LInv.prefix_spec (inv : LInv unique keys primary ix) (hp : POk primary) (key : Key) (plen : Nat)
    (hq : LKeyOk (key, plen)) :
    (lpmPrefixPairs ix key plen).Pairwise pairLt ∧
    (∀ d p x, (d, p, x) ∈ lpmPrefixPairs ix key plen ↔
      primary.get x.id = some x ∧ (d, p) ∈ (keys x).map normKey ∧ Covers (maskData key plen) plen d p) ∧
    ∀ x, x ∈ (lpmPrefixPairs ix key plen).map (·.2.2) ↔
      primary.get x.id = some x ∧ ∃ k ∈ (keys x).map normKey, Covers (maskData key plen) plen k.1 k.2 := by
  have hc : Canon (maskData key plen) plen := hq.canon
  have heq : lpmPrefixPairs ix key plen =
      (lpmPairs (preorder ix.t)).filter fun a => decide (Covers (maskData key plen) plen a.1 a.2.1) := by
    unfold lpmPrefixPairs
    rw [C13_prefix_yields_covered ix.t inv.wf _ _ hc]
    exact lpmPairs_filter (fun d p => decide (Covers (maskData key plen) plen d p)) _
  have hmem : ∀ d p x, (d, p, x) ∈ lpmPrefixPairs ix key plen ↔
      primary.get x.id = some x ∧ (d, p) ∈ (keys x).map normKey ∧ Covers (maskData key plen) plen d p := by
    intro d p x
    rw [heq, List.mem_filter, inv.mem_pairs hp]
    simp only [decide_eq_true_eq, and_assoc]
  refine ⟨?_, hmem, ?_⟩
  · rw [heq]; exact (inv.pairs_ascending hp).filter _
  · intro x
    constructor
    · intro hx
      obtain ⟨⟨d, p, y⟩, hm, rfl⟩ := List.mem_map.mp hx
      obtain ⟨h1, h2, h3⟩ := (hmem d p y).mp hm
      exact ⟨h1, (d, p), h2, h3⟩
    · rintro ⟨h1, ⟨d, p⟩, h2, h3⟩
      exact List.mem_map.mpr ⟨(d, p, x), (hmem d p x).mpr ⟨h1, h2, h3⟩, rfl⟩

/-- the pairs `lowerBound` iterates over -/
def lpmLowerBoundPairs (ix : LpmIdx) (key : Key) (plen : Nat) : List (Key × Nat × Obj) :=
  lpmPairs (lowerBound (maskData key plen) plen ix.t 0 [])

/-- **`lowerBound`**: the suffix of the full iteration starting at the first index key not below the
    query (all objects of that key's bucket included) -/
theorem LInv.lowerBound_spec (inv : LInv unique keys primary ix) (key : Key) (plen : Nat)
    (hq : LKeyOk (key, plen)) :
    ∃ pre, lpmPairs (preorder ix.t) = pre ++ lpmLowerBoundPairs ix key plen ∧
      (∀ a ∈ pre, keyLt a.1 a.2.1 (maskData key plen) plen) ∧
      (∀ a ∈ lpmLowerBoundPairs ix key plen, ¬ keyLt a.1 a.2.1 (maskData key plen) plen) := by
  have hc : Canon (maskData key plen) plen := hq.canon
  obtain ⟨pre, h1, h2, h3⟩ := C13_lowerBound_is_suffix ix.t inv.wf _ _ hc
  refine ⟨lpmPairs pre, ?_, ?_, ?_⟩
  · unfold lpmLowerBoundPairs
    rw [h1, lpmPairs_append]
  · rintro ⟨d, p, x⟩ ha
    obtain ⟨e, he, _⟩ := (mem_lpmPairs pre d p x).mp ha
    exact h2 (d, p, e) he
  · rintro ⟨d, p, x⟩ ha
    obtain ⟨e, he, _⟩ := (mem_lpmPairs _ d p x).mp ha
    exact h3 (d, p, e) he

end iteration

section ownkey
variable {unique : Bool} {keys : Obj → List (Key × Nat)} {primary : OMap Obj} {ix : LpmIdx}

/-- **a key of a live object always finds its own bucket** (no full-length hypothesis): querying with
    a key of a live object yields exactly the live objects having that key, ascending by primary key,
    the object itself among them -/
theorem LInv.lookup_own_key (inv : LInv unique keys primary ix) (hp : POk primary) (pk : Key) (x : Obj)
    (hx : primary.get pk = some x) (k : Key × Nat) (hk : k ∈ keys x) :
    (∀ y, y ∈ lpmLookupObjs ix k.1 k.2 ↔ primary.get y.id = some y ∧ normKey k ∈ (keys y).map normKey) ∧
    (lpmLookupObjs ix k.1 k.2).Pairwise (fun a b => cmpL a.id b.id = .lt) ∧
    x ∈ lpmLookupObjs ix k.1 k.2 ∧
    (unique = true → lpmLookupObjs ix k.1 k.2 = [x]) := by
  have hid := hp.idOk pk x hx
  subst hid
  have hkn : normKey k ∈ (keys x).map normKey := List.mem_map.mpr ⟨k, hk, rfl⟩
  have hc : Canon (normKey k).1 (normKey k).2 := (inv.keysOk x.id x hx k hk).canon
  obtain ⟨e, he, hm⟩ := (inv.char (normKey k).1 (normKey k).2 x.id x).mpr ⟨hx, hkn⟩
  have hl := C13_lookup_stored_prefix ix.t inv.wf _ _ hc e he
  have hobjs : lpmLookupObjs ix k.1 k.2 = e.map (·.2) := by
    unfold lpmLookupObjs
    unfold normKey at hl
    simp only at hl
    rw [hl]; rfl
  rw [hobjs]
  have hxm : x ∈ e.map (·.2) := List.mem_map.mpr ⟨(x.id, x), hm, rfl⟩
  refine ⟨inv.bucket_mem hp he, inv.bucket_ascending hp he, hxm, ?_⟩
  intro hu
  obtain ⟨y, rfl⟩ := inv.bucket_single hp hu he
  simp only [List.map_cons, List.map_nil, List.mem_singleton] at hxm ⊢
  rw [hxm]

end ownkey

/-- the head of a non-empty strictly ascending list is its least element -/
theorem head_least {α : Type} {R : α → α → Prop} (l : List α) (hne : l ≠ []) (hpw : l.Pairwise R) :
    ∃ x, l.head? = some x ∧ x ∈ l ∧ ∀ y ∈ l, y = x ∨ R x y := by
  match l, hne with
  | x :: r, _ =>
    refine ⟨x, rfl, by simp, ?_⟩
    intro y hy
    rcases List.mem_cons.mp hy with h | h
    · exact Or.inl h
    · exact Or.inr ((List.pairwise_cons.mp hpw).1 y h)

/-! ### the queries of the table model -/

theorem qPrefix_lpm (t : TableS) (key : Key) (plen : Nat) :
    qPrefix t .lpm key plen = (lpmPrefixPairs t.lpm key plen).map (·.2.2) := lpmObjs_eq_pairs _
theorem qPrefix_ulpm (t : TableS) (key : Key) (plen : Nat) :
    qPrefix t .ulpm key plen = (lpmPrefixPairs t.ulpm key plen).map (·.2.2) := lpmObjs_eq_pairs _
theorem qLowerBound_lpm (t : TableS) (key : Key) (plen : Nat) :
    qLowerBound t .lpm key plen = (lpmLowerBoundPairs t.lpm key plen).map (·.2.2) := lpmObjs_eq_pairs _
theorem qLowerBound_ulpm (t : TableS) (key : Key) (plen : Nat) :
    qLowerBound t .ulpm key plen = (lpmLowerBoundPairs t.ulpm key plen).map (·.2.2) := lpmObjs_eq_pairs _

/-- **`List` / `Get` on the non-unique LPM index** of a table (see `LInv.lookup_spec`) -/
theorem qList_lpm_spec (t : TableS) (inv : LInv false (·.pfxs) t.primary t.lpm) (hp : POk t.primary)
    (key : Key) (plen : Nat) (hq : LKeyOk (key, plen))
    (hfull : ∀ pk x, t.primary.get pk = some x → ∀ k ∈ x.pfxs, k.2 ≤ plen) :
    ((∀ pk x, t.primary.get pk = some x → ∀ k ∈ x.pfxs.map normKey, ¬ Covers k.1 k.2 (maskData key plen) plen) ∧
      qList t .lpm key plen = [] ∧ qGet t .lpm key plen = none) ∨
    (∃ d' p', Covers d' p' (maskData key plen) plen ∧
      (∀ pk x, t.primary.get pk = some x → ∀ k ∈ x.pfxs.map normKey,
        Covers k.1 k.2 (maskData key plen) plen → k.2 ≤ p') ∧
      (∀ x, x ∈ qList t .lpm key plen ↔ t.primary.get x.id = some x ∧ (d', p') ∈ x.pfxs.map normKey) ∧
      (qList t .lpm key plen).Pairwise (fun a b => cmpL a.id b.id = .lt) ∧
      qList t .lpm key plen ≠ [] ∧
      qGet t .lpm key plen = (qList t .lpm key plen).head?) := by
  rcases inv.lookup_spec hp key plen hq hfull with ⟨h1, h2⟩ | ⟨d', p', h1, h2, h3, h4, h5, _⟩
  · left
    refine ⟨h1, h2, ?_⟩
    rw [qGet_lpm, qList_lpm, h2]; rfl
  · right
    exact ⟨d', p', h1, h2, h3, h4, h5, qGet_lpm t key plen⟩

/-- **`List` / `Get` on the unique LPM index** of a table: the one live object having the longest
    covering key -/
theorem qList_ulpm_spec (t : TableS) (inv : LInv true (·.upKey) t.primary t.ulpm) (hp : POk t.primary)
    (key : Key) (plen : Nat) (hq : LKeyOk (key, plen))
    (hfull : ∀ pk x, t.primary.get pk = some x → ∀ k ∈ x.upKey, k.2 ≤ plen) :
    ((∀ pk x, t.primary.get pk = some x → ∀ k ∈ x.upKey.map normKey, ¬ Covers k.1 k.2 (maskData key plen) plen) ∧
      qList t .ulpm key plen = [] ∧ qGet t .ulpm key plen = none) ∨
    (∃ d' p' x, Covers d' p' (maskData key plen) plen ∧
      (∀ pk y, t.primary.get pk = some y → ∀ k ∈ y.upKey.map normKey,
        Covers k.1 k.2 (maskData key plen) plen → k.2 ≤ p') ∧
      t.primary.get x.id = some x ∧ (d', p') ∈ x.upKey.map normKey ∧
      (∀ y, t.primary.get y.id = some y → (d', p') ∈ y.upKey.map normKey → y = x) ∧
      qList t .ulpm key plen = [x] ∧ qGet t .ulpm key plen = some x) := by
  rcases inv.lookup_spec hp key plen hq hfull with ⟨h1, h2⟩ | ⟨d', p', h1, h2, h3, _, _, h6⟩
  · left
    refine ⟨h1, h2, ?_⟩
    rw [qGet_ulpm, qList_ulpm, h2]; rfl
  · right
    obtain ⟨x, hx⟩ := h6 rfl
    have hxm := (h3 x).mp (by rw [hx]; simp)
    refine ⟨d', p', x, h1, h2, hxm.1, hxm.2, ?_, hx, ?_⟩
    · intro y hy1 hy2
      have := (h3 y).mpr ⟨hy1, hy2⟩
      rw [hx] at this
      simpa using this
    · rw [qGet_ulpm, qList_ulpm, hx]; rfl

/-- **`Get` on the non-unique LPM index returns the match with the least primary key** -/
theorem qGet_lpm_least (t : TableS) (inv : LInv false (·.pfxs) t.primary t.lpm) (hp : POk t.primary)
    (key : Key) (plen : Nat) (hq : LKeyOk (key, plen))
    (hfull : ∀ pk x, t.primary.get pk = some x → ∀ k ∈ x.pfxs, k.2 ≤ plen)
    (hne : qList t .lpm key plen ≠ []) :
    ∃ x, qGet t .lpm key plen = some x ∧ x ∈ qList t .lpm key plen ∧
      ∀ y ∈ qList t .lpm key plen, y = x ∨ cmpL x.id y.id = .lt := by
  rcases qList_lpm_spec t inv hp key plen hq hfull with ⟨_, h, _⟩ | ⟨_, _, _, _, _, hpw, _, hg⟩
  · exact absurd h hne
  · rw [hg]; exact head_least _ hne hpw

/-- **querying with a key of a live object** (`QueryFromObject`), non-unique LPM index -/
theorem qList_lpm_own_key (t : TableS) (inv : LInv false (·.pfxs) t.primary t.lpm) (hp : POk t.primary)
    (pk : Key) (x : Obj) (hx : t.primary.get pk = some x) (k : Key × Nat) (hk : k ∈ x.pfxs) :
    (∀ y, y ∈ qList t .lpm k.1 k.2 ↔ t.primary.get y.id = some y ∧ normKey k ∈ y.pfxs.map normKey) ∧
    (qList t .lpm k.1 k.2).Pairwise (fun a b => cmpL a.id b.id = .lt) ∧
    x ∈ qList t .lpm k.1 k.2 := by
  obtain ⟨h1, h2, h3, _⟩ := inv.lookup_own_key hp pk x hx k hk
  exact ⟨h1, h2, h3⟩

/-- **querying with the key of a live object**, unique LPM index: the object itself -/
theorem qList_ulpm_own_key (t : TableS) (inv : LInv true (·.upKey) t.primary t.ulpm) (hp : POk t.primary)
    (pk : Key) (x : Obj) (hx : t.primary.get pk = some x) (k : Key × Nat) (hk : k ∈ x.upKey) :
    qList t .ulpm k.1 k.2 = [x] ∧ qGet t .ulpm k.1 k.2 = some x := by
  obtain ⟨_, _, _, h4⟩ := inv.lookup_own_key hp pk x hx k hk
  have h := h4 rfl
  refine ⟨h, ?_⟩
  rw [qGet_ulpm, qList_ulpm, h]; rfl

/-- **`Prefix` on the LPM indexes**: exactly the live objects with a key covered by the query; the
    underlying (key, object) pairs are strictly ascending in (index key, primary key) -/
theorem qPrefix_lpm_spec (t : TableS) (inv : LInv false (·.pfxs) t.primary t.lpm) (hp : POk t.primary)
    (key : Key) (plen : Nat) (hq : LKeyOk (key, plen)) :
    ∃ l : List (Key × Nat × Obj), qPrefix t .lpm key plen = l.map (·.2.2) ∧ l.Pairwise pairLt ∧
      (∀ d p x, (d, p, x) ∈ l ↔
        t.primary.get x.id = some x ∧ (d, p) ∈ x.pfxs.map normKey ∧ Covers (maskData key plen) plen d p) ∧
      ∀ x, x ∈ qPrefix t .lpm key plen ↔
        t.primary.get x.id = some x ∧ ∃ k ∈ x.pfxs.map normKey, Covers (maskData key plen) plen k.1 k.2 := by
  obtain ⟨h1, h2, h3⟩ := inv.prefix_spec hp key plen hq
  refine ⟨_, qPrefix_lpm t key plen, h1, h2, ?_⟩
  rw [qPrefix_lpm]; exact h3

theorem qPrefix_ulpm_spec (t : TableS) (inv : LInv true (·.upKey) t.primary t.ulpm) (hp : POk t.primary)
    (key : Key) (plen : Nat) (hq : LKeyOk (key, plen)) :
    ∃ l : List (Key × Nat × Obj), qPrefix t .ulpm key plen = l.map (·.2.2) ∧ l.Pairwise pairLt ∧
      (∀ d p x, (d, p, x) ∈ l ↔
        t.primary.get x.id = some x ∧ (d, p) ∈ x.upKey.map normKey ∧ Covers (maskData key plen) plen d p) ∧
      ∀ x, x ∈ qPrefix t .ulpm key plen ↔
        t.primary.get x.id = some x ∧ ∃ k ∈ x.upKey.map normKey, Covers (maskData key plen) plen k.1 k.2 := by
  obtain ⟨h1, h2, h3⟩ := inv.prefix_spec hp key plen hq
  refine ⟨_, qPrefix_ulpm t key plen, h1, h2, ?_⟩
  rw [qPrefix_ulpm]; exact h3

/-- **`LowerBound` on the LPM indexes**: the full iteration (`all`: the (key, live object) pairs in
    ascending order, `LInv.mem_pairs` / `LInv.pairs_ascending`) splits into the pairs with an index key
    below the query and the pairs `LowerBound` yields, none of which is below the query -/
theorem qLowerBound_lpm_spec (t : TableS) (inv : LInv false (·.pfxs) t.primary t.lpm) (hp : POk t.primary)
    (key : Key) (plen : Nat) (hq : LKeyOk (key, plen)) :
    ∃ pre l : List (Key × Nat × Obj), qLowerBound t .lpm key plen = l.map (·.2.2) ∧
      (pre ++ l).Pairwise pairLt ∧
      (∀ d p x, (d, p, x) ∈ pre ++ l ↔ t.primary.get x.id = some x ∧ (d, p) ∈ x.pfxs.map normKey) ∧
      (∀ a ∈ pre, keyLt a.1 a.2.1 (maskData key plen) plen) ∧
      (∀ a ∈ l, ¬ keyLt a.1 a.2.1 (maskData key plen) plen) := by
  obtain ⟨pre, h1, h2, h3⟩ := inv.lowerBound_spec key plen hq
  refine ⟨pre, _, qLowerBound_lpm t key plen, ?_, ?_, h2, h3⟩
  · rw [← h1]; exact inv.pairs_ascending hp
  · intro d p x; rw [← h1]; exact inv.mem_pairs hp d p x

theorem qLowerBound_ulpm_spec (t : TableS) (inv : LInv true (·.upKey) t.primary t.ulpm) (hp : POk t.primary)
    (key : Key) (plen : Nat) (hq : LKeyOk (key, plen)) :
    ∃ pre l : List (Key × Nat × Obj), qLowerBound t .ulpm key plen = l.map (·.2.2) ∧
      (pre ++ l).Pairwise pairLt ∧
      (∀ d p x, (d, p, x) ∈ pre ++ l ↔ t.primary.get x.id = some x ∧ (d, p) ∈ x.upKey.map normKey) ∧
      (∀ a ∈ pre, keyLt a.1 a.2.1 (maskData key plen) plen) ∧
      (∀ a ∈ l, ¬ keyLt a.1 a.2.1 (maskData key plen) plen) := by
  obtain ⟨pre, h1, h2, h3⟩ := inv.lowerBound_spec key plen hq
  refine ⟨pre, _, qLowerBound_ulpm t key plen, ?_, ?_, h2, h3⟩
  · rw [← h1]; exact inv.pairs_ascending hp
  · intro d p x; rw [← h1]; exact inv.mem_pairs hp d p x

/-! ### non-vacuity: a concrete run (duplicate keys after normalisation, shrinking key set, shared bucket) -/

private def exA : Obj :=
  { id := [1], val := 0, uvar := 0, tags := [], up := false, ord := 0, rev := 1,
    pfxs := [([10, 1], 16), ([10, 1, 255], 16), ([10, 77], 8)] }
private def exB : Obj := { exA with id := [2], pfxs := [([10, 1], 16)], rev := 2 }
private def exA' : Obj := { exA with pfxs := [([10], 8)], rev := 3 }
private def exIx1 : LpmIdx := reindexLpm false {} [1] none (some exA) (·.pfxs)
private def exIx2 : LpmIdx := reindexLpm false exIx1 [2] none (some exB) (·.pfxs)
private def exIx3 : LpmIdx := reindexLpm false exIx2 [1] (some exA) (some exA') (·.pfxs)
private def exIx4 : LpmIdx := reindexLpm false exIx3 [2] (some exB) none (·.pfxs)
private def exIx5 : LpmIdx := reindexLpm false exIx4 [1] (some exA') none (·.pfxs)

example :
    lpmPairs (preorder exIx2.t) = [([10], 8, exA), ([10, 1], 16, exA), ([10, 1], 16, exB)] ∧
    lpmPairs (preorder exIx3.t) = [([10], 8, exA'), ([10, 1], 16, exB)] ∧
    lpmLookupObjs exIx2 [10, 1, 9] 24 = [exA, exB] ∧
    lpmLookupObjs exIx3 [10, 2, 9] 24 = [exA'] ∧
    lpmPairs (preorder exIx4.t) = [([10], 8, exA')] ∧
    (match exIx5.t with | .nil => true | _ => false) = true := by decide

/-- the uniqueness obligation `hu` of `LInv.reindex_modify` is needed: when a second live object is
    written with a key of a unique index that another live object has, `insertKey` overwrites the
    bucket and the first object is no longer found under its key (Go: `entry.head = ...`) -/
example :
    let u1 : Obj := { exA with pfxs := [], up := true, ord := 5 }
    let u2 : Obj := { u1 with id := [2] }
    let ix := reindexLpm true (reindexLpm true {} [1] none (some u1) (·.upKey)) [2] none (some u2) (·.upKey)
    lpmPairs (preorder ix.t) = [([0, 5], 16, u2)] := by decide

end Sdb.Tbl
