import SdbModel.Lemmas.ConcInitMicro

/-!
  ConcInitReach — the invariant `CI` holds in every reachable state of
  `Model.Conc` (protocols of the shape `initShape`, any threads, any schedule).
  Core Lean only.
-/
namespace Sdb.Conc

/-! ### a scheduler step ends at a park, a blocked lock or the end of the program -/

theorem runThread_head (tid : Nat) : ∀ (fuel : Nat) (st : State) (th : Thread), th.prog.length < fuel →
    ∀ a, (runThread st tid th fuel).2.1.prog.head? ≠ some (.act a) := by
  intro fuel
  induction fuel with
  | zero => intro st th h; omega
  | succ n ih =>
    intro st th hn a
    cases hp : th.prog with
    | nil =>
      rw [runThread_nil _ _ _ _ hp]
      simp [hp]
    | cons x rest =>
      rw [hp] at hn
      simp only [List.length_cons] at hn
      cases x with
      | park l => rw [runThread_park _ _ _ _ _ _ hp]; simp [hp]
      | acquire t =>
        by_cases hb : (st.lockOwner.getD t none).isSome = true
        · rw [runThread_acquire_blocked _ _ _ _ _ _ hp hb]; simp [hp]
        · rw [runThread_acquire _ _ _ _ _ _ hp hb]
          exact ih _ _ (by simp; omega) a
      | release t =>
        rw [runThread_release _ _ _ _ _ _ hp]
        exact ih _ _ (by simp; omega) a
      | acquireRoot =>
        by_cases hb : st.rootMu.isSome = true
        · rw [runThread_acquireRoot_blocked _ _ _ _ _ hp hb]; simp [hp]
        · rw [runThread_acquireRoot _ _ _ _ _ hp hb]
          exact ih _ _ (by simp; omega) a
      | releaseRoot =>
        rw [runThread_releaseRoot _ _ _ _ _ hp]
        exact ih _ _ (by simp; omega) a
      | act b =>
        rw [runThread_act _ _ _ _ _ _ hp]
        exact ih _ _ (by rw [doAct_prog]; simp; omega) a
      | userWrites =>
        rw [runThread_userWrites _ _ _ _ _ hp]
        have := (doUserWrites_spec st { th with prog := rest }).2.2.2.2.2.2.1
        exact ih _ _ (by rw [this]; simp; omega) a

/-- `step_cases` with the additional fact that the installed record rests -/
theorem step_cases2 (st : State) (tid : Nat) :
    (step st tid).1 = st ∨
    ∃ (th : Thread) (st' : State) (th' : Thread), st.threads[tid]? = some th ∧ th.done = false ∧
      MStar tid (st, th) (st', th') ∧ (step st tid).1 = install st' tid th' ∧
      ∀ a, th'.prog.head? ≠ some (.act a) := by
  unfold step
  split
  · exact Or.inl rfl
  · rename_i th hth
    by_cases hd : th.done = true
    · simp [hd]
    · have hd' : th.done = false := by simpa using hd
      rw [if_neg hd]
      by_cases he : (!th.enabled st) = true
      · simp [he]
      · rw [if_neg he]
        right
        refine ⟨th, _, _, hth, hd', ?_, rfl, ?_⟩
        · cases hp : th.prog with
          | nil => simp only []; exact runThread_mstar tid _ st th hd'
          | cons m rest =>
            cases m with
            | park l =>
              simp only []
              refine MStar.head (b := (st, { th with prog := rest })) ?_ (runThread_mstar tid _ _ _ (by simpa using hd'))
              simp only [mstep, hp]
            | _ => simp only []; exact runThread_mstar tid _ st th hd'
        · intro a
          apply runThread_head
          omega

/-! ### scheduler steps -/

theorem CI_run_start (st : State) (cs : List Bool) (tid : Nat) (h : CI st cs none) : CI st cs (some tid) :=
  { h with RS := fun j thj hj _ => h.RS j thj hj (by simp) }

theorem CI_run_end (st : State) (cs : List Bool) (tid : Nat) (h : CI st cs (some tid))
    (hrest : ∀ th, st.threads[tid]? = some th → th.prog.head? ≠ some (.act .storeRoot)) : CI st cs none := by
  have hRS : ∀ (j : Nat) (thj : Thread), st.threads[j]? = some thj → some j ≠ (none : Option Nat) →
      thj.prog.head? ≠ some (.act .storeRoot) := by
    intro j thj hj _
    by_cases hjt : j = tid
    · subst hjt; exact hrest thj hj
    · exact h.RS j thj hj (by simpa using hjt)
  exact { h with RS := hRS }

theorem CI_step (st : State) (cs : List Bool) (tid : Nat) (hsim : Sim st cs) (h : CI st cs none) :
    CI (step st tid).1 cs none := by
  rcases step_cases2 st tid with he | ⟨th, st', th', hth, hd, hstar, he, hhead⟩
  · rw [he]; exact h
  · rw [he]
    have htid : tid < st.threads.length := lt_of_getElem?_some _ _ _ hth
    have ha : RunInv tid cs (st, th) :=
      ⟨by rw [install_self st tid th hth]; exact hsim, htid, fun hd' => by simp [hd] at hd'⟩
    have hJ := RunInv_mstar_with tid cs (fun a => CI (install a.1 tid a.2) cs (some tid))
      (fun a b hra hja hms _ => CI_mstep a.1 cs tid a.2 b.1 b.2 hra.1 hra.2.1 hja hms) hstar ha
      (by show CI (install st tid th) cs (some tid); rw [install_self st tid th hth]; exact CI_run_start st cs tid h)
    apply CI_run_end _ cs tid hJ
    intro th'' hth''
    have hlt : tid < st'.threads.length := by
      have := mstar_threads hstar
      simp only at this; rw [this]; exact htid
    rw [install_get _ _ _ _ hlt] at hth''
    simp only [if_true, Option.some.injEq] at hth''
    subst hth''
    exact hhead _

/-! ### the initial state and the spawning of threads -/

theorem getT_init (n x : Nat) (hx : x < n) :
    getT ((List.range n).map fun i => ({ watch := i + 1 } : TableV)) x = { watch := x + 1 } :=
  getT_map_range _ _ x hx

theorem CI_init (n : Nat) : CI (initState n) [] none := by
  have hlen : (initState n).root.length = n := by simp [initState]
  have hget : ∀ x, x < n → getT (initState n).root x = { watch := x + 1 } := fun x hx => getT_init n x hx
  have hch : ∀ x w, x < n → chansOf (getT (initState n).root x) w → w = x + 1 := by
    intro x w hx hw
    rw [hget x hx] at hw
    rcases hw with h | ⟨h1, h2⟩
    · exact h
    · exact absurd h1 h2
  constructor
  · rfl
  · show 1 ≤ n + 1; omega
  · intro w ⟨x, hx, hw⟩
    rw [hlen] at hx
    have := hch x w hx hw
    show w < n + 1; omega
  · intro w hw; simp [initState] at hw
  · intro tid th c w hth; simp [initState] at hth
  · intro w _ hw; simp [initState] at hw
  · intro tid th c w hth; simp [initState] at hth
  · intro tid th c w hth; simp [initState] at hth
  · intro tid tid' th th' c c' w _ hth; simp [initState] at hth
  · intro x y hx hy hxy w cx cy
    rw [hlen] at hx hy
    have := hch x w hx cx
    have := hch y w hy cy
    omega
  · intro x hx hne
    rw [hlen] at hx
    rw [hget x hx] at hne
    exact absurd rfl hne
  · intro tid th c hth; simp [initState] at hth
  · intro x hx
    rw [hlen] at hx
    rw [hget x hx]; simp
  · intro x hx
    rw [hlen] at hx
    rw [hget x hx]
  · intro w hw; simp [initState] at hw
  · intro tid th hth; simp [initState] at hth
  · intro tid th hth; simp [initState] at hth

/-- a new thread without private channels -/
theorem CI_spawn (st : State) (cs : List Bool) (thn : Thread) (c : Bool) (h : CI st cs none)
    (hpriv : ∀ w, ¬ priv thn c w)
    (hok : ThreadOK st.root st.nextChan thn c)
    (hhead : thn.prog.head? ≠ some (.act .storeRoot)) :
    CI { st with threads := st.threads ++ [thn] } (cs ++ [c]) none := by
  have look : ∀ (j : Nat) (thj : Thread) (cj : Bool), (st.threads ++ [thn])[j]? = some thj → (cs ++ [c])[j]? = some cj →
      (st.threads[j]? = some thj ∧ cs[j]? = some cj) ∨ (thj = thn ∧ cj = c) := by
    intro j thj cj hj hcj
    by_cases hlt : j < st.threads.length
    · rw [List.getElem?_append_left hlt] at hj
      rw [List.getElem?_append_left (by rw [h.len]; exact hlt)] at hcj
      exact Or.inl ⟨hj, hcj⟩
    · have hlen := lt_of_getElem?_some _ _ _ hj
      simp only [List.length_append, List.length_singleton] at hlen
      have he : j = st.threads.length := by omega
      subst he
      simp only [List.getElem?_concat_length, Option.some.injEq] at hj
      rw [← h.len] at hcj
      simp only [List.getElem?_concat_length, Option.some.injEq] at hcj
      exact Or.inr ⟨hj.symm, hcj.symm⟩
  have lookT : ∀ (j : Nat) (thj : Thread), (st.threads ++ [thn])[j]? = some thj →
      st.threads[j]? = some thj ∨ (j = st.threads.length ∧ thj = thn) := by
    intro j thj hj
    by_cases hlt : j < st.threads.length
    · rw [List.getElem?_append_left hlt] at hj; exact Or.inl hj
    · have hlen := lt_of_getElem?_some _ _ _ hj
      simp only [List.length_append, List.length_singleton] at hlen
      have he : j = st.threads.length := by omega
      subst he
      simp only [List.getElem?_concat_length, Option.some.injEq] at hj
      exact Or.inr ⟨rfl, hj.symm⟩
  constructor
  · simp [h.len]
  · exact h.nc
  · exact h.bR
  · exact h.bC
  · intro j thj cj w hj hcj hp
    rcases look j thj cj hj hcj with ⟨a, b⟩ | ⟨rfl, rfl⟩
    · exact h.bP j thj cj w a b hp
    · exact absurd hp (hpriv w)
  · exact h.RC
  · intro j thj cj w hj hcj hp
    rcases look j thj cj hj hcj with ⟨a, b⟩ | ⟨rfl, rfl⟩
    · exact h.PC j thj cj w a b hp
    · exact absurd hp (hpriv w)
  · intro j thj cj w hj hcj hp
    rcases look j thj cj hj hcj with ⟨a, b⟩ | ⟨rfl, rfl⟩
    · exact h.PR j thj cj w a b hp
    · exact absurd hp (hpriv w)
  · intro j j' thj thj' cj cj' w hne hj hj' hcj hcj' hp hp'
    rcases look j thj cj hj hcj with ⟨a, b⟩ | ⟨rfl, rfl⟩
    · rcases look j' thj' cj' hj' hcj' with ⟨a', b'⟩ | ⟨rfl, rfl⟩
      · exact h.PP j j' thj thj' cj cj' w hne a a' b b' hp hp'
      · exact absurd hp' (hpriv w)
    · exact absurd hp (hpriv w)
  · exact h.RI
  · exact h.RW
  · intro j thj cj hj hcj
    rcases look j thj cj hj hcj with ⟨a, b⟩ | ⟨rfl, rfl⟩
    · exact h.FIc j thj cj a b
    · intro hfp x hx y hy hxy w fx _
      exact hpriv w (Or.inl ⟨hfp, x, hx, fx⟩)
  · exact h.IP
  · exact h.RV
  · intro w hw
    obtain ⟨j, thj, hj, hcj, rest⟩ := h.CO w hw
    have hlt := lt_of_getElem?_some _ _ _ hj
    refine ⟨j, thj, ?_, ?_, rest⟩
    · show (st.threads ++ [thn])[j]? = some thj
      rw [List.getElem?_append_left hlt]; exact hj
    · rw [List.getElem?_append_left (by rw [h.len]; exact hlt)]; exact hcj
  · intro j thj hj
    rcases lookT j thj hj with a | ⟨rfl, rfl⟩
    · obtain ⟨cj, hcj, hrest⟩ := h.TH j thj a
      have hlt := lt_of_getElem?_some _ _ _ a
      exact ⟨cj, by rw [List.getElem?_append_left (by rw [h.len]; exact hlt)]; exact hcj, hrest⟩
    · exact ⟨c, by rw [← h.len]; simp, hok⟩
  · intro j thj hj _
    rcases lookT j thj hj with a | ⟨rfl, rfl⟩
    · exact h.RS j thj a (by simp)
    · exact hhead

theorem CI_writer (P : Protocol) (hP : P.initShape = true) (st : State) (cs : List Bool) (tabs : List Nat)
    (commit : Bool) (markInit regInit : List Nat) (h : CI st cs none)
    (hb : ∀ x ∈ tabs, x < st.root.length ∧ x < st.lockOwner.length) :
    CI (spawnWriter P st tabs commit markInit regInit) (cs ++ [commit]) none := by
  let thn : Thread := { prog := writerProg P tabs commit, tables := tabs, markInit := markInit, regInit := regInit }
  have hstrip : strip2 thn.prog = code2 (lockList thn) commit (.acq 0) := strip2_writerProg P hP tabs commit
  obtain ⟨t1, t2, _, _⟩ := tracked_of_pos thn _ commit _ hstrip
  have huw : Micro.userWrites ∈ thn.prog := t1.2 rfl
  have hsr : commit = true → Micro.act .storeRoot ∈ thn.prog := fun hc => t2.2 (by simp [srIn, hc])
  refine CI_spawn st cs thn commit h ?_ ⟨?_, adjOK_writerProg P hP tabs commit, .acq 0, hstrip, trivial⟩ ?_
  · intro w hw
    rcases hw with ⟨⟨h1, _⟩, _⟩ | ⟨h1, h2, _⟩ | ⟨h1, h2, _⟩
    · exact h1 huw
    · exact h2 (hsr h1)
    · exact h2 (hsr h1)
  · intro x hx
    exact (hb x ((mem_lockList thn x).1 hx)).1
  · show (writerProg P tabs commit).head? ≠ _
    simp [writerProg]

theorem CI_register (P : Protocol) (hP : P.initShape = true) (st : State) (cs : List Bool) (h : CI st cs none) :
    CI (spawnRegister P st) (cs ++ [false]) none := by
  let thn : Thread := { prog := registerProg P }
  have hL : lockList thn = [] := lockList_nil' thn rfl
  refine CI_spawn st cs thn false h ?_ ⟨?_, adjOK_registerProg P hP, .gA, ?_, rfl, rfl⟩ ?_
  · intro w hw
    rcases hw with ⟨_, x, hx, _⟩ | ⟨h1, _⟩ | ⟨h1, _⟩
    · rw [hL] at hx; simp at hx
    · simp at h1
    · simp at h1
  · intro x hx; rw [hL] at hx; simp at hx
  · rw [hL]; exact strip2_registerProg P hP false
  · show (registerProg P).head? ≠ _
    simp [registerProg]

theorem CI_registerDup (P : Protocol) (hP : P.initShape = true) (st : State) (cs : List Bool) (h : CI st cs none) :
    CI (spawnRegisterDup P st) (cs ++ [false]) none := by
  let thn : Thread := { prog := registerDupProg P }
  have hL : lockList thn = [] := lockList_nil' thn rfl
  refine CI_spawn st cs thn false h ?_ ⟨?_, adjOK_registerDupProg P hP, .dA, ?_, rfl, rfl⟩ ?_
  · intro w hw
    rcases hw with ⟨_, x, hx, _⟩ | ⟨h1, _⟩ | ⟨h1, _⟩
    · rw [hL] at hx; simp at hx
    · simp at h1
    · simp at h1
  · intro x hx; rw [hL] at hx; simp at hx
  · rw [hL]; exact strip2_registerDupProg P hP false
  · show (registerDupProg P).head? ≠ _
    simp [registerDupProg]

/-- **the invariant holds in every reachable state** -/
theorem reach_CI (P : Protocol) (hP : P.initShape = true) (n : Nat) (st : State) (cs : List Bool)
    (h : Reach P n st cs) : CI st cs none := by
  induction h with
  | init => exact CI_init n
  | writer st cs tabs commit mi ri _ hb ih => exact CI_writer P hP st cs tabs commit mi ri ih hb
  | register st cs _ ih => exact CI_register P hP st cs ih
  | registerDup st cs _ ih => exact CI_registerDup P hP st cs ih
  | step st cs tid hr ih => exact CI_step st cs tid (reach_sim P (initShape_simShape P hP) n st cs hr) ih

end Sdb.Conc
