import SdbModel.Lemmas.ReconcilerProgressRound

/-!
  Lemmas.ReconcilerProgressLW — the retry low-watermark a round reports
  (`progressLW`): it is read after the due retries were processed and BEFORE
  their status commits re-queue the ones that failed again.
-/
namespace Sdb.Rec

/-- `retries.LowWatermark` as a function of the retry items -/
def lwOf (items : List Item) : Nat :=
  match (items.filter (·.inRevQueue)).map (·.origRev) with
  | [] => 0
  | x :: xs => xs.foldl min x

theorem lowWatermark_eq (r : R) : r.lowWatermark = lwOf r.items := rfl

theorem foldl_min_le' (l : List Nat) (x : Nat) : l.foldl min x ≤ x ∧ ∀ y ∈ l, l.foldl min x ≤ y := by
  induction l generalizing x with
  | nil => simp
  | cons a as ih =>
    simp only [List.foldl_cons, List.mem_cons]
    obtain ⟨h1, h2⟩ := ih (min x a)
    refine ⟨by omega, ?_⟩
    intro y hy
    rcases hy with rfl | hy
    · omega
    · exact h2 y hy

theorem foldl_min_mem' (l : List Nat) (x : Nat) : l.foldl min x = x ∨ l.foldl min x ∈ l := by
  induction l generalizing x with
  | nil => simp
  | cons a as ih =>
    simp only [List.foldl_cons, List.mem_cons]
    rcases ih (min x a) with h | h
    · rw [h]
      rcases Nat.le_total x a with hxa | hxa
      · left; omega
      · right; left; omega
    · right; right; exact h

/-- the low-watermark is the least `origRev` of the items awaiting retry (0: none) -/
theorem lwOf_spec (items : List Item) (hpos : ∀ i ∈ items, 0 < i.origRev) (hrq : ∀ i ∈ items, i.inRevQueue = true) :
    (lwOf items = 0 ↔ items = []) ∧ (∀ i ∈ items, lwOf items ≤ i.origRev) ∧ (items ≠ [] → ∃ i ∈ items, lwOf items = i.origRev) := by
  unfold lwOf
  have hf : items.filter (·.inRevQueue) = items := List.filter_eq_self.2 hrq
  rw [hf]
  cases items with
  | nil => simp
  | cons a as =>
    simp only [List.map_cons]
    obtain ⟨h1, h2⟩ := foldl_min_le' (as.map (·.origRev)) a.origRev
    have hm := foldl_min_mem' (as.map (·.origRev)) a.origRev
    refine ⟨⟨?_, by simp⟩, ?_, ?_⟩
    · intro h0
      rcases hm with hm | hm
      · have := hpos a (List.mem_cons_self ..); omega
      · rw [h0] at hm
        simp only [List.mem_map] at hm
        obtain ⟨i, hi, hi0⟩ := hm
        have := hpos i (List.mem_cons_of_mem _ hi); omega
    · intro i hi
      simp only [List.mem_cons] at hi
      rcases hi with rfl | hi
      · exact h1
      · exact h2 _ (List.mem_map_of_mem hi)
    · intro _
      rcases hm with hm | hm
      · exact ⟨a, List.mem_cons_self .., hm⟩
      · simp only [List.mem_map] at hm
        obtain ⟨i, hi, hie⟩ := hm
        exact ⟨i, List.mem_cons_of_mem _ hi, hie.symm⟩

/-- two item lists with the same `origRev`s have the same low-watermark -/
theorem lwOf_congr (l1 l2 : List Item) (hp1 : ∀ i ∈ l1, 0 < i.origRev) (hq1 : ∀ i ∈ l1, i.inRevQueue = true)
    (hp2 : ∀ i ∈ l2, 0 < i.origRev) (hq2 : ∀ i ∈ l2, i.inRevQueue = true)
    (h12 : ∀ i ∈ l1, ∃ j ∈ l2, j.origRev = i.origRev) (h21 : ∀ j ∈ l2, ∃ i ∈ l1, i.origRev = j.origRev) :
    lwOf l1 = lwOf l2 := by
  obtain ⟨a1, b1, c1⟩ := lwOf_spec l1 hp1 hq1
  obtain ⟨a2, b2, c2⟩ := lwOf_spec l2 hp2 hq2
  by_cases hn : l1 = []
  · have hn2 : l2 = [] := by
      cases h2 : l2 with
      | nil => rfl
      | cons j js =>
        obtain ⟨i, hi, _⟩ := h21 j (by rw [h2]; exact List.mem_cons_self ..)
        rw [hn] at hi; cases hi
    rw [a1.2 hn, a2.2 hn2]
  · obtain ⟨i, hi, ei⟩ := c1 hn
    obtain ⟨i', hi', ei'⟩ := h12 i hi
    have hn2 : l2 ≠ [] := by intro e; rw [e] at hi'; cases hi'
    obtain ⟨j, hj, ej⟩ := c2 hn2
    obtain ⟨j', hj', ej'⟩ := h21 j hj
    have := b2 i' hi'
    have := b1 j' hj'
    omega

/-! ## while the due retries are processed: a failed result stands for a popped item -/

/-- every failed result waiting for its commit stands for a popped item; failed results are for
    different objects -/
def RP (v : V) (rs : List Res) : Prop :=
  (∀ res ∈ rs, res.2.2.2.2 = true → ∃ it ∈ v.items, it.id = res.1.id ∧ it.inQueue = false ∧ it.rev = res.2.2.1 ∧ it.obj = res.2.1) ∧
  rs.Pairwise (fun a b => a.2.2.2.2 = true → b.2.2.2.2 = true → a.1.id ≠ b.1.id)

theorem mem_single_other {v : V} {i : Item} {X : Nat} (hi : i ∈ v.items) (hne : i.id ≠ X) (o : RObj) (ho : o.id = X) (rev : Nat) (d f : Bool) :
    i ∈ ((v.pop X).single o rev d f).items := by
  have hp : i ∈ (v.pop X).items := by
    simp only [pop_items, List.mem_map]
    exact ⟨i, hi, popItem_of_ne hne⟩
  cases d <;> cases f
  · rw [single_uf]; simp only [clear_items, call_items, List.mem_filter]; exact ⟨hp, by simp; omega⟩
  · rw [single_ut]; exact hp
  · rw [single_df]; simp only [clear_items, call_items, List.mem_filter]; exact ⟨hp, by simp; omega⟩
  · rw [single_dt]; exact (mem_add_items ..).2 (Or.inl ⟨hp, by omega⟩)

theorem rp_retry (r r' : R) (h : Item) (hI : InvL r r.results) (_ : CaughtUp r) (hh : r.head = some h) (_ : h.retryAt ≤ r.now)
    (_ : r.numReconciled < r.cfg.roundSize)
    (hv : r'.v = (r.v.pop h.id).single h.obj h.rev h.delete (r.isFailing h.obj.id))
    (hres : r'.results = r.results ++ resOf h.obj h.rev h.delete (r.isFailing h.obj.id)) (_ : InvL r' r'.results)
    (hq : RP r.v r.results) : RP r'.v r'.results := by
  obtain ⟨hit0, hq0, _⟩ := head_spec hh
  have hobj := (hI.itemOK h hit0).1
  rw [hv, hres]
  refine ⟨fun res hr hf => ?_, ?_⟩
  · rcases List.mem_append.1 hr with hr | hr
    · obtain ⟨it, hit, e1, e2, e3, e4⟩ := hq.1 res hr hf
      have hne : it.id ≠ h.id := by
        intro e
        have := items_eq_of_id hI hit hit0 e
        rw [this, hq0] at e2; cases e2
      exact ⟨it, mem_single_other hit hne h.obj hobj h.rev _ _, e1, e2, e3, e4⟩
    · unfold resOf at hr
      cases hdel : h.delete with
      | true => rw [hdel] at hr; simp at hr
      | false =>
        rw [hdel] at hr
        simp only [Bool.false_eq_true, if_false, List.mem_singleton] at hr
        rw [hr] at hf
        simp only at hf
        rw [hf, single_ut]
        refine ⟨popItem h.id h, ?_, ?_, ?_, ?_, ?_⟩
        · simp only [call_items, pop_items, List.mem_map]; exact ⟨h, hit0, rfl⟩
        · rw [hr]; simp only [popItem_id]; exact hobj.symm
        · rw [popItem_of_eq rfl]
        · rw [hr]; simp
        · rw [hr]; simp
  · rw [List.pairwise_append]
    refine ⟨hq.2, ?_, fun a ha b hb hfa _ => ?_⟩
    · unfold resOf; split <;> simp
    · obtain ⟨it, hit, e1, e2, _, _⟩ := hq.1 a ha hfa
      have hbid : b.1.id = h.obj.id := by
        unfold resOf at hb
        split at hb
        · cases hb
        · simp only [List.mem_singleton] at hb; rw [hb]
      rw [hbid, hobj, ← e1]
      intro e
      have := items_eq_of_id hI hit hit0 e
      rw [this, hq0] at e2; cases e2

theorem rp_nil (v : V) : RP v [] := ⟨fun res hr => (by cases hr), List.Pairwise.nil⟩

/-! ## the status commits after the low-watermark was read keep every `origRev` -/

/-- the motive of the second status commit, relative to the items `I5` of the state the
    low-watermark was read in: the same `origRev`s -/
def M2 (I5 : List Item) (v : V) (rs : List Res) : Prop :=
  (∀ it ∈ v.items, ∃ it5 ∈ I5, it5.origRev = it.origRev) ∧ (∀ it5 ∈ I5, ∃ it ∈ v.items, it.origRev = it5.origRev) ∧ RP v rs

theorem m2_drop (I5 : List Item) (r : R) (res : Res) (rs : List Res) (_ : InvL r (res :: rs))
    (_ : ∀ cur ∈ r.objs, cur.id = res.1.id → cur.rev ≠ res.2.2.1) (hq : M2 I5 r.v (res :: rs)) : M2 I5 r.v rs := by
  obtain ⟨a, b, c, d⟩ := hq
  exact ⟨a, b, fun x hx => c x (List.mem_cons_of_mem _ hx), (List.pairwise_cons.1 d).2⟩

theorem m2_write (I5 : List Item) (r r' : R) (res : Res) (rs : List Res) (cur : RObj) (hI : InvL r (res :: rs))
    (_ : cur ∈ r.objs) (_ : cur.id = res.1.id) (_ : cur.rev = res.2.2.1) (hv : r'.v = r.v.commit res r.nextSid) (_ : InvL r' rs)
    (hq : M2 I5 r.v (res :: rs)) : M2 I5 r'.v rs := by
  obtain ⟨a, b, c, d⟩ := hq
  obtain ⟨horig, _, _⟩ := hI.resOK res (List.mem_cons_self ..)
  have hpw := List.pairwise_cons.1 d
  rw [hv]
  cases hf : res.2.2.2.2 with
  | false =>
    rw [commit_s _ _ _ hf]
    exact ⟨a, b, fun x hx => c x (List.mem_cons_of_mem _ hx), hpw.2⟩
  | true =>
    rw [commit_f _ _ _ hf]
    obtain ⟨i, hi, e1, _, _, _⟩ := c res (List.mem_cons_self ..) hf
    have hid : res.2.1.id = i.id := by omega
    have hpo : prevO (r.v.setObj { res.1 with kind := .error, sid := r.nextSid }).items res.2.1.id res.2.2.1 = i.origRev := by
      rw [hid]; exact prevO_of_mem hI.items_pw hi _
    refine ⟨fun x hx => ?_, fun it5 h5 => ?_, fun x hx hfx => ?_, hpw.2⟩
    · rcases (mem_add_items ..).1 hx with ⟨hm, _⟩ | e
      · exact a x hm
      · rw [e]
        show ∃ it5 ∈ I5, it5.origRev = prevO _ _ _
        rw [hpo]; exact a i hi
    · obtain ⟨x, hx, ex⟩ := b it5 h5
      by_cases hxi : x.id = res.2.1.id
      · have : x = i := items_eq_of_id hI hx hi (by omega)
        refine ⟨_, (mem_add_items ..).2 (Or.inr rfl), ?_⟩
        show prevO _ _ _ = _
        rw [hpo, ← this]; exact ex
      · exact ⟨x, (mem_add_items ..).2 (Or.inl ⟨hx, hxi⟩), ex⟩
    · obtain ⟨j, hj, f1, f2, f3, f4⟩ := c x (List.mem_cons_of_mem _ hx) hfx
      have hne := hpw.1 x hx hf hfx
      exact ⟨j, (mem_add_items ..).2 (Or.inl ⟨hj, by omega⟩), f1, f2, f3, f4⟩

/-- **the low-watermark a round reports is the retry low-watermark of the state it leaves**: it
    is read before the status commits of the retries, but these keep every item's `origRev` -/
theorem round_lw {r : R} (hr : RInv r) (hx : XL r.v []) (hit : ItLe r) : r.round.progressLW = r.round.lowWatermark := by
  have h0 := kx_init hr hx hit
  obtain ⟨hI3, hcu3, hK⟩ := round_ind kx_skip kx_upd kx_del hr h0
  have hq3 : QX (roundLast r) (round3 r).v (round3 r).results := ⟨hK.1, hK.2.toTL⟩
  obtain ⟨hI4, hres4, _, hI5, hQ5, _, hQ6, hcu4⟩ := tail_ind (qx_drop (roundLast r)) (qx_write (roundLast r)) (qx_retry (roundLast r)) hI3 hcu3 hq3
  have hI4' : InvL (tail4 (round3 r)) (tail4 (round3 r)).results := by rw [hres4]; exact hI4
  have hrp : RP (tail5 (round3 r)).v (tail5 (round3 r)).results :=
    retries_ind rp_retry _ hI4' hcu4 (by rw [hres4]; exact rp_nil _)
  have hm0 : M2 (tail5 (round3 r)).items (tail5 (round3 r)).v (tail5 (round3 r)).results :=
    ⟨fun it hit => ⟨it, hit, rfl⟩, fun it hit => ⟨it, hit, rfl⟩, hrp⟩
  have hm6 : M2 (tail5 (round3 r)).items (tail6 (round3 r)).v [] := by
    unfold tail6; rw [commitStatus_v]
    exact commit_ind (m2_drop _) (m2_write _) _ hI5 hm0
  obtain ⟨a, b, _⟩ := hm6
  have hx5 := hQ5.1
  have hx6 := hQ6.1
  show lwOf (tail5 (round3 r)).items = lwOf (tail6 (round3 r)).items
  exact lwOf_congr _ _ (fun i hi => (hx5.items i hi).opos) (fun i hi => (hx5.items i hi).rq)
    (fun i hi => (hx6.items i hi).opos) (fun i hi => (hx6.items i hi).rq) b a

/-- what the low-watermark of a state whose items are well-formed is -/
theorem lw_spec_of_xl {r : R} (hx : XL r.v []) :
    (r.lowWatermark = 0 ↔ r.items = []) ∧ (∀ it ∈ r.items, r.lowWatermark ≤ it.origRev) ∧
    (r.items ≠ [] → ∃ it ∈ r.items, r.lowWatermark = it.origRev) :=
  lwOf_spec r.items (fun i hi => (hx.items i hi).opos) (fun i hi => (hx.items i hi).rq)

end Sdb.Rec
