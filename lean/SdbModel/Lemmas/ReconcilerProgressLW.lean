import SdbModel.Lemmas.ReconcilerProgressRound

/-!
  Lemmas.ReconcilerProgressLW — the retry low-watermark a round reports
  (`progressLW`): it is read after the due retries were processed and BEFORE
  their status commits re-queue the ones that failed again.
-/
namespace Sdb.Rec

/-- `retries.LowWatermark` as a function of the retry items -/
def lwOf (items : List Item) : Nat :=
  match (items.filter (·.inRevQueue)).map (·.origRev) with
  | [] => 0
  | x :: xs => xs.foldl min x

theorem lowWatermark_eq (r : R) : r.lowWatermark = lwOf r.items := rfl

theorem foldl_min_le' (l : List Nat) (x : Nat) : l.foldl min x ≤ x ∧ ∀ y ∈ l, l.foldl min x ≤ y := by
  induction l generalizing x with
  | nil => simp
  | cons a as ih =>
    simp only [List.foldl_cons, List.mem_cons]
    obtain ⟨h1, h2⟩ := ih (min x a)
    refine ⟨by omega, ?_⟩
    intro y hy
    rcases hy with rfl | hy
    · omega
    · exact h2 y hy

theorem foldl_min_mem' (l : List Nat) (x : Nat) : l.foldl min x = x ∨ l.foldl min x ∈ l := by
  induction l generalizing x with
  | nil => simp
  | cons a as ih =>
    simp only [List.foldl_cons, List.mem_cons]
    rcases ih (min x a) with h | h
    · rw [h]
      rcases Nat.le_total x a with hxa | hxa
      · left; omega
      · right; left; omega
    · right; right; exact h

/-- the low-watermark is the least `origRev` of the items awaiting retry (0: none) -/
theorem lwOf_spec (items : List Item) (hpos : ∀ i ∈ items, 0 < i.origRev) (hrq : ∀ i ∈ items, i.inRevQueue = true) :
    (lwOf items = 0 ↔ items = []) ∧ (∀ i ∈ items, lwOf items ≤ i.origRev) ∧ (items ≠ [] → ∃ i ∈ items, lwOf items = i.origRev) := by
  unfold lwOf
  have hf : items.filter (·.inRevQueue) = items := List.filter_eq_self.2 hrq
  rw [hf]
  cases items with
  | nil => simp
  | cons a as =>
    simp only [List.map_cons]
    obtain ⟨h1, h2⟩ := foldl_min_le' (as.map (·.origRev)) a.origRev
    have hm := foldl_min_mem' (as.map (·.origRev)) a.origRev
    refine ⟨⟨?_, by simp⟩, ?_, ?_⟩
    · intro h0
      rcases hm with hm | hm
      · have := hpos a (List.mem_cons_self ..); omega
      · rw [h0] at hm
        simp only [List.mem_map] at hm
        obtain ⟨i, hi, hi0⟩ := hm
        have := hpos i (List.mem_cons_of_mem _ hi); omega
    · intro i hi
      simp only [List.mem_cons] at hi
      rcases hi with rfl | hi
      · exact h1
      · exact h2 _ (List.mem_map_of_mem hi)
    · intro _
      rcases hm with hm | hm
      · exact ⟨a, List.mem_cons_self .., hm⟩
      · simp only [List.mem_map] at hm
        obtain ⟨i, hi, hie⟩ := hm
        exact ⟨i, List.mem_cons_of_mem _ hi, hie.symm⟩

/-! ## while the due retries are processed: a failed result stands for a popped item -/

def RP (v : V) (rs : List Res) : Prop :=
  ∀ res ∈ rs, res.2.2.2.2 = true → ∃ it ∈ v.items, it.id = res.1.id ∧ it.inQueue = false ∧ it.rev = res.2.2.1

theorem mem_single_other {v : V} {i : Item} {X : Nat} (hi : i ∈ v.items) (hne : i.id ≠ X) (o : RObj) (ho : o.id = X) (rev : Nat) (d f : Bool) :
    i ∈ ((v.pop X).single o rev d f).items := by
  have hp : i ∈ (v.pop X).items := by
    simp only [pop_items, List.mem_map]
    exact ⟨i, hi, popItem_of_ne hne⟩
  cases d <;> cases f
  · rw [single_uf]; simp only [clear_items, call_items, List.mem_filter]; exact ⟨hp, by simp; omega⟩
  · rw [single_ut]; exact hp
  · rw [single_df]; simp only [clear_items, call_items, List.mem_filter]; exact ⟨hp, by simp; omega⟩
  · rw [single_dt]; exact (mem_add_items ..).2 (Or.inl ⟨hp, by omega⟩)

theorem rp_retry (r r' : R) (h : Item) (hI : InvL r r.results) (_ : CaughtUp r) (hh : r.head = some h) (_ : h.retryAt ≤ r.now)
    (_ : r.numReconciled < r.cfg.roundSize)
    (hv : r'.v = (r.v.pop h.id).single h.obj h.rev h.delete (r.isFailing h.obj.id))
    (hres : r'.results = r.results ++ resOf h.obj h.rev h.delete (r.isFailing h.obj.id)) (_ : InvL r' r'.results)
    (hq : RP r.v r.results) : RP r'.v r'.results := by
  obtain ⟨hit0, hq0, _⟩ := head_spec hh
  have hobj := (hI.itemOK h hit0).1
  intro res hr hf
  rw [hres] at hr
  rw [hv]
  rcases List.mem_append.1 hr with hr | hr
  · obtain ⟨it, hit, e1, e2, e3⟩ := hq res hr hf
    have hne : it.id ≠ h.id := by
      intro e
      have := items_eq_of_id hI hit hit0 e
      rw [this, hq0] at e2; cases e2
    exact ⟨it, mem_single_other hit hne h.obj hobj h.rev _ _, e1, e2, e3⟩
  · unfold resOf at hr
    cases hdel : h.delete with
    | true => rw [hdel] at hr; simp at hr
    | false =>
      rw [hdel] at hr
      simp only [Bool.false_eq_true, if_false, List.mem_singleton] at hr
      rw [hr] at hf
      simp only at hf
      rw [hf, single_ut]
      refine ⟨popItem h.id h, ?_, ?_, ?_, ?_⟩
      · simp only [call_items, pop_items, List.mem_map]; exact ⟨h, hit0, rfl⟩
      · rw [hr]; simp only [popItem_id]; exact hobj.symm
      · rw [popItem_of_eq rfl]
      · rw [hr]; simp

/-! ## the status commits after the low-watermark was read -/

/-- the motive of the second status commit, relative to the items `I5`, the table revision `T5`
    and the low-watermark `lw` of the state the low-watermark was read in -/
def M2 (lw : Nat) (I5 : List Item) (T5 : Nat) (v : V) (rs : List Res) : Prop :=
  (∀ it ∈ v.items, lw ≤ it.origRev) ∧ (∀ res ∈ rs, res.2.2.2.2 = true → lw ≤ res.2.2.1) ∧
  (I5 ≠ [] → v.items ≠ []) ∧ (I5 = [] → v.items = [] ∧ ∀ res ∈ rs, res.2.2.2.2 = false) ∧
  T5 ≤ v.tableRev ∧ (v.tableRev = T5 → v.items = I5)

theorem m2_drop (lw : Nat) (I5 : List Item) (T5 : Nat) (r : R) (res : Res) (rs : List Res) (_ : InvL r (res :: rs))
    (_ : ∀ cur ∈ r.objs, cur.id = res.1.id → cur.rev ≠ res.2.2.1) (hq : M2 lw I5 T5 r.v (res :: rs)) : M2 lw I5 T5 r.v rs := by
  obtain ⟨a, b, c, d, e, f⟩ := hq
  exact ⟨a, fun x hx => b x (List.mem_cons_of_mem _ hx), c, fun h => ⟨(d h).1, fun x hx => (d h).2 x (List.mem_cons_of_mem _ hx)⟩, e, f⟩

theorem m2_write (lw : Nat) (I5 : List Item) (T5 : Nat) (r r' : R) (res : Res) (rs : List Res) (cur : RObj) (_ : InvL r (res :: rs))
    (_ : cur ∈ r.objs) (_ : cur.id = res.1.id) (_ : cur.rev = res.2.2.1) (hv : r'.v = r.v.commit res r.nextSid) (_ : InvL r' rs)
    (hq : M2 lw I5 T5 r.v (res :: rs)) : M2 lw I5 T5 r'.v rs := by
  obtain ⟨a, b, c, d, e, f⟩ := hq
  rw [hv]
  cases hf : res.2.2.2.2 with
  | true =>
    rw [commit_f _ _ _ hf]
    refine ⟨fun it hit => ?_, fun x hx => b x (List.mem_cons_of_mem _ hx), fun _ => ?_, fun h => ?_, ?_, fun h => ?_⟩
    · rcases (mem_add_items ..).1 hit with ⟨hm, _⟩ | rfl
      · exact a it hm
      · exact b res (List.mem_cons_self ..) hf
    · intro e0
      have : mkItem (r.v.setObj { res.1 with kind := .error, sid := r.nextSid }).now (r.v.setObj { res.1 with kind := .error, sid := r.nextSid }).cfg
          res.2.1 (r.v.tableRev + 1) res.2.2.1 false (prevN (r.v.setObj { res.1 with kind := .error, sid := r.nextSid }).items res.2.1.id + 1) ∈
          ((r.v.setObj { res.1 with kind := .error, sid := r.nextSid }).add res.2.1 (r.v.tableRev + 1) res.2.2.1 false).items :=
        (mem_add_items ..).2 (Or.inr rfl)
      rw [e0] at this; cases this
    · have := (d h).2 res (List.mem_cons_self ..)
      rw [hf] at this; cases this
    · simp only [add_tableRev, setObjV_tableRev]; omega
    · simp only [add_tableRev, setObjV_tableRev] at h; omega
  | false =>
    rw [commit_s _ _ _ hf]
    refine ⟨a, fun x hx => b x (List.mem_cons_of_mem _ hx), c, fun h => ⟨(d h).1, fun x hx => (d h).2 x (List.mem_cons_of_mem _ hx)⟩, ?_, fun h => ?_⟩
    · simp only [setObjV_tableRev]; omega
    · simp only [setObjV_tableRev] at h; omega

theorem rp_nil (v : V) : RP v [] := by intro res hr; cases hr

/-- **the low-watermark a round reports**, relative to the retry items the round leaves: it is 0
    exactly when none is left, it is a lower bound of their `origRev`, and it is their least
    `origRev` whenever the round's status commits did not write (`refreshedAt = tableRev`) -/
theorem round_lw {r : R} (hr : RInv r) (hx : XL r.v []) (hit : ItLe r) :
    (r.round.progressLW = 0 ↔ r.round.items = []) ∧ (∀ it ∈ r.round.items, r.round.progressLW ≤ it.origRev) ∧
    (r.round.refreshedAt = r.round.tableRev → r.round.progressLW = r.round.lowWatermark) := by
  have h0 := kx_init hr hx hit
  obtain ⟨hI3, hcu3, hK⟩ := round_ind kx_skip kx_upd kx_del hr h0
  have hq3 : QX (roundLast r) (round3 r).v (round3 r).results := ⟨hK.1, hK.2.toTL⟩
  obtain ⟨hI4, hres4, _, hI5, hQ5, _, _, hcu4⟩ := tail_ind (qx_drop (roundLast r)) (qx_write (roundLast r)) (qx_retry (roundLast r)) hI3 hcu3 hq3
  have hI4' : InvL (tail4 (round3 r)) (tail4 (round3 r)).results := by rw [hres4]; exact hI4
  have hrp : RP (tail5 (round3 r)).v (tail5 (round3 r)).results :=
    retries_ind rp_retry _ hI4' hcu4 (by rw [hres4]; exact rp_nil _)
  have hx5 := hQ5.1
  obtain ⟨s1, s2, s3⟩ := lwOf_spec (tail5 (round3 r)).items (fun i hi => (hx5.items i hi).opos) (fun i hi => (hx5.items i hi).rq)
  have hm0 : M2 (lwOf (tail5 (round3 r)).items) (tail5 (round3 r)).items (tail5 (round3 r)).tableRev (tail5 (round3 r)).v (tail5 (round3 r)).results := by
    refine ⟨s2, fun res hres hf => ?_, fun h => h, fun h => ⟨h, fun res hres => ?_⟩, Nat.le_refl _, fun _ => rfl⟩
    · obtain ⟨it, hit, _, _, e3⟩ := hrp res hres hf
      have := s2 it hit
      have := (hx5.items it hit).ole
      omega
    · cases hf : res.2.2.2.2 with
      | false => rfl
      | true =>
        obtain ⟨it, hit, _⟩ := hrp res hres hf
        simp only [v_items] at hit
        rw [h] at hit; cases hit
  have hm6 : M2 (lwOf (tail5 (round3 r)).items) (tail5 (round3 r)).items (tail5 (round3 r)).tableRev (tail6 (round3 r)).v [] := by
    unfold tail6; rw [commitStatus_v]
    exact commit_ind (m2_drop _ _ _) (m2_write _ _ _) _ hI5 hm0
  obtain ⟨a, _, c, d, e, f⟩ := hm6
  have hlw : r.round.progressLW = lwOf (tail5 (round3 r)).items := rfl
  have hit : r.round.items = (tail6 (round3 r)).items := rfl
  rw [hlw, hit]
  refine ⟨⟨fun h => (d (s1.1 h)).1, fun h => ?_⟩, a, fun hsync => ?_⟩
  · apply s1.2
    cases hi : (tail5 (round3 r)).items with
    | nil => rfl
    | cons x xs => exact absurd h (c (by rw [hi]; simp))
  · have ht : r.round.tableRev = (tail6 (round3 r)).tableRev := rfl
    have hf : r.round.refreshedAt = (tail6 (round3 r)).refreshedAt := rfl
    obtain ⟨r', hrel, he⟩ := commitStatus_rel (tail5 (round3 r))
    have hf6 : (tail6 (round3 r)).refreshedAt = (tail5 (round3 r)).refreshedAt := by
      unfold tail6; rw [he]; exact hrel.refreshedAt
    have := hI5.tinv.ref_le
    rw [ht, hf, hf6] at hsync
    have hteq : (tail6 (round3 r)).v.tableRev = (tail5 (round3 r)).tableRev := by
      simp only [v_tableRev] at e ⊢; omega
    have := f hteq
    simp only [v_items] at this
    rw [lowWatermark_eq, hit, this]

end Sdb.Rec
