import SdbModel.Lemmas.ArtInsWatch

/-! Transactions with several calls (Model.Art): the watch on a search path as a
    function of the tree alone, the "owned nodes carry fresh channels" invariant,
    path closure on partly owned trees and the frame lemma (a call on another
    key keeps, or records, the channel of a watched key). -/
set_option linter.unusedSimpArgs false
namespace Sdb.ArtW
open Sdb.Art

/-! ## the watch on the search path, independent of the inherited watch -/

def nz (w : Nat) : Option Nat := if w ≠ 0 then some w else none

def lfw : Option LeafD → Option Nat
  | some d => nz d.watch
  | none => none

mutual
/-- the closest non-nil watch on the search path of `key` in the subtree, if any -/
def pw : Node → List Nat → Option Nat
  | .leaf p d, key => if hasPrefix key p ∧ key.drop p.length = [] then nz d.watch else none
  | .inner _ p lf kids nw _, key =>
    if hasPrefix key p then
      match key.drop p.length with
      | [] => lfw lf
      | b :: r => (pwK kids b (b :: r)).or (nz nw)
    else none
def pwK : Kids → Nat → List Nat → Option Nat
  | .nil, _, _ => none
  | .cons c n r, b, key => if c = b then pw n key else if c < b then pwK r b key else none
end

mutual
theorem search_eq_pw : (n : Node) → (w : Nat) → (key : List Nat) → (searchNode n w key).2 = (pw n key).getD w
  | .leaf p d, w, key => by
    unfold searchNode pw
    simp only [Node.pfx, Node.getLeaf]
    by_cases hp : hasPrefix key p = true
    · cases hk : List.drop p.length key with
      | nil => simp only [hp, if_true, and_self, nz]; split <;> simp
      | cons b r => simp [hp]
    · simp [hp]
  | .inner kind p lf kids nw t, w, key => by
    unfold searchNode pw
    simp only [Node.pfx, Node.getLeaf]
    by_cases hp : hasPrefix key p = true
    · simp only [hp, if_true]
      cases hk : List.drop p.length key with
      | nil =>
        cases lf with
        | none => simp [lfw]
        | some d => simp only [lfw, nz]; split <;> simp
      | cons b r =>
        simp only
        rw [searchK_eq_pw kids b _ (b :: r)]
        cases pwK kids b (b :: r) with
        | some c => simp
        | none => simp only [Option.getD_none, Option.none_or, nz]; split <;> simp
    · simp [hp]
theorem searchK_eq_pw : (kids : Kids) → (b w : Nat) → (key : List Nat) →
    (searchK kids b w key).2 = (pwK kids b key).getD w
  | .nil, b, w, key => by simp [searchK, pwK]
  | .cons c n r, b, w, key => by
    unfold searchK pwK
    by_cases hcb : c = b
    · simp only [hcb, if_true]; exact search_eq_pw n w key
    · simp only [hcb, if_false]
      by_cases hlt : c < b
      · simp only [hlt, if_true]; exact searchK_eq_pw r b w key
      · simp [hlt]
end


/-! ## owned nodes carry fresh channels -/

/-! ## a predicate on the (stamp, watch) pairs of the inner nodes -/

mutual
def Inner (q : Nat → Nat → Prop) : Node → Prop
  | .leaf _ _ => True
  | .inner _ _ _ kids w t => q t w ∧ InnerK q kids
def InnerK (q : Nat → Nat → Prop) : Kids → Prop
  | .nil => True
  | .cons _ n r => Inner q n ∧ InnerK q r
end

theorem Inner.setPfx {q : Nat → Nat → Prop} (p : List Nat) : (n : Node) → Inner q n → Inner q (n.setPfx p)
  | .leaf _ _, _ => by simp [Node.setPfx, Inner]
  | .inner .., h => by simpa [Node.setPfx, Inner] using h

theorem InnerK.insert {q : Nat → Nat → Prop} (b : Nat) (n : Node) (hn : Inner q n) :
    (k : Kids) → InnerK q k → InnerK q (k.insert b n)
  | .nil, _ => by simp only [Kids.insert, InnerK]; exact ⟨hn, trivial⟩
  | .cons c m r, h => by
    simp only [InnerK] at h
    unfold Kids.insert
    split
    · simp only [InnerK]; exact ⟨hn, h.1, h.2⟩
    · simp only [InnerK]; exact ⟨h.1, InnerK.insert b n hn r h.2⟩

theorem InnerK.erase {q : Nat → Nat → Prop} (b : Nat) : (k : Kids) → InnerK q k → InnerK q (k.erase b)
  | .nil, _ => by simp only [Kids.erase, InnerK]
  | .cons c m r, h => by
    simp only [InnerK] at h
    unfold Kids.erase
    split
    · exact h.2
    · simp only [InnerK]; exact ⟨h.1, InnerK.erase b r h.2⟩

theorem InnerK.first {q : Nat → Nat → Prop} : (k : Kids) → InnerK q k → ∀ n, k.first = some n → Inner q n
  | .nil, _, n, hn => by simp [Kids.first] at hn
  | .cons c m r, h, n, hn => by
    simp only [InnerK] at h
    simp only [Kids.first, Option.some.injEq] at hn
    rw [← hn]; exact h.1

theorem fresh_val (st : St) : st.fresh.2 = 0 ∨ st.fresh.2 = st.nextW := by
  unfold St.fresh; split <;> simp

theorem freshIf_val (st : St) (w : Nat) : (st.freshIf w).2 = 0 ∨ (st.freshIf w).2 = st.nextW := by
  unfold St.freshIf; split <;> simp

theorem record_nextW (st : St) (w : Nat) : (st.record w).nextW = st.nextW := by
  unfold St.record; split <;> rfl

/-- a cloned inner node is the old one, or carries the transaction's id and a nil or fresh channel -/
theorem cloneNode_inner_val (st : St) (k : Nat) (p : List Nat) (lf : Option LeafD) (kids : Kids) (w t : Nat) :
    ∃ w' t', (cloneNode st (.inner k p lf kids w t)).2 = .inner k p lf kids w' t' ∧
      ((w' = w ∧ t' = t) ∨ (t' = st.txnID ∧ (w' = 0 ∨ st.nextW ≤ w'))) := by
  unfold cloneNode
  split
  · exact ⟨w, t, rfl, Or.inl ⟨rfl, rfl⟩⟩
  · refine ⟨_, _, rfl, Or.inr ⟨((record_le _ _).trans (fresh_le _)).id, ?_⟩⟩
    rcases fresh_val (st.record w) with h | h
    · exact Or.inl h
    · right; simp only [Node.watch]; rw [h, record_nextW]; exact Nat.le_refl _

/-- hypothesis on `q` used for preservation: the transaction's own id with a nil
    or not-yet-allocated channel is fine -/
def QOk (q : Nat → Nat → Prop) (st : St) : Prop := ∀ w', w' = 0 ∨ st.nextW ≤ w' → q st.txnID w'

theorem QOk.mono {q : Nat → Nat → Prop} {st st' : St} (h : QOk q st) (hle : StLe st st') : QOk q st' := by
  intro w' hw'
  rw [hle.id]
  apply h
  rcases hw' with h0 | h1
  · exact Or.inl h0
  · right; have := hle.nw; omega

theorem cloneNode_Inner {q : Nat → Nat → Prop} (st : St) (n : Node) (hq : QOk q st) (h : Inner q n) :
    Inner q (cloneNode st n).2 := by
  cases n with
  | leaf p d => obtain ⟨w', he⟩ := cloneNode_leaf st p d; rw [he]; simp [Inner]
  | inner k p lf kids w t =>
    obtain ⟨w', t', he, hv⟩ := cloneNode_inner_val st k p lf kids w t
    rw [he]
    simp only [Inner] at h ⊢
    refine ⟨?_, h.2⟩
    rcases hv with ⟨h1, h2⟩ | ⟨h1, h2⟩
    · rw [h1, h2]; exact h.1
    · rw [h1]; exact hq w' h2

theorem insAt_Inner {q : Nat → Nat → Prop} (P : ArtParams) (st : St) (n : Node) (key full : List Nat) (val : Nat)
    (mod : Option (Nat → Nat → Nat)) (hq : QOk q st) (h : Inner q n) :
    Inner q (insAt P st n key full val mod).node := by
  unfold insAt
  simp only
  split
  · cases n with
    | leaf p d =>
      obtain ⟨w', he⟩ := cloneNode_leaf st p d
      rw [he]; simp [Inner]
    | inner k p lf kids w t =>
      have hc := cloneNode_Inner st (.inner k p lf kids w t) hq h
      obtain ⟨w', t', he, _⟩ := cloneNode_inner st k p lf kids w t
      rw [he] at hc ⊢
      cases lf <;> simpa [Inner] using hc
  · cases n with
    | leaf p d =>
      dsimp only
      have hle := (newLeafD_le st full val)
      have hnew : q (newLeafD st full val).1.fresh.1.txnID (newLeafD st full val).1.fresh.2 := by
        rw [(fresh_le _).id]
        apply hq.mono hle
        rcases fresh_val (newLeafD st full val).1 with h0 | h1
        · exact Or.inl h0
        · right; rw [h1]; exact Nat.le_refl _
      split
      · simp only [Inner, InnerK]; exact ⟨hnew, trivial, trivial⟩
      · simp only [Inner, InnerK]; exact ⟨hnew, Inner.setPfx _ _ h, trivial⟩
      · split
        · simp only [Inner, InnerK]; exact ⟨hnew, Inner.setPfx _ _ h, trivial, trivial⟩
        · simp only [Inner, InnerK]; exact ⟨hnew, trivial, Inner.setPfx _ _ h, trivial⟩
    | inner k p lf kids w t =>
      dsimp only
      have hle := (cloneNode_le st (.inner k p lf kids w t)).trans (newLeafD_le _ full val)
      have hnew : q (newLeafD (cloneNode st (.inner k p lf kids w t)).1 full val).1.fresh.1.txnID
          (newLeafD (cloneNode st (.inner k p lf kids w t)).1 full val).1.fresh.2 := by
        rw [(fresh_le _).id]
        apply hq.mono hle
        rcases fresh_val (newLeafD (cloneNode st (.inner k p lf kids w t)).1 full val).1 with h0 | h1
        · exact Or.inl h0
        · right; rw [h1]; exact Nat.le_refl _
      have hthis := Inner.setPfx (List.drop (commonPrefix key (Node.inner k p lf kids w t).pfx).length
        (cloneNode st (.inner k p lf kids w t)).2.pfx) _ (cloneNode_Inner st _ hq h)
      split
      · simp only [Inner, InnerK]; exact ⟨hnew, trivial, trivial⟩
      · simp only [Inner, InnerK]; exact ⟨hnew, hthis, trivial⟩
      · split
        · simp only [Inner, InnerK]; exact ⟨hnew, hthis, trivial, trivial⟩
        · simp only [Inner, InnerK]; exact ⟨hnew, trivial, hthis, trivial⟩

mutual
theorem insNode_Inner {q : Nat → Nat → Prop} (P : ArtParams) (st : St) (hq : QOk q st) :
    (n : Node) → (key full : List Nat) → (val : Nat) → (mod : Option (Nat → Nat → Nat)) → Inner q n →
    Inner q (insNode P st n key full val mod).node
  | .leaf p d, key, full, val, mod, h => by
    unfold insNode; exact insAt_Inner P st _ key full val mod hq h
  | .inner kind pfx lf kids w t, key, full, val, mod, h => by
    have h' := h
    simp only [Inner] at h'
    unfold insNode
    split
    · simp only
      split
      · rename_i r kids' hk
        have hle := insKids_le P st kids _ _ full val mod r kids' hk
        have hk' := insKids_Inner P st hq kids _ _ full val mod r kids' h'.2 hk
        apply cloneNode_Inner _ _ (hq.mono hle)
        simp only [Inner]; exact ⟨h'.1, hk'⟩
      · have hkids : InnerK q (kids.insert ((List.drop pfx.length key).headD 0)
            (Node.leaf (List.drop pfx.length key) (newLeafD st full val).2)) :=
          InnerK.insert _ _ (by simp [Inner]) kids h'.2
        split
        · simp only [Inner]
          refine ⟨?_, hkids⟩
          have hle := (newLeafD_le st full val).trans (record_le _ w)
          rw [(freshIf_le _ w).id]
          apply hq.mono hle
          rcases freshIf_val ((newLeafD st full val).1.record w) w with h0 | h1
          · exact Or.inl h0
          · right; rw [h1]; exact Nat.le_refl _
        · apply cloneNode_Inner _ _ (hq.mono (newLeafD_le st full val))
          simp only [Inner]; exact ⟨h'.1, hkids⟩
    · exact insAt_Inner P st _ key full val mod hq h
theorem insKids_Inner {q : Nat → Nat → Prop} (P : ArtParams) (st : St) (hq : QOk q st) :
    (kids : Kids) → (b : Nat) → (key full : List Nat) → (val : Nat) → (mod : Option (Nat → Nat → Nat)) →
    (r : InsRes) → (kids' : Kids) → InnerK q kids →
    insKids P st kids b key full val mod = some (r, kids') → InnerK q kids'
  | .nil, b, key, full, val, mod, r, kids', hs, h => by simp [insKids] at h
  | .cons c n rest, b, key, full, val, mod, r, kids', hs, h => by
    simp only [InnerK] at hs
    unfold insKids at h
    split at h
    · simp only [Option.some.injEq, Prod.mk.injEq] at h
      rw [← h.2]; simp only [InnerK]
      exact ⟨insNode_Inner P st hq n key full val mod hs.1, hs.2⟩
    · split at h
      · split at h
        · rename_i r' rest' hk
          simp only [Option.some.injEq, Prod.mk.injEq] at h
          rw [← h.2]; simp only [InnerK]
          exact ⟨hs.1, insKids_Inner P st hq rest b key full val mod r' rest' hs.2 hk⟩
        · simp at h
      · simp at h
end

theorem removeChild_Inner {q : Nat → Nat → Prop} (P : ArtParams) (st : St) (kind : Nat) (pfx : List Nat)
    (lf : Option LeafD) (kids : Kids) (w t b : Nat) (hq : QOk q st) (h : Inner q (.inner kind pfx lf kids w t)) :
    Inner q (removeChild P st kind pfx lf kids w t b).2 := by
  have h' := h
  simp only [Inner] at h'
  have he := InnerK.erase b kids h'.2
  unfold removeChild
  simp only
  split
  · split
    · rename_i child hc
      exact Inner.setPfx _ _ (InnerK.first _ he child hc)
    · simp only [Inner]; exact ⟨h'.1, he⟩
  · split
    · simp only [Inner]
      refine ⟨?_, he⟩
      rw [((freshIf_le st w).trans (record_le _ w)).id]
      apply hq
      rcases freshIf_val st w with h0 | h1
      · exact Or.inl h0
      · right; rw [h1]; exact Nat.le_refl _
    · apply cloneNode_Inner _ _ hq
      simp only [Inner]; exact ⟨h'.1, he⟩

theorem delAt_Inner {q : Nat → Nat → Prop} (st : St) (n : Node) (hq : QOk q st) (h : Inner q n)
    (st' : St) (n' : Node) (old : Nat) (hd : delAt st n = .replaced st' n' old) : Inner q n' := by
  unfold delAt at hd
  split at hd
  · simp at hd
  · cases n with
    | leaf p d => simp at hd
    | inner kind pfx lf kids w t =>
      simp only [Inner] at h
      simp only at hd
      split at hd
      · split at hd
        · rename_i child hc
          simp only [DelRes.replaced.injEq] at hd
          rw [← hd.2.1]
          exact Inner.setPfx _ _ (InnerK.first _ h.2 child hc)
        · simp at hd
      · split at hd
        · simp only [DelRes.replaced.injEq] at hd
          rw [← hd.2.1]
          apply cloneNode_Inner _ _ (hq.mono (record_le _ _))
          simp only [Inner]; exact h
        · simp at hd

mutual
theorem delNode_Inner {q : Nat → Nat → Prop} (P : ArtParams) (st : St) (hq : QOk q st) :
    (n : Node) → (key : List Nat) → Inner q n → (st' : St) → (n' : Node) → (old : Nat) →
    delNode P st n key = .replaced st' n' old → Inner q n'
  | .leaf p d, key, h, st', n', old, hd => by
    have hds : delSt (delNode P st (.leaf p d) key) = some st' := by rw [hd]; rfl
    obtain ⟨hk, _⟩ := delNode_leaf_inv P st p d key st' hds
    subst hk
    rw [delNode_nil P st (.leaf key d) key (by simpa [Node.pfx] using hasPrefix_take key key) (by simp [Node.pfx])] at hd
    exact delAt_Inner st _ hq h st' n' old hd
  | .inner kind pfx lf kids w t, key, h, st', n', old, hd => by
    have h' := h
    simp only [Inner] at h'
    obtain ⟨_, hc⟩ := delNode_inner_cases P st kind pfx lf kids w t key (by rw [hd]; simp)
    rcases hc with ⟨_, he⟩ | ⟨b, r, _, ⟨st1, n1, old1, kids', hdk, he⟩ | ⟨st1, old1, kids', hdk, he⟩⟩
    · rw [he] at hd
      exact delAt_Inner st _ hq h st' n' old hd
    · rw [he] at hd
      simp only [DelRes.replaced.injEq] at hd
      rw [← hd.2.1]
      have hle := delKids_le P st kids b _ _ kids' st1 hdk rfl
      apply cloneNode_Inner _ _ (hq.mono hle)
      simp only [Inner]
      exact ⟨h'.1, delKids_Inner P st hq kids b _ h'.2 _ kids' hdk⟩
    · rw [he] at hd
      simp only [DelRes.replaced.injEq] at hd
      rw [← hd.2.1]
      have hle := delKids_le P st kids b _ _ kids' st1 hdk rfl
      exact removeChild_Inner P st1 kind pfx lf kids w t b (hq.mono hle) h
theorem delKids_Inner {q : Nat → Nat → Prop} (P : ArtParams) (st : St) (hq : QOk q st) :
    (kids : Kids) → (b : Nat) → (key : List Nat) → InnerK q kids → (r : DelRes) → (kids' : Kids) →
    delKids P st kids b key = some (r, kids') → InnerK q kids'
  | .nil, b, key, hs, r, kids', h => by simp [delKids] at h
  | .cons c n rest, b, key, hs, r, kids', h => by
    simp only [InnerK] at hs
    rcases delKids_inv' P st c n rest b key r kids' h with ⟨_, hr, hk⟩ | ⟨_, _, rest', hk, he⟩
    · rcases hk with ⟨st', n', old, hrr, he⟩ | ⟨_, he⟩
      · rw [he]; simp only [InnerK]
        exact ⟨delNode_Inner P st hq n key hs.1 st' n' old (by rw [← hr, hrr]), hs.2⟩
      · rw [he]; simp only [InnerK]; exact hs
    · rw [he]; simp only [InnerK]
      exact ⟨hs.1, delKids_Inner P st hq rest b key hs.2 r rest' hk⟩
end



/-! ## path closure on partly owned trees -/

/-- nodes stamped with the transaction's id carry a nil channel or one not below `B` -/
def OFq (id B : Nat) : Nat → Nat → Prop := fun t w => t = id → w = 0 ∨ B ≤ w

theorem nz_some {w c : Nat} (h : nz w = some c) : w = c ∧ c ≠ 0 := by
  unfold nz at h
  split at h
  · simp only [Option.some.injEq] at h; subst h; exact ⟨rfl, by assumption⟩
  · simp at h

/-- exact match at `n` (`key = n.pfx`), only assuming the transaction id is not 0 -/
theorem insAt_exact_rec' (P : ArtParams) (st : St) (n : Node) (full : List Nat) (val : Nat)
    (mod : Option (Nat → Nat → Nat)) (hid : st.txnID ≠ 0) (d : LeafD) (hd : n.getLeaf = some d) :
    d.watch = 0 ∨ d.watch ∈ (insAt P st n n.pfx full val mod).st.pending := by
  unfold insAt
  simp only [commonPrefix_self, and_self, if_true]
  cases n with
  | leaf p d' =>
    simp only [Node.getLeaf, Option.some.injEq] at hd
    subst hd
    obtain ⟨w', he⟩ := cloneNode_leaf st p d'
    rw [he]
    exact cloneNode_rec st (.leaf p d') (by simpa [Node.txn] using hid.symm)
  | inner k p lf kids w t =>
    simp only [Node.getLeaf] at hd
    subst hd
    obtain ⟨w', t', he, _⟩ := cloneNode_inner st k p (some d) kids w t
    rw [he]
    exact cloneLeafD_rec (cloneNode st (.inner k p (some d) kids w t)).1 d
      (by rw [(cloneNode_le _ _).id]; exact hid)

/-- the watch of an inner node reached by an insert is recorded, or the node is
    owned and its watch is nil or fresh -/
theorem insNode_inner_rec' (P : ArtParams) (st : St) (B : Nat) (k : Nat) (p : List Nat) (lf : Option LeafD) (kids : Kids)
    (w t : Nat) (key full : List Nat) (val : Nat) (mod : Option (Nat → Nat → Nat)) (hq : OFq st.txnID B t w)
    (c : Nat) (hc : nz w = some c) :
    B ≤ c ∨ c ∈ (insNode P st (.inner k p lf kids w t) key full val mod).st.pending := by
  obtain ⟨hwc, hc0⟩ := nz_some hc
  subst hwc
  by_cases ht : t = st.txnID
  · rcases hq ht with h | h
    · exact absurd h hc0
    · exact Or.inl h
  · rcases insNode_inner_rec P st k p lf kids w t key full val mod ht with h | h
    · exact absurd h hc0
    · exact Or.inr h

mutual
theorem insNode_closes_mixed (P : ArtParams) (st : St) (B : Nat) (hid : st.txnID ≠ 0) : (n : Node) →
    (key full : List Nat) → (val : Nat) → (mod : Option (Nat → Nat → Nat)) → Inner (OFq st.txnID B) n →
    ∀ c, pw n key = some c → B ≤ c ∨ c ∈ (insNode P st n key full val mod).st.pending
  | .leaf p d, key, full, val, mod, hs, c, hc => by
    unfold pw at hc
    split at hc
    · rename_i hk
      obtain ⟨hwc, hc0⟩ := nz_some hc
      have hkp := hasPrefix_drop_nil _ _ hk.1 hk.2
      subst hkp
      right
      unfold insNode
      rcases insAt_exact_rec' P st (.leaf key d) full val mod hid d rfl with h | h
      · rw [hwc] at h; exact absurd h hc0
      · rw [← hwc]; exact h
    · simp at hc
  | .inner kind pfx lf kids nw t, key, full, val, mod, hs, c, hc => by
    have hs' := hs
    simp only [Inner] at hs'
    have hA := insNode_inner_rec' P st B kind pfx lf kids nw t key full val mod hs'.1
    unfold pw at hc
    by_cases hp : hasPrefix key pfx = true
    · simp only [hp, if_true] at hc
      cases hk : List.drop pfx.length key with
      | nil =>
        rw [hk] at hc
        simp only at hc
        have hkp := hasPrefix_drop_nil _ _ hp hk
        subst hkp
        cases lf with
        | none => simp [lfw] at hc
        | some d =>
          simp only [lfw] at hc
          obtain ⟨hwc, hc0⟩ := nz_some hc
          right
          unfold insNode
          simp only [ne_eq, not_true_eq_false, and_false, if_false]
          rcases insAt_exact_rec' P st (.inner kind key (some d) kids nw t) full val mod hid d rfl with h | h
          · rw [hwc] at h; exact absurd h hc0
          · rw [← hwc]; exact h
      | cons b r =>
        rw [hk] at hc
        simp only at hc
        have hlen := hasPrefix_length _ _ hp
        have hne : key ≠ [] := by intro e; subst e; simp at hk
        have hl : key.length ≠ pfx.length := by
          intro e
          have : (List.drop pfx.length key).length = 0 := by simp [e]
          rw [hk] at this; simp at this
        cases hpk : pwK kids b (b :: r) with
        | none =>
          rw [hpk] at hc
          simp only [Option.none_or] at hc
          exact hA c hc
        | some c' =>
          rw [hpk] at hc
          simp only [Option.some_or, Option.some.injEq] at hc
          subst hc
          have ih := insKids_closes_mixed P st B hid kids b (b :: r) full val mod hs'.2 c' hpk
          cases hins : insKids P st kids b (b :: r) full val mod with
          | none => rw [hins] at ih; exact Or.inl ih
          | some x =>
            obtain ⟨res, kids'⟩ := x
            rw [hins] at ih
            rcases ih with ih | ih
            · exact Or.inl ih
            · right
              unfold insNode
              simp only [hne, hp, hl, ne_eq, not_false_eq_true, and_self, if_true, hk, List.headD_cons, hins]
              exact (cloneNode_le _ _).sub _ ih
    · simp [hp] at hc
theorem insKids_closes_mixed (P : ArtParams) (st : St) (B : Nat) (hid : st.txnID ≠ 0) : (kids : Kids) → (b : Nat) →
    (key full : List Nat) → (val : Nat) → (mod : Option (Nat → Nat → Nat)) → InnerK (OFq st.txnID B) kids →
    ∀ c, pwK kids b key = some c →
    match insKids P st kids b key full val mod with
    | some (r, _) => B ≤ c ∨ c ∈ r.st.pending
    | none => B ≤ c
  | .nil, b, key, full, val, mod, hs, c, hc => by simp [pwK] at hc
  | .cons a n rest, b, key, full, val, mod, hs, c, hc => by
    simp only [InnerK] at hs
    unfold pwK at hc
    unfold insKids
    by_cases hab : a = b
    · simp only [hab, if_true] at hc ⊢
      exact insNode_closes_mixed P st B hid n key full val mod hs.1 c hc
    · simp only [hab, if_false] at hc ⊢
      by_cases hlt : a < b
      · simp only [hlt, if_true] at hc ⊢
        have := insKids_closes_mixed P st B hid rest b key full val mod hs.2 c hc
        cases hk : insKids P st rest b key full val mod with
        | none => rw [hk] at this; exact this
        | some x => rw [hk] at this; exact this
      · simp [hlt] at hc
end

theorem delNode_inner_rec' (P : ArtParams) (st : St) (B : Nat) (kind : Nat) (pfx : List Nat) (lf : Option LeafD)
    (kids : Kids) (w t : Nat) (key : List Nat) (st' : St) (hq : OFq st.txnID B t w)
    (h : delSt (delNode P st (.inner kind pfx lf kids w t) key) = some st') (c : Nat) (hc : nz w = some c) :
    B ≤ c ∨ c ∈ st'.pending := by
  obtain ⟨hwc, hc0⟩ := nz_some hc
  subst hwc
  by_cases ht : t = st.txnID
  · rcases hq ht with h | h
    · exact absurd h hc0
    · exact Or.inl h
  · rcases delNode_inner_rec P st kind pfx lf kids w t key st' ht h with h | h
    · exact absurd h hc0
    · exact Or.inr h

mutual
theorem delNode_closes_mixed (P : ArtParams) (st : St) (B : Nat) : (n : Node) → (key : List Nat) → (st' : St) →
    Inner (OFq st.txnID B) n → delSt (delNode P st n key) = some st' →
    ∀ c, pw n key = some c → B ≤ c ∨ c ∈ st'.pending
  | .leaf p d, key, st', hs, h, c, hc => by
    obtain ⟨hk, h⟩ := delNode_leaf_inv P st p d key st' h
    unfold pw at hc
    split at hc
    · obtain ⟨hwc, hc0⟩ := nz_some hc
      right
      rcases delAt_rec_leaf st (.leaf p d) st' h d rfl with h | h
      · rw [hwc] at h; exact absurd h hc0
      · rw [← hwc]; exact h
    · simp at hc
  | .inner kind pfx lf kids nw t, key, st', hs, h, c, hc => by
    have hs' := hs
    simp only [Inner] at hs'
    have hA := delNode_inner_rec' P st B kind pfx lf kids nw t key st' hs'.1 h
    obtain ⟨hp, h⟩ := delNode_inner_inv P st kind pfx lf kids nw t key st' h
    unfold pw at hc
    simp only [hp, if_true] at hc
    rcases h with ⟨hk, h⟩ | ⟨b, r, hk, h⟩
    · rw [hk] at hc
      simp only at hc
      cases lf with
      | none => simp [lfw] at hc
      | some d =>
        simp only [lfw] at hc
        obtain ⟨hwc, hc0⟩ := nz_some hc
        right
        rcases delAt_rec_leaf st (.inner kind pfx (some d) kids nw t) st' h d rfl with h | h
        · rw [hwc] at h; exact absurd h hc0
        · rw [← hwc]; exact h
    · rw [hk] at hc
      simp only at hc
      cases hpk : pwK kids b (b :: r) with
      | none =>
        rw [hpk] at hc
        simp only [Option.none_or] at hc
        exact hA c hc
      | some c' =>
        rw [hpk] at hc
        simp only [Option.some_or, Option.some.injEq] at hc
        subst hc
        rcases h with ⟨st1, n1, old, kids', hdk, he⟩ | ⟨st1, old, kids', hdk, he⟩
        · rcases delKids_closes_mixed P st B kids b (b :: r) _ kids' st1 hs'.2 hdk rfl c' hpk with ih | ih
          · exact Or.inl ih
          · right; rw [he]; exact (cloneNode_le _ _).sub _ ih
        · rcases delKids_closes_mixed P st B kids b (b :: r) _ kids' st1 hs'.2 hdk rfl c' hpk with ih | ih
          · exact Or.inl ih
          · right; rw [he]; exact (removeChild_le ..).sub _ ih
theorem delKids_closes_mixed (P : ArtParams) (st : St) (B : Nat) : (kids : Kids) → (b : Nat) → (key : List Nat) →
    (r : DelRes) → (kids' : Kids) → (st' : St) → InnerK (OFq st.txnID B) kids →
    delKids P st kids b key = some (r, kids') → delSt r = some st' →
    ∀ c, pwK kids b key = some c → B ≤ c ∨ c ∈ st'.pending
  | .nil, b, key, r, kids', st', hs, h, hr, c, hc => by simp [delKids] at h
  | .cons a n rest, b, key, r, kids', st', hs, h, hr, c, hc => by
    simp only [InnerK] at hs
    unfold pwK at hc
    rcases delKids_inv P st a n rest b key r kids' h with ⟨hab, he⟩ | ⟨hlt, rest', hk⟩
    · simp only [hab, if_true] at hc
      rw [he] at hr
      exact delNode_closes_mixed P st B n key st' hs.1 hr c hc
    · have : ¬ a = b := by omega
      simp only [this, if_false, hlt, if_true] at hc
      exact delKids_closes_mixed P st B rest b key r rest' st' hs.2 hk hr c hc
end



/-! ## frame: insAt -/

theorem pw_inner_eq (kind : Nat) (p : List Nat) (lf : Option LeafD) (kids : Kids) (nw t : Nat) (k : List Nat)
    (hp : hasPrefix k p = true) :
    pw (.inner kind p lf kids nw t) k =
      match k.drop p.length with
      | [] => lfw lf
      | b :: r => (pwK kids b (b :: r)).or (nz nw) := by
  unfold pw; simp only [hp, if_true]
  try (cases List.drop p.length k <;> rfl)

theorem pw_inner_noprefix (kind : Nat) (p : List Nat) (lf : Option LeafD) (kids : Kids) (nw t : Nat) (k : List Nat)
    (hp : ¬ hasPrefix k p = true) : pw (.inner kind p lf kids nw t) k = none := by
  unfold pw; simp [hp]

theorem pw_leaf_self (k : List Nat) (d : LeafD) : pw (.leaf k d) k = nz d.watch := by
  unfold pw; simp [hasPrefix_self]

theorem pw_leaf_some {p : List Nat} {d : LeafD} {k : List Nat} {c : Nat} (h : pw (.leaf p d) k = some c) :
    k = p ∧ nz d.watch = some c := by
  unfold pw at h
  split at h
  · rename_i hk; exact ⟨hasPrefix_drop_nil _ _ hk.1 hk.2, h⟩
  · simp at h

/-- changing only the watch (and kind / stamp) of an inner node keeps every deeper path watch -/
theorem pw_inner_rewatch (kind kind' : Nat) (p : List Nat) (lf : Option LeafD) (kids : Kids) (nw nw' t t' : Nat)
    (k : List Nat) (c : Nat) (h : pw (.inner kind p lf kids nw t) k = some c) :
    nz nw = some c ∨ pw (.inner kind' p lf kids nw' t') k = some c := by
  by_cases hp : hasPrefix k p = true
  · rw [pw_inner_eq _ _ _ _ _ _ _ hp] at h ⊢
    cases hk : List.drop p.length k with
    | nil => rw [hk] at h; right; exact h
    | cons b r =>
      rw [hk] at h
      simp only at h ⊢
      cases hpk : pwK kids b (b :: r) with
      | none => rw [hpk] at h; left; simpa using h
      | some c' => rw [hpk] at h; right; simpa using h
  · rw [pw_inner_noprefix _ _ _ _ _ _ _ hp] at h; simp at h

theorem cloneNode_inner_X (st : St) (B : Nat) (k : Nat) (p : List Nat) (lf : Option LeafD) (kids : Kids) (w t : Nat)
    (hq : OFq st.txnID B t w) (c : Nat) (hc : nz w = some c) :
    B ≤ c ∨ c ∈ (cloneNode st (.inner k p lf kids w t)).1.pending := by
  obtain ⟨hwc, hc0⟩ := nz_some hc
  subst hwc
  by_cases ht : t = st.txnID
  · rcases hq ht with h | h
    · exact absurd h hc0
    · exact Or.inl h
  · rcases cloneNode_rec st (.inner k p lf kids w t) ht with h | h
    · exact absurd h hc0
    · exact Or.inr h

theorem lfw_some {lf : Option LeafD} {c : Nat} (h : lfw lf = some c) : ∃ d, lf = some d ∧ d.watch = c ∧ c ≠ 0 := by
  cases lf with
  | none => simp [lfw] at h
  | some d => exact ⟨d, rfl, nz_some h⟩

/-- shape of the result of an exact-match insert at an inner node -/
theorem insAt_exact_inner (P : ArtParams) (st : St) (kind : Nat) (p : List Nat) (lf : Option LeafD) (kids : Kids)
    (nw t : Nat) (full : List Nat) (val : Nat) (mod : Option (Nat → Nat → Nat)) :
    ∃ lf' w' t', (insAt P st (.inner kind p lf kids nw t) p full val mod).node = .inner kind p lf' kids w' t' ∧
      StLe (cloneNode st (.inner kind p lf kids nw t)).1 (insAt P st (.inner kind p lf kids nw t) p full val mod).st := by
  unfold insAt
  simp only [Node.pfx, commonPrefix_self, and_self, if_true]
  obtain ⟨w', t', he, _⟩ := cloneNode_inner st kind p lf kids nw t
  rw [he]
  cases lf with
  | some d => exact ⟨_, _, _, rfl, cloneLeafD_le _ _⟩
  | none => exact ⟨_, _, _, rfl, newLeafD_le _ full val⟩

theorem pw_inner_deeper (kind : Nat) (p : List Nat) (lf : Option LeafD) (kids : Kids) (nw t : Nat) (k : List Nat)
    (b : Nat) (r : List Nat) (hp : hasPrefix k p = true) (hk : k.drop p.length = b :: r) :
    pw (.inner kind p lf kids nw t) k = (pwK kids b (b :: r)).or (nz nw) := by
  rw [pw_inner_eq _ _ _ _ _ _ _ hp, hk]

theorem or_some_cases {a b : Option Nat} {c : Nat} (h : a.or b = some c) : a = some c ∨ (a = none ∧ b = some c) := by
  cases a with
  | none => right; exact ⟨rfl, by simpa using h⟩
  | some x => left; simpa using h

/-- frame lemma for `insAt`, exact match -/
theorem insAt_frame_exact (P : ArtParams) (st : St) (B : Nat) (hid : st.txnID ≠ 0) (n : Node) (full : List Nat) (val : Nat)
    (mod : Option (Nat → Nat → Nat)) (k : List Nat) (hs : Inner (OFq st.txnID B) n) (c : Nat) (hc : pw n k = some c) :
    B ≤ c ∨ c ∈ (insAt P st n n.pfx full val mod).st.pending ∨ pw (insAt P st n n.pfx full val mod).node k = some c := by
  cases n with
  | leaf p d =>
    obtain ⟨hk, hw⟩ := pw_leaf_some hc
    obtain ⟨hwc, hc0⟩ := nz_some hw
    right; left
    rcases insAt_exact_rec' P st (.leaf p d) full val mod hid d rfl with h | h
    · rw [hwc] at h; exact absurd h hc0
    · rw [← hwc]; exact h
  | inner kind p lf kids nw t =>
    simp only [Inner] at hs
    have hX := cloneNode_inner_X st B kind p lf kids nw t hs.1 c
    obtain ⟨lf', w', t', hnode, hle⟩ := insAt_exact_inner P st kind p lf kids nw t full val mod
    simp only [Node.pfx]
    rw [hnode]
    by_cases hp : hasPrefix k p = true
    · cases hk : List.drop p.length k with
      | nil =>
        rw [pw_inner_eq _ _ _ _ _ _ _ hp, hk] at hc
        simp only at hc
        obtain ⟨d, hlf, hdw, hc0⟩ := lfw_some hc
        right; left
        have hkp := hasPrefix_drop_nil _ _ hp hk
        rcases insAt_exact_rec' P st (.inner kind p lf kids nw t) full val mod hid d (by simp [Node.getLeaf, hlf]) with h | h
        · rw [hdw] at h; exact absurd h hc0
        · rw [← hdw]; exact h
      | cons b r =>
        rw [pw_inner_deeper _ _ _ _ _ _ _ b r hp hk] at hc ⊢
        rcases or_some_cases hc with h | ⟨_, h⟩
        · right; right; rw [h]; rfl
        · rcases hX h with hx | hx
          · exact Or.inl hx
          · exact Or.inr (Or.inl (hle.sub _ hx))
    · rw [pw_inner_noprefix _ _ _ _ _ _ _ hp] at hc; simp at hc

/-- the node4 built by a fork (partial prefix match) -/
def forkNode (k4 : Nat) (common : List Nat) (this : Node) (key : List Nat) (d : LeafD) (w id : Nat) : Node :=
  match this.pfx, key with
  | [], _ => .inner k4 common this.getLeaf (.cons (key.headD 0) (.leaf key d) .nil) w id
  | tb :: _, [] => .inner k4 common (some d) (.cons tb this .nil) w id
  | tb :: _, kb :: _ =>
    if tb < kb then .inner k4 common none (.cons tb this (.cons kb (.leaf key d) .nil)) w id
    else .inner k4 common none (.cons kb (.leaf key d) (.cons tb this .nil)) w id

theorem insAt_fork_leaf (P : ArtParams) (st : St) (p : List Nat) (d : LeafD) (key full : List Nat) (val : Nat)
    (mod : Option (Nat → Nat → Nat))
    (hex : ¬ (key.length = (commonPrefix key p).length ∧ key.length = p.length)) :
    (insAt P st (.leaf p d) key full val mod).node =
      forkNode (P.caps.headD 4) (commonPrefix key p) (.leaf (p.drop (commonPrefix key p).length) d)
        (key.drop (commonPrefix key p).length) (newLeafD st full val).2
        (newLeafD st full val).1.fresh.2 (newLeafD st full val).1.fresh.1.txnID ∧
    (insAt P st (.leaf p d) key full val mod).st = (newLeafD st full val).1.fresh.1 := by
  unfold insAt forkNode
  rw [if_neg (show ¬ (key.length = (commonPrefix key (Node.leaf p d).pfx).length ∧
    key.length = (Node.leaf p d).pfx.length) from hex)]
  simp only [Node.setPfx, Node.pfx, and_true]
  cases List.drop (commonPrefix key p).length p <;> cases List.drop (commonPrefix key p).length key <;> rfl

theorem insAt_fork_inner (P : ArtParams) (st : St) (kind : Nat) (p : List Nat) (lf : Option LeafD) (kids : Kids)
    (nw t : Nat) (key full : List Nat) (val : Nat) (mod : Option (Nat → Nat → Nat))
    (hex : ¬ (key.length = (commonPrefix key p).length ∧ key.length = p.length)) :
    ∃ w' t', (cloneNode st (.inner kind p lf kids nw t)).2 = .inner kind p lf kids w' t' ∧
    (insAt P st (.inner kind p lf kids nw t) key full val mod).node =
      forkNode (P.caps.headD 4) (commonPrefix key p) (.inner kind (p.drop (commonPrefix key p).length) lf kids w' t')
        (key.drop (commonPrefix key p).length) (newLeafD (cloneNode st (.inner kind p lf kids nw t)).1 full val).2
        (newLeafD (cloneNode st (.inner kind p lf kids nw t)).1 full val).1.fresh.2
        (newLeafD (cloneNode st (.inner kind p lf kids nw t)).1 full val).1.fresh.1.txnID ∧
    (insAt P st (.inner kind p lf kids nw t) key full val mod).st =
      (newLeafD (cloneNode st (.inner kind p lf kids nw t)).1 full val).1.fresh.1 := by
  obtain ⟨w', t', he, _⟩ := cloneNode_inner st kind p lf kids nw t
  refine ⟨w', t', he, ?_⟩
  unfold insAt forkNode
  rw [if_neg (show ¬ (key.length = (commonPrefix key (Node.inner kind p lf kids nw t).pfx).length ∧
    key.length = (Node.inner kind p lf kids nw t).pfx.length) from hex)]
  simp only [he, Node.setPfx, Node.pfx, and_true]
  cases List.drop (commonPrefix key p).length p <;> cases List.drop (commonPrefix key p).length key <;> rfl

theorem pw_forkNode_nil (k4 : Nat) (common : List Nat) (this : Node) (key : List Nat) (d : LeafD) (w id : Nat)
    (k : List Nat) (hth : this.pfx = []) (hp : hasPrefix k common = true) (hk : k.drop common.length = []) :
    pw (forkNode k4 common this key d w id) k = lfw this.getLeaf := by
  unfold forkNode
  rw [hth]
  simp only
  rw [pw_inner_eq _ _ _ _ _ _ _ hp, hk]

theorem pw_forkNode_this (k4 : Nat) (common : List Nat) (this : Node) (key : List Nat) (d : LeafD) (w id : Nat)
    (k : List Nat) (tb : Nat) (ts r : List Nat) (hth : this.pfx = tb :: ts)
    (hdiv : ∀ kb ks, key = kb :: ks → kb ≠ tb) (hp : hasPrefix k common = true)
    (hk : k.drop common.length = tb :: r) :
    pw (forkNode k4 common this key d w id) k = (pw this (tb :: r)).or (nz w) := by
  unfold forkNode
  rw [hth]
  cases key with
  | nil =>
    simp only
    rw [pw_inner_eq _ _ _ _ _ _ _ hp, hk]
    simp only [pwK, if_true]
  | cons kb ks =>
    have hne := hdiv kb ks rfl
    simp only
    by_cases hlt : tb < kb
    · simp only [hlt, if_true]
      rw [pw_inner_eq _ _ _ _ _ _ _ hp, hk]
      simp only [pwK, if_true]
    · simp only [hlt, if_false]
      rw [pw_inner_eq _ _ _ _ _ _ _ hp, hk]
      have h1 : kb < tb := by omega
      simp only [pwK, hne, if_false, h1, if_true]

theorem insAt_frame_leaf (P : ArtParams) (st : St) (B : Nat) (hid : st.txnID ≠ 0) (p : List Nat) (d : LeafD)
    (key full : List Nat) (val : Nat) (mod : Option (Nat → Nat → Nat)) (k : List Nat) (c : Nat)
    (hc : pw (.leaf p d) k = some c) :
    B ≤ c ∨ c ∈ (insAt P st (.leaf p d) key full val mod).st.pending ∨
      pw (insAt P st (.leaf p d) key full val mod).node k = some c := by
  by_cases hex : key.length = (commonPrefix key p).length ∧ key.length = p.length
  · have hkp := commonPrefix_exact key p hex.1 hex.2
    subst hkp
    exact insAt_frame_exact P st B hid (.leaf key d) full val mod k (by simp [Inner]) c hc
  · obtain ⟨hk, hw⟩ := pw_leaf_some hc
    subst hk
    obtain ⟨hnode, _⟩ := insAt_fork_leaf P st k d key full val mod hex
    right; right
    rw [hnode]
    have hcp2 := commonPrefix_hasPrefix_right key k
    cases hth : List.drop (commonPrefix key k).length k with
    | nil =>
      rw [pw_forkNode_nil _ _ _ _ _ _ _ k (by simp [Node.pfx]) hcp2 hth]
      simpa [Node.getLeaf, lfw] using hw
    | cons tb ts =>
      rw [pw_forkNode_this _ _ _ _ _ _ _ k tb ts ts (by simp [Node.pfx]) ?_ hcp2 hth]
      · rw [pw_leaf_self, hw]; rfl
      · intro kb ks hkk
        exact commonPrefix_diverge key k kb tb ks ts hkk hth

theorem drop_drop_len (k p : List Nat) (n : Nat) (hn : n ≤ p.length) :
    (k.drop n).drop (p.drop n).length = k.drop p.length := by
  rw [List.drop_drop, List.length_drop]
  congr 1; omega

theorem insAt_frame_inner (P : ArtParams) (st : St) (B : Nat) (hid : st.txnID ≠ 0) (kind : Nat) (p : List Nat)
    (lf : Option LeafD) (kids : Kids) (nw t : Nat) (key full : List Nat) (val : Nat) (mod : Option (Nat → Nat → Nat))
    (k : List Nat) (hs : Inner (OFq st.txnID B) (.inner kind p lf kids nw t))
    (hno : ¬ (key ≠ [] ∧ hasPrefix key p = true ∧ key.length ≠ p.length)) (c : Nat)
    (hc : pw (.inner kind p lf kids nw t) k = some c) :
    B ≤ c ∨ c ∈ (insAt P st (.inner kind p lf kids nw t) key full val mod).st.pending ∨
      pw (insAt P st (.inner kind p lf kids nw t) key full val mod).node k = some c := by
  by_cases hex : key.length = (commonPrefix key p).length ∧ key.length = p.length
  · have hkp := commonPrefix_exact key p hex.1 hex.2
    subst hkp
    exact insAt_frame_exact P st B hid (.inner kind key lf kids nw t) full val mod k hs c hc
  · obtain ⟨w', t', he, hnode, hst⟩ := insAt_fork_inner P st kind p lf kids nw t key full val mod hex
    have hs' := hs
    simp only [Inner] at hs'
    have hX := cloneNode_inner_X st B kind p lf kids nw t hs'.1 c
    have hle : StLe (cloneNode st (.inner kind p lf kids nw t)).1 (insAt P st (.inner kind p lf kids nw t) key full val mod).st := by
      rw [hst]; exact (newLeafD_le _ full val).trans (fresh_le _)
    have hcp := commonPrefix_hasPrefix key p
    have hcp2 := commonPrefix_hasPrefix_right key p
    have hl1 := hasPrefix_length _ _ hcp
    have hl2 := hasPrefix_length _ _ hcp2
    by_cases hp : hasPrefix k p = true
    · cases hth : List.drop (commonPrefix key p).length p with
      | nil =>
        exfalso
        have e1 : (List.drop (commonPrefix key p).length p).length = 0 := by rw [hth]; rfl
        simp only [List.length_drop] at e1
        have hcl : (commonPrefix key p).length = p.length := by omega
        have hkp : hasPrefix key p = true := by
          have := hasPrefix_drop_nil p (commonPrefix key p) hcp2 (by
            rw [List.drop_eq_nil_iff]; omega)
          rw [this]; exact hcp
        apply hno
        refine ⟨?_, hkp, ?_⟩
        · intro e; subst e
          apply hex
          simp only [List.length_nil] at hl1 ⊢
          omega
        · intro e; apply hex; omega
      | cons tb ts =>
        have hkd := hasPrefix_dropN (commonPrefix key p).length k p hp
        rw [hth] at hkd
        obtain ⟨r', hkr, hr'⟩ := hasPrefix_cons_inv _ tb ts hkd
        rw [hnode, hth]
        rw [pw_forkNode_this _ _ _ _ _ _ _ k tb ts r' (by simp [Node.pfx]) ?_ (hasPrefix_trans _ _ _ hp hcp2) hkr]
        · have hthis : pw (.inner kind (tb :: ts) lf kids w' t') (tb :: r') =
              match k.drop p.length with
              | [] => lfw lf
              | b :: r => (pwK kids b (b :: r)).or (nz w') := by
            rw [pw_inner_eq _ _ _ _ _ _ _ (by rw [← hkr]; exact hkd)]
            rw [← hkr, ← hth, drop_drop_len k p _ hl2]
          rw [hthis]
          rw [pw_inner_eq _ _ _ _ _ _ _ hp] at hc
          cases hk : List.drop p.length k with
          | nil =>
            rw [hk] at hc
            simp only at hc ⊢
            right; right; rw [hc]; rfl
          | cons b r =>
            rw [hk] at hc
            simp only at hc ⊢
            rcases or_some_cases hc with h | ⟨_, h⟩
            · right; right; rw [h]; rfl
            · rcases hX h with hx | hx
              · exact Or.inl hx
              · exact Or.inr (Or.inl (hle.sub _ hx))
        · intro kb ks hkk
          exact commonPrefix_diverge key p kb tb ks ts hkk hth
    · rw [pw_inner_noprefix _ _ _ _ _ _ _ hp] at hc; simp at hc



/-! ## frame: insert -/

theorem pwK_insert_free (P : ArtParams) (st : St) (b' : Nat) (key' full : List Nat) (val : Nat)
    (mod : Option (Nat → Nat → Nat)) (n : Node) (b : Nat) (k2 : List Nat) (c : Nat) :
    (kids : Kids) → insKids P st kids b' key' full val mod = none → pwK kids b k2 = some c →
    pwK (kids.insert b' n) b k2 = some c
  | .nil, _, h => by simp [pwK] at h
  | .cons a m r, hins, h => by
    unfold insKids at hins
    by_cases hab : a = b'
    · simp [hab] at hins
    · simp only [hab, if_false] at hins
      unfold pwK at h
      by_cases hlt : a < b'
      · simp only [hlt, if_true] at hins
        have hr : insKids P st r b' key' full val mod = none := by
          cases hh : insKids P st r b' key' full val mod with
          | none => rfl
          | some x => rw [hh] at hins; simp at hins
        have : ¬ b' < a := by omega
        simp only [Kids.insert, this, if_false]
        unfold pwK
        by_cases h1 : a = b
        · simp only [h1, if_true] at h ⊢; exact h
        · simp only [h1, if_false] at h ⊢
          by_cases h2 : a < b
          · simp only [h2, if_true] at h ⊢
            exact pwK_insert_free P st b' key' full val mod n b k2 c r hr h
          · simp [h2] at h
      · have hgt : b' < a := by omega
        simp only [Kids.insert, hgt, if_true]
        by_cases h1 : a = b
        · have e1 : ¬ b' = b := by omega
          have e2 : b' < b := by omega
          simp only [h1, if_true] at h
          simp only [pwK, e1, if_false, e2, if_true, h1]
          exact h
        · simp only [h1, if_false] at h
          by_cases h2 : a < b
          · have e1 : ¬ b' = b := by omega
            have e2 : b' < b := by omega
            simp only [h2, if_true] at h
            simp only [pwK, e1, if_false, e2, if_true, h1, h2]
            exact h
          · simp [h2] at h

/-- an inner node whose children were rebuilt (kids → kids') and whose own
    kind / watch / stamp may have changed keeps, or has recorded, every path watch -/
theorem pw_inner_frame (B : Nat) (pend : List Nat) (kind kind' : Nat) (p : List Nat) (lf : Option LeafD)
    (kids kids' : Kids) (nw nw' t t' : Nat) (k : List Nat) (c : Nat)
    (hkids : ∀ b k2, pwK kids b k2 = some c → B ≤ c ∨ c ∈ pend ∨ pwK kids' b k2 = some c)
    (hnw : nz nw = some c → B ≤ c ∨ c ∈ pend)
    (hc : pw (.inner kind p lf kids nw t) k = some c) :
    B ≤ c ∨ c ∈ pend ∨ pw (.inner kind' p lf kids' nw' t') k = some c := by
  by_cases hp : hasPrefix k p = true
  · rw [pw_inner_eq _ _ _ _ _ _ _ hp] at hc ⊢
    cases hk : List.drop p.length k with
    | nil => rw [hk] at hc; right; right; exact hc
    | cons b r =>
      rw [hk] at hc
      simp only at hc ⊢
      rcases or_some_cases hc with h | ⟨_, h⟩
      · rcases hkids b (b :: r) h with hx | hx | hx
        · exact Or.inl hx
        · exact Or.inr (Or.inl hx)
        · right; right; rw [hx]; rfl
      · rcases hnw h with hx | hx
        · exact Or.inl hx
        · exact Or.inr (Or.inl hx)
  · rw [pw_inner_noprefix _ _ _ _ _ _ _ hp] at hc; simp at hc

mutual
theorem insNode_frame (P : ArtParams) (st : St) (B : Nat) (hid : st.txnID ≠ 0) : (n : Node) → (key full : List Nat) →
    (val : Nat) → (mod : Option (Nat → Nat → Nat)) → (k : List Nat) → Inner (OFq st.txnID B) n →
    ∀ c, pw n k = some c →
      B ≤ c ∨ c ∈ (insNode P st n key full val mod).st.pending ∨ pw (insNode P st n key full val mod).node k = some c
  | .leaf p d, key, full, val, mod, k, hs, c, hc => by
    unfold insNode; exact insAt_frame_leaf P st B hid p d key full val mod k c hc
  | .inner kind pfx lf kids nw t, key, full, val, mod, k, hs, c, hc => by
    have hs' := hs
    simp only [Inner] at hs'
    have hA := insNode_inner_rec' P st B kind pfx lf kids nw t key full val mod hs'.1 c
    by_cases hcond : key ≠ [] ∧ hasPrefix key pfx = true ∧ key.length ≠ pfx.length
    · have hA' : nz nw = some c → B ≤ c ∨ c ∈ (insNode P st (.inner kind pfx lf kids nw t) key full val mod).st.pending := hA
      unfold insNode at hA' ⊢
      rw [if_pos hcond] at hA' ⊢
      simp only at hA' ⊢
      cases hins : insKids P st kids ((List.drop pfx.length key).headD 0) (List.drop pfx.length key) full val mod with
      | some x =>
        obtain ⟨res, kids'⟩ := x
        simp only [hins] at hA' ⊢
        obtain ⟨w', t', he, _⟩ := cloneNode_inner res.st kind pfx lf kids' nw t
        rw [he]
        refine pw_inner_frame B _ kind kind pfx lf kids kids' nw w' t t' k c ?_ hA' hc
        intro b k2 hb
        rcases insKids_frame P st B hid kids _ _ full val mod res kids' hs'.2 hins b k2 c hb with hx | hx | hx
        · exact Or.inl hx
        · exact Or.inr (Or.inl ((cloneNode_le _ _).sub _ hx))
        · exact Or.inr (Or.inr hx)
      | none =>
        simp only [hins] at hA' ⊢
        by_cases hsz : kids.size + 1 > kind
        · simp only [hsz, if_true] at hA' ⊢
          refine pw_inner_frame B _ kind _ pfx lf kids _ nw _ t _ k c ?_ hA' hc
          intro b k2 hb
          exact Or.inr (Or.inr (pwK_insert_free P st _ _ full val mod _ b k2 c kids hins hb))
        · simp only [hsz, if_false] at hA' ⊢
          obtain ⟨w', t', he, _⟩ := cloneNode_inner (newLeafD st full val).1 kind pfx lf
            (kids.insert ((List.drop pfx.length key).headD 0) (Node.leaf (List.drop pfx.length key) (newLeafD st full val).2)) nw t
          rw [he]
          refine pw_inner_frame B _ kind kind pfx lf kids _ nw w' t t' k c ?_ hA' hc
          intro b k2 hb
          exact Or.inr (Or.inr (pwK_insert_free P st _ _ full val mod _ b k2 c kids hins hb))
    · unfold insNode
      rw [if_neg hcond]
      exact insAt_frame_inner P st B hid kind pfx lf kids nw t key full val mod k hs hcond c hc
theorem insKids_frame (P : ArtParams) (st : St) (B : Nat) (hid : st.txnID ≠ 0) : (kids : Kids) → (b' : Nat) →
    (key full : List Nat) → (val : Nat) → (mod : Option (Nat → Nat → Nat)) → (r : InsRes) → (kids' : Kids) →
    InnerK (OFq st.txnID B) kids → insKids P st kids b' key full val mod = some (r, kids') →
    ∀ b k2 c, pwK kids b k2 = some c → B ≤ c ∨ c ∈ r.st.pending ∨ pwK kids' b k2 = some c
  | .nil, b', key, full, val, mod, r, kids', hs, h => by simp [insKids] at h
  | .cons a n rest, b', key, full, val, mod, r, kids', hs, h => by
    intro b k2 c hb
    simp only [InnerK] at hs
    unfold insKids at h
    unfold pwK at hb
    by_cases hab : a = b'
    · simp only [hab, if_true, Option.some.injEq, Prod.mk.injEq] at h
      rw [← h.2, ← h.1]
      unfold pwK
      by_cases h1 : b' = b
      · rw [hab] at hb
        simp only [h1, if_true] at hb ⊢
        exact insNode_frame P st B hid n key full val mod k2 hs.1 c hb
      · rw [hab] at hb
        simp only [h1, if_false] at hb ⊢
        exact Or.inr (Or.inr hb)
    · simp only [hab, if_false] at h
      by_cases hlt : a < b'
      · simp only [hlt, if_true] at h
        cases hh : insKids P st rest b' key full val mod with
        | none => rw [hh] at h; simp at h
        | some x =>
          obtain ⟨r', rest'⟩ := x
          rw [hh] at h
          simp only [Option.some.injEq, Prod.mk.injEq] at h
          rw [← h.2, ← h.1]
          unfold pwK
          by_cases h1 : a = b
          · simp only [h1, if_true] at hb ⊢; exact Or.inr (Or.inr hb)
          · simp only [h1, if_false] at hb ⊢
            by_cases h2 : a < b
            · simp only [h2, if_true] at hb ⊢
              exact insKids_frame P st B hid rest b' key full val mod r' rest' hs.2 hh b k2 c hb
            · simp [h2] at hb
      · simp [hlt] at h
end



/-! ## frame: delete -/

theorem hasPrefix_split : (k p : List Nat) → hasPrefix k p = true → k = p ++ k.drop p.length
  | _, [], _ => by simp
  | [], _ :: _, h => by simp [hasPrefix] at h
  | a :: as, b :: bs, h => by
    simp only [hasPrefix, Bool.and_eq_true, beq_iff_eq] at h
    simp only [List.length_cons, List.drop_succ_cons, List.cons_append, List.cons.injEq]
    exact ⟨h.1, hasPrefix_split as bs h.2⟩

theorem hasPrefix_append_same : (l a b : List Nat) → hasPrefix (l ++ a) (l ++ b) = hasPrefix a b
  | [], _, _ => rfl
  | x :: xs, a, b => by simp [hasPrefix, hasPrefix_append_same xs a b]

/-- a child moved up into its parent's place (prefixes concatenated, watch kept)
    answers the same path watch the parent's child did -/
theorem pw_mergeUp (pfx : List Nat) (child : Node) (k : List Nat) (c : Nat) (hp : hasPrefix k pfx = true)
    (hc : pw child (k.drop pfx.length) = some c) : pw (mergeUp pfx child) k = some c := by
  have hsplit := hasPrefix_split k pfx hp
  cases child with
  | leaf p d =>
    obtain ⟨hk2, hw⟩ := pw_leaf_some hc
    simp only [mergeUp, Node.setPfx, Node.pfx]
    rw [hsplit, hk2, pw_leaf_self]; exact hw
  | inner kind cp lf kids nw t =>
    simp only [mergeUp, Node.setPfx, Node.pfx]
    by_cases hcp : hasPrefix (k.drop pfx.length) cp = true
    · have hfull : hasPrefix k (pfx ++ cp) = true := by
        rw [hsplit, hasPrefix_append_same]; exact hcp
      rw [pw_inner_eq _ _ _ _ _ _ _ hcp] at hc
      rw [pw_inner_eq _ _ _ _ _ _ _ hfull]
      have : List.drop (pfx ++ cp).length k = List.drop cp.length (List.drop pfx.length k) := by
        rw [List.drop_drop, List.length_append]
      rw [this]; exact hc
    · rw [pw_inner_noprefix _ _ _ _ _ _ _ hcp] at hc; simp at hc

/-- `pw_inner_frame` allowing the node's own leaf to change as well -/
theorem pw_inner_frame' (B : Nat) (pend : List Nat) (kind kind' : Nat) (p : List Nat) (lf lf' : Option LeafD)
    (kids kids' : Kids) (nw nw' t t' : Nat) (k : List Nat) (c : Nat)
    (hkids : ∀ b k2, pwK kids b k2 = some c → B ≤ c ∨ c ∈ pend ∨ pwK kids' b k2 = some c)
    (hnw : nz nw = some c → B ≤ c ∨ c ∈ pend)
    (hlf : lfw lf = some c → B ≤ c ∨ c ∈ pend ∨ lfw lf' = some c)
    (hc : pw (.inner kind p lf kids nw t) k = some c) :
    B ≤ c ∨ c ∈ pend ∨ pw (.inner kind' p lf' kids' nw' t') k = some c := by
  by_cases hp : hasPrefix k p = true
  · rw [pw_inner_eq _ _ _ _ _ _ _ hp] at hc ⊢
    cases hk : List.drop p.length k with
    | nil => rw [hk] at hc; exact hlf hc
    | cons b r =>
      rw [hk] at hc
      simp only at hc ⊢
      rcases or_some_cases hc with h | ⟨_, h⟩
      · rcases hkids b (b :: r) h with hx | hx | hx
        · exact Or.inl hx
        · exact Or.inr (Or.inl hx)
        · right; right; rw [hx]; rfl
      · rcases hnw h with hx | hx
        · exact Or.inl hx
        · exact Or.inr (Or.inl hx)
  · rw [pw_inner_noprefix _ _ _ _ _ _ _ hp] at hc; simp at hc

/-- path watch in what a deletion leaves behind -/
def pwD (k : List Nat) : DelRes → Option Nat
  | .replaced _ n _ => pw n k
  | _ => none

theorem Kids.size_one : (kids : Kids) → kids.size = 1 → ∃ a child, kids = .cons a child .nil
  | .nil, h => by simp [Kids.size] at h
  | .cons a child .nil, _ => ⟨a, child, rfl⟩
  | .cons _ _ (.cons _ _ _), h => by simp [Kids.size] at h

theorem delAt_frame (st : St) (B : Nat) (n : Node) (hs : Inner (OFq st.txnID B) n) (st' : St)
    (h : delSt (delAt st n) = some st') (k : List Nat) (c : Nat) (hc : pw n k = some c) :
    B ≤ c ∨ c ∈ st'.pending ∨ pwD k (delAt st n) = some c := by
  cases n with
  | leaf p d =>
    obtain ⟨_, hw⟩ := pw_leaf_some hc
    obtain ⟨hwc, hc0⟩ := nz_some hw
    right; left
    rcases delAt_rec_leaf st (.leaf p d) st' h d rfl with h | h
    · rw [hwc] at h; exact absurd h hc0
    · rw [← hwc]; exact h
  | inner kind pfx lf kids nw t =>
    simp only [Inner] at hs
    have hnw : nz nw = some c → B ≤ c ∨ c ∈ st'.pending := by
      intro hn
      obtain ⟨hwc, hc0⟩ := nz_some hn
      subst hwc
      by_cases ht : t = st.txnID
      · rcases hs.1 ht with h | h
        · exact absurd h hc0
        · exact Or.inl h
      · rcases delAt_rec_inner st kind pfx lf kids nw t st' h ht with h | h
        · exact absurd h hc0
        · exact Or.inr h
    have hlf : lfw lf = some c → B ≤ c ∨ c ∈ st'.pending := by
      intro hl
      obtain ⟨d, hlf, hdw, hc0⟩ := lfw_some hl
      right
      rcases delAt_rec_leaf st (.inner kind pfx lf kids nw t) st' h d (by simp [Node.getLeaf, hlf]) with h | h
      · rw [hdw] at h; exact absurd h hc0
      · rw [← hdw]; exact h
    -- what is left behind
    cases lf with
    | none => simp [delAt, Node.getLeaf, delSt] at h
    | some d =>
      by_cases hs1 : kids.size = 1
      · obtain ⟨a, child, hk⟩ := Kids.size_one kids hs1
        subst hk
        have hd : delAt st (.inner kind pfx (some d) (.cons a child .nil) nw t) =
            .replaced ((st.record d.watch).record nw) (mergeUp pfx child) d.val := by
          simp [delAt, Node.getLeaf, Kids.size, Kids.first]
        rw [hd]
        simp only [pwD]
        by_cases hp : hasPrefix k pfx = true
        · rw [pw_inner_eq _ _ _ _ _ _ _ hp] at hc
          cases hkd : List.drop pfx.length k with
          | nil =>
            rw [hkd] at hc
            rcases hlf hc with hx | hx
            · exact Or.inl hx
            · exact Or.inr (Or.inl hx)
          | cons b r =>
            rw [hkd] at hc
            simp only at hc
            rcases or_some_cases hc with h1 | ⟨_, h1⟩
            · right; right
              apply pw_mergeUp pfx child k c hp
              rw [hkd]
              simp only [pwK] at h1
              by_cases hab : a = b
              · simpa [hab] using h1
              · simp only [hab, if_false] at h1
                split at h1 <;> simp at h1
            · rcases hnw h1 with hx | hx
              · exact Or.inl hx
              · exact Or.inr (Or.inl hx)
        · rw [pw_inner_noprefix _ _ _ _ _ _ _ hp] at hc; simp at hc
      · by_cases hs0 : kids.size > 0
        · have hd : delAt st (.inner kind pfx (some d) kids nw t) =
              .replaced (cloneNode (st.record d.watch) (.inner kind pfx none kids nw t)).1
                (cloneNode (st.record d.watch) (.inner kind pfx none kids nw t)).2 d.val := by
            simp [delAt, Node.getLeaf, hs1, hs0]
          rw [hd]
          simp only [pwD]
          obtain ⟨w', t', he, _⟩ := cloneNode_inner (st.record d.watch) kind pfx none kids nw t
          rw [he]
          refine pw_inner_frame' B _ kind kind pfx (some d) none kids kids nw w' t t' k c ?_ hnw ?_ hc
          · intro b k2 hb; exact Or.inr (Or.inr hb)
          · intro hl
            rcases hlf hl with hx | hx
            · exact Or.inl hx
            · exact Or.inr (Or.inl hx)
        · have hz : kids.size = 0 := by omega
          -- removed: everything on the path is recorded
          by_cases hp : hasPrefix k pfx = true
          · rw [pw_inner_eq _ _ _ _ _ _ _ hp] at hc
            cases hkd : List.drop pfx.length k with
            | nil =>
              rw [hkd] at hc
              rcases hlf hc with hx | hx
              · exact Or.inl hx
              · exact Or.inr (Or.inl hx)
            | cons b r =>
              rw [hkd] at hc
              simp only at hc
              rcases or_some_cases hc with h1 | ⟨_, h1⟩
              · cases kids with
                | nil => simp [pwK] at h1
                | cons _ _ _ => simp [Kids.size] at hz
              · rcases hnw h1 with hx | hx
                · exact Or.inl hx
                · exact Or.inr (Or.inl hx)
          · rw [pw_inner_noprefix _ _ _ _ _ _ _ hp] at hc; simp at hc

theorem delKids_found_size (P : ArtParams) (st : St) : (kids : Kids) → (b' : Nat) → (key : List Nat) → (r : DelRes) →
    (kids' : Kids) → delKids P st kids b' key = some (r, kids') → (kids.erase b').size + 1 = kids.size
  | .nil, b', key, r, kids', h => by simp [delKids] at h
  | .cons a n rest, b', key, r, kids', h => by
    rcases delKids_inv' P st a n rest b' key r kids' h with ⟨hab, _, _⟩ | ⟨_, hne, rest', hk, _⟩
    · simp [Kids.erase, hab, Kids.size]
    · have := delKids_found_size P st rest b' key r rest' hk
      simp only [Kids.erase, hne, if_false, Kids.size]; omega

theorem removeChild_frame (P : ArtParams) (st1 : St) (B : Nat) (kind : Nat) (pfx : List Nat) (lf : Option LeafD)
    (kids : Kids) (nw t b' : Nat) (k : List Nat) (c : Nat) (hq : OFq st1.txnID B t nw)
    (hsz : (kids.erase b').size + 1 = kids.size)
    (hkids : ∀ b k2, pwK kids b k2 = some c → B ≤ c ∨ c ∈ st1.pending ∨ pwK (kids.erase b') b k2 = some c)
    (hc : pw (.inner kind pfx lf kids nw t) k = some c) :
    B ≤ c ∨ c ∈ (removeChild P st1 kind pfx lf kids nw t b').1.pending ∨
      pw (removeChild P st1 kind pfx lf kids nw t b').2 k = some c := by
  have hle := removeChild_le P st1 kind pfx lf kids nw t b'
  have hnw : nz nw = some c → B ≤ c ∨ c ∈ (removeChild P st1 kind pfx lf kids nw t b').1.pending := by
    intro hn
    obtain ⟨hwc, hc0⟩ := nz_some hn
    subst hwc
    by_cases ht : t = st1.txnID
    · rcases hq ht with h | h
      · exact absurd h hc0
      · exact Or.inl h
    · rcases removeChild_rec P st1 kind pfx lf kids nw t b' ht with h | h
      · exact absurd h hc0
      · exact Or.inr h
  have hkids' : ∀ b k2, pwK kids b k2 = some c →
      B ≤ c ∨ c ∈ (removeChild P st1 kind pfx lf kids nw t b').1.pending ∨ pwK (kids.erase b') b k2 = some c := by
    intro b k2 hb
    rcases hkids b k2 hb with hx | hx | hx
    · exact Or.inl hx
    · exact Or.inr (Or.inl (hle.sub _ hx))
    · exact Or.inr (Or.inr hx)
  unfold removeChild at hnw hkids' ⊢
  simp only at hnw hkids' ⊢
  by_cases hm : kids.size = 2 ∧ lf.isNone = true
  · rw [if_pos hm] at hnw hkids' ⊢
    have hs1 : (kids.erase b').size = 1 := by omega
    obtain ⟨a, child, hk⟩ := Kids.size_one _ hs1
    rw [hk] at hnw hkids' ⊢
    simp only [Kids.first] at hnw hkids' ⊢
    by_cases hp : hasPrefix k pfx = true
    · rw [pw_inner_eq _ _ _ _ _ _ _ hp] at hc
      cases hkd : List.drop pfx.length k with
      | nil =>
        rw [hkd] at hc
        cases lf with
        | none => simp [lfw] at hc
        | some d => simp at hm
      | cons b r =>
        rw [hkd] at hc
        simp only at hc
        rcases or_some_cases hc with h1 | ⟨_, h1⟩
        · rcases hkids' b (b :: r) h1 with hx | hx | hx
          · exact Or.inl hx
          · exact Or.inr (Or.inl hx)
          · right; right
            apply pw_mergeUp pfx child k c hp
            rw [hkd]
            simp only [pwK] at hx
            by_cases hab : a = b
            · simpa [hab] using hx
            · simp only [hab, if_false] at hx
              split at hx <;> simp at hx
        · rcases hnw h1 with hx | hx
          · exact Or.inl hx
          · exact Or.inr (Or.inl hx)
    · rw [pw_inner_noprefix _ _ _ _ _ _ _ hp] at hc; simp at hc
  · rw [if_neg hm] at hnw hkids' ⊢
    split
    · rename_i hdem
      rw [if_pos hdem] at hnw hkids'
      exact pw_inner_frame B _ kind _ pfx lf kids _ nw _ t _ k c hkids' hnw hc
    · rename_i hdem
      rw [if_neg hdem] at hnw hkids'
      obtain ⟨w', t', he, _⟩ := cloneNode_inner st1 kind pfx lf (kids.erase b') nw t
      rw [he]
      exact pw_inner_frame B _ kind _ pfx lf kids _ nw _ t _ k c hkids' hnw hc

/-- the children a successful `delKids` leaves: rebuilt, or with the child erased -/
def delKidsOut (r : DelRes) (kids kids' : Kids) (b' : Nat) : Kids :=
  match r with
  | .replaced _ _ _ => kids'
  | _ => kids.erase b'

mutual
theorem delNode_frame (P : ArtParams) (st : St) (B : Nat) : (n : Node) → (key : List Nat) → (st' : St) →
    Inner (OFq st.txnID B) n → delSt (delNode P st n key) = some st' → (k : List Nat) →
    ∀ c, pw n k = some c → B ≤ c ∨ c ∈ st'.pending ∨ pwD k (delNode P st n key) = some c
  | .leaf p d, key, st', hs, h, k, c, hc => by
    obtain ⟨hk, h'⟩ := delNode_leaf_inv P st p d key st' h
    subst hk
    rw [delNode_nil P st (.leaf key d) key (by simpa [Node.pfx] using hasPrefix_take key key) (by simp [Node.pfx])]
    exact delAt_frame st B _ hs st' h' k c hc
  | .inner kind pfx lf kids nw t, key, st', hs, h, k, c, hc => by
    have hs' := hs
    simp only [Inner] at hs'
    have hnf : delNode P st (.inner kind pfx lf kids nw t) key ≠ .notFound := by
      intro e; rw [e] at h; simp [delSt] at h
    obtain ⟨_, hcs⟩ := delNode_inner_cases P st kind pfx lf kids nw t key hnf
    rcases hcs with ⟨_, he⟩ | ⟨b', r, _, ⟨st1, n1, old1, kids', hdk, he⟩ | ⟨st1, old1, kids', hdk, he⟩⟩
    · rw [he] at h ⊢
      exact delAt_frame st B _ hs st' h k c hc
    · rw [he] at h ⊢
      simp only [delSt, Option.some.injEq] at h
      rw [← h]
      simp only [pwD]
      have hle := delKids_le P st kids b' _ _ kids' st1 hdk rfl
      obtain ⟨w', t', hcl, _⟩ := cloneNode_inner st1 kind pfx lf kids' nw t
      rw [hcl]
      refine pw_inner_frame B _ kind kind pfx lf kids kids' nw w' t t' k c ?_ ?_ hc
      · intro b k2 hb
        rcases delKids_frame P st B kids b' (b' :: r) _ kids' st1 hs'.2 hdk rfl b k2 c hb with hx | hx | hx
        · exact Or.inl hx
        · exact Or.inr (Or.inl ((cloneNode_le _ _).sub _ hx))
        · exact Or.inr (Or.inr hx)
      · intro hn
        exact cloneNode_inner_X st1 B kind pfx lf kids' nw t (by rw [hle.id]; exact hs'.1) c hn
    · rw [he] at h ⊢
      simp only [delSt, Option.some.injEq] at h
      rw [← h]
      simp only [pwD]
      have hle := delKids_le P st kids b' _ _ kids' st1 hdk rfl
      refine removeChild_frame P st1 B kind pfx lf kids nw t b' k c (by rw [hle.id]; exact hs'.1)
        (delKids_found_size P st kids b' _ _ kids' hdk) ?_ hc
      intro b k2 hb
      exact delKids_frame P st B kids b' (b' :: r) _ kids' st1 hs'.2 hdk rfl b k2 c hb
theorem delKids_frame (P : ArtParams) (st : St) (B : Nat) : (kids : Kids) → (b' : Nat) → (key : List Nat) →
    (r : DelRes) → (kids' : Kids) → (st' : St) → InnerK (OFq st.txnID B) kids →
    delKids P st kids b' key = some (r, kids') → delSt r = some st' →
    ∀ b k2 c, pwK kids b k2 = some c → B ≤ c ∨ c ∈ st'.pending ∨ pwK (delKidsOut r kids kids' b') b k2 = some c
  | .nil, b', key, r, kids', st', hs, h, hr => by simp [delKids] at h
  | .cons a n rest, b', key, r, kids', st', hs, h, hr => by
    intro b k2 c hb
    simp only [InnerK] at hs
    unfold pwK at hb
    rcases delKids_inv' P st a n rest b' key r kids' h with ⟨hab, hre, hk⟩ | ⟨hlt, hne, rest', hk, he⟩
    · have ih := delNode_frame P st B n key st' hs.1 (by rw [← hre]; exact hr) k2 c
      rw [← hre] at ih
      rcases hk with ⟨s2, n2, o2, hr2, he⟩ | ⟨hno, he⟩
      · rw [hr2] at ih ⊢
        simp only [delKidsOut, pwD] at ih ⊢
        rw [he]
        unfold pwK
        by_cases h1 : a = b
        · simp only [h1, if_true] at hb ⊢; exact ih hb
        · simp only [h1, if_false] at hb ⊢; exact Or.inr (Or.inr hb)
      · have hout : delKidsOut r (.cons a n rest) kids' b' = rest := by
          cases r with
          | replaced s n' o => exact absurd rfl (hno s n' o)
          | notFound => simp [delKidsOut, Kids.erase, hab]
          | removed s o => simp [delKidsOut, Kids.erase, hab]
        rw [hout]
        have hpd : pwD k2 r = none := by
          cases r with
          | replaced s n' o => exact absurd rfl (hno s n' o)
          | notFound => rfl
          | removed s o => rfl
        rw [hpd] at ih
        by_cases h1 : a = b
        · simp only [h1, if_true] at hb
          rcases ih hb with hx | hx | hx
          · exact Or.inl hx
          · exact Or.inr (Or.inl hx)
          · simp at hx
        · simp only [h1, if_false] at hb
          by_cases h2 : a < b
          · simp only [h2, if_true] at hb; exact Or.inr (Or.inr hb)
          · simp [h2] at hb
    · have ih := delKids_frame P st B rest b' key r rest' st' hs.2 hk hr b k2 c
      have hout : delKidsOut r (.cons a n rest) kids' b' = .cons a n (delKidsOut r rest rest' b') := by
        cases r with
        | replaced s n' o => simp [delKidsOut, he]
        | notFound => simp [delKidsOut, Kids.erase, hne]
        | removed s o => simp [delKidsOut, Kids.erase, hne]
      rw [hout]
      unfold pwK
      by_cases h1 : a = b
      · simp only [h1, if_true] at hb ⊢; exact Or.inr (Or.inr hb)
      · simp only [h1, if_false] at hb ⊢
        by_cases h2 : a < b
        · simp only [h2, if_true] at hb ⊢; exact ih hb
        · simp [h2] at hb
end


end Sdb.ArtW
