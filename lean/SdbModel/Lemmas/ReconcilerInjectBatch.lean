import SdbModel.Lemmas.ReconcilerBatchMeasure
import SdbModel.Lemmas.ReconcilerInjectSim

/-!
  Lemmas.ReconcilerInjectBatch — the batch variant of a round (`R.roundB`) with
  user writes landing while `UpdateBatch` runs.  Both batches are loops of
  `processSingle` over the collected entries (`stepD_eq_processSingle`, `updateBatch_eqP`);
  the proofs replay them against a ghost iterator position that advances change
  by change, so that the step lemmas of the single-operation round
  (`JInv.consume_upd`, `JInv.consume_del`, `JInv.step_skip`) apply.
-/
namespace Sdb.Rec

/-! ## the ghost iterator commutes with the operations -/

theorem ghost_retryClear (x : R) (a b id : Nat) : (ghost x a b).retryClear id = ghost (x.retryClear id) a b := by
  unfold R.retryClear
  show (match x.items.find? (·.id = id) with | none => ghost x a b | some it => _) = _
  cases x.items.find? (·.id = id) with
  | none => rfl
  | some it => rfl

theorem ghost_landAll (x : R) (a b : Nat) (acts : List (Nat × Inject)) : (ghost x a b).landAll acts = ghost (x.landAll acts) a b := by
  rw [landAll_of_tbl x (ghost x a b) rfl rfl rfl rfl acts]
  conv => rhs; rw [landAll_of_tbl x x rfl rfl rfl rfl acts]
  rfl

theorem ghost_preUpdate (x : R) (a b : Nat) (o : RObj) (rev : Nat) : (ghost x a b).preUpdate o rev = ghost (x.preUpdate o rev) a b := by
  unfold R.preUpdate
  have hf : (ghost x a b).isFailing o.id = x.isFailing o.id := rfl
  rw [hf]
  dsimp only
  split
  · rfl
  · rw [← ghost_retryClear]; rfl

theorem ghost_processSingle (x : R) (a b : Nat) (o : RObj) (rev : Nat) (del : Bool) :
    (ghost x a b).processSingle o rev del = ghost (x.processSingle o rev del) a b := by
  cases del with
  | false =>
    rw [processSingle_update_land, processSingle_update_land, ghost_preUpdate, ghost_landAll]
    rfl
  | true =>
    rw [processSingle_delete, processSingle_delete]
    have hf : (ghost x a b).isFailing o.id = x.isFailing o.id := rfl
    rw [hf]
    split
    · rfl
    · rw [← ghost_retryClear]; rfl

theorem retryClear_of_no_item (x : R) (id : Nat) (h : ∀ it ∈ x.items, it.id ≠ id) : x.retryClear id = x := by
  unfold R.retryClear
  have : x.items.find? (·.id = id) = none := by
    rw [List.find?_eq_none]; intro it hit; simpa using h it hit
  rw [this]

/-! ## `updateBatch` is the loop of `processSingle` over the entries -/

/-- `x` with another call log and another queue of writes -/
def withLI (x : R) (l : List Call) (j : List (Nat × Inject)) : R := { x with log := l, injects := j }

/-- the call of one entry of the update batch and the writes that land during it -/
def updP (x : R) (e : BEntry) : R :=
  (withLI x (x.log ++ [({ op := "U", id := e.1.id, data := e.1.data, ok := !x.isFailing e.1.id } : Call)])
    (x.injects.filter (fun (a : Nat × Inject) => a.1 ≠ e.1.id))).landAll
    (x.injects.filter (fun (a : Nat × Inject) => a.1 = e.1.id))

/-- the bookkeeping of one entry after the batch has run -/
def updQ (x : R) (y : BEntry × Bool) : R :=
  { (if y.2 then x else x.retryClear y.1.1.id) with
    results := (if y.2 then x else x.retryClear y.1.1.id).results ++ [(y.1.1, y.1.1, y.1.2, y.1.1.sid, y.2)] }

theorem updCalls_eq (acc : R × List (BEntry × Bool)) (e : BEntry) :
    updCalls acc e = (updP acc.1 e, acc.2 ++ [(e, acc.1.isFailing e.1.id)]) := rfl

theorem updP_failing (x : R) (e : BEntry) : (updP x e).failing = x.failing := by
  unfold updP; rw [(frameW_landAll _ _).failing]; rfl

theorem updP_isFailing (x : R) (e : BEntry) (id : Nat) : (updP x e).isFailing id = x.isFailing id := by
  unfold R.isFailing; rw [updP_failing]

theorem retryClear_with_results (y : R) (X : List Res) (id : Nat) :
    R.retryClear { y with results := X } id = { y.retryClear id with results := X } := by
  unfold R.retryClear
  show (match y.items.find? (·.id = id) with | none => ({ y with results := X } : R) | some it => _) = _
  cases y.items.find? (·.id = id) with
  | none => rfl
  | some it => rfl

theorem retryClear_withLI (y : R) (l : List Call) (j : List (Nat × Inject)) (id : Nat) :
    R.retryClear (withLI y l j) id = withLI (y.retryClear id) l j := by
  unfold R.retryClear
  show (match y.items.find? (·.id = id) with | none => withLI y l j | some it => _) = _
  cases y.items.find? (·.id = id) with
  | none => rfl
  | some it => rfl

theorem updQ_true (L : R) (e : BEntry) :
    updQ L (e, true) = { L with results := L.results ++ [(e.1, e.1, e.2, e.1.sid, true)] } := rfl

theorem updQ_false (L : R) (e : BEntry) :
    updQ L (e, false) = R.retryClear { L with results := L.results ++ [(e.1, e.1, e.2, e.1.sid, false)] } e.1.id := by
  rw [retryClear_with_results]
  show ({ L.retryClear e.1.id with results := (L.retryClear e.1.id).results ++ [(e.1, e.1, e.2, e.1.sid, false)] } : R) = _
  rw [retryClear_results]

/-- call + bookkeeping of one entry = `processSingle` -/
theorem updQ_updP (x : R) (e : BEntry) : updQ (updP x e) (e, x.isFailing e.1.id) = x.processSingle e.1 e.2 false := by
  rw [processSingle_update_raw]
  cases hf : x.isFailing e.1.id with
  | true =>
    rw [updQ_true]
    simp only [if_true]
    unfold updP withLI
    rw [hf]
  | false =>
    rw [updQ_false]
    simp only [Bool.false_eq_true, if_false]
    unfold updP withLI
    rw [hf]

theorem updQ_tbl (t b : R) (y : BEntry × Bool) : updQ (R.tbl t b) y = R.tbl t (updQ b y) := by
  unfold updQ
  cases y.2 with
  | true => rfl
  | false =>
    simp only [Bool.false_eq_true, if_false]
    rw [tbl_retryClear]
    rfl

theorem updQ_withLI (x : R) (l : List Call) (j : List (Nat × Inject)) (y : BEntry × Bool) :
    updQ (withLI x l j) y = withLI (updQ x y) l j := by
  unfold updQ
  cases y.2 with
  | true => rfl
  | false =>
    simp only [Bool.false_eq_true, if_false]
    rw [retryClear_withLI]
    rfl

theorem updQ_frame (x : R) (y : BEntry × Bool) :
    (updQ x y).injects = x.injects ∧ (updQ x y).log = x.log ∧ (updQ x y).failing = x.failing ∧
    (updQ x y).objs = x.objs ∧ (updQ x y).tableRev = x.tableRev ∧ (updQ x y).dels = x.dels ∧ (updQ x y).nextSid = x.nextSid := by
  unfold updQ
  cases y.2 <;> simp

/-- the bookkeeping of an entry commutes with the call of another -/
theorem updQ_comm (x : R) (e' : BEntry) (y : BEntry × Bool) : updQ (updP x e') y = updP (updQ x y) e' := by
  obtain ⟨hinj, hlog, hfl, h1, h2, h3, h4⟩ := updQ_frame x y
  have hfl' : (updQ x y).isFailing e'.1.id = x.isFailing e'.1.id := by unfold R.isFailing; rw [hfl]
  unfold updP
  rw [hinj, hlog, hfl']
  generalize x.injects.filter (fun (a : Nat × Inject) => a.1 = e'.1.id) = acts
  generalize x.log ++ [({ op := "U", id := e'.1.id, data := e'.1.data, ok := !x.isFailing e'.1.id } : Call)] = l
  generalize x.injects.filter (fun (a : Nat × Inject) => a.1 ≠ e'.1.id) = j
  rw [landAll_of_tbl x (withLI x l j) rfl rfl rfl rfl acts,
    landAll_of_tbl x (withLI (updQ x y) l j) h1 h2 h3 h4 acts, updQ_tbl, updQ_withLI]

theorem updQ_comm_foldl (us : List BEntry) (x : R) (y : BEntry × Bool) :
    updQ (us.foldl updP x) y = us.foldl updP (updQ x y) := by
  induction us generalizing x with
  | nil => rfl
  | cons e us ih => rw [List.foldl_cons, List.foldl_cons, ih, updQ_comm]

theorem updCalls_foldl (us : List BEntry) (x : R) (acc : List (BEntry × Bool)) :
    us.foldl updCalls (x, acc) = (us.foldl updP x, acc ++ us.map (fun e => (e, x.isFailing e.1.id))) := by
  induction us generalizing x acc with
  | nil => simp
  | cons e us ih =>
    rw [List.foldl_cons, updCalls_eq, ih]
    simp only [List.foldl_cons, List.map_cons, List.append_assoc, List.singleton_append, updP_isFailing]

theorem isFailing_processSingle (x : R) (o : RObj) (rev : Nat) (del : Bool) (id : Nat) :
    (x.processSingle o rev del).isFailing id = x.isFailing id := by
  unfold R.isFailing
  cases del with
  | false =>
    rw [processSingle_update_land, (frameW_landAll _ _).failing, (preUpdate_facts x o rev).2.2.2.2.2.2.2.2.2.2.2.2.1]
  | true =>
    rw [processSingle_delete]; split <;> simp

/-- **`updateBatch` is the loop of `processSingle`**: calling all the Updates (with the
    writes that land during them) and recording the results afterwards gives the
    same state as processing the entries one by one -/
theorem updateBatch_eqP (x : R) (us : List BEntry) :
    x.updateBatch us = us.foldl (fun (x : R) (e : BEntry) => x.processSingle e.1 e.2 false) x := by
  rw [updateBatch_unfold, updCalls_foldl]
  simp only [List.nil_append]
  show (us.map (fun e => (e, x.isFailing e.1.id))).foldl updQ (us.foldl updP x) = _
  induction us generalizing x with
  | nil => rfl
  | cons e us ih =>
    simp only [List.map_cons, List.foldl_cons]
    rw [updQ_comm_foldl, updQ_updP]
    have := ih (x.processSingle e.1 e.2 false)
    simp only [isFailing_processSingle] at this
    exact this

/-! ## what the collecting loop reads -/

/-- the collecting loop reads one change -/
def readC (x : R) (c : Change) : R :=
  if c.deleted then readD x c else if needs c.obj.kind then readU x c else { x with itRev := c.rev }

/-- is the change processed (not merely passed)? -/
def Change.proc (c : Change) : Prop := c.deleted = true ∨ needs c.obj.kind

def dsOf (pre : List Change) : List BEntry := (pre.filter (·.deleted)).map (fun c => (c.obj, c.rev))
def usOf (pre : List Change) : List BEntry := (pre.filter (fun c => !c.deleted && decide (needs c.obj.kind))).map (fun c => (c.obj, c.rev))

theorem dsOf_cons (c : Change) (pre : List Change) :
    dsOf (c :: pre) = if c.deleted then (c.obj, c.rev) :: dsOf pre else dsOf pre := by
  unfold dsOf; simp only [List.filter_cons]; split <;> rfl

theorem usOf_cons (c : Change) (pre : List Change) :
    usOf (c :: pre) = if (!c.deleted && decide (needs c.obj.kind)) then (c.obj, c.rev) :: usOf pre else usOf pre := by
  unfold usOf; simp only [List.filter_cons]; split <;> rfl

/-- `consumeB` reads a prefix `pre` of the change stream, change by change, and
    collects the deletions and the objects to be processed among them -/
theorem consumeB_pre (cs : List Change) (x : R) (last : Nat) (ds us : List BEntry) :
    ∃ pre : List Change, cs = pre ++ (x.consumeB cs last ds us).2.1 ∧
      (x.consumeB cs last ds us).1 = pre.foldl readC x ∧
      (x.consumeB cs last ds us).2.2.2.1 = ds ++ dsOf pre ∧ (x.consumeB cs last ds us).2.2.2.2 = us ++ usOf pre ∧
      ((x.consumeB cs last ds us).1.numReconciled < (x.consumeB cs last ds us).1.cfg.roundSize →
        (x.consumeB cs last ds us).2.1 = []) := by
  induction cs generalizing x last ds us with
  | nil => rw [consumeB_nil]; exact ⟨[], rfl, rfl, by simp [dsOf], by simp [usOf], fun _ => rfl⟩
  | cons c cs ih =>
    cases hc : c.deleted with
    | true =>
      have hr : readC x c = readD x c := by unfold readC; rw [hc]; rfl
      rw [consumeB_del _ _ _ _ _ _ hc]
      split
      · refine ⟨[c], rfl, by simp [hr], by simp [hc, dsOf], by simp [hc, usOf], fun hlt => ?_⟩
        simp only at hlt; omega
      · obtain ⟨pre, h1, h2, h3, h4, h5⟩ := ih (readD x c) c.rev (ds ++ [(c.obj, c.rev)]) us
        refine ⟨c :: pre, ?_, ?_, ?_, ?_, h5⟩
        · rw [List.cons_append, ← h1]
        · rw [List.foldl_cons, hr]; exact h2
        · rw [h3, dsOf_cons, hc]; simp
        · rw [h4, usOf_cons, hc]; simp
    | false =>
      by_cases hn : needs c.obj.kind
      · have hr : readC x c = readU x c := by unfold readC; rw [hc]; simp [hn]
        rw [consumeB_upd _ _ _ _ _ _ hc hn]
        split
        · refine ⟨[c], rfl, by simp [hr], by simp [hc, dsOf], by simp [hc, hn, usOf], fun hlt => ?_⟩
          simp only at hlt; omega
        · obtain ⟨pre, h1, h2, h3, h4, h5⟩ := ih (readU x c) c.rev ds (us ++ [(c.obj, c.rev)])
          refine ⟨c :: pre, ?_, ?_, ?_, ?_, h5⟩
          · rw [List.cons_append, ← h1]
          · rw [List.foldl_cons, hr]; exact h2
          · rw [h3, dsOf_cons, hc]; simp
          · rw [h4, usOf_cons, hc]; simp [hn]
      · have hr : readC x c = { x with itRev := c.rev } := by unfold readC; rw [hc]; simp [hn]
        rw [consumeB_skip _ _ _ _ _ _ hc hn]
        obtain ⟨pre, h1, h2, h3, h4, h5⟩ := ih { x with itRev := c.rev } c.rev ds us
        refine ⟨c :: pre, ?_, ?_, ?_, ?_, h5⟩
        · rw [List.cons_append, ← h1]
        · rw [List.foldl_cons, hr]; exact h2
        · rw [h3, dsOf_cons, hc]; simp
        · rw [h4, usOf_cons, hc]; simp [hn]

/-! ## the invariant while the changes are collected -/

/-- the retry of an object whose change is still to be delivered (relative to the
    iterator position of `r`) is cleared -/
theorem JInv.clear_stale {r r' : R} {rs : List Res} (h : JInv r rs) (id : Nat)
    (hst : Stale r.objs r.dels r.itRev r.itDelRev id)
    (h1 : r'.objs = r.objs) (h2 : r'.dels = r.dels) (h3 : r'.tableRev = r.tableRev)
    (h4 : r'.itRev = r.itRev) (h5 : r'.itDelRev = r.itDelRev) (h6 : r'.refreshedAt = r.refreshedAt)
    (h7 : r'.items = r.items.filter (·.id ≠ id)) (h8 : r'.log = r.log) (h9 : r'.nextSid = r.nextSid) : JInv r' rs := by
  have hmem : ∀ it, it ∈ r.items.filter (·.id ≠ id) ↔ it ∈ r.items ∧ it.id ≠ id := by
    intro it; rw [List.mem_filter]; simp
  refine ⟨h.tinv.congr h1 h2 h3 h4 h5 h6, ?_, ?_, ?_, ?_, ?_, ?_⟩
  · rw [h7]; exact h.items_pw.filter _
  · rw [h1, h7, h8, h4]
    intro o ho
    obtain ⟨a, b, c⟩ := h.objOK o ho
    refine ⟨fun e => ⟨(a e).1, fun it hit => (a e).2 it ((hmem it).1 hit).1⟩, fun e => ?_, c⟩
    rcases b e with ⟨it, hit, b1, b2⟩ | b
    · refine Or.inl ⟨it, (hmem it).2 ⟨hit, fun hid => ?_⟩, b1, b2⟩
      rcases hst with ⟨o', ho', e1, _, e3⟩ | ⟨d, hd, e1, _⟩
      · have : o' = o := h.tinv.obj_eq ho' ho (by omega)
        subst this
        rw [e] at e3; rcases e3 with e3 | e3 <;> cases e3
      · exact h.tinv.disj o ho d hd (by omega)
    · exact Or.inr b
  · rw [h2, h7, h8, h5]
    intro d hd
    rcases h.delOK d hd with a | ⟨it, hit, b1, b2⟩ | ⟨c, c3⟩
    · exact Or.inl a
    · by_cases hid : it.id = id
      · rcases hst with ⟨o', ho', e1, _, _⟩ | ⟨d', hd', e1, e2⟩
        · exact absurd (by omega) (h.tinv.disj o' ho' d hd)
        · have : d' = d := h.tinv.del_eq hd' hd (by omega)
          subst this
          exact Or.inl e2
      · exact Or.inr (Or.inl ⟨it, (hmem it).2 ⟨hit, hid⟩, b1, b2⟩)
    · exact Or.inr (Or.inr ⟨c, fun it hit => c3 it ((hmem it).1 hit).1⟩)
  · rw [h1, h2, h7, h4, h5, h3, h9]
    intro it hit
    exact h.itemOK it ((hmem it).1 hit).1
  · rw [h1, h7, h8, h3, h9]
    intro res hres
    obtain ⟨a1, a2, a3, a4, a5⟩ := h.resOK res hres
    refine ⟨a1, a2, a3, a4, fun cur hcur hcid hlive => ?_⟩
    obtain ⟨b1, b2, b3, b4⟩ := a5 cur hcur hcid hlive
    exact ⟨b1, b2, b3, fun it hit hi => b4 it ((hmem it).1 hit).1 hi⟩
  · rw [h1, h9]; exact h.sidO

/-- what the collecting loop leaves alone -/
structure FrameK (n x : R) : Prop where
  objs : x.objs = n.objs
  dels : x.dels = n.dels
  tableRev : x.tableRev = n.tableRev
  nextSid : x.nextSid = n.nextSid
  log : x.log = n.log
  results : x.results = n.results
  injects : x.injects = n.injects
  failing : x.failing = n.failing
  cfg : x.cfg = n.cfg
  now : x.now = n.now
  refreshedAt : x.refreshedAt = n.refreshedAt
  pending : x.pending = n.pending

theorem FrameK.refl (n : R) : FrameK n n := by constructor <;> rfl

theorem FrameK.trans {a b c : R} (h1 : FrameK a b) (h2 : FrameK b c) : FrameK a c :=
  ⟨h2.objs.trans h1.objs, h2.dels.trans h1.dels, h2.tableRev.trans h1.tableRev, h2.nextSid.trans h1.nextSid,
   h2.log.trans h1.log, h2.results.trans h1.results, h2.injects.trans h1.injects, h2.failing.trans h1.failing,
   h2.cfg.trans h1.cfg, h2.now.trans h1.now, h2.refreshedAt.trans h1.refreshedAt, h2.pending.trans h1.pending⟩

theorem readC_frame (x : R) (c : Change) :
    FrameK x (readC x c) ∧ (readC x c).itRev = (if c.deleted then x.itRev else c.rev) ∧
    (readC x c).itDelRev = (if c.deleted then c.rev else x.itDelRev) ∧
    (readC x c).items = (if c.deleted = true ∨ needs c.obj.kind then x.items.filter (·.id ≠ c.obj.id) else x.items) := by
  unfold readC
  cases hc : c.deleted with
  | true =>
    simp only [if_true, true_or]
    unfold readD
    refine ⟨by constructor <;> simp, by simp, by simp, by simp [retryClear_items]⟩
  | false =>
    simp only [Bool.false_eq_true, if_false, false_or]
    by_cases hn : needs c.obj.kind
    · simp only [hn, if_true]
      unfold readU
      refine ⟨by constructor <;> simp, by simp, by simp, by simp [retryClear_items]⟩
    · rw [if_neg hn, if_neg hn]
      exact ⟨by constructor <;> rfl, rfl, rfl, rfl⟩

/-- the position of an iterator after it has passed the changes `l` -/
def posOf (l : List Change) (v : Nat) : Nat := l.foldl (fun _ c => c.rev) v

@[simp] theorem posOf_nil (v : Nat) : posOf [] v = v := rfl
@[simp] theorem posOf_cons (c : Change) (l : List Change) (v : Nat) : posOf (c :: l) v = posOf l c.rev := rfl

/-- the collecting loop: frame, iterator positions, cleared retries, and the
    bookkeeping invariant with the iterator put back to where it was -/
theorem collect_spec (pre : List Change) {n x : R} {a b : Nat} (hF : FrameK n x)
    (hI : JInv (ghost x a b) [])
    (hst : ∀ c ∈ pre, c.proc → Stale n.objs n.dels a b c.obj.id) :
    FrameK n (pre.foldl readC x) ∧ JInv (ghost (pre.foldl readC x) a b) [] ∧
    (pre.foldl readC x).itRev = posOf (pre.filter (fun c => !c.deleted)) x.itRev ∧
    (pre.foldl readC x).itDelRev = posOf (pre.filter (·.deleted)) x.itDelRev ∧
    (∀ it ∈ (pre.foldl readC x).items, it ∈ x.items) ∧
    (∀ c ∈ pre, c.proc → ∀ it ∈ (pre.foldl readC x).items, it.id ≠ c.obj.id) := by
  induction pre generalizing x with
  | nil => exact ⟨hF, hI, rfl, rfl, fun it h => h, fun c hc => by cases hc⟩
  | cons c pre ih =>
    obtain ⟨f1, f2, f3, f4⟩ := readC_frame x c
    have hI1 : JInv (ghost (readC x c) a b) [] := by
      by_cases hp : c.proc
      · have hs := hst c (List.mem_cons_self ..) hp
        refine hI.clear_stale c.obj.id (by show Stale x.objs x.dels a b c.obj.id; rw [hF.objs, hF.dels]; exact hs)
          f1.objs f1.dels f1.tableRev rfl rfl f1.refreshedAt ?_ f1.log f1.nextSid
        show (readC x c).items = _
        rw [f4]; exact if_pos hp
      · refine hI.congr f1.objs f1.dels f1.tableRev rfl rfl f1.refreshedAt ?_ f1.log f1.nextSid
        show (readC x c).items = x.items
        rw [f4]; exact if_neg hp
    obtain ⟨a1, a2, a3, a4, a5, a6⟩ := ih (x := readC x c) (hF.trans f1) hI1 (fun c' hc' => hst c' (List.mem_cons_of_mem _ hc'))
    have hsub : ∀ it ∈ (readC x c).items, it ∈ x.items := by
      intro it hit
      rw [f4] at hit
      split at hit
      · exact (List.mem_filter.1 hit).1
      · exact hit
    refine ⟨a1, a2, ?_, ?_, fun it hit => hsub it (a5 it hit), fun c' hc' hp it hit => ?_⟩
    · rw [List.foldl_cons, a3, f2, List.filter_cons]
      cases c.deleted <;> simp
    · rw [List.foldl_cons, a4, f3, List.filter_cons]
      cases c.deleted <;> simp
    · rcases List.mem_cons.1 hc' with rfl | hc'
      · have := a5 it hit
        rw [f4] at this
        have e : (if c'.deleted = true ∨ needs c'.obj.kind then x.items.filter (·.id ≠ c'.obj.id) else x.items) =
            x.items.filter (·.id ≠ c'.obj.id) := if_pos hp
        rw [e] at this
        simpa using (List.mem_filter.1 this).2
      · exact a6 c' hc' hp it hit

/-! ## the stream re-ordered: deletions first -/

theorem mem_filter_split (pre : List Change) (c : Change) :
    c ∈ pre.filter (·.deleted) ++ pre.filter (fun c => !c.deleted) ↔ c ∈ pre := by
  simp only [List.mem_append, List.mem_filter]
  constructor
  · rintro (⟨h, _⟩ | ⟨h, _⟩) <;> exact h
  · intro h
    by_cases hd : c.deleted = true
    · exact Or.inl ⟨h, hd⟩
    · exact Or.inr ⟨h, by simpa using hd⟩

/-- the batch loop processes the deletions it has read before the objects: the
    stream `pre ++ rest` may be re-ordered accordingly (the order matters only
    among deletions and among objects) -/
theorem JChOK.reorder {S : Nat} {r : R} {rs : List Res} {pre rest : List Change} (h : JChOK S r rs (pre ++ rest)) :
    JChOK S r rs (pre.filter (·.deleted) ++ (pre.filter (fun c => !c.deleted) ++ rest)) := by
  have hmem : ∀ c, c ∈ pre.filter (·.deleted) ++ (pre.filter (fun c => !c.deleted) ++ rest) ↔ c ∈ pre ++ rest := by
    intro c
    rw [← List.append_assoc, List.mem_append, mem_filter_split, ← List.mem_append]
  have hs0 := List.pairwise_append.1 h.sorted
  have hi0 := List.pairwise_append.1 h.ids
  refine ⟨h.bnd, fun c hc => h.upd c ((hmem c).1 hc), fun c hc => h.del c ((hmem c).1 hc), ?_, ?_, ?_, ?_,
    fun res hres c hc => h.rsid res hres c ((hmem c).1 hc)⟩
  · rw [List.pairwise_append]
    refine ⟨hs0.1.sublist List.filter_sublist, ?_, ?_⟩
    · rw [List.pairwise_append]
      exact ⟨hs0.1.sublist List.filter_sublist, hs0.2.1, fun a ha b hb => hs0.2.2 a (List.mem_filter.1 ha).1 b hb⟩
    · intro a ha b hb
      rcases List.mem_append.1 hb with hb | hb
      · intro e
        have h1 := (List.mem_filter.1 ha).2
        have h2 := (List.mem_filter.1 hb).2
        rw [e] at h1
        simp only [Bool.not_eq_eq_eq_not, Bool.not_true] at h2
        rw [h2] at h1; cases h1
      · exact hs0.2.2 a (List.mem_filter.1 ha).1 b hb
  · rw [List.pairwise_append]
    refine ⟨hi0.1.sublist List.filter_sublist, ?_, ?_⟩
    · rw [List.pairwise_append]
      exact ⟨hi0.1.sublist List.filter_sublist, hi0.2.1, fun a ha b hb => hi0.2.2 a (List.mem_filter.1 ha).1 b hb⟩
    · intro a ha b hb
      rcases List.mem_append.1 hb with hb | hb
      · have h1 := (List.mem_filter.1 ha).2
        have h2 := (List.mem_filter.1 hb).2
        rcases pairwise_mem_eq hi0.1 (List.mem_filter.1 ha).1 (List.mem_filter.1 hb).1 with e | e | e
        · rw [e] at h1
          simp only [Bool.not_eq_eq_eq_not, Bool.not_true] at h2
          rw [h2] at h1; cases h1
        · exact e
        · exact fun e' => e e'.symm
      · exact hi0.2.2 a (List.mem_filter.1 ha).1 b hb
  · intro o ho
    rcases h.covO o ho with a | a | ⟨c, hc, e⟩
    · exact Or.inl a
    · exact Or.inr (Or.inl a)
    · exact Or.inr (Or.inr ⟨c, (hmem c).2 hc, e⟩)
  · intro d hd
    rcases h.covD d hd with a | a | ⟨c, hc, e⟩
    · exact Or.inl a
    · exact Or.inr (Or.inl a)
    · exact Or.inr (Or.inr ⟨c, (hmem c).2 hc, e⟩)

theorem JChOK.congr {S : Nat} {r r' : R} {rs : List Res} {cs : List Change} (h : JChOK S r rs cs)
    (h1 : r'.objs = r.objs) (h2 : r'.dels = r.dels) (h3 : r'.tableRev = r.tableRev) (h4 : r'.itRev = r.itRev)
    (h5 : r'.itDelRev = r.itDelRev) (h9 : r'.nextSid = r.nextSid) : JChOK S r' rs cs := by
  obtain ⟨a, b, c, d, e, f, g, i⟩ := h
  refine ⟨?_, ?_, ?_, d, e, ?_, ?_, i⟩ <;> simp only [h1, h2, h3, h4, h5, h9] <;> assumption

/-! ## the delete batch -/

theorem stepD_eq_processSingle (x : R) (e : BEntry) (h : ∀ it ∈ x.items, it.id ≠ e.1.id) :
    stepD x.failing x e = x.processSingle e.1 e.2 true := by
  rw [processSingle_delete]
  unfold stepD R.isFailing
  split
  · rfl
  · rw [retryClear_of_no_item _ _ (by simpa using h)]

theorem processSingle_failing (x : R) (o : RObj) (rev : Nat) (del : Bool) : (x.processSingle o rev del).failing = x.failing := by
  cases del with
  | false =>
    rw [processSingle_update_land, (frameW_landAll _ _).failing, (preUpdate_facts x o rev).2.2.2.2.2.2.2.2.2.2.2.2.1]
  | true =>
    rw [processSingle_delete]; split <;> simp

theorem processSingle_delete_items (x : R) (o : RObj) (rev : Nat) :
    ∀ it ∈ (x.processSingle o rev true).items, it ∈ x.items ∨ it.id = o.id := by
  rw [processSingle_delete]
  split
  · obtain ⟨itn, hn, n1, _⟩ := retryAdd_items' { x with log := x.log ++ [⟨"D", o.id, o.data, false⟩] } o rev rev true
    intro it hit
    rw [hn] at hit
    rcases List.mem_append.1 hit with h | h
    · exact Or.inl (List.mem_filter.1 h).1
    · simp only [List.mem_singleton] at h
      rw [h]; exact Or.inr n1
  · intro it hit
    rw [retryClear_items] at hit
    exact Or.inl (List.mem_filter.1 hit).1

/-- the delete batch, replayed against the ghost position `v` of the deletion
    iterator: `pd` are the deletions read, in revision order, their retries cleared -/
theorem JInv.batch_deletesJ {S : Nat} (pd tl : List Change) {x : R} {a v : Nat}
    (hI : JInv (ghost x a v) x.results) (hC : JChOK S (ghost x a v) x.results (pd ++ tl))
    (hdel : ∀ c ∈ pd, c.deleted = true) (hclr : ∀ c ∈ pd, ∀ it ∈ x.items, it.id ≠ c.obj.id) :
    JInv (ghost ((dsOf pd).foldl (stepD x.failing) x) a (posOf pd v)) ((dsOf pd).foldl (stepD x.failing) x).results ∧
    JChOK S (ghost ((dsOf pd).foldl (stepD x.failing) x) a (posOf pd v)) ((dsOf pd).foldl (stepD x.failing) x).results tl ∧
    FrameRJ x ((dsOf pd).foldl (stepD x.failing) x) ∧
    ((dsOf pd).foldl (stepD x.failing) x).numReconciled = x.numReconciled ∧
    ((dsOf pd).foldl (stepD x.failing) x).injects = x.injects ∧
    (∀ it ∈ ((dsOf pd).foldl (stepD x.failing) x).items, it ∈ x.items ∨ ∃ c ∈ pd, it.id = c.obj.id) := by
  induction pd generalizing x v with
  | nil => exact ⟨hI, hC, FrameRJ.refl x, rfl, rfl, fun it hit => Or.inl hit⟩
  | cons c pd ih =>
    have hc := hdel c (List.mem_cons_self ..)
    have hclrc := hclr c (List.mem_cons_self ..)
    rw [dsOf_cons, if_pos hc, List.foldl_cons, stepD_eq_processSingle x _ hclrc]
    -- one step, on the ghost state
    have hstep := hI.consume_del (S := S) (c := c) (cs := pd ++ tl) hC hc
    have hcl : R.retryClear { ghost x a v with itDelRev := c.rev } c.obj.id = ghost x a c.rev :=
      retryClear_of_no_item _ _ hclrc
    rw [hcl, ghost_processSingle] at hstep
    obtain ⟨hI1, hC1, _, _⟩ := hstep
    obtain ⟨hF1, hn1, hr1⟩ := processSingle_delete_frame x c.obj c.rev
    have hfl1 : (x.processSingle c.obj c.rev true).failing = x.failing := processSingle_failing ..
    have hit1 := processSingle_delete_items x c.obj c.rev
    have hinj1 : (x.processSingle c.obj c.rev true).injects = x.injects := by
      rw [processSingle_delete]; split <;> simp
    have hids := (List.pairwise_cons.1 hC.ids).1
    generalize x.processSingle c.obj c.rev true = x1 at hI1 hC1 hF1 hn1 hr1 hfl1 hit1 hinj1 ⊢
    rw [← hfl1]
    obtain ⟨a1, a2, a3, a4, a5, a6⟩ := ih (x := x1) (v := c.rev) hI1 hC1 (fun c' hc' => hdel c' (List.mem_cons_of_mem _ hc'))
      (fun c' hc' it hit => by
        rcases hit1 it hit with h | h
        · exact hclr c' (List.mem_cons_of_mem _ hc') it h
        · rw [h]; exact hids c' (List.mem_append_left _ hc'))
    refine ⟨a1, a2, hF1.trans a3, a4.trans hn1, a5.trans hinj1, fun it hit => ?_⟩
    rcases a6 it hit with h | ⟨c', hc', h⟩
    · rcases hit1 it h with h' | h'
      · exact Or.inl h'
      · exact Or.inr ⟨c, List.mem_cons_self .., h'⟩
    · exact Or.inr ⟨c', List.mem_cons_of_mem _ hc', h⟩

/-! ## the update batch -/

/-- no foreign status write that lands during the update batch hits an Error object -/
def R.batchSafe (r : R) : List BEntry → Prop
  | [] => True
  | e :: us => r.updSafe e.1 ∧ (r.processSingle e.1 e.2 false).batchSafe us

theorem processSingle_update_items (x : R) (o : RObj) (rev : Nat) :
    ∀ it ∈ (x.processSingle o rev false).items, it ∈ x.items := by
  rw [processSingle_update_land]
  intro it hit
  rw [(frameW_landAll _ _).items, (preUpdate_facts x o rev).2.2.2.2.2.2.2.2.2.2.2.2.2.2.2] at hit
  split at hit
  · exact hit
  · exact (List.mem_filter.1 hit).1

theorem processSingle_update_frame (x : R) (o : RObj) (rev : Nat) :
    FrameRJ x (x.processSingle o rev false) ∧ (x.processSingle o rev false).numReconciled = x.numReconciled := by
  rw [processSingle_update_land]
  obtain ⟨p1, p2, p3, p4, p5, p6, _, p8, _, p10, p11, p12, p13, p14, _, _⟩ := preUpdate_facts x o rev
  have hW := frameW_landAll (x.injects.filter (fun (a : Nat × Inject) => a.1 = o.id)) (x.preUpdate o rev)
  have hG := grow_landAll (x.injects.filter (fun (a : Nat × Inject) => a.1 = o.id)) (x.preUpdate o rev)
  exact ⟨⟨hW.itRev.trans p4, hW.itDelRev.trans p5, hW.refreshedAt.trans p6, hW.pending.trans p10, hW.cfg.trans p11,
    hW.now.trans p12, hW.failing.trans p13, (Grow.of_eq p1 p2 p3 p8).trans hG⟩, hW.numReconciled.trans p14⟩

/-- the update batch, replayed against the ghost position `a` of the iterator: `pu` are
    the live-object changes read (those that need no processing are merely passed), in
    revision order, the retries of those to be processed cleared; writes land during the Updates -/
theorem JInv.batch_updatesJ {S : Nat} (pu tl : List Change) {x : R} {a w : Nat}
    (hI : JInv (ghost x a w) x.results) (hC : JChOK S (ghost x a w) x.results (pu ++ tl))
    (hnd : ∀ c ∈ pu, c.deleted = false)
    (hclr : ∀ c ∈ pu, needs c.obj.kind → ∀ it ∈ x.items, it.id ≠ c.obj.id)
    (hs : x.batchSafe (usOf pu)) :
    JInv (ghost ((usOf pu).foldl (fun (x : R) (e : BEntry) => x.processSingle e.1 e.2 false) x) (posOf pu a) w)
      ((usOf pu).foldl (fun (x : R) (e : BEntry) => x.processSingle e.1 e.2 false) x).results ∧
    JChOK S (ghost ((usOf pu).foldl (fun (x : R) (e : BEntry) => x.processSingle e.1 e.2 false) x) (posOf pu a) w)
      ((usOf pu).foldl (fun (x : R) (e : BEntry) => x.processSingle e.1 e.2 false) x).results tl ∧
    FrameRJ x ((usOf pu).foldl (fun (x : R) (e : BEntry) => x.processSingle e.1 e.2 false) x) ∧
    ((usOf pu).foldl (fun (x : R) (e : BEntry) => x.processSingle e.1 e.2 false) x).numReconciled = x.numReconciled ∧
    InjSub x ((usOf pu).foldl (fun (x : R) (e : BEntry) => x.processSingle e.1 e.2 false) x) := by
  induction pu generalizing x a with
  | nil => exact ⟨hI, hC, FrameRJ.refl x, rfl, InjSub.refl x⟩
  | cons c pu ih =>
    have hc := hnd c (List.mem_cons_self ..)
    rw [usOf_cons]
    by_cases hn : needs c.obj.kind
    · have hcond : (!c.deleted && decide (needs c.obj.kind)) = true := by simp [hc, hn]
      rw [if_pos hcond, List.foldl_cons]
      rw [usOf_cons, if_pos hcond] at hs
      obtain ⟨hs1, hs2⟩ := hs
      have hclrc := hclr c (List.mem_cons_self ..) hn
      have hcl : R.retryClear { ghost x a w with itRev := c.rev } c.obj.id = ghost x c.rev w :=
        retryClear_of_no_item _ _ hclrc
      have hsafe : (R.retryClear { ghost x a w with itRev := c.rev } c.obj.id).updSafe c.obj := by
        rw [hcl]
        exact (injSafe_of_tbl x (ghost x c.rev w) rfl rfl rfl rfl _).2 hs1
      have hstep := hI.consume_upd (S := S) (c := c) (cs := pu ++ tl) hC hc hn hsafe
      rw [hcl, ghost_processSingle] at hstep
      obtain ⟨hI1, hC1, _, _⟩ := hstep
      obtain ⟨hF1, hn1⟩ := processSingle_update_frame x c.obj c.rev
      have hit1 := processSingle_update_items x c.obj c.rev
      have hsub1 := processSingle_injSub x c.obj c.rev false
      generalize x.processSingle c.obj c.rev false = x1 at hI1 hC1 hF1 hn1 hit1 hsub1 hs2 ⊢
      obtain ⟨a1, a2, a3, a4, a5⟩ := ih (x := x1) (a := c.rev) hI1 hC1 (fun c' hc' => hnd c' (List.mem_cons_of_mem _ hc'))
        (fun c' hc' hn' it hit => hclr c' (List.mem_cons_of_mem _ hc') hn' it (hit1 it hit)) hs2
      exact ⟨a1, a2, hF1.trans a3, a4.trans hn1, hsub1.trans a5⟩
    · have hcond : ¬ ((!c.deleted && decide (needs c.obj.kind)) = true) := by simp [hn]
      rw [if_neg hcond]
      rw [usOf_cons, if_neg hcond] at hs
      obtain ⟨hrev, hgt, hcS, _⟩ := hC.upd c (List.mem_cons_self ..) hc
      have hS := hC.bnd
      have hI1 : JInv (ghost x c.rev w) x.results := by
        refine hI.step_skip c.rev (by show c.rev ≤ x.tableRev; have := hS.2.2; exact Nat.le_trans hcS this) ?_ rfl rfl rfl rfl rfl rfl rfl rfl rfl
        intro y hy hyn hygt
        rcases hC.lt_upd hc y hy hygt with e | e
        · rw [e] at hyn; exact absurd hyn hn
        · exact e
      have hC1 : JChOK S (ghost x c.rev w) x.results (pu ++ tl) :=
        hC.tail_upd hc rfl rfl rfl rfl rfl rfl (fun res hres => Or.inl hres)
      exact ih (x := x) (a := c.rev) hI1 hC1 (fun c' hc' => hnd c' (List.mem_cons_of_mem _ hc'))
        (fun c' hc' hn' it hit => hclr c' (List.mem_cons_of_mem _ hc') hn' it hit) hs

/-! ## the batch phase of a round -/

theorem dsOf_filter (pre : List Change) : dsOf (pre.filter (·.deleted)) = dsOf pre := by
  unfold dsOf; rw [List.filter_filter]; simp

theorem usOf_filter (pre : List Change) : usOf (pre.filter (fun c => !c.deleted)) = usOf pre := by
  unfold usOf
  rw [List.filter_filter]
  congr 1
  apply List.filter_congr
  intro c _
  cases c.deleted <;> simp

/-- **the batch phase preserves the bookkeeping invariant, with writes landing during
    the update batch**: from a state `n` satisfying it (no results waiting) with the
    changes `cs` of `Next`, collecting the changes, running the delete batch and the
    update batch leads to a state that satisfies it with the recorded results, the
    unread changes `rest` still to come -/
theorem JInv.batch_phaseJ {n : R} {cs : List Change} (h : JInv n []) (hres : n.results = []) (hch0 : ChOK n [] cs)
    (last : Nat) (pend : Option (List Change))
    (hs : (R.deleteBatch { (n.consumeB cs last [] []).1 with pending := pend } (n.consumeB cs last [] []).2.2.2.1).batchSafe
      (n.consumeB cs last [] []).2.2.2.2) :
    let co := n.consumeB cs last [] []
    let x3 := batchOps co pend
    JInv x3 x3.results ∧ JChOK n.tableRev x3 x3.results co.2.1 ∧
    x3.refreshedAt = n.refreshedAt ∧ x3.pending = pend ∧ x3.cfg = n.cfg ∧ x3.now = n.now ∧ x3.failing = n.failing ∧
    Grow n x3 ∧ InjSub n x3 ∧ (x3.numReconciled < x3.cfg.roundSize → co.2.1 = []) := by
  intro co x3
  obtain ⟨pre, hsplit, hcoll, hds, hus, hfull⟩ := consumeB_pre cs n last [] []
  have hx3 : x3 = batchOps co pend := rfl
  have hco : co = n.consumeB cs last [] [] := rfl
  rw [← hco] at hsplit hcoll hds hus hfull hs
  obtain ⟨b, rest, lst, ds, us⟩ := co
  simp only at hsplit hcoll hds hus hfull hs hx3 ⊢
  simp only [List.nil_append] at hds hus
  -- the collecting loop
  have hst : ∀ c ∈ pre, c.proc → Stale n.objs n.dels n.itRev n.itDelRev c.obj.id := by
    intro c hc hp
    have hcm : c ∈ cs := by rw [hsplit]; exact List.mem_append_left _ hc
    cases hd : c.deleted with
    | true =>
      obtain ⟨a1, a2⟩ := hch0.del c hcm hd
      exact Or.inr ⟨_, a1, rfl, a2⟩
    | false =>
      obtain ⟨a1, a2, a3⟩ := hch0.upd c hcm hd
      rcases hp with hp | hp
      · rw [hd] at hp; cases hp
      · exact Or.inl ⟨_, a1, rfl, by omega, hp⟩
  obtain ⟨hK, hIb, hitU, hitD, _, hclr⟩ := collect_spec pre (n := n) (x := n) (a := n.itRev) (b := n.itDelRev) (FrameK.refl n)
    (h.congr rfl rfl rfl rfl rfl rfl rfl rfl rfl) hst
  rw [← hcoll] at hK hIb hitU hitD hclr
  -- the stream, deletions first, against the ghost position
  have hj0 : JChOK n.tableRev n [] cs := JChOK.ofChOK hch0 h.tinv h.sidO
  rw [hsplit] at hj0
  have hj1 := hj0.reorder
  generalize hpd : pre.filter (·.deleted) = pd at hj1 hitD
  generalize hpu : pre.filter (fun c => !c.deleted) = pu at hj1 hitU
  have hpdm : ∀ c ∈ pd, c ∈ pre ∧ c.deleted = true := by
    intro c hc; rw [← hpd] at hc; exact List.mem_filter.1 hc
  have hpum : ∀ c ∈ pu, c ∈ pre ∧ c.deleted = false := by
    intro c hc; rw [← hpu] at hc
    have := List.mem_filter.1 hc
    exact ⟨this.1, by simpa using this.2⟩
  have hdsE : ds = dsOf pd := by rw [hds, ← hpd, dsOf_filter]
  have husE : us = usOf pu := by rw [hus, ← hpu, usOf_filter]
  -- the state the operations start from
  unfold batchOps at hx3
  simp only at hx3
  generalize hxbe : ({ b with pending := pend } : R) = xb at hx3 hs
  have e1 : xb.objs = n.objs := by rw [← hxbe]; exact hK.objs
  have e2 : xb.dels = n.dels := by rw [← hxbe]; exact hK.dels
  have e3 : xb.tableRev = n.tableRev := by rw [← hxbe]; exact hK.tableRev
  have e4 : xb.nextSid = n.nextSid := by rw [← hxbe]; exact hK.nextSid
  have e5 : xb.results = [] := by rw [← hxbe]; exact hK.results.trans hres
  have e6 : xb.items = b.items := by rw [← hxbe]
  have hIg : JInv (ghost xb n.itRev n.itDelRev) xb.results := by
    rw [e5, ← hxbe]; exact hIb.congr rfl rfl rfl rfl rfl rfl rfl rfl rfl
  have hCg : JChOK n.tableRev (ghost xb n.itRev n.itDelRev) xb.results (pd ++ (pu ++ rest)) := by
    rw [e5]; exact hj1.congr e1 e2 e3 rfl rfl e4
  have hidsAll := hCg.ids
  -- the delete batch
  rw [deleteBatch_eq, hdsE] at hx3 hs
  obtain ⟨hI1, hC1, hF1, hn1, hinj1, hit1⟩ := hIg.batch_deletesJ pd (pu ++ rest) hCg (fun c hc => (hpdm c hc).2)
    (fun c hc it hit => hclr c (hpdm c hc).1 (Or.inl (hpdm c hc).2) it (by rw [← e6]; exact hit))
  generalize (dsOf pd).foldl (stepD xb.failing) xb = xd at hx3 hs hI1 hC1 hF1 hn1 hinj1 hit1
  -- the update batch
  rw [updateBatch_eqP, husE] at hx3
  rw [husE] at hs
  obtain ⟨hI2, hC2, hF2, hn2, hinj2⟩ := hI1.batch_updatesJ pu rest hC1 (fun c hc => (hpum c hc).2)
    (fun c hc hn it hit => by
      rcases hit1 it hit with h' | ⟨c', hc', h'⟩
      · exact hclr c (hpum c hc).1 (Or.inr hn) it (by rw [← e6]; exact h')
      · rw [h']
        exact (List.pairwise_append.1 hidsAll).2.2 c' hc' c (List.mem_append_left _ hc)) hs
  rw [← hx3] at hI2 hC2 hF2 hn2 hinj2
  have hF := hF1.trans hF2
  -- the ghost position is the iterator's
  have hpU : x3.itRev = posOf pu n.itRev := by rw [hF.itRev, ← hxbe]; exact hitU
  have hpD : x3.itDelRev = posOf pd n.itDelRev := by rw [hF.itDelRev, ← hxbe]; exact hitD
  refine ⟨hI2.congr rfl rfl rfl hpU hpD rfl rfl rfl rfl, hC2.congr rfl rfl rfl hpU hpD rfl, ?_, ?_, ?_, ?_, ?_, ?_, ?_, ?_⟩
  · rw [hF.refreshedAt, ← hxbe]; exact hK.refreshedAt
  · rw [hF.pending, ← hxbe]
  · rw [hF.cfg, ← hxbe]; exact hK.cfg
  · rw [hF.now, ← hxbe]; exact hK.now
  · rw [hF.failing, ← hxbe]; exact hK.failing
  · exact (Grow.of_eq e1 e2 e3 e4).trans hF.grow
  · intro a ha
    have := hinj2 a ha
    rw [hinj1, ← hxbe] at this
    rw [← hK.injects]; exact this
  · intro hlt
    apply hfull
    have e7 : x3.numReconciled = b.numReconciled := by rw [hn2, hn1, ← hxbe]
    have e8 : x3.cfg = b.cfg := by rw [hF.cfg, ← hxbe]
    rw [← e7, ← e8]; exact hlt

/-! ## the retry timer through the batch phase -/

theorem QRJ.read_del {P : Nat → Prop} {r : R} (h : QRJ P r) (c : Change) : QRJ P (readD r c) ∧ NCF r (readD r c) := by
  unfold readD
  have h1 : QRJ P { r with itDelRev := c.rev } := h.congr rfl rfl rfl rfl rfl rfl
  refine ⟨(h1.retryClear c.obj.id).congr rfl rfl rfl rfl rfl rfl, ?_⟩
  exact ⟨by simp, by simp, by simp⟩

theorem QRJ.read_upd {P : Nat → Prop} {r : R} (h : QRJ P r) (c : Change) : QRJ P (readU r c) ∧ NCF r (readU r c) := by
  unfold readU
  have h1 : QRJ P { r with itRev := c.rev } := h.congr rfl rfl rfl rfl rfl rfl
  refine ⟨(h1.retryClear c.obj.id).congr rfl rfl rfl rfl rfl rfl, ?_⟩
  exact ⟨by simp, by simp, by simp⟩

theorem QRJ.consumeB {P : Nat → Prop} (cs : List Change) {r : R} (last : Nat) (ds us : List BEntry) (h : QRJ P r) :
    QRJ P (r.consumeB cs last ds us).1 ∧ NCF r (r.consumeB cs last ds us).1 := by
  induction cs generalizing r last ds us with
  | nil => rw [consumeB_nil]; exact ⟨h, NCF.refl r⟩
  | cons c cs ih =>
    cases hc : c.deleted with
    | true =>
      rw [consumeB_del _ _ _ _ _ _ hc]
      obtain ⟨h1, n1⟩ := h.read_del c
      split
      · exact ⟨h1, n1⟩
      · exact ⟨(ih _ _ _ h1).1, n1.trans (ih _ _ _ h1).2⟩
    | false =>
      by_cases hn : needs c.obj.kind
      · rw [consumeB_upd _ _ _ _ _ _ hc hn]
        obtain ⟨h1, n1⟩ := h.read_upd c
        split
        · exact ⟨h1, n1⟩
        · exact ⟨(ih _ _ _ h1).1, n1.trans (ih _ _ _ h1).2⟩
      · rw [consumeB_skip _ _ _ _ _ _ hc hn]
        have h1 : QRJ P { r with itRev := c.rev } := h.congr rfl rfl rfl rfl rfl rfl
        have n1 : NCF r { r with itRev := c.rev } := ⟨rfl, rfl, rfl⟩
        exact ⟨(ih _ _ _ h1).1, n1.trans (ih _ _ _ h1).2⟩

theorem QRJ.foldl_stepD {P : Nat → Prop} (dl : List BEntry) {x : R} (h : QRJ P x)
    (hids : dl.Pairwise (fun e e' => e.1.id ≠ e'.1.id)) (hclr : ∀ e ∈ dl, ∀ it ∈ x.items, it.id ≠ e.1.id) :
    QRJ P (dl.foldl (stepD x.failing) x) ∧ NCF x (dl.foldl (stepD x.failing) x) := by
  induction dl generalizing x with
  | nil => exact ⟨h, NCF.refl x⟩
  | cons e dl ih =>
    rw [List.pairwise_cons] at hids
    have hclre := hclr e (List.mem_cons_self ..)
    rw [List.foldl_cons, stepD_eq_processSingle x e hclre]
    obtain ⟨h1, n1⟩ := h.processSingle e.1 e.2 true (fun _ it hit hid => absurd hid (hclre it hit))
    have hit1 := processSingle_delete_items x e.1 e.2
    have hfl : (x.processSingle e.1 e.2 true).failing = x.failing := n1.2.2
    rw [← hfl]
    obtain ⟨a, b⟩ := ih h1 hids.2 (fun e' he' it hit => by
      rcases hit1 it hit with h' | h'
      · exact hclr e' (List.mem_cons_of_mem _ he') it h'
      · rw [h']; exact hids.1 e' he')
    exact ⟨a, n1.trans b⟩

theorem QRJ.foldl_processSingle {P : Nat → Prop} (ul : List BEntry) {x : R} (h : QRJ P x) :
    QRJ P (ul.foldl (fun (x : R) (e : BEntry) => x.processSingle e.1 e.2 false) x) ∧
    NCF x (ul.foldl (fun (x : R) (e : BEntry) => x.processSingle e.1 e.2 false) x) := by
  induction ul generalizing x with
  | nil => exact ⟨h, NCF.refl x⟩
  | cons e ul ih =>
    obtain ⟨h1, n1⟩ := h.processSingle e.1 e.2 false (fun e' => by cases e')
    obtain ⟨a, b⟩ := ih h1
    exact ⟨a, n1.trans b⟩

/-- the deletions collected have distinct ids and their retries are cleared -/
theorem batch_ds_facts {n : R} {cs : List Change} (h : JInv n []) (hch0 : ChOK n [] cs) (last : Nat) :
    (n.consumeB cs last [] []).2.2.2.1.Pairwise (fun e e' => e.1.id ≠ e'.1.id) ∧
    ∀ e ∈ (n.consumeB cs last [] []).2.2.2.1, ∀ it ∈ (n.consumeB cs last [] []).1.items, it.id ≠ e.1.id := by
  obtain ⟨pre, hsplit, hcoll, hds, _, _⟩ := consumeB_pre cs n last [] []
  simp only [List.nil_append] at hds
  have hst : ∀ c ∈ pre, c.proc → Stale n.objs n.dels n.itRev n.itDelRev c.obj.id := by
    intro c hc hp
    have hcm : c ∈ cs := by rw [hsplit]; exact List.mem_append_left _ hc
    cases hd : c.deleted with
    | true =>
      obtain ⟨a1, a2⟩ := hch0.del c hcm hd
      exact Or.inr ⟨_, a1, rfl, a2⟩
    | false =>
      obtain ⟨a1, a2, a3⟩ := hch0.upd c hcm hd
      rcases hp with hp | hp
      · rw [hd] at hp; cases hp
      · exact Or.inl ⟨_, a1, rfl, by omega, hp⟩
  obtain ⟨_, _, _, _, _, hclr⟩ := collect_spec pre (n := n) (x := n) (a := n.itRev) (b := n.itDelRev) (FrameK.refl n)
    (h.congr rfl rfl rfl rfl rfl rfl rfl rfl rfl) hst
  rw [← hcoll] at hclr
  have hj0 : JChOK n.tableRev n [] cs := JChOK.ofChOK hch0 h.tinv h.sidO
  rw [hsplit] at hj0
  rw [hds]
  constructor
  · unfold dsOf
    rw [List.pairwise_map]
    exact ((List.pairwise_append.1 hj0.ids).1.sublist List.filter_sublist)
  · intro e he it hit
    unfold dsOf at he
    obtain ⟨c, hc, rfl⟩ := List.mem_map.1 he
    obtain ⟨hc1, hc2⟩ := List.mem_filter.1 hc
    exact hclr c hc1 (Or.inl hc2) it hit

/-- the timer invariant through the batch phase of a round -/
theorem QRJ.batch_phase {P : Nat → Prop} {n : R} {cs : List Change} (hq : QRJ P n) (h : JInv n []) (hch0 : ChOK n [] cs)
    (last : Nat) (pend : Option (List Change)) :
    QRJ P (batchOps (n.consumeB cs last [] []) pend) ∧ NCF n (batchOps (n.consumeB cs last [] []) pend) := by
  obtain ⟨hids, hclr⟩ := batch_ds_facts h hch0 last
  obtain ⟨hq1, n1⟩ := hq.consumeB cs last [] []
  generalize n.consumeB cs last [] [] = co at hq1 n1 hids hclr ⊢
  obtain ⟨b, rest, lst, ds, us⟩ := co
  simp only at hq1 n1 hids hclr
  unfold batchOps
  simp only
  have hq2 : QRJ P { b with pending := pend } := hq1.congr rfl rfl rfl rfl rfl rfl
  have n2 : NCF b { b with pending := pend } := ⟨rfl, rfl, rfl⟩
  rw [deleteBatch_eq]
  obtain ⟨hq3, n3⟩ := hq2.foldl_stepD ds hids hclr
  rw [updateBatch_eqP]
  obtain ⟨hq4, n4⟩ := hq3.foldl_processSingle us
  exact ⟨hq4, ((n1.trans n2).trans n3).trans n4⟩

/-! ## one batch round -/

/-- **the hypothesis on foreign status writes (known finding K4), for one batch round:**
    whenever a `touch` queued in `r.injects` lands during this round (from inside an
    Update of the update batch or of the retry loop), the object it lands on is not in
    Error state at that moment -/
def R.roundSafeB (r : R) : Prop :=
  (R.deleteBatch { (r.nextChanges.1.consumeB r.nextChanges.2 0 [] []).1 with
      pending := pendAfter r.nextChanges.2 (r.nextChanges.1.consumeB r.nextChanges.2 0 [] []) }
    (r.nextChanges.1.consumeB r.nextChanges.2 0 [] []).2.2.2.1).batchSafe
      (r.nextChanges.1.consumeB r.nextChanges.2 0 [] []).2.2.2.2 ∧
  R.tailSafe (batchOps (r.nextChanges.1.consumeB r.nextChanges.2 0 [] [])
    (pendAfter r.nextChanges.2 (r.nextChanges.1.consumeB r.nextChanges.2 0 [] [])))

/-- one batch reconciliation round preserves the invariant, whatever writes land during its Updates -/
theorem JRInv.roundB {r : R} (h : JRInv r) (hs : r.roundSafeB) : JRInv r.roundB := by
  rw [roundB_eq']
  unfold R.roundSafeB at hs
  have hnc : JInv r.nextChanges.1 [] ∧ r.nextChanges.1.results = [] := by
    rcases nextChanges_fst r with e | e <;> rw [e]
    · exact ⟨h.inv, h.res⟩
    · exact ⟨h.inv.set_refreshedAt _ (Nat.le_refl _), h.res⟩
  have hch0 := chOK_nextChanges h.inv.tinv h.sync
  have href := nextChanges_refreshed r
  have hnil : r.nextChanges.2 = [] → (r.nextChanges.1.consumeB r.nextChanges.2 0 [] []).2.1 = [] := by
    intro e; rw [e, consumeB_nil]
  generalize r.nextChanges = nc at hnc hch0 hs href hnil ⊢
  obtain ⟨hI1, hres1⟩ := hnc
  obtain ⟨hs1, hs2⟩ := hs
  obtain ⟨hI3, hC3, e1, e2, _, _, _, hG, _, _⟩ := hI1.batch_phaseJ hres1 hch0 0 (pendAfter nc.2 (nc.1.consumeB nc.2 0 [] [])) hs1
  have hr0 : (batchOps (nc.1.consumeB nc.2 0 [] []) (pendAfter nc.2 (nc.1.consumeB nc.2 0 [] []))).pending = none →
      (nc.1.consumeB nc.2 0 [] []).2.1 = [] := fun hpn => pendAfter_none hnil (e2.symm.trans hpn)
  generalize batchOps (nc.1.consumeB nc.2 0 [] []) (pendAfter nc.2 (nc.1.consumeB nc.2 0 [] [])) = x3 at hI3 hC3 e1 e2 hG hs2 hr0 ⊢
  obtain ⟨hI, hres, hnum, hT⟩ := roundTail_jinv (nc.1.consumeB nc.2 0 [] []).2.2.1 hI3 hs2
  refine ⟨hI, hres, hnum, ?_⟩
  intro hpn
  rw [hT.pending] at hpn
  have hr := hr0 hpn
  rw [hr] at hC3
  rw [hT.itRev, hT.itDelRev, hT.refreshedAt, e1, href]
  have e3 : nc.1.tableRev ≤ x3.tableRev := hC3.bnd.2.2
  refine ⟨fun o ho => ?_, fun d hd => ?_⟩
  · rcases hT.grow.objs o ho with a | a
    · rcases hC3.covO o a with b | b | ⟨c, hc, _⟩
      · exact Or.inl b
      · exact Or.inr b
      · cases hc
    · right; omega
  · rcases hT.grow.dels d hd with a | a
    · rcases hC3.covD d a with b | b | ⟨c, hc, _⟩
      · exact Or.inl b
      · exact Or.inr b
      · cases hc
    · right; omega

/-- one batch round preserves `QInv`, whatever writes land during its Updates -/
theorem QInv.roundBJ {P : Nat → Prop} {r : R} (h : QInv P r) (hr : JRInv r) (hs : r.roundSafeB)
    (hp : r.failing ≠ [] → PAdd P r) :
    QInv P r.roundB ∧ r.roundB.now = r.now ∧ r.roundB.cfg = r.cfg ∧ r.roundB.failing = r.failing := by
  unfold R.roundSafeB at hs
  have h0 : QRJ P r := ⟨h, hp, by rw [hr.res]; simp⟩
  have h1 : QRJ P r.nextChanges.1 ∧ JInv r.nextChanges.1 [] ∧ r.nextChanges.1.results = [] ∧ NCF r r.nextChanges.1 := by
    rcases nextChanges_fst r with e | e <;> rw [e]
    · exact ⟨h0, hr.inv, hr.res, ⟨rfl, rfl, rfl⟩⟩
    · exact ⟨h0.congr rfl rfl rfl rfl rfl rfl, hr.inv.set_refreshedAt _ (Nat.le_refl _), hr.res, ⟨rfl, rfl, rfl⟩⟩
  have hch0 := chOK_nextChanges hr.inv.tinv hr.sync
  rw [roundB_eq']
  generalize r.nextChanges = nc at h1 hch0 hs ⊢
  obtain ⟨hq1, hI1, hres1, n1⟩ := h1
  obtain ⟨hs1, hs2⟩ := hs
  obtain ⟨hI3, _⟩ := hI1.batch_phaseJ hres1 hch0 0 (pendAfter nc.2 (nc.1.consumeB nc.2 0 [] [])) hs1
  obtain ⟨h3, n3⟩ := hq1.batch_phase hI1 hch0 0 (pendAfter nc.2 (nc.1.consumeB nc.2 0 [] []))
  generalize batchOps (nc.1.consumeB nc.2 0 [] []) (pendAfter nc.2 (nc.1.consumeB nc.2 0 [] [])) = x3 at hI3 h3 n3 hs2 ⊢
  obtain ⟨hq, n4⟩ := roundTail_qJ (nc.1.consumeB nc.2 0 [] []).2.2.1 hI3 hs2 h3
  have n := (n1.trans n3).trans n4
  exact ⟨hq, n.1, n.2.1, n.2.2⟩

theorem JWInv.roundB {r : R} (h : JWInv r) (hs : r.roundSafeB) : JWInv r.roundB := by
  obtain ⟨hq, e1, e2, _⟩ := h.q.roundBJ h.rinv hs (fun _ => pAdd_bound r)
  refine ⟨h.rinv.roundB hs, ?_⟩
  rw [e1, e2]; exact hq

/-! ## batch rounds without queued foreign status writes are safe -/

theorem foldl_readC_frame (pre : List Change) (x : R) : FrameK x (pre.foldl readC x) := by
  induction pre generalizing x with
  | nil => exact FrameK.refl x
  | cons c pre ih => exact (readC_frame x c).1.trans (ih _)

theorem consumeB_injects (cs : List Change) (x : R) (last : Nat) (ds us : List BEntry) :
    (x.consumeB cs last ds us).1.injects = x.injects := by
  obtain ⟨pre, _, hcoll, _⟩ := consumeB_pre cs x last ds us
  rw [hcoll]; exact (foldl_readC_frame pre x).injects

theorem foldl_stepD_injects (fl : List Nat) (dl : List BEntry) (x : R) : (dl.foldl (stepD fl) x).injects = x.injects := by
  induction dl generalizing x with
  | nil => rfl
  | cons e dl ih =>
    rw [List.foldl_cons, ih]
    unfold stepD; split <;> rfl

theorem foldl_processSingle_injSub (ul : List BEntry) (x : R) :
    InjSub x (ul.foldl (fun (x : R) (e : BEntry) => x.processSingle e.1 e.2 false) x) := by
  induction ul generalizing x with
  | nil => exact InjSub.refl x
  | cons e ul ih => exact (processSingle_injSub x e.1 e.2 false).trans (ih _)

theorem batchSafe_of_noTouch (us : List BEntry) (x : R) (h : NoTouch x.injects) : x.batchSafe us := by
  induction us generalizing x with
  | nil => trivial
  | cons e us ih =>
    exact ⟨updSafe_of_noTouch x e.1 h, ih _ ((processSingle_injSub x e.1 e.2 false).noTouch h)⟩

theorem batchOps_injSub (co : R × List Change × Nat × List BEntry × List BEntry) (pend : Option (List Change)) :
    InjSub co.1 (batchOps co pend) := by
  unfold batchOps
  rw [deleteBatch_eq, updateBatch_eqP]
  refine InjSub.trans (InjSub.of_eq ?_) (foldl_processSingle_injSub _ _)
  rw [foldl_stepD_injects]

/-- a batch round with no foreign status write queued satisfies the hypothesis, and queues none -/
theorem roundB_safe_of_noTouch (r : R) (h : NoTouch r.injects) : r.roundSafeB ∧ InjSub r r.roundB := by
  rw [roundB_eq']
  unfold R.roundSafeB R.tailSafe roundTail
  have e0 : r.nextChanges.1.injects = r.injects := by
    rcases nextChanges_fst r with e | e <;> rw [e]
  generalize r.nextChanges = nc at e0 ⊢
  have e1 : (nc.1.consumeB nc.2 0 [] []).1.injects = nc.1.injects := consumeB_injects ..
  have hsub3 := batchOps_injSub (nc.1.consumeB nc.2 0 [] []) (pendAfter nc.2 (nc.1.consumeB nc.2 0 [] []))
  have hd : (R.deleteBatch { (nc.1.consumeB nc.2 0 [] []).1 with pending := pendAfter nc.2 (nc.1.consumeB nc.2 0 [] []) }
      (nc.1.consumeB nc.2 0 [] []).2.2.2.1).injects = r.injects := by
    rw [deleteBatch_eq, foldl_stepD_injects]
    exact e1.trans e0
  have a1 := batchSafe_of_noTouch (nc.1.consumeB nc.2 0 [] []).2.2.2.2 _ (by rw [hd]; exact h)
  have hn3 : NoTouch (batchOps (nc.1.consumeB nc.2 0 [] []) (pendAfter nc.2 (nc.1.consumeB nc.2 0 [] []))).injects := by
    refine hsub3.noTouch ?_
    rw [e1, e0]; exact h
  have hs3 : InjSub r (batchOps (nc.1.consumeB nc.2 0 [] []) (pendAfter nc.2 (nc.1.consumeB nc.2 0 [] []))) :=
    (InjSub.of_eq (e1.trans e0)).trans hsub3
  generalize batchOps (nc.1.consumeB nc.2 0 [] []) (pendAfter nc.2 (nc.1.consumeB nc.2 0 [] [])) = x3 at hn3 hs3 ⊢
  have b3 : InjSub x3 x3.commitStatus := InjSub.of_eq (commitStatus_injects _)
  generalize x3.commitStatus = r4 at b3 ⊢
  have h4 : NoTouch r4.injects := b3.noTouch hn3
  have a5 := retries_safe_of_noTouch (r4.items.length + 1) r4 h4
  have b5 := processRetries_injSub (r4.items.length + 1) r4
  refine ⟨⟨a1, a5⟩, ?_⟩
  dsimp only
  generalize r4.processRetries (r4.items.length + 1) = r5 at b5 ⊢
  have b6 : InjSub r5 r5.commitStatus := InjSub.of_eq (commitStatus_injects _)
  exact ((hs3.trans b3).trans b5).trans b6

/-- the hypothesis `roundSafeB` for every round `quiesceB` runs (mirrors `R.quiesceB`) -/
def R.quiesceSafeB (r : R) : (fuel : Nat) → Prop
  | 0 => True
  | fuel + 1 =>
    let r := r.fireTimer
    if r.triggered then r.roundSafeB ∧ R.quiesceSafeB r.roundB fuel else True

/-- … and for every round `advanceB` runs (mirrors `R.advanceB`) -/
def R.advanceSafeB (r : R) (ms : Nat) : (fuel : Nat) → Prop
  | 0 => True
  | fuel + 1 =>
    let target := r.now + ms
    match r.timer with
    | .armed t =>
      if t ≤ target then
        R.quiesceSafeB ({ r with now := max t r.now }) 64 ∧
        (let r := ({ r with now := max t r.now }).quiesceB 64
         R.advanceSafeB r (target - r.now) fuel)
      else True
    | _ => True

theorem quiesceSafeB_of_noTouch (fuel : Nat) (r : R) (hn : NoTouch r.injects) : r.quiesceSafeB fuel := by
  induction fuel generalizing r with
  | zero => trivial
  | succ n ih =>
    unfold R.quiesceSafeB
    simp only
    have hn1 : NoTouch r.fireTimer.injects := by rw [(fireTimer_frame r).1]; exact hn
    split
    · obtain ⟨a, b⟩ := roundB_safe_of_noTouch r.fireTimer hn1
      exact ⟨a, ih _ (b.noTouch hn1)⟩
    · trivial

theorem JWInv.quiesceBS {r : R} (h : JWInv r) (fuel : Nat) (hs : r.quiesceSafeB fuel) : JWInv (r.quiesceB fuel) := by
  induction fuel generalizing r with
  | zero => exact h
  | succ n ih =>
    unfold R.quiesceSafeB at hs
    unfold R.quiesceB
    simp only at hs ⊢
    split
    · rename_i htr
      rw [if_pos htr] at hs
      exact ih (h.fireTimer.roundB hs.1) hs.2
    · exact h.fireTimer

theorem JWInv.advanceBS {r : R} (h : JWInv r) (ms fuel : Nat) (hs : r.advanceSafeB ms fuel) : JWInv (r.advanceB ms fuel) := by
  induction fuel generalizing r ms with
  | zero => exact h.setNow _ (by omega)
  | succ n ih =>
    unfold R.advanceSafeB at hs
    unfold R.advanceB
    simp only at hs ⊢
    split
    · rename_i t htm
      split
      · rename_i hle
        split at hs
        · rename_i t' htm'
          have ht : t' = t := by rw [htm] at htm'; cases htm'; rfl
          subst ht
          rw [if_pos hle] at hs
          exact ih ((h.setNow (max t' r.now) (by omega)).quiesceBS 64 hs.1) _ hs.2
        · rename_i hna
          exact absurd htm (hna t)
      · exact h.setNow _ (by omega)
    · exact h.setNow _ (by omega)

theorem JWInv.quiesceB {r : R} (h : JWInv r) (hn : NoTouch r.injects) (fuel : Nat) :
    JWInv (r.quiesceB fuel) ∧ NoTouch (r.quiesceB fuel).injects ∧ r.quiesceSafeB fuel := by
  induction fuel generalizing r with
  | zero => exact ⟨h, hn, trivial⟩
  | succ n ih =>
    unfold R.quiesceB R.quiesceSafeB
    simp only
    have hn1 : NoTouch r.fireTimer.injects := by rw [(fireTimer_frame r).1]; exact hn
    split
    · obtain ⟨a, b⟩ := roundB_safe_of_noTouch r.fireTimer hn1
      obtain ⟨c1, c2, c3⟩ := ih (h.fireTimer.roundB a) (b.noTouch hn1)
      exact ⟨c1, c2, a, c3⟩
    · exact ⟨h.fireTimer, hn1, trivial⟩

theorem JWInv.advanceB {r : R} (h : JWInv r) (hn : NoTouch r.injects) (ms fuel : Nat) :
    JWInv (r.advanceB ms fuel) ∧ NoTouch (r.advanceB ms fuel).injects := by
  induction fuel generalizing r ms with
  | zero => exact ⟨h.setNow _ (by omega), hn⟩
  | succ n ih =>
    unfold R.advanceB
    simp only
    split
    · split
      · obtain ⟨a, b, _⟩ := (h.setNow (max _ r.now) (by omega)).quiesceB hn 64
        exact ih a b _
      · exact ⟨h.setNow _ (by omega), hn⟩
    · exact ⟨h.setNow _ (by omega), hn⟩

theorem advanceSafeB_of_noTouch (fuel : Nat) (r : R) (ms : Nat) (hn : NoTouch r.injects) (h : JWInv r) : r.advanceSafeB ms fuel := by
  induction fuel generalizing r ms with
  | zero => trivial
  | succ n ih =>
    unfold R.advanceSafeB
    simp only
    split
    · rename_i t htm
      split
      · have h0 : JWInv { r with now := max t r.now } := h.setNow _ (by omega)
        obtain ⟨a, b, c⟩ := h0.quiesceB hn 64
        exact ⟨c, ih _ _ b a⟩
      · trivial
    · trivial

/-! ## progress and convergence of the batch loop once writes have stopped -/

/-- **once nothing fails and nothing is queued to land, every triggered batch round strictly
    decreases the measure** — from any state of the weaker invariant -/
theorem mz_roundBJ {P : Nat → Prop} {r : R} (hr : JRInv r) (hq : QInv P r) (hf : r.failing = []) (hinj : r.injects = [])
    (hrs : 1 ≤ r.cfg.roundSize) (htr : r.triggered = true) : Mz r.roundB < Mz r := by
  cases hcs : r.nextChanges.2 with
  | nil => rw [roundB_eq_round_of_nil r hcs]; exact mz_roundJ hr hq hf hinj hrs htr
  | cons c cs =>
    have hnc : JInv r.nextChanges.1 [] ∧ r.nextChanges.1.results = [] ∧ M1 r.nextChanges.1 0 = M1 r 0 ∧
        r.nextChanges.1.failing = [] ∧ r.nextChanges.1.injects = [] := by
      rcases nextChanges_fst r with e | e <;> rw [e]
      · exact ⟨hr.inv, hr.res, rfl, hf, hinj⟩
      · exact ⟨hr.inv.set_refreshedAt _ (Nat.le_refl _), hr.res, rfl, hf, hinj⟩
    have hch := chOK_nextChanges hr.inv.tinv hr.sync
    have hsafe := (roundB_safe_of_noTouch r (noTouch_nil hinj)).1
    unfold R.roundSafeB at hsafe
    rw [roundB_eq']
    generalize r.nextChanges = nc at hnc hch hsafe hcs ⊢
    obtain ⟨hI1, hres1, hM1, hf1, hinj1⟩ := hnc
    obtain ⟨hI3, _, _, _, _, _, e3, _, hsub, _⟩ := hI1.batch_phaseJ hres1 hch 0 (pendAfter nc.2 (nc.1.consumeB nc.2 0 [] [])) hsafe.1
    obtain ⟨_, hm2, hfl2⟩ := m1_batch_phase hres1 hinj1 hf1 hch 0 (pendAfter nc.2 (nc.1.consumeB nc.2 0 [] []))
    have hm2 := hm2 (by rw [hcs]; simp)
    have hinj3 : (batchOps (nc.1.consumeB nc.2 0 [] []) (pendAfter nc.2 (nc.1.consumeB nc.2 0 [] []))).injects = [] :=
      List.eq_nil_iff_forall_not_mem.2 (fun a ha => by have := hsub a ha; rw [hinj1] at this; cases this)
    generalize batchOps (nc.1.consumeB nc.2 0 [] []) (pendAfter nc.2 (nc.1.consumeB nc.2 0 [] [])) = x3 at hI3 e3 hm2 hfl2 hinj3
    have hm3 := (m1_roundTailJ (nc.1.consumeB nc.2 0 [] []).2.2.1 hI3 (e3.trans hf1) hinj3 hfl2).1
    have := mz_le (roundTail x3 (nc.1.consumeB nc.2 0 [] []).2.2.1)
    have : 3 * M1 r 0 ≤ Mz r := by unfold Mz; omega
    omega

theorem roundB_injects_nil (x : R) (hx : x.injects = []) : x.roundB.injects = [] := by
  refine List.eq_nil_iff_forall_not_mem.2 (fun b hb => ?_)
  have := (roundB_safe_of_noTouch x (noTouch_nil hx)).2 b hb
  rw [hx] at this; cases this

theorem quiesceB_injects_nil (n : Nat) (x : R) (hx : x.injects = []) : (x.quiesceB n).injects = [] := by
  induction n generalizing x with
  | zero => exact hx
  | succ n ihn =>
    unfold R.quiesceB
    simp only
    have h1 : x.fireTimer.injects = [] := by rw [(fireTimer_frame x).1]; exact hx
    split
    · exact ihn _ (roundB_injects_nil _ h1)
    · exact h1

theorem advanceB_injects_nil (n : Nat) (x : R) (m : Nat) (hx : x.injects = []) : (x.advanceB m n).injects = [] := by
  induction n generalizing x m with
  | zero => exact hx
  | succ n ihn =>
    unfold R.advanceB
    simp only
    split
    · split
      · exact ihn _ _ (quiesceB_injects_nil 64 _ hx)
      · exact hx
    · exact hx

theorem JSInv.roundB {B : Nat} {r : R} (h : JSInv B r) : JSInv B r.roundB ∧ r.roundB.now = r.now ∧ r.roundB.cfg = r.cfg := by
  have hs := (roundB_safe_of_noTouch r (noTouch_nil h.noinj)).1
  obtain ⟨hq, e1, e2, e3⟩ := h.q.roundBJ h.rinv hs (fun e => absurd h.nofail e)
  exact ⟨⟨h.rinv.roundB hs, hq, e3.trans h.nofail, roundB_injects_nil r h.noinj⟩, e1, e2⟩

theorem JSInv.quiesceB {B : Nat} {r : R} (h : JSInv B r) (fuel : Nat) :
    JSInv B (r.quiesceB fuel) ∧ (r.quiesceB fuel).now = r.now ∧ (r.quiesceB fuel).cfg = r.cfg := by
  induction fuel generalizing r with
  | zero => exact ⟨h, rfl, rfl⟩
  | succ n ih =>
    unfold R.quiesceB
    simp only
    obtain ⟨h1, e1⟩ := h.fireTimer
    have hcfg1 : r.fireTimer.cfg = r.cfg := (fireTimer_frame r).2.2.2.2
    split
    · obtain ⟨h2, e2, c2⟩ := h1.roundB
      obtain ⟨h3, e3, c3⟩ := ih h2
      exact ⟨h3, by rw [e3, e2, e1], by rw [c3, c2, hcfg1]⟩
    · exact ⟨h1, e1, hcfg1⟩

/-- **the batch loop goes idle**: once nothing fails and nothing is queued to land,
    `quiesceB` with fuel beyond the measure ends in an idle state -/
theorem JSInv.quiesceB_idle {B : Nat} {r : R} (h : JSInv B r) (hrs : 1 ≤ r.cfg.roundSize) (fuel : Nat) (hfuel : Mz r < fuel) :
    (r.quiesceB fuel).triggered = false := by
  induction fuel generalizing r with
  | zero => omega
  | succ n ih =>
    unfold R.quiesceB
    simp only
    obtain ⟨h1, _⟩ := h.fireTimer
    have hcfg1 : r.fireTimer.cfg = r.cfg := (fireTimer_frame r).2.2.2.2
    have hm1 := fireTimer_mz r
    split
    · rename_i htr
      have hlt := mz_roundBJ h1.rinv h1.q h1.nofail h1.noinj (by rw [hcfg1]; exact hrs) htr
      obtain ⟨h2, _, c2⟩ := h1.roundB
      exact ih h2 (by rw [c2, hcfg1]; exact hrs) (by omega)
    · rename_i htr
      simpa using htr

/-! ## nothing but the status is written by a batch round -/

theorem Sim.tail {r0 r3 : R} (last : Nat) (hS3 : Sim r0 r3) (hI3 : JInv r3 r3.results) (hs2 : r3.tailSafe) :
    Sim r0 (roundTail r3 last) := by
  unfold roundTail
  unfold R.tailSafe at hs2
  dsimp only
  have hI4 := hI3.commitStatus
  have hS4 := hS3.commitStatus hI3
  have hres4 := commitStatus_results r3
  generalize r3.commitStatus = r4 at hI4 hS4 hres4 hs2 ⊢
  rw [← hres4] at hI4
  obtain ⟨hI5, _⟩ := hI4.processRetries (r4.items.length + 1) hs2
  have hS5 := hS4.processRetries (r4.items.length + 1)
  generalize r4.processRetries (r4.items.length + 1) = r5 at hI5 hS5 ⊢
  exact (hS5.commitStatus hI5).same rfl rfl rfl

theorem Sim.foldl_processSingle {r0 : R} (ul : List BEntry) {x : R} (h : Sim r0 x) :
    Sim r0 (ul.foldl (fun (x : R) (e : BEntry) => x.processSingle e.1 e.2 false) x) := by
  induction ul generalizing x with
  | nil => exact h
  | cons e ul ih => exact ih (h.processSingle e.1 e.2 false)

theorem foldl_stepD_table (fl : List Nat) (dl : List BEntry) (x : R) :
    (dl.foldl (stepD fl) x).objs = x.objs ∧ (dl.foldl (stepD fl) x).dels = x.dels := by
  induction dl generalizing x with
  | nil => exact ⟨rfl, rfl⟩
  | cons e dl ih =>
    rw [List.foldl_cons]
    obtain ⟨a, b⟩ := ih (stepD fl x e)
    have : (stepD fl x e).objs = x.objs ∧ (stepD fl x e).dels = x.dels := by unfold stepD; split <;> exact ⟨rfl, rfl⟩
    exact ⟨a.trans this.1, b.trans this.2⟩

/-- one batch round -/
theorem JRInv.roundB_sim {r : R} (h : JRInv r) (hs : r.roundSafeB) : Sim r r.roundB := by
  rw [roundB_eq']
  unfold R.roundSafeB at hs
  have hnc : JInv r.nextChanges.1 [] ∧ r.nextChanges.1.results = [] ∧ Sim r r.nextChanges.1 := by
    rcases nextChanges_fst r with e | e <;> rw [e]
    · exact ⟨h.inv, h.res, Sim.refl r⟩
    · exact ⟨h.inv.set_refreshedAt _ (Nat.le_refl _), h.res, (Sim.refl r).same rfl rfl rfl⟩
  have hch0 := chOK_nextChanges h.inv.tinv h.sync
  generalize r.nextChanges = nc at hnc hch0 hs ⊢
  obtain ⟨hI1, hres1, hS1⟩ := hnc
  obtain ⟨hs1, hs2⟩ := hs
  obtain ⟨hI3, _⟩ := hI1.batch_phaseJ hres1 hch0 0 (pendAfter nc.2 (nc.1.consumeB nc.2 0 [] [])) hs1
  have hS3 : Sim r (batchOps (nc.1.consumeB nc.2 0 [] []) (pendAfter nc.2 (nc.1.consumeB nc.2 0 [] []))) := by
    unfold batchOps
    rw [deleteBatch_eq, updateBatch_eqP]
    refine Sim.foldl_processSingle _ ?_
    obtain ⟨pre, _, hcoll, _⟩ := consumeB_pre nc.2 nc.1 0 [] []
    have hK := foldl_readC_frame pre nc.1
    rw [← hcoll] at hK
    obtain ⟨t1, t2⟩ := foldl_stepD_table ({ (nc.1.consumeB nc.2 0 [] []).1 with pending := pendAfter nc.2 (nc.1.consumeB nc.2 0 [] []) } : R).failing
      (nc.1.consumeB nc.2 0 [] []).2.2.2.1 { (nc.1.consumeB nc.2 0 [] []).1 with pending := pendAfter nc.2 (nc.1.consumeB nc.2 0 [] []) }
    refine hS1.same (t1.trans hK.objs) (t2.trans hK.dels) ?_
    rw [foldl_stepD_injects]
    exact hK.injects
  generalize batchOps (nc.1.consumeB nc.2 0 [] []) (pendAfter nc.2 (nc.1.consumeB nc.2 0 [] [])) = x3 at hI3 hS3 hs2 ⊢
  exact hS3.tail _ hI3 hs2

/-! ## the hypothesis on a batch round is decidable -/

instance batchSafeDec : (us : List BEntry) → (r : R) → Decidable (r.batchSafe us)
  | [], _ => isTrue trivial
  | e :: us, r =>
    have := batchSafeDec us (r.processSingle e.1 e.2 false)
    (inferInstance : Decidable (r.updSafe e.1 ∧ (r.processSingle e.1 e.2 false).batchSafe us))

instance (r : R) : Decidable r.roundSafeB := by unfold R.roundSafeB; infer_instance

end Sdb.Rec
