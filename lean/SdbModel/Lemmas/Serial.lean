import SdbModel.Model.Serial

/-! Invariants of the abstract locking / commit protocol (Model.Serial). -/
namespace Sdb.Serial

theorem Ascending.tail {a : Nat} {l : List Nat} (h : Ascending (a :: l)) : Ascending l := by
  cases l with
  | nil => trivial
  | cons b r => exact h.2

/-- in an ascending list everything after position `k` is larger than the element at `k` -/
theorem ascending_drop_gt (l : List Nat) (h : Ascending l) (k : Nat) (a : Nat) (hk : l[k]? = some a) :
    ∀ x ∈ l.drop (k + 1), a < x := by
  induction l generalizing k with
  | nil => simp at hk
  | cons b r ih =>
    cases k with
    | zero =>
      simp only [List.getElem?_cons_zero, Option.some.injEq] at hk
      subst hk
      simp only [Nat.zero_add, List.drop_succ_cons, List.drop_zero]
      -- b < everything in r
      intro x hx
      clear ih
      induction r generalizing b with
      | nil => simp at hx
      | cons c r' ih' =>
        have hbc : b < c := h.1
        simp only [List.mem_cons] at hx
        rcases hx with rfl | hx
        · exact hbc
        · have : Ascending (c :: r') := h.2
          have := ih' c this hx
          omega
    | succ k' =>
      simp only [List.getElem?_cons_succ] at hk
      simpa using ih h.tail k' hk

/-- … and everything before it is smaller -/
theorem ascending_take_lt (l : List Nat) (h : Ascending l) (k : Nat) (a : Nat) (hk : l[k]? = some a) :
    ∀ x ∈ l.take k, x < a := by
  induction l generalizing k with
  | nil => simp at hk
  | cons b r ih =>
    cases k with
    | zero => simp
    | succ k' =>
      simp only [List.getElem?_cons_succ] at hk
      intro x hx
      simp only [List.take_succ_cons, List.mem_cons] at hx
      rcases hx with rfl | hx
      · -- b < r[k']
        have := ascending_drop_gt (x :: r) h 0 x (by simp)
        apply this
        simp only [Nat.zero_add, List.drop_succ_cons, List.drop_zero]
        exact List.mem_of_getElem? hk
      · exact ih h.tail k' hk x hx

theorem mem_take_succ (l : List Nat) (k a : Nat) (hk : l[k]? = some a) (x : Nat) :
    x ∈ l.take (k + 1) ↔ x ∈ l.take k ∨ x = a := by
  rw [List.take_succ, hk]
  simp

theorem mem_drop_iff (l : List Nat) (k a : Nat) (hk : l[k]? = some a) (x : Nat) :
    x ∈ l.drop k ↔ x = a ∨ x ∈ l.drop (k + 1) := by
  have hlt : k < l.length := by
    rcases Nat.lt_or_ge k l.length with h | h
    · exact h
    · rw [List.getElem?_eq_none h] at hk; simp at hk
  rw [List.drop_eq_getElem_cons hlt]
  have : l[k] = a := by
    rw [List.getElem?_eq_getElem hlt] at hk; simpa using hk
  simp [this]

/-- the invariant -/
structure Inv (s : State) : Prop where
  asc : ∀ (i : Nat) (t : Txn), s.txns[i]? = some t → Ascending t.tabs
  rel0 : ∀ (i : Nat) (t : Txn), s.txns[i]? = some t → (t.phase = Phase.loaded ∨ ∃ k, t.phase = Phase.acquiring k) → t.released = 0
  bound : ∀ (i : Nat) (t : Txn) (k : Nat), s.txns[i]? = some t → t.phase = Phase.acquiring k → k ≤ t.tabs.length
  heldOwner : ∀ (i : Nat) (t : Txn) (tb : Nat), s.txns[i]? = some t → tb ∈ held t → s.owner tb = some i
  ownerHeld : ∀ (tb i : Nat), s.owner tb = some i → ∃ t : Txn, s.txns[i]? = some t ∧ tb ∈ held t
  sees : ∀ (i : Nat) (t : Txn), s.txns[i]? = some t → t.phase = Phase.loaded → ∀ x ∈ t.tabs, t.old x = s.root x
  serial : ∀ x : Nat, s.root x = s.commits x
  relBound : ∀ (i : Nat) (t : Txn), s.txns[i]? = some t → t.released ≤ t.tabs.length

theorem getElem?_setTxn (l : List Txn) (i j : Nat) (t : Txn) (hi : ∃ u, l[i]? = some u) :
    (setTxn l i t)[j]? = if j = i then some t else l[j]? := by
  unfold setTxn
  rw [List.getElem?_set]
  obtain ⟨u, hu⟩ := hi
  have hlt : i < l.length := by
    rcases Nat.lt_or_ge i l.length with h | h
    · exact h
    · rw [List.getElem?_eq_none h] at hu; simp at hu
  by_cases h : i = j
  · subst h; simp [hlt]
  · have : ¬ j = i := fun e => h e.symm
    simp [h, this]

theorem inv_init : Inv ({} : State) := by
  constructor <;> intros <;> simp_all [held]

theorem inv_step (s s' : State) (hinv : Inv s) (hst : Step s s') : Inv s' := by
  cases hst with
  | acquire i t k tb hi hp hk hfree =>
    have hget := fun j => getElem?_setTxn s.txns i j { t with phase := .acquiring (k + 1) } ⟨t, hi⟩
    constructor
    · intro j u hj; simp only [hget] at hj
      split at hj
      · simp only [Option.some.injEq] at hj; subst hj; exact hinv.asc i t hi
      · exact hinv.asc j u hj
    · intro j u hj hph; simp only [hget] at hj
      split at hj
      · simp only [Option.some.injEq] at hj; subst hj
        exact hinv.rel0 i t hi (Or.inr ⟨k, hp⟩)
      · exact hinv.rel0 j u hj hph
    · intro j u k' hj hph; simp only [hget] at hj
      split at hj
      · simp only [Option.some.injEq] at hj; subst hj
        simp only [Phase.acquiring.injEq] at hph
        have : k < t.tabs.length := by
          rcases Nat.lt_or_ge k t.tabs.length with h | h
          · exact h
          · rw [List.getElem?_eq_none h] at hk; simp at hk
        show k' ≤ t.tabs.length
        omega
      · exact hinv.bound j u k' hj hph
    · intro j u x hj hx; simp only [hget] at hj
      split at hj
      · rename_i hji; subst hji
        simp only [Option.some.injEq] at hj; subst hj
        simp only [held] at hx
        rw [mem_take_succ _ _ _ hk] at hx
        simp only
        rcases hx with hx | hx
        · have := hinv.heldOwner j t x hi (by simp only [held, hp]; exact hx)
          by_cases hxt : x = tb
          · simp [hxt]
          · simp [hxt, this]
        · simp [hx]
      · rename_i hji
        have := hinv.heldOwner j u x hj hx
        have hne : x ≠ tb := by intro e; rw [e, hfree] at this; simp at this
        simp [hne, this]
    · intro x j hx
      simp only at hx
      by_cases hxt : x = tb
      · simp only [hxt, if_true, Option.some.injEq] at hx
        subst hx
        refine ⟨{ t with phase := .acquiring (k + 1) }, by simp [hget], ?_⟩
        simp only [held]
        rw [mem_take_succ _ _ _ hk]; right; exact hxt
      · simp only [hxt, if_false] at hx
        obtain ⟨u, hu, hxu⟩ := hinv.ownerHeld x j hx
        by_cases hji : j = i
        · subst hji
          rw [hi] at hu; simp only [Option.some.injEq] at hu; subst hu
          refine ⟨{ t with phase := .acquiring (k + 1) }, by simp [hget], ?_⟩
          simp only [held, hp] at hxu
          simp only [held]
          rw [mem_take_succ _ _ _ hk]; left; exact hxu
        · exact ⟨u, by simp [hget, hji, hu], hxu⟩
    · intro j u hj hph; simp only [hget] at hj
      split at hj
      · simp only [Option.some.injEq] at hj; subst hj; simp at hph
      · exact hinv.sees j u hj hph
    · exact hinv.serial
    · intro j u hj; simp only [hget] at hj
      split at hj
      · simp only [Option.some.injEq] at hj; subst hj; exact hinv.relBound i t hi
      · exact hinv.relBound j u hj
  | load i t hi hp =>
    have hget := fun j => getElem?_setTxn s.txns i j { t with phase := .loaded, old := s.root } ⟨t, hi⟩
    constructor
    · intro j u hj; simp only [hget] at hj
      split at hj
      · simp only [Option.some.injEq] at hj; subst hj; exact hinv.asc i t hi
      · exact hinv.asc j u hj
    · intro j u hj hph; simp only [hget] at hj
      split at hj
      · simp only [Option.some.injEq] at hj; subst hj
        exact hinv.rel0 i t hi (Or.inr ⟨_, hp⟩)
      · exact hinv.rel0 j u hj hph
    · intro j u k' hj hph; simp only [hget] at hj
      split at hj
      · simp only [Option.some.injEq] at hj; subst hj; simp at hph
      · exact hinv.bound j u k' hj hph
    · intro j u x hj hx; simp only [hget] at hj
      split at hj
      · rename_i hji; subst hji
        simp only [Option.some.injEq] at hj; subst hj
        simp only [held] at hx
        exact hinv.heldOwner j t x hi (by simp only [held, hp, List.take_length]; exact hx)
      · exact hinv.heldOwner j u x hj hx
    · intro x j hx
      obtain ⟨u, hu, hxu⟩ := hinv.ownerHeld x j hx
      by_cases hji : j = i
      · subst hji
        rw [hi] at hu; simp only [Option.some.injEq] at hu; subst hu
        refine ⟨{ t with phase := .loaded, old := s.root }, by simp [hget], ?_⟩
        simp only [held, hp, List.take_length] at hxu
        simpa [held] using hxu
      · exact ⟨u, by simp [hget, hji, hu], hxu⟩
    · intro j u hj hph; simp only [hget] at hj
      split at hj
      · simp only [Option.some.injEq] at hj; subst hj; intro x _; rfl
      · exact hinv.sees j u hj hph
    · exact hinv.serial
    · intro j u hj; simp only [hget] at hj
      split at hj
      · simp only [Option.some.injEq] at hj; subst hj; exact hinv.relBound i t hi
      · exact hinv.relBound j u hj
  | store i t hi hp hc =>
    have hget := fun j => getElem?_setTxn s.txns i j { t with phase := .stored } ⟨t, hi⟩
    have hrel : t.released = 0 := hinv.rel0 i t hi (Or.inl hp)
    constructor
    · intro j u hj; simp only [hget] at hj
      split at hj
      · simp only [Option.some.injEq] at hj; subst hj; exact hinv.asc i t hi
      · exact hinv.asc j u hj
    · intro j u hj hph; simp only [hget] at hj
      split at hj
      · simp only [Option.some.injEq] at hj; subst hj
        rcases hph with h | ⟨k, h⟩ <;> simp at h
      · exact hinv.rel0 j u hj hph
    · intro j u k' hj hph; simp only [hget] at hj
      split at hj
      · simp only [Option.some.injEq] at hj; subst hj; simp at hph
      · exact hinv.bound j u k' hj hph
    · intro j u x hj hx; simp only [hget] at hj
      split at hj
      · rename_i hji; subst hji
        simp only [Option.some.injEq] at hj; subst hj
        simp only [held, hrel, List.drop_zero] at hx
        exact hinv.heldOwner j t x hi (by simp only [held, hp]; exact hx)
      · exact hinv.heldOwner j u x hj hx
    · intro x j hx
      obtain ⟨u, hu, hxu⟩ := hinv.ownerHeld x j hx
      by_cases hji : j = i
      · subst hji
        rw [hi] at hu; simp only [Option.some.injEq] at hu; subst hu
        refine ⟨{ t with phase := .stored }, by simp [hget], ?_⟩
        simp only [held, hp] at hxu
        simpa [held, hrel] using hxu
      · exact ⟨u, by simp [hget, hji, hu], hxu⟩
    · intro j u hj hph; simp only [hget] at hj
      split at hj
      · simp only [Option.some.injEq] at hj; subst hj; simp at hph
      · rename_i hji
        intro x hx
        have h1 := hinv.sees j u hj hph x hx
        -- x is held by j, so it is not one of i's tables
        have hxj : s.owner x = some j := hinv.heldOwner j u x hj (by simp only [held, hph]; exact hx)
        have hxi : x ∉ t.tabs := by
          intro hmem
          have := hinv.heldOwner i t x hi (by simp only [held, hp]; exact hmem)
          rw [this] at hxj; simp only [Option.some.injEq] at hxj; exact hji hxj.symm
        simp [hxi, h1]
    · intro x
      simp only
      by_cases hx : x ∈ t.tabs
      · simp only [hx, if_true]
        rw [hinv.sees i t hi hp x hx, hinv.serial x]
      · simp only [hx, if_false]; exact hinv.serial x
    · intro j u hj; simp only [hget] at hj
      split at hj
      · simp only [Option.some.injEq] at hj; subst hj; exact hinv.relBound i t hi
      · exact hinv.relBound j u hj
  | abort i t hi hp hc =>
    have hget := fun j => getElem?_setTxn s.txns i j { t with phase := .stored } ⟨t, hi⟩
    have hrel : t.released = 0 := hinv.rel0 i t hi (Or.inl hp)
    constructor
    · intro j u hj; simp only [hget] at hj
      split at hj
      · simp only [Option.some.injEq] at hj; subst hj; exact hinv.asc i t hi
      · exact hinv.asc j u hj
    · intro j u hj hph; simp only [hget] at hj
      split at hj
      · simp only [Option.some.injEq] at hj; subst hj
        rcases hph with h | ⟨k, h⟩ <;> simp at h
      · exact hinv.rel0 j u hj hph
    · intro j u k' hj hph; simp only [hget] at hj
      split at hj
      · simp only [Option.some.injEq] at hj; subst hj; simp at hph
      · exact hinv.bound j u k' hj hph
    · intro j u x hj hx; simp only [hget] at hj
      split at hj
      · rename_i hji; subst hji
        simp only [Option.some.injEq] at hj; subst hj
        simp only [held, hrel, List.drop_zero] at hx
        exact hinv.heldOwner j t x hi (by simp only [held, hp]; exact hx)
      · exact hinv.heldOwner j u x hj hx
    · intro x j hx
      obtain ⟨u, hu, hxu⟩ := hinv.ownerHeld x j hx
      by_cases hji : j = i
      · subst hji
        rw [hi] at hu; simp only [Option.some.injEq] at hu; subst hu
        refine ⟨{ t with phase := .stored }, by simp [hget], ?_⟩
        simp only [held, hp] at hxu
        simpa [held, hrel] using hxu
      · exact ⟨u, by simp [hget, hji, hu], hxu⟩
    · intro j u hj hph; simp only [hget] at hj
      split at hj
      · simp only [Option.some.injEq] at hj; subst hj; simp at hph
      · exact hinv.sees j u hj hph
    · exact hinv.serial
    · intro j u hj; simp only [hget] at hj
      split at hj
      · simp only [Option.some.injEq] at hj; subst hj; exact hinv.relBound i t hi
      · exact hinv.relBound j u hj
  | release i t tb hi hp hk =>
    have hget := fun j => getElem?_setTxn s.txns i j { t with released := t.released + 1 } ⟨t, hi⟩
    have hasc := hinv.asc i t hi
    have htbheld : tb ∈ held t := by
      simp only [held, hp]; rw [mem_drop_iff _ _ _ hk]; left; rfl
    have htbown : s.owner tb = some i := hinv.heldOwner i t tb hi htbheld
    constructor
    · intro j u hj; simp only [hget] at hj
      split at hj
      · simp only [Option.some.injEq] at hj; subst hj; exact hasc
      · exact hinv.asc j u hj
    · intro j u hj hph; simp only [hget] at hj
      split at hj
      · simp only [Option.some.injEq] at hj; subst hj
        rcases hph with h | ⟨k, h⟩
        · simp [hp] at h
        · simp [hp] at h
      · exact hinv.rel0 j u hj hph
    · intro j u k' hj hph; simp only [hget] at hj
      split at hj
      · simp only [Option.some.injEq] at hj; subst hj; simp [hp] at hph
      · exact hinv.bound j u k' hj hph
    · intro j u x hj hx; simp only [hget] at hj
      split at hj
      · rename_i hji; subst hji
        simp only [Option.some.injEq] at hj; subst hj
        simp only [held, hp] at hx
        have hgt := ascending_drop_gt t.tabs hasc t.released tb hk x hx
        have hne : x ≠ tb := by omega
        have := hinv.heldOwner j t x hi (by simp only [held, hp]; rw [mem_drop_iff _ _ _ hk]; right; exact hx)
        simp [hne, this]
      · rename_i hji
        have := hinv.heldOwner j u x hj hx
        have hne : x ≠ tb := by
          intro e; rw [e, htbown] at this; simp only [Option.some.injEq] at this; exact hji this.symm
        simp [hne, this]
    · intro x j hx
      simp only at hx
      by_cases hxt : x = tb
      · simp [hxt] at hx
      · simp only [hxt, if_false] at hx
        obtain ⟨u, hu, hxu⟩ := hinv.ownerHeld x j hx
        by_cases hji : j = i
        · subst hji
          rw [hi] at hu; simp only [Option.some.injEq] at hu; subst hu
          refine ⟨{ t with released := t.released + 1 }, by simp [hget], ?_⟩
          simp only [held, hp] at hxu ⊢
          rw [mem_drop_iff _ _ _ hk] at hxu
          rcases hxu with h | h
          · exact absurd h hxt
          · exact h
        · exact ⟨u, by simp [hget, hji, hu], hxu⟩
    · intro j u hj hph; simp only [hget] at hj
      split at hj
      · simp only [Option.some.injEq] at hj; subst hj; simp [hp] at hph
      · exact hinv.sees j u hj hph
    · exact hinv.serial
    · intro j u hj; simp only [hget] at hj
      split at hj
      · simp only [Option.some.injEq] at hj; subst hj
        have : t.released < t.tabs.length := by
          rcases Nat.lt_or_ge t.released t.tabs.length with h | h
          · exact h
          · rw [List.getElem?_eq_none h] at hk; simp at hk
        show t.released + 1 ≤ t.tabs.length
        omega
      · exact hinv.relBound j u hj
  | finish i t hi hp hk =>
    have hget := fun j => getElem?_setTxn s.txns i j { t with phase := .done } ⟨t, hi⟩
    constructor
    · intro j u hj; simp only [hget] at hj
      split at hj
      · simp only [Option.some.injEq] at hj; subst hj; exact hinv.asc i t hi
      · exact hinv.asc j u hj
    · intro j u hj hph; simp only [hget] at hj
      split at hj
      · simp only [Option.some.injEq] at hj; subst hj
        rcases hph with h | ⟨k, h⟩ <;> simp at h
      · exact hinv.rel0 j u hj hph
    · intro j u k' hj hph; simp only [hget] at hj
      split at hj
      · simp only [Option.some.injEq] at hj; subst hj; simp at hph
      · exact hinv.bound j u k' hj hph
    · intro j u x hj hx; simp only [hget] at hj
      split at hj
      · simp only [Option.some.injEq] at hj; subst hj; simp [held] at hx
      · exact hinv.heldOwner j u x hj hx
    · intro x j hx
      obtain ⟨u, hu, hxu⟩ := hinv.ownerHeld x j hx
      by_cases hji : j = i
      · subst hji
        rw [hi] at hu; simp only [Option.some.injEq] at hu; subst hu
        simp only [held, hp, hk, List.drop_length] at hxu
        simp at hxu
      · exact ⟨u, by simp [hget, hji, hu], hxu⟩
    · intro j u hj hph; simp only [hget] at hj
      split at hj
      · simp only [Option.some.injEq] at hj; subst hj; simp at hph
      · exact hinv.sees j u hj hph
    · exact hinv.serial
    · intro j u hj; simp only [hget] at hj
      split at hj
      · simp only [Option.some.injEq] at hj; subst hj; exact hinv.relBound i t hi
      · exact hinv.relBound j u hj
  | spawn t ha hp hr =>
    have hget : ∀ j, (s.txns ++ [t])[j]? = if j < s.txns.length then s.txns[j]? else if j = s.txns.length then some t else none := by
      intro j
      rw [List.getElem?_append]
      split
      · rfl
      · rename_i h
        by_cases hj : j = s.txns.length
        · simp [hj]
        · have : j - s.txns.length ≠ 0 := by omega
          simp [hj]
          cases hd : j - s.txns.length with
          | zero => omega
          | succ n => simp
    have old_of : ∀ j u, (s.txns ++ [t])[j]? = some u → (s.txns[j]? = some u) ∨ (j = s.txns.length ∧ u = t) := by
      intro j u hj
      rw [hget] at hj
      split at hj
      · exact Or.inl hj
      · split at hj
        · simp only [Option.some.injEq] at hj; exact Or.inr ⟨‹_›, hj.symm⟩
        · simp at hj
    constructor
    · intro j u hj
      rcases old_of j u hj with h | ⟨_, rfl⟩
      · exact hinv.asc j u h
      · exact ha
    · intro j u hj hph
      rcases old_of j u hj with h | ⟨_, rfl⟩
      · exact hinv.rel0 j u h hph
      · exact hr
    · intro j u k hj hph
      rcases old_of j u hj with h | ⟨_, rfl⟩
      · exact hinv.bound j u k h hph
      · rw [hp] at hph; simp only [Phase.acquiring.injEq] at hph; omega
    · intro j u x hj hx
      rcases old_of j u hj with h | ⟨_, rfl⟩
      · exact hinv.heldOwner j u x h hx
      · simp [held, hp] at hx
    · intro x j hx
      obtain ⟨u, hu, hxu⟩ := hinv.ownerHeld x j hx
      refine ⟨u, ?_, hxu⟩
      show (s.txns ++ [t])[j]? = some u
      rw [hget]
      have hlt : j < s.txns.length := by
        rcases Nat.lt_or_ge j s.txns.length with h | h
        · exact h
        · rw [List.getElem?_eq_none h] at hu; simp at hu
      rw [if_pos hlt]; exact hu
    · intro j u hj hph
      rcases old_of j u hj with h | ⟨_, rfl⟩
      · exact hinv.sees j u h hph
      · rw [hp] at hph; simp at hph
    · exact hinv.serial
    · intro j u hj
      rcases old_of j u hj with h | ⟨_, rfl⟩
      · exact hinv.relBound j u h
      · omega

theorem inv_reachable (s : State) (h : Reachable s) : Inv s := by
  induction h with
  | init => exact inv_init
  | step s s' _ hst ih => exact inv_step s s' ih hst

end Sdb.Serial
