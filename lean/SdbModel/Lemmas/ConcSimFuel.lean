import SdbModel.Lemmas.ConcSimWrites

/-!
  ConcSimFuel — the fuel `Conc.step` gives `runThread` (`prog.length + 2`) is
  enough: every micro step consumes one element of the program, so any fuel above
  the program length gives the same result — the "fuel" exit is never taken.
  Also: the table-mutex array keeps its length.  Core Lean only.
-/
namespace Sdb.Conc

theorem runThread_fuel_irrelevant (tid : Nat) : ∀ (n : Nat) (st : State) (th : Thread) (m : Nat),
    th.prog.length < n → th.prog.length < m → runThread st tid th n = runThread st tid th m := by
  intro n
  induction n with
  | zero => intro st th m h; omega
  | succ n ih =>
    intro st th m hn hm
    cases m with
    | zero => omega
    | succ m =>
      cases hp : th.prog with
      | nil => rw [runThread_nil _ _ _ _ hp, runThread_nil _ _ _ _ hp]
      | cons x rest =>
        rw [hp] at hn hm
        simp only [List.length_cons] at hn hm
        cases x with
        | park l => rw [runThread_park _ _ _ _ _ _ hp, runThread_park _ _ _ _ _ _ hp]
        | acquire t =>
          by_cases hb : (st.lockOwner.getD t none).isSome = true
          · rw [runThread_acquire_blocked _ _ _ _ _ _ hp hb, runThread_acquire_blocked _ _ _ _ _ _ hp hb]
          · rw [runThread_acquire _ _ _ _ _ _ hp hb, runThread_acquire _ _ _ _ _ _ hp hb]
            exact ih _ _ m (by simp; omega) (by simp; omega)
        | release t =>
          rw [runThread_release _ _ _ _ _ _ hp, runThread_release _ _ _ _ _ _ hp]
          exact ih _ _ m (by simp; omega) (by simp; omega)
        | acquireRoot =>
          by_cases hb : st.rootMu.isSome = true
          · rw [runThread_acquireRoot_blocked _ _ _ _ _ hp hb, runThread_acquireRoot_blocked _ _ _ _ _ hp hb]
          · rw [runThread_acquireRoot _ _ _ _ _ hp hb, runThread_acquireRoot _ _ _ _ _ hp hb]
            exact ih _ _ m (by simp; omega) (by simp; omega)
        | releaseRoot =>
          rw [runThread_releaseRoot _ _ _ _ _ hp, runThread_releaseRoot _ _ _ _ _ hp]
          exact ih _ _ m (by simp; omega) (by simp; omega)
        | act a =>
          rw [runThread_act _ _ _ _ _ _ hp, runThread_act _ _ _ _ _ _ hp]
          exact ih _ _ m (by rw [doAct_prog]; simp; omega) (by rw [doAct_prog]; simp; omega)
        | userWrites =>
          rw [runThread_userWrites _ _ _ _ _ hp, runThread_userWrites _ _ _ _ _ hp]
          have := (doUserWrites_spec st { th with prog := rest }).2.2.2.2.2.2.1
          exact ih _ _ m (by rw [this]; simp; omega) (by rw [this]; simp; omega)

/-- no micro step changes the number of table mutexes -/
theorem mstep_lockLen (st : State) (tid : Nat) (th : Thread) (st' : State) (th' : Thread)
    (h : mstep st tid th = some (st', th')) : st'.lockOwner.length = st.lockOwner.length := by
  unfold mstep at h
  split at h
  · split at h
    · simp at h
    · simp only [Option.some.injEq, Prod.mk.injEq] at h; rw [← h.1]
  · rename_i m rest hp
    cases m with
    | park l => simp only [Option.some.injEq, Prod.mk.injEq] at h; rw [← h.1]
    | acquire t =>
      simp only at h
      split at h
      · simp at h
      · simp only [Option.some.injEq, Prod.mk.injEq] at h; rw [← h.1]; simp
    | release t => simp only [Option.some.injEq, Prod.mk.injEq] at h; rw [← h.1]; simp
    | acquireRoot =>
      simp only at h
      split at h
      · simp at h
      · simp only [Option.some.injEq, Prod.mk.injEq] at h; rw [← h.1]
    | releaseRoot => simp only [Option.some.injEq, Prod.mk.injEq] at h; rw [← h.1]
    | act a =>
      simp only [Option.some.injEq] at h
      have := doAct_lockOwner st { th with prog := rest } a
      rw [h] at this; rw [this]
    | userWrites =>
      simp only [Option.some.injEq] at h
      have := (doUserWrites_spec st { th with prog := rest }).2.1
      rw [h] at this; rw [this]

theorem step_lockLen (st : State) (tid : Nat) : (step st tid).1.lockOwner.length = st.lockOwner.length := by
  rcases step_cases st tid with he | ⟨th, st', th', _, _, hstar, he⟩
  · rw [he]
  · rw [he]
    show st'.lockOwner.length = _
    have := MStar.invariant (tid := tid) (fun a => a.1.lockOwner.length = st.lockOwner.length)
      (fun a b ha hs => by rw [mstep_lockLen a.1 tid a.2 b.1 b.2 hs]; exact ha) hstar rfl
    exact this

end Sdb.Conc
