import SdbModel.Lemmas.ReconcilerInjectLand

/-!
  Lemmas.ReconcilerInjectRound — the steps of `Model.Reconciler` (commitOne,
  commitStatus, consume, processRetries, round) preserve the bookkeeping
  invariant `JInv` when user writes land while Updates run.
-/
namespace Sdb.Rec

/-- one iteration of `commitStatus` -/
theorem JInv.commitOne {r : R} {res : Res} {rs : List Res} (h : JInv r (res :: rs)) : JInv (r.commitOne res) rs := by
  obtain ⟨obj, orig, rev, sid, failed⟩ := res
  obtain ⟨e1, e2, _, hsid, hlv⟩ := h.resOK _ (List.mem_cons_self ..)
  simp only at e1 e2 hsid hlv
  subst e1
  unfold R.commitOne
  simp only
  cases hg : r.get orig.id with
  | none =>
    simp only
    rw [get_eq_none_iff] at hg
    exact h.drop_res (fun cur hcur hcid => absurd hcid (hg cur hcur))
  | some cur =>
    simp only
    rw [get_eq_some_iff h.tinv] at hg
    obtain ⟨hcur, hcid⟩ := hg
    by_cases hrev : cur.rev = rev
    · simp only [hrev, if_true]
      have hlive : ResLive (orig, orig, rev, sid, failed) cur := Or.inl hrev
      obtain ⟨b1, b2, _, _⟩ := hlv cur hcur hcid hlive
      have hbase : orig.id = cur.id ∧ orig.data = cur.data ∧ orig.other = cur.other ∧ orig.sid < r.nextSid :=
        ⟨hcid.symm, b1.symm, (b2 hrev).symm, hsid⟩
      cases failed with
      | false =>
        simp only [Bool.false_eq_true, if_false]
        exact h.step_commit cur orig hcur hcid hlive hbase
          { id := orig.id, obj := orig, rev := r.tableRev + 1, origRev := 0, delete := false, retryAt := 0, numRetries := 0, inQueue := true, inRevQueue := true }
          ⟨rfl, rfl, rfl, rfl, rfl⟩ rfl rfl rfl rfl rfl rfl rfl rfl rfl
      | true =>
        simp only [if_true]
        obtain ⟨n, hn⟩ := retryAdd_items ({ (r.setObj { orig with kind := .error, sid := r.nextSid }) with nextSid := r.nextSid + 1 }) orig (r.tableRev + 1) rev false
        exact h.step_commit cur orig hcur hcid hlive hbase _ ⟨rfl, rfl, rfl, rfl, rfl⟩ rfl rfl rfl rfl rfl rfl hn rfl rfl
    · simp only [hrev, if_false]
      by_cases hk : cur.kind = .pending ∧ cur.sid = sid
      · simp only [hk, and_self, if_true]
        have hlive : ResLive (orig, orig, rev, sid, failed) cur := Or.inr hk
        have hbase : cur.id = cur.id ∧ cur.data = cur.data ∧ cur.other = cur.other ∧ cur.sid < r.nextSid :=
          ⟨rfl, rfl, rfl, h.sidO cur hcur⟩
        cases failed with
        | false =>
          simp only [Bool.false_eq_true, if_false]
          exact h.step_commit cur cur hcur hcid hlive hbase
            { id := cur.id, obj := cur, rev := r.tableRev + 1, origRev := 0, delete := false, retryAt := 0, numRetries := 0, inQueue := true, inRevQueue := true }
            ⟨rfl, rfl, rfl, rfl, rfl⟩ rfl rfl rfl rfl rfl rfl rfl rfl rfl
        | true =>
          simp only [if_true]
          obtain ⟨n, hn⟩ := retryAdd_items ({ (r.setObj { cur with kind := .error, sid := r.nextSid }) with nextSid := r.nextSid + 1 }) cur (r.tableRev + 1) rev false
          exact h.step_commit cur cur hcur hcid hlive hbase _ ⟨rfl, rfl, rfl, rfl, rfl⟩ rfl rfl rfl rfl rfl rfl hn rfl rfl
      · simp only [hk, if_false]
        refine h.drop_res (fun x hx hxid hlx => ?_)
        have : x = cur := h.tinv.obj_eq hx hcur (by simp only at hxid; omega)
        subst this
        rcases hlx with e | e
        · exact hrev e
        · exact hk e

theorem JInv.foldl_commitOne (rs : List Res) {r : R} (h : JInv r rs) : JInv (rs.foldl R.commitOne r) [] := by
  induction rs generalizing r with
  | nil => exact h
  | cons x xs ih => exact ih h.commitOne

/-- `commitStatus` -/
theorem JInv.commitStatus {r : R} (h : JInv r r.results) : JInv r.commitStatus [] :=
  (h.foldl_commitOne r.results).congr rfl rfl rfl rfl rfl rfl rfl rfl rfl

theorem CommitRel.grow {r r' : R} (h : CommitRel r r') (hn : r.nextSid ≤ r'.nextSid) : Grow r r' :=
  ⟨h.tableRev, hn, fun o ho => (h.objs o ho).imp id (fun a => a.1), fun d hd => Or.inl (h.dels d hd)⟩

theorem commitOne_nextSid (r : R) (res : Res) : r.nextSid ≤ (r.commitOne res).nextSid := by
  obtain ⟨obj, orig, rev, sid, failed⟩ := res
  unfold R.commitOne
  simp only
  split
  · exact Nat.le_refl _
  · split
    · split <;> simp
    · split
      · split <;> simp
      · exact Nat.le_refl _

theorem foldl_commitOne_nextSid (rs : List Res) (r : R) : r.nextSid ≤ (rs.foldl R.commitOne r).nextSid := by
  induction rs generalizing r with
  | nil => exact Nat.le_refl _
  | cons x xs ih => exact Nat.le_trans (commitOne_nextSid r x) (ih _)

theorem commitStatus_grow (r : R) : Grow r r.commitStatus := by
  have h1 := commitRel_foldl r.results r
  have h2 := foldl_commitOne_nextSid r.results r
  exact ⟨h1.tableRev, h2, fun o ho => (h1.objs o ho).imp id (fun a => a.1), fun d hd => Or.inl (h1.dels d hd)⟩

/-! ## the change stream, possibly stale -/

/-- the remaining changes `cs` of the round's change stream, relative to the table
    and the iterator; `S` is the table revision of the round's snapshot.  A change
    may be STALE: its object was rewritten (revision beyond `S`, still to be
    processed, same data if it still carries the same pending id), deleted or
    re-created by a write that landed during an Update of this round. -/
structure JChOK (S : Nat) (r : R) (rs : List Res) (cs : List Change) : Prop where
  bnd : r.itRev ≤ S ∧ r.itDelRev ≤ S ∧ S ≤ r.tableRev
  upd : ∀ c ∈ cs, c.deleted = false → c.rev = c.obj.rev ∧ c.rev > r.itRev ∧ c.rev ≤ S ∧ c.obj.sid < r.nextSid ∧
      (∀ cur ∈ r.objs, cur.id = c.obj.id → cur = c.obj ∨
        (S < cur.rev ∧ (needs c.obj.kind → needs cur.kind) ∧ (cur.kind = .pending → cur.sid = c.obj.sid → cur.data = c.obj.data))) ∧
      (∀ d ∈ r.dels, d.1.id = c.obj.id → S < d.2)
  del : ∀ c ∈ cs, c.deleted = true → c.rev > r.itDelRev ∧ c.rev ≤ S ∧
      (∀ d ∈ r.dels, d.1.id = c.obj.id → d = (c.obj, c.rev) ∨ S < d.2) ∧
      (∀ cur ∈ r.objs, cur.id = c.obj.id → S < cur.rev ∧ needs cur.kind) ∧
      ((∃ d ∈ r.dels, d.1.id = c.obj.id) ∨ (∃ cur ∈ r.objs, cur.id = c.obj.id))
  sorted : cs.Pairwise (fun a b => a.deleted = b.deleted → a.rev < b.rev)
  ids : cs.Pairwise (fun a b => a.obj.id ≠ b.obj.id)
  covO : ∀ o ∈ r.objs, o.rev ≤ r.itRev ∨ S < o.rev ∨ ∃ c ∈ cs, c.deleted = false ∧ c.obj = o
  covD : ∀ d ∈ r.dels, d.2 ≤ r.itDelRev ∨ S < d.2 ∨ ∃ c ∈ cs, c.deleted = true ∧ (c.obj, c.rev) = d
  rsid : ∀ res ∈ rs, ∀ c ∈ cs, c.obj.id ≠ res.1.id

/-- the exact stream handed out by `Next` is a special case -/
theorem JChOK.ofChOK {r : R} {cs : List Change} (h : ChOK r [] cs) (ht : TInv r) (hs : ∀ o ∈ r.objs, o.sid < r.nextSid) :
    JChOK r.tableRev r [] cs := by
  refine ⟨⟨ht.it_le, ht.itd_le, Nat.le_refl _⟩, ?_, ?_, h.sorted, ?_, ?_, ?_, by simp⟩
  · intro c hc hd
    obtain ⟨a, b, c'⟩ := h.upd c hc hd
    refine ⟨b, c', by rw [b]; exact ht.objs_le _ a, hs _ a, fun cur hcur hid => Or.inl (ht.obj_eq hcur a hid), fun d hdd hid => ?_⟩
    exact absurd hid.symm (ht.disj _ a d hdd)
  · intro c hc hd
    obtain ⟨a, b⟩ := h.del c hc hd
    refine ⟨b, ht.dels_le _ a, fun d hdd hid => Or.inl (ht.del_eq hdd a hid), fun cur hcur hid => ?_, Or.inl ⟨_, a, rfl⟩⟩
    exact absurd hid (ht.disj cur hcur _ a)
  · refine List.Pairwise.imp_of_mem ?_ h.sorted
    intro a b ha hb hab
    cases hda : a.deleted <;> cases hdb : b.deleted
    · have hlt := hab (by rw [hda, hdb])
      obtain ⟨a1, a2, _⟩ := h.upd a ha hda
      obtain ⟨b1, b2, _⟩ := h.upd b hb hdb
      intro e
      have := ht.obj_eq a1 b1 e
      rw [a2, b2, this] at hlt; omega
    · exact ht.disj _ (h.upd a ha hda).1 _ (h.del b hb hdb).1
    · exact fun e => ht.disj _ (h.upd b hb hdb).1 _ (h.del a ha hda).1 e.symm
    · have hlt := hab (by rw [hda, hdb])
      intro e
      have := ht.del_eq (h.del a ha hda).1 (h.del b hb hdb).1 e
      have e2 : a.rev = b.rev := congrArg Prod.snd this
      omega
  · intro o ho
    rcases h.covO o ho with a | a
    · exact Or.inl a
    · exact Or.inr (Or.inr a)
  · intro d hd
    rcases h.covD d hd with a | a
    · exact Or.inl a
    · exact Or.inr (Or.inr a)

theorem JChOK.lt_upd {S : Nat} {r : R} {rs : List Res} {c : Change} {cs : List Change} (h : JChOK S r rs (c :: cs)) (hc : c.deleted = false) :
    ∀ x ∈ r.objs, x.rev > r.itRev → x = c.obj ∨ x.rev > c.rev := by
  intro x hx hgt
  have hcS := (h.upd c (List.mem_cons_self ..) hc).2.2.1
  rcases h.covO x hx with a | a | ⟨c', hc', hd', rfl⟩
  · omega
  · exact Or.inr (by omega)
  · rcases List.mem_cons.1 hc' with rfl | hc'
    · exact Or.inl rfl
    · right
      have := (List.pairwise_cons.1 h.sorted).1 c' hc' (by rw [hc, hd'])
      rw [← (h.upd c' (List.mem_cons_of_mem _ hc') hd').1]; exact this

theorem JChOK.lt_del {S : Nat} {r : R} {rs : List Res} {c : Change} {cs : List Change} (h : JChOK S r rs (c :: cs)) (hc : c.deleted = true) :
    ∀ x ∈ r.dels, x.2 > r.itDelRev → x = (c.obj, c.rev) ∨ x.2 > c.rev := by
  intro x hx hgt
  have hcS := (h.del c (List.mem_cons_self ..) hc).2.1
  rcases h.covD x hx with a | a | ⟨c', hc', hd', rfl⟩
  · omega
  · exact Or.inr (by omega)
  · rcases List.mem_cons.1 hc' with rfl | hc'
    · exact Or.inl rfl
    · right
      exact (List.pairwise_cons.1 h.sorted).1 c' hc' (by rw [hc, hd'])

/-- after a live-object change has been passed -/
theorem JChOK.tail_upd {S : Nat} {r r' : R} {rs rs' : List Res} {c : Change} {cs : List Change} (h : JChOK S r rs (c :: cs))
    (hc : c.deleted = false) (h1 : r'.objs = r.objs) (h2 : r'.dels = r.dels) (h3 : r'.tableRev = r.tableRev)
    (h4 : r'.itRev = c.rev) (h5 : r'.itDelRev = r.itDelRev) (h9 : r'.nextSid = r.nextSid)
    (hrs : ∀ res ∈ rs', res ∈ rs ∨ res.1.id = c.obj.id) : JChOK S r' rs' cs := by
  obtain ⟨hc1, hc2, hc3, _⟩ := h.upd c (List.mem_cons_self ..) hc
  have hs := List.pairwise_cons.1 h.sorted
  have hi := List.pairwise_cons.1 h.ids
  refine ⟨by rw [h4, h5, h3]; exact ⟨hc3, h.bnd.2⟩, ?_, ?_, hs.2, hi.2, ?_, ?_, ?_⟩
  · intro c' hc' hd'
    obtain ⟨a, _, b⟩ := h.upd c' (List.mem_cons_of_mem _ hc') hd'
    rw [h1, h2, h4, h9]
    exact ⟨a, hs.1 c' hc' (by rw [hc, hd']), b⟩
  · intro c' hc' hd'
    rw [h1, h2, h5]
    exact h.del c' (List.mem_cons_of_mem _ hc') hd'
  · rw [h1, h4]
    intro o ho
    rcases h.covO o ho with a | a | ⟨c', hc', hd', rfl⟩
    · left; omega
    · exact Or.inr (Or.inl a)
    · rcases List.mem_cons.1 hc' with rfl | hc'
      · left; rw [hc1]; exact Nat.le_refl _
      · exact Or.inr (Or.inr ⟨c', hc', hd', rfl⟩)
  · rw [h2, h5]
    intro d hd
    rcases h.covD d hd with a | a | ⟨c', hc', hd', rfl⟩
    · exact Or.inl a
    · exact Or.inr (Or.inl a)
    · rcases List.mem_cons.1 hc' with rfl | hc'
      · rw [hc] at hd'; cases hd'
      · exact Or.inr (Or.inr ⟨c', hc', hd', rfl⟩)
  · intro res hres c' hc'
    rcases hrs res hres with a | a
    · exact h.rsid res a c' (List.mem_cons_of_mem _ hc')
    · rw [a]; exact fun e => hi.1 c' hc' e.symm

/-- after a deletion has been passed -/
theorem JChOK.tail_del {S : Nat} {r r' : R} {rs : List Res} {c : Change} {cs : List Change} (h : JChOK S r rs (c :: cs))
    (hc : c.deleted = true) (h1 : r'.objs = r.objs) (h2 : r'.dels = r.dels) (h3 : r'.tableRev = r.tableRev)
    (h4 : r'.itRev = r.itRev) (h5 : r'.itDelRev = c.rev) (h9 : r'.nextSid = r.nextSid) : JChOK S r' rs cs := by
  obtain ⟨hc2, hc3, _⟩ := h.del c (List.mem_cons_self ..) hc
  have hs := List.pairwise_cons.1 h.sorted
  have hi := List.pairwise_cons.1 h.ids
  refine ⟨by rw [h4, h5, h3]; exact ⟨h.bnd.1, hc3, h.bnd.2.2⟩, ?_, ?_, hs.2, hi.2, ?_, ?_, ?_⟩
  · intro c' hc' hd'
    rw [h1, h2, h4, h9]
    exact h.upd c' (List.mem_cons_of_mem _ hc') hd'
  · intro c' hc' hd'
    obtain ⟨_, b⟩ := h.del c' (List.mem_cons_of_mem _ hc') hd'
    rw [h1, h2, h5]
    exact ⟨hs.1 c' hc' (by rw [hc, hd']), b⟩
  · rw [h1, h4]
    intro o ho
    rcases h.covO o ho with a | a | ⟨c', hc', hd', rfl⟩
    · exact Or.inl a
    · exact Or.inr (Or.inl a)
    · rcases List.mem_cons.1 hc' with rfl | hc'
      · rw [hc] at hd'; cases hd'
      · exact Or.inr (Or.inr ⟨c', hc', hd', rfl⟩)
  · rw [h2, h5]
    intro d hd
    rcases h.covD d hd with a | a | ⟨c', hc', hd', rfl⟩
    · left; omega
    · exact Or.inr (Or.inl a)
    · rcases List.mem_cons.1 hc' with rfl | hc'
      · left; exact Nat.le_refl _
      · exact Or.inr (Or.inr ⟨c', hc', hd', rfl⟩)
  · intro res hres c' hc'
    exact h.rsid res hres c' (List.mem_cons_of_mem _ hc')

/-- a write of object `o` lands -/
theorem JChOK.setObj {S : Nat} {r : R} {rs : List Res} {cs : List Change} (h : JChOK S r rs cs) (o : RObj) (n : Nat)
    (hn : r.nextSid ≤ n)
    (hu : ∀ c ∈ cs, c.deleted = false → c.obj.id = o.id →
      (needs c.obj.kind → needs o.kind) ∧ (o.kind = .pending → o.sid = c.obj.sid → o.data = c.obj.data))
    (hd : ∀ c ∈ cs, c.deleted = true → c.obj.id = o.id → needs o.kind) :
    JChOK S { (r.setObj o) with nextSid := n } rs cs := by
  have hS := h.bnd.2.2
  refine ⟨⟨h.bnd.1, h.bnd.2.1, by simp only [setObj_tableRev]; omega⟩, ?_, ?_, h.sorted, h.ids, ?_, ?_, h.rsid⟩
  · intro c hc hdl
    obtain ⟨a1, a2, a3, a4, a5, a6⟩ := h.upd c hc hdl
    refine ⟨a1, a2, a3, by simp only; omega, fun cur hcur hid => ?_, fun d hdd hid => a6 d (List.mem_filter.1 hdd).1 hid⟩
    rcases (mem_setObj_objs ..).1 hcur with ⟨hcur', _⟩ | rfl
    · exact a5 cur hcur' hid
    · right
      obtain ⟨b1, b2⟩ := hu c hc hdl hid.symm
      exact ⟨by simp only; omega, b1, b2⟩
  · intro c hc hdl
    obtain ⟨a1, a2, a3, a4, a5⟩ := h.del c hc hdl
    refine ⟨a1, a2, fun d hdd hid => a3 d (List.mem_filter.1 hdd).1 hid, fun cur hcur hid => ?_, ?_⟩
    · rcases (mem_setObj_objs ..).1 hcur with ⟨hcur', _⟩ | rfl
      · exact a4 cur hcur' hid
      · exact ⟨by simp only; omega, hd c hc hdl hid.symm⟩
    · by_cases hX : c.obj.id = o.id
      · exact Or.inr ⟨_, (mem_setObj_objs ..).2 (Or.inr rfl), hX.symm⟩
      · rcases a5 with ⟨d, hdd, e⟩ | ⟨cur, hcur, e⟩
        · exact Or.inl ⟨d, mem_setObj_dels_other hdd (by omega), e⟩
        · exact Or.inr ⟨cur, mem_setObj_other hcur (by omega), e⟩
  · intro x hx
    rcases (mem_setObj_objs ..).1 hx with ⟨hx', _⟩ | rfl
    · exact h.covO x hx'
    · exact Or.inr (Or.inl (by simp only; omega))
  · intro d hdd
    exact h.covD d (List.mem_filter.1 hdd).1

theorem JChOK.applyInject {S : Nat} {r : R} {rs : List Res} {cs : List Change} (h : JChOK S r rs cs) (a : Inject) :
    JChOK S (r.applyInject a) rs cs := by
  have hS := h.bnd.2.2
  cases a with
  | put id data =>
    obtain ⟨other, he⟩ := userPut_eq r id data
    show JChOK S (r.userPut id data) rs cs
    rw [he]
    refine h.setObj _ _ (Nat.le_succ _) (fun c hc hdl _ => ⟨fun _ => Or.inl rfl, fun _ e => ?_⟩) (fun c hc hdl _ => Or.inl rfl)
    have := (h.upd c hc hdl).2.2.2.1
    simp only at e; omega
  | del id =>
    show JChOK S (r.delObj id) rs cs
    cases hg : r.get id with
    | none => rw [delObj_of_none hg]; exact h
    | some o =>
      rw [delObj_of_get hg]
      have hoid : o.id = id := by simpa using List.find?_some hg
      refine ⟨⟨h.bnd.1, h.bnd.2.1, by simp only; omega⟩, ?_, ?_, h.sorted, h.ids, ?_, ?_, h.rsid⟩
      · intro c hc hdl
        obtain ⟨a1, a2, a3, a4, a5, a6⟩ := h.upd c hc hdl
        refine ⟨a1, a2, a3, a4, fun cur hcur hid => a5 cur (List.mem_filter.1 hcur).1 hid, fun d hdd hid => ?_⟩
        rcases List.mem_append.1 hdd with hdd | hdd
        · exact a6 d hdd hid
        · simp only [List.mem_singleton] at hdd
          rw [hdd]; simp only; omega
      · intro c hc hdl
        obtain ⟨a1, a2, a3, a4, a5⟩ := h.del c hc hdl
        refine ⟨a1, a2, fun d hdd hid => ?_, fun cur hcur hid => a4 cur (List.mem_filter.1 hcur).1 hid, ?_⟩
        · rcases List.mem_append.1 hdd with hdd | hdd
          · exact a3 d hdd hid
          · simp only [List.mem_singleton] at hdd
            right; rw [hdd]; simp only; omega
        · by_cases hX : c.obj.id = id
          · exact Or.inl ⟨_, List.mem_append_right _ (List.mem_singleton.2 rfl), by simp only; omega⟩
          · rcases a5 with ⟨d, hdd, e⟩ | ⟨cur, hcur, e⟩
            · exact Or.inl ⟨d, List.mem_append_left _ hdd, e⟩
            · exact Or.inr ⟨cur, List.mem_filter.2 ⟨hcur, by simp; omega⟩, e⟩
      · intro x hx
        exact h.covO x (List.mem_filter.1 hx).1
      · intro d hdd
        rcases List.mem_append.1 hdd with hdd | hdd
        · exact h.covD d hdd
        · simp only [List.mem_singleton] at hdd
          right; left; rw [hdd]; simp only; omega
  | touch id =>
    show JChOK S (r.touch id) rs cs
    unfold R.touch
    cases hg : r.get id with
    | none => exact h
    | some o =>
      simp only
      have hoid : o.id = id := by simpa using List.find?_some hg
      have hom : o ∈ r.objs := List.mem_of_find?_eq_some hg
      have := h.setObj { o with other := o.other + 1 } r.nextSid (Nat.le_refl _) (fun c hc hdl hid => ?_) (fun c hc hdl hid => ?_)
      · exact this
      · obtain ⟨_, _, _, _, a5, _⟩ := h.upd c hc hdl
        rcases a5 o hom (by simp only at hid; omega) with e | ⟨_, b2, b3⟩
        · subst e; exact ⟨fun x => x, fun _ _ => rfl⟩
        · exact ⟨b2, b3⟩
      · exact ((h.del c hc hdl).2.2.2.1 o hom (by simp only at hid; omega)).2

theorem JChOK.landAll {S : Nat} (acts : List (Nat × Inject)) {r : R} {rs : List Res} {cs : List Change} (h : JChOK S r rs cs) :
    JChOK S (r.landAll acts) rs cs := by
  induction acts generalizing r with
  | nil => exact h
  | cons a as ih => exact ih (h.applyInject a.2)

/-! ## the loop over the change stream -/

/-- no foreign status write that lands during `Update(obj)` hits an Error object -/
def R.updSafe (r : R) (obj : RObj) : Prop := InjSafe r (r.injects.filter (fun (a : Nat × Inject) => a.1 = obj.id))

/-- … during the whole loop over the change stream (mirrors `R.consume`) -/
def R.consumeSafe (r : R) : List Change → Prop
  | [] => True
  | c :: cs =>
    let r1 : R := if c.deleted then { r with itDelRev := c.rev } else { r with itRev := c.rev }
    if !c.deleted ∧ !(c.obj.kind = .pending ∨ c.obj.kind = .refreshing) then r1.consumeSafe cs
    else
      let r2 := r1.retryClear c.obj.id
      (c.deleted = false → r2.updSafe c.obj) ∧
      (let r3 := r2.processSingle c.obj c.rev c.deleted
       let r4 : R := { r3 with numReconciled := r3.numReconciled + 1 }
       if r4.numReconciled ≥ r4.cfg.roundSize then True else r4.consumeSafe cs)

/-- what `consume` leaves alone when writes land during Updates -/
structure FrameCJ (r r' : R) : Prop where
  refreshedAt : r'.refreshedAt = r.refreshedAt
  pending : r'.pending = r.pending
  cfg : r'.cfg = r.cfg
  now : r'.now = r.now
  failing : r'.failing = r.failing
  grow : Grow r r'

theorem FrameCJ.refl (r : R) : FrameCJ r r := ⟨rfl, rfl, rfl, rfl, rfl, Grow.refl r⟩

theorem FrameCJ.trans {a b c : R} (h1 : FrameCJ a b) (h2 : FrameCJ b c) : FrameCJ a c :=
  ⟨h2.refreshedAt.trans h1.refreshedAt, h2.pending.trans h1.pending, h2.cfg.trans h1.cfg,
   h2.now.trans h1.now, h2.failing.trans h1.failing, h1.grow.trans h2.grow⟩

theorem preUpdate_facts (r : R) (obj : RObj) (rev : Nat) :
    (r.preUpdate obj rev).objs = r.objs ∧ (r.preUpdate obj rev).dels = r.dels ∧ (r.preUpdate obj rev).tableRev = r.tableRev ∧
    (r.preUpdate obj rev).itRev = r.itRev ∧ (r.preUpdate obj rev).itDelRev = r.itDelRev ∧
    (r.preUpdate obj rev).refreshedAt = r.refreshedAt ∧
    (r.preUpdate obj rev).log = r.log ++ [⟨"U", obj.id, obj.data, !(r.isFailing obj.id)⟩] ∧
    (r.preUpdate obj rev).nextSid = r.nextSid ∧
    (r.preUpdate obj rev).results = r.results ++ [(obj, obj, rev, obj.sid, r.isFailing obj.id)] ∧
    (r.preUpdate obj rev).pending = r.pending ∧ (r.preUpdate obj rev).cfg = r.cfg ∧ (r.preUpdate obj rev).now = r.now ∧
    (r.preUpdate obj rev).failing = r.failing ∧ (r.preUpdate obj rev).numReconciled = r.numReconciled ∧
    (r.preUpdate obj rev).injects = r.injects.filter (fun (a : Nat × Inject) => a.1 ≠ obj.id) ∧
    (r.preUpdate obj rev).items = (if r.isFailing obj.id then r.items else r.items.filter (·.id ≠ obj.id)) := by
  unfold R.preUpdate
  cases r.isFailing obj.id
  · simp [retryClear_items]
  · simp

/-- `consume` processes a change of a live object (fresh or stale) -/
theorem JInv.consume_upd {S : Nat} {r : R} {c : Change} {cs : List Change} (h : JInv r r.results)
    (hch : JChOK S r r.results (c :: cs)) (hc : c.deleted = false) (hn : needs c.obj.kind)
    (hs : (R.retryClear { r with itRev := c.rev } c.obj.id).updSafe c.obj) :
    let r' := (R.retryClear { r with itRev := c.rev } c.obj.id).processSingle c.obj c.rev false
    JInv r' r'.results ∧ JChOK S r' r'.results cs ∧ FrameCJ r r' ∧ r'.numReconciled = r.numReconciled := by
  intro r'
  obtain ⟨hrev, hgt, hcS, hsid, hcurs, hdels⟩ := hch.upd c (List.mem_cons_self ..) hc
  have hr' : r' = (R.retryClear { r with itRev := c.rev } c.obj.id).processSingle c.obj c.rev false := rfl
  rw [processSingle_update_land] at hr'
  generalize hr2 : R.retryClear { r with itRev := c.rev } c.obj.id = r2 at hr' hs
  have hfail : r2.isFailing c.obj.id = r.isFailing c.obj.id := by
    rw [← hr2]; unfold R.isFailing; rw [retryClear_failing]
  obtain ⟨p1, p2, p3, p4, p5, p6, p7, p8, p9, p10, p11, p12, p13, p14, p15, p16⟩ := preUpdate_facts r2 c.obj c.rev
  rw [hfail] at p7 p9 p16
  have hitems : (r2.preUpdate c.obj c.rev).items = r.items.filter (·.id ≠ c.obj.id) := by
    rw [p16, ← hr2, retryClear_items]
    split
    · rfl
    · exact filter_filter_id _ _
  have q1 : r2.objs = r.objs := by rw [← hr2]; simp
  have q2 : r2.dels = r.dels := by rw [← hr2]; simp
  have q3 : r2.tableRev = r.tableRev := by rw [← hr2]; simp
  have q4 : r2.itRev = c.rev := by rw [← hr2]; simp
  have q5 : r2.itDelRev = r.itDelRev := by rw [← hr2]; simp
  have q6 : r2.refreshedAt = r.refreshedAt := by rw [← hr2]; simp
  have q7 : r2.log = r.log := by rw [← hr2]; simp
  have q8 : r2.nextSid = r.nextSid := by rw [← hr2]; simp
  have q9 : r2.results = r.results := by rw [← hr2]; simp
  have q10 : r2.pending = r.pending ∧ r2.cfg = r.cfg ∧ r2.now = r.now ∧ r2.failing = r.failing ∧ r2.numReconciled = r.numReconciled := by
    rw [← hr2]; simp
  have hS := hch.bnd
  -- the bookkeeping
  have hIp : JInv (r2.preUpdate c.obj c.rev) (r.results ++ [(c.obj, c.obj, c.obj.rev, c.obj.sid, r.isFailing c.obj.id)]) := by
    refine h.step_update c.obj (r.isFailing c.obj.id) hn (by omega) (by omega) hsid ?_ ?_ ?_ ?_
      (p1.trans q1) (p2.trans q2) (p3.trans q3) (by rw [p4, q4, hrev]) (p5.trans q5) (p6.trans q6) hitems (by rw [p7, q7]) (p8.trans q8)
    · intro cur hcur hid
      rcases hcurs cur hcur hid with e | ⟨e1, e2, e3⟩
      · exact Or.inl e
      · exact Or.inr ⟨by omega, e2 hn, e3⟩
    · intro d hd hid
      have := hdels d hd hid; omega
    · intro res hres
      exact fun e => hch.rsid res hres c (List.mem_cons_self ..) e.symm
    · intro x hx _ hxgt
      rcases hch.lt_upd hc x hx hxgt with a | a
      · exact Or.inl a
      · exact Or.inr (by omega)
  rw [← hrev] at hIp
  have hCp : JChOK S (r2.preUpdate c.obj c.rev) (r.results ++ [(c.obj, c.obj, c.rev, c.obj.sid, r.isFailing c.obj.id)]) cs := by
    refine hch.tail_upd hc (p1.trans q1) (p2.trans q2) (p3.trans q3) (by rw [p4, q4]) (p5.trans q5) (p8.trans q8) ?_
    intro res hres
    rcases List.mem_append.1 hres with a | a
    · exact Or.inl a
    · simp only [List.mem_singleton] at a
      rw [a]; exact Or.inr rfl
  -- the writes land
  have hsafe : InjSafe (r2.preUpdate c.obj c.rev) (r2.injects.filter (fun (a : Nat × Inject) => a.1 = c.obj.id)) :=
    (injSafe_of_tbl r2 _ p1 p3 p2 p8 _).2 hs
  have hI := hIp.landAll _ hsafe
  have hC := hCp.landAll (r2.injects.filter (fun (a : Nat × Inject) => a.1 = c.obj.id))
  have hW := frameW_landAll (r2.injects.filter (fun (a : Nat × Inject) => a.1 = c.obj.id)) (r2.preUpdate c.obj c.rev)
  have hG := grow_landAll (r2.injects.filter (fun (a : Nat × Inject) => a.1 = c.obj.id)) (r2.preUpdate c.obj c.rev)
  rw [← hr'] at hI hC hW hG
  have hres : r'.results = r.results ++ [(c.obj, c.obj, c.rev, c.obj.sid, r.isFailing c.obj.id)] := by
    rw [hW.results, p9, q9]
  rw [hres]
  refine ⟨hI, hC, ⟨?_, ?_, ?_, ?_, ?_, ?_⟩, ?_⟩
  · rw [hW.refreshedAt, p6, q6]
  · rw [hW.pending, p10, q10.1]
  · rw [hW.cfg, p11, q10.2.1]
  · rw [hW.now, p12, q10.2.2.1]
  · rw [hW.failing, p13, q10.2.2.2.1]
  · exact (Grow.of_eq (p1.trans q1) (p2.trans q2) (p3.trans q3) (p8.trans q8)).trans hG
  · rw [hW.numReconciled, p14, q10.2.2.2.2]

/-- `consume` processes a deletion (fresh or stale) -/
theorem JInv.consume_del {S : Nat} {r : R} {c : Change} {cs : List Change} (h : JInv r r.results)
    (hch : JChOK S r r.results (c :: cs)) (hc : c.deleted = true) :
    let r' := (R.retryClear { r with itDelRev := c.rev } c.obj.id).processSingle c.obj c.rev true
    JInv r' r'.results ∧ JChOK S r' r'.results cs ∧ FrameCJ r r' ∧ r'.numReconciled = r.numReconciled := by
  intro r'
  obtain ⟨hgt, hcS, hdd, hlive, hex⟩ := hch.del c (List.mem_cons_self ..) hc
  have hS := hch.bnd
  have hr' : r' = (R.retryClear { r with itDelRev := c.rev } c.obj.id).processSingle c.obj c.rev true := rfl
  rw [processSingle_delete] at hr'
  have hfail : (R.retryClear { r with itDelRev := c.rev } c.obj.id).isFailing c.obj.id = r.isFailing c.obj.id := by
    unfold R.isFailing; rw [retryClear_failing]
  rw [hfail] at hr'
  have hfacts : r'.objs = r.objs ∧ r'.dels = r.dels ∧ r'.tableRev = r.tableRev ∧ r'.itRev = r.itRev ∧ r'.itDelRev = c.rev ∧
      r'.refreshedAt = r.refreshedAt ∧
      r'.log = r.log ++ [⟨"D", c.obj.id, c.obj.data, !(r.isFailing c.obj.id)⟩] ∧ r'.nextSid = r.nextSid ∧
      r'.results = r.results ∧
      r'.pending = r.pending ∧ r'.cfg = r.cfg ∧ r'.now = r.now ∧ r'.failing = r.failing ∧ r'.numReconciled = r.numReconciled := by
    rw [hr']
    cases r.isFailing c.obj.id <;> simp
  obtain ⟨f1, f2, f3, f4, f5, f6, f8, f9, f10, f11, f12, f13, f14, f15⟩ := hfacts
  have hitems : ∃ tail : List Item, r'.items = r.items.filter (·.id ≠ c.obj.id) ++ tail ∧
      (∀ it ∈ tail, it.id = c.obj.id ∧ it.obj.id = c.obj.id ∧ it.delete = true ∧ it.inQueue = true) ∧
      tail.Pairwise (fun a b => a.id ≠ b.id) ∧ (r.isFailing c.obj.id = true → tail ≠ []) ∧ (r.isFailing c.obj.id = false → tail = []) := by
    rw [hr']
    cases hf : r.isFailing c.obj.id
    · refine ⟨[], ?_, by simp, by simp, by simp, by simp⟩
      simp [retryClear_items]
    · obtain ⟨itn, hn, n1, n2, n3, n4, n5, n6, _⟩ := retryAdd_items'
        { (R.retryClear { r with itDelRev := c.rev } c.obj.id) with
          log := (R.retryClear { r with itDelRev := c.rev } c.obj.id).log ++ [⟨"D", c.obj.id, c.obj.data, false⟩] } c.obj c.rev c.rev true
      refine ⟨[itn], ?_, ?_, by simp, by simp, by simp⟩
      · simp only [if_true]
        rw [hn]
        simp [retryClear_items]
      · intro it hit
        simp only [List.mem_singleton] at hit
        rw [hit]
        exact ⟨n1, by rw [n2], n5, n6⟩
  obtain ⟨tail, f7, t1, t2, t3, t4⟩ := hitems
  refine ⟨?_, ?_, ⟨f6, f11, f12, f13, f14, Grow.of_eq f1 f2 f3 f9⟩, f15⟩
  · rw [f10]
    refine h.step_delete c.obj.id (r.isFailing c.obj.id) c.rev _ tail (by omega) (by omega) ?_ (fun cur hcur hid => (hlive cur hcur hid).2) ?_
      ⟨rfl, rfl, rfl⟩ t1 t2 t3 t4 ?_ f1 f2 f3 f4 f5 f6 f7 f8 f9
    · intro x hx hxgt
      rcases hch.lt_del hc x hx hxgt with e | e
      · rw [e]; exact Or.inl rfl
      · exact Or.inr e
    · intro res hres hid
      exact absurd hid.symm (hch.rsid res hres c (List.mem_cons_self ..))
    · intro _
      rcases hex with ⟨d, hd, e⟩ | ⟨cur, hcur, e⟩
      · exact Or.inr ⟨d, hd, e⟩
      · obtain ⟨a1, a2⟩ := hlive cur hcur e
        exact Or.inl (Or.inl ⟨cur, hcur, e, by omega, a2⟩)
  · rw [f10]
    exact hch.tail_del hc f1 f2 f3 f4 f5 f9

/-- the loop over the change stream -/
theorem JInv.consume {S : Nat} (cs : List Change) {r : R} (last : Nat) (h : JInv r r.results) (hch : JChOK S r r.results cs)
    (hs : r.consumeSafe cs) :
    JInv (r.consume cs last).1 (r.consume cs last).1.results ∧
    JChOK S (r.consume cs last).1 (r.consume cs last).1.results (r.consume cs last).2.1 ∧
    FrameCJ r (r.consume cs last).1 ∧
    ((r.consume cs last).1.numReconciled < (r.consume cs last).1.cfg.roundSize → (r.consume cs last).2.1 = []) := by
  induction cs generalizing r last with
  | nil => exact ⟨h, hch, FrameCJ.refl r, fun _ => rfl⟩
  | cons c cs ih =>
    unfold R.consumeSafe at hs
    unfold R.consume
    simp only at hs ⊢
    split
    · -- skipped
      rename_i hskip
      rw [if_pos hskip] at hs
      have hc : c.deleted = false := by simpa using hskip.1
      have hnn : ¬ needs c.obj.kind := by simpa [needs] using hskip.2
      simp only [hc, Bool.false_eq_true, if_false] at hs ⊢
      obtain ⟨hrev, hgt, hcS, _⟩ := hch.upd c (List.mem_cons_self ..) hc
      have hS := hch.bnd
      have h' : JInv { r with itRev := c.rev } r.results := by
        refine h.step_skip c.rev (by omega) ?_ rfl rfl rfl rfl rfl rfl rfl rfl rfl
        intro x hx hxn hxgt
        rcases hch.lt_upd hc x hx hxgt with a | a
        · rw [a] at hxn; exact absurd hxn hnn
        · omega
      have hch' : JChOK S { r with itRev := c.rev } r.results cs :=
        hch.tail_upd hc rfl rfl rfl rfl rfl rfl (fun res hres => Or.inl hres)
      obtain ⟨a, b, c', d⟩ := ih c.rev (r := { r with itRev := c.rev }) h' hch' hs
      have e1 : FrameCJ r { r with itRev := c.rev } := ⟨rfl, rfl, rfl, rfl, rfl, Grow.of_eq rfl rfl rfl rfl⟩
      exact ⟨a, b, e1.trans c', d⟩
    · rename_i hproc
      rw [if_neg hproc] at hs
      obtain ⟨hs1, hs2⟩ := hs
      -- the state after processing `c`
      have hstep : ∃ r1, r1 = ((if c.deleted = true then { r with itDelRev := c.rev } else { r with itRev := c.rev } : R).retryClear c.obj.id).processSingle c.obj c.rev c.deleted ∧
          JInv r1 r1.results ∧ JChOK S r1 r1.results cs ∧ FrameCJ r r1 := by
        refine ⟨_, rfl, ?_⟩
        cases hc : c.deleted with
        | true =>
          simp only [if_true]
          obtain ⟨a, b, c', _⟩ := h.consume_del hch hc
          exact ⟨a, b, c'⟩
        | false =>
          have hn : needs c.obj.kind := by
            rw [hc] at hproc
            simp only [Bool.not_false, true_and, Bool.not_eq_eq_eq_not, Bool.not_true, decide_eq_false_iff_not] at hproc
            exact Classical.not_not.1 hproc
          simp only [Bool.false_eq_true, if_false]
          have hs1' := hs1 hc
          simp only [hc, Bool.false_eq_true, if_false] at hs1'
          obtain ⟨a, b, c', _⟩ := h.consume_upd hch hc hn hs1'
          exact ⟨a, b, c'⟩
      obtain ⟨r1, hr1, hI, hC, hF⟩ := hstep
      rw [← hr1] at hs2 ⊢
      split
      · rename_i hfull
        refine ⟨hI.congr rfl rfl rfl rfl rfl rfl rfl rfl rfl, ⟨hC.bnd, hC.upd, hC.del, hC.sorted, hC.ids, hC.covO, hC.covD, hC.rsid⟩, ?_, ?_⟩
        · have e1 : FrameCJ r1 { r1 with numReconciled := r1.numReconciled + 1 } := ⟨rfl, rfl, rfl, rfl, rfl, Grow.of_eq rfl rfl rfl rfl⟩
          exact hF.trans e1
        · intro hlt
          simp only at hlt hfull
          omega
      · rename_i hnf
        rw [if_neg hnf] at hs2
        obtain ⟨a, b, c', d⟩ := ih c.rev (r := { r1 with numReconciled := r1.numReconciled + 1 })
          (hI.congr rfl rfl rfl rfl rfl rfl rfl rfl rfl) ⟨hC.bnd, hC.upd, hC.del, hC.sorted, hC.ids, hC.covO, hC.covD, hC.rsid⟩ hs2
        have e1 : FrameCJ r1 { r1 with numReconciled := r1.numReconciled + 1 } := ⟨rfl, rfl, rfl, rfl, rfl, Grow.of_eq rfl rfl rfl rfl⟩
        exact ⟨a, b, (hF.trans e1).trans c', d⟩

/-! ## due retries -/

/-- no foreign status write that lands during a retried Update hits an Error object (mirrors `R.processRetries`) -/
def R.retriesSafe (r : R) : (fuel : Nat) → Prop
  | 0 => True
  | fuel + 1 =>
    if r.numReconciled ≥ r.cfg.roundSize then True else
    match r.head with
    | none => True
    | some h =>
      if h.retryAt > r.now then True else
      let r1 := r.retryPop
      (h.delete = false → r1.updSafe h.obj) ∧
      (let r2 := r1.processSingle h.obj h.rev h.delete
       R.retriesSafe { r2 with numReconciled := r2.numReconciled + 1 } fuel)

/-- what the retry phase and the status commits leave alone -/
structure FrameRJ (r r' : R) : Prop where
  itRev : r'.itRev = r.itRev
  itDelRev : r'.itDelRev = r.itDelRev
  refreshedAt : r'.refreshedAt = r.refreshedAt
  pending : r'.pending = r.pending
  cfg : r'.cfg = r.cfg
  now : r'.now = r.now
  failing : r'.failing = r.failing
  grow : Grow r r'

theorem FrameRJ.refl (r : R) : FrameRJ r r := ⟨rfl, rfl, rfl, rfl, rfl, rfl, rfl, Grow.refl r⟩

theorem FrameRJ.trans {a b c : R} (h1 : FrameRJ a b) (h2 : FrameRJ b c) : FrameRJ a c :=
  ⟨h2.itRev.trans h1.itRev, h2.itDelRev.trans h1.itDelRev, h2.refreshedAt.trans h1.refreshedAt, h2.pending.trans h1.pending,
   h2.cfg.trans h1.cfg, h2.now.trans h1.now, h2.failing.trans h1.failing, h1.grow.trans h2.grow⟩

theorem jitems_eq_of_id {r : R} {rs : List Res} (h : JInv r rs) {a b : Item} (ha : a ∈ r.items) (hb : b ∈ r.items) (hid : a.id = b.id) : a = b := by
  rcases pairwise_mem_eq h.items_pw ha hb with e | e | e
  · exact e
  · exact absurd hid e
  · exact absurd hid.symm e

/-- a due retry of an Update -/
theorem JInv.retry_update {r : R} (h : JInv r r.results) (it0 : Item) (hh : r.head = some it0)
    (hdel : it0.delete = false) (hs : r.retryPop.updSafe it0.obj) :
    let r' := r.retryPop.processSingle it0.obj it0.rev false
    JInv r' r'.results ∧ FrameRJ r r' ∧ r'.numReconciled = r.numReconciled := by
  intro r'
  obtain ⟨hit0, hq0, _⟩ := head_spec hh
  have hobj := (h.itemOK it0 hit0).1
  have hpop := retryPop_items r it0 hh
  have hr' : r' = r.retryPop.processSingle it0.obj it0.rev false := rfl
  rw [processSingle_update_land] at hr'
  generalize hr2 : r.retryPop = r2 at hr' hs
  have hfail : r2.isFailing it0.obj.id = r.isFailing it0.obj.id := by
    rw [← hr2]; unfold R.isFailing; rw [retryPop_failing]
  obtain ⟨p1, p2, p3, p4, p5, p6, p7, p8, p9, p10, p11, p12, p13, p14, p15, p16⟩ := preUpdate_facts r2 it0.obj it0.rev
  rw [hfail] at p7 p9 p16
  have q1 : r2.objs = r.objs := by rw [← hr2]; simp
  have q2 : r2.dels = r.dels := by rw [← hr2]; simp
  have q3 : r2.tableRev = r.tableRev := by rw [← hr2]; simp
  have q4 : r2.itRev = r.itRev := by rw [← hr2]; simp
  have q5 : r2.itDelRev = r.itDelRev := by rw [← hr2]; simp
  have q6 : r2.refreshedAt = r.refreshedAt := by rw [← hr2]; simp
  have q7 : r2.log = r.log := by rw [← hr2]; simp
  have q8 : r2.nextSid = r.nextSid := by rw [← hr2]; simp
  have q9 : r2.results = r.results := by rw [← hr2]; simp
  have q10 : r2.pending = r.pending ∧ r2.cfg = r.cfg ∧ r2.now = r.now ∧ r2.failing = r.failing ∧ r2.numReconciled = r.numReconciled := by
    rw [← hr2]; simp
  have q11 : r2.items = r.items.map fun (i : Item) => if i.id = it0.id then { i with inQueue := false } else i := by
    rw [← hr2]; exact hpop
  have hIp : JInv (r2.preUpdate it0.obj it0.rev) (r.results ++ [(it0.obj, it0.obj, it0.rev, it0.obj.sid, r.isFailing it0.obj.id)]) := by
    refine h.step_retry_update it0 (r.isFailing it0.obj.id) hit0 hq0 hdel ?_ ?_ ?_
      (p1.trans q1) (p2.trans q2) (p3.trans q3) (p4.trans q4) (p5.trans q5) (p6.trans q6) (by rw [p7, q7]) (p8.trans q8)
    · intro it hit
      rw [p16, q11] at hit
      cases hf : r.isFailing it0.obj.id with
      | true =>
        rw [hf] at hit
        simp only [if_true, List.mem_map] at hit
        obtain ⟨i, hi, rfl⟩ := hit
        by_cases hid : i.id = it0.id
        · right
          rw [jitems_eq_of_id h hi hit0 hid]; simp
        · left; simp [hid, hi]
      | false =>
        rw [hf] at hit
        simp only [Bool.false_eq_true, if_false] at hit
        rw [hobj, filter_map_pop] at hit
        left
        simpa using hit
    · intro it hit hid
      rw [p16, q11]
      cases hf : r.isFailing it0.obj.id with
      | true =>
        simp only [if_true, List.mem_map]
        exact ⟨it, hit, by simp [hid]⟩
      | false =>
        simp only [Bool.false_eq_true, if_false]
        rw [hobj, filter_map_pop]
        simp [hit, hid]
    · rw [p16, q11]
      have hmp : (r.items.map fun (i : Item) => if i.id = it0.id then { i with inQueue := false } else i).Pairwise (fun a b => a.id ≠ b.id) := by
        rw [List.pairwise_map]
        refine h.items_pw.imp ?_
        intro a b hab
        split <;> split <;> simpa using hab
      split
      · exact hmp
      · exact hmp.filter _
  have hsafe : InjSafe (r2.preUpdate it0.obj it0.rev) (r2.injects.filter (fun (a : Nat × Inject) => a.1 = it0.obj.id)) :=
    (injSafe_of_tbl r2 _ p1 p3 p2 p8 _).2 hs
  have hI := hIp.landAll _ hsafe
  have hW := frameW_landAll (r2.injects.filter (fun (a : Nat × Inject) => a.1 = it0.obj.id)) (r2.preUpdate it0.obj it0.rev)
  have hG := grow_landAll (r2.injects.filter (fun (a : Nat × Inject) => a.1 = it0.obj.id)) (r2.preUpdate it0.obj it0.rev)
  rw [← hr'] at hI hW hG
  have hres : r'.results = r.results ++ [(it0.obj, it0.obj, it0.rev, it0.obj.sid, r.isFailing it0.obj.id)] := by
    rw [hW.results, p9, q9]
  rw [hres]
  refine ⟨hI, ⟨?_, ?_, ?_, ?_, ?_, ?_, ?_, ?_⟩, ?_⟩
  · rw [hW.itRev, p4, q4]
  · rw [hW.itDelRev, p5, q5]
  · rw [hW.refreshedAt, p6, q6]
  · rw [hW.pending, p10, q10.1]
  · rw [hW.cfg, p11, q10.2.1]
  · rw [hW.now, p12, q10.2.2.1]
  · rw [hW.failing, p13, q10.2.2.2.1]
  · exact (Grow.of_eq (p1.trans q1) (p2.trans q2) (p3.trans q3) (p8.trans q8)).trans hG
  · rw [hW.numReconciled, p14, q10.2.2.2.2]

/-- a due retry of a Delete -/
theorem JInv.retry_delete {r : R} {rs : List Res} (h : JInv r rs) (it0 : Item) (hh : r.head = some it0)
    (hdel : it0.delete = true) : JInv (r.retryPop.processSingle it0.obj it0.rev true) rs := by
  obtain ⟨hit0, hq0, _⟩ := head_spec hh
  obtain ⟨hobj, hcase, _, _⟩ := h.itemOK it0 hit0
  have hitems : ∀ X, X = it0.id → r.retryPop.items.filter (·.id ≠ X) = r.items.filter (·.id ≠ X) := by
    intro X hX
    rw [retryPop_items r it0 hh, hX]; exact filter_map_pop _ _
  have huniq : ∀ it ∈ r.items, it.id = it0.id → it = it0 := fun it hit hid => jitems_eq_of_id h hit hit0 hid
  have hnores : ∀ res ∈ rs, res.1.id = it0.id → ∀ cur ∈ r.objs, cur.id = it0.id → ¬ ResLive res cur := by
    intro res hres hid cur hcur hcid hlive
    have := ((h.resOK res hres).2.2.2.2 cur hcur (by omega) hlive).2.2.2 it0 hit0 hid.symm
    rw [hq0] at this; cases this.1
  have hlive : ∀ cur ∈ r.objs, cur.id = it0.id → needs cur.kind := by
    intro cur hcur hcid
    obtain ⟨a, b, _⟩ := h.objOK cur hcur
    cases hk : cur.kind with
    | pending => exact Or.inl rfl
    | refreshing => exact Or.inr rfl
    | done => exact absurd hcid.symm ((a hk).2 it0 hit0)
    | error =>
      exfalso
      rcases b hk with ⟨it, hit, b1, b2, _⟩ | ⟨res, hres, e1, e2⟩
      · rw [huniq it hit (by omega), hdel] at b2; cases b2
      · exact hnores res hres (by omega) cur hcur hcid (Or.inl e2.symm)
  have hjust : Stale r.objs r.dels r.itRev r.itDelRev it0.id ∨ ∃ d ∈ r.dels, d.1.id = it0.id := by
    rcases hcase with a | a | a
    · exact Or.inl a
    · exact Or.inr a.2
    · rw [hdel] at a; cases a.1
  rw [processSingle_delete]
  simp only [isFailing_retryPop]
  split
  · rename_i hf
    obtain ⟨itn, hn, n1, n2, n3, n4, n5, n6, _⟩ := retryAdd_items' { r.retryPop with log := r.retryPop.log ++ [⟨"D", it0.obj.id, it0.obj.data, false⟩] } it0.obj it0.rev it0.rev true
    refine h.step_delete it0.id true r.itDelRev ⟨"D", it0.obj.id, it0.obj.data, false⟩ [itn] (Nat.le_refl _) h.tinv.itd_le
      (fun x _ hx => Or.inr hx) hlive hnores ⟨hobj, rfl, rfl⟩ ?_ (by simp) (by simp) (by simp) (fun _ => hjust)
      (by simp) (by simp) (by simp) (by simp) (by simp) (by simp) ?_ (by simp) (by simp)
    · intro it hit
      simp only [List.mem_singleton] at hit
      subst hit
      exact ⟨by omega, by rw [n2]; omega, n5, n6⟩
    rw [hn]
    simp only
    rw [hitems _ hobj, hobj]
  · refine h.step_delete it0.id false r.itDelRev ⟨"D", it0.obj.id, it0.obj.data, true⟩ [] (Nat.le_refl _) h.tinv.itd_le
      (fun x _ hx => Or.inr hx) hlive hnores ⟨hobj, rfl, rfl⟩ (by simp) (by simp) (by simp) (by simp) (fun e => by cases e)
      (by simp) (by simp) (by simp) (by simp) (by simp) (by simp) ?_ (by simp) (by simp)
    rw [retryClear_items, List.append_nil]
    simp only
    rw [hitems _ hobj, hobj]

theorem processSingle_delete_frame (r : R) (obj : RObj) (rev : Nat) :
    FrameRJ r (r.processSingle obj rev true) ∧ (r.processSingle obj rev true).numReconciled = r.numReconciled ∧
    (r.processSingle obj rev true).results = r.results := by
  rw [processSingle_delete]
  split
  · exact ⟨⟨rfl, rfl, rfl, rfl, rfl, rfl, rfl, Grow.of_eq rfl rfl rfl rfl⟩, rfl, rfl⟩
  · exact ⟨⟨by simp, by simp, by simp, by simp, by simp, by simp, by simp, Grow.of_eq (by simp) (by simp) (by simp) (by simp)⟩, by simp, by simp⟩

/-- `processRetries` preserves the invariant -/
theorem JInv.processRetries (fuel : Nat) {r : R} (h : JInv r r.results) (hs : r.retriesSafe fuel) :
    JInv (r.processRetries fuel) (r.processRetries fuel).results ∧ FrameRJ r (r.processRetries fuel) := by
  induction fuel generalizing r with
  | zero => exact ⟨h, FrameRJ.refl r⟩
  | succ n ih =>
    unfold R.retriesSafe at hs
    unfold R.processRetries
    split
    · exact ⟨h, FrameRJ.refl r⟩
    · rename_i hlt
      rw [if_neg hlt] at hs
      split
      · exact ⟨h, FrameRJ.refl r⟩
      · rename_i it0 hh
        rw [hh] at hs
        simp only at hs
        split
        · exact ⟨h, FrameRJ.refl r⟩
        · rename_i hdue
          rw [if_neg hdue] at hs
          obtain ⟨hs1, hs2⟩ := hs
          have hstep : JInv (r.retryPop.processSingle it0.obj it0.rev it0.delete) (r.retryPop.processSingle it0.obj it0.rev it0.delete).results ∧
              FrameRJ r (r.retryPop.processSingle it0.obj it0.rev it0.delete) := by
            cases hdel : it0.delete with
            | false =>
              obtain ⟨a, b, _⟩ := h.retry_update it0 hh hdel (hs1 hdel)
              exact ⟨a, b⟩
            | true =>
              obtain ⟨a, _, c⟩ := processSingle_delete_frame r.retryPop it0.obj it0.rev
              have hp : FrameRJ r r.retryPop :=
                ⟨by simp, by simp, by simp, by simp, by simp, by simp, by simp, Grow.of_eq (by simp) (by simp) (by simp) (by simp)⟩
              refine ⟨?_, hp.trans a⟩
              rw [c, retryPop_results]
              exact h.retry_delete it0 hh hdel
          obtain ⟨hI, hF⟩ := hstep
          dsimp only
          generalize r.retryPop.processSingle it0.obj it0.rev it0.delete = ps at hI hF hs2 ⊢
          have := ih (r := { ps with numReconciled := ps.numReconciled + 1 })
            (hI.congr rfl rfl rfl rfl rfl rfl rfl rfl rfl) hs2
          have hmid : FrameRJ ps { ps with numReconciled := ps.numReconciled + 1 } :=
            ⟨rfl, rfl, rfl, rfl, rfl, rfl, rfl, Grow.of_eq rfl rfl rfl rfl⟩
          exact ⟨this.1, (hF.trans hmid).trans this.2⟩

/-! ## one round -/

/-- no foreign status write lands on an Error object during the retry phase of the round's tail -/
def R.tailSafe (r3 : R) : Prop := r3.commitStatus.retriesSafe (r3.commitStatus.items.length + 1)

/-- **the hypothesis on foreign status writes (known finding K4), for one round:**
    whenever a `touch` queued in `r.injects` lands during this round (from inside
    an Update of the change loop or of the retry loop), the object it lands on is
    not in Error state at that moment -/
def R.roundSafe (r : R) : Prop :=
  r.nextChanges.1.consumeSafe r.nextChanges.2 ∧
  R.tailSafe { (r.nextChanges.1.consume r.nextChanges.2 0).1 with
      pending := if r.nextChanges.2.isEmpty ∧ (r.nextChanges.1.consume r.nextChanges.2 0).1.pending.isNone then none else
        if ((r.nextChanges.1.consume r.nextChanges.2 0).2.1.isEmpty ∧
            (r.nextChanges.1.consume r.nextChanges.2 0).1.numReconciled < (r.nextChanges.1.consume r.nextChanges.2 0).1.cfg.roundSize) then none
        else some (r.nextChanges.1.consume r.nextChanges.2 0).2.1 }

/-- the invariant of the states between rounds (writes may land during Updates) -/
structure JRInv (r : R) : Prop where
  inv : JInv r []
  res : r.results = []
  num : r.numReconciled = 0
  sync : Sync r

theorem JInv.cast_results {x : R} {A : List Res} (e : x.results = A) (hx : JInv x A) : JInv x x.results := by
  rw [e]; exact hx

theorem JInv.set_refreshedAt {r : R} {rs : List Res} (h : JInv r rs) (v : Nat) (hv : v ≤ r.tableRev) :
    JInv { r with refreshedAt := v } rs :=
  ⟨⟨h.tinv.objs_pw, h.tinv.dels_pw, h.tinv.disj, h.tinv.objs_le, h.tinv.dels_le, h.tinv.it_le, h.tinv.itd_le, hv⟩,
    h.items_pw, h.objOK, h.delOK, h.itemOK, h.resOK, h.sidO⟩

theorem commitStatus_frameRJ (r : R) : FrameRJ r r.commitStatus := by
  obtain ⟨r', hR, he⟩ := commitStatus_rel r
  have hg := commitStatus_grow r
  rw [he] at hg ⊢
  exact ⟨hR.itRev, hR.itDelRev, hR.refreshedAt, hR.pending, hR.cfg, hR.now, hR.failing, hg⟩

theorem roundTail_jinv {r3 : R} (last : Nat) (hI3 : JInv r3 r3.results) (hs : r3.tailSafe) :
    JInv (roundTail r3 last) [] ∧ (roundTail r3 last).results = [] ∧ (roundTail r3 last).numReconciled = 0 ∧
    FrameRJ r3 (roundTail r3 last) := by
  unfold roundTail
  unfold R.tailSafe at hs
  dsimp only
  have hI4 := hI3.commitStatus
  have hF4 := commitStatus_frameRJ r3
  have hres4 := commitStatus_results r3
  generalize r3.commitStatus = r4 at hI4 hF4 hres4 hs ⊢
  rw [← hres4] at hI4
  obtain ⟨hI5, hF5⟩ := hI4.processRetries (r4.items.length + 1) hs
  generalize r4.processRetries (r4.items.length + 1) = r5 at hI5 hF5 ⊢
  have hI6 := hI5.commitStatus
  have hF6 := commitStatus_frameRJ r5
  have hres6 := commitStatus_results r5
  generalize r5.commitStatus = r6 at hI6 hF6 hres6 ⊢
  have hF := (hF4.trans hF5).trans hF6
  refine ⟨hI6.congr rfl rfl rfl rfl rfl rfl rfl rfl rfl, hres6, rfl, ?_⟩
  exact ⟨hF.itRev, hF.itDelRev, hF.refreshedAt, hF.pending, hF.cfg, hF.now, hF.failing,
    ⟨hF.grow.tableRev, hF.grow.nextSid, hF.grow.objs, hF.grow.dels⟩⟩

theorem nextChanges_refreshed (r : R) : r.nextChanges.1.refreshedAt = r.nextChanges.1.tableRev := by
  unfold R.nextChanges
  split
  · rename_i h; exact h.2
  · rfl

/-- one reconciliation round preserves the invariant, whatever writes land during its Updates -/
theorem JRInv.round {r : R} (h : JRInv r) (hs : r.roundSafe) : JRInv r.round := by
  rw [round_eq']
  unfold R.roundSafe at hs
  -- Next
  have hnc : JInv r.nextChanges.1 r.nextChanges.1.results ∧ r.nextChanges.1.results = [] := by
    rcases nextChanges_fst r with e | e <;> rw [e]
    · exact ⟨JInv.cast_results h.res h.inv, h.res⟩
    · exact ⟨JInv.cast_results h.res (h.inv.set_refreshedAt _ (Nat.le_refl _)), h.res⟩
  have hch0 := chOK_nextChanges h.inv.tinv h.sync
  have href := nextChanges_refreshed r
  generalize r.nextChanges = nc at hnc hch0 hs href ⊢
  obtain ⟨hI1, hres1⟩ := hnc
  have hch : JChOK nc.1.tableRev nc.1 nc.1.results nc.2 := by
    rw [hres1]; exact JChOK.ofChOK hch0 hI1.tinv hI1.sidO
  obtain ⟨hs1, hs2⟩ := hs
  -- consume
  obtain ⟨hI2, hC2, hF2, hfull⟩ := hI1.consume nc.2 0 hch hs1
  have hrest : (nc.2 = [] → (nc.1.consume nc.2 0).2.1 = []) := by
    intro e; rw [e, consume_nil]
  generalize nc.1.consume nc.2 0 = co at hI2 hC2 hF2 hfull hrest hs2 ⊢
  -- the pending flag
  generalize hp : (if nc.2.isEmpty ∧ co.1.pending.isNone then none else
      if (co.2.1.isEmpty ∧ co.1.numReconciled < co.1.cfg.roundSize) then none else some co.2.1 : Option (List Change)) = pend at hs2 ⊢
  have hpend : pend = none → co.2.1 = [] := by
    intro e
    rw [← hp] at e
    split at e
    · rename_i h1; exact hrest (by simpa using h1.1)
    · split at e
      · rename_i h1; simpa using h1.1
      · cases e
  have hI3 : JInv { co.1 with pending := pend } ({ co.1 with pending := pend } : R).results :=
    hI2.congr rfl rfl rfl rfl rfl rfl rfl rfl rfl
  obtain ⟨hI, hres, hnum, hT⟩ := roundTail_jinv co.2.2 hI3 hs2
  refine ⟨hI, hres, hnum, ?_⟩
  intro hpn
  rw [hT.pending] at hpn
  have hr := hpend hpn
  rw [hT.itRev, hT.itDelRev, hT.refreshedAt]
  have e1 : ({ co.1 with pending := pend } : R).refreshedAt = nc.1.tableRev := by
    rw [← href]; exact hF2.refreshedAt
  have e2 : nc.1.tableRev ≤ ({ co.1 with pending := pend } : R).tableRev := hC2.bnd.2.2
  rw [e1]
  refine ⟨fun o ho => ?_, fun d hd => ?_⟩
  · rcases hT.grow.objs o ho with a | a
    · rcases hC2.covO o a with b | b | ⟨c, hc, _⟩
      · exact Or.inl b
      · exact Or.inr b
      · rw [hr] at hc; cases hc
    · right; omega
  · rcases hT.grow.dels d hd with a | a
    · rcases hC2.covD d a with b | b | ⟨c, hc, _⟩
      · exact Or.inl b
      · exact Or.inr b
      · rw [hr] at hc; cases hc
    · right; omega

end Sdb.Rec
