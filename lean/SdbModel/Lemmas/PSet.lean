import SdbModel.Lemmas.PMap

/-!
  Lemmas for C17, part 3: `part.Set` (`Model.PMap.PSet`) refines the strictly
  ascending list of its elements.  Invariant `SetWF` (the tree, if allocated,
  is `TreeWF`; an allocated tree MAY be empty: `UnmarshalYAML []`, `Difference`),
  preservation by every operation and the reference meaning of each.
  Core Lean only.
-/
namespace Sdb.PMap
open Sdb.Art

def SetWF (s : PSet) : Prop := ∀ t, s.tree = some t → TreeWF t

theorem setWF_empty : SetWF {} := fun t h => by simp at h

theorem setWF_tree (t : Tree) (h : TreeWF t) : SetWF { tree := some t } :=
  fun t' h' => by simp at h'; rw [← h']; exact h

theorem SetWF.cases {s : PSet} (h : SetWF s) : s = {} ∨ ∃ t, s = { tree := some t } ∧ TreeWF t := by
  obtain ⟨t⟩ := s
  cases t with
  | none => exact Or.inl rfl
  | some t => exact Or.inr ⟨t, rfl, h t rfl⟩

/-! ### reads -/

theorem pset_all_ksorted (s : PSet) (h : SetWF s) : KSorted s.all := by
  rcases h.cases with rfl | ⟨t, rfl, ht⟩
  · simp [PSet.all, KSorted]
  · exact ksorted_keys _ (allRoot_sorted _ ht.1)

theorem pset_has_iff (s : PSet) (h : SetWF s) (k : List Nat) : s.has k = true ↔ k ∈ s.all := by
  rcases h.cases with rfl | ⟨t, rfl, ht⟩
  · simp [PSet.all, PSet.has]
  · simp only [PSet.has, PSet.all]
    rw [getRoot_look _ ht.1, mem_keys_iff_look]

theorem pset_len_length (s : PSet) (h : SetWF s) : s.len = s.all.length := by
  rcases h.cases with rfl | ⟨t, rfl, ht⟩
  · rfl
  · simp only [PSet.len, PSet.all, List.length_map]; exact ht.2

/-! ### the insertion / deletion loops -/

theorem foldl_insK (P : ArtParams) (ks : List (List Nat)) (x : Txn) (h : TxnWF x) :
    TxnWF (ks.foldl (fun x k => insT P x k 0) x) ∧
    ∀ q, q ∈ (allRoot (ks.foldl (fun x k => insT P x k 0) x).root).map (·.1) ↔
      q ∈ ks ∨ q ∈ (allRoot x.root).map (·.1) := by
  have e : ks.foldl (fun x k => insT P x k 0) x =
      (ks.map (fun k => ((k, 0) : KV))).foldl (fun x (e : KV) => insT P x e.1 e.2) x := by
    rw [List.foldl_map]
  rw [e]
  obtain ⟨h1, h2⟩ := foldl_insT P (ks.map (fun k => ((k, 0) : KV))) x h
  refine ⟨h1, ?_⟩
  intro q
  rw [h2, keys_sinsertAll, map_fst_pair]

theorem foldl_insE (P : ArtParams) (es : List KV) (x : Txn) :
    es.foldl (fun x (k, _) => insT P x k 0) x = (es.map (·.1)).foldl (fun x k => insT P x k 0) x := by
  rw [List.foldl_map]

theorem foldl_delK (P : ArtParams) (ks : List (List Nat)) (x : Txn) (h : TxnWF x) :
    TxnWF (ks.foldl (fun x k => (x.delete P k).1) x) ∧
    allRoot (ks.foldl (fun x k => (x.delete P k).1) x).root = sdeleteAll (allRoot x.root) ks := by
  induction ks generalizing x with
  | nil => exact ⟨h, rfl⟩
  | cons k ks ih =>
    have := ih _ (delT_wf P x k h)
    rw [delT_all P x k h] at this
    exact this

theorem foldl_delE (P : ArtParams) (es : List KV) (x : Txn) :
    es.foldl (fun x (k, _) => (x.delete P k).1) x = (es.map (·.1)).foldl (fun x k => (x.delete P k).1) x := by
  rw [List.foldl_map]

/-! ### constructors and updates -/

theorem pset_ofList_spec (P : ArtParams) (vs : List (List Nat)) :
    SetWF (PSet.ofList P vs) ∧ ∀ q, q ∈ (PSet.ofList P vs).all ↔ q ∈ vs := by
  cases vs with
  | nil => exact ⟨setWF_empty, fun q => by simp [PSet.ofList, PSet.all]⟩
  | cons v vs =>
    obtain ⟨h1, h2⟩ := foldl_insK P (v :: vs) _ (txnOf_wf _ emptyTree_wf)
    refine ⟨setWF_tree _ (commitT_wf _ h1), ?_⟩
    intro q
    have := h2 q
    simp only [txnOf_all, emptyTree_all, List.map_nil, List.not_mem_nil, or_false] at this
    exact this

theorem pset_ofYAML_spec (P : ArtParams) (vs : List (List Nat)) :
    SetWF (PSet.ofYAML P vs) ∧ ∀ q, q ∈ (PSet.ofYAML P vs).all ↔ q ∈ vs := by
  obtain ⟨h1, h2⟩ := foldl_insK P vs _ (txnOf_wf _ emptyTree_wf)
  refine ⟨setWF_tree _ (commitT_wf _ h1), ?_⟩
  intro q
  have := h2 q
  simp only [txnOf_all, emptyTree_all, List.map_nil, List.not_mem_nil, or_false] at this
  exact this

theorem pset_ofJSON_spec (P : ArtParams) (vs : List (List Nat)) :
    SetWF (PSet.ofJSON P vs) ∧ ∀ q, q ∈ (PSet.ofJSON P vs).all ↔ q ∈ vs := by
  obtain ⟨h1, h2⟩ := foldl_insK P vs _ (txnOf_wf _ emptyTree_wf)
  simp only [txnOf_all, emptyTree_all, List.map_nil, List.not_mem_nil, or_false] at h2
  unfold PSet.ofJSON
  simp only
  split
  · rename_i hz
    refine ⟨setWF_empty, ?_⟩
    intro q
    rw [commitT_size, h1.2] at hz
    have hnil := List.eq_nil_of_length_eq_zero hz
    have := h2 q
    rw [hnil] at this
    simpa [PSet.all] using this
  · exact ⟨setWF_tree _ (commitT_wf _ h1), h2⟩

theorem pset_set_spec (P : ArtParams) (s : PSet) (h : SetWF s) (k : List Nat) :
    SetWF (s.set P k) ∧ ∀ q, q ∈ (s.set P k).all ↔ q = k ∨ q ∈ s.all := by
  have hw : TreeWF (s.tree.getD emptyTree) := by
    rcases h.cases with rfl | ⟨t, rfl, ht⟩
    · exact emptyTree_wf
    · exact ht
  have ha : (allRoot (s.tree.getD emptyTree).root).map (·.1) = s.all := by
    rcases h.cases with rfl | ⟨t, rfl, ht⟩ <;> rfl
  have h0 := txnOf_wf _ hw
  refine ⟨setWF_tree _ (commitT_wf _ (insT_wf P _ k 0 h0)), ?_⟩
  intro q
  show q ∈ (allRoot (commitT _).root).map (·.1) ↔ _
  rw [commitT_all, insT_all P _ k 0 h0, keys_sinsert, txnOf_all, ha]

theorem pset_delete_spec (P : ArtParams) (s : PSet) (h : SetWF s) (k : List Nat) :
    SetWF (s.delete P k) ∧ (s.delete P k).all = s.all.filter (fun q => decide (q ≠ k)) := by
  rcases h.cases with rfl | ⟨t, rfl, ht⟩
  · exact ⟨setWF_empty, rfl⟩
  · have h0 := txnOf_wf _ ht
    have h1 := delT_wf P _ k h0
    have h2 := delT_all P _ k h0
    simp only [PSet.delete]
    split
    · rename_i hz
      refine ⟨setWF_empty, ?_⟩
      rw [commitT_size, h1.2] at hz
      have hnil := List.eq_nil_of_length_eq_zero hz
      show [] = List.filter _ ((allRoot t.root).map (·.1))
      rw [← keys_sdelete, ← txnOf_all t, ← h2, hnil]; rfl
    · refine ⟨setWF_tree _ (commitT_wf _ h1), ?_⟩
      show (allRoot (commitT _).root).map (·.1) = List.filter _ ((allRoot t.root).map (·.1))
      rw [commitT_all, h2, keys_sdelete]; rfl

theorem pset_union_spec (P : ArtParams) (s s2 : PSet) (h : SetWF s) (h2 : SetWF s2) :
    SetWF (s.union P s2) ∧ ∀ q, q ∈ (s.union P s2).all ↔ q ∈ s.all ∨ q ∈ s2.all := by
  rcases h2.cases with rfl | ⟨t2, rfl, ht2⟩
  · have : s.union P {} = s := by unfold PSet.union; rfl
    rw [this]; exact ⟨h, fun q => by simp [PSet.all]⟩
  · rcases h.cases with rfl | ⟨t, rfl, ht⟩
    · have : PSet.union P {} { tree := some t2 } = { tree := some t2 } := rfl
      rw [this]; exact ⟨h2, fun q => by simp [PSet.all]⟩
    · have e : PSet.union P { tree := some t } { tree := some t2 } =
          { tree := some (commitT (((allRoot t2.root).map (·.1)).foldl (fun x k => insT P x k 0) (txnOf t))) } := by
        simp only [PSet.union, foldl_insE]
      obtain ⟨h3, h4⟩ := foldl_insK P ((allRoot t2.root).map (·.1)) _ (txnOf_wf _ ht)
      rw [e]
      refine ⟨setWF_tree _ (commitT_wf _ h3), ?_⟩
      intro q
      show q ∈ (allRoot (commitT _).root).map (·.1) ↔ _
      rw [commitT_all, h4 q, txnOf_all]
      exact Or.comm

theorem pset_difference_spec (P : ArtParams) (s s2 : PSet) (h : SetWF s) (h2 : SetWF s2) :
    SetWF (s.difference P s2) ∧ (s.difference P s2).all = s.all.filter (fun q => decide (q ∉ s2.all)) := by
  rcases h.cases with rfl | ⟨t, rfl, ht⟩
  · exact ⟨setWF_empty, rfl⟩
  · rcases h2.cases with rfl | ⟨t2, rfl, ht2⟩
    · have : PSet.difference P { tree := some t } {} = { tree := some t } := rfl
      rw [this]
      refine ⟨h, ?_⟩
      exact (List.filter_eq_self.mpr (by simp [PSet.all])).symm
    · have e : PSet.difference P { tree := some t } { tree := some t2 } =
          { tree := some (commitT (((allRoot t2.root).map (·.1)).foldl (fun x k => (x.delete P k).1) (txnOf t))) } := by
        simp only [PSet.difference, foldl_delE]
      obtain ⟨h3, h4⟩ := foldl_delK P ((allRoot t2.root).map (·.1)) _ (txnOf_wf _ ht)
      rw [e]
      refine ⟨setWF_tree _ (commitT_wf _ h3), ?_⟩
      show (allRoot (commitT _).root).map (·.1) = _
      rw [commitT_all, h4, keys_sdeleteAll]; rfl

/-! ### Equal -/

theorem pset_equal_iff (s o : PSet) (h : SetWF s) (h2 : SetWF o) : s.equal o = true ↔ s.all = o.all := by
  have l1 := pset_len_length s h
  have l2 := pset_len_length o h2
  unfold PSet.equal
  split
  · rename_i hn
    simp only [Bool.and_eq_true, Option.isNone_iff_eq_none] at hn
    simp [PSet.all, hn.1, hn.2]
  · split
    · rename_i hl
      simp only [bne_iff_ne, ne_eq] at hl
      simp only [Bool.false_eq_true, false_iff]
      intro e; apply hl; rw [l1, l2, e]
    · simp

end Sdb.PMap
