import SdbModel.Lemmas.ConcInitExact

/-!
  ConcInitStays — "once initialized, a table stays initialized in all later
  snapshots unless a new initializer is registered", between two moments of a run of
  `Model.Conc`: the invariant `StaysK` of the states after a snapshot with revision
  `rev0` of table `x`.  Core Lean only.
-/
namespace Sdb.Conc

/-- committed writers stay committed writers, with the same record, in a micro step -/
theorem sw_fwd (cs : List Bool) (tid : Nat) (a b : State × Thread) (c : Bool) (ctx : MicroCtx cs tid a b c)
    (j : Nat) (T : Thread) (hT : SW (install a.1 tid a.2) cs j T) :
    ∃ T', SW (install b.1 tid b.2) cs j T' ∧ AttrEq T T' := by
  obtain ⟨st, th⟩ := a
  obtain ⟨st', th'⟩ := b
  have htid := ctx.lt
  have hthreads := ctx.threads
  simp only at htid hthreads hT ⊢
  have htid' : tid < st'.threads.length := by rw [hthreads]; exact htid
  have hfr : EffFrame th th' c := ctx.frame
  have hown : (install st tid th).threads[tid]? = some th := by rw [install_get _ _ _ _ htid]; simp
  have hown' : (install st' tid th').threads[tid]? = some th' := by rw [install_get _ _ _ _ htid']; simp
  obtain ⟨h1, h2, h3⟩ := hT
  by_cases hj : j = tid
  · subst hj
    rw [hown] at h1; simp only [Option.some.injEq] at h1; subst h1
    have hu := (stored_facts _ cs _ ctx.ci j th hown h2 h3).1
    obtain ⟨e1, e2⟩ := hfr.written hu
    exact ⟨th', ⟨hown', h2, fun hm => h3 (hfr.sub _ hm)⟩,
      ⟨lockList_congr th th' hfr.tables, hfr.regInit, hfr.markInit, e2, e1⟩⟩
  · refine ⟨T, ⟨?_, h2, h3⟩, AttrEq.refl T⟩
    rw [install_get _ _ _ _ htid', if_neg hj, hthreads]
    rw [install_get _ _ _ _ htid, if_neg hj] at h1
    exact h1

/-- after a snapshot that showed table `x` initialized at revision `rev0`: `x` is still
    initialized, or a writer that committed after the snapshot registered an initializer -/
def StaysK (cs : List Bool) (x rev0 : Nat) (s : State) : Prop :=
  x < s.root.length ∧ rev0 ≤ (getT s.root x).rev ∧
  (Initialized (getT s.root x) ∨
   ∃ (k : Nat) (U : Thread), SW s cs k U ∧ x ∈ lockList U ∧ U.regInit.contains x = true ∧
     rev0 < (getT U.entries x).rev)

theorem StaysK_micro (cs : List Bool) (tid : Nat) (x rev0 : Nat) (a b : State × Thread) (c : Bool)
    (ctx : MicroCtx cs tid a b c) (h : StaysK cs x rev0 (install a.1 tid a.2)) :
    StaysK cs x rev0 (install b.1 tid b.2) := by
  obtain ⟨hx, hrev, hor⟩ := h
  have fwd := sw_fwd cs tid a b c ctx
  have hx0 : x < a.1.root.length := hx
  have hrev0 : rev0 ≤ (getT a.1.root x).rev := hrev
  have hmono := eff_rev_mono a.1 b.1 a.2 b.2 c ctx.eff x hx0
  have carry : (∃ (k : Nat) (U : Thread), SW (install a.1 tid a.2) cs k U ∧ x ∈ lockList U ∧
      U.regInit.contains x = true ∧ rev0 < (getT U.entries x).rev) →
      ∃ (k : Nat) (U : Thread), SW (install b.1 tid b.2) cs k U ∧ x ∈ lockList U ∧
        U.regInit.contains x = true ∧ rev0 < (getT U.entries x).rev := by
    rintro ⟨k, U, hU, hxU, hr, hlt⟩
    obtain ⟨U', hU', e⟩ := fwd k U hU
    exact ⟨k, U', hU', by rw [e.ll]; exact hxU, by rw [e.reg]; exact hr, by rw [e.ent]; exact hlt⟩
  have same : b.1.root = a.1.root → StaysK cs x rev0 (install b.1 tid b.2) := by
    intro hr
    refine ⟨by show x < b.1.root.length; rw [hr]; exact hx0, by show rev0 ≤ (getT b.1.root x).rev; rw [hr]; exact hrev0, ?_⟩
    rcases hor with hi | hw
    · left; show Initialized (getT b.1.root x); rw [hr]; exact hi
    · exact Or.inr (carry hw)
  cases ctx.eff with
  | quiet h1 => exact same h1
  | notify _ h2 => exact same h2
  | closeInit _ h2 => exact same h2
  | register _ _ _ _ h5 =>
    refine ⟨by show x < b.1.root.length; rw [h5]; simp; omega, by show rev0 ≤ (getT b.1.root x).rev; omega, ?_⟩
    rcases hor with hi | hw
    · left; show Initialized (getT b.1.root x); rw [h5, getT_append_left _ _ _ hx0]; exact hi
    · exact Or.inr (carry hw)
  | commit hc _ _ h4 h5 h6 _ h8 =>
    refine ⟨by show x < b.1.root.length; rw [h6]; exact hx0, by show rev0 ≤ (getT b.1.root x).rev; omega, ?_⟩
    rcases hor with hi | hw
    · by_cases hxl : x ∈ lockList a.2
      · obtain ⟨_, ⟨m, hm⟩, g⟩ := (h8 x hx0).1 hxl
        cases hr : a.2.regInit.contains x with
        | false =>
          left
          show Initialized (getT b.1.root x)
          rw [g, hm, hr]
          exact clr_uwEntry_noreg _ _ _ hi
        | true =>
          right
          have hlt : tid < b.1.threads.length := by rw [ctx.threads]; exact ctx.lt
          refine ⟨tid, b.2, ⟨step_thread b.1 tid b.2 hlt, by rw [ctx.flag, hc], h4⟩,
            by rw [lockList_congr a.2 b.2 ctx.frame.tables]; exact hxl, by rw [ctx.frame.regInit]; exact hr, ?_⟩
          rw [(ctx.frame.written h5).2, hm, uwEntry_rev]
          omega
      · left
        show Initialized (getT b.1.root x)
        rw [(h8 x hx0).2 hxl]; exact hi
    · exact Or.inr (carry hw)

theorem StaysK_spawn (st : State) (cs : List Bool) (thn : Thread) (c : Bool) (x rev0 : Nat)
    (hlen : cs.length = st.threads.length) (h : StaysK cs x rev0 st) :
    StaysK (cs ++ [c]) x rev0 { st with threads := st.threads ++ [thn] } := by
  obtain ⟨h1, h2, hor⟩ := h
  refine ⟨h1, h2, ?_⟩
  rcases hor with hi | ⟨k, U, ⟨a1, a2, a3⟩, rest⟩
  · exact Or.inl hi
  · right
    have hlt := lt_of_getElem?_some _ _ _ a1
    refine ⟨k, U, ⟨?_, ?_, a3⟩, rest⟩
    · show (st.threads ++ [thn])[k]? = some U
      rw [List.getElem?_append_left hlt]; exact a1
    · rw [List.getElem?_append_left (by rw [hlen]; exact hlt)]; exact a2

/-- **stays initialized**: from a reachable state `st0` in which table `x` is
    initialized, in every later state `x` is initialized or a writer that committed
    after `st0` registered an initializer on `x` -/
theorem stays_initialized (P : Protocol) (hP : P.initShape = true) (n : Nat) (st0 : State) (cs0 : List Bool)
    (h0 : Reach P n st0 cs0) (st : State) (cs : List Bool) (h : ReachFrom P st0 cs0 st cs) (x : Nat)
    (hx : x < st0.root.length) (hi : Initialized (getT st0.root x)) :
    StaysK cs x (getT st0.root x).rev st := by
  induction h with
  | refl => exact ⟨hx, Nat.le_refl _, Or.inl hi⟩
  | writer st cs tabs commit mi ri hr hb ih =>
    exact StaysK_spawn st cs _ commit x _ (reach_CI P hP n st cs (reach_of_reachFrom P n st0 cs0 h0 st cs hr)).len ih
  | register st cs hr ih =>
    exact StaysK_spawn st cs _ false x _ (reach_CI P hP n st cs (reach_of_reachFrom P n st0 cs0 h0 st cs hr)).len ih
  | registerDup st cs hr ih =>
    exact StaysK_spawn st cs _ false x _ (reach_CI P hP n st cs (reach_of_reachFrom P n st0 cs0 h0 st cs hr)).len ih
  | step st cs tid hr ih =>
    have hreach := reach_of_reachFrom P n st0 cs0 h0 st cs hr
    exact step_preserves st cs tid (reach_sim P (initShape_simShape P hP) n st cs hreach) (reach_CI P hP n st cs hreach)
      (StaysK cs x (getT st0.root x).rev) (fun a b c ctx hk => StaysK_micro cs tid x _ a b c ctx hk) ih

end Sdb.Conc
