import SdbModel.Lemmas.ConcInitHist

/-!
  ConcInitSched — what one SCHEDULER step `Conc.step st tid` does to the committed
  root and to the closed channels, in full detail (all fields of the table
  versions), in every state satisfying the invariants.  Core Lean only.
-/
namespace Sdb.Conc

/-- the committed root after the commit of writer `th`: each of its tables gets the
    version computed from the committed one (`uwEntry`, then `clr`), with some
    channel `n`; every other table is untouched -/
def CommitRoot (root root' : List TableV) (th : Thread) : Prop :=
  root'.length = root.length ∧ ∀ x, x < root.length →
    (x ∈ th.tables → ∃ n, getT root' x =
      clr (uwEntry (th.regInit.contains x) (th.markInit.contains x) n (getT root x))) ∧
    (x ∉ th.tables → getT root' x = getT root x)

theorem step_thread (st' : State) (tid : Nat) (th' : Thread) (hlt : tid < st'.threads.length) :
    (install st' tid th').threads[tid]? = some th' := by
  rw [install_get _ _ _ _ hlt]; simp

def RootAlt (st : State) (cs : List Bool) (tid : Nat) (th0 : Thread) (a : State × Thread) : Prop :=
  (a.1.root = st.root ∧ (Micro.act .storeRoot ∈ a.2.prog ↔ Micro.act .storeRoot ∈ th0.prog)) ∨
  (Micro.act .storeRoot ∈ th0.prog ∧ Micro.act .storeRoot ∉ a.2.prog ∧
    ((cs[tid]? = some true ∧ CommitRoot st.root a.1.root th0) ∨
     (th0.tables = [] ∧ ∃ w, a.1.root = st.root ++ [{ watch := w }])))

/-- what a run of thread `tid` (record `th0` at its start) has done to the root -/
def RootJ (st : State) (cs : List Bool) (tid : Nat) (a : State × Thread) : Prop :=
  ∀ th0, st.threads[tid]? = some th0 →
    a.2.tables = th0.tables ∧ a.2.regInit = th0.regInit ∧ a.2.markInit = th0.markInit ∧
    (∀ m, m ∈ a.2.prog → m ∈ th0.prog) ∧ RootAlt st cs tid th0 a

theorem RootJ_micro (st : State) (cs : List Bool) (tid : Nat) (a b : State × Thread) (c : Bool)
    (ctx : MicroCtx cs tid a b c) (h : RootJ st cs tid a) : RootJ st cs tid b := by
  intro th0 hth0
  obtain ⟨j1, j2, j3, j4, j5⟩ := h th0 hth0
  have hfr := ctx.frame
  have sub : ∀ m, m ∈ b.2.prog → m ∈ th0.prog := fun m hm => j4 m (hfr.sub m hm)
  refine ⟨by rw [hfr.tables, j1], by rw [hfr.regInit, j2], by rw [hfr.markInit, j3], sub, ?_⟩
  have keep : b.1.root = a.1.root → (Micro.act .storeRoot ∈ b.2.prog ↔ Micro.act .storeRoot ∈ a.2.prog) →
      RootAlt st cs tid th0 b := by
    intro hr hiff
    rcases j5 with ⟨r1, r2⟩ | ⟨r1, r2, r3⟩
    · exact Or.inl ⟨by rw [hr]; exact r1, hiff.trans r2⟩
    · exact Or.inr ⟨r1, fun hm => r2 (hfr.sub _ hm), by rw [hr]; exact r3⟩
  cases ctx.eff with
  | quiet h1 _ h3 => exact keep h1 h3
  | notify _ h2 _ _ _ h6 =>
    exact keep h2 ⟨fun hm => absurd (hfr.sub _ hm) h6, fun hm => absurd hm h6⟩
  | closeInit _ h2 _ _ _ h6 =>
    exact keep h2 ⟨fun hm => absurd (hfr.sub _ hm) h6, fun hm => absurd hm h6⟩
  | commit hc _ h3 h4 _ h6 _ h8 =>
    rcases j5 with ⟨r1, r2⟩ | ⟨_, r2, _⟩
    · right
      refine ⟨r2.1 h3, h4, Or.inl ⟨by rw [ctx.flag, hc], ?_⟩⟩
      rw [r1] at h6 h8
      refine ⟨h6, fun x hx => ?_⟩
      obtain ⟨g1, g2⟩ := h8 x hx
      have hmem : x ∈ lockList a.2 ↔ x ∈ th0.tables := by rw [mem_lockList, j1]
      constructor
      · intro hxt
        obtain ⟨_, ⟨n, hn⟩, g⟩ := g1 (hmem.2 hxt)
        exact ⟨n, by rw [g, hn, j2, j3]⟩
      · intro hxt
        exact g2 (fun hm => hxt (hmem.1 hm))
    · exact absurd h3 r2
  | register h1 _ h3 h4 h5 =>
    rcases j5 with ⟨r1, r2⟩ | ⟨_, r2, _⟩
    · right
      exact ⟨r2.1 h3, h4, Or.inr ⟨by rw [← j1]; exact h1, a.1.nextChan, by rw [h5, r1]⟩⟩
    · exact absurd h3 r2

/-- **root**: a scheduler step leaves the committed root alone, or is the commit of
    the stepping writer (flag `true`, its `storeRoot` happens in this step), or
    appends one fresh table (registration) -/
theorem step_root_cases (st : State) (cs : List Bool) (tid : Nat) (hsim : Sim st cs) (hCI : CI st cs none) :
    (step st tid).1.root = st.root ∨
    (∃ th th', st.threads[tid]? = some th ∧ (step st tid).1.threads[tid]? = some th' ∧ cs[tid]? = some true ∧
      Micro.act .storeRoot ∈ th.prog ∧ Micro.act .storeRoot ∉ th'.prog ∧
      CommitRoot st.root (step st tid).1.root th) ∨
    (∃ th w, st.threads[tid]? = some th ∧ th.tables = [] ∧ Micro.act .storeRoot ∈ th.prog ∧
      (step st tid).1.root = st.root ++ [{ watch := w }]) := by
  rcases step_with2 st cs tid hsim hCI (RootJ st cs tid) (RootJ_micro st cs tid)
      (fun th hth th0 hth0 => by
        rw [hth] at hth0; simp only [Option.some.injEq] at hth0; subst hth0
        exact ⟨rfl, rfl, rfl, fun _ hm => hm, Or.inl ⟨rfl, Iff.rfl⟩⟩) with
    he | ⟨th, st', th', hth, _, hj, he, hthr⟩
  · rw [he]; exact Or.inl rfl
  · have hlt : tid < st'.threads.length := by rw [hthr]; exact lt_of_getElem?_some _ _ _ hth
    obtain ⟨_, _, _, _, j5⟩ := hj th hth
    rw [he]
    rcases j5 with ⟨r1, _⟩ | ⟨r1, r2, r3 | r3⟩
    · exact Or.inl r1
    · exact Or.inr (Or.inl ⟨th, th', hth, step_thread st' tid th' hlt, r3.1, r1, r2, r3.2⟩)
    · obtain ⟨t, w, hw⟩ := r3
      exact Or.inr (Or.inr ⟨th, w, hth, t, r1, hw⟩)

/-- where a closed channel of the current run comes from -/
def ClosedBy (cs : List Bool) (tid : Nat) (th0 th : Thread) (w : Nat) : Prop :=
  cs[tid]? = some true ∧ Micro.act .storeRoot ∉ th.prog ∧
  ((Micro.act .notify ∈ th0.prog ∧ Micro.act .notify ∉ th.prog ∧ w ∈ th.toNotify) ∨
   (Micro.act .closeInit ∈ th0.prog ∧ Micro.act .closeInit ∉ th.prog ∧ w ∈ th.initToClose))

def ClosedJ (st : State) (cs : List Bool) (tid : Nat) (a : State × Thread) : Prop :=
  ∀ th0, st.threads[tid]? = some th0 →
    (∀ m, m ∈ a.2.prog → m ∈ th0.prog) ∧
    ∃ l, a.1.closed = st.closed ++ l ∧ ∀ w, w ∈ l → ClosedBy cs tid th0 a.2 w

theorem ClosedJ_micro (st : State) (cs : List Bool) (tid : Nat) (a b : State × Thread) (c : Bool)
    (ctx : MicroCtx cs tid a b c) (h : ClosedJ st cs tid a) : ClosedJ st cs tid b := by
  intro th0 hth0
  obtain ⟨j1, l, j2, j3⟩ := h th0 hth0
  have hfr := ctx.frame
  have sub : ∀ m, m ∈ b.2.prog → m ∈ th0.prog := fun m hm => j1 m (hfr.sub m hm)
  have carry : ∀ w, ClosedBy cs tid th0 a.2 w → ClosedBy cs tid th0 b.2 w := by
    intro w ⟨g1, g2, g3⟩
    have hc : c = true := by
      have := ctx.flag; rw [g1] at this; simpa using this.symm
    obtain ⟨e1, e2⟩ := hfr.stored hc g2
    refine ⟨g1, fun hm => g2 (hfr.sub _ hm), ?_⟩
    rcases g3 with ⟨k1, k2, k3⟩ | ⟨k1, k2, k3⟩
    · exact Or.inl ⟨k1, fun hm => k2 (hfr.sub _ hm), by rw [e1]; exact k3⟩
    · exact Or.inr ⟨k1, fun hm => k2 (hfr.sub _ hm), by rw [e2]; exact k3⟩
  have same : b.1.closed = a.1.closed →
      (∀ m, m ∈ b.2.prog → m ∈ th0.prog) ∧
        ∃ l, b.1.closed = st.closed ++ l ∧ ∀ w, w ∈ l → ClosedBy cs tid th0 b.2 w :=
    fun hcl => ⟨sub, l, by rw [hcl]; exact j2, fun w hw => carry w (j3 w hw)⟩
  cases ctx.eff with
  | quiet _ h2 => exact same h2
  | commit _ h2 => exact same h2
  | register _ h2 => exact same h2
  | notify hc _ h3 h4 h5 h6 =>
    refine ⟨sub, l ++ a.2.toNotify, by rw [h3, j2, List.append_assoc], ?_⟩
    intro w hw
    rw [List.mem_append] at hw
    rcases hw with hw | hw
    · exact carry w (j3 w hw)
    · refine ⟨by rw [ctx.flag, hc], fun hm => h6 (hfr.sub _ hm), Or.inl ⟨j1 _ h4, h5, ?_⟩⟩
      rw [(hfr.stored hc h6).1]; exact hw
  | closeInit hc _ h3 h4 h5 h6 =>
    refine ⟨sub, l ++ a.2.initToClose, by rw [h3, j2, List.append_assoc], ?_⟩
    intro w hw
    rw [List.mem_append] at hw
    rcases hw with hw | hw
    · exact carry w (j3 w hw)
    · refine ⟨by rw [ctx.flag, hc], fun hm => h6 (hfr.sub _ hm), Or.inr ⟨j1 _ h4, h5, ?_⟩⟩
      rw [(hfr.stored hc h6).2]; exact hw

/-- **closed channels**: a scheduler step only appends to the closed list, and what
    it appends was closed by the `notify` or the `closeInit` of the stepping thread,
    a COMMITTING writer past its `storeRoot` -/
theorem step_closed_cases (st : State) (cs : List Bool) (tid : Nat) (hsim : Sim st cs) (hCI : CI st cs none) :
    ∃ l, (step st tid).1.closed = st.closed ++ l ∧
    ∀ w, w ∈ l →
      ∃ th th', st.threads[tid]? = some th ∧ (step st tid).1.threads[tid]? = some th' ∧ ClosedBy cs tid th th' w := by
  rcases step_with2 st cs tid hsim hCI (ClosedJ st cs tid) (ClosedJ_micro st cs tid)
      (fun th hth th0 hth0 => ⟨fun m hm => by
        rw [hth] at hth0; simp only [Option.some.injEq] at hth0; subst hth0; exact hm,
        [], by simp, fun w hw => by simp at hw⟩) with
    he | ⟨th, st', th', hth, _, hj, he, hthr⟩
  · rw [he]; exact ⟨[], by simp, fun w hw => by simp at hw⟩
  · have hlt : tid < st'.threads.length := by rw [hthr]; exact lt_of_getElem?_some _ _ _ hth
    obtain ⟨_, l, j2, j3⟩ := hj th hth
    rw [he]
    exact ⟨l, j2, fun w hw => ⟨th, th', hth, step_thread st' tid th' hlt, j3 w hw⟩⟩

end Sdb.Conc
