import SdbModel.Lemmas.ReconcilerInjectDec

/-!
  Lemmas.ReconcilerInjectSim — the reconciler writes nothing but the status: up to
  status (kind, status id) and revision, the table after a round is the table the
  user's writes alone — those that landed during the round's Updates, in the order
  they landed — would have left.
-/
namespace Sdb.Rec

/-- what the user (and foreign writers) own of an object: id, data, the foreign field -/
def core (o : RObj) : Nat × Nat × Nat := (o.id, o.data, o.other)

/-- equal tables up to status and revision -/
def TEq (a b : R) : Prop :=
  a.objs.map core = b.objs.map core ∧ a.dels.map (fun d => core d.1) = b.dels.map (fun d => core d.1)

theorem TEq.refl (a : R) : TEq a a := ⟨rfl, rfl⟩
theorem TEq.symm {a b : R} (h : TEq a b) : TEq b a := ⟨h.1.symm, h.2.symm⟩
theorem TEq.trans {a b c : R} (h1 : TEq a b) (h2 : TEq b c) : TEq a c := ⟨h1.1.trans h2.1, h1.2.trans h2.2⟩
theorem TEq.of_eq {a b : R} (h1 : b.objs = a.objs) (h2 : b.dels = a.dels) : TEq a b := ⟨by rw [h1], by rw [h2]⟩

/-! ### list facts -/

theorem core_any {α : Type} (f : α → Nat × Nat × Nat) (l1 l2 : List α) (h : l1.map f = l2.map f) (k : Nat) :
    l1.any (fun x => decide ((f x).1 = k)) = l2.any (fun x => decide ((f x).1 = k)) := by
  induction l1 generalizing l2 with
  | nil => cases l2 with
    | nil => rfl
    | cons b bs => simp at h
  | cons a as ih => cases l2 with
    | nil => simp at h
    | cons b bs =>
      simp only [List.map_cons, List.cons.injEq] at h
      simp only [List.any_cons, ih bs h.2, h.1]

theorem core_filter {α : Type} (f : α → Nat × Nat × Nat) (l1 l2 : List α) (h : l1.map f = l2.map f) (k : Nat) :
    (l1.filter (fun x => decide ((f x).1 ≠ k))).map f = (l2.filter (fun x => decide ((f x).1 ≠ k))).map f := by
  induction l1 generalizing l2 with
  | nil => cases l2 with
    | nil => rfl
    | cons b bs => simp at h
  | cons a as ih => cases l2 with
    | nil => simp at h
    | cons b bs =>
      simp only [List.map_cons, List.cons.injEq] at h
      simp only [List.filter_cons, h.1]
      split
      · simp only [List.map_cons, h.1, ih bs h.2]
      · exact ih bs h.2

theorem core_find (l1 l2 : List RObj) (h : l1.map core = l2.map core) (k : Nat) :
    (l1.find? (fun x => decide (x.id = k))).map core = (l2.find? (fun x => decide (x.id = k))).map core := by
  induction l1 generalizing l2 with
  | nil => cases l2 with
    | nil => rfl
    | cons b bs => simp at h
  | cons a as ih => cases l2 with
    | nil => simp at h
    | cons b bs =>
      simp only [List.map_cons, List.cons.injEq] at h
      have hid : a.id = b.id := congrArg (·.1) h.1
      simp only [List.find?_cons, hid]
      split
      · simp only [Option.map_some, h.1]
      · exact ih bs h.2

theorem core_replace (l1 l2 : List RObj) (h : l1.map core = l2.map core) (k : Nat) (n1 n2 : RObj) (hn : core n1 = core n2) :
    (l1.map (fun x => if x.id = k then n1 else x)).map core = (l2.map (fun x => if x.id = k then n2 else x)).map core := by
  induction l1 generalizing l2 with
  | nil => cases l2 with
    | nil => rfl
    | cons b bs => simp at h
  | cons a as ih => cases l2 with
    | nil => simp at h
    | cons b bs =>
      simp only [List.map_cons, List.cons.injEq] at h
      have hid : a.id = b.id := congrArg (·.1) h.1
      simp only [List.map_cons, hid, ih bs h.2, List.cons.injEq, and_true]
      split
      · exact hn
      · exact h.1

theorem core_replace' (l1 l2 : List RObj) (h : l1.map core = l2.map core) (k1 k2 : Nat) (hk : k1 = k2) (n1 n2 : RObj)
    (hn : core n1 = core n2) :
    (l1.map (fun x => if x.id = k1 then n1 else x)).map core = (l2.map (fun x => if x.id = k2 then n2 else x)).map core := by
  subst hk; exact core_replace l1 l2 h k1 n1 n2 hn

theorem core_filter' {α : Type} (f : α → Nat × Nat × Nat) (l1 l2 : List α) (h : l1.map f = l2.map f) (k1 k2 : Nat) (hk : k1 = k2) :
    (l1.filter (fun x => decide ((f x).1 ≠ k1))).map f = (l2.filter (fun x => decide ((f x).1 ≠ k2))).map f := by
  subst hk; exact core_filter f l1 l2 h k1

theorem core_any' {α : Type} (f : α → Nat × Nat × Nat) (l1 l2 : List α) (h : l1.map f = l2.map f) (k1 k2 : Nat) (hk : k1 = k2) :
    l1.any (fun x => decide ((f x).1 = k1)) = l2.any (fun x => decide ((f x).1 = k2)) := by
  subst hk; exact core_any f l1 l2 h k1

/-! ### the user's writes respect `TEq` -/

theorem TEq.get {a b : R} (h : TEq a b) (k : Nat) : (a.get k).map core = (b.get k).map core := core_find _ _ h.1 k

theorem TEq.setObj {a b : R} (h : TEq a b) (oa ob : RObj) (ho : core oa = core ob) (na nb : Nat) :
    TEq { (a.setObj oa) with nextSid := na } { (b.setObj ob) with nextSid := nb } := by
  have hid : oa.id = ob.id := congrArg (·.1) ho
  constructor
  · show (a.setObj oa).objs.map core = (b.setObj ob).objs.map core
    unfold R.setObj
    simp only
    rw [show (a.objs.any fun x => decide (x.id = oa.id)) = (b.objs.any fun x => decide (x.id = ob.id)) from
      core_any' core a.objs b.objs h.1 oa.id ob.id hid]
    split
    · exact core_replace' _ _ h.1 oa.id ob.id hid _ _ (by simp only [core] at ho ⊢; exact ho)
    · simp only [List.map_append, h.1, List.map_cons, List.map_nil]
      congr 2
  · show (a.setObj oa).dels.map (fun d => core d.1) = (b.setObj ob).dels.map (fun d => core d.1)
    simp only [setObj_dels]
    exact core_filter' (fun d : RObj × Nat => core d.1) _ _ h.2 oa.id ob.id hid

theorem TEq.applyInject {a b : R} (h : TEq a b) (x : Inject) : TEq (a.applyInject x) (b.applyInject x) := by
  cases x with
  | put id data =>
    show TEq (a.userPut id data) (b.userPut id data)
    unfold R.userPut
    have hg := h.get id
    refine h.setObj _ _ ?_ _ _
    simp only [core, Prod.mk.injEq, true_and]
    cases ha : a.get id with
    | none =>
      rw [ha] at hg
      cases hb : b.get id with
      | none => rfl
      | some ob => rw [hb] at hg; simp at hg
    | some oa =>
      rw [ha] at hg
      cases hb : b.get id with
      | none => rw [hb] at hg; simp at hg
      | some ob =>
        rw [hb] at hg
        simp only [Option.map_some, Option.some.injEq, core, Prod.mk.injEq] at hg
        exact hg.2.2
  | del id =>
    show TEq (a.delObj id) (b.delObj id)
    have hg := h.get id
    cases ha : a.get id with
    | none =>
      rw [ha] at hg
      cases hb : b.get id with
      | none => rw [delObj_of_none ha, delObj_of_none hb]; exact h
      | some ob => rw [hb] at hg; simp at hg
    | some oa =>
      rw [ha] at hg
      cases hb : b.get id with
      | none => rw [hb] at hg; simp at hg
      | some ob =>
        rw [hb] at hg
        simp only [Option.map_some, Option.some.injEq] at hg
        rw [delObj_of_get ha, delObj_of_get hb]
        constructor
        · exact core_filter core _ _ h.1 id
        · simp only [List.map_append, h.2, List.map_cons, List.map_nil]
          congr 2
  | touch id =>
    show TEq (a.touch id) (b.touch id)
    have hg := h.get id
    unfold R.touch
    cases ha : a.get id with
    | none =>
      rw [ha] at hg
      cases hb : b.get id with
      | none => exact h
      | some ob => rw [hb] at hg; simp at hg
    | some oa =>
      rw [ha] at hg
      cases hb : b.get id with
      | none => rw [hb] at hg; simp at hg
      | some ob =>
        rw [hb] at hg
        simp only [Option.map_some, Option.some.injEq, core, Prod.mk.injEq] at hg
        simp only
        refine h.setObj _ _ ?_ a.nextSid b.nextSid
        simp only [core, Prod.mk.injEq]
        exact ⟨hg.1, hg.2.1, by rw [hg.2.2]⟩

theorem TEq.landAll {a b : R} (h : TEq a b) (acts : List (Nat × Inject)) : TEq (a.landAll acts) (b.landAll acts) := by
  induction acts generalizing a b with
  | nil => exact h
  | cons x xs ih => exact ih (h.applyInject x.2)

/-! ### the status commit writes nothing but the status -/

theorem map_replace_same (l : List RObj) (k : Nat) (n : RObj) (hn : ∀ x ∈ l, x.id = k → core n = core x) :
    (l.map (fun x => if x.id = k then n else x)).map core = l.map core := by
  induction l with
  | nil => rfl
  | cons a as ih =>
    simp only [List.map_cons, List.cons.injEq]
    refine ⟨?_, ih (fun x hx => hn x (List.mem_cons_of_mem _ hx))⟩
    split
    · rename_i h; exact hn a (List.mem_cons_self ..) h
    · rfl

/-- writing a status onto the live object `cur` -/
theorem teq_setObj_status {r : R} (ht : TInv r) (cur o : RObj) (hcur : cur ∈ r.objs) (ho : core o = core cur) (n : Nat) :
    TEq r { (r.setObj o) with nextSid := n } := by
  have hid : o.id = cur.id := congrArg (·.1) ho
  constructor
  · show r.objs.map core = (r.setObj o).objs.map core
    rw [setObj_objs_of_mem r o cur hcur hid.symm]
    symm
    refine map_replace_same _ _ _ (fun x hx hxid => ?_)
    have : x = cur := ht.obj_eq hx hcur (by omega)
    rw [this]
    simp only [core] at ho ⊢; exact ho
  · show r.dels.map (fun d => core d.1) = (r.setObj o).dels.map (fun d => core d.1)
    simp only [setObj_dels]
    congr 1
    symm
    rw [List.filter_eq_self]
    intro d hd
    have := ht.disj cur hcur d hd
    simp; omega

theorem teq_retryAdd (r : R) (o : RObj) (a b : Nat) (d : Bool) : TEq r (r.retryAdd o a b d) := TEq.of_eq rfl rfl

theorem teq_commitOne {r : R} {res : Res} {rs : List Res} (h : JInv r (res :: rs)) : TEq r (r.commitOne res) := by
  obtain ⟨obj, orig, rev, sid, failed⟩ := res
  obtain ⟨e1, _, _, _, hlv⟩ := h.resOK _ (List.mem_cons_self ..)
  simp only at e1 hlv
  subst e1
  unfold R.commitOne
  simp only
  split
  · exact TEq.refl r
  · rename_i cur hg
    rw [get_eq_some_iff h.tinv] at hg
    split
    · rename_i hrev
      obtain ⟨b1, b2, _, _⟩ := hlv cur hg.1 hg.2 (Or.inl hrev)
      have hc : ∀ k s, core ({ orig with kind := k, sid := s } : RObj) = core cur := by
        intro k s; simp only [core, Prod.mk.injEq]; exact ⟨hg.2.symm, b1.symm, (b2 hrev).symm⟩
      split
      · exact (teq_setObj_status h.tinv cur _ hg.1 (hc _ _) (r.nextSid + 1)).trans (teq_retryAdd _ _ _ _ _)
      · exact teq_setObj_status h.tinv cur _ hg.1 (hc _ _) (r.nextSid + 1)
    · split
      · have hc : ∀ k s, core ({ cur with kind := k, sid := s } : RObj) = core cur := fun _ _ => rfl
        split
        · exact (teq_setObj_status h.tinv cur _ hg.1 (hc _ _) (r.nextSid + 1)).trans (teq_retryAdd _ _ _ _ _)
        · exact teq_setObj_status h.tinv cur _ hg.1 (hc _ _) (r.nextSid + 1)
      · exact TEq.refl r

theorem teq_foldl_commitOne (rs : List Res) {r : R} (h : JInv r rs) : TEq r (rs.foldl R.commitOne r) := by
  induction rs generalizing r with
  | nil => exact TEq.refl r
  | cons x xs ih => exact (teq_commitOne h).trans (ih h.commitOne)

theorem teq_commitStatus {r : R} (h : JInv r r.results) : TEq r r.commitStatus :=
  (teq_foldl_commitOne r.results h).trans (TEq.of_eq rfl rfl)

/-! ### the simulation through a round -/

/-- `r'` is, up to status and revision, what the user's writes `lp` (those of
    `r0.injects` that have landed, in the order they landed) alone make of the
    table of `r0`; the others are still queued -/
def Sim (r0 r' : R) : Prop :=
  ∃ lp : List (Nat × Inject), (lp ++ r'.injects).Perm r0.injects ∧ TEq r' (r0.landAll lp) ∧
    ∀ k, lp.filter (fun (a : Nat × Inject) => a.1 = k) ++ r'.injects.filter (fun (a : Nat × Inject) => a.1 = k) =
      r0.injects.filter (fun (a : Nat × Inject) => a.1 = k)

theorem Sim.refl (r : R) : Sim r r := ⟨[], by simp, TEq.refl r, fun _ => by simp⟩

theorem Sim.same {r0 r r' : R} (h : Sim r0 r) (h1 : r'.objs = r.objs) (h2 : r'.dels = r.dels) (h3 : r'.injects = r.injects) :
    Sim r0 r' := by
  obtain ⟨lp, hp, ht, ho⟩ := h
  exact ⟨lp, by rw [h3]; exact hp, (TEq.of_eq h1 h2).symm.trans ht, by rw [h3]; exact ho⟩

theorem Sim.teq {r0 r r' : R} (h : Sim r0 r) (ht' : TEq r r') (h3 : r'.injects = r.injects) : Sim r0 r' := by
  obtain ⟨lp, hp, ht, ho⟩ := h
  exact ⟨lp, by rw [h3]; exact hp, ht'.symm.trans ht, by rw [h3]; exact ho⟩

theorem landAll_append (r : R) (l1 l2 : List (Nat × Inject)) : r.landAll (l1 ++ l2) = (r.landAll l1).landAll l2 := by
  unfold R.landAll; rw [List.foldl_append]

theorem Sim.processSingle {r0 r : R} (h : Sim r0 r) (obj : RObj) (rev : Nat) (del : Bool) :
    Sim r0 (r.processSingle obj rev del) := by
  cases del with
  | true =>
    rw [processSingle_delete]
    split
    · exact h.same rfl rfl rfl
    · exact h.same (by simp) (by simp) (by simp)
  | false =>
    obtain ⟨lp, hp, ht, ho⟩ := h
    rw [processSingle_update_land]
    obtain ⟨p1, p2, _, _, _, _, _, _, _, _, _, _, _, _, p15, _⟩ := preUpdate_facts r obj rev
    refine ⟨lp ++ r.injects.filter (fun (a : Nat × Inject) => a.1 = obj.id), ?_, ?_, ?_⟩
    · rw [(frameW_landAll _ _).injects, p15, List.append_assoc]
      refine List.Perm.trans (List.Perm.append_left lp ?_) hp
      have hfe : r.injects.filter (fun (a : Nat × Inject) => a.1 ≠ obj.id) =
          r.injects.filter (fun (a : Nat × Inject) => !decide (a.1 = obj.id)) := by
        apply List.filter_congr; intro a _; simp
      rw [hfe]
      exact List.filter_append_perm _ _
    · rw [landAll_append]
      exact ((TEq.of_eq p1 p2).symm.trans ht).landAll _
    · intro k
      rw [(frameW_landAll _ _).injects, p15, ← ho k, List.filter_append, List.append_assoc]
      congr 1
      rw [List.filter_filter, List.filter_filter]
      by_cases hk : k = obj.id
      · subst hk
        have e1 : r.injects.filter (fun (a : Nat × Inject) => (decide (a.1 = obj.id) && decide (a.1 = obj.id))) =
            r.injects.filter (fun (a : Nat × Inject) => a.1 = obj.id) := by
          apply List.filter_congr; intro a _; simp
        have e2 : r.injects.filter (fun (a : Nat × Inject) => (decide (a.1 = obj.id) && decide (a.1 ≠ obj.id))) = [] := by
          rw [List.filter_eq_nil_iff]; intro a _; simp
        rw [e1, e2, List.append_nil]
      · have e1 : r.injects.filter (fun (a : Nat × Inject) => (decide (a.1 = k) && decide (a.1 = obj.id))) = [] := by
          rw [List.filter_eq_nil_iff]; intro a _; simp; omega
        have e2 : r.injects.filter (fun (a : Nat × Inject) => (decide (a.1 = k) && decide (a.1 ≠ obj.id))) =
            r.injects.filter (fun (a : Nat × Inject) => a.1 = k) := by
          apply List.filter_congr; intro a _; simp; omega
        rw [e1, e2, List.nil_append]

theorem Sim.consume {r0 : R} (cs : List Change) {r : R} (last : Nat) (h : Sim r0 r) : Sim r0 (r.consume cs last).1 := by
  induction cs generalizing r last with
  | nil => exact h
  | cons c cs ih =>
    unfold R.consume
    simp only
    have h1 : Sim r0 (if c.deleted = true then { r with itDelRev := c.rev } else { r with itRev := c.rev }) := by
      cases c.deleted <;> exact h.same rfl rfl rfl
    generalize (if c.deleted = true then ({ r with itDelRev := c.rev } : R) else { r with itRev := c.rev }) = r1 at h1 ⊢
    split
    · exact ih _ h1
    · have h2 := (h1.same (r' := r1.retryClear c.obj.id) (by simp) (by simp) (by simp)).processSingle c.obj c.rev c.deleted
      generalize (r1.retryClear c.obj.id).processSingle c.obj c.rev c.deleted = r3 at h2 ⊢
      split
      · exact h2.same rfl rfl rfl
      · exact ih _ (h2.same rfl rfl rfl)

theorem Sim.processRetries {r0 : R} (fuel : Nat) {r : R} (h : Sim r0 r) : Sim r0 (r.processRetries fuel) := by
  induction fuel generalizing r with
  | zero => exact h
  | succ n ih =>
    unfold R.processRetries
    split
    · exact h
    · split
      · exact h
      · rename_i it0 hh
        split
        · exact h
        · have h2 := (h.same (r' := r.retryPop) (by simp) (by simp) (by simp)).processSingle it0.obj it0.rev it0.delete
          dsimp only
          generalize r.retryPop.processSingle it0.obj it0.rev it0.delete = r3 at h2 ⊢
          exact ih (h2.same rfl rfl rfl)

theorem Sim.commitStatus {r0 r : R} (h : Sim r0 r) (hI : JInv r r.results) : Sim r0 r.commitStatus :=
  h.teq (teq_commitStatus hI) (commitStatus_injects r)

/-- one round -/
theorem JRInv.round_sim {r : R} (h : JRInv r) (hs : r.roundSafe) : Sim r r.round := by
  rw [round_eq']
  unfold R.roundSafe at hs
  have hnc : JInv r.nextChanges.1 r.nextChanges.1.results ∧ r.nextChanges.1.results = [] ∧ Sim r r.nextChanges.1 := by
    rcases nextChanges_fst r with e | e <;> rw [e]
    · exact ⟨JInv.cast_results h.res h.inv, h.res, Sim.refl r⟩
    · exact ⟨JInv.cast_results h.res (h.inv.set_refreshedAt _ (Nat.le_refl _)), h.res, (Sim.refl r).same rfl rfl rfl⟩
  have hch0 := chOK_nextChanges h.inv.tinv h.sync
  generalize r.nextChanges = nc at hnc hch0 hs ⊢
  obtain ⟨hI1, hres1, hS1⟩ := hnc
  have hch : JChOK nc.1.tableRev nc.1 nc.1.results nc.2 := by
    rw [hres1]; exact JChOK.ofChOK hch0 hI1.tinv hI1.sidO
  obtain ⟨hs1, hs2⟩ := hs
  obtain ⟨hI2, _, _, _⟩ := hI1.consume nc.2 0 hch hs1
  have hS2 := hS1.consume nc.2 0
  generalize nc.1.consume nc.2 0 = co at hI2 hS2 hs2 ⊢
  generalize (if nc.2.isEmpty ∧ co.1.pending.isNone then none else
      if (co.2.1.isEmpty ∧ co.1.numReconciled < co.1.cfg.roundSize) then none else some co.2.1 : Option (List Change)) = pend at hs2 ⊢
  have hI3 : JInv { co.1 with pending := pend } ({ co.1 with pending := pend } : R).results :=
    hI2.congr rfl rfl rfl rfl rfl rfl rfl rfl rfl
  have hS3 : Sim r { co.1 with pending := pend } := hS2.same rfl rfl rfl
  generalize ({ co.1 with pending := pend } : R) = r3 at hI3 hS3 hs2 ⊢
  unfold roundTail
  unfold R.tailSafe at hs2
  dsimp only
  have hI4 := hI3.commitStatus
  have hS4 := hS3.commitStatus hI3
  have hres4 := commitStatus_results r3
  generalize r3.commitStatus = r4 at hI4 hS4 hres4 hs2 ⊢
  rw [← hres4] at hI4
  obtain ⟨hI5, _⟩ := hI4.processRetries (r4.items.length + 1) hs2
  have hS5 := hS4.processRetries (r4.items.length + 1)
  generalize r4.processRetries (r4.items.length + 1) = r5 at hI5 hS5 ⊢
  exact (hS5.commitStatus hI5).same rfl rfl rfl

/-! ### a user write to the object itself during its Update makes the result stale -/

theorem find_replace_other (l : List RObj) (n : RObj) (k id : Nat) (hn : n.id = k) (h : id ≠ k) :
    (l.map fun x => if x.id = k then n else x).find? (fun x => decide (x.id = id)) = l.find? (fun x => decide (x.id = id)) := by
  induction l with
  | nil => rfl
  | cons x xs ih =>
    simp only [List.map_cons, List.find?_cons]
    by_cases hx : x.id = k
    · have h1 : ¬ (n.id = id) := by rw [hn]; exact fun e => h e.symm
      have h2 : ¬ (x.id = id) := by rw [hx]; exact fun e => h e.symm
      have h3 : ¬ (k = id) := fun e => h e.symm
      simp [hx, h1, h3, ih]
    · simp [hx, ih]

theorem get_setObj_ne (r : R) (o : RObj) (id : Nat) (h : id ≠ o.id) : (r.setObj o).get id = r.get id := by
  unfold R.setObj R.get
  simp only
  split
  · exact find_replace_other r.objs _ o.id id rfl h
  · rw [List.find?_append]
    have : ¬ (o.id = id) := fun e => h e.symm
    simp [this]

theorem find_replace_self (l : List RObj) (n : RObj) (k : Nat) (hn : n.id = k) (hany : l.any (fun x => decide (x.id = k)) = true) :
    (l.map fun x => if x.id = k then n else x).find? (fun x => decide (x.id = k)) = some n := by
  induction l with
  | nil => simp at hany
  | cons x xs ih =>
    simp only [List.map_cons, List.find?_cons]
    by_cases hx : x.id = k
    · simp [hx, hn]
    · simp only [hx, if_false, decide_false]
      simp only [List.any_cons, hx, decide_false, Bool.false_or] at hany
      exact ih hany

theorem get_setObj_eq (r : R) (o : RObj) : (r.setObj o).get o.id = some { o with rev := r.tableRev + 1 } := by
  unfold R.setObj R.get
  simp only
  split
  · rename_i hany
    exact find_replace_self r.objs _ o.id rfl hany
  · rename_i hany
    rw [List.find?_append]
    have : r.objs.find? (fun x => decide (x.id = o.id)) = none := by
      rw [List.find?_eq_none]
      intro x hx
      simp only [Bool.not_eq_true, List.any_eq_false] at hany
      rw [hany x hx]; simp
    rw [this]
    simp

/-- the object `X`, if present, was written after revision `T` with a status id of at least `N` -/
def FreshObj (X T N : Nat) (r : R) : Prop := ∀ cur, r.get X = some cur → T < cur.rev ∧ N ≤ cur.sid

theorem freshObj_userPut (X T N : Nat) (r : R) (d : Nat) (hT : T ≤ r.tableRev) (hN : N ≤ r.nextSid) :
    FreshObj X T N (r.userPut X d) := by
  intro cur hcur
  obtain ⟨other, he⟩ := userPut_eq r X d
  rw [he] at hcur
  have hcur' : (r.setObj { id := X, data := d, kind := .pending, sid := r.nextSid, other := other, rev := 0 }).get X = some cur := hcur
  have e := get_setObj_eq r { id := X, data := d, kind := .pending, sid := r.nextSid, other := other, rev := 0 }
  simp only at e
  rw [e] at hcur'
  cases hcur'
  exact ⟨by simp only; omega, hN⟩

theorem get_delObj_self (r : R) (X : Nat) : (r.delObj X).get X = none := by
  cases hg : r.get X with
  | none => rw [delObj_of_none hg]; exact hg
  | some o =>
    rw [delObj_of_get hg]
    unfold R.get
    rw [List.find?_eq_none]
    intro x hx
    simp only [List.mem_filter] at hx
    simpa using hx.2

theorem find_filter_ne (l : List RObj) (Y X : Nat) (h : X ≠ Y) :
    (l.filter (fun x => decide (x.id ≠ Y))).find? (fun x => decide (x.id = X)) = l.find? (fun x => decide (x.id = X)) := by
  induction l with
  | nil => rfl
  | cons a as ih =>
    by_cases ha : a.id = Y
    · have h1 : ¬ a.id = X := by omega
      rw [List.filter_cons_of_neg (by simp [ha]), List.find?_cons_of_neg (by simp [h1])]
      exact ih
    · rw [List.filter_cons_of_pos (by simp [ha])]
      simp only [List.find?_cons, ih]

theorem get_delObj_ne (r : R) (Y X : Nat) (h : X ≠ Y) : (r.delObj Y).get X = r.get X := by
  cases hg : r.get Y with
  | none => rw [delObj_of_none hg]
  | some o =>
    rw [delObj_of_get hg]
    exact find_filter_ne r.objs Y X h

theorem freshObj_applyInject (X T N : Nat) (r : R) (a : Inject) (h : FreshObj X T N r) (hT : T ≤ r.tableRev) (hN : N ≤ r.nextSid) :
    FreshObj X T N (r.applyInject a) := by
  cases a with
  | put id data =>
    by_cases hid : id = X
    · subst hid; exact freshObj_userPut id T N r data hT hN
    · intro cur hcur
      obtain ⟨other, he⟩ := userPut_eq r id data
      have hcur1 : (r.userPut id data).get X = some cur := hcur
      rw [he] at hcur1
      have hcur' : (r.setObj { id := id, data := data, kind := .pending, sid := r.nextSid, other := other, rev := 0 }).get X = some cur := hcur1
      rw [get_setObj_ne _ _ _ (by simp only; omega)] at hcur'
      exact h cur hcur'
  | del id =>
    intro cur hcur
    have hcur' : (r.delObj id).get X = some cur := hcur
    by_cases hid : id = X
    · subst hid; rw [get_delObj_self] at hcur'; cases hcur'
    · rw [get_delObj_ne _ _ _ (by omega)] at hcur'
      exact h cur hcur'
  | touch id =>
    intro cur hcur
    have hcur' : (r.touch id).get X = some cur := hcur
    unfold R.touch at hcur'
    cases hg : r.get id with
    | none => rw [hg] at hcur'; exact h cur hcur'
    | some o =>
      rw [hg] at hcur'
      simp only at hcur'
      have hoid : o.id = id := by simpa using List.find?_some hg
      by_cases hid : id = X
      · subst hid
        have e := get_setObj_eq r { o with other := o.other + 1 }
        simp only at e
        rw [← hoid] at hcur'
        rw [e] at hcur'
        cases hcur'
        exact ⟨by simp only; omega, (h o hg).2⟩
      · rw [get_setObj_ne _ _ _ (by simp only; omega)] at hcur'
        exact h cur hcur'

theorem freshObj_landAll (X T N : Nat) (acts : List (Nat × Inject)) (r : R) (h : FreshObj X T N r) (hT : T ≤ r.tableRev)
    (hN : N ≤ r.nextSid) : FreshObj X T N (r.landAll acts) := by
  induction acts generalizing r with
  | nil => exact h
  | cons a as ih =>
    have hg := grow_applyInject r a.2
    rw [landAll_cons]
    exact ih _ (freshObj_applyInject X T N r a.2 h hT hN) (Nat.le_trans hT hg.tableRev) (Nat.le_trans hN hg.nextSid)

/-- once a `put X` or a `del X` is among the writes that land, whatever else lands
    (before or after), the object `X`, if it exists afterwards, is newer than
    everything the reconciler has seen and carries a fresh status id -/
theorem freshObj_of_write (X : Nat) (acts : List (Nat × Inject)) (r : R)
    (hw : ∃ a ∈ acts, (∃ d, a.2 = .put X d) ∨ a.2 = .del X) : FreshObj X r.tableRev r.nextSid (r.landAll acts) := by
  obtain ⟨a, ha, hk⟩ := hw
  obtain ⟨l1, l2, rfl⟩ := List.append_of_mem ha
  rw [landAll_append, landAll_cons]
  have hg := grow_landAll l1 r
  have hg2 := grow_applyInject (r.landAll l1) a.2
  refine freshObj_landAll X _ _ l2 _ ?_ (by have := hg.tableRev; have := hg2.tableRev; omega) (by have := hg.nextSid; have := hg2.nextSid; omega)
  rcases hk with ⟨d, e⟩ | e
  · rw [e]; exact freshObj_userPut X _ _ _ d hg.tableRev hg.nextSid
  · rw [e]
    intro cur hcur
    have : ((r.landAll l1).delObj X).get X = some cur := hcur
    rw [get_delObj_self] at this; cases this

/-! ### the two states in which a round commits statuses -/

/-- the state after the change loop of a round: here `commitStatus` runs first -/
def R.roundMid (r : R) : R :=
  { (r.nextChanges.1.consume r.nextChanges.2 0).1 with
      pending := if r.nextChanges.2.isEmpty ∧ (r.nextChanges.1.consume r.nextChanges.2 0).1.pending.isNone then none else
        if ((r.nextChanges.1.consume r.nextChanges.2 0).2.1.isEmpty ∧
            (r.nextChanges.1.consume r.nextChanges.2 0).1.numReconciled < (r.nextChanges.1.consume r.nextChanges.2 0).1.cfg.roundSize) then none
        else some (r.nextChanges.1.consume r.nextChanges.2 0).2.1 }

/-- the state after the retry loop of a round: here `commitStatus` runs again -/
def R.roundMid2 (r : R) : R := r.roundMid.commitStatus.processRetries (r.roundMid.commitStatus.items.length + 1)

theorem round_eq_mid (r : R) : r.round =
    (let last := (r.nextChanges.1.consume r.nextChanges.2 0).2.2
     let r6 := r.roundMid2.commitStatus
     { r6 with numReconciled := 0, progressRev := if last > r6.progressRev then last else r6.progressRev,
               progressLW := r.roundMid2.lowWatermark }) := rfl

/-- both status commits of a round run in a state satisfying the in-round invariant -/
theorem JRInv.round_stages {r : R} (h : JRInv r) (hs : r.roundSafe) :
    JInv r.roundMid r.roundMid.results ∧ JInv r.roundMid2 r.roundMid2.results := by
  unfold R.roundMid2 R.roundMid
  unfold R.roundSafe at hs
  have hnc : JInv r.nextChanges.1 r.nextChanges.1.results ∧ r.nextChanges.1.results = [] := by
    rcases nextChanges_fst r with e | e <;> rw [e]
    · exact ⟨JInv.cast_results h.res h.inv, h.res⟩
    · exact ⟨JInv.cast_results h.res (h.inv.set_refreshedAt _ (Nat.le_refl _)), h.res⟩
  have hch0 := chOK_nextChanges h.inv.tinv h.sync
  generalize r.nextChanges = nc at hnc hch0 hs ⊢
  obtain ⟨hI1, hres1⟩ := hnc
  have hch : JChOK nc.1.tableRev nc.1 nc.1.results nc.2 := by
    rw [hres1]; exact JChOK.ofChOK hch0 hI1.tinv hI1.sidO
  obtain ⟨hs1, hs2⟩ := hs
  obtain ⟨hI2, _, _, _⟩ := hI1.consume nc.2 0 hch hs1
  generalize nc.1.consume nc.2 0 = co at hI2 hs2 ⊢
  generalize (if nc.2.isEmpty ∧ co.1.pending.isNone then none else
      if (co.2.1.isEmpty ∧ co.1.numReconciled < co.1.cfg.roundSize) then none else some co.2.1 : Option (List Change)) = pend at hs2 ⊢
  have hI3 : JInv { co.1 with pending := pend } ({ co.1 with pending := pend } : R).results :=
    hI2.congr rfl rfl rfl rfl rfl rfl rfl rfl rfl
  generalize ({ co.1 with pending := pend } : R) = r3 at hI3 hs2 ⊢
  unfold R.tailSafe at hs2
  have hI4 := hI3.commitStatus
  have hres4 := commitStatus_results r3
  generalize r3.commitStatus = r4 at hI4 hres4 hs2 ⊢
  rw [← hres4] at hI4
  exact ⟨hI3, (hI4.processRetries (r4.items.length + 1) hs2).1⟩

end Sdb.Rec
