import SdbModel.Model.SerialExec
import SdbModel.Lemmas.Serial

/-! `Serial.stepFn` only takes steps of `Serial.Step`; so every state the sched
    driver reaches by replaying the events of a Model.Conc run is `Reachable`. -/
namespace Sdb.Serial

theorem ascendingB_sound : ∀ l, ascendingB l = true → Ascending l
  | [], _ => trivial
  | [_], _ => trivial
  | a :: b :: r, h => by
    simp only [ascendingB, Bool.and_eq_true, decide_eq_true_eq] at h
    exact ⟨h.1, ascendingB_sound (b :: r) h.2⟩

theorem stepFn_sound (s s' : State) (ev : Ev) (h : stepFn s ev = some s') : Step s s' := by
  cases ev with
  | acquire i tb =>
    simp only [stepFn] at h
    split at h
    · rename_i t hi
      split at h
      · rename_i k hp
        split at h
        · rename_i hc
          simp only [Option.some.injEq] at h; subst h
          exact Step.acquire s i t k tb hi hp hc.1 hc.2
        · simp at h
      · simp at h
    · simp at h
  | load i =>
    simp only [stepFn] at h
    split at h
    · rename_i t hi
      split at h
      · rename_i hp
        simp only [Option.some.injEq] at h; subst h
        exact Step.load s i t hi hp
      · simp at h
    · simp at h
  | store i =>
    simp only [stepFn] at h
    split at h
    · rename_i t hi
      split at h
      · rename_i hc
        simp only [Option.some.injEq] at h; subst h
        exact Step.store s i t hi hc.1 hc.2
      · simp at h
    · simp at h
  | abort i =>
    simp only [stepFn] at h
    split at h
    · rename_i t hi
      split at h
      · rename_i hc
        simp only [Option.some.injEq] at h; subst h
        exact Step.abort s i t hi hc.1 hc.2
      · simp at h
    · simp at h
  | release i tb =>
    simp only [stepFn] at h
    split at h
    · rename_i t hi
      split at h
      · rename_i hc
        simp only [Option.some.injEq] at h; subst h
        exact Step.release s i t tb hi hc.1 hc.2
      · simp at h
    · simp at h
  | finish i =>
    simp only [stepFn] at h
    split at h
    · rename_i t hi
      split at h
      · rename_i hc
        simp only [Option.some.injEq] at h; subst h
        exact Step.finish s i t hi hc.1 hc.2
      · simp at h
    · simp at h
  | spawn tabs commit =>
    simp only [stepFn] at h
    split at h
    · rename_i ha
      simp only [Option.some.injEq] at h; subst h
      exact Step.spawn s { tabs, commit } (ascendingB_sound tabs ha) rfl rfl
    · simp at h

/-- replaying any event list from the initial state stays within `Reachable` -/
theorem replay_reachable (evs : List Ev) (s : State) (hr : Reachable s) :
    ∀ s', evs.foldlM stepFn s = some s' → Reachable s' := by
  induction evs generalizing s with
  | nil => intro s' h; simp at h; subst h; exact hr
  | cons e es ih =>
    intro s' h
    simp only [List.foldlM_cons, Option.bind_eq_bind] at h
    cases hs : stepFn s e with
    | none => simp [hs] at h
    | some s1 =>
      simp only [hs, Option.bind_some] at h
      exact ih s1 (Reachable.step s s1 hr (stepFn_sound s s1 e hs)) s' h

end Sdb.Serial
