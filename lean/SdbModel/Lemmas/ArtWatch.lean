import SdbModel.Model.Art

/-! Watch-channel bookkeeping of the radix tree model (Model.Art): stamp
    predicates, monotonicity of the transaction state, and the path-closure
    lemmas used by Props/C12. -/
namespace Sdb.ArtW
open Sdb.Art

/-! ## stamps -/

mutual
/-- every stamp in the subtree (inner nodes' `txn`, and `0` for every leaf,
    which is what `header.txnID()` reports for a leaf) satisfies `p` -/
def Stamps (p : Nat → Prop) : Node → Prop
  | .leaf _ _ => p 0
  | .inner _ _ lf kids _ t => p t ∧ (lf.isSome → p 0) ∧ StampsK p kids
def StampsK (p : Nat → Prop) : Kids → Prop
  | .nil => True
  | .cons _ n r => Stamps p n ∧ StampsK p r
end

mutual
theorem Stamps.mono {p q : Nat → Prop} (h : ∀ x, p x → q x) : (n : Node) → Stamps p n → Stamps q n
  | .leaf _ _, hs => by simp only [Stamps] at hs ⊢; exact h _ hs
  | .inner _ _ _ kids _ _, hs => by
    simp only [Stamps] at hs ⊢
    exact ⟨h _ hs.1, fun x => h _ (hs.2.1 x), StampsK.mono h kids hs.2.2⟩
theorem StampsK.mono {p q : Nat → Prop} (h : ∀ x, p x → q x) : (k : Kids) → StampsK p k → StampsK q k
  | .nil, _ => by simp only [StampsK]
  | .cons _ n r, hs => by
    simp only [StampsK] at hs ⊢
    exact ⟨Stamps.mono h n hs.1, StampsK.mono h r hs.2⟩
end

/-! ## the transaction state only grows -/

/-- `st'` is a later state of the same transaction: same id and mode, the
    allocator has not gone back and nothing was removed from `pending` -/
structure StLe (st st' : St) : Prop where
  id : st'.txnID = st.txnID
  ro : st'.rootOnly = st.rootOnly
  nw : st.nextW ≤ st'.nextW
  sub : ∀ c ∈ st.pending, c ∈ st'.pending

theorem StLe.refl (st : St) : StLe st st := ⟨rfl, rfl, Nat.le_refl _, fun _ h => h⟩
theorem StLe.trans {a b c : St} (h1 : StLe a b) (h2 : StLe b c) : StLe a c :=
  ⟨h2.id.trans h1.id, h2.ro.trans h1.ro, Nat.le_trans h1.nw h2.nw, fun x hx => h2.sub x (h1.sub x hx)⟩

theorem record_le (st : St) (w : Nat) : StLe st (st.record w) := by
  unfold St.record
  split
  · exact StLe.refl _
  · exact ⟨rfl, rfl, Nat.le_refl _, fun c h => List.mem_cons_of_mem _ h⟩

theorem record_mem (st : St) (w : Nat) : w = 0 ∨ w ∈ (st.record w).pending := by
  unfold St.record
  split
  · rename_i h; exact h
  · right; exact List.mem_cons_self

theorem fresh_le (st : St) : StLe st st.fresh.1 := by
  unfold St.fresh
  split
  · exact StLe.refl _
  · exact ⟨rfl, rfl, Nat.le_succ _, fun _ h => h⟩

theorem freshIf_le (st : St) (w : Nat) : StLe st (st.freshIf w).1 := by
  unfold St.freshIf
  split
  · exact StLe.refl _
  · exact ⟨rfl, rfl, Nat.le_succ _, fun _ h => h⟩


/-! ## cloneNode and friends -/

theorem cloneNode_le (st : St) (n : Node) : StLe st (cloneNode st n).1 := by
  unfold cloneNode
  split
  · exact StLe.refl _
  · cases n <;> exact (record_le _ _).trans (fresh_le _)

/-- a node that is not owned by the transaction gets its watch recorded -/
theorem cloneNode_rec (st : St) (n : Node) (h : n.txn ≠ st.txnID) :
    n.watch = 0 ∨ n.watch ∈ (cloneNode st n).1.pending := by
  unfold cloneNode
  rw [if_neg h]
  rcases record_mem st n.watch with h0 | hm
  · exact Or.inl h0
  · right
    cases n <;> exact (fresh_le _).sub _ hm

theorem cloneLeafD_le (st : St) (d : LeafD) : StLe st (cloneLeafD st d).1 := by
  unfold cloneLeafD
  split
  · exact StLe.refl _
  · exact (record_le _ _).trans (fresh_le _)

theorem cloneLeafD_rec (st : St) (d : LeafD) (h : st.txnID ≠ 0) :
    d.watch = 0 ∨ d.watch ∈ (cloneLeafD st d).1.pending := by
  unfold cloneLeafD
  rw [if_neg (fun e => h e.symm)]
  rcases record_mem st d.watch with h0 | hm
  · exact Or.inl h0
  · right; exact (fresh_le _).sub _ hm

theorem newLeafD_le (st : St) (full : List Nat) (v : Nat) : StLe st (newLeafD st full v).1 := by
  unfold newLeafD; exact fresh_le _


/-! ## insert: the state only grows -/

theorem insAt_le (P : ArtParams) (st : St) (n : Node) (key full : List Nat) (val : Nat)
    (mod : Option (Nat → Nat → Nat)) : StLe st (insAt P st n key full val mod).st := by
  unfold insAt
  simp only
  split
  · split
    · exact cloneNode_le _ _
    · exact (cloneNode_le _ _).trans (cloneLeafD_le _ _)
    · exact (cloneNode_le _ _).trans (newLeafD_le _ full val)
  · cases n with
    | leaf p d =>
      dsimp only
      exact (newLeafD_le _ full val).trans (fresh_le _)
    | inner k p lf kids w t =>
      dsimp only
      exact ((cloneNode_le _ _).trans (newLeafD_le _ full val)).trans (fresh_le _)
mutual
theorem insNode_le (P : ArtParams) (st : St) : (n : Node) → (key full : List Nat) → (val : Nat) →
    (mod : Option (Nat → Nat → Nat)) → StLe st (insNode P st n key full val mod).st
  | .leaf p d, key, full, val, mod => by
    unfold insNode; exact insAt_le ..
  | .inner kind pfx lf kids w t, key, full, val, mod => by
    unfold insNode
    split
    · simp only
      split
      · rename_i r kids' hk
        have := insKids_le P st kids _ _ full val mod r kids' hk
        exact this.trans (cloneNode_le _ _)
      · split
        · exact (((newLeafD_le _ full val).trans (record_le _ _))).trans (freshIf_le _ _)
        · exact (newLeafD_le _ full val).trans (cloneNode_le _ _)
    · exact insAt_le ..
theorem insKids_le (P : ArtParams) (st : St) : (kids : Kids) → (b : Nat) → (key full : List Nat) → (val : Nat) →
    (mod : Option (Nat → Nat → Nat)) → (r : InsRes) → (kids' : Kids) →
    insKids P st kids b key full val mod = some (r, kids') → StLe st r.st
  | .nil, b, key, full, val, mod, r, kids', h => by
    simp [insKids] at h
  | .cons c n rest, b, key, full, val, mod, r, kids', h => by
    unfold insKids at h
    split at h
    · simp only [Option.some.injEq, Prod.mk.injEq] at h
      rw [← h.1]; exact insNode_le P st n key full val mod
    · split at h
      · split at h
        · rename_i r' rest' hk
          simp only [Option.some.injEq, Prod.mk.injEq] at h
          rw [← h.1]; exact insKids_le P st rest b key full val mod r' rest' hk
        · simp at h
      · simp at h
end


/-! ## insert: path closure -/

theorem hasPrefix_drop_nil : (k p : List Nat) → hasPrefix k p = true → k.drop p.length = [] → k = p
  | _, [], _, h => by simpa using h
  | [], _ :: _, h, _ => by simp [hasPrefix] at h
  | a :: as, b :: bs, h, hd => by
    simp only [hasPrefix, Bool.and_eq_true, beq_iff_eq] at h
    simp only [List.length_cons, List.drop_succ_cons] at hd
    rw [h.1, hasPrefix_drop_nil as bs h.2 hd]

theorem commonPrefix_self : (p : List Nat) → commonPrefix p p = p
  | [] => rfl
  | a :: as => by simp [commonPrefix, commonPrefix_self as]

theorem hasPrefix_length : (k p : List Nat) → hasPrefix k p = true → p.length ≤ k.length
  | _, [], _ => by simp
  | [], _ :: _, h => by simp [hasPrefix] at h
  | a :: as, b :: bs, h => by
    simp only [hasPrefix, Bool.and_eq_true, beq_iff_eq] at h
    have := hasPrefix_length as bs h.2
    simp; omega

/-- shape of a cloned inner node -/
theorem cloneNode_inner (st : St) (k : Nat) (p : List Nat) (lf : Option LeafD) (kids : Kids) (w t : Nat) :
    ∃ w' t', (cloneNode st (.inner k p lf kids w t)).2 = .inner k p lf kids w' t' ∧
      (t' = t ∨ t' = st.txnID) := by
  unfold cloneNode
  split
  · exact ⟨w, t, rfl, Or.inl rfl⟩
  · refine ⟨_, _, rfl, Or.inr ?_⟩
    exact ((record_le _ _).trans (fresh_le _)).id

theorem cloneNode_leaf (st : St) (p : List Nat) (d : LeafD) :
    ∃ w', (cloneNode st (.leaf p d)).2 = .leaf p { d with watch := w' } := by
  unfold cloneNode
  split
  · exact ⟨d.watch, rfl⟩
  · exact ⟨_, rfl⟩

/-- exact match at `n` (`key = n.pfx`): the watch of the node's leaf is recorded -/
theorem insAt_exact_rec (P : ArtParams) (st : St) (n : Node) (full : List Nat) (val : Nat)
    (mod : Option (Nat → Nat → Nat)) (hs : Stamps (· ≠ st.txnID) n) (d : LeafD) (hd : n.getLeaf = some d) :
    d.watch = 0 ∨ d.watch ∈ (insAt P st n n.pfx full val mod).st.pending := by
  unfold insAt
  simp only [commonPrefix_self, and_self, if_true]
  cases n with
  | leaf p d' =>
    simp only [Node.getLeaf, Option.some.injEq] at hd
    subst hd
    obtain ⟨w', he⟩ := cloneNode_leaf st p d'
    rw [he]
    simp only [Stamps] at hs
    exact cloneNode_rec st (.leaf p d') (by simpa [Node.txn] using hs)
  | inner k p lf kids w t =>
    simp only [Node.getLeaf] at hd
    subst hd
    obtain ⟨w', t', he, _⟩ := cloneNode_inner st k p (some d) kids w t
    rw [he]
    simp only [Stamps] at hs
    have := cloneLeafD_rec (cloneNode st (.inner k p (some d) kids w t)).1 d
      (by rw [(cloneNode_le _ _).id]; exact fun e => hs.2.1 rfl e.symm)
    exact this


/-- `insAt` on an inner node not owned by the transaction records its watch (both branches clone it) -/
theorem insAt_inner_rec (P : ArtParams) (st : St) (k : Nat) (p : List Nat) (lf : Option LeafD) (kids : Kids) (w t : Nat)
    (key full : List Nat) (val : Nat) (mod : Option (Nat → Nat → Nat)) (ht : t ≠ st.txnID) :
    w = 0 ∨ w ∈ (insAt P st (.inner k p lf kids w t) key full val mod).st.pending := by
  rcases cloneNode_rec st (.inner k p lf kids w t) ht with h0 | hm
  · exact Or.inl h0
  · right
    simp only [Node.watch] at hm
    unfold insAt
    simp only
    split
    · obtain ⟨w', t', he, _⟩ := cloneNode_inner st k p lf kids w t
      rw [he]
      cases lf with
      | some d => exact (cloneLeafD_le _ _).sub _ hm
      | none => exact (newLeafD_le _ full val).sub _ hm
    · exact ((newLeafD_le _ full val).trans (fresh_le _)).sub _ hm

/-- every insert that reaches an inner node not owned by the transaction records that node's watch -/
theorem insNode_inner_rec (P : ArtParams) (st : St) (k : Nat) (p : List Nat) (lf : Option LeafD) (kids : Kids) (w t : Nat)
    (key full : List Nat) (val : Nat) (mod : Option (Nat → Nat → Nat)) (ht : t ≠ st.txnID) :
    w = 0 ∨ w ∈ (insNode P st (.inner k p lf kids w t) key full val mod).st.pending := by
  unfold insNode
  split
  · simp only
    split
    · rename_i r kids' hk
      have hle := insKids_le P st kids _ _ full val mod r kids' hk
      exact cloneNode_rec r.st (.inner k p lf kids' w t) (by rw [hle.id]; exact ht)
    · split
      · rcases record_mem (newLeafD st full val).1 w with h0 | hm
        · exact Or.inl h0
        · exact Or.inr ((freshIf_le _ _).sub _ hm)
      · exact cloneNode_rec _ (.inner k p lf _ w t) (by rw [(newLeafD_le st full val).id]; exact ht)
  · exact insAt_inner_rec P st k p lf kids w t key full val mod ht

theorem searchNode_leaf (p : List Nat) (d : LeafD) (w : Nat) (key : List Nat) :
    (searchNode (.leaf p d) w key).2 = w ∨
    (key = p ∧ d.watch ≠ 0 ∧ (searchNode (.leaf p d) w key).2 = d.watch) := by
  unfold searchNode
  simp only [Node.pfx, Node.getLeaf]
  by_cases hp : hasPrefix key p = true
  · simp only [hp, if_true]
    cases hk : List.drop p.length key with
    | nil =>
      by_cases h0 : d.watch = 0
      · left; simp [h0]
      · right; exact ⟨hasPrefix_drop_nil _ _ hp hk, h0, by simp [h0]⟩
    | cons b r => left; rfl
  · left; simp [hp]

mutual
theorem insNode_closes (P : ArtParams) (st : St) : (n : Node) → (key full : List Nat) → (val : Nat) →
    (mod : Option (Nat → Nat → Nat)) → (w : Nat) → Stamps (· ≠ st.txnID) n →
    (searchNode n w key).2 = w ∨ (searchNode n w key).2 ∈ (insNode P st n key full val mod).st.pending
  | .leaf p d, key, full, val, mod, w, hs => by
    rcases searchNode_leaf p d w key with h | ⟨hk, h0, hc⟩
    · exact Or.inl h
    · right
      rw [hc]; unfold insNode; subst hk
      have := insAt_exact_rec P st (.leaf key d) full val mod hs d rfl
      simpa [h0, Node.pfx] using this
  | .inner kind pfx lf kids nw t, key, full, val, mod, w, hs => by
    have hs' := hs
    simp only [Stamps] at hs'
    have hA := insNode_inner_rec P st kind pfx lf kids nw t key full val mod hs'.1
    by_cases hp : hasPrefix key pfx = true
    · cases hk : List.drop pfx.length key with
      | nil =>
        have hkp := hasPrefix_drop_nil _ _ hp hk
        subst hkp
        unfold searchNode insNode
        simp only [Node.pfx, hp, if_true, hk, Node.getLeaf, ne_eq, not_true_eq_false, and_false, if_false]
        cases lf with
        | none => left; rfl
        | some d =>
          by_cases h0 : d.watch = 0
          · left; simp [h0]
          · right
            have := insAt_exact_rec P st (.inner kind key (some d) kids nw t) full val mod hs d rfl
            simpa [h0, Node.pfx] using this
      | cons b r =>
        have hlen := hasPrefix_length _ _ hp
        have hne : key ≠ [] := by intro e; subst e; simp at hk
        have hl : key.length ≠ pfx.length := by
          intro e
          have : (List.drop pfx.length key).length = 0 := by simp [e]
          rw [hk] at this; simp at this
        have ih := insKids_closes P st kids b (b :: r) full val mod (if nw ≠ 0 then nw else w) hs'.2.2
        have hsearch : (searchNode (.inner kind pfx lf kids nw t) w key).2
            = (searchK kids b (if nw ≠ 0 then nw else w) (b :: r)).2 := by
          unfold searchNode
          simp only [Node.pfx, hp, if_true, hk]
        rw [hsearch]
        -- the closest watch so far is `w` or this node's watch, which is recorded
        have hw' : ∀ c, c = (if nw ≠ 0 then nw else w) →
            c = w ∨ c ∈ (insNode P st (.inner kind pfx lf kids nw t) key full val mod).st.pending := by
          intro c hc
          by_cases h0 : nw = 0
          · left; simpa [h0] using hc
          · right
            have : c = nw := by simpa [h0] using hc
            rw [this]
            rcases hA with hA | hA
            · exact absurd hA h0
            · exact hA
        cases hins : insKids P st kids b (b :: r) full val mod with
        | none =>
          rw [hins] at ih
          exact hw' _ ih
        | some x =>
          obtain ⟨r', kids'⟩ := x
          rw [hins] at ih
          rcases ih with ih | ih
          · exact hw' _ ih
          · right
            unfold insNode
            simp only [hne, hp, hl, ne_eq, not_false_eq_true, and_self, if_true, hk, List.headD_cons, hins]
            exact (cloneNode_le _ _).sub _ ih
    · left
      unfold searchNode
      simp [Node.pfx, hp]
theorem insKids_closes (P : ArtParams) (st : St) : (kids : Kids) → (b : Nat) → (key full : List Nat) → (val : Nat) →
    (mod : Option (Nat → Nat → Nat)) → (w : Nat) → StampsK (· ≠ st.txnID) kids →
    match insKids P st kids b key full val mod with
    | some (r, _) => (searchK kids b w key).2 = w ∨ (searchK kids b w key).2 ∈ r.st.pending
    | none => (searchK kids b w key).2 = w
  | .nil, b, key, full, val, mod, w, hs => by
    simp [insKids, searchK]
  | .cons c n rest, b, key, full, val, mod, w, hs => by
    simp only [StampsK] at hs
    unfold insKids searchK
    by_cases hcb : c = b
    · simp only [hcb, if_true]
      exact insNode_closes P st n key full val mod w hs.1
    · simp only [hcb, if_false]
      by_cases hlt : c < b
      · simp only [hlt, if_true]
        have := insKids_closes P st rest b key full val mod w hs.2
        cases hk : insKids P st rest b key full val mod with
        | none => rw [hk] at this; exact this
        | some x => rw [hk] at this; exact this
      · simp only [hlt, if_false]
end



/-! ## delete: the state only grows -/

/-- the transaction state a deletion ends in (none when the key was absent) -/
def delSt : DelRes → Option St
  | .notFound => none
  | .replaced st _ _ => some st
  | .removed st _ => some st

theorem removeChild_le (P : ArtParams) (st : St) (kind : Nat) (pfx : List Nat) (lf : Option LeafD) (kids : Kids)
    (w t b : Nat) : StLe st (removeChild P st kind pfx lf kids w t b).1 := by
  unfold removeChild
  simp only
  split
  · split <;> exact record_le _ _
  · split
    · exact (freshIf_le _ _).trans (record_le _ _)
    · exact cloneNode_le _ _

/-- `removeChild` always records the parent's watch (merge, demotion, or plain clone) -/
theorem removeChild_rec (P : ArtParams) (st : St) (kind : Nat) (pfx : List Nat) (lf : Option LeafD) (kids : Kids)
    (w t b : Nat) (ht : t ≠ st.txnID) : w = 0 ∨ w ∈ (removeChild P st kind pfx lf kids w t b).1.pending := by
  unfold removeChild
  simp only
  split
  · split <;> exact record_mem _ _
  · split
    · exact record_mem _ _
    · exact cloneNode_rec st (.inner kind pfx lf _ w t) ht

theorem delAt_le (st : St) (n : Node) (st' : St) (h : delSt (delAt st n) = some st') : StLe st st' := by
  unfold delAt at h
  split at h
  · simp [delSt] at h
  · cases n with
    | leaf p d' =>
      simp only [delSt, Option.some.injEq] at h
      rw [← h]; exact (record_le _ _).trans (record_le _ _)
    | inner kind pfx lf kids w t =>
      simp only at h
      split at h
      · split at h
        · simp only [delSt, Option.some.injEq] at h
          rw [← h]; exact (record_le _ _).trans (record_le _ _)
        · simp [delSt] at h
      · split at h
        · simp only [delSt, Option.some.injEq] at h
          rw [← h]; exact (record_le _ _).trans (cloneNode_le _ _)
        · simp only [delSt, Option.some.injEq] at h
          rw [← h]; exact (record_le _ _).trans (record_le _ _)

/-- deleting at the target node records the watch of its leaf … -/
theorem delAt_rec_leaf (st : St) (n : Node) (st' : St) (h : delSt (delAt st n) = some st')
    (d : LeafD) (hd : n.getLeaf = some d) : d.watch = 0 ∨ d.watch ∈ st'.pending := by
  rcases record_mem st d.watch with h0 | hm
  · exact Or.inl h0
  · right
    unfold delAt at h
    rw [hd] at h
    cases n with
    | leaf p d' =>
      simp only [delSt, Option.some.injEq] at h
      rw [← h]; exact (record_le _ _).sub _ hm
    | inner kind pfx lf kids w t =>
      simp only at h
      split at h
      · split at h
        · simp only [delSt, Option.some.injEq] at h
          rw [← h]; exact (record_le _ _).sub _ hm
        · simp [delSt] at h
      · split at h
        · simp only [delSt, Option.some.injEq] at h
          rw [← h]; exact (cloneNode_le _ _).sub _ hm
        · simp only [delSt, Option.some.injEq] at h
          rw [← h]; exact (record_le _ _).sub _ hm

/-- … and, for an inner target not owned by the transaction, the node's own watch -/
theorem delAt_rec_inner (st : St) (kind : Nat) (pfx : List Nat) (lf : Option LeafD) (kids : Kids) (w t : Nat)
    (st' : St) (h : delSt (delAt st (.inner kind pfx lf kids w t)) = some st') (ht : t ≠ st.txnID) :
    w = 0 ∨ w ∈ st'.pending := by
  unfold delAt at h
  split at h
  · simp [delSt] at h
  · simp only at h
    split at h
    · split at h
      · simp only [delSt, Option.some.injEq] at h
        rw [← h]; exact record_mem _ _
      · simp [delSt] at h
    · split at h
      · simp only [delSt, Option.some.injEq] at h
        rw [← h]
        exact cloneNode_rec _ (.inner kind pfx none kids w t) (by rw [(record_le _ _).id]; exact ht)
      · simp only [delSt, Option.some.injEq] at h
        rw [← h]; exact record_mem _ _


theorem delNode_noprefix (P : ArtParams) (st : St) (n : Node) (key : List Nat) (hp : ¬ hasPrefix key n.pfx = true) :
    delNode P st n key = .notFound := by
  cases n <;> (unfold delNode; simp only [hp]; rfl)

theorem delNode_nil (P : ArtParams) (st : St) (n : Node) (key : List Nat) (hp : hasPrefix key n.pfx = true)
    (hk : key.drop n.pfx.length = []) : delNode P st n key = delAt st n := by
  cases n <;> (unfold delNode; simp only [hp, if_true, hk])

theorem delNode_leaf_cons (P : ArtParams) (st : St) (p : List Nat) (d : LeafD) (key : List Nat) (b : Nat) (r : List Nat)
    (hk : key.drop p.length = b :: r) : delNode P st (.leaf p d) key = .notFound := by
  unfold delNode; simp only [Node.pfx, hk]; split <;> rfl

theorem delNode_inner_cons (P : ArtParams) (st : St) (kind : Nat) (pfx : List Nat) (lf : Option LeafD) (kids : Kids)
    (w t : Nat) (key : List Nat) (b : Nat) (r : List Nat) (hp : hasPrefix key pfx = true)
    (hk : key.drop pfx.length = b :: r) :
    delNode P st (.inner kind pfx lf kids w t) key =
      match delKids P st kids b (b :: r) with
      | none => .notFound
      | some (.notFound, _) => .notFound
      | some (.replaced st' _ old, kids') =>
        .replaced (cloneNode st' (.inner kind pfx lf kids' w t)).1 (cloneNode st' (.inner kind pfx lf kids' w t)).2 old
      | some (.removed st' old, _) =>
        .replaced (removeChild P st' kind pfx lf kids w t b).1 (removeChild P st' kind pfx lf kids w t b).2 old := by
  unfold delNode; simp only [Node.pfx, hp, if_true, hk]
  cases delKids P st kids b (b :: r) with
  | none => rfl
  | some x => obtain ⟨r', k'⟩ := x; cases r' <;> rfl

theorem delKids_cons (P : ArtParams) (st : St) (c : Nat) (n : Node) (rest : Kids) (b : Nat) (key : List Nat) :
    delKids P st (.cons c n rest) b key =
      if c = b then
        match delNode P st n key with
        | .replaced st' n' old => some (.replaced st' n' old, .cons c n' rest)
        | r => some (r, .cons c n rest)
      else if c < b then
        match delKids P st rest b key with
        | some (r, rest') => some (r, .cons c n rest')
        | none => none
      else none := by
  rw [delKids]
  by_cases hcb : c = b
  · simp only [hcb, if_true]; cases delNode P st n key <;> rfl
  · simp only [hcb, if_false]
    by_cases hlt : c < b
    · simp only [hlt, if_true]
      cases delKids P st rest b key with
      | none => rfl
      | some x => rfl
    · simp only [hlt, if_false]


/-- inversion of a successful delete below an inner node -/
theorem delNode_inner_inv (P : ArtParams) (st : St) (kind : Nat) (pfx : List Nat) (lf : Option LeafD) (kids : Kids)
    (w t : Nat) (key : List Nat) (st' : St)
    (h : delSt (delNode P st (.inner kind pfx lf kids w t) key) = some st') :
    hasPrefix key pfx = true ∧
    ((key.drop pfx.length = [] ∧ delSt (delAt st (.inner kind pfx lf kids w t)) = some st') ∨
     (∃ b r, key.drop pfx.length = b :: r ∧
        ((∃ st1 n1 old kids', delKids P st kids b (b :: r) = some (.replaced st1 n1 old, kids') ∧
            st' = (cloneNode st1 (.inner kind pfx lf kids' w t)).1) ∨
         (∃ st1 old kids', delKids P st kids b (b :: r) = some (.removed st1 old, kids') ∧
            st' = (removeChild P st1 kind pfx lf kids w t b).1)))) := by
  by_cases hp : hasPrefix key pfx = true
  · refine ⟨hp, ?_⟩
    cases hk : key.drop pfx.length with
    | nil =>
      left
      rw [delNode_nil P st (.inner kind pfx lf kids w t) key hp hk] at h
      exact ⟨rfl, h⟩
    | cons b r =>
      right
      refine ⟨b, r, rfl, ?_⟩
      rw [delNode_inner_cons P st kind pfx lf kids w t key b r hp hk] at h
      cases hdk : delKids P st kids b (b :: r) with
      | none => rw [hdk] at h; simp [delSt] at h
      | some x =>
        obtain ⟨r', k'⟩ := x
        rw [hdk] at h
        cases r' with
        | notFound => simp [delSt] at h
        | replaced st1 n1 old =>
          left
          simp only [delSt, Option.some.injEq] at h
          exact ⟨st1, n1, old, k', rfl, h.symm⟩
        | removed st1 old =>
          right
          simp only [delSt, Option.some.injEq] at h
          exact ⟨st1, old, k', rfl, h.symm⟩
  · rw [delNode_noprefix P st (.inner kind pfx lf kids w t) key hp] at h
    simp [delSt] at h

/-- inversion of a delete on a leaf -/
theorem delNode_leaf_inv (P : ArtParams) (st : St) (p : List Nat) (d : LeafD) (key : List Nat) (st' : St)
    (h : delSt (delNode P st (.leaf p d) key) = some st') :
    key = p ∧ delSt (delAt st (.leaf p d)) = some st' := by
  by_cases hp : hasPrefix key p = true
  · cases hk : key.drop p.length with
    | nil =>
      rw [delNode_nil P st (.leaf p d) key hp hk] at h
      exact ⟨hasPrefix_drop_nil _ _ hp hk, h⟩
    | cons b r =>
      rw [delNode_leaf_cons P st p d key b r hk] at h
      simp [delSt] at h
  · rw [delNode_noprefix P st (.leaf p d) key hp] at h
    simp [delSt] at h

/-- inversion of `delKids` -/
theorem delKids_inv (P : ArtParams) (st : St) (c : Nat) (n : Node) (rest : Kids) (b : Nat) (key : List Nat)
    (r : DelRes) (kids' : Kids) (h : delKids P st (.cons c n rest) b key = some (r, kids')) :
    (c = b ∧ r = delNode P st n key) ∨
    (c < b ∧ ∃ rest', delKids P st rest b key = some (r, rest')) := by
  rw [delKids_cons] at h
  by_cases hcb : c = b
  · left
    simp only [hcb, if_true] at h
    refine ⟨hcb, ?_⟩
    cases hd : delNode P st n key <;> rw [hd] at h <;> simp at h <;> simp [h.1]
  · right
    simp only [hcb, if_false] at h
    by_cases hlt : c < b
    · simp only [hlt, if_true] at h
      refine ⟨hlt, ?_⟩
      cases hd : delKids P st rest b key with
      | none => rw [hd] at h; simp at h
      | some x =>
        obtain ⟨r', rest'⟩ := x
        rw [hd] at h
        simp only [Option.some.injEq, Prod.mk.injEq] at h
        exact ⟨rest', by rw [h.1]⟩
    · simp [hlt] at h

mutual
theorem delNode_le (P : ArtParams) (st : St) : (n : Node) → (key : List Nat) → (st' : St) →
    delSt (delNode P st n key) = some st' → StLe st st'
  | .leaf p d, key, st', h => delAt_le _ _ _ (delNode_leaf_inv P st p d key st' h).2
  | .inner kind pfx lf kids w t, key, st', h => by
    obtain ⟨_, h⟩ := delNode_inner_inv P st kind pfx lf kids w t key st' h
    rcases h with ⟨_, h⟩ | ⟨b, r, _, ⟨st1, n1, old, kids', hdk, he⟩ | ⟨st1, old, kids', hdk, he⟩⟩
    · exact delAt_le _ _ _ h
    · rw [he]; exact (delKids_le P st kids b _ _ kids' st1 hdk rfl).trans (cloneNode_le _ _)
    · rw [he]; exact (delKids_le P st kids b _ _ kids' st1 hdk rfl).trans (removeChild_le ..)
theorem delKids_le (P : ArtParams) (st : St) : (kids : Kids) → (b : Nat) → (key : List Nat) → (r : DelRes) →
    (kids' : Kids) → (st' : St) → delKids P st kids b key = some (r, kids') → delSt r = some st' → StLe st st'
  | .nil, b, key, r, kids', st', h, hr => by simp [delKids] at h
  | .cons c n rest, b, key, r, kids', st', h, hr => by
    rcases delKids_inv P st c n rest b key r kids' h with ⟨_, he⟩ | ⟨_, rest', hk⟩
    · rw [he] at hr; exact delNode_le P st n key st' hr
    · exact delKids_le P st rest b key r rest' st' hk hr
end



/-! ## delete: path closure -/

/-- every successful delete that passes through an inner node not owned by the
    transaction records that node's watch -/
theorem delNode_inner_rec (P : ArtParams) (st : St) (kind : Nat) (pfx : List Nat) (lf : Option LeafD) (kids : Kids)
    (w t : Nat) (key : List Nat) (st' : St) (ht : t ≠ st.txnID)
    (h : delSt (delNode P st (.inner kind pfx lf kids w t) key) = some st') : w = 0 ∨ w ∈ st'.pending := by
  obtain ⟨_, h⟩ := delNode_inner_inv P st kind pfx lf kids w t key st' h
  rcases h with ⟨_, h⟩ | ⟨b, r, _, ⟨st1, n1, old, kids', hdk, he⟩ | ⟨st1, old, kids', hdk, he⟩⟩
  · exact delAt_rec_inner st kind pfx lf kids w t st' h ht
  · rw [he]
    have hle := delKids_le P st kids b _ _ kids' st1 hdk rfl
    exact cloneNode_rec st1 (.inner kind pfx lf kids' w t) (by rw [hle.id]; exact ht)
  · rw [he]
    have hle := delKids_le P st kids b _ _ kids' st1 hdk rfl
    exact removeChild_rec P st1 kind pfx lf kids w t b (by rw [hle.id]; exact ht)

mutual
theorem delNode_closes (P : ArtParams) (st : St) : (n : Node) → (key : List Nat) → (w : Nat) → (st' : St) →
    Stamps (· ≠ st.txnID) n → delSt (delNode P st n key) = some st' →
    (searchNode n w key).2 = w ∨ (searchNode n w key).2 ∈ st'.pending
  | .leaf p d, key, w, st', hs, h => by
    obtain ⟨hk, h⟩ := delNode_leaf_inv P st p d key st' h
    rcases searchNode_leaf p d w key with hw | ⟨_, h0, hc⟩
    · exact Or.inl hw
    · right; rw [hc]
      rcases delAt_rec_leaf st (.leaf p d) st' h d rfl with h | h
      · exact absurd h h0
      · exact h
  | .inner kind pfx lf kids nw t, key, w, st', hs, h => by
    have hs' := hs
    simp only [Stamps] at hs'
    have hA := delNode_inner_rec P st kind pfx lf kids nw t key st' hs'.1 h
    obtain ⟨hp, h⟩ := delNode_inner_inv P st kind pfx lf kids nw t key st' h
    have hw' : ∀ c, c = (if nw ≠ 0 then nw else w) → c = w ∨ c ∈ st'.pending := by
      intro c hc
      by_cases h0 : nw = 0
      · left; simpa [h0] using hc
      · right
        have : c = nw := by simpa [h0] using hc
        rw [this]
        rcases hA with hA | hA
        · exact absurd hA h0
        · exact hA
    rcases h with ⟨hk, h⟩ | ⟨b, r, hk, h⟩
    · unfold searchNode
      simp only [Node.pfx, hp, if_true, hk, Node.getLeaf]
      cases lf with
      | none => left; rfl
      | some d =>
        by_cases h0 : d.watch = 0
        · left; simp [h0]
        · right
          rcases delAt_rec_leaf st (.inner kind pfx (some d) kids nw t) st' h d rfl with h | h
          · exact absurd h h0
          · simpa [h0] using h
    · have hsearch : (searchNode (.inner kind pfx lf kids nw t) w key).2
          = (searchK kids b (if nw ≠ 0 then nw else w) (b :: r)).2 := by
        unfold searchNode
        simp only [Node.pfx, hp, if_true, hk]
      rw [hsearch]
      rcases h with ⟨st1, n1, old, kids', hdk, he⟩ | ⟨st1, old, kids', hdk, he⟩
      · rcases delKids_closes P st kids b (b :: r) (if nw ≠ 0 then nw else w) _ kids' st1 hs'.2.2 hdk rfl with ih | ih
        · exact hw' _ ih
        · right; rw [he]; exact (cloneNode_le _ _).sub _ ih
      · rcases delKids_closes P st kids b (b :: r) (if nw ≠ 0 then nw else w) _ kids' st1 hs'.2.2 hdk rfl with ih | ih
        · exact hw' _ ih
        · right; rw [he]; exact (removeChild_le ..).sub _ ih
theorem delKids_closes (P : ArtParams) (st : St) : (kids : Kids) → (b : Nat) → (key : List Nat) → (w : Nat) →
    (r : DelRes) → (kids' : Kids) → (st' : St) → StampsK (· ≠ st.txnID) kids →
    delKids P st kids b key = some (r, kids') → delSt r = some st' →
    (searchK kids b w key).2 = w ∨ (searchK kids b w key).2 ∈ st'.pending
  | .nil, b, key, w, r, kids', st', hs, h, hr => by simp [delKids] at h
  | .cons c n rest, b, key, w, r, kids', st', hs, h, hr => by
    simp only [StampsK] at hs
    unfold searchK
    rcases delKids_inv P st c n rest b key r kids' h with ⟨hcb, he⟩ | ⟨hlt, rest', hk⟩
    · simp only [hcb, if_true]
      rw [he] at hr
      exact delNode_closes P st n key w st' hs.1 hr
    · have : ¬ c = b := by omega
      simp only [this, if_false, hlt, if_true]
      exact delKids_closes P st rest b key w r rest' st' hs.2 hk hr
end



/-! ## prefix watch: path closure -/

theorem hasPrefix_trans : (k p q : List Nat) → hasPrefix k p = true → hasPrefix p q = true → hasPrefix k q = true
  | _, _, [], _, _ => by simp [hasPrefix]
  | _, [], _ :: _, _, h => by simp [hasPrefix] at h
  | [], _ :: _, _ :: _, h, _ => by simp [hasPrefix] at h
  | a :: as, b :: bs, c :: cs, h1, h2 => by
    simp only [hasPrefix, Bool.and_eq_true, beq_iff_eq] at h1 h2 ⊢
    exact ⟨h1.1.trans h2.1, hasPrefix_trans as bs cs h1.2 h2.2⟩

theorem hasPrefix_dropN : (n : Nat) → (k p : List Nat) → hasPrefix k p = true → hasPrefix (k.drop n) (p.drop n) = true
  | 0, _, _, h => by simpa using h
  | _ + 1, _, [], _ => by simp [hasPrefix]
  | _ + 1, [], _ :: _, h => by simp [hasPrefix] at h
  | n + 1, a :: as, b :: bs, h => by
    simp only [hasPrefix, Bool.and_eq_true, beq_iff_eq] at h
    simpa using hasPrefix_dropN n as bs h.2

theorem hasPrefix_take (p q : List Nat) : hasPrefix p (p.take q.length) = true := by
  induction p generalizing q with
  | nil => simp [hasPrefix]
  | cons a as ih =>
    cases q with
    | nil => simp [hasPrefix]
    | cons b bs => simp [hasPrefix, ih bs]

theorem hasPrefix_cons_inv (x : List Nat) (b : Nat) (r : List Nat) (h : hasPrefix x (b :: r) = true) :
    ∃ r', x = b :: r' ∧ hasPrefix r' r = true := by
  cases x with
  | nil => simp [hasPrefix] at h
  | cons a as =>
    simp only [hasPrefix, Bool.and_eq_true, beq_iff_eq] at h
    exact ⟨as, by rw [h.1], h.2⟩

theorem prefixNode_leaf (p : List Nat) (d : LeafD) (w : Nat) (q : List Nat) :
    (prefixNode (.leaf p d) w q).2 = w := by
  unfold prefixNode
  simp only [Node.isLeaf, Node.pfx, Bool.not_true, Bool.false_eq_true, false_and, if_false]
  by_cases hp : hasPrefix q (List.take (min q.length p.length) p) = true
  · simp only [hp, Bool.not_true, Bool.false_eq_true, if_false]
    cases List.drop (List.take (min q.length p.length) p).length q <;> rfl
  · simp [hp]

/-- what `prefixNode` does at an inner node: stop with `w`, stop with the node's
    (or the inherited) watch, or descend into child `b` -/
theorem prefixNode_inner (kind : Nat) (pfx : List Nat) (lf : Option LeafD) (kids : Kids) (nw t w : Nat) (q : List Nat) :
    (prefixNode (.inner kind pfx lf kids nw t) w q).2 = w ∨
    (prefixNode (.inner kind pfx lf kids nw t) w q).2 = (if nw ≠ 0 then nw else w) ∨
    (∃ b r, hasPrefix q pfx = true ∧ q.drop pfx.length = b :: r ∧
      (prefixNode (.inner kind pfx lf kids nw t) w q).2 = (prefixK kids b (if nw ≠ 0 then nw else w) (b :: r)).2) := by
  unfold prefixNode
  simp only [Node.isLeaf, Node.pfx, Node.watch]
  by_cases hp : hasPrefix q (List.take (min q.length pfx.length) pfx) = true
  · simp only [hp, Bool.not_true, Bool.false_eq_true, if_false, Bool.not_false, true_and]
    cases hk : List.drop (List.take (min q.length pfx.length) pfx).length q with
    | nil => right; left; rfl
    | cons b r =>
      right; right
      have hlen : pfx.length < q.length := by
        have : (List.drop (List.take (min q.length pfx.length) pfx).length q).length ≠ 0 := by rw [hk]; simp
        simp only [List.length_drop, List.length_take] at this
        omega
      have hmin : min q.length pfx.length = pfx.length := by omega
      rw [hmin, List.take_length] at hp hk
      refine ⟨b, r, hp, hk, ?_⟩
      rfl
  · left; simp [hp]

/-- the key of a change below prefix `q` continues, after the node's prefix, with the same byte as `q` -/
theorem key_follows_prefix (key q pfx : List Nat) (b : Nat) (r : List Nat) (hkq : hasPrefix key q = true)
    (hq : hasPrefix q pfx = true) (hd : q.drop pfx.length = b :: r) :
    hasPrefix key pfx = true ∧ ∃ r', key.drop pfx.length = b :: r' ∧ hasPrefix (b :: r') (b :: r) = true := by
  refine ⟨hasPrefix_trans _ _ _ hkq hq, ?_⟩
  have := hasPrefix_dropN pfx.length key q hkq
  rw [hd] at this
  obtain ⟨r', he, hr⟩ := hasPrefix_cons_inv _ b r this
  exact ⟨r', he, by rw [← he]; exact this⟩

mutual
theorem insNode_closes_prefix (P : ArtParams) (st : St) : (n : Node) → (key full : List Nat) → (val : Nat) →
    (mod : Option (Nat → Nat → Nat)) → (w : Nat) → (q : List Nat) → Stamps (· ≠ st.txnID) n →
    hasPrefix key q = true →
    (prefixNode n w q).2 = w ∨ (prefixNode n w q).2 ∈ (insNode P st n key full val mod).st.pending
  | .leaf p d, key, full, val, mod, w, q, hs, hkq => Or.inl (prefixNode_leaf p d w q)
  | .inner kind pfx lf kids nw t, key, full, val, mod, w, q, hs, hkq => by
    have hs' := hs
    simp only [Stamps] at hs'
    have hA := insNode_inner_rec P st kind pfx lf kids nw t key full val mod hs'.1
    have hw' : ∀ c, c = (if nw ≠ 0 then nw else w) →
        c = w ∨ c ∈ (insNode P st (.inner kind pfx lf kids nw t) key full val mod).st.pending := by
      intro c hc
      by_cases h0 : nw = 0
      · left; simpa [h0] using hc
      · right
        have : c = nw := by simpa [h0] using hc
        rw [this]
        rcases hA with hA | hA
        · exact absurd hA h0
        · exact hA
    rcases prefixNode_inner kind pfx lf kids nw t w q with h | h | ⟨b, r, hq, hd, h⟩
    · exact Or.inl h
    · exact hw' _ h
    · rw [h]
      obtain ⟨hp, r', hk, hkr⟩ := key_follows_prefix key q pfx b r hkq hq hd
      have hne : key ≠ [] := by intro e; subst e; simp at hk
      have hl : key.length ≠ pfx.length := by
        intro e
        have : (List.drop pfx.length key).length = 0 := by simp [e]
        rw [hk] at this; simp at this
      have ih := insKids_closes_prefix P st kids b (b :: r') full val mod (if nw ≠ 0 then nw else w) (b :: r) hs'.2.2 hkr
      cases hins : insKids P st kids b (b :: r') full val mod with
      | none =>
        rw [hins] at ih
        exact hw' _ ih
      | some x =>
        obtain ⟨res, kids'⟩ := x
        rw [hins] at ih
        rcases ih with ih | ih
        · exact hw' _ ih
        · right
          unfold insNode
          simp only [hne, hp, hl, ne_eq, not_false_eq_true, and_self, if_true, hk, List.headD_cons, hins]
          exact (cloneNode_le _ _).sub _ ih
theorem insKids_closes_prefix (P : ArtParams) (st : St) : (kids : Kids) → (b : Nat) → (key full : List Nat) →
    (val : Nat) → (mod : Option (Nat → Nat → Nat)) → (w : Nat) → (q : List Nat) → StampsK (· ≠ st.txnID) kids →
    hasPrefix key q = true →
    match insKids P st kids b key full val mod with
    | some (r, _) => (prefixK kids b w q).2 = w ∨ (prefixK kids b w q).2 ∈ r.st.pending
    | none => (prefixK kids b w q).2 = w
  | .nil, b, key, full, val, mod, w, q, hs, hkq => by
    simp [insKids, prefixK]
  | .cons c n rest, b, key, full, val, mod, w, q, hs, hkq => by
    simp only [StampsK] at hs
    unfold insKids prefixK
    by_cases hcb : c = b
    · simp only [hcb, if_true]
      exact insNode_closes_prefix P st n key full val mod w q hs.1 hkq
    · simp only [hcb, if_false]
      by_cases hlt : c < b
      · simp only [hlt, if_true]
        have := insKids_closes_prefix P st rest b key full val mod w q hs.2 hkq
        cases hk : insKids P st rest b key full val mod with
        | none => rw [hk] at this; exact this
        | some x => rw [hk] at this; exact this
      · simp only [hlt, if_false]
end

mutual
theorem delNode_closes_prefix (P : ArtParams) (st : St) : (n : Node) → (key : List Nat) → (w : Nat) → (q : List Nat) →
    (st' : St) → Stamps (· ≠ st.txnID) n → hasPrefix key q = true → delSt (delNode P st n key) = some st' →
    (prefixNode n w q).2 = w ∨ (prefixNode n w q).2 ∈ st'.pending
  | .leaf p d, key, w, q, st', hs, hkq, h => Or.inl (prefixNode_leaf p d w q)
  | .inner kind pfx lf kids nw t, key, w, q, st', hs, hkq, h => by
    have hs' := hs
    simp only [Stamps] at hs'
    have hA := delNode_inner_rec P st kind pfx lf kids nw t key st' hs'.1 h
    have hw' : ∀ c, c = (if nw ≠ 0 then nw else w) → c = w ∨ c ∈ st'.pending := by
      intro c hc
      by_cases h0 : nw = 0
      · left; simpa [h0] using hc
      · right
        have : c = nw := by simpa [h0] using hc
        rw [this]
        rcases hA with hA | hA
        · exact absurd hA h0
        · exact hA
    rcases prefixNode_inner kind pfx lf kids nw t w q with hq | hq | ⟨b, r, hq, hd, hpn⟩
    · exact Or.inl hq
    · exact hw' _ hq
    · rw [hpn]
      obtain ⟨hp, r', hk, hkr⟩ := key_follows_prefix key q pfx b r hkq hq hd
      obtain ⟨_, h⟩ := delNode_inner_inv P st kind pfx lf kids nw t key st' h
      rcases h with ⟨hk0, _⟩ | ⟨b', r'', hk', h⟩
      · rw [hk] at hk0; simp at hk0
      · rw [hk] at hk'
        simp only [List.cons.injEq] at hk'
        obtain ⟨hb, hr⟩ := hk'
        subst hb; subst hr
        rcases h with ⟨st1, n1, old, kids', hdk, he⟩ | ⟨st1, old, kids', hdk, he⟩
        · rcases delKids_closes_prefix P st kids b (b :: r') (if nw ≠ 0 then nw else w) (b :: r) _ kids' st1 hs'.2.2 hkr hdk rfl with ih | ih
          · exact hw' _ ih
          · right; rw [he]; exact (cloneNode_le _ _).sub _ ih
        · rcases delKids_closes_prefix P st kids b (b :: r') (if nw ≠ 0 then nw else w) (b :: r) _ kids' st1 hs'.2.2 hkr hdk rfl with ih | ih
          · exact hw' _ ih
          · right; rw [he]; exact (removeChild_le ..).sub _ ih
theorem delKids_closes_prefix (P : ArtParams) (st : St) : (kids : Kids) → (b : Nat) → (key : List Nat) → (w : Nat) →
    (q : List Nat) → (r : DelRes) → (kids' : Kids) → (st' : St) → StampsK (· ≠ st.txnID) kids →
    hasPrefix key q = true → delKids P st kids b key = some (r, kids') → delSt r = some st' →
    (prefixK kids b w q).2 = w ∨ (prefixK kids b w q).2 ∈ st'.pending
  | .nil, b, key, w, q, r, kids', st', hs, hkq, h, hr => by simp [delKids] at h
  | .cons c n rest, b, key, w, q, r, kids', st', hs, hkq, h, hr => by
    simp only [StampsK] at hs
    unfold prefixK
    rcases delKids_inv P st c n rest b key r kids' h with ⟨hcb, he⟩ | ⟨hlt, rest', hk⟩
    · simp only [hcb, if_true]
      rw [he] at hr
      exact delNode_closes_prefix P st n key w q st' hs.1 hkq hr
    · have : ¬ c = b := by omega
      simp only [this, if_false, hlt, if_true]
      exact delKids_closes_prefix P st rest b key w q r rest' st' hs.2 hkq hk hr
end



/-! ## stamps are preserved -/

theorem Stamps.setPfx {p : Nat → Prop} (q : List Nat) : (n : Node) → Stamps p n → Stamps p (n.setPfx q)
  | .leaf _ _, h => by simpa [Node.setPfx, Stamps] using h
  | .inner .., h => by simpa [Node.setPfx, Stamps] using h

theorem Stamps.leaf0 {p : Nat → Prop} : (n : Node) → Stamps p n → n.getLeaf.isSome → p 0
  | .leaf _ _, h, _ => by simpa [Stamps] using h
  | .inner .., h, hl => by simp only [Stamps] at h; exact h.2.1 hl

theorem StampsK.insert {p : Nat → Prop} (b : Nat) (n : Node) (hn : Stamps p n) :
    (k : Kids) → StampsK p k → StampsK p (k.insert b n)
  | .nil, _ => by simp only [Kids.insert, StampsK]; exact ⟨hn, trivial⟩
  | .cons c m r, h => by
    simp only [StampsK] at h
    unfold Kids.insert
    split
    · simp only [StampsK]; exact ⟨hn, h.1, h.2⟩
    · simp only [StampsK]; exact ⟨h.1, StampsK.insert b n hn r h.2⟩

theorem StampsK.erase {p : Nat → Prop} (b : Nat) : (k : Kids) → StampsK p k → StampsK p (k.erase b)
  | .nil, _ => by simp only [Kids.erase, StampsK]
  | .cons c m r, h => by
    simp only [StampsK] at h
    unfold Kids.erase
    split
    · exact h.2
    · simp only [StampsK]; exact ⟨h.1, StampsK.erase b r h.2⟩

theorem StampsK.first {p : Nat → Prop} : (k : Kids) → StampsK p k → ∀ n, k.first = some n → Stamps p n
  | .nil, _, n, hn => by simp [Kids.first] at hn
  | .cons c m r, h, n, hn => by
    simp only [StampsK] at h
    simp only [Kids.first, Option.some.injEq] at hn
    rw [← hn]; exact h.1

theorem cloneNode_stamps {p : Nat → Prop} (st : St) (n : Node) (hid : p st.txnID) (h : Stamps p n) :
    Stamps p (cloneNode st n).2 := by
  unfold cloneNode
  split
  · exact h
  · cases n with
    | leaf q d => simpa [Stamps] using h
    | inner k q lf kids w t =>
      simp only [Stamps] at h ⊢
      refine ⟨?_, h.2.1, h.2.2⟩
      have := ((record_le st w).trans (fresh_le _)).id
      simp only [Node.watch] 
      rw [this]; exact hid

theorem insAt_stamps {p : Nat → Prop} (P : ArtParams) (st : St) (n : Node) (key full : List Nat) (val : Nat)
    (mod : Option (Nat → Nat → Nat)) (hid : p st.txnID) (h0 : p 0) (h : Stamps p n) :
    Stamps p (insAt P st n key full val mod).node := by
  unfold insAt
  simp only
  split
  · cases n with
    | leaf q d =>
      obtain ⟨w', he⟩ := cloneNode_leaf st q d
      rw [he]; simpa [Stamps] using h0
    | inner k q lf kids w t =>
      have hc := cloneNode_stamps st (.inner k q lf kids w t) hid h
      obtain ⟨w', t', he, _⟩ := cloneNode_inner st k q lf kids w t
      rw [he] at hc ⊢
      simp only [Stamps] at hc
      cases lf with
      | some d => simp only [Stamps]; exact ⟨hc.1, fun _ => h0, hc.2.2⟩
      | none => simp only [Stamps]; exact ⟨hc.1, fun _ => h0, hc.2.2⟩
  · -- fork
    cases n with
    | leaf q d =>
      dsimp only
      have hid' : p ((newLeafD st full val).1.fresh.1.txnID) := by
        rw [((newLeafD_le st full val).trans (fresh_le _)).id]; exact hid
      have hthis : Stamps p ((Node.leaf q d).setPfx (List.drop (commonPrefix key (Node.leaf q d).pfx).length (Node.leaf q d).pfx)) :=
        Stamps.setPfx _ _ h
      split
      · simp only [Stamps, StampsK]; exact ⟨hid', fun _ => h0, h0, trivial⟩
      · simp only [Stamps, StampsK]; exact ⟨hid', fun _ => h0, hthis, trivial⟩
      · split
        · simp only [Stamps, StampsK]; exact ⟨hid', by simp, hthis, h0, trivial⟩
        · simp only [Stamps, StampsK]; exact ⟨hid', by simp, h0, hthis, trivial⟩
    | inner k q lf kids w t =>
      dsimp only
      have hid' : p ((newLeafD (cloneNode st (.inner k q lf kids w t)).1 full val).1.fresh.1.txnID) := by
        rw [(((cloneNode_le st _).trans (newLeafD_le _ full val)).trans (fresh_le _)).id]; exact hid
      have hc := cloneNode_stamps st (.inner k q lf kids w t) hid h
      have hthis := Stamps.setPfx (List.drop (commonPrefix key (Node.inner k q lf kids w t).pfx).length
        (cloneNode st (.inner k q lf kids w t)).2.pfx) _ hc
      split
      · simp only [Stamps, StampsK]; exact ⟨hid', fun _ => h0, h0, trivial⟩
      · simp only [Stamps, StampsK]; exact ⟨hid', fun _ => h0, hthis, trivial⟩
      · split
        · simp only [Stamps, StampsK]; exact ⟨hid', by simp, hthis, h0, trivial⟩
        · simp only [Stamps, StampsK]; exact ⟨hid', by simp, h0, hthis, trivial⟩

mutual
theorem insNode_stamps {p : Nat → Prop} (P : ArtParams) (st : St) (hid : p st.txnID) (h0 : p 0) :
    (n : Node) → (key full : List Nat) → (val : Nat) → (mod : Option (Nat → Nat → Nat)) → Stamps p n →
    Stamps p (insNode P st n key full val mod).node
  | .leaf q d, key, full, val, mod, h => by
    unfold insNode; exact insAt_stamps P st _ key full val mod hid h0 h
  | .inner kind pfx lf kids w t, key, full, val, mod, h => by
    have h' := h
    simp only [Stamps] at h'
    unfold insNode
    split
    · simp only
      split
      · rename_i r kids' hk
        have hle := insKids_le P st kids _ _ full val mod r kids' hk
        have hk' := insKids_stamps P st hid h0 kids _ _ full val mod r kids' h'.2.2 hk
        apply cloneNode_stamps
        · rw [hle.id]; exact hid
        · simp only [Stamps]; exact ⟨h'.1, h'.2.1, hk'⟩
      · have hkids : StampsK p (kids.insert ((List.drop pfx.length key).headD 0)
            (Node.leaf (List.drop pfx.length key) (newLeafD st full val).2)) :=
          StampsK.insert _ _ (by simpa [Stamps] using h0) kids h'.2.2
        split
        · simp only [Stamps]
          refine ⟨?_, h'.2.1, hkids⟩
          rw [(((newLeafD_le st full val).trans (record_le _ w)).trans (freshIf_le _ w)).id]; exact hid
        · apply cloneNode_stamps
          · rw [(newLeafD_le st full val).id]; exact hid
          · simp only [Stamps]; exact ⟨h'.1, h'.2.1, hkids⟩
    · exact insAt_stamps P st _ key full val mod hid h0 h
theorem insKids_stamps {p : Nat → Prop} (P : ArtParams) (st : St) (hid : p st.txnID) (h0 : p 0) :
    (kids : Kids) → (b : Nat) → (key full : List Nat) → (val : Nat) → (mod : Option (Nat → Nat → Nat)) →
    (r : InsRes) → (kids' : Kids) → StampsK p kids →
    insKids P st kids b key full val mod = some (r, kids') → StampsK p kids'
  | .nil, b, key, full, val, mod, r, kids', hs, h => by simp [insKids] at h
  | .cons c n rest, b, key, full, val, mod, r, kids', hs, h => by
    simp only [StampsK] at hs
    unfold insKids at h
    split at h
    · simp only [Option.some.injEq, Prod.mk.injEq] at h
      rw [← h.2]; simp only [StampsK]
      exact ⟨insNode_stamps P st hid h0 n key full val mod hs.1, hs.2⟩
    · split at h
      · split at h
        · rename_i r' rest' hk
          simp only [Option.some.injEq, Prod.mk.injEq] at h
          rw [← h.2]; simp only [StampsK]
          exact ⟨hs.1, insKids_stamps P st hid h0 rest b key full val mod r' rest' hs.2 hk⟩
        · simp at h
      · simp at h
end

/-- full inversion of a successful delete below an inner node -/
theorem delNode_inner_cases (P : ArtParams) (st : St) (kind : Nat) (pfx : List Nat) (lf : Option LeafD) (kids : Kids)
    (w t : Nat) (key : List Nat) (hnf : delNode P st (.inner kind pfx lf kids w t) key ≠ .notFound) :
    hasPrefix key pfx = true ∧
    ((key.drop pfx.length = [] ∧ delNode P st (.inner kind pfx lf kids w t) key = delAt st (.inner kind pfx lf kids w t)) ∨
     (∃ b r, key.drop pfx.length = b :: r ∧
        ((∃ st1 n1 old kids', delKids P st kids b (b :: r) = some (.replaced st1 n1 old, kids') ∧
            delNode P st (.inner kind pfx lf kids w t) key =
              .replaced (cloneNode st1 (.inner kind pfx lf kids' w t)).1 (cloneNode st1 (.inner kind pfx lf kids' w t)).2 old) ∨
         (∃ st1 old kids', delKids P st kids b (b :: r) = some (.removed st1 old, kids') ∧
            delNode P st (.inner kind pfx lf kids w t) key =
              .replaced (removeChild P st1 kind pfx lf kids w t b).1 (removeChild P st1 kind pfx lf kids w t b).2 old)))) := by
  by_cases hp : hasPrefix key pfx = true
  · refine ⟨hp, ?_⟩
    cases hk : key.drop pfx.length with
    | nil =>
      left
      exact ⟨rfl, delNode_nil P st (.inner kind pfx lf kids w t) key hp hk⟩
    | cons b r =>
      right
      refine ⟨b, r, rfl, ?_⟩
      have he := delNode_inner_cons P st kind pfx lf kids w t key b r hp hk
      rw [he] at hnf ⊢
      cases hdk : delKids P st kids b (b :: r) with
      | none => rw [hdk] at hnf; exact absurd rfl hnf
      | some x =>
        obtain ⟨r', k'⟩ := x
        rw [hdk] at hnf
        cases r' with
        | notFound => exact absurd rfl hnf
        | replaced st1 n1 old => left; exact ⟨st1, n1, old, k', rfl, rfl⟩
        | removed st1 old => right; exact ⟨st1, old, k', rfl, rfl⟩
  · exact absurd (delNode_noprefix P st (.inner kind pfx lf kids w t) key hp) hnf

/-- inversion of `delKids`, with the rebuilt children -/
theorem delKids_inv' (P : ArtParams) (st : St) (c : Nat) (n : Node) (rest : Kids) (b : Nat) (key : List Nat)
    (r : DelRes) (kids' : Kids) (h : delKids P st (.cons c n rest) b key = some (r, kids')) :
    (c = b ∧ r = delNode P st n key ∧
      ((∃ st' n' old, r = .replaced st' n' old ∧ kids' = .cons c n' rest) ∨
       ((∀ st' n' old, r ≠ .replaced st' n' old) ∧ kids' = .cons c n rest))) ∨
    (c < b ∧ c ≠ b ∧ ∃ rest', delKids P st rest b key = some (r, rest') ∧ kids' = .cons c n rest') := by
  rw [delKids_cons] at h
  by_cases hcb : c = b
  · left
    simp only [hcb, if_true] at h
    refine ⟨hcb, ?_⟩
    cases hd : delNode P st n key with
    | notFound =>
      rw [hd] at h; simp only [Option.some.injEq, Prod.mk.injEq] at h
      exact ⟨h.1.symm, Or.inr ⟨by rw [← h.1]; intros; simp, by rw [← h.2, hcb]⟩⟩
    | removed st1 old =>
      rw [hd] at h; simp only [Option.some.injEq, Prod.mk.injEq] at h
      exact ⟨h.1.symm, Or.inr ⟨by rw [← h.1]; intros; simp, by rw [← h.2, hcb]⟩⟩
    | replaced st1 n1 old =>
      rw [hd] at h; simp only [Option.some.injEq, Prod.mk.injEq] at h
      exact ⟨h.1.symm, Or.inl ⟨st1, n1, old, h.1.symm, by rw [← h.2, hcb]⟩⟩
  · right
    simp only [hcb, if_false] at h
    by_cases hlt : c < b
    · simp only [hlt, if_true] at h
      refine ⟨hlt, hcb, ?_⟩
      cases hd : delKids P st rest b key with
      | none => rw [hd] at h; simp at h
      | some x =>
        obtain ⟨r', rest'⟩ := x
        rw [hd] at h
        simp only [Option.some.injEq, Prod.mk.injEq] at h
        exact ⟨rest', by rw [h.1], h.2.symm⟩
    · simp [hlt] at h

theorem removeChild_stamps {p : Nat → Prop} (P : ArtParams) (st : St) (kind : Nat) (pfx : List Nat) (lf : Option LeafD)
    (kids : Kids) (w t b : Nat) (hid : p st.txnID) (h : Stamps p (.inner kind pfx lf kids w t)) :
    Stamps p (removeChild P st kind pfx lf kids w t b).2 := by
  have h' := h
  simp only [Stamps] at h'
  have he := StampsK.erase b kids h'.2.2
  unfold removeChild
  simp only
  split
  · split
    · rename_i child hc
      exact Stamps.setPfx _ _ (StampsK.first _ he child hc)
    · simp only [Stamps]; exact ⟨h'.1, h'.2.1, he⟩
  · split
    · simp only [Stamps]
      refine ⟨?_, h'.2.1, he⟩
      rw [((freshIf_le st w).trans (record_le _ w)).id]; exact hid
    · apply cloneNode_stamps _ _ hid
      simp only [Stamps]; exact ⟨h'.1, h'.2.1, he⟩

theorem delAt_stamps {p : Nat → Prop} (st : St) (n : Node) (hid : p st.txnID) (h : Stamps p n)
    (st' : St) (n' : Node) (old : Nat) (hd : delAt st n = .replaced st' n' old) : Stamps p n' := by
  unfold delAt at hd
  split at hd
  · simp at hd
  · cases n with
    | leaf q d => simp at hd
    | inner kind pfx lf kids w t =>
      simp only [Stamps] at h
      simp only at hd
      split at hd
      · split at hd
        · rename_i child hc
          simp only [DelRes.replaced.injEq] at hd
          rw [← hd.2.1]
          exact Stamps.setPfx _ _ (StampsK.first _ h.2.2 child hc)
        · simp at hd
      · split at hd
        · simp only [DelRes.replaced.injEq] at hd
          rw [← hd.2.1]
          apply cloneNode_stamps
          · rw [(record_le _ _).id]; exact hid
          · simp only [Stamps]; exact ⟨h.1, by simp, h.2.2⟩
        · simp at hd

mutual
theorem delNode_stamps {p : Nat → Prop} (P : ArtParams) (st : St) (hid : p st.txnID) :
    (n : Node) → (key : List Nat) → Stamps p n → (st' : St) → (n' : Node) → (old : Nat) →
    delNode P st n key = .replaced st' n' old → Stamps p n'
  | .leaf q d, key, h, st', n', old, hd => by
    have hds : delSt (delNode P st (.leaf q d) key) = some st' := by rw [hd]; rfl
    obtain ⟨hk, _⟩ := delNode_leaf_inv P st q d key st' hds
    subst hk
    rw [delNode_nil P st (.leaf key d) key (by simpa [Node.pfx] using hasPrefix_take key key) (by simp [Node.pfx])] at hd
    exact delAt_stamps st _ hid h st' n' old hd
  | .inner kind pfx lf kids w t, key, h, st', n', old, hd => by
    have h' := h
    simp only [Stamps] at h'
    obtain ⟨_, hc⟩ := delNode_inner_cases P st kind pfx lf kids w t key (by rw [hd]; simp)
    rcases hc with ⟨_, he⟩ | ⟨b, r, _, ⟨st1, n1, old1, kids', hdk, he⟩ | ⟨st1, old1, kids', hdk, he⟩⟩
    · rw [he] at hd
      exact delAt_stamps st _ hid h st' n' old hd
    · rw [he] at hd
      simp only [DelRes.replaced.injEq] at hd
      rw [← hd.2.1]
      have hle := delKids_le P st kids b _ _ kids' st1 hdk rfl
      apply cloneNode_stamps
      · rw [hle.id]; exact hid
      · simp only [Stamps]
        exact ⟨h'.1, h'.2.1, delKids_stamps P st hid kids b _ h'.2.2 _ kids' hdk⟩
    · rw [he] at hd
      simp only [DelRes.replaced.injEq] at hd
      rw [← hd.2.1]
      have hle := delKids_le P st kids b _ _ kids' st1 hdk rfl
      exact removeChild_stamps P st1 kind pfx lf kids w t b (by rw [hle.id]; exact hid) h
theorem delKids_stamps {p : Nat → Prop} (P : ArtParams) (st : St) (hid : p st.txnID) :
    (kids : Kids) → (b : Nat) → (key : List Nat) → StampsK p kids → (r : DelRes) → (kids' : Kids) →
    delKids P st kids b key = some (r, kids') → StampsK p kids'
  | .nil, b, key, hs, r, kids', h => by simp [delKids] at h
  | .cons c n rest, b, key, hs, r, kids', h => by
    simp only [StampsK] at hs
    rcases delKids_inv' P st c n rest b key r kids' h with ⟨_, hr, hk⟩ | ⟨_, _, rest', hk, he⟩
    · rcases hk with ⟨st', n', old, hrr, he⟩ | ⟨_, he⟩
      · rw [he]; simp only [StampsK]
        exact ⟨delNode_stamps P st hid n key hs.1 st' n' old (by rw [← hr, hrr]), hs.2⟩
      · rw [he]; simp only [StampsK]; exact hs
    · rw [he]; simp only [StampsK]
      exact ⟨hs.1, delKids_stamps P st hid rest b key hs.2 r rest' hk⟩
end


end Sdb.ArtW
