import SdbModel.Lemmas.ConcInitCor

/-!
  ConcInitExact — exactness of the committed `initPending` flag in terms of what the
  COMMITTED writers did (no ghost history: the thread records keep `regInit`,
  `markInit`, the versions loaded and produced; "later" is expressed by revisions):

  * `PI`: if an initializer is pending on table `x`, some committed writer registered
    one on `x` without marking it, and every committed writer that registered or
    marked on `x` produced a revision of `x` not newer than that writer's;
  * `PD`: if none is pending, then for every committed writer that registered on `x`
    without marking, a writer that committed LATER (it loaded a revision at least as
    new as the registered one) marked `x`.
  Core Lean only.
-/
namespace Sdb.Conc

/-- thread `j` is a committing writer past its `storeRoot` -/
def SW (st : State) (cs : List Bool) (j : Nat) (T : Thread) : Prop :=
  st.threads[j]? = some T ∧ cs[j]? = some true ∧ Micro.act .storeRoot ∉ T.prog

/-- if an initializer is pending on `x`, some committed writer registered one on `x`
    without marking it, and no committed writer that registered or marked on `x`
    produced a newer revision of `x` -/
def PIx (st : State) (cs : List Bool) (x : Nat) : Prop :=
  (getT st.root x).initPending = true →
    ∃ (k : Nat) (U : Thread), SW st cs k U ∧ x ∈ lockList U ∧ U.regInit.contains x = true ∧
      U.markInit.contains x = false ∧
      ∀ (j : Nat) (V : Thread), SW st cs j V → x ∈ lockList V →
        (V.regInit.contains x = true ∨ V.markInit.contains x = true) →
        (getT V.entries x).rev ≤ (getT U.entries x).rev

/-- if no initializer is pending on `x`, every registration on `x` by a committed
    writer was followed by a mark of a writer that committed later -/
def PDx (st : State) (cs : List Bool) (x : Nat) : Prop :=
  (getT st.root x).initPending = false →
    ∀ (k : Nat) (U : Thread), SW st cs k U → x ∈ lockList U → U.regInit.contains x = true →
      U.markInit.contains x = false →
      ∃ (j : Nat) (V : Thread), SW st cs j V ∧ x ∈ lockList V ∧ V.markInit.contains x = true ∧
        (getT U.entries x).rev ≤ (getT V.oldRoot x).rev

structure CI3 (st : State) (cs : List Bool) : Prop where
  PI : ∀ x, x < st.root.length → PIx st cs x
  PD : ∀ x, x < st.root.length → PDx st cs x

/-- the revisions in the record of a committed writer -/
theorem sw_revs (st : State) (cs : List Bool) (run : Option Nat) (h : CI st cs run) (h2 : CI2 st cs) (j : Nat)
    (V : Thread) (hV : SW st cs j V) (x : Nat) (hx : x ∈ lockList V) :
    (getT V.entries x).rev = (getT V.oldRoot x).rev + 1 ∧ (getT V.entries x).rev ≤ (getT st.root x).rev := by
  obtain ⟨_, _, hent⟩ := stored_facts st cs run h j V hV.1 hV.2.1 hV.2.2
  obtain ⟨m, hm⟩ := hent x hx
  have := h2.RL j V hV.1 hV.2.1 hV.2.2 x hx
  rw [hm, uwEntry_rev]
  omega

/-- the attributes of a thread record the exactness invariants read -/
structure AttrEq (T T' : Thread) : Prop where
  ll : lockList T' = lockList T
  reg : T'.regInit = T.regInit
  mark : T'.markInit = T.markInit
  ent : T'.entries = T.entries
  old : T'.oldRoot = T.oldRoot

theorem AttrEq.refl (T : Thread) : AttrEq T T := ⟨rfl, rfl, rfl, rfl, rfl⟩

/-- transfer of `PI` / `PD` between two states with the same committed versions of
    `x` and corresponding committed writers -/
theorem exact_transfer (s s' : State) (cs : List Bool) (x : Nat)
    (hroot : getT s'.root x = getT s.root x)
    (fwd : ∀ j T, SW s cs j T → ∃ T', SW s' cs j T' ∧ AttrEq T T')
    (bwd : ∀ j T', SW s' cs j T' → x ∈ lockList T' → ∃ T, SW s cs j T ∧ AttrEq T T') :
    (PIx s cs x → PIx s' cs x) ∧ (PDx s cs x → PDx s' cs x) := by
  constructor
  · intro hold hp
    rw [hroot] at hp
    obtain ⟨k, U, hU, hxU, hr, hm, hall⟩ := hold hp
    obtain ⟨U', hU', a⟩ := fwd k U hU
    refine ⟨k, U', hU', by rw [a.ll]; exact hxU, by rw [a.reg]; exact hr, by rw [a.mark]; exact hm, ?_⟩
    intro j V' hV' hxV' hor
    obtain ⟨V, hV, b⟩ := bwd j V' hV' hxV'
    rw [a.ent, b.ent]
    exact hall j V hV (by rw [← b.ll]; exact hxV') (by rw [← b.reg, ← b.mark]; exact hor)
  · intro hold hp k U' hU' hxU' hr hm
    rw [hroot] at hp
    obtain ⟨U, hU, a⟩ := bwd k U' hU' hxU'
    obtain ⟨j, V, hV, hxV, hmV, hle⟩ := hold hp k U hU (by rw [← a.ll]; exact hxU') (by rw [← a.reg]; exact hr)
      (by rw [← a.mark]; exact hm)
    obtain ⟨V', hV', b⟩ := fwd j V hV
    exact ⟨j, V', hV', by rw [b.ll]; exact hxV, by rw [b.mark]; exact hmV, by rw [a.ent, b.old]; exact hle⟩

theorem uwEntry_pending' (reg mark : Bool) (n : Nat) (e : TableV) :
    (clr (uwEntry reg mark n e)).initPending = (if mark then false else if reg then true else e.initPending) :=
  clr_uwEntry_pending reg mark n e

/-- every micro step preserves `CI3` -/
theorem CI3_micro (cs : List Bool) (tid : Nat) (a b : State × Thread) (c : Bool) (ctx : MicroCtx cs tid a b c)
    (h2 : CI2 (install a.1 tid a.2) cs) (h : CI3 (install a.1 tid a.2) cs) : CI3 (install b.1 tid b.2) cs := by
  obtain ⟨st, th⟩ := a
  obtain ⟨st', th'⟩ := b
  have htid := ctx.lt
  have hthreads := ctx.threads
  simp only at htid hthreads h h2 ⊢
  have htid' : tid < st'.threads.length := by rw [hthreads]; exact htid
  have hci : CI (install st tid th) cs (some tid) := ctx.ci
  have heff : Eff st st' th th' c := ctx.eff
  have hfr : EffFrame th th' c := ctx.frame
  have hflag : cs[tid]? = some c := ctx.flag
  have hown : (install st tid th).threads[tid]? = some th := by rw [install_get _ _ _ _ htid]; simp
  have hown' : (install st' tid th').threads[tid]? = some th' := by rw [install_get _ _ _ _ htid']; simp
  have hL : lockList th' = lockList th := lockList_congr th th' hfr.tables
  have other : ∀ (j : Nat) (T : Thread), j ≠ tid →
      ((install st' tid th').threads[j]? = some T ↔ (install st tid th).threads[j]? = some T) := by
    intro j T hj
    rw [install_get _ _ _ _ htid', install_get _ _ _ _ htid, if_neg hj, if_neg hj, hthreads]
  -- committed writers of the old state are committed writers of the new one
  have fwd : ∀ j T, SW (install st tid th) cs j T → ∃ T', SW (install st' tid th') cs j T' ∧ AttrEq T T' := by
    intro j T ⟨h1, h2', h3⟩
    by_cases hj : j = tid
    · subst hj
      rw [hown] at h1; simp only [Option.some.injEq] at h1; subst h1
      have hc : c = true := by rw [hflag] at h2'; simpa using h2'
      have hu := (stored_facts _ cs _ hci j th hown h2' h3).1
      obtain ⟨e1, e2⟩ := hfr.written hu
      exact ⟨th', ⟨hown', h2', fun hm => h3 (hfr.sub _ hm)⟩, ⟨hL, hfr.regInit, hfr.markInit, e2, e1⟩⟩
    · exact ⟨T, ⟨(other j T hj).2 h1, h2', h3⟩, AttrEq.refl T⟩
  have bwdOther : ∀ j T', SW (install st' tid th') cs j T' → j ≠ tid → SW (install st tid th) cs j T' :=
    fun j T' ⟨h1, h2', h3⟩ hj => ⟨(other j T' hj).1 h1, h2', h3⟩
  have ownNew : ∀ T', (install st' tid th').threads[tid]? = some T' → T' = th' := by
    intro T' hT'; rw [hown'] at hT'; simp only [Option.some.injEq] at hT'; exact hT'.symm
  -- a step that is not a store
  have noStore : st'.root = st.root →
      (Micro.act .storeRoot ∈ th'.prog ↔ Micro.act .storeRoot ∈ th.prog) → CI3 (install st' tid th') cs := by
    intro hr hiff
    have bwd : ∀ x j T', SW (install st' tid th') cs j T' → x ∈ lockList T' →
        ∃ T, SW (install st tid th) cs j T ∧ AttrEq T T' := by
      intro x j T' hT' _
      by_cases hj : j = tid
      · subst hj
        have := ownNew T' hT'.1; subst this
        have h3 : Micro.act .storeRoot ∉ th.prog := fun hm => hT'.2.2 (hiff.2 hm)
        have hu := (stored_facts _ cs _ hci j th hown hT'.2.1 h3).1
        obtain ⟨e1, e2⟩ := hfr.written hu
        exact ⟨th, ⟨hown, hT'.2.1, h3⟩, ⟨hL, hfr.regInit, hfr.markInit, e2, e1⟩⟩
      · exact ⟨T', bwdOther j T' hT' hj, AttrEq.refl T'⟩
    constructor
    · intro x hx
      have hx0 : x < st.root.length := by rw [← hr]; exact hx
      exact (exact_transfer (install st tid th) (install st' tid th') cs x (by show getT st'.root x = getT st.root x; rw [hr])
        fwd (bwd x)).1 (h.PI x hx0)
    · intro x hx
      have hx0 : x < st.root.length := by rw [← hr]; exact hx
      exact (exact_transfer (install st tid th) (install st' tid th') cs x (by show getT st'.root x = getT st.root x; rw [hr])
        fwd (bwd x)).2 (h.PD x hx0)
  cases heff with
  | quiet h1 _ h3 => exact noStore h1 h3
  | notify _ h2 _ _ _ h6 => exact noStore h2 ⟨fun hm => absurd (hfr.sub _ hm) h6, fun hm => absurd hm h6⟩
  | closeInit _ h2 _ _ _ h6 => exact noStore h2 ⟨fun hm => absurd (hfr.sub _ hm) h6, fun hm => absurd hm h6⟩
  | register h1 _ h3 _ h5 =>
    have hLn : lockList th' = [] := by rw [hL]; exact lockList_nil' th h1
    have bwd : ∀ x j T', SW (install st' tid th') cs j T' → x ∈ lockList T' →
        ∃ T, SW (install st tid th) cs j T ∧ AttrEq T T' := by
      intro x j T' hT' hxT'
      by_cases hj : j = tid
      · subst hj
        have := ownNew T' hT'.1; subst this
        rw [hLn] at hxT'; simp at hxT'
      · exact ⟨T', bwdOther j T' hT' hj, AttrEq.refl T'⟩
    have hlen : st'.root.length = st.root.length + 1 := by rw [h5]; simp
    constructor
    · intro x hx
      have hx' : x < st.root.length + 1 := by rw [← hlen]; exact hx
      by_cases hxl : x < st.root.length
      · exact (exact_transfer (install st tid th) (install st' tid th') cs x
          (by show getT st'.root x = getT st.root x; rw [h5]; exact getT_append_left _ _ _ hxl) fwd (bwd x)).1 (h.PI x hxl)
      · have : x = st.root.length := by omega
        subst this
        intro hp
        have : getT st'.root st.root.length = { watch := st.nextChan } := by rw [h5]; exact getT_append_length _ _
        rw [show (install st' tid th').root = st'.root from rfl, this] at hp
        simp at hp
    · intro x hx
      have hx' : x < st.root.length + 1 := by rw [← hlen]; exact hx
      by_cases hxl : x < st.root.length
      · exact (exact_transfer (install st tid th) (install st' tid th') cs x
          (by show getT st'.root x = getT st.root x; rw [h5]; exact getT_append_left _ _ _ hxl) fwd (bwd x)).2 (h.PD x hxl)
      · have : x = st.root.length := by omega
        subst this
        intro _ k U' hU' hxU' _ _
        exfalso
        by_cases hk : k = tid
        · subst hk
          have := ownNew U' hU'.1; subst this
          rw [hLn] at hxU'; simp at hxU'
        · have hold := bwdOther k U' hU' hk
          have := (stored_facts _ cs _ hci k U' hold.1 hold.2.1 hold.2.2).2.1 _ hxU'
          exact Nat.lt_irrefl _ this
  | commit hc _ h3 h4 h5 h6 _ h8 =>
    have hswNew : SW (install st' tid th') cs tid th' := ⟨hown', by rw [hflag, hc], h4⟩
    have hent' : th'.entries = th.entries := (hfr.written h5).2
    have hold' : th'.oldRoot = th.oldRoot := (hfr.written h5).1
    have notOld : ∀ T, ¬ SW (install st tid th) cs tid T := by
      intro T ⟨g1, _, g3⟩
      rw [hown] at g1; simp only [Option.some.injEq] at g1; subst g1
      exact g3 h3
    have split : ∀ j T', SW (install st' tid th') cs j T' →
        (j = tid ∧ T' = th') ∨ (j ≠ tid ∧ SW (install st tid th) cs j T') := by
      intro j T' hT'
      by_cases hj : j = tid
      · subst hj; exact Or.inl ⟨rfl, ownNew T' hT'.1⟩
      · exact Or.inr ⟨hj, bwdOther j T' hT' hj⟩
    have keepSW : ∀ j T, SW (install st tid th) cs j T → SW (install st' tid th') cs j T := by
      intro j T hT
      have hj : j ≠ tid := fun e => notOld T (e ▸ hT)
      exact ⟨(other j T hj).2 hT.1, hT.2.1, hT.2.2⟩
    have main : ∀ x, x < st.root.length →
        PIx (install st' tid th') cs x ∧ PDx (install st' tid th') cs x := by
      intro x hx
      by_cases hxl : x ∈ lockList th
      · obtain ⟨g0, ⟨m, hm⟩, g⟩ := (h8 x hx).1 hxl
        have hnew : getT (install st' tid th').root x =
            clr (uwEntry (th.regInit.contains x) (th.markInit.contains x) m (getT st.root x)) := by
          show getT st'.root x = _; rw [g, hm]
        have herNew : (getT th'.entries x).rev = (getT st.root x).rev + 1 := by rw [hent', hm, uwEntry_rev]
        have hxl' : x ∈ lockList th' := by rw [hL]; exact hxl
        have oldLe : ∀ j V, SW (install st tid th) cs j V → x ∈ lockList V →
            (getT V.entries x).rev ≤ (getT st.root x).rev := fun j V hV hxV => (sw_revs _ cs _ hci h2 j V hV x hxV).2
        constructor
        · intro hp
          rw [hnew, uwEntry_pending'] at hp
          cases hmk : th.markInit.contains x with
          | true => rw [hmk] at hp; simp at hp
          | false =>
            rw [hmk] at hp
            cases hrg : th.regInit.contains x with
            | true =>
              refine ⟨tid, th', hswNew, hxl', by rw [hfr.regInit]; exact hrg, by rw [hfr.markInit]; exact hmk, ?_⟩
              intro j V' hV' hxV' _
              rcases split j V' hV' with ⟨_, rfl⟩ | ⟨_, hVo⟩
              · exact Nat.le_refl _
              · have := oldLe j V' hVo hxV'; omega
            | false =>
              rw [hrg] at hp
              simp only [Bool.false_eq_true, if_false] at hp
              obtain ⟨k, U, hU, hxU, hr, hmU, hall⟩ := h.PI x hx hp
              refine ⟨k, U, keepSW k U hU, hxU, hr, hmU, ?_⟩
              intro j V' hV' hxV' hor
              rcases split j V' hV' with ⟨_, rfl⟩ | ⟨_, hVo⟩
              · exfalso
                rw [hfr.regInit, hfr.markInit, hrg, hmk] at hor
                simp at hor
              · exact hall j V' hVo hxV' hor
        · intro hp k U' hU' hxU' hr hmU
          rw [hnew, uwEntry_pending'] at hp
          rcases split k U' hU' with ⟨_, rfl⟩ | ⟨_, hUo⟩
          · exfalso
            rw [hfr.regInit] at hr; rw [hfr.markInit] at hmU
            rw [hr, hmU] at hp; simp at hp
          · cases hmk : th.markInit.contains x with
            | true =>
              refine ⟨tid, th', hswNew, hxl', by rw [hfr.markInit]; exact hmk, ?_⟩
              rw [hold', g0]
              exact oldLe k U' hUo hxU'
            | false =>
              rw [hmk] at hp
              cases hrg : th.regInit.contains x with
              | true => rw [hrg] at hp; simp at hp
              | false =>
                rw [hrg] at hp
                simp only [Bool.false_eq_true, if_false] at hp
                obtain ⟨j, V, hV, rest⟩ := h.PD x hx hp k U' hUo hxU' hr hmU
                exact ⟨j, V, keepSW j V hV, rest⟩
      · have bwd : ∀ j T', SW (install st' tid th') cs j T' → x ∈ lockList T' →
            ∃ T, SW (install st tid th) cs j T ∧ AttrEq T T' := by
          intro j T' hT' hxT'
          rcases split j T' hT' with ⟨_, rfl⟩ | ⟨_, hTo⟩
          · rw [hL] at hxT'; exact absurd hxT' hxl
          · exact ⟨T', hTo, AttrEq.refl T'⟩
        have tr := exact_transfer (install st tid th) (install st' tid th') cs x
          (by show getT st'.root x = getT st.root x; exact (h8 x hx).2 hxl) fwd bwd
        exact ⟨tr.1 (h.PI x hx), tr.2 (h.PD x hx)⟩
    constructor
    · intro x hx
      exact (main x (by rw [← h6]; exact hx)).1
    · intro x hx
      exact (main x (by rw [← h6]; exact hx)).2

theorem CI3_spawn (st : State) (cs : List Bool) (thn : Thread) (c : Bool) (hlen : cs.length = st.threads.length)
    (h : CI3 st cs) (hnew : c = true → Micro.act .storeRoot ∈ thn.prog) :
    CI3 { st with threads := st.threads ++ [thn] } (cs ++ [c]) := by
  have back : ∀ (j : Nat) (T : Thread), SW { st with threads := st.threads ++ [thn] } (cs ++ [c]) j T → SW st cs j T := by
    intro j T ⟨hj, hcj, hs⟩
    have hj' : (st.threads ++ [thn])[j]? = some T := hj
    by_cases hlt : j < st.threads.length
    · rw [List.getElem?_append_left hlt] at hj'
      rw [List.getElem?_append_left (by rw [hlen]; exact hlt)] at hcj
      exact ⟨hj', hcj, hs⟩
    · exfalso
      have hl := lt_of_getElem?_some _ _ _ hj'
      simp only [List.length_append, List.length_singleton] at hl
      have he : j = st.threads.length := by omega
      subst he
      simp only [List.getElem?_concat_length, Option.some.injEq] at hj'
      rw [← hlen] at hcj
      simp only [List.getElem?_concat_length, Option.some.injEq] at hcj
      subst hj'
      exact hs (hnew hcj)
  have forth : ∀ (j : Nat) (T : Thread), SW st cs j T → SW { st with threads := st.threads ++ [thn] } (cs ++ [c]) j T := by
    intro j T ⟨hj, hcj, hs⟩
    have hlt := lt_of_getElem?_some _ _ _ hj
    refine ⟨?_, ?_, hs⟩
    · show (st.threads ++ [thn])[j]? = some T
      rw [List.getElem?_append_left hlt]; exact hj
    · rw [List.getElem?_append_left (by rw [hlen]; exact hlt)]; exact hcj
  constructor
  · intro x hx hp
    obtain ⟨k, U, hU, a1, a2, a3, a4⟩ := h.PI x hx hp
    exact ⟨k, U, forth k U hU, a1, a2, a3, fun j V hV => a4 j V (back j V hV)⟩
  · intro x hx hp k U hU b1 b2 b3
    obtain ⟨j, V, hV, rest⟩ := h.PD x hx hp k U (back k U hU) b1 b2 b3
    exact ⟨j, V, forth j V hV, rest⟩

/-- the exactness invariants hold in every reachable state -/
theorem reach_CI3 (P : Protocol) (hP : P.initShape = true) (n : Nat) (st : State) (cs : List Bool)
    (h : Reach P n st cs) : CI3 st cs := by
  induction h with
  | init =>
    constructor
    · intro x hx hp
      have hx' : x < n := by simpa [initState] using hx
      rw [show (initState n).root = (List.range n).map fun i => ({ watch := i + 1 } : TableV) from rfl,
        getT_init n x hx'] at hp
      simp at hp
    · intro x _ _ k U hU
      have := hU.1
      simp [initState] at this
  | writer st cs tabs commit mi ri hr hb ih =>
    refine CI3_spawn st cs _ commit (reach_CI P hP n st cs hr).len ih ?_
    intro hc; subst hc
    exact storeRoot_mem_writerProg P hP tabs
  | register st cs hr ih =>
    exact CI3_spawn st cs _ false (reach_CI P hP n st cs hr).len ih (fun hc => by simp at hc)
  | registerDup st cs hr ih =>
    exact CI3_spawn st cs _ false (reach_CI P hP n st cs hr).len ih (fun hc => by simp at hc)
  | step st cs tid hr ih =>
    have := step_preserves st cs tid (reach_sim P (initShape_simShape P hP) n st cs hr) (reach_CI P hP n st cs hr)
      (fun s => CI2 s cs ∧ CI3 s cs)
      (fun a b c ctx hk => ⟨CI2_micro cs tid a b c ctx hk.1, CI3_micro cs tid a b c ctx hk.1 hk.2⟩)
      ⟨reach_CI2 P hP n st cs hr, ih⟩
    exact this.2

end Sdb.Conc
