import SdbModel.Lemmas.ArtInsert
import SdbModel.Lemmas.ArtDelete
import SdbModel.Lemmas.ArtSorted
import SdbModel.Lemmas.ArtRange

/-!
  Lemmas for C11, part 6: the root-level refinement.  `Txn.insert` and
  `Txn.delete` act on `allRoot` exactly like `sinsert` / `sdelete` on the
  reference sorted association list, and keep the transaction invariant
  `TxnWF` (well-formed root, `size` = number of entries).  Core Lean only.
-/
namespace Sdb.Art

/-- the invariant of a root pointer: the tree below it is well-formed for the empty path -/
def RootWF : Option Node → Prop
  | none => True
  | some r => WFNode [] r

/-- the invariant of a transaction (and of a committed tree): well-formed root and an exact `Len` -/
def TxnWF (x : Txn) : Prop := RootWF x.root ∧ x.size = (allRoot x.root).length

def TreeWF (t : Tree) : Prop := RootWF t.root ∧ t.size = (allRoot t.root).length

theorem allRoot_sorted (root : Option Node) (h : RootWF root) : Sorted (allRoot root) := by
  cases root with
  | none => simp [allRoot, Sorted]
  | some r => exact entries_sorted [] r h

theorem getRoot_look (root : Option Node) (h : RootWF root) (w : Nat) (k : List Nat) :
    (getRoot root w k).1 = look (allRoot root) k := by
  cases root with
  | none => rfl
  | some r => exact searchNode_look [] r h w k

/-- node level: insertion is `sinsert` on the entries -/
theorem insNode_entries (P : ArtParams) (st : St) (acc : List Nat) (n : Node) (key full : List Nat) (val : Nat)
    (mod : Option (Nat → Nat → Nat)) (hwf : WFNode acc n) (hfull : full = acc ++ key) :
    entries (insNode P st n key full val mod).node =
      sinsert (entries n) full (insNode P st n key full val mod).newVal := by
  have hok := insNode_ok P acc n st key full val mod hwf hfull
  apply sorted_ext _ _ (entries_sorted acc _ hok.wf) (sinsert_sorted _ (entries_sorted acc n hwf) _ _)
  intro e
  rw [hok.mem, mem_sinsert _ (entries_sorted acc n hwf)]

theorem Txn_insert_spec (P : ArtParams) (x : Txn) (k : List Nat) (v : Nat) (mod : Option (Nat → Nat → Nat))
    (h : TxnWF x) :
    TxnWF (x.insert P k v mod).1 ∧
    (x.insert P k v mod).2.1 = look (allRoot x.root) k ∧
    (x.insert P k v mod).2.2.1 = mergedVal mod (x.insert P k v mod).2.1 v ∧
    allRoot (x.insert P k v mod).1.root = sinsert (allRoot x.root) k (x.insert P k v mod).2.2.1 := by
  obtain ⟨hr, hs⟩ := h
  unfold Txn.insert
  cases hroot : x.root with
  | none =>
    rw [hroot] at hs
    simp only [TxnWF, RootWF, WFNode, allRoot, entries, newLeafD, St.fresh, List.nil_append, sinsert, look_nil,
      mergedVal, List.length_cons, List.length_nil] at hs ⊢
    exact ⟨⟨trivial, by omega⟩, trivial, trivial, trivial⟩
  | some r =>
    rw [hroot] at hr hs
    simp only [RootWF] at hr
    have hok := insNode_ok P [] r x.st k k v mod hr rfl
    have hent := insNode_entries P x.st [] r k k v mod hr rfl
    simp only [TxnWF, RootWF, allRoot] at hs ⊢
    refine ⟨⟨hok.wf, ?_⟩, hok.old, hok.nv, hent⟩
    rw [hent, length_sinsert _ (entries_sorted [] r hr), hok.old, hs]

theorem Txn_delete_spec (P : ArtParams) (x : Txn) (k : List Nat) (h : TxnWF x) :
    TxnWF (x.delete P k).1 ∧
    (x.delete P k).2 = look (allRoot x.root) k ∧
    allRoot (x.delete P k).1.root = sdelete (allRoot x.root) k ∧
    ((x.delete P k).2 = none → (x.delete P k).1 = x) := by
  obtain ⟨hr, hs⟩ := h
  unfold Txn.delete
  cases hroot : x.root with
  | none =>
    simp only [TxnWF, hroot, RootWF, allRoot, look_nil, sdelete, List.filter_nil, true_and, implies_true, and_true]
    rw [hroot] at hs; exact hs
  | some r =>
    rw [hroot] at hr hs
    simp only [RootWF] at hr
    have hsorted := entries_sorted [] r hr
    have hok := delNode_ok P [] r x.st k k hr rfl
    simp only [allRoot] at hs ⊢
    cases hdel : delNode P x.st r k with
    | notFound =>
      rw [hdel] at hok
      simp only [DelOK] at hok
      simp only [TxnWF, hroot, RootWF, allRoot]
      exact ⟨⟨hr, hs⟩, hok.symm, (sdelete_of_look_none _ _ hok).symm, fun _ => trivial⟩
    | replaced st' n' old =>
      rw [hdel] at hok
      simp only [DelOK] at hok
      obtain ⟨h1, h2, _, h4⟩ := hok
      have hent : entries n' = sdelete (entries r) k := by
        apply sorted_ext _ _ (entries_sorted [] n' h2) (sdelete_sorted _ hsorted k)
        intro e; rw [h4, mem_sdelete]
      simp only [TxnWF, RootWF, allRoot]
      refine ⟨⟨h2, ?_⟩, h1.symm, hent, fun hn => by simp at hn⟩
      rw [hent, length_sdelete _ hsorted, h1, hs]; rfl
    | removed st' old =>
      rw [hdel] at hok
      simp only [DelOK] at hok
      simp only [TxnWF, RootWF, allRoot, hok, List.length_nil, look_cons, if_true]
      rw [hok] at hs
      refine ⟨⟨trivial, by simp at hs; omega⟩, trivial, by simp [sdelete], fun hn => by simp at hn⟩

end Sdb.Art
