import SdbModel.Lemmas.ConcSimWrites

/-!
  ConcInitWrites — the FULL effect of `doUserWrites` on the private entries of a
  writer (`ConcSimWrites` only tracks the counters): every held table gets the
  version `uwEntry reg mark n e` computed from the version `e` it had, where `n`
  is the value of the channel allocator `nextChan` at that moment; the channels
  allocated for different tables are different, all lie between the old and the
  new value of `nextChan`; the channels to notify are the watch channels of the
  replaced versions.  Core Lean only.
-/
namespace Sdb.Conc

/-- the version a writer produces from version `e` of a table (`reg` / `mark`: the
    writer registers an initializer / marks the initializer done), with fresh
    channels `n` (watch) and `n + 1` (init channel, only if a record is created) -/
def uwEntry (reg mark : Bool) (n : Nat) (e : TableV) : TableV :=
  { cnt := e.cnt + 1, rev := e.rev + 1, watch := n,
    initPending := if mark then false else if reg then true else e.initPending,
    initWatch := if reg ∧ e.initWatch = 0 then n + 1 else e.initWatch }

/-- number of channels allocated for one table -/
def uwAlloc (reg : Bool) (e : TableV) : Nat := if reg ∧ e.initWatch = 0 then 2 else 1

theorem uwF_eq (th : Thread) (st : State) (es : List TableV) (nt : List Nat) (i : Nat) :
    uwF th (st, es, nt) i =
      ({ st with nextChan := st.nextChan + uwAlloc (th.regInit.contains i) (getT es i) },
       setT es i (uwEntry (th.regInit.contains i) (th.markInit.contains i) st.nextChan (getT es i)),
       (getT es i).watch :: nt) := by
  unfold uwF
  generalize th.regInit.contains i = r
  generalize th.markInit.contains i = m
  by_cases h2 : (getT es i).initWatch = 0 <;> cases r <;> cases m <;>
    simp [uwEntry, uwAlloc, h2]

/-- what the loop of `doUserWrites` over the tables `ls` does -/
structure UWSpec (th : Thread) (ls : List Nat) (st st' : State) (es es' : List TableV) (f : Nat → Nat) : Prop where
  root : st'.root = st.root
  closed : st'.closed = st.closed
  lockOwner : st'.lockOwner = st.lockOwner
  rootMu : st'.rootMu = st.rootMu
  threads : st'.threads = st.threads
  mono : st.nextChan ≤ st'.nextChan
  len : es'.length = es.length
  other : ∀ x, x ∉ ls → getT es' x = getT es x
  bound : ∀ x, x ∈ ls →
    st.nextChan ≤ f x ∧ f x + uwAlloc (th.regInit.contains x) (getT es x) ≤ st'.nextChan
  entry : ∀ x, x ∈ ls → x < es.length →
    getT es' x = uwEntry (th.regInit.contains x) (th.markInit.contains x) (f x) (getT es x)
  apart : ∀ x y, x ∈ ls → y ∈ ls → x ≠ y →
    f x + uwAlloc (th.regInit.contains x) (getT es x) ≤ f y ∨ f y + uwAlloc (th.regInit.contains y) (getT es y) ≤ f x

theorem uwAlloc_pos (reg : Bool) (e : TableV) : 1 ≤ uwAlloc reg e := by
  unfold uwAlloc; split <;> omega

theorem uw_fold_full (th : Thread) : ∀ (ls : List Nat) (st : State) (es : List TableV) (nt : List Nat), ls.Nodup →
    (∃ f, UWSpec th ls st (ls.foldl (uwF th) (st, es, nt)).1 es (ls.foldl (uwF th) (st, es, nt)).2.1 f) ∧
    (ls.foldl (uwF th) (st, es, nt)).2.2 = (ls.map fun x => (getT es x).watch).reverse ++ nt := by
  intro ls
  induction ls with
  | nil =>
    intro st es nt _
    exact ⟨⟨fun _ => 0, ⟨rfl, rfl, rfl, rfl, rfl, Nat.le_refl _, rfl, fun _ _ => rfl, fun x hx => by simp at hx,
      fun x hx => by simp at hx, fun x y hx => by simp at hx⟩⟩, by simp⟩
  | cons i ls ih =>
    intro st es nt hnd
    rw [List.nodup_cons] at hnd
    obtain ⟨hi, hnd⟩ := hnd
    simp only [List.foldl_cons, uwF_eq]
    obtain ⟨⟨f, hf⟩, hn⟩ := ih { st with nextChan := st.nextChan + uwAlloc (th.regInit.contains i) (getT es i) }
      (setT es i (uwEntry (th.regInit.contains i) (th.markInit.contains i) st.nextChan (getT es i)))
      ((getT es i).watch :: nt) hnd
    have hother : ∀ x, x ≠ i → getT (setT es i (uwEntry (th.regInit.contains i) (th.markInit.contains i) st.nextChan
        (getT es i))) x = getT es x := by
      intro x hx; rw [getT_setT]; simp [hx]
    have hpos := uwAlloc_pos (th.regInit.contains i) (getT es i)
    refine ⟨⟨fun x => if x = i then st.nextChan else f x, ?_⟩, ?_⟩
    · constructor
      · exact hf.root
      · exact hf.closed
      · exact hf.lockOwner
      · exact hf.rootMu
      · exact hf.threads
      · have := hf.mono; simp only at this; omega
      · rw [hf.len, length_setT]
      · intro x hx
        simp only [List.mem_cons, not_or] at hx
        rw [hf.other x hx.2, hother x hx.1]
      · intro x hx
        by_cases hxi : x = i
        · subst hxi
          simp only [if_true]
          have := hf.mono; simp only at this
          exact ⟨Nat.le_refl _, this⟩
        · simp only [hxi, if_false]
          have hxm : x ∈ ls := by
            simp only [List.mem_cons] at hx; exact hx.resolve_left hxi
          obtain ⟨g1, g2⟩ := hf.bound x hxm
          rw [hother x hxi] at g2
          simp only at g1
          exact ⟨by omega, g2⟩
      · intro x hx hxl
        by_cases hxi : x = i
        · subst hxi
          simp only [if_true]
          rw [hf.other x hi, getT_setT]; simp [hxl]
        · simp only [hxi, if_false]
          have hxm : x ∈ ls := by
            simp only [List.mem_cons] at hx; exact hx.resolve_left hxi
          have g3 := hf.entry x hxm (by rw [length_setT]; exact hxl)
          rw [hother x hxi] at g3
          exact g3
      · intro x y hx hy hxy
        simp only [List.mem_cons] at hx hy
        by_cases hxi : x = i
        · subst hxi
          have hyi : y ≠ x := fun e => hxy e.symm
          have hym : y ∈ ls := hy.resolve_left hyi
          simp only [if_true, hyi, if_false]
          left
          exact (hf.bound y hym).1
        · by_cases hyi : y = i
          · subst hyi
            have hxm : x ∈ ls := hx.resolve_left hxi
            simp only [hxi, if_false, if_true]
            right
            exact (hf.bound x hxm).1
          · simp only [hxi, hyi, if_false]
            have := hf.apart x y (hx.resolve_left hxi) (hy.resolve_left hyi) hxy
            rw [hother x hxi, hother y hyi] at this
            exact this
    · rw [hn]
      have : ls.map (fun x => (getT (setT es i (uwEntry (th.regInit.contains i) (th.markInit.contains i) st.nextChan
          (getT es i))) x).watch) = ls.map (fun x => (getT es x).watch) := by
        apply List.map_congr_left
        intro a ha
        rw [hother a (fun e => hi (e ▸ ha))]
      rw [this]; simp

/-- `doUserWrites` in full -/
theorem doUserWrites_full (st : State) (th : Thread) (hnd : th.locked.Nodup) :
    (∃ f, UWSpec th th.locked st (doUserWrites st th).1 th.entries (doUserWrites st th).2.entries f) ∧
    (doUserWrites st th).2.toNotify = th.locked.map (fun x => (getT th.entries x).watch) ∧
    (doUserWrites st th).2 = { th with entries := (doUserWrites st th).2.entries,
                                        toNotify := (doUserWrites st th).2.toNotify } := by
  rw [doUserWrites_eq]
  obtain ⟨h1, h2⟩ := uw_fold_full th th.locked st th.entries [] hnd
  refine ⟨h1, ?_, rfl⟩
  simp only [h2, List.append_nil, List.reverse_reverse]

end Sdb.Conc
