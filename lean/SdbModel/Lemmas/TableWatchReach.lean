import SdbModel.Lemmas.TableWatchTable
/-!
  Lemmas for the C06 glue, part 5: LPM indexes (one channel per committed version),
  the reachable states of one table (Model.Table state × Model.TableWatch state) and
  the invariant that holds in all of them.
  Core Lean only.
-/
namespace Sdb.TW
open Sdb.Art Sdb.Tbl Sdb.ArtW

/-! ### LPM indexes -/

/-- the channel of a committed LPM index is the newest allocated one; the closed ones are older -/
structure LInv (l : LIdx) : Prop where
  pos : l.ch ≠ 0
  lt : l.ch < l.wd.nextW
  cl : ∀ c ∈ l.wd.closed, c < l.ch

theorem LInv.new : LInv newLIdx := ⟨by decide, by decide, by intro c hc; simp [newLIdx] at hc⟩

theorem LInv.commit {l : LIdx} (h : LInv l) (w : LW) : LInv (l.commit w) := by
  unfold LIdx.commit
  split
  · refine ⟨?_, ?_, ?_⟩
    · have := h.lt; show l.wd.nextW ≠ 0; omega
    · show l.wd.nextW < l.wd.nextW + 1; omega
    · intro c hc
      simp only [List.mem_cons] at hc
      show c < l.wd.nextW
      rcases hc with rfl | hc
      · exact h.lt
      · exact Nat.lt_trans (h.cl c hc) h.lt
  · exact h

theorem LInv.open_ {l : LIdx} (h : LInv l) : l.ch ∉ l.wd.closed := fun hc => Nat.lt_irrefl _ (h.cl _ hc)

/-- table operations whose tree operations do not create the LPM transactions leave the LPM maps alone -/
theorem modify_lpm (t : TableS) (g : Nat) (o : Obj) (mg : Bool) (h : (modifyOps t g o mg).lpm = false) :
    (Tbl.modify t g o mg).1.lpm = t.lpm ∧ (Tbl.modify t g o mg).1.ulpm = t.ulpm := by
  rcases modify_cases t g o mg with ⟨hl, he⟩ | ⟨hl, hg, hn, he⟩ | ⟨hl, hg, oo, ho, hr, he⟩ | ⟨hl, hok, t', he, hm⟩
  · rw [he]; exact ⟨rfl, rfl⟩
  · rw [he]; exact ⟨rfl, rfl⟩
  · rw [he]; exact ⟨rfl, rfl⟩
  · have hidx := modify_ok_idx t g o mg hl hok
    have hfull : t.full = false := by
      unfold modifyOps at h
      cases hold : t.primary.get o.id with
      | none =>
        have hg0 : ¬ g > 0 := by
          rcases hok with h0 | ⟨oo, ho, _⟩
          · omega
          · rw [hold] at ho; exact absurd ho (by simp)
        simpa [hl, hold, hg0] using h
      | some oo =>
        have hg1 : ¬ (g > 0 ∧ oo.rev ≠ g) := by
          rcases hok with h0 | ⟨oo', ho, hr⟩
          · omega
          · rw [hold] at ho; cases ho; omega
        simpa [hl, hold, hg1] using h
    rw [hidx.lpm, hidx.ulpm, hfull]; exact ⟨rfl, rfl⟩

theorem delete_lpm (t : TableS) (g : Nat) (id : Key) (h : (deleteOps t g id).lpm = false) :
    (Tbl.delete t g id).1.lpm = t.lpm ∧ (Tbl.delete t g id).1.ulpm = t.ulpm := by
  rcases delete_cases t g id with ⟨hl, he⟩ | ⟨hl, hn, he⟩ | ⟨hl, hg, old, ho, hr, he⟩ | ⟨hl, old, ho, hg, t', he, hd⟩
  · rw [he]; exact ⟨rfl, rfl⟩
  · rw [he]; exact ⟨rfl, rfl⟩
  · rw [he]; exact ⟨rfl, rfl⟩
  · have hidx := delete_ok_idx t g id hl old ho hg
    have hfull : t.full = false := by
      unfold deleteOps at h
      have hg1 : ¬ (g > 0 ∧ old.rev ≠ g) := by omega
      simpa [hl, ho, hg1] using h
    rw [hidx.lpm, hidx.ulpm, hfull]; exact ⟨rfl, rfl⟩

theorem delFold_lpm (l : List (Key × Obj)) (t : TableS) (a : TOps)
    (h : (l.foldl (fun (acc : TableS × TOps) (e : Key × Obj) =>
        ((Tbl.delete acc.1 0 e.1).1, acc.2.append (deleteOps acc.1 0 e.1))) (t, a)).2.lpm = false) :
    a.lpm = false ∧ (delFold l t).lpm = t.lpm ∧ (delFold l t).ulpm = t.ulpm := by
  induction l generalizing t a with
  | nil => exact ⟨h, rfl, rfl⟩
  | cons e l ih =>
    rw [List.foldl_cons] at h
    obtain ⟨h1, h2, h3⟩ := ih _ _ h
    have h1' : (a.lpm || (deleteOps t 0 e.1).lpm) = false := h1
    rw [Bool.or_eq_false_iff] at h1'
    obtain ⟨d1, d2⟩ := delete_lpm t 0 e.1 h1'.2
    rw [delFold_cons, h2, h3, d1, d2]
    exact ⟨h1'.1, rfl, rfl⟩

theorem deleteAll_lpm (t : TableS) (h : (deleteAllOps t).lpm = false) :
    (Tbl.deleteAll t).1.lpm = t.lpm ∧ (Tbl.deleteAll t).1.ulpm = t.ulpm := by
  rw [deleteAll_eq]
  unfold deleteAllOps at h
  cases hl : t.locked with
  | false => simp
  | true =>
    simp only [hl, Bool.not_true, Bool.false_eq_true, if_false] at h
    simp only [if_true]
    exact (delFold_lpm t.primary t _ h).2

theorem onTable_lpm (t : TableS) (op : TOp) (h : (op.ops t).lpm = false) :
    (op.onTable t).lpm = t.lpm ∧ (op.onTable t).ulpm = t.ulpm := by
  cases op with
  | modify g o mg => exact modify_lpm t g o mg h
  | delete g id => exact delete_lpm t g id h
  | deleteAll => exact deleteAll_lpm t h
  | read ix k => exact ⟨rfl, rfl⟩

/-- inside a write transaction: the LPM indexes keep the committed channel, and their transactions
    exist as soon as an LPM map differs from the committed one -/
structure LTrack (c : CTab) (t0 : TableS) (s : TableS × WTab) : Prop where
  ch : s.2.lpm.ch = c.lpm.ch ∧ s.2.ulpm.ch = c.ulpm.ch
  opened : (s.1.lpm ≠ t0.lpm ∨ s.1.ulpm ≠ t0.ulpm) → s.2.lpm.opened = true ∧ s.2.ulpm.opened = true

theorem LTrack.step {c : CTab} {t0 : TableS} {s : TableS × WTab} (h : LTrack c t0 s) (op : TOp) :
    LTrack c t0 (stepT c s op) := by
  refine ⟨h.ch, ?_⟩
  intro hne
  show (s.2.lpm.opened || (op.ops s.1).lpm) = true ∧ (s.2.ulpm.opened || (op.ops s.1).lpm) = true
  cases hl : (op.ops s.1).lpm with
  | true => simp
  | false =>
    obtain ⟨e1, e2⟩ := onTable_lpm s.1 op hl
    have hne' : s.1.lpm ≠ t0.lpm ∨ s.1.ulpm ≠ t0.ulpm := by
      rcases hne with hne | hne
      · left; intro he; apply hne; show (op.onTable s.1).lpm = _; rw [e1, he]
      · right; intro he; apply hne; show (op.onTable s.1).ulpm = _; rw [e2, he]
    obtain ⟨o1, o2⟩ := h.opened hne'
    simp [o1, o2]

theorem LTrack.run {c : CTab} {t0 : TableS} {s : TableS × WTab} (h : LTrack c t0 s) (ops : List TOp) :
    LTrack c t0 (runT c s ops) := by
  induction ops generalizing s with
  | nil => exact h
  | cons op ops ih => exact ih (h.step op)

/-! ### reachable states of one table -/

/-- the transaction a writer runs on a table it holds: Model.Table's entry locked, the index trees copied -/
def beginT (t : TableS) (c : CTab) : TableS × WTab := ({ t with locked := true }, c.begin true)

/-- states (Model.Table's table, Model.TableWatch's table) reachable by write transactions that are
    committed or aborted; `frame`: anything else Model.Table does to a table (locks, revision counters
    of rejected operations, graveyard, trackers, initializers, collector) leaves the index maps alone -/
inductive Reach : TableS → CTab → Prop where
  | init (full : Bool) : Reach { full := full } (newCTab full)
  | commit (t : TableS) (c : CTab) (ops : List TOp) : Reach t c →
      Reach (runT c (beginT t c) ops).1 (c.commit (runT c (beginT t c) ops).2)
  | abort (t : TableS) (c : CTab) (ops : List TOp) : Reach t c → Reach t (c.abort (runT c (beginT t c) ops).2)
  | frame (t t' : TableS) (c : CTab) : Reach t c → (∀ i, imap t' i = imap t i) → t'.lpm = t.lpm → t'.ulpm = t.ulpm →
      Reach t' c

/-- the invariant of a committed table -/
structure TInvW (t : TableS) (c : CTab) : Prop where
  part : ∀ i, CInv (c.part.get i) (imap t i)
  lpm : LInv c.lpm
  ulpm : LInv c.ulpm

theorem TInvW.begin {t : TableS} {c : CTab} (h : TInvW t c) : TTrack c t (beginT t c) ∧ LTrack c t (beginT t c) := by
  refine ⟨⟨?_, ?_, rfl⟩, ⟨⟨rfl, rfl⟩, ?_⟩⟩
  · intro i
    show Track _ ((c.begin true).part.get i) _ _
    unfold CTab.begin
    simp only [Tri.get_tab]
    exact Track.init _ _ _ (h.part i).wf (h.part i).ent
  · intro i
    show ((c.begin true).part.get i).tree = _
    unfold CTab.begin
    simp only [Tri.get_tab]
  · intro hne; rcases hne with hne | hne <;> exact absurd rfl hne

theorem runT_locked (c : CTab) (s : TableS × WTab) (ops : List TOp) : (runT c s ops).2.locked = s.2.locked := by
  induction ops generalizing s with
  | nil => rfl
  | cons op ops ih => rw [show runT c s (op :: ops) = runT c (stepT c s op) ops from rfl, ih]; rfl

theorem commit_part (c : CTab) (w : WTab) (hl : w.locked = true) (i : PIx) :
    (c.commit w).part.get i = (c.part.get i).commit (w.part.get i) := by
  unfold CTab.commit; simp [hl]

theorem abort_part (c : CTab) (w : WTab) (hl : w.locked = true) (i : PIx) :
    (c.abort w).part.get i = (c.part.get i).abort (w.part.get i) := by
  unfold CTab.abort; simp [hl]

theorem TInvW.commit {t : TableS} {c : CTab} (h : TInvW t c) (ops : List TOp) :
    TInvW (runT c (beginT t c) ops).1 (c.commit (runT c (beginT t c) ops).2) := by
  have ht := h.begin.1.run ops
  refine ⟨?_, ?_, ?_⟩
  · intro i
    rw [commit_part c _ ht.locked i]
    exact (h.part i).commit (ht.idx i) (ht.tree i)
  · unfold CTab.commit; simp only [ht.locked, if_true]; exact h.lpm.commit _
  · unfold CTab.commit; simp only [ht.locked, if_true]; exact h.ulpm.commit _

theorem TInvW.abort {t : TableS} {c : CTab} (h : TInvW t c) (ops : List TOp) :
    TInvW t (c.abort (runT c (beginT t c) ops).2) := by
  have ht := h.begin.1.run ops
  refine ⟨?_, ?_, ?_⟩
  · intro i
    rw [abort_part c _ ht.locked i]
    exact (h.part i).abort _
  · unfold CTab.abort; simp only [ht.locked, if_true]; exact h.lpm
  · unfold CTab.abort; simp only [ht.locked, if_true]; exact h.ulpm

theorem TInvW.init (full : Bool) : TInvW { full := full } (newCTab full) := by
  refine ⟨?_, LInv.new, LInv.new⟩
  intro i
  have : (newCTab full).part.get i = newCIdx := by unfold newCTab; simp
  rw [this]
  cases i <;> exact CInv.new

theorem Reach.inv {t : TableS} {c : CTab} (h : Reach t c) : TInvW t c := by
  induction h with
  | init full => exact TInvW.init full
  | commit t c ops _ ih => exact ih.commit ops
  | abort t c ops _ ih => exact ih.abort ops
  | frame t t' c _ hi _ _ ih =>
    refine ⟨?_, ih.lpm, ih.ulpm⟩
    intro i; rw [hi i]; exact ih.part i

end Sdb.TW
