import SdbModel.Lemmas.LpmOrder

/-! Longest-prefix lookup of the LPM trie.  Core Lean only. -/
namespace Sdb.Lpm
variable {α : Type}

/-- a non-empty well-formed trie stores at least one entry (imaginary nodes have children) -/
theorem exists_entry : ∀ (t : Trie α), WF t → t ≠ .nil → ∃ e, e ∈ preorder t := by
  intro t
  induction t with
  | nil => intro _ h; exact absurd rfl h
  | node d p v c0 c1 ih0 _ =>
    intro hwf _
    cases v with
    | some x => exact ⟨(d, p, x), by rw [mem_preorder_node]; exact Or.inl ⟨rfl, rfl, rfl⟩⟩
    | none =>
      obtain ⟨e, he⟩ := ih0 hwf.2.2.2.2.1 (hwf.2.1 rfl).1
      obtain ⟨d', p', v'⟩ := e
      exact ⟨(d', p', v'), by rw [mem_preorder_node]; exact Or.inr (Or.inl he)⟩

/-- the walk of `lpmLookup`, for a key at least as long as every stored prefix, or (any key) when
    no node of the trie lies under the key's prefix -/
theorem lookup_spec (data : List Nat) (plen : Nat) (hq : Canon data plen) :
    ∀ (t : Trie α) (s : Nat) (closest : Option α), WF t → Pre s data plen t →
      ((∀ e ∈ preorder t, e.2.1 ≤ plen) ∨ prefixNode data plen t s = .nil) →
      (lookup data plen t s closest = closest ∧ ∀ e ∈ preorder t, ¬ Covers e.1 e.2.1 data plen) ∨
      (∃ d' p' v', lookup data plen t s closest = some v' ∧ (d', p', v') ∈ preorder t ∧
        Covers d' p' data plen ∧ ∀ e ∈ preorder t, Covers e.1 e.2.1 data plen → e.2.1 ≤ p') := by
  intro t
  induction t with
  | nil => intro s closest _ _ _; exact Or.inl ⟨rfl, by simp [preorder]⟩
  | node nd npl nv c0 c1 ih0 ih1 =>
    intro s closest hwf hpre hok
    have hwf' := hwf
    obtain ⟨hcn, himg, hB0, hB1, hw0, hw1⟩ := hwf
    obtain ⟨hs1, hs2, hs3⟩ := hpre
    obtain ⟨m1, m2, m3, m4⟩ := ml_facts hcn hq hs1 hs2 hs3
    have hcov : ∀ e ∈ preorder (.node nd npl nv c0 c1), npl ≤ e.2.1 ∧ Agree nd e.1 npl :=
      fun ⟨_, _, _⟩ h => mem_covered hwf' h
    generalize hml : longestMatch s nd npl data plen = ml at *
    simp only [lookup, hml]
    split
    · rename_i h1
      have hfull : ∀ e ∈ preorder (.node nd npl nv c0 c1), e.2.1 ≤ plen := by
        rcases hok with h | h
        · exact h
        · simp only [prefixNode, hml, h1, if_true] at h
          exact absurd h (by simp)
      subst h1
      obtain ⟨e, he⟩ := exists_entry _ hwf' (by simp)
      have hnp : npl = ml := by have := (hcov e he).1; have := hfull e he; omega
      subst hnp
      have : nd = data := canon_ext _ _ _ hcn hq m3
      subst this
      cases nv with
      | some x =>
        refine Or.inr ⟨nd, npl, x, rfl, by rw [mem_preorder_node]; exact Or.inl ⟨rfl, rfl, rfl⟩,
          ⟨Nat.le_refl _, Agree.refl _ _⟩, fun e he _ => hfull e he⟩
      | none =>
        obtain ⟨⟨d', p', v'⟩, he0⟩ := exists_entry c0 hw0 (himg rfl).1
        have h1 := (below_of_mem hB0 he0).1
        have h2 := hfull (d', p', v') (by rw [mem_preorder_node]; exact Or.inr (Or.inl he0))
        simp only at h2
        omega
    · split
      · rename_i hne hlt
        have hdiff := m4 hlt (by omega)
        refine Or.inl ⟨rfl, ?_⟩
        intro e he ⟨k1, k2⟩
        obtain ⟨c1, c2⟩ := hcov e he
        exact hdiff ((c2 ml hlt).trans (k2 ml (by omega)))
      · rename_i hne hge
        have hml' : ml = npl := by omega
        subst hml'
        have hbit := getBitAt_lt_two data ml
        have hother : ∀ (b : Nat) (c : Trie α), AllKeys (Below nd ml b) c → getBitAt data ml ≠ b →
            ∀ e ∈ preorder c, ¬ Covers e.1 e.2.1 data plen := by
          intro b c hB hb ⟨d', p', v'⟩ he ⟨k1, k2⟩
          obtain ⟨b1, b2, b3⟩ := below_of_mem hB he
          exact hb ((k2 ml b1).symm.trans b3)
        -- the common argument for the child `c` on the side of bit `b`, the other child being `c'`
        have key : ∀ (b : Nat) (c c' : Trie α) (cl : Option α), AllKeys (Below nd ml b) c → WF c →
            (nv = none → cl = closest) → (∀ x, nv = some x → cl = some x) →
            (∀ e ∈ preorder c', ¬ Covers e.1 e.2.1 data plen) →
            (∀ e, e ∈ preorder (.node nd ml nv c0 c1) ↔ e ∈ selfEntry nd ml nv ∨ e ∈ preorder c ∨ e ∈ preorder c') →
            ((lookup data plen c ml cl = cl ∧ ∀ e ∈ preorder c, ¬ Covers e.1 e.2.1 data plen) ∨
             (∃ d' p' v', lookup data plen c ml cl = some v' ∧
                (d', p', v') ∈ preorder c ∧ Covers d' p' data plen ∧
                ∀ e ∈ preorder c, Covers e.1 e.2.1 data plen → e.2.1 ≤ p')) →
            (lookup data plen c ml cl = closest ∧
              ∀ e ∈ preorder (.node nd ml nv c0 c1), ¬ Covers e.1 e.2.1 data plen) ∨
            (∃ d' p' v', lookup data plen c ml cl = some v' ∧
              (d', p', v') ∈ preorder (.node nd ml nv c0 c1) ∧ Covers d' p' data plen ∧
              ∀ e ∈ preorder (.node nd ml nv c0 c1), Covers e.1 e.2.1 data plen → e.2.1 ≤ p') := by
          intro b c c' cl hB hw hcl1 hcl2 hc' hmem ih
          rcases ih with ⟨r1, r2⟩ | ⟨d', p', v', r1, r2, r3, r4⟩
          · cases nv with
            | none =>
              refine Or.inl ⟨r1.trans (hcl1 rfl), ?_⟩
              intro e he
              rcases (hmem e).mp he with h | h | h
              · simp [selfEntry] at h
              · exact r2 e h
              · exact hc' e h
            | some x =>
              refine Or.inr ⟨nd, ml, x, r1.trans (hcl2 x rfl), (hmem _).mpr (Or.inl (by simp [selfEntry])), ⟨m2, m3⟩, ?_⟩
              intro e he hce
              rcases (hmem e).mp he with h | h | h
              · simp only [selfEntry, List.mem_singleton] at h
                subst h; exact Nat.le_refl _
              · exact absurd hce (r2 e h)
              · exact absurd hce (hc' e h)
          · refine Or.inr ⟨d', p', v', r1, (hmem _).mpr (Or.inr (Or.inl r2)), r3, ?_⟩
            intro e he hce
            rcases (hmem e).mp he with h | h | h
            · have hp := (below_of_mem hB r2).1
              cases nv with
              | none => simp [selfEntry] at h
              | some x =>
                simp only [selfEntry, List.mem_singleton] at h
                subst h
                simp only; omega
            · exact r4 e h hce
            · exact absurd hce (hc' e h)
        split
        · rename_i hb0
          have hfull0 : (∀ e ∈ preorder c0, e.2.1 ≤ plen) ∨ prefixNode data plen c0 ml = .nil := by
            rcases hok with h | h
            · exact Or.inl fun e he => h e (by rw [preorder_node]; simp [he])
            · simp only [prefixNode, hml, hne, hge, hb0, if_true, if_false] at h
              exact Or.inr h
          exact key 0 c0 c1 _ hB0 hw0 (fun h => by subst h; rfl) (fun x h => by subst h; rfl) (hother 1 c1 hB1 (by omega))
            (fun e => by rw [preorder_node]; simp)
            (ih0 ml _ hw0 (pre_child hB0 m2 m3) hfull0)
        · rename_i hb1
          have hfull1 : (∀ e ∈ preorder c1, e.2.1 ≤ plen) ∨ prefixNode data plen c1 ml = .nil := by
            rcases hok with h | h
            · exact Or.inl fun e he => h e (by rw [preorder_node]; simp [he])
            · simp only [prefixNode, hml, hne, hge, hb1, if_false] at h
              exact Or.inr h
          exact key 1 c1 c0 _ hB1 hw1 (fun h => by subst h; rfl) (fun x h => by subst h; rfl) (hother 0 c0 hB0 hb1)
            (fun e => by rw [preorder_node]; simp only [List.mem_append]; grind)
            (ih1 ml _ hw1 (pre_child hB1 m2 m3) hfull1)

/-- a stored prefix looks itself up (for any key, full-length or not) -/
theorem lookup_self (data : List Nat) (plen : Nat) (hq : Canon data plen) :
    ∀ (t : Trie α) (s : Nat) (closest : Option α), WF t → Pre s data plen t →
      ∀ v, (data, plen, v) ∈ preorder t → lookup data plen t s closest = some v := by
  intro t
  induction t with
  | nil => intro s closest _ _ v h; simp [preorder] at h
  | node nd npl nv c0 c1 ih0 ih1 =>
    intro s closest hwf hpre v hm
    obtain ⟨hcn, himg, hB0, hB1, hw0, hw1⟩ := hwf
    obtain ⟨hs1, hs2, hs3⟩ := hpre
    obtain ⟨m1, m2, m3, m4⟩ := ml_facts hcn hq hs1 hs2 hs3
    generalize hml : longestMatch s nd npl data plen = ml at *
    simp only [lookup, hml]
    rw [mem_preorder_node] at hm
    have hbit := getBitAt_lt_two data npl
    rcases hm with ⟨h1, h2, h3⟩ | hm | hm
    · subst h1; subst h2
      have : ml = plen := by
        apply Classical.byContradiction
        intro hne
        exact m4 (by omega) (by omega) rfl
      rw [if_pos this, h3]
    · obtain ⟨b1, b2, b3⟩ := below_of_mem hB0 hm
      have : ml = npl := by
        apply Classical.byContradiction
        intro hne
        exact m4 (by omega) (by omega) (b2 ml (by omega))
      subst this
      rw [if_neg (by omega), if_neg (by omega), if_pos b3]
      exact ih0 ml _ hw0 (pre_child hB0 m2 m3) v hm
    · obtain ⟨b1, b2, b3⟩ := below_of_mem hB1 hm
      have : ml = npl := by
        apply Classical.byContradiction
        intro hne
        exact m4 (by omega) (by omega) (b2 ml (by omega))
      subst this
      rw [if_neg (by omega), if_neg (by omega), if_neg (by omega)]
      exact ih1 ml _ hw1 (pre_child hB1 m2 m3) v hm

/-- when some node lies under the key's prefix, `lpmLookup` returns the value slot of the topmost
    such node (none for an imaginary one) -/
theorem lookup_hit (data : List Nat) (plen : Nat) (hq : Canon data plen) :
    ∀ (t : Trie α) (s : Nat) (closest : Option α), WF t → Pre s data plen t →
      ∀ pd pp pv pc0 pc1, prefixNode data plen t s = .node pd pp pv pc0 pc1 →
        lookup data plen t s closest = pv := by
  intro t
  induction t with
  | nil => intro s closest _ _ pd pp pv pc0 pc1 h; simp [prefixNode] at h
  | node nd npl nv c0 c1 ih0 ih1 =>
    intro s closest hwf hpre pd pp pv pc0 pc1 h
    obtain ⟨hcn, himg, hB0, hB1, hw0, hw1⟩ := hwf
    obtain ⟨hs1, hs2, hs3⟩ := hpre
    obtain ⟨m1, m2, m3, m4⟩ := ml_facts hcn hq hs1 hs2 hs3
    generalize hml : longestMatch s nd npl data plen = ml at *
    simp only [prefixNode, hml] at h
    simp only [lookup, hml]
    split
    · rename_i h1
      rw [if_pos h1] at h
      injection h
    · rename_i h1
      rw [if_neg h1] at h
      split
      · rename_i h2
        rw [if_pos h2] at h
        exact absurd h (by simp)
      · rename_i h2
        rw [if_neg h2] at h
        have hml' : ml = npl := by omega
        subst hml'
        split
        · rename_i hb
          rw [if_pos hb] at h
          exact ih0 ml _ hw0 (pre_child hB0 m2 m3) pd pp pv pc0 pc1 h
        · rename_i hb
          rw [if_neg hb] at h
          exact ih1 ml _ hw1 (pre_child hB1 m2 m3) pd pp pv pc0 pc1 h

/-- the subtree `Prefix` starts from is rooted at a node whose prefix extends the query -/
theorem prefixNode_root_covered (data : List Nat) (plen : Nat) (hq : Canon data plen) :
    ∀ (t : Trie α) (s : Nat), WF t → Pre s data plen t →
      ∀ pd pp pv pc0 pc1, prefixNode data plen t s = .node pd pp pv pc0 pc1 → Covers data plen pd pp := by
  intro t
  induction t with
  | nil => intro s _ _ pd pp pv pc0 pc1 h; simp [prefixNode] at h
  | node nd npl nv c0 c1 ih0 ih1 =>
    intro s hwf hpre pd pp pv pc0 pc1 h
    obtain ⟨hcn, himg, hB0, hB1, hw0, hw1⟩ := hwf
    obtain ⟨hs1, hs2, hs3⟩ := hpre
    obtain ⟨m1, m2, m3, m4⟩ := ml_facts hcn hq hs1 hs2 hs3
    generalize hml : longestMatch s nd npl data plen = ml at *
    simp only [prefixNode, hml] at h
    split at h
    · rename_i h1
      injection h with e1 e2
      subst e1; subst e2; subst h1
      exact ⟨m1, m3.symm⟩
    · split at h
      · exact absurd h (by simp)
      · have hml' : ml = npl := by omega
        subst hml'
        split at h
        · exact ih0 ml hw0 (pre_child hB0 m2 m3) pd pp pv pc0 pc1 h
        · exact ih1 ml hw1 (pre_child hB1 m2 m3) pd pp pv pc0 pc1 h

end Sdb.Lpm
